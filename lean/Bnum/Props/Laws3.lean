/-
  Bnum.Props.Laws3 — EXTENSION beyond properties C01–C20: CROSS-MODULE laws, relating functions from
  different modules of the model to each other (conversions <-> arithmetic <-> order <-> text / bytes /
  floats).  Stated about the MODEL functions (`castBnum`, `UI.*`, `II.*`, `btryFrom`, `NumC.*`,
  `Fmt`/`Radix`/`Endian`/`FltD` namespaces) for every digit width `w` and digit count `n` under the
  hypotheses of the underlying spec theorems; every law is an equality of digit lists / `Option` /
  `Outcome` values obtained from the spec theorems of Props/C01–C20 (both sides are well formed and
  denote the same value, hence are identical: `U_injective`, `Laws.Rep`), so laws between `Outcome`s
  also say that neither side panics.  251 theorems (224 laws + 27 recorded counterexamples).
  Helpers: Lemmas/Laws3.lean.  Audit: Audit/Laws3.lean (only `propext`, `Classical.choice`, `Quot.sound`).

  Notation: `castBnum w₁ s₁ x w₂ n₂ s₂` is `x as T₂` where `x : T₁` has digit width `w₁` and signedness
  `s₁`, and `T₂` has `n₂` digits of width `w₂` and signedness `s₂` (C09).  `Dims w₁ n₁ w₂ n₂` bundles the
  C09 side conditions (`1 ≤ wᵢ`, `1 ≤ nᵢ`, `w₁ ∣ w₂ ∨ w₂ ∣ w₁` — true for all real digit types).
  `valOf s w x` = `U w x` (`s = false`) / `S w x` (`s = true`); `repOf s m z` = `z` representable.
  `map₂ f oa ob` / `bind₂` apply `f` under two `Outcome`s; `keepIf p y` = `Some y` if `p` else `None`;
  `cmpOf s w` = `BUint::cmp` / `BInt::cmp`.  A law that is FALSE as naively stated is recorded as
  `…_counterexample` (proved by `decide` on a concrete instance) next to the corrected law.

  Sections (file order)
   A. cast composition: `cast_cast` (master law), round trips, unsigned / signed chains with the correct
      side conditions, `cast_signed`/`cast_unsigned`/`to_bits`/`from_bits`, signedness irrelevance.
   B. casts are homomorphisms: wrapping add / sub / mul / neg / pow, `unbounded_shl`, `!`, `& | ^`
      (these three for EVERY cast), `unbounded_shr` (zero- and sign-extension, every amount), constants.
      One theorem per operation with the side condition "narrowing, or exact result representable".
   C. casts vs order: `cast_cmp` (master law), zext / sext / fitting-narrowing instances, `max`/`min`,
      `is_negative`.
   D. checked conversions vs casts: `BTryFrom` / `FromPrimitive` / `ToPrimitive` = cast + "value kept?"
      (`*_eq_cast_filter`), `Ok ↔ round trip` (same signedness; mixed: counterexample),
      `to_K = try_from::<K-bit bnum>`, `from_T ∘ to_T`, `From` impls = casts (and the F6 defect).
   E. text (C10 / C11 / C12): injectivity of printing, be/le, Display/LowerHex/UpperHex/Binary/Octal vs
      `to_str_radix`, `#`/`+` flags, `parse_bytes`, `parse_str_radix`, parse ∘ format round trips,
      case-insensitivity of parsing.
   F. bytes (C15 × C05 / C06 / C09 / C10 / C11): slice round trips, `swap_bytes`, padding / truncation,
      bytes = cast into `u8` digits, bytes vs radix 256, bytes vs bit operations and shifts.
   G. floats (C14 × C01 / C07 / C09 / C13 / C19): exact round trip below `2^p`, monotonicity both ways,
      negation, exactness / saturation / NaN of float → int, bool / char, width independence.
   H. checked arithmetic = exact arithmetic in a wider type + `try_from` (add, sub, mul, neg, mixed).
   I. casts to / from primitive integers vs bnum casts; ring homomorphism into primitives.
   J. zero-extension vs `bits`, `leading_zeros`, `count_ones`, `trailing_zeros`, `is_power_of_two`.
   K. division: zero- and sign-extension commute with `/`, `%` (`MIN / -1` excluded: counterexample);
      signed = unsigned division on non-negative operands.
   L. order vs arithmetic vs bits: signed cmp = unsigned cmp after `^ MIN`, `is_negative` = `≥ MIN`,
      borrow = `a < b`, carry = `a + b < a`, signed `<` = `N ≠ V`, `==` via `-` / `^`, `unsigned_abs`,
      `abs_diff = max - min`, `midpoint` via a wider type.
   M. casts vs printing, `bit(i)`, and saturating arithmetic = clamp in a wider type.

  NOT PROVED / not stated: none of the requested laws is left unproved.  Laws whose naive form is
  false are listed with their counterexamples (27 `…_counterexample` theorems), e.g. "unsigned
  A→B→C = A→C whenever BITS_B ≥ min(BITS_A, BITS_C)" fails through a signed `B` of the source width;
  "`try_from` Ok ↔ cast round trip is the identity" fails between types of different signedness;
  `{:#X}` is not the uppercase of `{:#x}`; signed zero-padding of byte slices; float round trip at
  `2^p + 1`; `-0` vs `+0.0`.
-/
import Bnum.Lemmas.Laws3

namespace Bnum.Laws3
open Bnum

section Casts
open Bnum.Laws

variable {w n w₁ n₁ w₂ n₂ w₃ n₃ : Nat} {x a b : List Nat}

/-! ## A. cast composition -/

/-- `x as T` for the type `T` of `x` itself — or the same-width type of the other signedness — keeps
    the digit list -/
theorem cast_same (hw : 1 ≤ w) (hn : 1 ≤ n) (s₁ s₂ : Bool) (hx : WF w n x) :
    castBnum w s₁ x w n s₂ = .ok x :=
  cast_eq_of_rep (Dims.refl hw hn) s₁ s₂ hx (rep_valOf s₁ hx)
example : castBnum 8 true [0x34, 0x80] 8 2 false = .ok [0x34, 0x80] := by decide

/-- MASTER COMPOSITION LAW.  `(x as B) as C = x as C` whenever `C` is not wider than `B` (any
    signedness anywhere), or the value of `x` is representable in `B`. -/
theorem cast_cast (d₁₂ : Dims w₁ n₁ w₂ n₂) (d₂₃ : Dims w₂ n₂ w₃ n₃) (d₁₃ : Dims w₁ n₁ w₃ n₃)
    (s₁ s₂ s₃ : Bool) (hx : WF w₁ n₁ x)
    (h : w₃ * n₃ ≤ w₂ * n₂ ∨ repOf s₂ (M w₂ n₂) (valOf s₁ w₁ x)) :
    (castBnum w₁ s₁ x w₂ n₂ s₂).bind (fun y => castBnum w₂ s₂ y w₃ n₃ s₃)
      = castBnum w₁ s₁ x w₃ n₃ s₃ := by
  obtain ⟨y, hy, ry⟩ := cast_ok d₁₂ s₁ s₂ hx
  obtain ⟨r, hr, rr⟩ := cast_ok d₁₃ s₁ s₃ hx
  rw [hy, hr, bind_ok]
  rcases h with h | h
  · exact cast_eq_of_rep_narrow d₂₃ s₂ s₃ h ry rr
  · exact cast_eq_of_rep_exact d₂₃ s₂ s₃ ry h rr
example : Dims 16 1 8 3 ∧ Dims 8 3 32 1 ∧ Dims 16 1 32 1 ∧ WF 16 1 [0x8001] ∧
    repOf true (M 8 3) (valOf true 16 [0x8001]) ∧
    (castBnum 16 true [0x8001] 8 3 true).bind (fun y => castBnum 8 true y 32 1 false)
      = castBnum 16 true [0x8001] 32 1 false := by decide

/-- widening then casting back is the identity: `(x as B) as A = x` whenever `B` is at least as wide
    as the type `A` of `x` — zero-extension (`s₁ = false`) and sign-extension (`s₁ = true`), same or
    different digit widths, and whatever the signedness `s₂` of `B` -/
theorem cast_roundtrip (d : Dims w₁ n₁ w₂ n₂) (s₁ s₂ : Bool) (hle : w₁ * n₁ ≤ w₂ * n₂)
    (hx : WF w₁ n₁ x) :
    (castBnum w₁ s₁ x w₂ n₂ s₂).bind (fun y => castBnum w₂ s₂ y w₁ n₁ s₁) = .ok x := by
  rw [cast_cast d d.symm (Dims.refl d.hw₁ d.hn₁) s₁ s₂ s₁ hx (Or.inl hle)]
  exact cast_same d.hw₁ d.hn₁ s₁ s₁ hx
example : Dims 8 2 16 2 ∧ WF 8 2 [0x34, 0x80] ∧
    (castBnum 8 true [0x34, 0x80] 16 2 false).bind (fun y => castBnum 16 false y 8 2 true)
      = .ok [0x34, 0x80] ∧ castBnum 8 true [0x34, 0x80] 16 2 false = .ok [0x8034, 0xffff] := by decide

/-- narrowing then widening back is NOT the identity (the dropped bits are lost) -/
theorem cast_roundtrip_narrow_counterexample :
    (castBnum 8 false [0x34, 0x12] 8 1 false).bind (fun y => castBnum 8 false y 8 2 false)
      = .ok [0x34, 0x00] := by decide

/-- unsigned chain `A → B → C` through an unsigned `B` with `BITS_B ≥ min(BITS_A, BITS_C)` -/
theorem cast_cast_unsigned (d₁₂ : Dims w₁ n₁ w₂ n₂) (d₂₃ : Dims w₂ n₂ w₃ n₃) (d₁₃ : Dims w₁ n₁ w₃ n₃)
    (s₃ : Bool) (hx : WF w₁ n₁ x) (h : min (w₁ * n₁) (w₃ * n₃) ≤ w₂ * n₂) :
    (castBnum w₁ false x w₂ n₂ false).bind (fun y => castBnum w₂ false y w₃ n₃ s₃)
      = castBnum w₁ false x w₃ n₃ s₃ := by
  apply cast_cast d₁₂ d₂₃ d₁₃ false false s₃ hx
  by_cases h3 : w₃ * n₃ ≤ w₂ * n₂
  · exact Or.inl h3
  · exact Or.inr (repOf_mono (s := false) (M_le_of_le (by omega)) (repOf_valOf false d₁₂.hw₁ d₁₂.hn₁ hx))
example : Dims 8 1 16 1 ∧ Dims 16 1 8 4 ∧ Dims 8 1 8 4 ∧
    (castBnum 8 false [200] 16 1 false).bind (fun y => castBnum 16 false y 8 4 true)
      = castBnum 8 false [200] 8 4 true := by decide

/-- … the naive law "for unsigned sources `BITS_B ≥ min(BITS_A, BITS_C)` suffices" is FALSE when the
    intermediate type is SIGNED of the same width as the source: `200u8 as i8 as u16 = 0xffc8` -/
theorem cast_cast_unsigned_via_signed_counterexample :
    (castBnum 8 false [200] 8 1 true).bind (fun y => castBnum 8 true y 8 2 false) = .ok [0xc8, 0xff] ∧
    castBnum 8 false [200] 8 2 false = .ok [0xc8, 0x00] := by decide

/-- unsigned source through a SIGNED intermediate type: fine when the intermediate type is strictly
    wider than the source (or not narrower than the target) -/
theorem cast_cast_unsigned_via_signed (d₁₂ : Dims w₁ n₁ w₂ n₂) (d₂₃ : Dims w₂ n₂ w₃ n₃)
    (d₁₃ : Dims w₁ n₁ w₃ n₃) (s₃ : Bool) (hx : WF w₁ n₁ x)
    (h : w₃ * n₃ ≤ w₂ * n₂ ∨ w₁ * n₁ < w₂ * n₂) :
    (castBnum w₁ false x w₂ n₂ true).bind (fun y => castBnum w₂ true y w₃ n₃ s₃)
      = castBnum w₁ false x w₃ n₃ s₃ := by
  apply cast_cast d₁₂ d₂₃ d₁₃ false true s₃ hx
  rcases h with h | h
  · exact Or.inl h
  · right
    have h1 := U_lt hx
    have h2 : M w₁ n₁ * 2 ≤ M w₂ n₂ := by
      unfold M; rw [← Nat.pow_succ]; exact Nat.pow_le_pow_right (by decide) h
    simp only [repOf, valOf, if_true, Bool.false_eq_true, if_false, repS]
    constructor <;> omega
example : (castBnum 8 false [200] 8 2 true).bind (fun y => castBnum 8 true y 8 3 false)
      = castBnum 8 false [200] 8 3 false := by decide

/-- signed chain `A → B → C` through a signed `B`: `BITS_B ≥ min(BITS_A, BITS_C)` suffices
    (sign-extension composes) -/
theorem cast_cast_signed (d₁₂ : Dims w₁ n₁ w₂ n₂) (d₂₃ : Dims w₂ n₂ w₃ n₃) (d₁₃ : Dims w₁ n₁ w₃ n₃)
    (s₃ : Bool) (hx : WF w₁ n₁ x) (h : min (w₁ * n₁) (w₃ * n₃) ≤ w₂ * n₂) :
    (castBnum w₁ true x w₂ n₂ true).bind (fun y => castBnum w₂ true y w₃ n₃ s₃)
      = castBnum w₁ true x w₃ n₃ s₃ := by
  apply cast_cast d₁₂ d₂₃ d₁₃ true true s₃ hx
  by_cases h3 : w₃ * n₃ ≤ w₂ * n₂
  · exact Or.inl h3
  · exact Or.inr (repOf_mono (s := true) (M_le_of_le (by omega)) (repOf_valOf true d₁₂.hw₁ d₁₂.hn₁ hx))
example : (castBnum 8 true [0x80] 16 1 true).bind (fun y => castBnum 16 true y 8 4 false)
      = castBnum 8 true [0x80] 8 4 false ∧ castBnum 8 true [0x80] 8 4 false = .ok [0x80, 0xff, 0xff, 0xff] := by
  decide

/-- signed source through an UNSIGNED intermediate type that is narrower than the target: the correct
    side condition is that the source is non-negative (a negative one is zero-extended from `B` on) -/
theorem cast_cast_signed_via_unsigned (d₁₂ : Dims w₁ n₁ w₂ n₂) (d₂₃ : Dims w₂ n₂ w₃ n₃)
    (d₁₃ : Dims w₁ n₁ w₃ n₃) (s₃ : Bool) (hx : WF w₁ n₁ x)
    (h : w₃ * n₃ ≤ w₂ * n₂ ∨ (w₁ * n₁ ≤ w₂ * n₂ ∧ 0 ≤ S w₁ x)) :
    (castBnum w₁ true x w₂ n₂ false).bind (fun y => castBnum w₂ false y w₃ n₃ s₃)
      = castBnum w₁ true x w₃ n₃ s₃ := by
  apply cast_cast d₁₂ d₂₃ d₁₃ true false s₃ hx
  rcases h with h | ⟨h, h0⟩
  · exact Or.inl h
  · right
    have h1 := (repOf_valOf true d₁₂.hw₁ d₁₂.hn₁ hx)
    have h2 : M w₁ n₁ ≤ M w₂ n₂ := M_le_of_le h
    simp only [repOf, valOf, if_true, Bool.false_eq_true, if_false, repS, repU] at h1 ⊢
    constructor <;> omega
theorem cast_cast_signed_via_unsigned_counterexample :
    (castBnum 8 true [0xff] 8 2 false).bind (fun y => castBnum 8 false y 8 3 true) = .ok [0xff, 0xff, 0x00] ∧
    castBnum 8 true [0xff] 8 3 true = .ok [0xff, 0xff, 0xff] := by decide
example : (castBnum 8 true [0x7f] 8 2 false).bind (fun y => castBnum 8 false y 8 3 true)
      = castBnum 8 true [0x7f] 8 3 true := by decide

/-- `cast_signed` / `cast_unsigned` / `to_bits` / `from_bits` are mutually inverse … -/
theorem cast_unsigned_cast_signed (x : List Nat) : II.castUnsigned (UI.castSigned x) = x := rfl
theorem cast_signed_cast_unsigned (x : List Nat) : UI.castSigned (II.castUnsigned x) = x := rfl
theorem to_bits_from_bits (x : List Nat) : II.toBits (II.fromBits x) = x := rfl
theorem from_bits_to_bits (x : List Nat) : II.fromBits (II.toBits x) = x := rfl
/-- … and are the `As` casts between `BUint<N>` and `BInt<N>` -/
theorem cast_signed_eq_as (hw : 1 ≤ w) (hn : 1 ≤ n) (hx : WF w n x) :
    castBnum w false x w n true = .ok (UI.castSigned x) := cast_same hw hn false true hx
theorem cast_unsigned_eq_as (hw : 1 ≤ w) (hn : 1 ≤ n) (hx : WF w n x) :
    castBnum w true x w n false = .ok (II.castUnsigned x) := cast_same hw hn true false hx
example : castBnum 8 false [0x34, 0x80] 8 2 true = .ok (UI.castSigned [0x34, 0x80]) ∧
    II.castUnsigned (UI.castSigned [0x34, 0x80]) = [0x34, 0x80] := by decide

/-- re-signing commutes with every cast into a type that is not wider: `(x as iA) as C = x as C` for
    `BITS_C ≤ BITS_A` (the signedness of the source only matters for extension) -/
theorem cast_signedness_irrelevant_narrow (d : Dims w₁ n₁ w₂ n₂) (s₁ s₁' s₂ : Bool)
    (hle : w₂ * n₂ ≤ w₁ * n₁) (hx : WF w₁ n₁ x) :
    castBnum w₁ s₁ x w₂ n₂ s₂ = castBnum w₁ s₁' x w₂ n₂ s₂ := by
  obtain ⟨r, hr, rr⟩ := cast_ok d s₁' s₂ hx
  rw [hr]
  exact cast_eq_of_rep_narrow d s₁ s₂ hle (rep_valOf s₁' hx) rr
example : castBnum 16 true [0x8001, 0xffff] 8 3 false = castBnum 16 false [0x8001, 0xffff] 8 3 false := by
  decide

/-- the signedness of the TARGET never matters for the digits -/
theorem cast_target_signedness_irrelevant (w₁ : Nat) (s₁ : Bool) (x : List Nat) (w₂ n₂ : Nat) :
    castBnum w₁ s₁ x w₂ n₂ true = castBnum w₁ s₁ x w₂ n₂ false := by
  unfold castBnum II.castFromU II.castFromI II.castFromUD II.castFromID II.fromBits
  have id_map : ∀ o : Outcome (List Nat), o.map (fun x => x) = o := fun o => by cases o <;> rfl
  split <;> cases s₁ <;> simp only [id_map]
example : castBnum 16 true [0x8001] 8 3 true = castBnum 16 true [0x8001] 8 3 false := by decide

/-! ## B. casts are homomorphisms

  One theorem per operation, with the side condition `h`:
    `w₂ * n₂ ≤ w₁ * n₁`  (narrowing, or re-signing / re-digiting at equal width): unconditional, OR
    the exact result is representable in the SOURCE type (then any cast, in particular every
    zero- or sign-extension, commutes).  `valOf s w x` is `U w x` for `s = false`, `S w x` for `s = true`. -/

/-- `(a + b) as T = (a as T) + (b as T)` -/
theorem cast_wrapping_add (d : Dims w₁ n₁ w₂ n₂) (s₁ s₂ : Bool) (ha : WF w₁ n₁ a) (hb : WF w₁ n₁ b)
    (h : w₂ * n₂ ≤ w₁ * n₁ ∨ repOf s₁ (M w₁ n₁) (valOf s₁ w₁ a + valOf s₁ w₁ b)) :
    castBnum w₁ s₁ (UI.wrappingAdd w₁ a b) w₂ n₂ s₂
      = map₂ (UI.wrappingAdd w₂) (castBnum w₁ s₁ a w₂ n₂ s₂) (castBnum w₁ s₁ b w₂ n₂ s₂) := by
  obtain ⟨a', ha', ra⟩ := cast_ok d s₁ s₂ ha
  obtain ⟨b', hb', rb⟩ := cast_ok d s₁ s₂ hb
  rw [ha', hb', map₂_ok]
  exact cast_hom d s₁ s₂ (rep_add (rep_valOf s₁ ha) (rep_valOf s₁ hb)) (rep_add ra rb) h
example : Dims 16 2 8 3 ∧ castBnum 16 true (UI.wrappingAdd 16 [0xfff0, 0x1234] [0x0020, 0xff00]) 8 3 false
    = map₂ (UI.wrappingAdd 8) (castBnum 16 true [0xfff0, 0x1234] 8 3 false)
        (castBnum 16 true [0x0020, 0xff00] 8 3 false) := by decide
example : repOf true (M 8 1) (valOf true 8 [0x9c] + valOf true 8 [0xe4]) ∧
    castBnum 8 true (UI.wrappingAdd 8 [0x9c] [0xe4]) 16 2 true
    = map₂ (UI.wrappingAdd 16) (castBnum 8 true [0x9c] 16 2 true) (castBnum 8 true [0xe4] 16 2 true) := by
  decide
/-- widening does NOT commute with a wrapping addition that overflows -/
theorem cast_wrapping_add_widen_counterexample :
    castBnum 8 false (UI.wrappingAdd 8 [200] [100]) 8 2 false = .ok [44, 0] ∧
    map₂ (UI.wrappingAdd 8) (castBnum 8 false [200] 8 2 false) (castBnum 8 false [100] 8 2 false)
      = .ok [44, 1] := by decide

/-- `(a - b) as T = (a as T) - (b as T)` -/
theorem cast_wrapping_sub (d : Dims w₁ n₁ w₂ n₂) (s₁ s₂ : Bool) (ha : WF w₁ n₁ a) (hb : WF w₁ n₁ b)
    (h : w₂ * n₂ ≤ w₁ * n₁ ∨ repOf s₁ (M w₁ n₁) (valOf s₁ w₁ a - valOf s₁ w₁ b)) :
    castBnum w₁ s₁ (UI.wrappingSub w₁ a b) w₂ n₂ s₂
      = map₂ (UI.wrappingSub w₂) (castBnum w₁ s₁ a w₂ n₂ s₂) (castBnum w₁ s₁ b w₂ n₂ s₂) := by
  obtain ⟨a', ha', ra⟩ := cast_ok d s₁ s₂ ha
  obtain ⟨b', hb', rb⟩ := cast_ok d s₁ s₂ hb
  rw [ha', hb', map₂_ok]
  exact cast_hom d s₁ s₂ (rep_sub (rep_valOf s₁ ha) (rep_valOf s₁ hb)) (rep_sub ra rb) h
example : castBnum 16 false (UI.wrappingSub 16 [0x0010, 0x1234] [0x0020, 0xff00]) 8 3 true
    = map₂ (UI.wrappingSub 8) (castBnum 16 false [0x0010, 0x1234] 8 3 true)
        (castBnum 16 false [0x0020, 0xff00] 8 3 true) := by decide

/-- `(a * b) as T = (a as T) * (b as T)` -/
theorem cast_wrapping_mul (d : Dims w₁ n₁ w₂ n₂) (s₁ s₂ : Bool) (ha : WF w₁ n₁ a) (hb : WF w₁ n₁ b)
    (h : w₂ * n₂ ≤ w₁ * n₁ ∨ repOf s₁ (M w₁ n₁) (valOf s₁ w₁ a * valOf s₁ w₁ b)) :
    castBnum w₁ s₁ (UI.wrappingMul w₁ a b) w₂ n₂ s₂
      = map₂ (UI.wrappingMul w₂) (castBnum w₁ s₁ a w₂ n₂ s₂) (castBnum w₁ s₁ b w₂ n₂ s₂) := by
  obtain ⟨a', ha', ra⟩ := cast_ok d s₁ s₂ ha
  obtain ⟨b', hb', rb⟩ := cast_ok d s₁ s₂ hb
  rw [ha', hb', map₂_ok]
  exact cast_hom d s₁ s₂ (rep_mul (rep_valOf s₁ ha) (rep_valOf s₁ hb)) (rep_mul ra rb) h
example : castBnum 16 true (UI.wrappingMul 16 [0xfff0, 0x1234] [0x0123, 0xff00]) 8 3 false
    = map₂ (UI.wrappingMul 8) (castBnum 16 true [0xfff0, 0x1234] 8 3 false)
        (castBnum 16 true [0x0123, 0xff00] 8 3 false) := by decide
example : repOf true (M 8 1) (valOf true 8 [0xf5] * valOf true 8 [0x0b]) ∧
    castBnum 8 true (UI.wrappingMul 8 [0xf5] [0x0b]) 16 2 true
    = map₂ (UI.wrappingMul 16) (castBnum 8 true [0xf5] 16 2 true) (castBnum 8 true [0x0b] 16 2 true) := by
  decide

/-- the `BInt` wrapping add / sub / mul are the `BUint` ones on the bit pattern, so the three laws
    above are also the laws of `BInt::wrapping_add/sub/mul` -/
theorem i_wrapping_eq (w : Nat) (a b : List Nat) :
    II.wrappingAdd w a b = UI.wrappingAdd w a b ∧ II.wrappingSub w a b = UI.wrappingSub w a b ∧
    II.wrappingMul w a b = UI.wrappingMul w a b := ⟨rfl, rfl, rfl⟩
example : II.wrappingMul 8 [0xfe, 0xff] [0x03, 0x00] = [0xfa, 0xff] := by decide

/-- `(-a) as T = -(a as T)`, `BUint::wrapping_neg` -/
theorem cast_wrapping_neg (d : Dims w₁ n₁ w₂ n₂) (s₁ s₂ : Bool) (ha : WF w₁ n₁ a)
    (h : w₂ * n₂ ≤ w₁ * n₁ ∨ repOf s₁ (M w₁ n₁) (-valOf s₁ w₁ a)) :
    castBnum w₁ s₁ (UI.wrappingNeg w₁ a) w₂ n₂ s₂
      = (castBnum w₁ s₁ a w₂ n₂ s₂).map (UI.wrappingNeg w₂) := by
  obtain ⟨a', ha', ra⟩ := cast_ok d s₁ s₂ ha
  rw [ha', map_ok]
  exact cast_hom d s₁ s₂ (rep_neg d.hw₁ d.hn₁ (rep_valOf s₁ ha)) (rep_neg d.hw₂ d.hn₂ ra) h
example : castBnum 16 false (UI.wrappingNeg 16 [0x0010, 0x1234]) 8 3 false
    = (castBnum 16 false [0x0010, 0x1234] 8 3 false).map (UI.wrappingNeg 8) := by decide

/-- `(-a) as T = -(a as T)`, `BInt::wrapping_neg` (its own carry loop); for a sign-extension the side
    condition says `a ≠ MIN` -/
theorem cast_i_wrapping_neg (d : Dims w₁ n₁ w₂ n₂) (hw₁ : 2 ≤ w₁) (hw₂ : 2 ≤ w₂) (s₁ s₂ : Bool)
    (ha : WF w₁ n₁ a) (h : w₂ * n₂ ≤ w₁ * n₁ ∨ repOf s₁ (M w₁ n₁) (-valOf s₁ w₁ a)) :
    castBnum w₁ s₁ (II.wrappingNeg w₁ a) w₂ n₂ s₂
      = (castBnum w₁ s₁ a w₂ n₂ s₂).map (II.wrappingNeg w₂) := by
  obtain ⟨a', ha', ra⟩ := cast_ok d s₁ s₂ ha
  rw [ha', map_ok]
  exact cast_hom d s₁ s₂ (rep_ineg hw₁ d.hn₁ (rep_valOf s₁ ha)) (rep_ineg hw₂ d.hn₂ ra) h
example : repOf true (M 8 2) (-valOf true 8 [0x10, 0x80 + 1]) ∧
    castBnum 8 true (II.wrappingNeg 8 [0x10, 0x81]) 16 2 true
    = (castBnum 8 true [0x10, 0x81] 16 2 true).map (II.wrappingNeg 16) := by decide
/-- sign-extension does not commute with negating `MIN` -/
theorem cast_i_wrapping_neg_min_counterexample :
    castBnum 8 true (II.wrappingNeg 8 [0x80]) 8 2 true = .ok [0x80, 0xff] ∧
    (castBnum 8 true [0x80] 8 2 true).map (II.wrappingNeg 8) = .ok [0x80, 0x00] := by decide

/-- `a.wrapping_pow(e) as T = (a as T).wrapping_pow(e)` -/
theorem cast_wrapping_pow (d : Dims w₁ n₁ w₂ n₂) (s₁ s₂ : Bool) (ha : WF w₁ n₁ a) (e : Nat)
    (h : w₂ * n₂ ≤ w₁ * n₁ ∨ repOf s₁ (M w₁ n₁) (valOf s₁ w₁ a ^ e)) :
    castBnum w₁ s₁ (UI.wrappingPow w₁ a e) w₂ n₂ s₂
      = (castBnum w₁ s₁ a w₂ n₂ s₂).map (fun a' => UI.wrappingPow w₂ a' e) := by
  obtain ⟨a', ha', ra⟩ := cast_ok d s₁ s₂ ha
  rw [ha', map_ok]
  exact cast_hom d s₁ s₂ (rep_pow d.hw₁ d.hn₁ (rep_valOf s₁ ha) e) (rep_pow d.hw₂ d.hn₂ ra e) h
example : castBnum 8 false (UI.wrappingPow 8 [3, 1] 5) 8 1 false
    = (castBnum 8 false [3, 1] 8 1 false).map (fun a' => UI.wrappingPow 8 a' 5) := by decide

/-- `(a << s) as T = (a as T) << s` (`unbounded_shl`, EVERY amount `s`) -/
theorem cast_unbounded_shl (d : Dims w₁ n₁ w₂ n₂) (s₁ s₂ : Bool) (ha : WF w₁ n₁ a) (s : Nat)
    (h : w₂ * n₂ ≤ w₁ * n₁ ∨ repOf s₁ (M w₁ n₁) (valOf s₁ w₁ a * 2 ^ s)) :
    castBnum w₁ s₁ (UI.unboundedShl w₁ a s) w₂ n₂ s₂
      = (castBnum w₁ s₁ a w₂ n₂ s₂).map (fun a' => UI.unboundedShl w₂ a' s) := by
  obtain ⟨a', ha', ra⟩ := cast_ok d s₁ s₂ ha
  rw [ha', map_ok]
  exact cast_hom d s₁ s₂ (rep_ushl d.hw₁ (rep_valOf s₁ ha) s) (rep_ushl d.hw₂ ra s) h
example : castBnum 16 true (UI.unboundedShl 16 [0x8001, 0x1234] 13) 8 3 false
    = (castBnum 16 true [0x8001, 0x1234] 8 3 false).map (fun a' => UI.unboundedShl 8 a' 13) ∧
    castBnum 16 true (UI.unboundedShl 16 [0x8001, 0x1234] 25) 8 3 false
    = (castBnum 16 true [0x8001, 0x1234] 8 3 false).map (fun a' => UI.unboundedShl 8 a' 25) := by decide

/-- `(!a) as T = !(a as T)` for every narrowing / equal-width cast and for every SIGNED source -/
theorem cast_not (d : Dims w₁ n₁ w₂ n₂) (s₁ s₂ : Bool) (ha : WF w₁ n₁ a)
    (h : w₂ * n₂ ≤ w₁ * n₁ ∨ s₁ = true) :
    castBnum w₁ s₁ (UI.not w₁ a) w₂ n₂ s₂ = (castBnum w₁ s₁ a w₂ n₂ s₂).map (UI.not w₂) := by
  obtain ⟨a', ha', ra⟩ := cast_ok d s₁ s₂ ha
  rw [ha', map_ok]
  refine cast_hom d s₁ s₂ (rep_not (rep_valOf s₁ ha)) (rep_not ra) ?_
  rcases h with h | h
  · exact Or.inl h
  · subst h; right
    have := repOf_valOf true d.hw₁ d.hn₁ ha
    have hM := M_even d.hw₁ d.hn₁
    simp only [repOf, if_true, repS] at this ⊢
    constructor <;> omega
example : castBnum 8 true (UI.not 8 [0x34, 0x80]) 16 2 false
    = (castBnum 8 true [0x34, 0x80] 16 2 false).map (UI.not 16) := by decide
/-- zero-extension does not commute with `!` -/
theorem cast_not_zext_counterexample :
    castBnum 8 false (UI.not 8 [0x0f]) 8 2 false = .ok [0xf0, 0x00] ∧
    (castBnum 8 false [0x0f] 8 2 false).map (UI.not 8) = .ok [0xf0, 0xff] := by decide

/-- `&`, `|`, `^` commute with EVERY cast (truncation, zero-extension, sign-extension) -/
theorem cast_bitand (d : Dims w₁ n₁ w₂ n₂) (s₁ s₂ : Bool) (ha : WF w₁ n₁ a) (hb : WF w₁ n₁ b) :
    castBnum w₁ s₁ (UI.bitand a b) w₂ n₂ s₂
      = map₂ UI.bitand (castBnum w₁ s₁ a w₂ n₂ s₂) (castBnum w₁ s₁ b w₂ n₂ s₂) := by
  obtain ⟨a', ha', -⟩ := cast_ok d s₁ s₂ ha
  obtain ⟨b', hb', -⟩ := cast_ok d s₁ s₂ hb
  obtain ⟨r, hr, -⟩ := cast_ok d s₁ s₂ (wf_and ha hb)
  rw [ha', hb', hr, map₂_ok]; congr 1
  have ta := tb_cast d s₁ s₂ ha ha'
  have tb := tb_cast d s₁ s₂ hb hb'
  have tr := tb_cast d s₁ s₂ (wf_and ha hb) hr
  refine eq_of_testBit (tr 0).1 (wf_and (ta 0).1 (tb 0).1) fun i => ?_
  rw [(tr i).2, tb_and (ta 0).1 (tb 0).1, (ta i).2, (tb i).2, tb_and ha hb, tb_and ha hb]
  cases decide (i < w₂ * n₂) <;> cases s₁ <;> split <;> simp
theorem cast_bitor (d : Dims w₁ n₁ w₂ n₂) (s₁ s₂ : Bool) (ha : WF w₁ n₁ a) (hb : WF w₁ n₁ b) :
    castBnum w₁ s₁ (UI.bitor a b) w₂ n₂ s₂
      = map₂ UI.bitor (castBnum w₁ s₁ a w₂ n₂ s₂) (castBnum w₁ s₁ b w₂ n₂ s₂) := by
  obtain ⟨a', ha', -⟩ := cast_ok d s₁ s₂ ha
  obtain ⟨b', hb', -⟩ := cast_ok d s₁ s₂ hb
  obtain ⟨r, hr, -⟩ := cast_ok d s₁ s₂ (wf_or ha hb)
  rw [ha', hb', hr, map₂_ok]; congr 1
  have ta := tb_cast d s₁ s₂ ha ha'
  have tb := tb_cast d s₁ s₂ hb hb'
  have tr := tb_cast d s₁ s₂ (wf_or ha hb) hr
  refine eq_of_testBit (tr 0).1 (wf_or (ta 0).1 (tb 0).1) fun i => ?_
  rw [(tr i).2, tb_or (ta 0).1 (tb 0).1, (ta i).2, (tb i).2, tb_or ha hb, tb_or ha hb]
  cases decide (i < w₂ * n₂) <;> cases s₁ <;> split <;> simp
theorem cast_bitxor (d : Dims w₁ n₁ w₂ n₂) (s₁ s₂ : Bool) (ha : WF w₁ n₁ a) (hb : WF w₁ n₁ b) :
    castBnum w₁ s₁ (UI.bitxor a b) w₂ n₂ s₂
      = map₂ UI.bitxor (castBnum w₁ s₁ a w₂ n₂ s₂) (castBnum w₁ s₁ b w₂ n₂ s₂) := by
  obtain ⟨a', ha', -⟩ := cast_ok d s₁ s₂ ha
  obtain ⟨b', hb', -⟩ := cast_ok d s₁ s₂ hb
  obtain ⟨r, hr, -⟩ := cast_ok d s₁ s₂ (wf_xor ha hb)
  rw [ha', hb', hr, map₂_ok]; congr 1
  have ta := tb_cast d s₁ s₂ ha ha'
  have tb := tb_cast d s₁ s₂ hb hb'
  have tr := tb_cast d s₁ s₂ (wf_xor ha hb) hr
  refine eq_of_testBit (tr 0).1 (wf_xor (ta 0).1 (tb 0).1) fun i => ?_
  rw [(tr i).2, tb_xor (ta 0).1 (tb 0).1, (ta i).2, (tb i).2, tb_xor ha hb, tb_xor ha hb]
  cases decide (i < w₂ * n₂) <;> cases s₁ <;> split <;> simp
example : castBnum 8 true (UI.bitand [0x34, 0x80] [0xf1, 0xc3]) 16 2 false
      = map₂ UI.bitand (castBnum 8 true [0x34, 0x80] 16 2 false) (castBnum 8 true [0xf1, 0xc3] 16 2 false) ∧
    castBnum 16 false (UI.bitxor [0x3480, 0x8001] [0xf1c3, 0x7fff]) 8 3 true
      = map₂ UI.bitxor (castBnum 16 false [0x3480, 0x8001] 8 3 true)
          (castBnum 16 false [0xf1c3, 0x7fff] 8 3 true) := by decide

/-- zero-extension commutes with the logical right shift, for EVERY amount (`BUint::unbounded_shr`) -/
theorem cast_unbounded_shr_zext (d : Dims w₁ n₁ w₂ n₂) (s₂ : Bool) (hle : w₁ * n₁ ≤ w₂ * n₂)
    (ha : WF w₁ n₁ a) (s : Nat) :
    castBnum w₁ false (UI.unboundedShr w₁ a s) w₂ n₂ s₂
      = (castBnum w₁ false a w₂ n₂ false).map (fun a' => UI.unboundedShr w₂ a' s) := by
  have hfit : repOf false (M w₂ n₂) (valOf false w₁ a) :=
    repOf_mono (s := false) (M_le_of_le hle) (repOf_valOf false d.hw₁ d.hn₁ ha)
  obtain ⟨a', ha', wa', va'⟩ := cast_val d false false ha hfit
  simp only [valOf, Bool.false_eq_true, if_false, Nat.cast_inj] at va'
  rw [ha', map_ok]
  obtain ⟨h1, h2⟩ := u_unboundedShr_val d.hw₁ ha s
  obtain ⟨h3, h4⟩ := u_unboundedShr_val d.hw₂ wa' s
  apply cast_eq_of_rep d false s₂ h1
  simp only [valOf, Bool.false_eq_true, if_false]
  rw [h2, ← va', ← h4]; exact rep_U h3
example : castBnum 8 false (UI.unboundedShr 8 [0x81, 0xf3] 5) 16 2 false
      = (castBnum 8 false [0x81, 0xf3] 16 2 false).map (fun a' => UI.unboundedShr 16 a' 5) ∧
    castBnum 8 false (UI.unboundedShr 8 [0x81, 0xf3] 20) 16 2 false
      = (castBnum 8 false [0x81, 0xf3] 16 2 false).map (fun a' => UI.unboundedShr 16 a' 20) := by decide

/-- sign-extension commutes with the arithmetic right shift, for EVERY amount (`BInt::unbounded_shr`) -/
theorem cast_unbounded_shr_sext (d : Dims w₁ n₁ w₂ n₂) (s₂ : Bool) (hle : w₁ * n₁ ≤ w₂ * n₂)
    (ha : WF w₁ n₁ a) (s : Nat) :
    castBnum w₁ true (II.unboundedShr w₁ a s) w₂ n₂ s₂
      = (castBnum w₁ true a w₂ n₂ true).map (fun a' => II.unboundedShr w₂ a' s) := by
  have hfit : repOf true (M w₂ n₂) (valOf true w₁ a) :=
    repOf_mono (s := true) (M_le_of_le hle) (repOf_valOf true d.hw₁ d.hn₁ ha)
  obtain ⟨a', ha', wa', va'⟩ := cast_val d true true ha hfit
  simp only [valOf, if_true] at va'
  rw [ha', map_ok]
  obtain ⟨h1, h2⟩ := i_unboundedShr_val d.hw₁ d.hn₁ ha s
  obtain ⟨h3, h4⟩ := i_unboundedShr_val d.hw₂ d.hn₂ wa' s
  apply cast_eq_of_rep d true s₂ h1
  simp only [valOf, if_true]
  rw [h2, ← va', ← h4]; exact rep_S h3
example : castBnum 8 true (II.unboundedShr 8 [0x81, 0xf3] 5) 16 2 true
      = (castBnum 8 true [0x81, 0xf3] 16 2 true).map (fun a' => II.unboundedShr 16 a' 5) ∧
    castBnum 8 true (II.unboundedShr 8 [0x81, 0xf3] 20) 16 2 true
      = (castBnum 8 true [0x81, 0xf3] 16 2 true).map (fun a' => II.unboundedShr 16 a' 20) := by decide
/-- narrowing does not commute with `>>` (bits shifted in from the dropped part) -/
theorem cast_shr_narrow_counterexample :
    castBnum 8 false (UI.unboundedShr 8 [0x00, 0x01] 4) 8 1 false = .ok [0x10] ∧
    (castBnum 8 false [0x00, 0x01] 8 1 false).map (fun a' => UI.unboundedShr 8 a' 4) = .ok [0x00] := by
  decide

/-- constants: `ZERO as T = ZERO`, `ONE as T = ONE` (every cast); `NEG_ONE as T = all ones` (signed
    source, every cast); `MAX as T = MAX` (unsigned source, narrowing) -/
theorem cast_zero (d : Dims w₁ n₁ w₂ n₂) (s₁ s₂ : Bool) :
    castBnum w₁ s₁ (zero n₁) w₂ n₂ s₂ = .ok (zero n₂) := by
  refine cast_hom d s₁ s₂ (rep_zero w₁ n₁) (rep_zero w₂ n₂) (Or.inr ?_)
  have := M_pos w₁ n₁
  cases s₁ <;> simp only [repOf, repU, repS, if_true, Bool.false_eq_true, if_false] <;> constructor <;> omega
theorem cast_one (d : Dims w₁ n₁ w₂ n₂) (hw₁ : 2 ≤ w₁) (s₁ s₂ : Bool) :
    castBnum w₁ s₁ (one n₁) w₂ n₂ s₂ = .ok (one n₂) := by
  refine cast_hom d s₁ s₂ (rep_one d.hw₁ d.hn₁) (rep_one d.hw₂ d.hn₂) (Or.inr ?_)
  have h4 : 2 ^ 2 ≤ M w₁ n₁ := by
    unfold M; exact Nat.pow_le_pow_right (by decide) (Nat.le_trans hw₁ (Nat.le_mul_of_pos_right _ d.hn₁))
  cases s₁ <;> simp only [repOf, repU, repS, if_true, Bool.false_eq_true, if_false] <;> constructor <;> omega
theorem cast_neg_one (d : Dims w₁ n₁ w₂ n₂) (s₂ : Bool) :
    castBnum w₁ true (II.negOne w₁ n₁) w₂ n₂ s₂ = .ok (II.negOne w₂ n₂) := by
  refine cast_hom d true s₂ (rep_allOnes w₁ n₁) (rep_allOnes w₂ n₂) (Or.inr ?_)
  have := M_even d.hw₁ d.hn₁; have := M_pos w₁ n₁
  simp only [repOf, repS, if_true]; constructor <;> omega
theorem cast_max_narrow (d : Dims w₁ n₁ w₂ n₂) (s₁ s₂ : Bool) (hle : w₂ * n₂ ≤ w₁ * n₁) :
    castBnum w₁ s₁ (allOnes w₁ n₁) w₂ n₂ s₂ = .ok (allOnes w₂ n₂) :=
  cast_hom d s₁ s₂ (rep_allOnes w₁ n₁) (rep_allOnes w₂ n₂) (Or.inl hle)
example : castBnum 16 true (zero 2) 8 3 false = .ok (zero 3) ∧ castBnum 16 true (one 2) 8 5 false = .ok (one 5) ∧
    castBnum 16 true (II.negOne 16 2) 8 5 false = .ok (II.negOne 8 5) ∧
    castBnum 16 false (allOnes 16 2) 8 3 true = .ok (allOnes 8 3) := by decide

/-! ## C. casts vs order

  `cmpOf s w` is `BUint::cmp` (`s = false`) or `BInt::cmp` (`s = true`).  MASTER LAW: a cast into a type
  that can represent both operands preserves `cmp` (hence `<`, `≤`, `max`, `min`).  Instances:
  zero-extension (unsigned → wider unsigned, or → strictly wider signed), sign-extension (signed →
  wider signed), narrowing of values that fit. -/

theorem cast_cmp (d : Dims w₁ n₁ w₂ n₂) (s₁ s₂ : Bool) (ha : WF w₁ n₁ a) (hb : WF w₁ n₁ b)
    (hfa : repOf s₂ (M w₂ n₂) (valOf s₁ w₁ a)) (hfb : repOf s₂ (M w₂ n₂) (valOf s₁ w₁ b)) :
    map₂ (cmpOf s₂ w₂) (castBnum w₁ s₁ a w₂ n₂ s₂) (castBnum w₁ s₁ b w₂ n₂ s₂)
      = .ok (cmpOf s₁ w₁ a b) := by
  obtain ⟨a', ha', wa', va'⟩ := cast_val d s₁ s₂ ha hfa
  obtain ⟨b', hb', wb', vb'⟩ := cast_val d s₁ s₂ hb hfb
  rw [ha', hb', map₂_ok, cmpOf_spec s₂ d.hw₂ d.hn₂ wa' wb', cmpOf_spec s₁ d.hw₁ d.hn₁ ha hb, va', vb']
example : repOf true (M 8 2) (valOf true 16 [0xff85, 0xffff]) ∧ repOf true (M 8 2) (valOf true 16 [0x0003, 0]) ∧
    map₂ (cmpOf true 8) (castBnum 16 true [0xff85, 0xffff] 8 2 true) (castBnum 16 true [0x0003, 0] 8 2 true)
      = .ok (cmpOf true 16 [0xff85, 0xffff] [0x0003, 0]) := by decide

/-- zero-extension preserves the unsigned order -/
theorem cast_cmp_zext (d : Dims w₁ n₁ w₂ n₂) (hle : w₁ * n₁ ≤ w₂ * n₂) (ha : WF w₁ n₁ a)
    (hb : WF w₁ n₁ b) :
    map₂ UI.cmp (castBnum w₁ false a w₂ n₂ false) (castBnum w₁ false b w₂ n₂ false)
      = .ok (UI.cmp a b) :=
  cast_cmp d false false ha hb
    (repOf_mono (s := false) (M_le_of_le hle) (repOf_valOf false d.hw₁ d.hn₁ ha))
    (repOf_mono (s := false) (M_le_of_le hle) (repOf_valOf false d.hw₁ d.hn₁ hb))
example : map₂ UI.cmp (castBnum 8 false [0x81, 0xf3] 16 2 false) (castBnum 8 false [0x82, 0x03] 16 2 false)
    = .ok (UI.cmp [0x81, 0xf3] [0x82, 0x03]) := by decide

/-- sign-extension preserves the signed order -/
theorem cast_cmp_sext (d : Dims w₁ n₁ w₂ n₂) (hle : w₁ * n₁ ≤ w₂ * n₂) (ha : WF w₁ n₁ a)
    (hb : WF w₁ n₁ b) :
    map₂ (II.cmp w₂) (castBnum w₁ true a w₂ n₂ true) (castBnum w₁ true b w₂ n₂ true)
      = .ok (II.cmp w₁ a b) :=
  cast_cmp d true true ha hb
    (repOf_mono (s := true) (M_le_of_le hle) (repOf_valOf true d.hw₁ d.hn₁ ha))
    (repOf_mono (s := true) (M_le_of_le hle) (repOf_valOf true d.hw₁ d.hn₁ hb))
example : map₂ (II.cmp 16) (castBnum 8 true [0x81, 0xf3] 16 2 true) (castBnum 8 true [0x82, 0x03] 16 2 true)
    = .ok (II.cmp 8 [0x81, 0xf3] [0x82, 0x03]) ∧ II.cmp 8 [0x81, 0xf3] [0x82, 0x03] = .lt := by decide

/-- narrowing preserves the unsigned order on values that fit the narrow type … -/
theorem cast_cmp_narrow_fit (d : Dims w₁ n₁ w₂ n₂) (ha : WF w₁ n₁ a) (hb : WF w₁ n₁ b)
    (hfa : U w₁ a < M w₂ n₂) (hfb : U w₁ b < M w₂ n₂) :
    map₂ UI.cmp (castBnum w₁ false a w₂ n₂ false) (castBnum w₁ false b w₂ n₂ false)
      = .ok (UI.cmp a b) :=
  cast_cmp d false false ha hb
    (by simp only [repOf, valOf, repU, Bool.false_eq_true, if_false]; constructor <;> omega)
    (by simp only [repOf, valOf, repU, Bool.false_eq_true, if_false]; constructor <;> omega)
example : U 8 [0x81, 0x00] < M 8 1 ∧
    map₂ UI.cmp (castBnum 8 false [0x81, 0x00] 8 1 false) (castBnum 8 false [0x7f, 0x00] 8 1 false)
    = .ok (UI.cmp [0x81, 0x00] [0x7f, 0x00]) := by decide
/-- … but not in general; nor does re-signing at equal width (`200u8 as i8 < 100u8 as i8`) -/
theorem cast_cmp_narrow_counterexample :
    map₂ UI.cmp (castBnum 8 false [0x00, 0x01] 8 1 false) (castBnum 8 false [0x01, 0x00] 8 1 false) = .ok .lt ∧
    UI.cmp [0x00, 0x01] [0x01, 0x00] = .gt ∧
    map₂ (II.cmp 8) (castBnum 8 false [200] 8 1 true) (castBnum 8 false [100] 8 1 true) = .ok .lt ∧
    UI.cmp [200] [100] = .gt := by decide

/-- `max` / `min` commute with every cast that can represent both operands -/
theorem cast_max (d : Dims w₁ n₁ w₂ n₂) (s₁ s₂ : Bool) (ha : WF w₁ n₁ a) (hb : WF w₁ n₁ b)
    (hfa : repOf s₂ (M w₂ n₂) (valOf s₁ w₁ a)) (hfb : repOf s₂ (M w₂ n₂) (valOf s₁ w₁ b)) :
    castBnum w₁ s₁ (CmpImpl.max (cmpOf s₁ w₁) a b) w₂ n₂ s₂
      = map₂ (CmpImpl.max (cmpOf s₂ w₂)) (castBnum w₁ s₁ a w₂ n₂ s₂) (castBnum w₁ s₁ b w₂ n₂ s₂) := by
  obtain ⟨a', ha', wa', va'⟩ := cast_val d s₁ s₂ ha hfa
  obtain ⟨b', hb', wb', vb'⟩ := cast_val d s₁ s₂ hb hfb
  rw [ha', hb', map₂_ok, maxOf_spec s₂ d.hw₂ d.hn₂ wa' wb', maxOf_spec s₁ d.hw₁ d.hn₁ ha hb, va', vb']
  split <;> assumption
theorem cast_min (d : Dims w₁ n₁ w₂ n₂) (s₁ s₂ : Bool) (ha : WF w₁ n₁ a) (hb : WF w₁ n₁ b)
    (hfa : repOf s₂ (M w₂ n₂) (valOf s₁ w₁ a)) (hfb : repOf s₂ (M w₂ n₂) (valOf s₁ w₁ b)) :
    castBnum w₁ s₁ (CmpImpl.min (cmpOf s₁ w₁) a b) w₂ n₂ s₂
      = map₂ (CmpImpl.min (cmpOf s₂ w₂)) (castBnum w₁ s₁ a w₂ n₂ s₂) (castBnum w₁ s₁ b w₂ n₂ s₂) := by
  obtain ⟨a', ha', wa', va'⟩ := cast_val d s₁ s₂ ha hfa
  obtain ⟨b', hb', wb', vb'⟩ := cast_val d s₁ s₂ hb hfb
  rw [ha', hb', map₂_ok, minOf_spec s₂ d.hw₂ d.hn₂ wa' wb', minOf_spec s₁ d.hw₁ d.hn₁ ha hb, va', vb']
  split <;> assumption
example : castBnum 8 true (CmpImpl.max (cmpOf true 8) [0x81, 0xf3] [0x82, 0x03]) 16 2 true
    = map₂ (CmpImpl.max (cmpOf true 16)) (castBnum 8 true [0x81, 0xf3] 16 2 true)
        (castBnum 8 true [0x82, 0x03] 16 2 true) ∧
    castBnum 8 false (CmpImpl.min (cmpOf false 8) [0x81, 0xf3] [0x82, 0x03]) 16 2 true
    = map₂ (CmpImpl.min (cmpOf true 16)) (castBnum 8 false [0x81, 0xf3] 16 2 true)
        (castBnum 8 false [0x82, 0x03] 16 2 true) := by decide

/-- the sign test after a cast: `(x as iT) < 0` iff bit `BITS_T − 1` … for a sign-extension simply
    iff `x < 0` -/
theorem cast_is_negative_sext (d : Dims w₁ n₁ w₂ n₂) (hle : w₁ * n₁ ≤ w₂ * n₂) (ha : WF w₁ n₁ a) :
    (castBnum w₁ true a w₂ n₂ true).map (isNegative w₂) = .ok (isNegative w₁ a) := by
  obtain ⟨a', ha', wa', va'⟩ := cast_val d true true ha
    (repOf_mono (s := true) (M_le_of_le hle) (repOf_valOf true d.hw₁ d.hn₁ ha))
  simp only [valOf, if_true] at va'
  rw [ha', map_ok]; congr 1
  have h1 := C07.is_negative_iff d.hw₁ d.hn₁ ha
  have h2 := C07.is_negative_iff d.hw₂ d.hn₂ wa'
  rw [va'] at h2
  cases h : isNegative w₁ a <;> cases h' : isNegative w₂ a' <;> simp_all
  omega
example : (castBnum 8 true [0x81, 0xf3] 16 2 true).map (isNegative 16) = .ok (isNegative 8 [0x81, 0xf3]) := by
  decide

/-! ## D. checked conversions vs casts (C13 `BTryFrom` / `TryFrom` / `From`, C19 `FromPrimitive` /
    `ToPrimitive`)

  `keepIf p y` is `Some y` if `p` else `None`.  MASTER LAWS: every checked conversion IS the `as` cast
  followed by the test "did the cast preserve the numeric value?" — as an equation between
  `Outcome (Option _)` values, so it also says neither side panics. -/

/-- `B::try_from(x)` (`BTryFrom`, all four signedness combinations, any digit types) is
    `x as B`, kept iff `(x as B) == x` as numbers -/
theorem btry_from_eq_cast_filter (d : Dims w₁ n₁ w₂ n₂) (s₁ s₂ : Bool) (hx : WF w₁ n₁ x) :
    btryFrom w₁ s₁ x w₂ n₂ s₂
      = (castBnum w₁ s₁ x w₂ n₂ s₂).map (fun y => keepIf (valOf s₂ w₂ y = valOf s₁ w₁ x) y) :=
  convOk_eq_cast_filter d.hw₂ d.hn₂ (C13.btry_from s₁ s₂ d.hw₁ d.hw₂ d.hn₁ d.hn₂ d.hdvd hx)
    (C09.cast_bnum s₁ s₂ d.hw₁ d.hw₂ d.hn₁ d.hn₂ d.hdvd hx)
example : btryFrom 16 true [0xff80, 0xffff] 8 1 true
      = (castBnum 16 true [0xff80, 0xffff] 8 1 true).map
          (fun y => keepIf (valOf true 8 y = valOf true 16 [0xff80, 0xffff]) y) ∧
    btryFrom 16 true [0xff80, 0xffff] 8 1 true = .ok (some [0x80]) ∧
    btryFrom 16 true [0xff80, 0xffff] 8 3 false
      = (castBnum 16 true [0xff80, 0xffff] 8 3 false).map
          (fun y => keepIf (valOf false 8 y = valOf true 16 [0xff80, 0xffff]) y) ∧
    btryFrom 16 true [0xff80, 0xffff] 8 3 false = .ok none := by decide

/-- `try_from(x) = Ok y → y = x as B` -/
theorem btry_from_some_eq_cast (d : Dims w₁ n₁ w₂ n₂) (s₁ s₂ : Bool) (hx : WF w₁ n₁ x) {y : List Nat}
    (h : btryFrom w₁ s₁ x w₂ n₂ s₂ = .ok (some y)) : castBnum w₁ s₁ x w₂ n₂ s₂ = .ok y := by
  obtain ⟨hy, hv⟩ := C13.btry_from_value s₁ s₂ d.hw₁ d.hw₂ d.hn₁ d.hn₂ d.hdvd hx h
  exact cast_eq_of_rep d s₁ s₂ hx (hv ▸ rep_valOf s₂ hy)
example : btryFrom 8 false [0x34, 0x12, 0x00] 16 1 true = .ok (some [0x1234]) ∧
    castBnum 8 false [0x34, 0x12, 0x00] 16 1 true = .ok [0x1234] := by decide

/-- `try_from(x) = Ok y → y as A = x` (the conversion can be undone by a cast) -/
theorem btry_from_some_cast_back (d : Dims w₁ n₁ w₂ n₂) (s₁ s₂ : Bool) (hx : WF w₁ n₁ x)
    {y : List Nat} (h : btryFrom w₁ s₁ x w₂ n₂ s₂ = .ok (some y)) :
    castBnum w₂ s₂ y w₁ n₁ s₁ = .ok x := by
  obtain ⟨hy, hv⟩ := C13.btry_from_value s₁ s₂ d.hw₁ d.hw₂ d.hn₁ d.hn₂ d.hdvd hx h
  exact cast_eq_of_rep d.symm s₂ s₁ hy (hv ▸ rep_valOf s₁ hx)
example : btryFrom 16 true [0xff80, 0xffff] 8 1 true = .ok (some [0x80]) ∧
    castBnum 8 true [0x80] 16 2 true = .ok [0xff80, 0xffff] := by decide

/-- between types of the SAME signedness: `try_from` is `Ok` exactly when casting there and back
    is the identity -/
theorem btry_from_ok_iff_roundtrip (d : Dims w₁ n₁ w₂ n₂) (s : Bool) (hx : WF w₁ n₁ x) :
    (∃ y, btryFrom w₁ s x w₂ n₂ s = .ok (some y)) ↔
      (castBnum w₁ s x w₂ n₂ s).bind (fun y => castBnum w₂ s y w₁ n₁ s) = .ok x := by
  rw [C13.btry_from_ok_iff s s d.hw₁ d.hw₂ d.hn₁ d.hn₂ d.hdvd hx]
  obtain ⟨y, hy, ry⟩ := cast_ok d s s hx
  rw [hy, bind_ok]
  constructor
  · intro hrep
    exact cast_eq_of_rep d.symm s s ry.1 (valOf_of_rep ry hrep ▸ rep_valOf s hx)
  · intro hback
    by_cases hle : w₁ * n₁ ≤ w₂ * n₂
    · exact repOf_mono (M_le_of_le hle) (repOf_valOf s d.hw₁ d.hn₁ hx)
    · obtain ⟨r, hr, hwr, hvr⟩ := cast_val d.symm s s ry.1
        (repOf_mono (M_le_of_le (by omega)) (repOf_valOf s d.hw₂ d.hn₂ ry.1))
      rw [hback] at hr; cases hr
      rw [hvr]; exact repOf_valOf s d.hw₂ d.hn₂ ry.1
example : (∃ y, btryFrom 16 true [0xff80, 0xffff] 8 1 true = .ok (some y)) ∧
    (castBnum 16 true [0xff80, 0xffff] 8 1 true).bind (fun y => castBnum 8 true y 16 2 true)
      = .ok [0xff80, 0xffff] := ⟨⟨[0x80], by decide⟩, by decide⟩
/-- … between types of DIFFERENT signedness the naive equivalence is false: `200u8 as i8 as u8 = 200`
    but `i8::try_from(200u8)` is `Err`; `-1i8 as u8 as i8 = -1` but `u8::try_from(-1i8)` is `Err` -/
theorem btry_from_roundtrip_mixed_counterexample :
    btryFrom 8 false [200] 8 1 true = .ok none ∧
    (castBnum 8 false [200] 8 1 true).bind (fun y => castBnum 8 true y 8 1 false) = .ok [200] ∧
    btryFrom 8 true [0xff] 8 1 false = .ok none ∧
    (castBnum 8 true [0xff] 8 1 false).bind (fun y => castBnum 8 false y 8 1 true) = .ok [0xff] := by
  decide

/-- `FromPrimitive::from_{u8…i128,usize,isize}(v)` is `v as Bnum`, kept iff the value survived -/
theorem from_prim_eq_cast_filter (s : Bool) (t : NumC.PrimT) {p : Nat} (hw : 1 ≤ w) (hn : 1 ≤ n)
    (hp : p < B t.ty.bits) :
    NumC.fromPrim w n s t p
      = (castFromPrim w n s t.ty p).map (fun y => keepIf (valOf s w y = PInt.val t.ty p) y) :=
  convOk_eq_cast_filter hw hn (C19.fromPrim_spec s t hw hn hp)
    (C09.cast_from_prim s hn t.bits_pos hp)
example : NumC.fromPrim 8 3 true .i64 0xffffffffff800000
      = (castFromPrim 8 3 true (NumC.PrimT.i64).ty 0xffffffffff800000).map
          (fun y => keepIf (valOf true 8 y = PInt.val (NumC.PrimT.i64).ty 0xffffffffff800000) y) ∧
    NumC.fromPrim 8 3 true .i64 0xffffffffff800000 = .ok (some [0, 0, 0x80]) := by decide

/-- `from_*(v) = Some y → y = v as Bnum` -/
theorem from_prim_some_eq_cast (s : Bool) (t : NumC.PrimT) {p : Nat} (hw : 1 ≤ w) (hn : 1 ≤ n)
    (hp : p < B t.ty.bits) {y : List Nat} (h : NumC.fromPrim w n s t p = .ok (some y)) :
    castFromPrim w n s t.ty p = .ok y := by
  obtain ⟨hy, hv⟩ := C19.fromPrim_value s t hw hn hp h
  obtain ⟨r, hr, hwr, hur⟩ := C09.cast_from_prim (w := w) s hn t.bits_pos hp
  rw [hr]; congr 1
  exact eq_of_rep' (rep_wrapU hwr (by rw [hur])) (hv ▸ rep_valOf s hy) rfl
example : NumC.fromPrim 8 3 false .u64 0xffffff = .ok (some [0xff, 0xff, 0xff]) ∧
    castFromPrim 8 3 false (NumC.PrimT.u64).ty 0xffffff = .ok [0xff, 0xff, 0xff] := by decide

/-- `ToPrimitive::to_*` / `TryFrom<bnum> for primitive` is the `as` cast into the primitive, kept
    iff the value survived -/
theorem to_prim_eq_cast_filter (s : Bool) (t : PTy) (hw : 1 ≤ w) (hn : 1 ≤ n) (hk : 1 ≤ t.bits)
    (hdiv : t.bits < w ∨ ∃ c, t.bits = c * w) (hx : WF w n x) :
    NumC.toPrim w s x t
      = (castToPrim w s x t).map (fun q => keepIf (PInt.val t q = valOf s w x) q) := by
  rw [C09.cast_to_prim s hw hn hx t]
  exact convOkP_eq_cast_filter hk (C19.toPrim_spec s t hw hn hk hdiv hx)
example : NumC.toPrim 8 true [0x80, 0xff, 0xff] ⟨8, true⟩
      = (castToPrim 8 true [0x80, 0xff, 0xff] ⟨8, true⟩).map
          (fun q => keepIf (PInt.val ⟨8, true⟩ q = valOf true 8 [0x80, 0xff, 0xff]) q) ∧
    NumC.toPrim 8 true [0x80, 0xff, 0xff] ⟨8, true⟩ = .ok (some 0x80) := by decide

/-- `to_uK` / `to_iK` is `Some` exactly when `BTryFrom` into the `K`-bit bnum type of the same
    signedness is `Ok`, with the same bit pattern: `to_K(x) = B_K::try_from(x).map(pattern)` -/
theorem to_prim_eq_btry_from (d : Dims w₁ n₁ w₂ n₂) (s : Bool) (t : PTy) (hk : t.bits = w₂ * n₂)
    (hdiv : t.bits < w₁ ∨ ∃ c, t.bits = c * w₁) (hx : WF w₁ n₁ x) :
    NumC.toPrim w₁ s x t = (btryFrom w₁ s x w₂ n₂ t.signed).map (Option.map (U w₂)) := by
  have hk1 : 1 ≤ t.bits := hk ▸ Nat.mul_pos d.hw₂ d.hn₂
  have hB : B t.bits = M w₂ n₂ := by unfold B M; rw [hk]
  have h1 := C19.toPrim_spec s t d.hw₁ d.hn₁ hk1 hdiv hx
  have h2 := C13.btry_from s t.signed d.hw₁ d.hw₂ d.hn₁ d.hn₂ d.hdvd hx
  rcases h2 with ⟨hrep, r, hr, hwr, hvr⟩ | ⟨hrep, hr⟩
  · rcases h1 with ⟨_, q, hq, hqlt, hqv⟩ | ⟨hn, _⟩
    · rw [hq, hr]; simp only [map_ok, Option.map]
      congr 2
      have e1 := NumC.U_eq_wrapU_valOf t.signed hwr
      rw [hvr] at e1
      rw [e1, ← hB, ← hqv]
      unfold PInt.val
      cases hs : t.signed
      · simp only [Bool.false_eq_true, if_false]; rw [wrapU_natCast, Nat.mod_eq_of_lt hqlt]
      · simp only [if_true]; exact (wrapU_toInt hqlt).symm
    · exact absurd (hB ▸ hrep) hn
  · rcases h1 with ⟨hy, _⟩ | ⟨_, hq⟩
    · exact absurd (hB ▸ hy) hrep
    · rw [hq, hr]; rfl
example : Dims 8 3 16 1 ∧ NumC.toPrim 8 true [0x80, 0xff, 0xff] ⟨16, true⟩
      = (btryFrom 8 true [0x80, 0xff, 0xff] 16 1 true).map (Option.map (U 16)) ∧
    NumC.toPrim 8 true [0x80, 0xff, 0xff] ⟨16, true⟩ = .ok (some 0xff80) ∧
    NumC.toPrim 8 true [0x80, 0xff, 0xfe] ⟨16, false⟩
      = (btryFrom 8 true [0x80, 0xff, 0xfe] 16 1 false).map (Option.map (U 16)) := by decide

/-- `to_T(x) = Some q → from_T(q) = Some x` (`ToPrimitive` then `FromPrimitive` round trip) -/
theorem from_prim_to_prim (s : Bool) (t : NumC.PrimT) (hw : 1 ≤ w) (hn : 1 ≤ n)
    (hdiv : t.ty.bits < w ∨ ∃ c, t.ty.bits = c * w) (hx : WF w n x) {q : Nat}
    (h : NumC.toPrim w s x t.ty = .ok (some q)) : NumC.fromPrim w n s t q = .ok (some x) := by
  obtain ⟨hq, hv⟩ := C19.toPrim_value s t.ty hw hn t.bits_pos hdiv hx h
  have hrep : repOf s (M w n) (PInt.val t.ty q) := hv ▸ repOf_valOf s hw hn hx
  obtain ⟨r, hr⟩ := (C19.fromPrim_some_iff s t hw hn hq).mpr hrep
  obtain ⟨hwr, hvr⟩ := C19.fromPrim_value s t hw hn hq hr
  rw [hr, eq_of_valOf s hwr hx (hvr.trans hv)]
example : NumC.toPrim 8 true [0x80, 0xff, 0xff] (NumC.PrimT.i16).ty = .ok (some 0xff80) ∧
    NumC.fromPrim 8 3 true .i16 0xff80 = .ok (some [0x80, 0xff, 0xff]) := by decide

/-- `from_T(v) = Some x → to_T(x) = Some v` -/
theorem to_prim_from_prim (s : Bool) (t : NumC.PrimT) {p : Nat} (hw : 1 ≤ w) (hn : 1 ≤ n)
    (hdiv : t.ty.bits < w ∨ ∃ c, t.ty.bits = c * w) (hp : p < B t.ty.bits) {x : List Nat}
    (h : NumC.fromPrim w n s t p = .ok (some x)) : NumC.toPrim w s x t.ty = .ok (some p) := by
  obtain ⟨hx, hv⟩ := C19.fromPrim_value s t hw hn hp h
  have hrep : repOf t.ty.signed (B t.ty.bits) (valOf s w x) := hv ▸ rep_val t.bits_pos hp
  obtain ⟨q, hq⟩ := (C19.toPrim_some_iff s t.ty hw hn t.bits_pos hdiv hx).mpr hrep
  obtain ⟨hqlt, hqv⟩ := C19.toPrim_value s t.ty hw hn t.bits_pos hdiv hx hq
  rw [hq]; congr 2
  have e : PInt.val t.ty q = PInt.val t.ty p := hqv.trans hv
  unfold PInt.val at e
  cases hs : t.ty.signed
  · rw [hs] at e; simp only [Bool.false_eq_true, if_false, Nat.cast_inj] at e; exact e
  · rw [hs] at e; simp only [if_true] at e
    have := wrapU_toInt hqlt; have := wrapU_toInt hp; rw [e] at *; omega
example : NumC.fromPrim 16 1 true .i8 0x80 = .ok (some [0xff80]) ∧
    NumC.toPrim 16 true [0xff80] (NumC.PrimT.i8).ty = .ok (some 0x80) := by decide

/-- the infallible `From<uK>` / `From<iK>` / `From<bool>` / `From<char>` impls agree with the `as`
    casts wherever C13 specifies them -/
theorem from_uint_eq_cast {k p : Nat} (hw : 1 ≤ w) (hn : 1 ≤ n) (hk : 1 ≤ k) (hp : p < B k)
    (hpM : p < M w n) : UI.fromUint w n k p = castFromPrim w n false ⟨k, false⟩ p := by
  obtain ⟨r, hr, hwr, hvr⟩ := C13.from_uint (n := n) hw hp hpM
  obtain ⟨r', hr', hwr', hur'⟩ := C09.cast_from_prim (w := w) (n := n) (t := ⟨k, false⟩) false hn hk hp
  rw [hr, hr']; congr 1
  refine eq_of_rep' (z := (p : Int)) (hvr ▸ rep_valOf false hwr) (rep_wrapU hwr' ?_) rfl
  rw [hur']; simp [PInt.val]
theorem from_int_eq_cast {k p : Nat} (hw : 1 ≤ w) (hn : 1 ≤ n) (hk1 : 1 ≤ k) (hk : k ≤ w * n)
    (hp : p < B k) : II.fromInt w n k p = castFromPrim w n true ⟨k, true⟩ p := by
  obtain ⟨r, hr, hwr, hvr⟩ := C13.from_int hw hn hk1 hk hp
  obtain ⟨r', hr', hwr', hur'⟩ := C09.cast_from_prim (w := w) (n := n) (t := ⟨k, true⟩) true hn hk1 hp
  rw [hr, hr']; congr 1
  refine eq_of_rep' (z := toInt (B k) p) (hvr ▸ rep_valOf true hwr) (rep_wrapU hwr' ?_) rfl
  rw [hur']; simp [PInt.val]
theorem from_bool_char_eq_cast (w n : Nat) (b : Bool) (c : Nat) :
    UI.fromBool n b = UI.castFromBool n b ∧ II.fromBool n b = II.castFromBool n b ∧
    UI.fromChar w n c = UI.castFromChar w n c := ⟨rfl, rfl, rfl⟩
example : UI.fromUint 8 3 16 0xabcd = castFromPrim 8 3 false ⟨16, false⟩ 0xabcd ∧
    II.fromInt 16 2 8 0x80 = castFromPrim 16 2 true ⟨8, true⟩ 0x80 := by decide
/-- the F6 defect seen through this law: `BInt::from(u64::MAX)` equals the `as` cast (it wraps),
    whereas the checked `from_u64` refuses -/
theorem from_uint_signed_is_cast_counterexample :
    II.fromUint 8 1 8 200 = castFromPrim 8 1 true ⟨8, false⟩ 200 ∧
    NumC.fromPrim 8 1 true .u8 200 = .ok none := by decide

end Casts

section Text
open Bnum.Radix Bnum.Spec.Radix Bnum.Fmt Bnum.Spec.Fmt

/-! ## E. TEXT laws: cross-module laws relating printing (`to_str_radix`, `to_radix_be/le`,
  C11), formatting (`Display`, `Debug`, `LowerHex`, `UpperHex`, `Binary`, `Octal`, `LowerExp`,
  `UpperExp` with `Fmt.Flags`, C12) and parsing (`from_str_radix`, `FromStr`, `parse_bytes`,
  `parse_str_radix`, `from_radix_be/le`, C10), plus `to_le_bytes` (C13 lemmas).
  Strings are byte lists; a formatter is the `Fmt.Flags` it carries.  Hypotheses are those of the
  underlying spec theorems: `8 ≤ w`, `1 ≤ n`, `WF w n x` for printing; additionally `4 ∣ w` for
  unsigned parsing and the hex forms, `w = 2^s`, `3 ≤ s < 32` for signed parsing, `w = 8·2^sh` for
  `from_radix_*`; several laws are definitional and hold for every `w`, `x`.
-/

/-! ### E1. printing is injective -/

/-- `a.to_radix_le(r) == b.to_radix_le(r)` implies `a == b` (`BUint`, radix 2..=256) -/
theorem to_radix_le_injective {w n r : Nat} {x y : List Nat} (hn : 1 ≤ n) (hw8 : 8 ≤ w)
    (hx : WF w n x) (hy : WF w n y) (hr : 2 ≤ r) (hr256 : r ≤ 256)
    (h : UI.toRadixLe w x r = UI.toRadixLe w y r) : x = y := by
  rw [UI.toRadixLe_spec hn hw8 hx hr hr256, UI.toRadixLe_spec hn hw8 hy hr hr256] at h
  exact U_injective hx hy (txt_canonLE_inj hr (Outcome.ok.inj h))
example : UI.toRadixLe 8 [0x39, 0x30] 200 = .ok [145, 61] ∧ UI.toRadixLe 8 [0x39, 0x31] 200 = .ok [1, 63] := by
  decide

/-- `a.to_radix_be(r) == b.to_radix_be(r)` implies `a == b` -/
theorem to_radix_be_injective {w n r : Nat} {x y : List Nat} (hn : 1 ≤ n) (hw8 : 8 ≤ w)
    (hx : WF w n x) (hy : WF w n y) (hr : 2 ≤ r) (hr256 : r ≤ 256)
    (h : UI.toRadixBe w x r = UI.toRadixBe w y r) : x = y := by
  rw [UI.toRadixBe_spec hn hw8 hx hr hr256, UI.toRadixBe_spec hn hw8 hy hr hr256] at h
  exact U_injective hx hy (txt_canonBE_inj hr (Outcome.ok.inj h))
example : UI.toRadixBe 8 [0x39, 0x30] 200 = .ok [61, 145] := by decide

/-- `a.to_str_radix(r) == b.to_str_radix(r)` implies `a == b` (`BUint`, radix 2..=36) -/
theorem u_to_str_radix_injective {w n r : Nat} {x y : List Nat} (hn : 1 ≤ n) (hw8 : 8 ≤ w)
    (hx : WF w n x) (hy : WF w n y) (hr : 2 ≤ r) (hr36 : r ≤ 36)
    (h : UI.toStrRadix w x r = UI.toStrRadix w y r) : x = y := by
  rw [UI.toStrRadix_spec hn hw8 hx hr hr36, UI.toStrRadix_spec hn hw8 hy hr hr36] at h
  have hlt : ∀ v, ∀ d ∈ canonBE r v, d < 36 := fun v d hd => by
    have := txt_canonBE_lt (v := v) hr d hd; omega
  exact U_injective hx hy
    (txt_canonBE_inj hr (txt_map_digitChar_inj _ _ (hlt _) (hlt _) (Outcome.ok.inj h)))
example : UI.toStrRadix 8 [0xff, 0x0f] 36 ≠ UI.toStrRadix 8 [0xff, 0x1f] 36 := by decide

/-- `a.to_str_radix(r) == b.to_str_radix(r)` implies `a == b` (`BInt`) -/
theorem i_to_str_radix_injective {w n r : Nat} {x y : List Nat} (hn : 1 ≤ n) (hw8 : 8 ≤ w)
    (hx : WF w n x) (hy : WF w n y) (hr : 2 ≤ r) (hr36 : r ≤ 36)
    (h : II.toStrRadix w x r = II.toStrRadix w y r) : x = y := by
  rw [II.toStrRadix_spec hn hw8 hx hr hr36, II.toStrRadix_spec hn hw8 hy hr hr36] at h
  exact Cmp.S_injective hx hy (txt_canonStr_inj hr hr36 (Outcome.ok.inj h))
example : II.toStrRadix 8 [0x01, 0x80] 10 ≠ II.toStrRadix 8 [0xff, 0x7f] 10 := by decide

/-! ### E2. `to_radix_be` is the reverse of `to_radix_le` -/

/-- `x.to_radix_le(r) = l`  iff  `x.to_radix_be(r) = reverse l` (every radix, every `x`) -/
theorem to_radix_le_ok_iff (w : Nat) (x : List Nat) (r : Nat) (l : List Nat) :
    UI.toRadixLe w x r = .ok l ↔ UI.toRadixBe w x r = .ok l.reverse := by
  unfold UI.toRadixBe
  cases UI.toRadixLe w x r with
  | panic => simp [Outcome.map]
  | ok l' => simp [Outcome.map]
example : UI.toRadixLe 8 [0x39, 0x30] 10 = .ok [5, 4, 3, 2, 1] ∧
    UI.toRadixBe 8 [0x39, 0x30] 10 = .ok [5, 4, 3, 2, 1].reverse := by decide

/-- `x.to_radix_be(r) = l`  iff  `x.to_radix_le(r) = reverse l` -/
theorem to_radix_be_ok_iff (w : Nat) (x : List Nat) (r : Nat) (l : List Nat) :
    UI.toRadixBe w x r = .ok l ↔ UI.toRadixLe w x r = .ok l.reverse := by
  rw [to_radix_le_ok_iff, List.reverse_reverse]
example : UI.toRadixBe 8 [0x39, 0x30] 7 = .ok [5, 0, 6, 6, 4] ∧
    UI.toRadixLe 8 [0x39, 0x30] 7 = .ok [5, 0, 6, 6, 4].reverse := by decide

/-- the same for `BInt` (which prints its bit pattern) -/
theorem i_to_radix_le_ok_iff (w : Nat) (x : List Nat) (r : Nat) (l : List Nat) :
    II.toRadixLe w x r = .ok l ↔ II.toRadixBe w x r = .ok l.reverse := to_radix_le_ok_iff w x r l
example : II.toRadixLe 8 [0xff, 0xff] 256 = .ok [255, 255] ∧
    II.toRadixBe 8 [0xff, 0xff] 256 = .ok [255, 255].reverse := by decide
theorem i_to_radix_be_ok_iff (w : Nat) (x : List Nat) (r : Nat) (l : List Nat) :
    II.toRadixBe w x r = .ok l ↔ II.toRadixLe w x r = .ok l.reverse := to_radix_be_ok_iff w x r l
example : II.toRadixLe 8 [0x00, 0x80] 16 = .ok [0, 0, 0, 8] ∧
    II.toRadixBe 8 [0x00, 0x80] 16 = .ok [8, 0, 0, 0] := by decide

/-! ### E3. `Display` without width / `+` is `to_str_radix(10)` -/

/-- `format!("{}", x) == x.to_str_radix(10)` (`BUint`; any fill/alignment/`0`/`#` flags, no width,
    no `+`) — also when both panic -/
theorem u_display_eq_to_str_radix (fl : Flags) (w : Nat) (x : List Nat) (hwd : fl.width = 0)
    (hp : fl.signPlus = false) : UI.fmtDisplay fl w x = UI.toStrRadix w x 10 := by
  unfold UI.fmtDisplay
  apply txt_map_id
  intro s
  rw [txt_pad_nowidth fl true [] s hwd]; simp [signPrefix, hp]
example : UI.fmtDisplay {} 8 [0x39, 0x30] = .ok (C12.str "12345") ∧
    UI.toStrRadix 8 [0x39, 0x30] 10 = .ok (C12.str "12345") := by decide

/-- `format!("{}", x) == x.to_str_radix(10)` (`BInt`, with the `-` sign) -/
theorem i_display_eq_to_str_radix (fl : Flags) (w : Nat) (x : List Nat) (hwd : fl.width = 0)
    (hp : fl.signPlus = false) : II.fmtDisplay fl w x = II.toStrRadix w x 10 := by
  unfold II.fmtDisplay II.toStrRadix
  rw [u_display_eq_to_str_radix {} w _ rfl rfl]
  cases hneg : isNegative w x
  · have e : II.unsignedAbs w x = x := by unfold II.unsignedAbs; rw [hneg]; rfl
    rw [e]
    apply txt_map_id
    intro s
    rw [txt_pad_nowidth fl _ [] s hwd]; simp [signPrefix, hp]
  · simp only [if_true]
    apply txt_map_congr
    intro s
    rw [txt_pad_nowidth fl _ [] s hwd]; simp [signPrefix]
example : II.fmtDisplay {} 8 [0x00, 0x80] = .ok (C12.str "-32768") ∧
    II.toStrRadix 8 [0x00, 0x80] 10 = .ok (C12.str "-32768") := by decide

/-- `Debug` is `Display` -/
theorem debug_eq_display (fl : Flags) (w : Nat) (x : List Nat) :
    UI.fmtDebug fl w x = UI.fmtDisplay fl w x ∧ II.fmtDebug fl w x = II.fmtDisplay fl w x := ⟨rfl, rfl⟩
example : II.fmtDebug { width := 8 } 8 [0x00, 0x80] = .ok (C12.str "  -32768") := by decide

/-! ### E4. `LowerHex` / `Binary` / `Octal` without flags are `to_str_radix(16 / 2 / 8)` -/

/-- `format!("{:x}", x) == x.to_str_radix(16)` (`BUint`) -/
theorem u_lower_hex_eq_to_str_radix (fl : Flags) {w n : Nat} {x : List Nat} (hn : 1 ≤ n)
    (hw8 : 8 ≤ w) (hw4 : 4 ∣ w) (hx : WF w n x) (hwd : fl.width = 0) (hp : fl.signPlus = false)
    (ha : fl.alternate = false) : UI.fmtLowerHex fl w x = UI.toStrRadix w x 16 := by
  rw [lowerHex_eq fl (by omega) hw4 hx, UI.toStrRadix_spec hn hw8 hx (by omega) (by omega),
    txt_pad_plain fl _ _ hwd hp ha]; rfl
example : UI.fmtLowerHex {} 8 [0x34, 0x02, 0xab] = .ok (C12.str "ab0234") ∧
    UI.toStrRadix 8 [0x34, 0x02, 0xab] 16 = .ok (C12.str "ab0234") := by decide

/-- `format!("{:b}", x) == x.to_str_radix(2)` (`BUint`) -/
theorem u_binary_eq_to_str_radix (fl : Flags) {w n : Nat} {x : List Nat} (hn : 1 ≤ n)
    (hw8 : 8 ≤ w) (hx : WF w n x) (hwd : fl.width = 0) (hp : fl.signPlus = false)
    (ha : fl.alternate = false) : UI.fmtBinary fl w x = UI.toStrRadix w x 2 := by
  rw [binary_eq fl (by omega) hx, UI.toStrRadix_spec hn hw8 hx (by omega) (by omega),
    txt_pad_plain fl _ _ hwd hp ha]; rfl
example : UI.fmtBinary {} 8 [0x05, 0x02] = .ok (C12.str "1000000101") ∧
    UI.toStrRadix 8 [0x05, 0x02] 2 = .ok (C12.str "1000000101") := by decide

/-- `format!("{:o}", x) == x.to_str_radix(8)` (`BUint`; every `x`, also when both panic) -/
theorem u_octal_eq_to_str_radix (fl : Flags) (w : Nat) (x : List Nat) (hwd : fl.width = 0)
    (hp : fl.signPlus = false) (ha : fl.alternate = false) :
    UI.fmtOctal fl w x = UI.toStrRadix w x 8 := by
  unfold UI.fmtOctal
  exact txt_map_id _ _ (fun s => txt_pad_plain fl _ s hwd hp ha)
example : UI.fmtOctal {} 8 [0x40, 0xe2, 0x01] = .ok (C12.str "361100") ∧
    UI.toStrRadix 8 [0x40, 0xe2, 0x01] 8 = .ok (C12.str "361100") := by decide

/-- `BInt`: `{:x}` / `{:b}` / `{:o}` print the two's-complement bit pattern:
    `format!("{:x}", x) == x.to_bits().to_str_radix(16)`, … -/
theorem i_radix_fmt_eq_to_str_radix (fl : Flags) {w n : Nat} {x : List Nat} (hn : 1 ≤ n)
    (hw8 : 8 ≤ w) (hw4 : 4 ∣ w) (hx : WF w n x) (hwd : fl.width = 0) (hp : fl.signPlus = false)
    (ha : fl.alternate = false) :
    II.fmtLowerHex fl w x = UI.toStrRadix w (II.toBits x) 16 ∧
    II.fmtBinary fl w x = UI.toStrRadix w (II.castUnsigned x) 2 ∧
    II.fmtOctal fl w x = UI.toStrRadix w (II.toBits x) 8 :=
  ⟨u_lower_hex_eq_to_str_radix fl hn hw8 hw4 hx hwd hp ha,
   u_binary_eq_to_str_radix fl hn hw8 hx hwd hp ha,
   u_octal_eq_to_str_radix fl w x hwd hp ha⟩
example : II.fmtLowerHex {} 8 [0x18, 0xfc] = .ok (C12.str "fc18") ∧ S 8 [0x18, 0xfc] = -1000 ∧
    UI.toStrRadix 8 (II.toBits [0x18, 0xfc]) 16 = .ok (C12.str "fc18") ∧
    II.toStrRadix 8 [0x18, 0xfc] 16 = .ok (C12.str "-3e8") := by decide

/-! ### E5. `UpperHex` is the ASCII-uppercase of `LowerHex` -/

/-- for every formatter state: `{:X}` pads the uppercased digits of `{:x}` -/
theorem upper_hex_eq_pad_upper (fl : Flags) {w n : Nat} {x : List Nat} (hw : 1 ≤ w) (hw4 : 4 ∣ w)
    (hx : WF w n x) :
    UI.fmtUpperHex fl w x
      = (UI.fmtLowerHex {} w x).map (fun s => padIntegral fl true [48, 120] (s.map txt_asciiUpper)) := by
  rw [upperHex_eq fl hw hw4 hx, lowerHex_eq {} hw hw4 hx, padIntegral_default,
    txt_numeralUpper_eq (by omega) (by omega)]; rfl
example : UI.fmtUpperHex { alternate := true, width := 10 } 8 [0x34, 0x02, 0xab] = .ok (C12.str "  0xAB0234") := by
  decide

/-- `format!("{:X}", x) == format!("{:x}", x).to_ascii_uppercase()` (no width, no `#`) -/
theorem upper_hex_eq_upper_lower_hex (fl : Flags) {w n : Nat} {x : List Nat} (hw : 1 ≤ w)
    (hw4 : 4 ∣ w) (hx : WF w n x) (hwd : fl.width = 0) (ha : fl.alternate = false) :
    UI.fmtUpperHex fl w x = (UI.fmtLowerHex fl w x).map (List.map txt_asciiUpper) := by
  rw [upperHex_eq fl hw hw4 hx, lowerHex_eq fl hw hw4 hx, txt_pad_nowidth _ _ _ _ hwd,
    txt_pad_nowidth _ _ _ _ hwd, txt_numeralUpper_eq (by omega) (by omega)]
  cases hsp : fl.signPlus <;> simp [Outcome.map, signPrefix, ha, hsp, txt_asciiUpper]
example : UI.fmtUpperHex {} 8 [0x34, 0x02, 0xab] = .ok (C12.str "AB0234") ∧
    (UI.fmtLowerHex {} 8 [0x34, 0x02, 0xab]).map (List.map txt_asciiUpper) = .ok (C12.str "AB0234") := by
  decide

/-- the naive law fails under `#`: the prefix stays `0x` (`{:#X}` of 255 is `0xFF`, not `0XFF`) -/
theorem upper_hex_alternate_counterexample :
    UI.fmtUpperHex { alternate := true } 8 [0xff] = .ok (C12.str "0xFF") ∧
    (UI.fmtLowerHex { alternate := true } 8 [0xff]).map (List.map txt_asciiUpper)
      = .ok (C12.str "0XFF") := by decide

/-! ### E6. the `#` and `+` flags (no width) prepend the prefix / the sign -/

/-- `format!("{:#x}", x) == "0x" + &format!("{:x}", x)` (every `x`) -/
theorem lower_hex_alternate (w : Nat) (x : List Nat) :
    UI.fmtLowerHex { alternate := true } w x = (UI.fmtLowerHex {} w x).map ([48, 120] ++ ·) := by
  unfold UI.fmtLowerHex fmtMethod
  rw [padIntegral_default, txt_pad_nowidth _ _ _ _ rfl]; rfl
example : UI.fmtLowerHex { alternate := true } 8 [0x34, 0x02, 0xab] = .ok (C12.str "0xab0234") := by decide

/-- `format!("{:#X}", x) == "0x" + &format!("{:X}", x)` -/
theorem upper_hex_alternate (w : Nat) (x : List Nat) :
    UI.fmtUpperHex { alternate := true } w x = (UI.fmtUpperHex {} w x).map ([48, 120] ++ ·) := by
  unfold UI.fmtUpperHex fmtMethod
  rw [padIntegral_default, txt_pad_nowidth _ _ _ _ rfl]; rfl
example : UI.fmtUpperHex { alternate := true } 8 [0x34, 0x02, 0xab] = .ok (C12.str "0xAB0234") := by decide

/-- `format!("{:#b}", x) == "0b" + &format!("{:b}", x)` -/
theorem binary_alternate (w : Nat) (x : List Nat) :
    UI.fmtBinary { alternate := true } w x = (UI.fmtBinary {} w x).map ([48, 98] ++ ·) := by
  unfold UI.fmtBinary fmtMethod
  rw [padIntegral_default, txt_pad_nowidth _ _ _ _ rfl]; rfl
example : UI.fmtBinary { alternate := true } 8 [0x05, 0x02] = .ok (C12.str "0b1000000101") := by decide

/-- `format!("{:#o}", x) == "0o" + &format!("{:o}", x)` -/
theorem octal_alternate (w : Nat) (x : List Nat) :
    UI.fmtOctal { alternate := true } w x = (UI.fmtOctal {} w x).map ([48, 111] ++ ·) := by
  unfold UI.fmtOctal
  rw [txt_map_map]
  apply txt_map_congr
  intro s
  rw [padIntegral_default, txt_pad_nowidth _ _ _ _ rfl]; rfl
example : UI.fmtOctal { alternate := true } 8 [0x40, 0xe2, 0x01] = .ok (C12.str "0o361100") := by decide

/-- `format!("{:+}", x) == "+" + &format!("{}", x)` (`BUint`) -/
theorem u_display_plus (w : Nat) (x : List Nat) :
    UI.fmtDisplay { signPlus := true } w x = (UI.fmtDisplay {} w x).map (43 :: ·) := by
  unfold UI.fmtDisplay
  rw [txt_map_map]
  apply txt_map_congr
  intro s
  rw [padIntegral_default, txt_pad_nowidth _ _ _ _ rfl]; rfl
example : UI.fmtDisplay { signPlus := true } 8 [0x39, 0x30] = .ok (C12.str "+12345") := by decide

/-- `BInt`: `{:+}` prepends `+` to a non-negative value and changes nothing for a negative one -/
theorem i_display_plus (w : Nat) (x : List Nat) :
    II.fmtDisplay { signPlus := true } w x
      = if isNegative w x then II.fmtDisplay {} w x else (II.fmtDisplay {} w x).map (43 :: ·) := by
  unfold II.fmtDisplay
  cases hneg : isNegative w x
  · simp only [Bool.false_eq_true, if_false, Bool.not_false]
    rw [txt_map_map]
    apply txt_map_congr
    intro s
    rw [padIntegral_default, txt_pad_nowidth _ _ _ _ rfl]; rfl
  · simp only [if_true, Bool.not_true]
    apply txt_map_congr
    intro s
    rw [txt_pad_nowidth _ _ _ _ rfl, txt_pad_nowidth _ _ _ _ rfl]; rfl
example : II.fmtDisplay { signPlus := true } 8 [0xff, 0x7f] = .ok (C12.str "+32767") ∧
    II.fmtDisplay { signPlus := true } 8 [0x00, 0x80] = .ok (C12.str "-32768") := by decide

/-! ### E7. `parse_bytes` is `from_str_radix(..).ok()` -/

/-- on valid UTF-8, `parse_bytes(buf, r) = from_str_radix(str::from_utf8(buf).unwrap(), r).ok()`
    (every radix: both panic for a radix outside 2..=36) -/
theorem parse_bytes_of_utf8 (w n : Nat) (buf : List Nat) (r : Nat) (h : Prim.utf8Valid buf = true) :
    UI.parseBytes w n buf r = (UI.fromStrRadix w n buf r).map PRes.toOption ∧
    II.parseBytes w n buf r = (II.fromStrRadix w n buf r).map PRes.toOption := by
  unfold UI.parseBytes II.parseBytes; simp [h]
example : Prim.utf8Valid [0x37, 0x66] = true ∧ UI.parseBytes 8 1 [0x37, 0x66] 16 = .ok (some [0x7f]) ∧
    UI.fromStrRadix 8 1 [0x37, 0x66] 16 = .ok (.ok [0x7f]) := by decide

/-- for a radix in 2..=36 the UTF-8 check is redundant: on EVERY byte string
    `parse_bytes(buf, r) = from_str_radix(buf, r).ok()` (ill-formed UTF-8 is never a numeral) -/
theorem u_parse_bytes_eq_from_str_radix {w n : Nat} (hn : 1 ≤ n) (hw8 : 8 ≤ w) (hw4 : 4 ∣ w)
    {r : Nat} (hr : 2 ≤ r) (hr36 : r ≤ 36) (buf : List Nat) :
    UI.parseBytes w n buf r = (UI.fromStrRadix w n buf r).map PRes.toOption := by
  rw [UI.parseBytes_spec hn hw8 hw4 hr hr36 buf,
    Matches_toOption (UI.fromStrRadix_matches hn hw8 hw4 hr hr36 buf)]
example : UI.parseBytes 8 1 [0x37, 0xc3] 16 = .ok none ∧
    (UI.fromStrRadix 8 1 [0x37, 0xc3] 16).map PRes.toOption = .ok none := by decide

theorem i_parse_bytes_eq_from_str_radix {s n : Nat} (hn : 1 ≤ n) (hs3 : 3 ≤ s) (hs : s < 32)
    {r : Nat} (hr : 2 ≤ r) (hr36 : r ≤ 36) (buf : List Nat) :
    II.parseBytes (2 ^ s) n buf r = (II.fromStrRadix (2 ^ s) n buf r).map PRes.toOption := by
  rw [II.parseBytes_spec hn hs3 hs hr hr36 buf,
    Matches_toOption (II.fromStrRadix_matches hn hs3 hs hr hr36 buf)]
example : II.parseBytes (2 ^ 3) 1 [0x2d, 0x38, 0x30] 16 = .ok (some [0x80]) ∧
    (II.fromStrRadix (2 ^ 3) 1 [0x2d, 0x38, 0x30] 16).map PRes.toOption = .ok (some [0x80]) := by decide

/-- for an out-of-range radix the two differ on ill-formed UTF-8 (`parse_bytes` checks UTF-8 first) -/
theorem parse_bytes_radix_counterexample :
    UI.parseBytes 8 1 [0xff] 37 = .ok none ∧ (UI.fromStrRadix 8 1 [0xff] 37).map PRes.toOption = .panic := by
  decide

/-! ### E9. `parse_str_radix` of `to_str_radix` returns the value (never panics) -/

/-- `BUint::parse_str_radix(&x.to_str_radix(r), r) == x` -/
theorem u_parse_str_radix_to_str_radix {w n r : Nat} {x : List Nat} (hn : 1 ≤ n) (hw8 : 8 ≤ w)
    (hw4 : 4 ∣ w) (hx : WF w n x) (hr : 2 ≤ r) (hr36 : r ≤ 36) :
    (UI.toStrRadix w x r).bind (fun s => UI.parseStrRadix w n s r) = .ok x := by
  have h := C11.u_roundtrip_str hn hw8 hw4 hx hr hr36
  cases e : UI.toStrRadix w x r with
  | panic => rw [e] at h; cases h
  | ok s => rw [e] at h; exact (C10.u_parse_str_radix_iff w n s r x).mpr h
example : (UI.toStrRadix 8 [0xff, 0xff] 7).bind (fun s => UI.parseStrRadix 8 2 s 7) = .ok [0xff, 0xff] := by
  decide

/-- `BInt::parse_str_radix(&x.to_str_radix(r), r) == x` -/
theorem i_parse_str_radix_to_str_radix {s n r : Nat} {x : List Nat} (hn : 1 ≤ n) (hs3 : 3 ≤ s)
    (hs : s < 32) (hx : WF (2 ^ s) n x) (hr : 2 ≤ r) (hr36 : r ≤ 36) :
    (II.toStrRadix (2 ^ s) x r).bind (fun str => II.parseStrRadix (2 ^ s) n str r) = .ok x := by
  have h := C11.i_roundtrip_str hn hs3 hs hx hr hr36
  cases e : II.toStrRadix (2 ^ s) x r with
  | panic => rw [e] at h; cases h
  | ok str => rw [e] at h; exact (C10.i_parse_str_radix_iff (2 ^ s) n str r x).mpr h
example : (II.toStrRadix (2 ^ 3) [0x00, 0x80] 16).bind (fun s => II.parseStrRadix (2 ^ 3) 2 s 16)
    = .ok [0x00, 0x80] := by decide

/-! ### E10 / E8. parsing what the formatter printed -/

/-- `BUint::from_str_radix(&format!("{}", x), 10) == Ok(x)`, also for `{:+}` (no width) -/
theorem u_display_parse (fl : Flags) {w n : Nat} {x : List Nat} (hn : 1 ≤ n) (hw8 : 8 ≤ w)
    (hw4 : 4 ∣ w) (hx : WF w n x) (hwd : fl.width = 0) :
    (UI.fmtDisplay fl w x).bind (fun s => UI.fromStrRadix w n s 10) = .ok (.ok x) := by
  rw [C12.display_content fl hw8 hn hx, txt_pad_nowidth _ _ _ _ hwd]
  have := txt_u_parse_canon hn hw8 hw4 hx (r := 10) (by omega) (by omega) txt_goodTab_lower fl.signPlus
  simpa [Outcome.bind, signPrefix, numeral] using this
example : (UI.fmtDisplay { signPlus := true } 8 [0x39, 0x30]).bind (fun s => UI.fromStrRadix 8 2 s 10)
    = .ok (.ok [0x39, 0x30]) := by decide

/-- `format!("{}", x).parse::<BUint>() == Ok(x)` (`FromStr`) -/
theorem u_display_from_str (fl : Flags) {w n : Nat} {x : List Nat} (hn : 1 ≤ n) (hw8 : 8 ≤ w)
    (hw4 : 4 ∣ w) (hx : WF w n x) (hwd : fl.width = 0) :
    (UI.fmtDisplay fl w x).bind (UI.fromStr w n) = .ok (.ok x) :=
  u_display_parse fl hn hw8 hw4 hx hwd
example : (UI.fmtDisplay {} 8 [0x39, 0x30]).bind (UI.fromStr 8 2) = .ok (.ok [0x39, 0x30]) := by decide

/-- `BInt::from_str_radix(&format!("{}", x), 10) == Ok(x)`, also for `{:+}` (no width) -/
theorem i_display_parse (fl : Flags) {s n : Nat} {x : List Nat} (hn : 1 ≤ n) (hs3 : 3 ≤ s)
    (hs : s < 32) (hx : WF (2 ^ s) n x) (hwd : fl.width = 0) :
    (II.fmtDisplay fl (2 ^ s) x).bind (fun str => II.fromStrRadix (2 ^ s) n str 10) = .ok (.ok x) := by
  rw [C12.display_signed fl (pow_s_facts hs3).1 hn hx, txt_pad_nowidth _ _ _ _ hwd]
  have := txt_i_parse_canon hn hs3 hs hx (r := 10) (by omega) (by omega) txt_goodTab_lower fl.signPlus
  by_cases hneg : S (2 ^ s) x < 0
  · have h0 : ¬ (0 ≤ S (2 ^ s) x) := by omega
    simpa [Outcome.bind, signPrefix, numeral, hneg, h0] using this
  · have h0 : 0 ≤ S (2 ^ s) x := by omega
    simpa [Outcome.bind, signPrefix, numeral, hneg, h0] using this
example : (II.fmtDisplay {} (2 ^ 3) [0x00, 0x80]).bind (fun s => II.fromStrRadix (2 ^ 3) 2 s 10)
    = .ok (.ok [0x00, 0x80]) ∧
    (II.fmtDisplay { signPlus := true } (2 ^ 3) [0xff, 0x7f]).bind (fun s => II.fromStrRadix (2 ^ 3) 2 s 10)
    = .ok (.ok [0xff, 0x7f]) := by decide

/-- `format!("{}", x).parse::<BInt>() == Ok(x)` (`FromStr`) -/
theorem i_display_from_str (fl : Flags) {s n : Nat} {x : List Nat} (hn : 1 ≤ n) (hs3 : 3 ≤ s)
    (hs : s < 32) (hx : WF (2 ^ s) n x) (hwd : fl.width = 0) :
    (II.fmtDisplay fl (2 ^ s) x).bind (II.fromStr (2 ^ s) n) = .ok (.ok x) :=
  i_display_parse fl hn hs3 hs hx hwd
example : (II.fmtDisplay {} (2 ^ 3) [0x18, 0xfc]).bind (II.fromStr (2 ^ 3) 2) = .ok (.ok [0x18, 0xfc]) := by
  decide

/-- `BUint::from_str_radix(&format!("{:x}", x), 16) == Ok(x)` (no width, no `#`; `+` allowed) -/
theorem u_lower_hex_parse (fl : Flags) {w n : Nat} {x : List Nat} (hn : 1 ≤ n) (hw8 : 8 ≤ w)
    (hw4 : 4 ∣ w) (hx : WF w n x) (hwd : fl.width = 0) (ha : fl.alternate = false) :
    (UI.fmtLowerHex fl w x).bind (fun s => UI.fromStrRadix w n s 16) = .ok (.ok x) := by
  rw [lowerHex_eq fl (by omega) hw4 hx, txt_pad_nowidth _ _ _ _ hwd]
  have := txt_u_parse_canon hn hw8 hw4 hx (r := 16) (by omega) (by omega) txt_goodTab_lower fl.signPlus
  simpa [Outcome.bind, signPrefix, numeral, ha] using this
example : (UI.fmtLowerHex {} 8 [0x34, 0x02, 0xab]).bind (fun s => UI.fromStrRadix 8 3 s 16)
    = .ok (.ok [0x34, 0x02, 0xab]) := by decide

/-- `BUint::from_str_radix(&format!("{:X}", x), 16) == Ok(x)`: parsing is case-insensitive -/
theorem u_upper_hex_parse (fl : Flags) {w n : Nat} {x : List Nat} (hn : 1 ≤ n) (hw8 : 8 ≤ w)
    (hw4 : 4 ∣ w) (hx : WF w n x) (hwd : fl.width = 0) (ha : fl.alternate = false) :
    (UI.fmtUpperHex fl w x).bind (fun s => UI.fromStrRadix w n s 16) = .ok (.ok x) := by
  rw [upperHex_eq fl (by omega) hw4 hx, txt_pad_nowidth _ _ _ _ hwd]
  have := txt_u_parse_canon hn hw8 hw4 hx (r := 16) (by omega) (by omega) txt_goodTab_upper fl.signPlus
  simpa [Outcome.bind, signPrefix, numeralUpper, ha] using this
example : (UI.fmtUpperHex {} 8 [0x34, 0x02, 0xab]).bind (fun s => UI.fromStrRadix 8 3 s 16)
    = .ok (.ok [0x34, 0x02, 0xab]) := by decide

/-- `BUint::from_str_radix(&format!("{:b}", x), 2) == Ok(x)` -/
theorem u_binary_parse (fl : Flags) {w n : Nat} {x : List Nat} (hn : 1 ≤ n) (hw8 : 8 ≤ w)
    (hw4 : 4 ∣ w) (hx : WF w n x) (hwd : fl.width = 0) (ha : fl.alternate = false) :
    (UI.fmtBinary fl w x).bind (fun s => UI.fromStrRadix w n s 2) = .ok (.ok x) := by
  rw [binary_eq fl (by omega) hx, txt_pad_nowidth _ _ _ _ hwd]
  have := txt_u_parse_canon hn hw8 hw4 hx (r := 2) (by omega) (by omega) txt_goodTab_lower fl.signPlus
  simpa [Outcome.bind, signPrefix, numeral, ha] using this
example : (UI.fmtBinary {} 8 [0x05, 0x02]).bind (fun s => UI.fromStrRadix 8 2 s 2)
    = .ok (.ok [0x05, 0x02]) := by decide

/-- `BUint::from_str_radix(&format!("{:o}", x), 8) == Ok(x)` -/
theorem u_octal_parse (fl : Flags) {w n : Nat} {x : List Nat} (hn : 1 ≤ n) (hw8 : 8 ≤ w)
    (hw4 : 4 ∣ w) (hx : WF w n x) (hwd : fl.width = 0) (ha : fl.alternate = false) :
    (UI.fmtOctal fl w x).bind (fun s => UI.fromStrRadix w n s 8) = .ok (.ok x) := by
  rw [C12.octal_content fl hw8 hn hx, txt_pad_nowidth _ _ _ _ hwd]
  have := txt_u_parse_canon hn hw8 hw4 hx (r := 8) (by omega) (by omega) txt_goodTab_lower fl.signPlus
  simpa [Outcome.bind, signPrefix, numeral, ha] using this
example : (UI.fmtOctal {} 8 [0x40, 0xe2, 0x01]).bind (fun s => UI.fromStrRadix 8 3 s 8)
    = .ok (.ok [0x40, 0xe2, 0x01]) := by decide

/-- the `#` forms do NOT parse back (`from_str_radix` knows no `0x` prefix), and the hex form of a
    negative `BInt` (its bit pattern) does not parse back as a `BInt` -/
theorem fmt_parse_counterexamples :
    (UI.fmtLowerHex { alternate := true } 8 [0xff]).bind (fun s => UI.fromStrRadix 8 1 s 16)
      = .ok (.err .invalidDigit) ∧
    (II.fmtLowerHex {} (2 ^ 3) [0xff]).bind (fun s => II.fromStrRadix (2 ^ 3) 1 s 16)
      = .ok (.err .posOverflow) := by decide

/-! ### E11. `from_radix_le` is `from_radix_be` of the reversed digits -/

/-- `from_radix_le(buf, r) == from_radix_be(reverse(buf), r)` (every radix: both panic outside
    2..=256) -/
theorem from_radix_le_eq_be_reverse {w n sh : Nat} (hn : 1 ≤ n) (hwb : w = 8 * 2 ^ sh)
    (buf : List Nat) (hbuf : ∀ b ∈ buf, b < 256) (r : Nat) :
    UI.fromRadixLe w n buf r = UI.fromRadixBe w n buf.reverse r := by
  have hbuf' : ∀ b ∈ buf.reverse, b < 256 := fun b hb => hbuf b (by simpa using hb)
  by_cases hr : 2 ≤ r ∧ r ≤ 256
  · rw [UI.fromRadixLe_spec hn hwb hr.1 hr.2 buf hbuf, UI.fromRadixBe_spec hn hwb hr.1 hr.2 _ hbuf']
  · rw [(C10.from_radix_le_panic_iff hn hwb r buf hbuf).mpr hr,
      (C10.from_radix_be_panic_iff hn hwb r _ hbuf').mpr hr]
example : UI.fromRadixLe 8 2 [5, 4, 3, 2, 1] 10 = .ok (some [0x39, 0x30]) ∧
    UI.fromRadixBe 8 2 [1, 2, 3, 4, 5] 10 = .ok (some [0x39, 0x30]) := by decide

/-- the same for `BInt` -/
theorem i_from_radix_le_eq_be_reverse {w n sh : Nat} (hn : 1 ≤ n) (hwb : w = 8 * 2 ^ sh)
    (buf : List Nat) (hbuf : ∀ b ∈ buf, b < 256) (r : Nat) :
    II.fromRadixLe w n buf r = II.fromRadixBe w n buf.reverse r :=
  from_radix_le_eq_be_reverse hn hwb buf hbuf r
example : II.fromRadixLe 8 1 [0, 8] 16 = .ok (some [0x80]) ∧ II.fromRadixBe 8 1 [8, 0] 16 = .ok (some [0x80]) := by
  decide

/-- `x.to_radix_le(256)` is `x.to_le_bytes()` with the most significant zero bytes removed
    (`x != 0`; for `x = 0` it is `[0]`) -/
theorem to_radix_le_256_eq_le_bytes {w n sh : Nat} {x : List Nat} (hn : 1 ≤ n) (hwb : w = 8 * 2 ^ sh)
    (hx : WF w n x) (hnz : x ≠ zero n) :
    UI.toRadixLe w x 256 = (UI.toLeBytes (w / 8) n x).map popZeros := by
  have hpos : 0 < 2 ^ sh := Nat.pow_pos (by omega)
  have hbw : w / 8 = 2 ^ sh := by rw [hwb]; exact Nat.mul_div_cancel_left _ (by omega)
  have hu : U w x ≠ 0 := fun e => hnz (U_injective hx (WF_zero w n) (by rw [e, U_zero]))
  rw [UI.toRadixLe_spec hn (by omega) hx (by omega) (by omega), hbw, UI.toLeBytes_eq rfl hx.1]
  have hx' : ∀ d ∈ x, d < B (8 * 2 ^ sh) := by rw [← hwb]; exact hx.2
  have hlt : U (8 * 2 ^ sh) x < 256 ^ (2 ^ sh * x.length) := by
    have := U_lt hx
    rw [hwb, hx.1.symm] at this
    rwa [M, Nat.mul_assoc, Nat.pow_mul] at this
  rw [txt_bytesOf_eq_emit _ x hx']
  show _ = Outcome.ok (popZeros _)
  rw [popZeros_emit (by omega) _ _ hlt, ← hwb]
  unfold canonLE; rw [if_neg hu]
example : UI.toRadixLe 16 [0x1234, 0x0056] 256 = .ok [0x34, 0x12, 0x56] ∧
    UI.toLeBytes (16 / 8) 2 [0x1234, 0x0056] = .ok [0x34, 0x12, 0x56, 0x00] := by decide

/-! ### E12. further cross-module text laws -/

/-- `x.to_str_radix(r)` is `x.to_radix_be(r)` with every digit mapped to its lowercase character
    (radix 2..=36, every `x`) -/
theorem u_to_str_radix_eq_map_digits (w : Nat) (x : List Nat) {r : Nat} (hr : 2 ≤ r) (hr36 : r ≤ 36) :
    UI.toStrRadix w x r = (UI.toRadixBe w x r).map (List.map digitChar) := by
  unfold UI.toStrRadix
  have hin : inRange r 36 = true := by simp [inRange, hr, hr36]
  rw [hin, digitToAscii_eq]; rfl
example : UI.toStrRadix 8 [0xff, 0xff] 36 = .ok [0x31, 0x65, 0x6b, 0x66] ∧
    UI.toRadixBe 8 [0xff, 0xff] 36 = .ok [1, 14, 20, 15] := by decide

/-- `BInt::to_str_radix` of a non-negative value is the `BUint` one of its bits; of a negative
    value it is `-` followed by the `BUint` one of `unsigned_abs` -/
theorem i_to_str_radix_by_sign {w n : Nat} {x : List Nat} (hw : 1 ≤ w) (hn : 1 ≤ n) (hx : WF w n x)
    (r : Nat) :
    (0 ≤ S w x → II.toStrRadix w x r = UI.toStrRadix w (II.toBits x) r) ∧
    (S w x < 0 → II.toStrRadix w x r = (UI.toStrRadix w (II.unsignedAbs w x) r).map (45 :: ·)) := by
  unfold II.toStrRadix
  constructor
  · intro h; rw [(isNegative_false_iff hw hn hx).mpr h]; rfl
  · intro h; rw [(isNegative_iff' hw hn hx).mpr h]; rfl
example : S 8 [0x18, 0xfc] < 0 ∧ II.toStrRadix 8 [0x18, 0xfc] 10 = .ok (C12.str "-1000") ∧
    UI.toStrRadix 8 (II.unsignedAbs 8 [0x18, 0xfc]) 10 = .ok (C12.str "1000") := by decide

/-- `to_str_radix` produces ASCII only, hence valid UTF-8 (the `String::from_utf8_unchecked` in
    `to_str_radix` is sound), and never the empty string -/
theorem to_str_radix_ascii {w n r : Nat} {x : List Nat} (hn : 1 ≤ n) (hw8 : 8 ≤ w) (hx : WF w n x)
    (hr : 2 ≤ r) (hr36 : r ≤ 36) :
    (∃ s, UI.toStrRadix w x r = .ok s ∧ s ≠ [] ∧ (∀ b ∈ s, b < 128) ∧ Prim.utf8Valid s = true) ∧
    (∃ s, II.toStrRadix w x r = .ok s ∧ s ≠ [] ∧ (∀ b ∈ s, b < 128) ∧ Prim.utf8Valid s = true) := by
  have key : ∀ v, (∀ b ∈ (canonBE r v).map digitChar, b < 128) := by
    intro v b hb
    obtain ⟨d, hd, rfl⟩ := List.mem_map.mp hb
    have := txt_canonBE_lt hr d hd
    exact txt_digitChar_ascii (by omega)
  constructor
  · refine ⟨_, UI.toStrRadix_spec hn hw8 hx hr hr36, ?_, key _, ascii_utf8Valid _ (key _)⟩
    simpa using txt_canonBE_ne_nil hr (U w x)
  · have hs : ∀ b ∈ canonStr r (S w x), b < 128 := by
      intro b hb
      unfold canonStr at hb
      split at hb
      · rcases List.mem_cons.mp hb with h | h
        · omega
        · exact key _ b h
      · exact key _ b hb
    refine ⟨_, II.toStrRadix_spec hn hw8 hx hr hr36, ?_, hs, ascii_utf8Valid _ hs⟩
    unfold canonStr
    split
    · simp
    · simpa using txt_canonBE_ne_nil hr (S w x).natAbs
example : UI.toStrRadix 8 [0xff, 0xff] 36 = .ok [0x31, 0x65, 0x6b, 0x66] ∧
    Prim.utf8Valid [0x31, 0x65, 0x6b, 0x66] = true := by decide

/-- `ZERO.to_str_radix(r) == "0"`, `ZERO.to_radix_le(r) == [0]` -/
theorem to_str_radix_zero {w n r : Nat} (hn : 1 ≤ n) (hw8 : 8 ≤ w) (hr : 2 ≤ r) :
    (r ≤ 36 → UI.toStrRadix w (zero n) r = .ok [48] ∧ II.toStrRadix w (zero n) r = .ok [48]) ∧
    (r ≤ 256 → UI.toRadixLe w (zero n) r = .ok [0] ∧ UI.toRadixBe w (zero n) r = .ok [0]) := by
  constructor
  · intro hr36
    rw [UI.toStrRadix_spec hn hw8 (WF_zero w n) hr hr36, II.toStrRadix_spec hn hw8 (WF_zero w n) hr hr36,
      U_zero, S_zero]
    exact ⟨rfl, rfl⟩
  · intro hr256
    rw [UI.toRadixLe_spec hn hw8 (WF_zero w n) hr hr256, UI.toRadixBe_spec hn hw8 (WF_zero w n) hr hr256,
      U_zero]
    exact ⟨rfl, rfl⟩
example : UI.toStrRadix 8 (zero 3) 7 = .ok [48] ∧ UI.toRadixLe 8 (zero 3) 200 = .ok [0] := by decide

/-- no leading zeros: the first digit of `to_radix_be` (the first character of `to_str_radix`) of a
    non-zero value is not `0` (`'0'`) -/
theorem to_radix_be_no_leading_zero {w n r : Nat} {x : List Nat} (hn : 1 ≤ n) (hw8 : 8 ≤ w)
    (hx : WF w n x) (hnz : x ≠ zero n) (hr : 2 ≤ r) :
    (r ≤ 256 → ∃ l, UI.toRadixBe w x r = .ok l ∧ l.head? ≠ some 0) ∧
    (r ≤ 36 → ∃ s, UI.toStrRadix w x r = .ok s ∧ s.head? ≠ some 48) := by
  have hu : U w x ≠ 0 := fun e => hnz (U_injective hx (WF_zero w n) (by rw [e, U_zero]))
  have hh : (canonBE r (U w x)).head? ≠ some 0 := by
    unfold canonBE; rw [List.head?_reverse]; exact canonLE_getLast hr hu
  constructor
  · intro hr256; exact ⟨_, UI.toRadixBe_spec hn hw8 hx hr hr256, hh⟩
  · intro hr36
    refine ⟨_, UI.toStrRadix_spec hn hw8 hx hr hr36, ?_⟩
    have hlt := txt_canonBE_lt (v := U w x) hr
    match hc : canonBE r (U w x), hh, hlt with
    | [], _, _ => simp
    | d :: ds, hh, hlt =>
      simp only [List.map_cons, List.head?_cons, ne_eq, Option.some.injEq] at hh ⊢
      unfold digitChar; split <;> omega
example : UI.toStrRadix 8 [0x00, 0x01] 16 = .ok (C12.str "100") := by decide

/-- the parser accepts a leading `+` and any number of leading zeros in front of what
    `to_str_radix` printed: `from_str_radix("+000" + &x.to_str_radix(r), r) == Ok(x)` -/
theorem u_parse_plus_zeros_to_str_radix {w n r : Nat} {x : List Nat} (hn : 1 ≤ n) (hw8 : 8 ≤ w)
    (hw4 : 4 ∣ w) (hx : WF w n x) (hr : 2 ≤ r) (hr36 : r ≤ 36) (k : Nat) :
    (UI.toStrRadix w x r).bind (fun s => UI.fromStrRadix w n (43 :: (List.replicate k 48 ++ s)) r)
      = .ok (.ok x) ∧
    (UI.toStrRadix w x r).bind (fun s => UI.fromStrRadix w n (List.replicate k 48 ++ s) r)
      = .ok (.ok x) := by
  rw [UI.toStrRadix_spec hn hw8 hx hr hr36]
  exact ⟨txt_u_parse_zeros_canon hn hw8 hw4 hx hr hr36 true k,
    txt_u_parse_zeros_canon hn hw8 hw4 hx hr hr36 false k⟩
example : (UI.toStrRadix 8 [0xff, 0xff] 7).bind
    (fun s => UI.fromStrRadix 8 2 (43 :: (List.replicate 20 48 ++ s)) 7) = .ok (.ok [0xff, 0xff]) := by
  decide

/-- `format!("{:E}", x) == format!("{:e}", x).to_ascii_uppercase()` (`BUint`, no width) -/
theorem u_upper_exp_eq_upper_lower_exp (fl : Flags) {w n : Nat} {x : List Nat} (hw8 : 8 ≤ w)
    (hn : 1 ≤ n) (hW : w * n < 2 ^ 64) (hx : WF w n x) (hwd : fl.width = 0) :
    UI.fmtUpperExp fl w x = (UI.fmtLowerExp fl w x).map (List.map txt_asciiUpper) := by
  unfold UI.fmtUpperExp UI.fmtLowerExp
  rw [C12.exp_content 69 fl hw8 hn hW hx, C12.exp_content 101 fl hw8 hn hW hx,
    txt_pad_nowidth _ _ _ _ hwd, txt_pad_nowidth _ _ _ _ hwd, txt_expText_upper]
  cases hsp : fl.signPlus <;> cases hal : fl.alternate <;>
    simp [Outcome.map, signPrefix, hsp, hal, txt_asciiUpper]
example : UI.fmtUpperExp {} 8 [0xb0, 0x04] = .ok (C12.str "1.2E3") ∧
    UI.fmtLowerExp {} 8 [0xb0, 0x04] = .ok (C12.str "1.2e3") := by decide

/-- `from_str_radix` is case-insensitive on EVERY input (well-formed or not, every radix):
    `from_str_radix(&s.to_ascii_uppercase(), r) == from_str_radix(s, r)`, and the same for
    `to_ascii_lowercase` (`BUint` and `BInt`; same value, same error kind, same panic) -/
theorem from_str_radix_case_insensitive (w n : Nat) (s : List Nat) (r : Nat) :
    (UI.fromStrRadix w n (s.map txt_asciiUpper) r = UI.fromStrRadix w n s r ∧
     UI.fromStrRadix w n (s.map txt_asciiLower) r = UI.fromStrRadix w n s r) ∧
    (II.fromStrRadix w n (s.map txt_asciiUpper) r = II.fromStrRadix w n s r ∧
     II.fromStrRadix w n (s.map txt_asciiLower) r = II.fromStrRadix w n s r) := by
  have key : ∀ g, txt_CaseMap g →
      UI.fromStrRadix w n (s.map g) r = UI.fromStrRadix w n s r ∧
      II.fromStrRadix w n (s.map g) r = II.fromStrRadix w n s r := by
    intro g hg
    have h43 : ((s.map g).head? == some 43) = (s.head? == some 43) := by
      cases s with
      | nil => rfl
      | cons b bs =>
        have := (hg b).2.1
        simp only [List.map_cons, List.head?_cons]
        by_cases hb : b = 43
        · subst hb; have h := this.mpr rfl; simp [h]
        · simp [hb, this]
    have h45 : ((s.map g).head? == some 45) = (s.head? == some 45) := by
      cases s with
      | nil => rfl
      | cons b bs =>
        have := (hg b).2.2
        simp only [List.map_cons, List.head?_cons]
        by_cases hb : b = 45
        · subst hb; have h := this.mpr rfl; simp [h]
        · simp [hb, this]
    have he : (s.map g).isEmpty = s.isEmpty := by cases s <;> rfl
    unfold UI.fromStrRadix II.fromStrRadix
    simp only [h43, h45, he, txt_fromBuf_map hg]
    trivial
  exact ⟨⟨(key _ txt_caseMap_upper).1, (key _ txt_caseMap_lower).1⟩,
    ⟨(key _ txt_caseMap_upper).2, (key _ txt_caseMap_lower).2⟩⟩
example : UI.fromStrRadix 8 2 (C12.str "+aBcD") 16 = .ok (.ok [0xcd, 0xab]) ∧
    UI.fromStrRadix 8 2 ((C12.str "+aBcD").map txt_asciiUpper) 16 = .ok (.ok [0xcd, 0xab]) ∧
    II.fromStrRadix 8 2 ((C12.str "-zZ").map txt_asciiLower) 36 = II.fromStrRadix 8 2 (C12.str "-zZ") 36 := by
  decide

/-- a non-negative `BInt` is formatted exactly like its bits as a `BUint`, under EVERY flag
    combination (`Display`, `Debug`, `LowerExp`, `UpperExp`; the radix forms agree for every value) -/
theorem i_fmt_nonneg_eq_unsigned (fl : Flags) {w n : Nat} {x : List Nat} (hw : 1 ≤ w) (hn : 1 ≤ n)
    (hx : WF w n x) (h : 0 ≤ S w x) :
    II.fmtDisplay fl w x = UI.fmtDisplay fl w (II.toBits x) ∧
    II.fmtDebug fl w x = UI.fmtDebug fl w (II.toBits x) ∧
    II.fmtLowerExp fl w x = UI.fmtLowerExp fl w (II.toBits x) ∧
    II.fmtUpperExp fl w x = UI.fmtUpperExp fl w (II.toBits x) := by
  have hneg := (isNegative_false_iff hw hn hx).mpr h
  have e : II.unsignedAbs w x = x := by unfold II.unsignedAbs; rw [hneg]; rfl
  have hd : II.fmtDisplay fl w x = UI.fmtDisplay fl w x := by
    unfold II.fmtDisplay UI.fmtDisplay
    rw [e, hneg, txt_map_map]
    exact txt_map_congr _ _ _ (fun s => by rw [padIntegral_default]; rfl)
  have he : ∀ ec, (UI.fmtExp ec {} w (II.unsignedAbs w x)).map (padIntegral fl (!isNegative w x) [])
      = UI.fmtExp ec fl w x := by
    intro ec
    unfold UI.fmtExp
    rw [e, hneg, txt_map_map]
    exact txt_map_congr _ _ _ (fun s => by rw [padIntegral_default]; rfl)
  exact ⟨hd, hd, he [101], he [69]⟩
example : 0 ≤ S 8 [0xb0, 0x04] ∧
    II.fmtLowerExp { signPlus := true, width := 8 } 8 [0xb0, 0x04] = .ok (C12.str "  +1.2e3") ∧
    UI.fmtLowerExp { signPlus := true, width := 8 } 8 [0xb0, 0x04] = .ok (C12.str "  +1.2e3") := by decide

/-- zero-padded decimal output parses back for every width:
    `format!("{:0N}", x).parse() == Ok(x)`, also `{:+0N}` (`BUint`) -/
theorem u_display_zero_pad_parse (fl : Flags) {w n : Nat} {x : List Nat} (hn : 1 ≤ n) (hw8 : 8 ≤ w)
    (hw4 : 4 ∣ w) (hx : WF w n x) (hz : fl.zeroPad = true) :
    (UI.fmtDisplay fl w x).bind (fun s => UI.fromStrRadix w n s 10) = .ok (.ok x) := by
  rw [C12.display_content fl hw8 hn hx, padIntegral_eq]
  have hsp : signPrefix fl true [] = if fl.signPlus then [43] else [] := by
    unfold signPrefix; cases fl.signPlus <;> cases fl.alternate <;> rfl
  show UI.fromStrRadix w n _ 10 = _
  dsimp only
  split
  · have := txt_u_parse_zeros_canon hn hw8 hw4 hx (r := 10) (by omega) (by omega) fl.signPlus 0
    simpa [natural, hsp, numeral] using this
  · rw [hsp, List.append_assoc]
    exact txt_u_parse_zeros_canon hn hw8 hw4 hx (by omega) (by omega) fl.signPlus _
example : UI.fmtDisplay { signPlus := true, zeroPad := true, width := 9 } 8 [0x39, 0x30]
      = .ok (C12.str "+00012345") ∧
    UI.fromStrRadix 8 2 (C12.str "+00012345") 10 = .ok (.ok [0x39, 0x30]) := by decide

/-- space-padded output does not parse back (`from_str_radix` does not trim) -/
theorem display_width_parse_counterexample :
    (UI.fmtDisplay { width := 4 } 8 [7]).bind (fun s => UI.fromStrRadix 8 1 s 10)
      = .ok (.err .invalidDigit) := by decide

end Text

section Bytes
set_option autoImplicit false
open Bnum.Endian Bnum.Spec.Endian

/-! ## F. BYTES laws: endianness / byte-array conversions (C15) versus bit operations
  (C06: swap_bytes, reverse_bits, not/and/or/xor), casts (C09) and radix-256 digits (C10/C11).

  Parameters as in C15: `bw = 2^sh` bytes per digit (digit width `w = 8*bw`), `n` digits.
  `to_*_bytes` return `Outcome (List Nat)`; laws about their results are stated with `Outcome.bind` /
  `Outcome.map` (or as equalities of `Outcome`s), so every law also says "no panic".

  Requested laws that ALREADY EXIST in Props/C15 (reused, not restated):
    from_X_bytes(to_X_bytes x) = x, to_X_bytes(from_X_bytes b) = b   C15.fromBytes_toBytes / toBytes_fromBytes
    to_be_bytes = reverse ∘ to_le_bytes                               C15.toBeBytes_spec (3rd component)
    swap_bytes involutive; from_be(to_be x) = x                       C15.swapBytes_involutive / fromBe_toBe
    to_be/to_le = (Endian) swap_bytes or identity per target          C15.toBe_eq / toLe_eq
    from_be_slice s = from_le_slice (reverse s), all slices           C15.u_/i_fromBeSlice_eq_fromLeSlice_reverse
  Technique: `UI.toLeBytes bw n x = .ok (bytesOf bw x)` (Lemmas/Endian), and `bytesOf bw x` is THE
  well-formed `u8`-digit integer of `n*bw` digits with the same pattern as `x` (`byt_eq_bytesOf`, by
  `U_injective`); every law is then an equality of `U`-values supplied by the C05/C06/C09/C10/C11/C15
  spec theorems.
-/

/-! ### F1. slices / byte arrays round trips -/

/-- `from_le_slice(&x.to_le_bytes()) == Some(x)` (`BUint`) -/
theorem u_fromLeSlice_toLeBytes {bw sh : Nat} (hbw : bw = 2 ^ sh) {n : Nat} {x : List Nat}
    (hx : WF (8 * bw) n x) : (UI.toLeBytes bw n x).bind (UI.fromLeSlice bw n) = .ok (some x) := by
  rw [UI.toLeBytes_eq hbw hx.1]; exact byt_fromLeSlice_bytesOf hbw hx
example : (UI.toLeBytes 2 2 [0x1234, 0xf678]).bind (UI.fromLeSlice 2 2) = .ok (some [0x1234, 0xf678]) := by
  decide

/-- `from_be_slice(&x.to_be_bytes()) == Some(x)` (`BUint`) -/
theorem u_fromBeSlice_toBeBytes {bw sh : Nat} (hbw : bw = 2 ^ sh) {n : Nat} {x : List Nat}
    (hx : WF (8 * bw) n x) : (UI.toBeBytes bw n x).bind (UI.fromBeSlice bw n) = .ok (some x) := by
  rw [UI.toBeBytes_eq hbw hx.1]
  show UI.fromBeSlice bw n (bytesOf bw x).reverse = _
  rw [UI.fromBeSlice_eq_fromLeSlice hbw, List.reverse_reverse]; exact byt_fromLeSlice_bytesOf hbw hx
example : (UI.toBeBytes 2 2 [0x1234, 0xf678]).bind (UI.fromBeSlice 2 2) = .ok (some [0x1234, 0xf678]) := by
  decide

/-- `from_le_slice(&x.to_le_bytes()) == Some(x)` (`BInt`, also for negative `x`) -/
theorem i_fromLeSlice_toLeBytes {bw sh : Nat} (hbw : bw = 2 ^ sh) {n : Nat} (hn : 1 ≤ n)
    {x : List Nat} (hx : WF (8 * bw) n x) :
    (II.toLeBytes bw n x).bind (II.fromLeSlice bw n) = .ok (some x) := by
  unfold II.toLeBytes
  rw [UI.toLeBytes_eq hbw hx.1]; exact byt_ifromLeSlice_bytesOf hbw hn hx
example : (II.toLeBytes 2 2 [0x1234, 0xf678]).bind (II.fromLeSlice 2 2) = .ok (some [0x1234, 0xf678]) := by
  decide

/-- `from_be_slice(&x.to_be_bytes()) == Some(x)` (`BInt`) -/
theorem i_fromBeSlice_toBeBytes {bw sh : Nat} (hbw : bw = 2 ^ sh) {n : Nat} (hn : 1 ≤ n)
    {x : List Nat} (hx : WF (8 * bw) n x) :
    (II.toBeBytes bw n x).bind (II.fromBeSlice bw n) = .ok (some x) := by
  unfold II.toBeBytes
  rw [UI.toBeBytes_eq hbw hx.1]
  show II.fromBeSlice bw n (bytesOf bw x).reverse = _
  rw [II.fromBeSlice_eq_fromLeSlice hbw hn, List.reverse_reverse]
  exact byt_ifromLeSlice_bytesOf hbw hn hx
example : (II.toBeBytes 2 2 [0x1234, 0xf678]).bind (II.fromBeSlice 2 2) = .ok (some [0x1234, 0xf678]) := by
  decide

/-- on a full-length byte array the (checked) slice constructors agree with the (total, nightly)
    array constructors: `from_le_slice(&b) == Some(from_le_bytes(b))`, same for `be`; `BUint` -/
theorem u_fromSlice_eq_fromBytes {bw sh : Nat} (hbw : bw = 2 ^ sh) {n : Nat} {b : List Nat}
    (hb : Bytes b) (hlen : b.length = n * bw) :
    UI.fromLeSlice bw n b = (UI.fromLeBytes bw n b).map some ∧
    UI.fromBeSlice bw n b = (UI.fromBeBytes bw n b).map some := by
  have key : ∀ {c : List Nat}, Bytes c → c.length = n * bw →
      UI.fromLeSlice bw n c = (UI.fromLeBytes bw n c).map some := by
    intro c hc hl
    obtain ⟨x, h1, h2, rfl⟩ := byt_fromLeBytes_bytesOf hbw hc hl
    rw [h1, byt_fromLeSlice_bytesOf hbw h2]; rfl
  refine ⟨key hb hlen, ?_⟩
  rw [UI.fromBeSlice_eq_fromLeSlice hbw, UI.fromBeBytes_eq_fromLeBytes_reverse hbw hlen]
  exact key hb.reverse (by simpa using hlen)
example : UI.fromLeSlice 2 2 [1, 2, 3, 0xf4] = (UI.fromLeBytes 2 2 [1, 2, 3, 0xf4]).map some ∧
    UI.fromBeSlice 2 2 [1, 2, 3, 0xf4] = (UI.fromBeBytes 2 2 [1, 2, 3, 0xf4]).map some := by decide

/-- … and for `BInt` (the sign test of the slice constructors always succeeds on a full array) -/
theorem i_fromSlice_eq_fromBytes {bw sh : Nat} (hbw : bw = 2 ^ sh) {n : Nat} (hn : 1 ≤ n)
    {b : List Nat} (hb : Bytes b) (hlen : b.length = n * bw) :
    II.fromLeSlice bw n b = (II.fromLeBytes bw n b).map some ∧
    II.fromBeSlice bw n b = (II.fromBeBytes bw n b).map some := by
  have key : ∀ {c : List Nat}, Bytes c → c.length = n * bw →
      II.fromLeSlice bw n c = (UI.fromLeBytes bw n c).map some := by
    intro c hc hl
    obtain ⟨x, h1, h2, rfl⟩ := byt_fromLeBytes_bytesOf hbw hc hl
    rw [h1, byt_ifromLeSlice_bytesOf hbw hn h2]; rfl
  refine ⟨key hb hlen, ?_⟩
  unfold II.fromBeBytes
  rw [II.fromBeSlice_eq_fromLeSlice hbw hn, UI.fromBeBytes_eq_fromLeBytes_reverse hbw hlen]
  exact key hb.reverse (by simpa using hlen)
example : II.fromLeSlice 2 2 [1, 2, 3, 0xf4] = (II.fromLeBytes 2 2 [1, 2, 3, 0xf4]).map some ∧
    II.fromBeSlice 2 2 [1, 2, 3, 0xf4] = (II.fromBeBytes 2 2 [1, 2, 3, 0xf4]).map some := by decide

/-! ### F2. `to_be_bytes` / `to_le_bytes` are mutual reverses
  (`to_be_bytes = reverse ∘ to_le_bytes` is `C15.toBeBytes_spec`; here the converse) -/

/-- `x.to_le_bytes() == reversed(x.to_be_bytes())` -/
theorem toLeBytes_eq_reverse_toBeBytes {bw sh : Nat} (hbw : bw = 2 ^ sh) {n : Nat} {x : List Nat}
    (hx : x.length = n) : UI.toLeBytes bw n x = (UI.toBeBytes bw n x).map List.reverse := by
  rw [UI.toBeBytes_eq hbw hx, UI.toLeBytes_eq hbw hx]
  show _ = Outcome.ok (bytesOf bw x).reverse.reverse
  rw [List.reverse_reverse]
example : UI.toLeBytes 2 2 [0x1234, 0xf678] = (UI.toBeBytes 2 2 [0x1234, 0xf678]).map List.reverse := by
  decide

/-! ### F3. `swap_bytes` (the C06 function of Model/BitOps) versus the byte conversions -/

/-- the `swap_bytes` of `src/buint/mod.rs` modelled in Model/BitOps (C06, shift loop per digit) and
    the one modelled in Model/Endian (C15, byte lists) are the same function, on ALL inputs -/
theorem swapBytes_models_agree (bw : Nat) (x : List Nat) :
    UI.swapBytes (8 * bw) x = Endian.swapBytes bw x ∧ II.swapBytes (8 * bw) x = Endian.swapBytes bw x := by
  have : UI.swapBytes (8 * bw) x = Endian.swapBytes bw x := by
    unfold UI.swapBytes Endian.swapBytes
    exact List.map_congr_left (fun d _ => byt_prim_swapBytes bw d)
  exact ⟨this, this⟩
example : UI.swapBytes (8 * 2) [0x1234, 0xf678] = Endian.swapBytes 2 [0x1234, 0xf678] := by decide

/-- `x.swap_bytes().to_le_bytes() == reversed(x.to_le_bytes())` and
    `x.to_be_bytes() == x.swap_bytes().to_le_bytes()` -/
theorem toLeBytes_swapBytes {bw sh : Nat} (hbw : bw = 2 ^ sh) {n : Nat} {x : List Nat}
    (hx : x.length = n) :
    UI.toLeBytes bw n (UI.swapBytes (8 * bw) x) = (UI.toLeBytes bw n x).map List.reverse ∧
    UI.toBeBytes bw n x = UI.toLeBytes bw n (UI.swapBytes (8 * bw) x) := by
  have hs : (Endian.swapBytes bw x).length = n := by simp [Endian.swapBytes, hx]
  rw [(swapBytes_models_agree bw x).1, UI.toLeBytes_eq hbw hs, UI.toLeBytes_eq hbw hx,
    UI.toBeBytes_eq hbw hx, bytesOf_swapBytes]
  exact ⟨rfl, rfl⟩
example : UI.toLeBytes 2 2 (UI.swapBytes 16 [0x1234, 0xf678]) = .ok [0xf6, 0x78, 0x12, 0x34] ∧
    UI.toBeBytes 2 2 [0x1234, 0xf678] = .ok [0xf6, 0x78, 0x12, 0x34] := by decide

/-- `x.swap_bytes().to_be_bytes() == x.to_le_bytes()` -/
theorem toBeBytes_swapBytes {bw sh : Nat} (hbw : bw = 2 ^ sh) {n : Nat} {x : List Nat}
    (hx : x.length = n) :
    UI.toBeBytes bw n (UI.swapBytes (8 * bw) x) = UI.toLeBytes bw n x := by
  have hs : (Endian.swapBytes bw x).length = n := by simp [Endian.swapBytes, hx]
  rw [(swapBytes_models_agree bw x).1, UI.toBeBytes_eq hbw hs, UI.toLeBytes_eq hbw hx,
    bytesOf_swapBytes, List.reverse_reverse]
example : UI.toBeBytes 2 2 (UI.swapBytes 16 [0x1234, 0xf678]) = UI.toLeBytes 2 2 [0x1234, 0xf678] := by
  decide

/-- `from_be_bytes(b) == from_le_bytes(b).swap_bytes()` and
    `from_le_bytes(b) == from_be_bytes(b).swap_bytes()` -/
theorem fromBeBytes_eq_swapBytes_fromLeBytes {bw sh : Nat} (hbw : bw = 2 ^ sh) {n : Nat}
    {b : List Nat} (hb : Bytes b) (hlen : b.length = n * bw) :
    UI.fromBeBytes bw n b = (UI.fromLeBytes bw n b).map (UI.swapBytes (8 * bw)) ∧
    UI.fromLeBytes bw n b = (UI.fromBeBytes bw n b).map (UI.swapBytes (8 * bw)) := by
  obtain ⟨y, h1, h2, rfl⟩ := byt_fromLeBytes_bytesOf hbw hb hlen
  obtain ⟨z, g1, g2, g3⟩ := byt_fromLeBytes_bytesOf hbw hb.reverse (by simpa using hlen)
  have hz : z = Endian.swapBytes bw y :=
    byt_bytesOf_injective g2 (swapBytes_WF h2.1) (by rw [← g3, bytesOf_swapBytes])
  rw [UI.fromBeBytes_eq_fromLeBytes_reverse hbw hlen, g1, h1, hz]
  refine ⟨?_, ?_⟩
  · show Outcome.ok _ = Outcome.ok _; rw [(swapBytes_models_agree bw _).1]
  · show Outcome.ok _ = Outcome.ok _; rw [(swapBytes_models_agree bw _).1, swapBytes_swapBytes h2]
example : UI.fromBeBytes 2 2 [1, 2, 3, 0xf4] = (UI.fromLeBytes 2 2 [1, 2, 3, 0xf4]).map (UI.swapBytes 16) := by
  decide

/-- `to_be` / `to_le` / `from_be` / `from_le` in terms of the C06 `swap_bytes`:
    on a little-endian target (`e = true`) `x.to_be() == x.swap_bytes()` and `x.to_le() == x`,
    on a big-endian target the other way round -/
theorem toBe_eq_swap_bytes (bw : Nat) (x : List Nat) :
    UI.toBe true bw x = UI.swapBytes (8 * bw) x ∧ UI.toLe true bw x = x ∧
    UI.toBe false bw x = x ∧ UI.toLe false bw x = UI.swapBytes (8 * bw) x ∧
    UI.fromBe true bw x = UI.swapBytes (8 * bw) x ∧ UI.fromLe true bw x = x ∧
    II.toBe true bw x = II.swapBytes (8 * bw) x ∧ II.toLe true bw x = x := by
  have h := (swapBytes_models_agree bw x).1
  exact ⟨h.symm, rfl, rfl, h.symm, h.symm, rfl, h.symm, rfl⟩
example : UI.toBe true 2 [0x1234, 0xf678] = [0x78f6, 0x3412] := by decide

/-- target-independent: `x.to_be_bytes() == x.to_be().to_ne_bytes()` and
    `x.to_le_bytes() == x.to_le().to_ne_bytes()` on either endianness -/
theorem toBytes_eq_toNeBytes {bw sh : Nat} (hbw : bw = 2 ^ sh) {n : Nat} (e : Bool) {x : List Nat}
    (hx : WF (8 * bw) n x) :
    UI.toBeBytes bw n x = UI.toNeBytes e bw n (UI.toBe e bw x) ∧
    UI.toLeBytes bw n x = UI.toNeBytes e bw n (UI.toLe e bw x) := by
  have h1 := toLeBytes_swapBytes hbw hx.1
  have h2 := toBeBytes_swapBytes hbw hx.1
  rw [(swapBytes_models_agree bw x).1] at h1 h2
  cases e
  · exact ⟨rfl, h2.symm⟩
  · exact ⟨h1.2, rfl⟩
example : UI.toBeBytes 2 2 [0x1234, 0xf678] = UI.toNeBytes false 2 2 (UI.toBe false 2 [0x1234, 0xf678]) ∧
    UI.toBeBytes 2 2 [0x1234, 0xf678] = UI.toNeBytes true 2 2 (UI.toBe true 2 [0x1234, 0xf678]) := by
  decide

/-- `from_be_bytes(b) == from_be(from_ne_bytes(b))`, `from_le_bytes(b) == from_le(from_ne_bytes(b))`
    on either endianness -/
theorem fromBytes_eq_fromNeBytes {bw sh : Nat} (hbw : bw = 2 ^ sh) {n : Nat} (e : Bool)
    {b : List Nat} (hb : Bytes b) (hlen : b.length = n * bw) :
    UI.fromBeBytes bw n b = (UI.fromNeBytes e bw n b).map (UI.fromBe e bw) ∧
    UI.fromLeBytes bw n b = (UI.fromNeBytes e bw n b).map (UI.fromLe e bw) := by
  obtain ⟨h1, h2⟩ := fromBeBytes_eq_swapBytes_fromLeBytes hbw hb hlen
  have hs : UI.swapBytes (8 * bw) = Endian.swapBytes bw :=
    funext fun y => (swapBytes_models_agree bw y).1
  rw [hs] at h1 h2
  have hid : ∀ o : Outcome (List Nat), o = o.map (fun y => y) := by intro o; cases o <;> rfl
  cases e
  · exact ⟨hid _, h2⟩
  · exact ⟨h1, hid _⟩
example : UI.fromLeBytes 2 2 [1, 2, 3, 0xf4] = (UI.fromNeBytes false 2 2 [1, 2, 3, 0xf4]).map (UI.fromLe false 2) := by
  decide

/-! ### F4. `from_be_slice s = from_le_slice (reversed s)` for ALL slices is
  `C15.u_fromBeSlice_eq_fromLeSlice_reverse` / `C15.i_fromBeSlice_eq_fromLeSlice_reverse`; the converse: -/

/-- `from_le_slice(s) == from_be_slice(reversed(s))`, every slice of every length (no hypothesis on the
    bytes), both signednesses -/
theorem fromLeSlice_eq_fromBeSlice_reverse {bw sh : Nat} (hbw : bw = 2 ^ sh) {n : Nat} (s : List Nat) :
    UI.fromLeSlice bw n s = UI.fromBeSlice bw n s.reverse ∧
    (1 ≤ n → II.fromLeSlice bw n s = II.fromBeSlice bw n s.reverse) := by
  refine ⟨?_, fun hn => ?_⟩
  · rw [UI.fromBeSlice_eq_fromLeSlice hbw, List.reverse_reverse]
  · rw [II.fromBeSlice_eq_fromLeSlice hbw hn, List.reverse_reverse]
example : UI.fromLeSlice 2 1 [0x34, 0x12, 0] = UI.fromBeSlice 2 1 [0, 0x12, 0x34] ∧
    II.fromLeSlice 2 1 [0x34, 0xff, 0xff] = II.fromBeSlice 2 1 [0xff, 0xff, 0x34] := by decide

/-! ### F5. padded / truncated slices -/

/-- zero bytes on the most significant side are ignored (`BUint`): appended for `from_le_slice`,
    prepended for `from_be_slice`; any slice, any amount of padding -/
theorem u_fromSlice_zero_padding {bw sh : Nat} (hbw : bw = 2 ^ sh) (n : Nat) {bs : List Nat}
    (hb : Bytes bs) (k : Nat) :
    UI.fromLeSlice bw n (bs ++ List.replicate k 0) = UI.fromLeSlice bw n bs ∧
    UI.fromBeSlice bw n (List.replicate k 0 ++ bs) = UI.fromBeSlice bw n bs := by
  have key : ∀ {c : List Nat}, Bytes c →
      UI.fromLeSlice bw n (c ++ List.replicate k 0) = UI.fromLeSlice bw n c := by
    intro c hc
    rw [UI.fromLeSlice_closed hbw n (byt_bytes_append hc (byt_bytes_replicate (by decide))),
      UI.fromLeSlice_closed hbw n hc, leValue_eq, leValue_eq, U_append, U_replicate_zero,
      Nat.mul_zero, Nat.add_zero]
  refine ⟨key hb, ?_⟩
  rw [UI.fromBeSlice_eq_fromLeSlice hbw, UI.fromBeSlice_eq_fromLeSlice hbw, List.reverse_append,
    List.reverse_replicate]
  exact key hb.reverse
example : UI.fromLeSlice 2 1 ([0x34, 0x12] ++ List.replicate 3 0) = UI.fromLeSlice 2 1 [0x34, 0x12] := by
  decide

/-- sign bytes (`0xFF` for a negative, `0x00` for a non-negative reading) on the most significant side
    are ignored (`BInt`); any slice (also the empty one), any amount of padding -/
theorem i_fromSlice_sign_padding {bw sh : Nat} (hbw : bw = 2 ^ sh) {n : Nat} (hn : 1 ≤ n)
    {bs : List Nat} (hb : Bytes bs) (k : Nat) :
    II.fromLeSlice bw n (bs ++ List.replicate k (if twosLE bs < 0 then 255 else 0))
      = II.fromLeSlice bw n bs ∧
    II.fromBeSlice bw n (List.replicate k (if twosBE bs < 0 then 255 else 0) ++ bs)
      = II.fromBeSlice bw n bs := by
  have key : ∀ {c : List Nat}, Bytes c →
      II.fromLeSlice bw n (c ++ List.replicate k (if twosLE c < 0 then 255 else 0))
        = II.fromLeSlice bw n c := by
    intro c hc
    have hpad : Bytes (List.replicate k (if twosLE c < 0 then 255 else 0)) :=
      byt_bytes_replicate (by split <;> decide)
    rw [II.fromLeSlice_closed hbw hn (byt_bytes_append hc hpad), II.fromLeSlice_closed hbw hn hc,
      byt_twosLE_append_pad hc]
  refine ⟨key hb, ?_⟩
  rw [II.fromBeSlice_eq_fromLeSlice hbw hn, II.fromBeSlice_eq_fromLeSlice hbw hn, List.reverse_append,
    List.reverse_replicate, twosBE_eq_twosLE_reverse]
  exact key hb.reverse
example : II.fromLeSlice 2 1 ([0x34, 0x92] ++ List.replicate 3 255) = II.fromLeSlice 2 1 [0x34, 0x92] ∧
    twosLE [0x34, 0x92] < 0 := by decide

/-- `from_le_slice` of `x.to_le_bytes()` followed by any number of zero bytes is `Some(x)` (`BUint`);
    followed by any number of sign bytes of `x` (`BInt`) -/
theorem fromLeSlice_toLeBytes_padded {bw sh : Nat} (hbw : bw = 2 ^ sh) {n : Nat} {x : List Nat}
    (hx : WF (8 * bw) n x) (k : Nat) :
    (UI.toLeBytes bw n x).bind (fun b => UI.fromLeSlice bw n (b ++ List.replicate k 0))
      = .ok (some x) ∧
    (1 ≤ n → (II.toLeBytes bw n x).bind (fun b => II.fromLeSlice bw n
        (b ++ List.replicate k (if S (8 * bw) x < 0 then 255 else 0))) = .ok (some x)) := by
  unfold II.toLeBytes
  rw [UI.toLeBytes_eq hbw hx.1]
  refine ⟨?_, fun hn => ?_⟩
  · show UI.fromLeSlice bw n (bytesOf bw x ++ List.replicate k 0) = _
    rw [(u_fromSlice_zero_padding hbw n (Bytes_bytesOf bw x) k).1]
    exact byt_fromLeSlice_bytesOf hbw hx
  · show II.fromLeSlice bw n (bytesOf bw x ++ List.replicate k _) = _
    have := (i_fromSlice_sign_padding hbw hn (Bytes_bytesOf bw x) k).1
    rw [twosLE_eq (Bytes_bytesOf bw x), byt_S_bytesOf hx] at this
    rw [this]; exact byt_ifromLeSlice_bytesOf hbw hn hx
example : (UI.toLeBytes 2 1 [0x9234]).bind (fun b => UI.fromLeSlice 2 1 (b ++ List.replicate 3 0))
      = .ok (some [0x9234]) ∧
    (II.toLeBytes 2 1 [0x9234]).bind (fun b => II.fromLeSlice 2 1
        (b ++ List.replicate 3 (if S (8 * 2) [0x9234] < 0 then 255 else 0))) = .ok (some [0x9234]) := by
  decide

/-- dropping most significant bytes that are all zero does not change `from_le_slice` (`BUint`) -/
theorem u_fromLeSlice_take {bw sh : Nat} (hbw : bw = 2 ^ sh) (n : Nat) {bs : List Nat} (hb : Bytes bs)
    (k : Nat) (hz : ∀ b ∈ bs.drop k, b = 0) :
    UI.fromLeSlice bw n (bs.take k) = UI.fromLeSlice bw n bs := by
  have hbt : Bytes (bs.take k) := fun b h => hb b (List.mem_of_mem_take h)
  conv_rhs => rw [← List.take_append_drop k bs, byt_eq_replicate_zero hz]
  exact ((u_fromSlice_zero_padding hbw n hbt _).1).symm
example : UI.fromLeSlice 2 2 ([0x34, 0x12, 0x56, 0, 0, 0].take 3) = UI.fromLeSlice 2 2 [0x34, 0x12, 0x56, 0, 0, 0] := by
  decide

/-- dropping most significant bytes that are all sign bytes of the rest does not change
    `from_le_slice` (`BInt`) -/
theorem i_fromLeSlice_take {bw sh : Nat} (hbw : bw = 2 ^ sh) {n : Nat} (hn : 1 ≤ n) {bs : List Nat}
    (hb : Bytes bs) (k : Nat)
    (hz : bs.drop k = List.replicate (bs.length - k) (if twosLE (bs.take k) < 0 then 255 else 0)) :
    II.fromLeSlice bw n (bs.take k) = II.fromLeSlice bw n bs := by
  have hbt : Bytes (bs.take k) := fun b h => hb b (List.mem_of_mem_take h)
  conv_rhs => rw [← List.take_append_drop k bs, hz]
  exact ((i_fromSlice_sign_padding hbw hn hbt _).1).symm
example : II.fromLeSlice 2 2 ([0x34, 0x12, 0x96, 0xff, 0xff].take 3) = II.fromLeSlice 2 2 [0x34, 0x12, 0x96, 0xff, 0xff] := by
  decide

/-- if `x < 256^k` then the first `k` bytes of `x.to_le_bytes()` suffice: `from_le_slice` zero-extends
    (`BUint`) -/
theorem u_fromLeSlice_toLeBytes_take {bw sh : Nat} (hbw : bw = 2 ^ sh) {n : Nat} {x : List Nat}
    (hx : WF (8 * bw) n x) {k : Nat} (hk : U (8 * bw) x < 256 ^ k) :
    (UI.toLeBytes bw n x).bind (fun b => UI.fromLeSlice bw n (b.take k)) = .ok (some x) := by
  rw [UI.toLeBytes_eq hbw hx.1]
  show UI.fromLeSlice bw n ((bytesOf bw x).take k) = _
  have hb := Bytes_bytesOf bw x
  rw [← byt_fromLeSlice_bytesOf hbw hx]
  by_cases hl : k ≤ (bytesOf bw x).length
  · apply u_fromLeSlice_take hbw n hb
    apply (le_fits_iff hb hl).mp
    rw [U_bytesOf hx]; unfold M; rw [Nat.pow_mul]; exact hk
  · rw [List.take_of_length_le (by omega)]
example : U (8 * 2) [0x1234, 0x0056] < 256 ^ 3 ∧
    (UI.toLeBytes 2 2 [0x1234, 0x0056]).bind (fun b => UI.fromLeSlice 2 2 (b.take 3))
      = .ok (some [0x1234, 0x0056]) := by decide

/-- if `-256^k/2 ≤ x < 256^k/2` (`1 ≤ k`) then the first `k` bytes of `x.to_le_bytes()` suffice:
    `from_le_slice` sign-extends (`BInt`) -/
theorem i_fromLeSlice_toLeBytes_take {bw sh : Nat} (hbw : bw = 2 ^ sh) {n : Nat} (hn : 1 ≤ n)
    {x : List Nat} (hx : WF (8 * bw) n x) {k : Nat} (hk1 : 1 ≤ k)
    (hk : repS (256 ^ k) (S (8 * bw) x)) :
    (II.toLeBytes bw n x).bind (fun b => II.fromLeSlice bw n (b.take k)) = .ok (some x) := by
  unfold II.toLeBytes
  rw [UI.toLeBytes_eq hbw hx.1]
  show II.fromLeSlice bw n ((bytesOf bw x).take k) = _
  have hb := Bytes_bytesOf bw x
  rw [← byt_ifromLeSlice_bytesOf hbw hn hx]
  by_cases hl : k ≤ (bytesOf bw x).length
  · apply i_fromLeSlice_take hbw hn hb
    have hbt : Bytes ((bytesOf bw x).take k) := fun b h => hb b (List.mem_of_mem_take h)
    rw [twosLE_eq hbt]
    apply (twos_fits_iff hk1 hb hl).mp
    rw [byt_S_bytesOf hx]; unfold M; rw [Nat.pow_mul]; exact hk
  · rw [List.take_of_length_le (by omega)]
example : repS (256 ^ 3) (S (8 * 2) [0x1234, 0xff96]) ∧
    (II.toLeBytes 2 2 [0x1234, 0xff96]).bind (fun b => II.fromLeSlice 2 2 (b.take 3))
      = .ok (some [0x1234, 0xff96]) := by decide

/-- `from_le_slice` is `None` exactly when some byte beyond the first `N*BYTES` is non-zero (`BUint`;
    no hypothesis on the length) -/
theorem u_fromLeSlice_none_iff {bw sh : Nat} (hbw : bw = 2 ^ sh) (n : Nat) {bs : List Nat}
    (hb : Bytes bs) : UI.fromLeSlice bw n bs = .ok none ↔ ∃ b ∈ bs.drop (n * bw), b ≠ 0 := by
  rw [UI.fromLeSlice_closed hbw n hb, leValue_eq, M_bytes, Nat.mul_comm bw n]
  by_cases hl : n * bw ≤ bs.length
  · have hf := le_fits_iff hb hl
    by_cases h : U 8 bs < M 8 (n * bw)
    · rw [if_pos h]
      constructor
      · intro h'; cases h'
      · rintro ⟨b, h1, h2⟩; exact absurd (hf.mp h b h1) h2
    · rw [if_neg h]
      refine ⟨fun _ => ?_, fun _ => rfl⟩
      by_contra hc; apply h; apply hf.mpr
      intro b hb'; by_contra hne; exact hc ⟨b, hb', hne⟩
  · have : U 8 bs < M 8 (n * bw) := Nat.lt_of_lt_of_le (U_lt hb.wf) (M_le (by omega))
    rw [if_pos this, List.drop_of_length_le (by omega)]
    simp
example : UI.fromLeSlice 2 1 [0x34, 0x12, 0, 7] = .ok none := by decide

/-- a non-zero byte after `x.to_le_bytes()` makes `from_le_slice` fail (`BUint`) -/
theorem u_fromLeSlice_toLeBytes_extra {bw sh : Nat} (hbw : bw = 2 ^ sh) {n : Nat} {x : List Nat}
    (hx : WF (8 * bw) n x) {c : Nat} (hc0 : c ≠ 0) (hc : c < 256) {rest : List Nat} (hr : Bytes rest) :
    (UI.toLeBytes bw n x).bind (fun b => UI.fromLeSlice bw n (b ++ c :: rest)) = .ok none := by
  rw [UI.toLeBytes_eq hbw hx.1]
  show UI.fromLeSlice bw n (bytesOf bw x ++ c :: rest) = _
  have hcr : Bytes (c :: rest) := by
    intro b hb; rcases List.mem_cons.mp hb with h | h
    · omega
    · exact hr b h
  rw [u_fromLeSlice_none_iff hbw n (byt_bytes_append (Bytes_bytesOf bw x) hcr)]
  refine ⟨c, ?_, hc0⟩
  rw [List.drop_append_of_le_length (by rw [bytesOf_length, hx.1]),
    List.drop_of_length_le (by rw [bytesOf_length, hx.1])]
  simp
example : (UI.toLeBytes 2 1 [0x1234]).bind (fun b => UI.fromLeSlice 2 1 (b ++ 1 :: [0])) = .ok none := by
  decide

/-! ### F6. injectivity, length -/

/-- `to_le_bytes` / `to_be_bytes` are injective -/
theorem toBytes_injective {bw sh : Nat} (hbw : bw = 2 ^ sh) {n : Nat} {x y : List Nat}
    (hx : WF (8 * bw) n x) (hy : WF (8 * bw) n y) :
    (UI.toLeBytes bw n x = UI.toLeBytes bw n y → x = y) ∧
    (UI.toBeBytes bw n x = UI.toBeBytes bw n y → x = y) := by
  rw [UI.toLeBytes_eq hbw hx.1, UI.toLeBytes_eq hbw hy.1, UI.toBeBytes_eq hbw hx.1,
    UI.toBeBytes_eq hbw hy.1]
  refine ⟨fun h => ?_, fun h => ?_⟩
  · exact byt_bytesOf_injective hx hy (by injection h)
  · have : (bytesOf bw x).reverse = (bytesOf bw y).reverse := by injection h
    exact byt_bytesOf_injective hx hy (List.reverse_injective this)
example : UI.toLeBytes 2 2 [0x1234, 0xf678] ≠ UI.toLeBytes 2 2 [0x1234, 0xf679] := by decide

/-- `to_le_bytes` returns exactly `BYTES = N * digit::BYTES` bytes (each `< 256`), never panics, and
    `to_be_bytes` / `to_ne_bytes` likewise -/
theorem toBytes_length {bw sh : Nat} (hbw : bw = 2 ^ sh) {n : Nat} (e : Bool) {x : List Nat}
    (hx : x.length = n) :
    (∃ b, UI.toLeBytes bw n x = .ok b ∧ b.length = n * bw ∧ Bytes b) ∧
    (∃ b, UI.toBeBytes bw n x = .ok b ∧ b.length = n * bw ∧ Bytes b) ∧
    (∃ b, UI.toNeBytes e bw n x = .ok b ∧ b.length = n * bw ∧ Bytes b) := by
  have h1 : ∃ b, UI.toLeBytes bw n x = .ok b ∧ b.length = n * bw ∧ Bytes b :=
    ⟨_, UI.toLeBytes_eq hbw hx, by rw [bytesOf_length, hx], Bytes_bytesOf bw x⟩
  have h2 : ∃ b, UI.toBeBytes bw n x = .ok b ∧ b.length = n * bw ∧ Bytes b :=
    ⟨_, UI.toBeBytes_eq hbw hx, by rw [List.length_reverse, bytesOf_length, hx],
      (Bytes_bytesOf bw x).reverse⟩
  refine ⟨h1, h2, ?_⟩
  cases e
  · exact h2
  · exact h1
example : (UI.toLeBytes 4 3 [1, 2, 3]).map List.length = .ok (3 * 4) := by decide

/-! ### F7. bytes versus casts (C09) -/

/-- `x.to_le_bytes()` is the digit array of `x as BUintD8<BYTES>` (the C09 cast to the `u8`-digit type
    of the same bit width; the split loop of `buint_as_different_digit_bigint!` for `bw ≥ 2`, the
    same-digit `cast_down` for `bw = 1`) — from and to either signedness -/
theorem cast_to_u8_digits_eq_toLeBytes {bw sh : Nat} (hbw : bw = 2 ^ sh) {n : Nat} (hn : 1 ≤ n)
    (s₁ s₂ : Bool) {x : List Nat} (hx : WF (8 * bw) n x) :
    castBnum (8 * bw) s₁ x 8 (n * bw) s₂ = UI.toLeBytes bw n x := by
  have hpos := pow_pos_bw hbw
  obtain ⟨r, hr, hwf, hu⟩ := C09.cast_bnum s₁ s₂ (show 1 ≤ 8 * bw by omega) (by decide) hn
    (show 1 ≤ n * bw from Nat.mul_le_mul hn hpos) (Or.inr ⟨bw, rfl⟩) hx
  rw [← byt_M_bytes, byt_wrapU_valOf hx] at hu
  rw [hr, UI.toLeBytes_eq hbw hx.1, byt_eq_bytesOf hx hwf hu]
example : castBnum 16 false [0x1234, 0xf678] 8 4 false = UI.toLeBytes 2 2 [0x1234, 0xf678] ∧
    castBnum 16 true [0x1234, 0xf678] 8 4 true = UI.toLeBytes 2 2 [0x1234, 0xf678] := by decide

/-- `from_le_bytes(b)` is the cast of the `u8`-digit integer with digit array `b` to the wide-digit
    type of the same bit width (pack loop of `buint_as_different_digit_bigint!`) -/
theorem cast_from_u8_digits_eq_fromLeBytes {bw sh : Nat} (hbw : bw = 2 ^ sh) {n : Nat} (hn : 1 ≤ n)
    (s₁ s₂ : Bool) {b : List Nat} (hb : Bytes b) (hlen : b.length = n * bw) :
    castBnum 8 s₁ b (8 * bw) n s₂ = UI.fromLeBytes bw n b := by
  have hpos := pow_pos_bw hbw
  have hbwf : WF 8 (n * bw) b := ⟨hlen, by rw [B8]; exact hb⟩
  obtain ⟨r, hr, hwf, hu⟩ := C09.cast_bnum s₁ s₂ (by decide) (show 1 ≤ 8 * bw by omega)
    (show 1 ≤ n * bw from Nat.mul_le_mul hn hpos) hn (Or.inl ⟨bw, rfl⟩) hbwf
  rw [byt_M_bytes, byt_wrapU_valOf hbwf] at hu
  obtain ⟨x, h1, h2, h3⟩ := UI.fromLeBytes_value hbw hb hlen
  rw [hr, h1, U_injective hwf h2 (by rw [hu, h3])]
example : castBnum 8 false [1, 2, 3, 0xf4] 16 2 false = UI.fromLeBytes 2 2 [1, 2, 3, 0xf4] ∧
    castBnum 8 true [1, 2, 3, 0xf4] 16 2 true = UI.fromLeBytes 2 2 [1, 2, 3, 0xf4] := by decide

/-- for `u8` digits (`BUintD8<N>`) the byte array IS the digit array:
    `to_le_bytes(x) = x.digits`, `to_be_bytes(x) = reversed digits`, `from_le_bytes(d).digits = d` -/
theorem toLeBytes_u8 {n : Nat} {x : List Nat} (hx : WF 8 n x) :
    UI.toLeBytes 1 n x = .ok x ∧ UI.toBeBytes 1 n x = .ok x.reverse ∧ UI.fromLeBytes 1 n x = .ok x := by
  have hbw : (1 : Nat) = 2 ^ 0 := rfl
  have hx' : WF (8 * 1) n x := hx
  have hc : WF 8 (n * 1) x := by rw [Nat.mul_one]; exact hx
  have e : x = bytesOf 1 x := byt_eq_bytesOf hx' hc rfl
  refine ⟨?_, ?_, ?_⟩
  · rw [UI.toLeBytes_eq hbw hx.1, ← e]
  · rw [UI.toBeBytes_eq hbw hx.1, ← e]
  · obtain ⟨y, h1, h2, h3⟩ := byt_fromLeBytes_bytesOf hbw (byt_bytes_of_wf hx)
      (show x.length = n * 1 by rw [Nat.mul_one]; exact hx.1)
    have hy : y = bytesOf 1 y := byt_eq_bytesOf h2 (by rw [Nat.mul_one]; exact h2) rfl
    rw [h1, hy, ← h3]
example : UI.toLeBytes 1 3 [1, 2, 0xf3] = .ok [1, 2, 0xf3] ∧ UI.toBeBytes 1 3 [1, 2, 0xf3] = .ok [0xf3, 2, 1] := by
  decide

/-! ### F8. bytes versus radix-256 digits (C10 / C11) -/

/-- `from_radix_le(b, 256) == from_le_slice(b)` and `from_radix_be(b, 256) == from_be_slice(b)`,
    every slice of every length -/
theorem fromRadix_256_eq_fromSlice {bw sh : Nat} (hbw : bw = 2 ^ sh) {n : Nat} (hn : 1 ≤ n)
    {b : List Nat} (hb : Bytes b) :
    UI.fromRadixLe (8 * bw) n b 256 = UI.fromLeSlice bw n b ∧
    UI.fromRadixBe (8 * bw) n b 256 = UI.fromBeSlice bw n b := by
  have hwb : 8 * bw = 8 * 2 ^ sh := by rw [hbw]
  have hall : b.all (· < 256) = true := by unfold Bytes at hb; simpa using hb
  have hallr : b.reverse.all (· < 256) = true := by unfold Bytes at hb; simpa using hb
  rw [C10.from_radix_le_spec hn hwb (by decide) (by decide) b hb,
    C10.from_radix_be_spec hn hwb (by decide) (by decide) b hb,
    UI.fromLeSlice_closed hbw n hb, UI.fromBeSlice_closed hbw n hb, Radix.leValue_eq_valueOfLE,
    Radix.beValue_eq_valueOf]
  unfold Spec.Radix.expectDigits
  rw [Radix.valueOf_reverse]
  constructor
  · by_cases h : Spec.Radix.valueOfLE 256 b < M (8 * bw) n <;> simp [h, hallr]
  · by_cases h : Spec.Radix.valueOf 256 b < M (8 * bw) n <;> simp [h, hall]
example : UI.fromRadixLe 16 2 [1, 2, 0xf3] 256 = UI.fromLeSlice 2 2 [1, 2, 0xf3] := by decide

/-- `from_le_slice(&x.to_radix_le(256)) == Some(x)`: the radix-256 digits are a (minimal) little-endian
    byte string of `x` -/
theorem fromLeSlice_toRadixLe_256 {bw sh : Nat} (hbw : bw = 2 ^ sh) {n : Nat} (hn : 1 ≤ n)
    {x : List Nat} (hx : WF (8 * bw) n x) :
    (UI.toRadixLe (8 * bw) x 256).bind (UI.fromLeSlice bw n) = .ok (some x) := by
  have hpos := pow_pos_bw hbw
  rw [C11.toRadixLe_spec hn (show 8 ≤ 8 * bw by omega) hx (by decide) (by decide)]
  show UI.fromLeSlice bw n (Spec.Radix.canonLE 256 (U (8 * bw) x)) = _
  have hb : Bytes (Spec.Radix.canonLE 256 (U (8 * bw) x)) := Radix.canonLE_lt (by decide)
  rw [UI.fromLeSlice_closed hbw n hb, Radix.leValue_eq_valueOfLE,
    Radix.valueOfLE_canonLE (by decide), if_pos (U_lt hx), ← eq_ofNat hx]
example : (UI.toRadixLe 16 [0x1234, 0x0056] 256).bind (UI.fromLeSlice 2 2) = .ok (some [0x1234, 0x0056]) ∧
    UI.toRadixLe 16 [0x1234, 0x0056] 256 = .ok [0x34, 0x12, 0x56] := by decide

/-- `x.to_le_bytes()` is `x.to_radix_le(256)` padded with zero bytes to `BYTES` bytes -/
theorem toLeBytes_eq_toRadixLe_256_padded {bw sh : Nat} (hbw : bw = 2 ^ sh) {n : Nat} (hn : 1 ≤ n)
    {x : List Nat} (hx : WF (8 * bw) n x) :
    ∃ c, UI.toRadixLe (8 * bw) x 256 = .ok c ∧ c.length ≤ n * bw ∧
      UI.toLeBytes bw n x = .ok (c ++ List.replicate (n * bw - c.length) 0) := by
  have hpos := pow_pos_bw hbw
  have hK : 1 ≤ n * bw := Nat.mul_le_mul hn hpos
  refine ⟨_, C11.toRadixLe_spec hn (show 8 ≤ 8 * bw by omega) hx (by decide) (by decide), ?_⟩
  generalize hc : Spec.Radix.canonLE 256 (U (8 * bw) x) = c
  have hb : Bytes c := by rw [← hc]; exact Radix.canonLE_lt (by decide)
  have hv : U 8 c = U (8 * bw) x := by
    rw [← leValue_eq, Radix.leValue_eq_valueOfLE, ← hc, Radix.valueOfLE_canonLE (by decide)]
  have hlen : c.length ≤ n * bw := by
    by_cases h0 : U (8 * bw) x = 0
    · rw [← hc, h0]; exact hK
    · by_contra hgt
      have hlt : U 8 c < M 8 (n * bw) := by rw [hv, ← byt_M_bytes]; exact U_lt hx
      have hz := (le_fits_iff hb (by omega)).mp hlt
      have hne : c ≠ [] := by intro h; rw [h] at hgt; simp at hgt
      have hlast := Radix.canonLE_getLast (r := 256) (by decide) h0
      rw [hc, List.getLast?_eq_some_getLast hne] at hlast
      apply hlast; congr 1
      apply hz
      rw [← List.getLast_drop (l := c) (i := n * bw) (by simp; omega)]
      exact List.getLast_mem _
  refine ⟨hlen, ?_⟩
  rw [UI.toLeBytes_eq hbw hx.1]; congr 1; symm
  apply byt_eq_bytesOf hx
  · have := WF_append hb.wf (Endian.WF_replicate (w := 8) (k := n * bw - c.length) (d := 0) (B_pos 8))
    rwa [show c.length + (n * bw - c.length) = n * bw by omega] at this
  · rw [U_append, U_replicate_zero, Nat.mul_zero, Nat.add_zero, hv]
example : UI.toLeBytes 2 2 [0x1234, 0x0056] = .ok ([0x34, 0x12, 0x56] ++ List.replicate (2 * 2 - 3) 0) := by
  decide

/-- `x.to_be_bytes()` is `x.to_radix_be(256)` with leading zero bytes up to `BYTES` bytes -/
theorem toBeBytes_eq_toRadixBe_256_padded {bw sh : Nat} (hbw : bw = 2 ^ sh) {n : Nat} (hn : 1 ≤ n)
    {x : List Nat} (hx : WF (8 * bw) n x) :
    ∃ c, UI.toRadixBe (8 * bw) x 256 = .ok c ∧ c.length ≤ n * bw ∧
      UI.toBeBytes bw n x = .ok (List.replicate (n * bw - c.length) 0 ++ c) := by
  obtain ⟨c, h1, h2, h3⟩ := toLeBytes_eq_toRadixLe_256_padded hbw hn hx
  refine ⟨c.reverse, ?_, by simpa using h2, ?_⟩
  · show (UI.toRadixLe (8 * bw) x 256).map List.reverse = _
    rw [h1]; rfl
  · rw [(C15.toBeBytes_spec hbw hx).2.2, h3]
    show Outcome.ok _ = Outcome.ok _
    rw [List.reverse_append, List.reverse_replicate, List.length_reverse]
example : UI.toRadixBe 16 [0x1234, 0x0056] 256 = .ok [0x56, 0x12, 0x34] ∧
    UI.toBeBytes 2 2 [0x1234, 0x0056] = .ok (List.replicate (2 * 2 - 3) 0 ++ [0x56, 0x12, 0x34]) := by
  decide

/-! ### F9. the byte view commutes with the bit-level operations (C06, C05) and constants -/

/-- `ZERO.to_le_bytes() == [0; BYTES]`, `MAX.to_le_bytes() == [0xFF; BYTES]` (= `BInt::NEG_ONE`),
    `ONE.to_le_bytes() == [1, 0, …, 0]` -/
theorem toLeBytes_consts {bw sh : Nat} (hbw : bw = 2 ^ sh) (n : Nat) :
    UI.toLeBytes bw n (zero n) = .ok (List.replicate (n * bw) 0) ∧
    UI.toLeBytes bw n (allOnes (8 * bw) n) = .ok (List.replicate (n * bw) 255) ∧
    (1 ≤ n → UI.toLeBytes bw n (one n) = .ok (1 :: List.replicate (n * bw - 1) 0)) := by
  have hpos := pow_pos_bw hbw
  refine ⟨?_, ?_, fun hn => ?_⟩
  · rw [UI.toLeBytes_eq hbw (WF_zero (8 * bw) n).1]; congr 1; symm
    exact byt_eq_bytesOf (WF_zero _ n) (Endian.WF_replicate (B_pos 8))
      (by rw [U_replicate_zero, U_zero])
  · rw [UI.toLeBytes_eq hbw (WF_allOnes (8 * bw) n).1]; congr 1; symm
    apply byt_eq_bytesOf (WF_allOnes _ n) (Endian.WF_replicate (by rw [B8]; decide))
    have h1 : U 8 (List.replicate (n * bw) 255) = M 8 (n * bw) - 1 := U_replicate_max 8 (n * bw)
    rw [U_allOnes, byt_M_bytes, h1]
  · have hK : 1 ≤ n * bw := Nat.mul_le_mul hn hpos
    have hw : 1 ≤ 8 * bw := by omega
    rw [UI.toLeBytes_eq hbw (WF_one hw hn).1]; congr 1; symm
    apply byt_eq_bytesOf (WF_one hw hn)
    · have := (WF_cons (w := 8) (n := n * bw - 1) (d := 1) (ds := List.replicate (n * bw - 1) 0)).mpr
        ⟨by rw [B8]; decide, Endian.WF_replicate (B_pos 8)⟩
      rwa [show n * bw - 1 + 1 = n * bw by omega] at this
    · rw [U_cons, U_replicate_zero, U_one hn, Nat.mul_zero]
example : UI.toLeBytes 2 2 (allOnes 16 2) = .ok (List.replicate 4 255) ∧
    UI.toLeBytes 2 2 (one 2) = .ok [1, 0, 0, 0] := by decide

/-- `(!x).to_le_bytes()` is `x.to_le_bytes()` with every byte complemented (`b ↦ 255 - b`) -/
theorem toLeBytes_not {bw sh : Nat} (hbw : bw = 2 ^ sh) {n : Nat} {x : List Nat}
    (hx : WF (8 * bw) n x) :
    UI.toLeBytes bw n (UI.not (8 * bw) x) = (UI.toLeBytes bw n x).map (List.map (fun b => 255 - b)) := by
  obtain ⟨h1, h2, _⟩ := C06.not_spec hx
  obtain ⟨g1, g2, _⟩ := C06.not_spec (byt_wf_bytesOf (bw := bw) hx.1)
  rw [UI.toLeBytes_eq hbw h1.1, UI.toLeBytes_eq hbw hx.1]
  show Outcome.ok _ = Outcome.ok (UI.not 8 (bytesOf bw x))
  congr 1; symm
  exact byt_eq_bytesOf h1 g1 (by rw [g2, h2, U_bytesOf hx, byt_M_bytes])
example : UI.toLeBytes 2 2 (UI.not 16 [0x1234, 0xf678]) = .ok [0xcb, 0xed, 0x87, 0x09] := by decide

/-- `(x & y).to_le_bytes()` is the bytewise `&` of the byte arrays; same for `|`, `^` -/
theorem toLeBytes_logic {bw sh : Nat} (hbw : bw = 2 ^ sh) {n : Nat} {x y : List Nat}
    (hx : WF (8 * bw) n x) (hy : WF (8 * bw) n y) :
    UI.toLeBytes bw n (UI.bitand x y)
      = (UI.toLeBytes bw n x).bind (fun a => (UI.toLeBytes bw n y).map (UI.bitand a)) ∧
    UI.toLeBytes bw n (UI.bitor x y)
      = (UI.toLeBytes bw n x).bind (fun a => (UI.toLeBytes bw n y).map (UI.bitor a)) ∧
    UI.toLeBytes bw n (UI.bitxor x y)
      = (UI.toLeBytes bw n x).bind (fun a => (UI.toLeBytes bw n y).map (UI.bitxor a)) := by
  obtain ⟨⟨a1, a2⟩, ⟨o1, o2⟩, ⟨x1, x2⟩⟩ := C06.logic_spec hx hy
  obtain ⟨⟨b1, b2⟩, ⟨p1, p2⟩, ⟨y1, y2⟩⟩ :=
    C06.logic_spec (byt_wf_bytesOf (bw := bw) hx.1) (byt_wf_bytesOf (bw := bw) hy.1)
  rw [UI.toLeBytes_eq hbw a1.1, UI.toLeBytes_eq hbw o1.1, UI.toLeBytes_eq hbw x1.1,
    UI.toLeBytes_eq hbw hx.1, UI.toLeBytes_eq hbw hy.1]
  refine ⟨?_, ?_, ?_⟩
  · show Outcome.ok _ = Outcome.ok _; congr 1; symm
    exact byt_eq_bytesOf a1 b1 (by rw [b2, a2, U_bytesOf hx, U_bytesOf hy])
  · show Outcome.ok _ = Outcome.ok _; congr 1; symm
    exact byt_eq_bytesOf o1 p1 (by rw [p2, o2, U_bytesOf hx, U_bytesOf hy])
  · show Outcome.ok _ = Outcome.ok _; congr 1; symm
    exact byt_eq_bytesOf x1 y1 (by rw [y2, x2, U_bytesOf hx, U_bytesOf hy])
example : UI.toLeBytes 2 2 (UI.bitand [0x1234, 0xf678] [0xff0f, 0x3c5a]) = .ok [0x04, 0x12, 0x58, 0x34] := by
  decide

/-- `x.reverse_bits().to_le_bytes()` is the byte array of `x` reversed with every byte bit-reversed —
    i.e. `reverse_bits` of the `u8`-digit integer; equivalently `reverse_bits = swap_bytes ∘ (per-byte
    reverse_bits)`: `x.reverse_bits().to_be_bytes() == x.to_le_bytes().map(u8::reverse_bits)` -/
theorem toLeBytes_reverseBits {bw sh : Nat} (hbw : bw = 2 ^ sh) {n : Nat} {x : List Nat}
    (hx : WF (8 * bw) n x) :
    UI.toLeBytes bw n (UI.reverseBits (8 * bw) x) = (UI.toLeBytes bw n x).map (UI.reverseBits 8) ∧
    UI.toBeBytes bw n (UI.reverseBits (8 * bw) x)
      = (UI.toLeBytes bw n x).map (List.map (Bnum.Prim.reverseBits 8)) := by
  have hpos := pow_pos_bw hbw
  obtain ⟨h1, h2, _⟩ := C06.reverse_bits_spec (show 1 ≤ 8 * bw by omega) hx
  have hc := byt_wf_bytesOf (bw := bw) hx.1
  obtain ⟨g1, g2, _⟩ := C06.reverse_bits_spec (show 1 ≤ 8 by decide) hc
  have hW : 8 * (n * bw) = 8 * bw * n := by ring
  have key : UI.reverseBits 8 (bytesOf bw x) = bytesOf bw (UI.reverseBits (8 * bw) x) := by
    apply byt_eq_bytesOf h1 g1
    apply Nat.eq_of_testBit_eq; intro i
    by_cases hi : i < 8 * bw * n
    · rw [g2 i (by omega), h2 i hi, U_bytesOf hx, hW]
    · have l1 := U_lt g1
      have l2 := U_lt h1
      unfold M at l1 l2
      rw [Bits.testBit_eq_false_of_lt l1 (by omega), Bits.testBit_eq_false_of_lt l2 (by omega)]
  rw [UI.toLeBytes_eq hbw h1.1, UI.toBeBytes_eq hbw h1.1, UI.toLeBytes_eq hbw hx.1, ← key]
  refine ⟨rfl, ?_⟩
  show Outcome.ok _ = Outcome.ok _
  congr 1
  unfold UI.reverseBits; rw [List.map_reverse, List.reverse_reverse]
example : UI.toLeBytes 2 2 (UI.reverseBits 16 [0x1234, 0xf678]) = .ok [0x6f, 0x1e, 0x48, 0x2c] ∧
    (UI.toLeBytes 2 2 [0x1234, 0xf678]).map (UI.reverseBits 8) = .ok [0x6f, 0x1e, 0x48, 0x2c] := by decide

/-- `swap_bytes` of the wide-digit integer is `swap_bytes` of its `u8`-digit view (which just reverses
    the digit array) -/
theorem toLeBytes_swapBytes_u8 {bw sh : Nat} (hbw : bw = 2 ^ sh) {n : Nat} {x : List Nat}
    (hx : x.length = n) :
    UI.toLeBytes bw n (UI.swapBytes (8 * bw) x) = (UI.toLeBytes bw n x).map (UI.swapBytes 8) := by
  rw [(toLeBytes_swapBytes hbw hx).1, UI.toLeBytes_eq hbw hx]
  show Outcome.ok _ = Outcome.ok _
  congr 1
  unfold UI.swapBytes
  conv_lhs => rw [← List.map_id (bytesOf bw x).reverse]
  apply List.map_congr_left
  intro d hd
  exact (byt_prim_swapBytes_u8 (Bytes_bytesOf bw x d (List.mem_reverse.mp hd))).symm
example : (UI.toLeBytes 2 2 [0x1234, 0xf678]).map (UI.swapBytes 8) = .ok [0xf6, 0x78, 0x12, 0x34] := by
  decide

/-- shifting left by whole bytes moves the byte array up:
    `x.unbounded_shl(8k).to_le_bytes() == ([0; k] ++ x.to_le_bytes())[..BYTES]` (any `k`) -/
theorem toLeBytes_shl_bytes {bw sh : Nat} (hbw : bw = 2 ^ sh) {n : Nat} {x : List Nat}
    (hx : WF (8 * bw) n x) (k : Nat) :
    UI.toLeBytes bw n (UI.unboundedShl (8 * bw) x (8 * k))
      = (UI.toLeBytes bw n x).map (fun b => (List.replicate k 0 ++ b).take (n * bw)) := by
  have hpos := pow_pos_bw hbw
  obtain ⟨h1, h2⟩ := C05.u_unbounded_shl (s := 8 * k) (show 1 ≤ 8 * bw by omega) hx
  have hb := Bytes_bytesOf bw x
  have hrb : Bytes (List.replicate k 0 ++ bytesOf bw x) :=
    byt_bytes_append (byt_bytes_replicate (by decide)) hb
  rw [UI.toLeBytes_eq hbw h1.1, UI.toLeBytes_eq hbw hx.1]
  show Outcome.ok _ = Outcome.ok _
  congr 1; symm
  apply byt_eq_bytesOf h1
  · apply Endian.WF_take (by rw [B8]; exact hrb)
    rw [List.length_append, bytesOf_length, hx.1]; omega
  · rw [byt_U_take 8 _ (by rw [B8]; exact hrb), U_append, U_replicate_zero, Nat.zero_add,
      List.length_replicate, U_bytesOf hx, h2, B8, ← byt_M_bytes, Nat.mul_comm,
      show (256 : Nat) ^ k = 2 ^ (8 * k) by rw [Nat.pow_mul]]
    split
    · rfl
    · next h =>
      have : M (8 * bw) n ∣ 2 ^ (8 * k) := by
        unfold M; exact Nat.pow_dvd_pow 2 (by omega)
      exact Nat.mod_eq_zero_of_dvd (Dvd.dvd.mul_left this _)
example : UI.toLeBytes 2 2 (UI.unboundedShl 16 [0x1234, 0xf678] (8 * 1)) = .ok [0, 0x34, 0x12, 0x78] := by
  decide

/-- shifting right by whole bytes moves the byte array down:
    `x.unbounded_shr(8k).to_le_bytes() == x.to_le_bytes()[k..] ++ [0; min(k, BYTES)]` (any `k`) -/
theorem toLeBytes_shr_bytes {bw sh : Nat} (hbw : bw = 2 ^ sh) {n : Nat} {x : List Nat}
    (hx : WF (8 * bw) n x) (k : Nat) :
    UI.toLeBytes bw n (UI.unboundedShr (8 * bw) x (8 * k))
      = (UI.toLeBytes bw n x).map (fun b => b.drop k ++ List.replicate (min k (n * bw)) 0) := by
  have hpos := pow_pos_bw hbw
  obtain ⟨h1, h2⟩ := C05.u_unbounded_shr (s := 8 * k) (show 1 ≤ 8 * bw by omega) hx
  have hb := Bytes_bytesOf bw x
  rw [UI.toLeBytes_eq hbw h1.1, UI.toLeBytes_eq hbw hx.1]
  show Outcome.ok _ = Outcome.ok _
  congr 1; symm
  apply byt_eq_bytesOf h1
  · have := WF_append (Endian.WF_drop (w := 8) (n := k) (by rw [B8]; exact hb))
      (Endian.WF_replicate (w := 8) (k := min k (n * bw)) (d := 0) (B_pos 8))
    rw [bytesOf_length, hx.1] at this
    rwa [show n * bw - k + min k (n * bw) = n * bw by omega] at this
  · rw [U_append, U_replicate_zero, Nat.mul_zero, Nat.add_zero,
      byt_U_drop 8 _ (by rw [B8]; exact hb), U_bytesOf hx, h2]
    have e : M 8 k = 2 ^ (8 * k) := rfl
    rw [e]
    split
    · rfl
    · next h =>
      apply Nat.div_eq_of_lt
      exact Nat.lt_of_lt_of_le (U_lt hx) (by unfold M; exact Nat.pow_le_pow_right (by decide) (by omega))
example : UI.toLeBytes 2 2 (UI.unboundedShr 16 [0x1234, 0xf678] (8 * 1)) = .ok [0x12, 0x78, 0xf6, 0] := by
  decide

/-- the counting functions see the same bits through the byte view: `count_ones`, `count_zeros`,
    `leading_zeros`, `trailing_zeros`, `leading_ones`, `trailing_ones`, `bits` of `x` equal those of
    the `u8`-digit integer `x.to_le_bytes()` -/
theorem toLeBytes_counts {bw sh : Nat} (hbw : bw = 2 ^ sh) {n : Nat} {x : List Nat}
    (hx : WF (8 * bw) n x) :
    (UI.toLeBytes bw n x).map (fun b => (UI.countOnes 8 b, UI.countZeros 8 b, UI.leadingZeros 8 b,
        UI.trailingZeros 8 b, UI.leadingOnes 8 b, UI.trailingOnes 8 b, UI.bits 8 b))
      = .ok (UI.countOnes (8 * bw) x, UI.countZeros (8 * bw) x, UI.leadingZeros (8 * bw) x,
        UI.trailingZeros (8 * bw) x, UI.leadingOnes (8 * bw) x, UI.trailingOnes (8 * bw) x,
        UI.bits (8 * bw) x) := by
  have hc := byt_wf_bytesOf (bw := bw) hx.1
  have hW : 8 * (n * bw) = 8 * bw * n := by ring
  rw [UI.toLeBytes_eq hbw hx.1]
  show Outcome.ok _ = Outcome.ok _
  beta_reduce
  rw [(C06.count_spec hc).1, (C06.count_spec hc).2, (C06.leading_zeros_spec hc).1,
    (C06.leading_zeros_spec hc).2.1, C06.trailing_zeros_spec hc, (C06.ones_spec hc).2.2.1,
    (C06.ones_spec hc).2.2.2,
    (C06.count_spec hx).1, (C06.count_spec hx).2, (C06.leading_zeros_spec hx).1,
    (C06.leading_zeros_spec hx).2.1, C06.trailing_zeros_spec hx, (C06.ones_spec hx).2.2.1,
    (C06.ones_spec hx).2.2.2, U_bytesOf hx, hW]
example : (UI.toLeBytes 2 2 [0x1234, 0x0678]).map (fun b => (UI.countOnes 8 b, UI.leadingZeros 8 b))
    = .ok (UI.countOnes 16 [0x1234, 0x0678], UI.leadingZeros 16 [0x1234, 0x0678]) := by decide

/-- `x.bit(i)` is bit `i % 8` of byte `i / 8` of `x.to_le_bytes()` — `bit(i)` of the `u8`-digit view,
    with the same out-of-range panic -/
theorem toLeBytes_bit {bw sh : Nat} (hbw : bw = 2 ^ sh) (hsh : sh + 3 < 32) {n : Nat} {x : List Nat}
    (hx : WF (8 * bw) n x) (i : Nat) :
    UI.bit (8 * bw) x i = (UI.toLeBytes bw n x).bind (fun b => UI.bit 8 b i) := by
  have hc := byt_wf_bytesOf (bw := bw) hx.1
  have hW : 8 * (n * bw) = 8 * bw * n := by ring
  have e : 8 * bw = 2 ^ (sh + 3) := by rw [hbw, Nat.pow_succ, Nat.pow_succ, Nat.pow_succ]; omega
  rw [UI.toLeBytes_eq hbw hx.1]
  show _ = UI.bit 8 (bytesOf bw x) i
  have h8 := C06.bit_spec (s := 3) (by decide) hc i
  have hb : UI.bit (8 * bw) x i
      = if i < 8 * bw * n then .ok ((U (8 * bw) x).testBit i) else .panic := by
    have := C06.bit_spec (s := sh + 3) hsh (by rw [← e]; exact hx) i
    rw [← e] at this; exact this
  rw [hb]
  have h8' : UI.bit 8 (bytesOf bw x) i
      = if i < 8 * (n * bw) then .ok ((U 8 (bytesOf bw x)).testBit i) else .panic := h8
  rw [h8', U_bytesOf hx, hW]
example : UI.bit 16 [0x1234, 0x0678] 21 = (UI.toLeBytes 2 2 [0x1234, 0x0678]).bind (fun b => UI.bit 8 b 21) ∧
    UI.bit 16 [0x1234, 0x0678] 21 = .ok true := by decide

/-! ### F7'. short slices versus casts -/

/-- "shorter slices are zero- / sign-extended", stated with the C09 casts: for a non-empty slice of at
    most `BYTES` bytes, `from_le_slice(s)` is `Some` of the cast of the `u8`-digit integer with digit
    array `s` — the unsigned (zero-extending) cast for `BUint`, the signed (sign-extending) cast for
    `BInt` -/
theorem fromLeSlice_short_eq_cast {bw sh : Nat} (hbw : bw = 2 ^ sh) {n : Nat} (hn : 1 ≤ n)
    {s : List Nat} (hb : Bytes s) (hne : 1 ≤ s.length) (hlen : s.length ≤ n * bw) :
    UI.fromLeSlice bw n s = (castBnum 8 false s (8 * bw) n false).map some ∧
    II.fromLeSlice bw n s = (castBnum 8 true s (8 * bw) n true).map some := by
  have hpos := pow_pos_bw hbw
  have hw : 1 ≤ 8 * bw := by omega
  constructor
  · obtain ⟨r, hr, hwf, hu⟩ := C09.cast_bnum false false (by decide) hw hne hn
      (Or.inl ⟨bw, rfl⟩) hb.wf
    rw [hr, C15.u_fromLeSlice_short hbw n hb hlen, leValue_eq]
    show _ = Outcome.ok (some r)
    have hlt : U 8 s < M (8 * bw) n := by
      rw [byt_M_bytes]; exact Nat.lt_of_lt_of_le (U_lt hb.wf) (M_le hlen)
    have : U (8 * bw) r = U 8 s := by
      rw [hu]; show wrapU _ ((U 8 s : Nat) : Int) = _
      rw [wrapU_natCast, Nat.mod_eq_of_lt hlt]
    rw [← this, ← eq_ofNat hwf]
  · obtain ⟨r, hr, hwf, hu⟩ := C09.cast_bnum true true (by decide) hw hne hn
      (Or.inl ⟨bw, rfl⟩) hb.wf
    rw [hr, C15.i_fromLeSlice_short hbw hn hb hlen, twosLE_eq hb]
    show _ = Outcome.ok (some r)
    have : ofInt (8 * bw) n (S 8 s) = r := by
      unfold ofInt
      have hu' : U (8 * bw) r = wrapU (M (8 * bw) n) (S 8 s) := hu
      rw [← hu', ← eq_ofNat hwf]
    rw [this]
example : UI.fromLeSlice 2 2 [0x34, 0x92, 0xf7] = (castBnum 8 false [0x34, 0x92, 0xf7] 16 2 false).map some ∧
    II.fromLeSlice 2 2 [0x34, 0x92, 0xf7] = (castBnum 8 true [0x34, 0x92, 0xf7] 16 2 true).map some ∧
    II.fromLeSlice 2 2 [0x34, 0x92, 0xf7] = .ok (some [0x9234, 0xfff7]) := by decide

/-! ### naive statements that are FALSE -/

/-- FALSE for `BInt`: "zero bytes after `x.to_le_bytes()` are ignored" — for a negative `x` the padding
    must be `0xFF` (`fromLeSlice_toLeBytes_padded`); with zeros the slice denotes a large positive
    number and is rejected -/
theorem i_fromLeSlice_zero_padding_counterexample :
    S (8 * 2) [0x9234] < 0 ∧
    (II.toLeBytes 2 1 [0x9234]).bind (fun b => II.fromLeSlice 2 1 (b ++ [0])) = .ok none := by decide

/-- FALSE for `BInt`: "dropping most significant ZERO bytes does not change `from_le_slice`" (true for
    `BUint`: `u_fromLeSlice_take`) — the shortened slice may become negative -/
theorem i_fromLeSlice_take_zeros_counterexample :
    II.fromLeSlice 2 1 [0x80, 0x00] = .ok (some [0x0080]) ∧
    II.fromLeSlice 2 1 ([0x80, 0x00].take 1) = .ok (some [0xff80]) := by decide

/-- FALSE: "`from_le_slice` only looks at the first `BYTES` bytes" — a longer slice is rejected as soon
    as one extra byte is non-zero (`u_fromLeSlice_none_iff`) -/
theorem u_fromLeSlice_prefix_counterexample :
    UI.fromLeSlice 2 1 [0x34, 0x12] = .ok (some [0x1234]) ∧
    UI.fromLeSlice 2 1 [0x34, 0x12, 0, 1] = .ok none := by decide

/-- FALSE: "`to_be_bytes` is `to_le_bytes` of the digit-reversed integer" — reversing the DIGITS is not
    enough for multi-byte digits, each digit must be byte-swapped too (`toLeBytes_swapBytes`) -/
theorem toBeBytes_digit_reverse_counterexample :
    UI.toBeBytes 2 2 [0x1234, 0xf678] ≠ UI.toLeBytes 2 2 [0x1234, 0xf678].reverse := by decide

end Bytes

section Floats
open Bnum.Spec Bnum.Flt

/-! ## G. FLOAT laws: int <-> float casts (C14) versus arithmetic, order and other casts -/

/-! ### G1. int → float → int round trips -/

/-- `(x as f32/f64) as BUint<N'>` is `x` ROUNDED to the `p` significant bits of the float format
    (nearest, ties to even) and then SATURATED at `BUint<N'>::MAX` — for any source digit type
    `2^s`, any target digit width / count, whenever the rounded value is finite in the format
    (always the case for f64 up to 1024 bits and for f32 up to 128 bits). -/
theorem float_roundtrip_u_rounded {F : FloatFmt} (hF : F.Valid) {s n w' n' : Nat} (hs : s < 32)
    (hw' : 1 ≤ w') (hn' : 1 ≤ n') (dbg dbg' : Bool) {a : List Nat} (ha : WF (2 ^ s) n a)
    (hfin : rne F.p (U (2 ^ s) a) < 2 ^ F.emax) :
    ∃ f r, FltD.floatFromBUint F dbg (2 ^ s) a = .ok f ∧ FltD.buintFromFloat F dbg' w' n' f = .ok r ∧
      WF w' n' r ∧ U w' r = min (rne F.p (U (2 ^ s) a)) (M w' n' - 1) := by
  obtain ⟨hK1, _⟩ := flt_K_facts F w' n'
  have hf := C14.floatFromUint_specD hF hs dbg ha
  have hlt := (flt_natToFloat_dec hF (U (2 ^ s) a)).1
  have hx : natToFloat F.spec (U (2 ^ s) a) < 2 ^ F.bits := (flt_sign_add hF hlt).2.1
  obtain ⟨r, h1, h2, h3⟩ := flt_toUint_val hF dbg' hw' hn' hK1 hx
  refine ⟨_, r, hf, h1, h2, ?_⟩
  rw [← flt_intToFloat_nat, flt_cval_intToFloat hF _ _ _ _ (by simpa using hfin)] at h3
  have hnn : ¬ ((U (2 ^ s) a : Int) < 0) := by omega
  simp only [hnn, if_false, Int.natAbs_natCast] at h3
  rw [flt_clampU_nat (M_pos w' n')] at h3
  exact_mod_cast h3
example : FltD.floatFromBUint fmtF32 true (2 ^ 3) [0x01, 0x00, 0x00, 0x03] = .ok 0x4c400000 ∧
    FltD.buintFromFloat fmtF32 true 16 2 0x4c400000 = .ok [0x0000, 0x0300] ∧
    rne fmtF32.p (U (2 ^ 3) [0x01, 0x00, 0x00, 0x03]) = 0x3000000 := by decide

/-- EXACT ROUND TRIP (unsigned): `x < 2^p` (`p` = 24 for f32, 53 for f64; `p ≤ emax` holds for both)
    ⇒ `(x as f) as BUint<N> == x`, digit for digit, in every build mode. -/
theorem float_roundtrip_u {F : FloatFmt} (hF : F.Valid) (hpe : F.p ≤ F.emax) {s n : Nat} (hs : s < 32)
    (hn : 1 ≤ n) (dbg dbg' : Bool) {a : List Nat} (ha : WF (2 ^ s) n a) (hlt : U (2 ^ s) a < 2 ^ F.p) :
    ∃ f, FltD.floatFromBUint F dbg (2 ^ s) a = .ok f ∧ FltD.buintFromFloat F dbg' (2 ^ s) n f = .ok a := by
  have hr := flt_rne_of_lt hlt
  have hpp : 2 ^ F.p ≤ 2 ^ F.emax := Nat.pow_le_pow_right (by decide) hpe
  obtain ⟨f, r, h1, h2, h3, h4⟩ := float_roundtrip_u_rounded hF hs (show 1 ≤ 2 ^ s from Nat.pow_pos (by decide)) hn dbg dbg' ha
    (by rw [hr]; omega)
  refine ⟨f, h1, ?_⟩
  have : r = a := U_injective h3 ha (by rw [h4, hr]; have := U_lt ha; omega)
  rw [h2, this]
example : fmtF32.p ≤ fmtF32.emax ∧ fmtF64.p ≤ fmtF64.emax ∧ U (2 ^ 3) [0xff, 0xff, 0xff, 0] < 2 ^ fmtF32.p ∧
    FltD.floatFromBUint fmtF32 true (2 ^ 3) [0xff, 0xff, 0xff, 0] = .ok 0x4b7fffff ∧
    FltD.buintFromFloat fmtF32 false (2 ^ 3) 4 0x4b7fffff = .ok [0xff, 0xff, 0xff, 0] := by decide
/-- the bound `2^p` is sharp: `2^24 + 1` does not survive f32 -/
theorem float_roundtrip_u_counterexample :
    FltD.floatFromBUint fmtF32 true (2 ^ 3) [1, 0, 0, 1] = .ok 0x4b800000 ∧
    FltD.buintFromFloat fmtF32 true (2 ^ 3) 4 0x4b800000 = .ok [0, 0, 0, 1] := by decide

/-- EXACT ROUND TRIP for every exactly representable integer: `x = m·2^e` with `m < 2^p`
    (`Spec.Representable`) and `x < 2^emax` ⇒ `(x as f) as BUint<N> == x`. -/
theorem float_roundtrip_u_representable {F : FloatFmt} (hF : F.Valid) {s n : Nat} (hs : s < 32)
    (hn : 1 ≤ n) (dbg dbg' : Bool) {a : List Nat} (ha : WF (2 ^ s) n a)
    (hrep : Representable F.p (U (2 ^ s) a)) (hfin : U (2 ^ s) a < 2 ^ F.emax) :
    ∃ f, FltD.floatFromBUint F dbg (2 ^ s) a = .ok f ∧ FltD.buintFromFloat F dbg' (2 ^ s) n f = .ok a := by
  have hr := flt_rne_of_representable (by have := hF.hp; omega) hrep
  obtain ⟨f, r, h1, h2, h3, h4⟩ := float_roundtrip_u_rounded hF hs (show 1 ≤ 2 ^ s from Nat.pow_pos (by decide)) hn dbg dbg' ha
    (by rw [hr]; omega)
  refine ⟨f, h1, ?_⟩
  have : r = a := U_injective h3 ha (by rw [h4, hr]; have := U_lt ha; omega)
  rw [h2, this]
example : Representable fmtF32.p (U (2 ^ 3) [0, 0, 0, 0x80, 0xff]) ∧
    FltD.floatFromBUint fmtF32 true (2 ^ 3) [0, 0, 0, 0x80, 0xff] = .ok 0x537f8000 ∧
    FltD.buintFromFloat fmtF32 true (2 ^ 3) 5 0x537f8000 = .ok [0, 0, 0, 0x80, 0xff] :=
  ⟨⟨0xff80, 24, by decide, by decide⟩, by decide, by decide⟩

/-- signed version: `(x as f32/f64) as BInt<N'>` is `sign(x) · rne_p |x|` clamped to
    `[BInt<N'>::MIN, BInt<N'>::MAX]` (`Spec.clamp true`), whenever the rounded magnitude is finite. -/
theorem float_roundtrip_i_rounded {F : FloatFmt} (hF : F.Valid) {s n w' n' : Nat} (hs1 : 1 ≤ s)
    (hs : s < 32) (hn : 1 ≤ n) (hw' : 2 ≤ w') (hn' : 1 ≤ n') (dbg dbg' : Bool) {a : List Nat}
    (ha : WF (2 ^ s) n a) (hfin : rne F.p (S (2 ^ s) a).natAbs < 2 ^ F.emax) :
    ∃ f r, FltD.floatFromBInt F dbg (2 ^ s) a = .ok f ∧ FltD.bintFromFloat F dbg' w' n' f = .ok r ∧
      WF w' n' r ∧ S w' r = clamp true (M w' n')
        (if S (2 ^ s) a < 0 then -((rne F.p (S (2 ^ s) a).natAbs : Nat) : Int)
         else ((rne F.p (S (2 ^ s) a).natAbs : Nat) : Int)) := by
  obtain ⟨hK1, _⟩ := flt_K_facts F w' n'
  have hf := C14.floatFromInt_specD hF hs1 hs hn dbg ha
  have hx := (flt_intToFloat_dec hF 0 (S (2 ^ s) a)).1
  obtain ⟨r, h1, h2, h3⟩ := flt_toSint_val hF dbg' hw' hn' hK1 hx
  refine ⟨_, r, hf, h1, h2, ?_⟩
  rw [h3, flt_cval_intToFloat hF _ _ _ _ hfin]
example : FltD.floatFromBInt fmtF32 true (2 ^ 3) [0xff, 0xff, 0xff, 0xfc] = .ok 0xcc400000 ∧
    FltD.bintFromFloat fmtF32 true 16 2 0xcc400000 = .ok [0x0000, 0xfd00] ∧
    S (2 ^ 3) [0xff, 0xff, 0xff, 0xfc] = -0x3000001 ∧ rne fmtF32.p 0x3000001 = 0x3000000 := by decide

/-- EXACT ROUND TRIP (signed): `|x| < 2^p` ⇒ `(x as f) as BInt<N> == x`, digit for digit. -/
theorem float_roundtrip_i {F : FloatFmt} (hF : F.Valid) (hpe : F.p ≤ F.emax) {s n : Nat} (hs1 : 1 ≤ s)
    (hs : s < 32) (hn : 1 ≤ n) (dbg dbg' : Bool) {a : List Nat} (ha : WF (2 ^ s) n a)
    (hlt : (S (2 ^ s) a).natAbs < 2 ^ F.p) :
    ∃ f, FltD.floatFromBInt F dbg (2 ^ s) a = .ok f ∧ FltD.bintFromFloat F dbg' (2 ^ s) n f = .ok a := by
  have hr := flt_rne_of_lt hlt
  have hpp : 2 ^ F.p ≤ 2 ^ F.emax := Nat.pow_le_pow_right (by decide) hpe
  have hw2 : 2 ≤ 2 ^ s := by
    calc 2 = 2 ^ 1 := rfl
      _ ≤ 2 ^ s := Nat.pow_le_pow_right (by decide) hs1
  obtain ⟨f, r, h1, h2, h3, h4⟩ := float_roundtrip_i_rounded hF hs1 hs hn hw2 hn dbg dbg' ha
    (by rw [hr]; omega)
  refine ⟨f, h1, ?_⟩
  rw [hr] at h4
  have hz : (if S (2 ^ s) a < 0 then -(((S (2 ^ s) a).natAbs : Nat) : Int)
      else (((S (2 ^ s) a).natAbs : Nat) : Int)) = S (2 ^ s) a := by split_ifs <;> omega
  rw [hz, flt_clamp_of_rep (s := true) (flt_M_facts (by omega) hn).2 (S_repS (by omega) hn ha)] at h4
  have : r = a := Cmp.S_injective h3 ha h4
  rw [h2, this]
example : (S (2 ^ 3) [0x01, 0x00, 0x00, 0xff]).natAbs < 2 ^ fmtF32.p ∧
    FltD.floatFromBInt fmtF32 true (2 ^ 3) [0x01, 0x00, 0x00, 0xff] = .ok 0xcb7fffff ∧
    FltD.bintFromFloat fmtF32 false (2 ^ 3) 4 0xcb7fffff = .ok [0x01, 0x00, 0x00, 0xff] := by decide

/-! ### G2. int → float is monotone -/

/-- `a ≤ b ⇒ (a as f) ≤ (b as f)` for unsigned `a`, `b` of ANY two bnum types: both results are
    non-negative non-NaN floats (`≤ +∞`), for which the IEEE order is the order of the bit patterns. -/
theorem float_from_uint_mono {F : FloatFmt} (hF : F.Valid) {s n s' n' : Nat} (hs : s < 32) (hs' : s' < 32)
    (dbg dbg' : Bool) {a b : List Nat} (ha : WF (2 ^ s) n a) (hb : WF (2 ^ s') n' b)
    (h : U (2 ^ s) a ≤ U (2 ^ s') b) :
    ∃ fa fb, FltD.floatFromBUint F dbg (2 ^ s) a = .ok fa ∧ FltD.floatFromBUint F dbg' (2 ^ s') b = .ok fb ∧
      fa ≤ fb ∧ fb ≤ infinity F ∧ flt_key F.spec fa ≤ flt_key F.spec fb := by
  have hm := flt_natToFloat_mono hF h
  have h1 := (flt_natToFloat_dec hF (U (2 ^ s) a)).1
  have h2 := (flt_natToFloat_dec hF (U (2 ^ s') b)).1
  refine ⟨_, _, C14.floatFromUint_specD hF hs dbg ha, C14.floatFromUint_specD hF hs' dbg' hb, hm, ?_, ?_⟩
  · rw [infinity_eq hF]; exact natToFloat_le hF _
  · rw [flt_key_nonneg hF h1, flt_key_nonneg hF h2]; omega
example : U (2 ^ 3) [0xff, 0xff, 0x01] ≤ U (2 ^ 4) [0x0000, 0x0002] ∧
    FltD.floatFromBUint fmtF32 true (2 ^ 3) [0xff, 0xff, 0x01] = .ok 0x47ffff80 ∧
    FltD.floatFromBUint fmtF32 true (2 ^ 4) [0x0000, 0x0002] = .ok 0x48000000 := by decide

/-- the same with the hypothesis given by `BUint::le` (C07) -/
theorem float_from_uint_mono_le {F : FloatFmt} (hF : F.Valid) {s n : Nat} (hs : s < 32)
    (dbg : Bool) {a b : List Nat} (ha : WF (2 ^ s) n a) (hb : WF (2 ^ s) n b)
    (h : CmpImpl.le UI.cmp a b = true) :
    ∃ fa fb, FltD.floatFromBUint F dbg (2 ^ s) a = .ok fa ∧ FltD.floatFromBUint F dbg (2 ^ s) b = .ok fb ∧
      fa ≤ fb ∧ fb ≤ infinity F :=
  have ⟨fa, fb, h1, h2, h3, h4, _⟩ :=
    float_from_uint_mono hF hs hs dbg dbg ha hb ((C07.u_order ha hb).2.1.1 h)
  ⟨fa, fb, h1, h2, h3, h4⟩
example : CmpImpl.le UI.cmp [0xff, 0xff, 0x01] [0x00, 0x00, 0x02] = true := by decide

/-- STRICT monotonicity is false (rounding): `2^24 < 2^24 + 1` but both are `16777216f32` -/
theorem float_from_uint_strict_mono_counterexample :
    CmpImpl.lt UI.cmp [0, 0, 0, 1] [1, 0, 0, 1] = true ∧
    FltD.floatFromBUint fmtF32 true (2 ^ 3) [0, 0, 0, 1] = .ok 0x4b800000 ∧
    FltD.floatFromBUint fmtF32 true (2 ^ 3) [1, 0, 0, 1] = .ok 0x4b800000 := by decide

/-- signed: `a ≤ b ⇒ (a as f) ≤ (b as f)` in the IEEE order of (non-NaN) floats, `flt_key`
    (= `±abs bits`, see `flt_key_model`); any two signed bnum types. -/
theorem float_from_int_mono {F : FloatFmt} (hF : F.Valid) {s n s' n' : Nat} (hs1 : 1 ≤ s) (hs : s < 32)
    (hn : 1 ≤ n) (hs1' : 1 ≤ s') (hs' : s' < 32) (hn' : 1 ≤ n')
    (dbg dbg' : Bool) {a b : List Nat} (ha : WF (2 ^ s) n a) (hb : WF (2 ^ s') n' b)
    (h : S (2 ^ s) a ≤ S (2 ^ s') b) :
    ∃ fa fb, FltD.floatFromBInt F dbg (2 ^ s) a = .ok fa ∧ FltD.floatFromBInt F dbg' (2 ^ s') b = .ok fb ∧
      flt_key F.spec fa ≤ flt_key F.spec fb ∧ ¬ isNan F fa ∧ ¬ isNan F fb := by
  have da := flt_intToFloat_dec hF 0 (S (2 ^ s) a)
  have db := flt_intToFloat_dec hF 0 (S (2 ^ s') b)
  refine ⟨_, _, C14.floatFromInt_specD hF hs1 hs hn dbg ha, C14.floatFromInt_specD hF hs1' hs' hn' dbg' hb,
    flt_intToFloat_mono hF h, ?_, ?_⟩
  · rw [(nan_inf_iff hF da.1).1, da.2.1]; simp
  · rw [(nan_inf_iff hF db.1).1, db.2.1]; simp
example : S (2 ^ 3) [0x00, 0x00, 0xfe] ≤ S (2 ^ 3) [0x01, 0x00, 0xfe] ∧
    FltD.floatFromBInt fmtF32 true (2 ^ 3) [0x00, 0x00, 0xfe] = .ok 0xc8000000 ∧
    FltD.floatFromBInt fmtF32 true (2 ^ 3) [0x01, 0x00, 0xfe] = .ok 0xc7ffff80 ∧
    flt_key fmtF32.spec 0xc8000000 ≤ flt_key fmtF32.spec 0xc7ffff80 := by decide

/-- the same with the hypothesis given by `BInt::le` (C07) -/
theorem float_from_int_mono_le {F : FloatFmt} (hF : F.Valid) {s n : Nat} (hs1 : 1 ≤ s) (hs : s < 32)
    (hn : 1 ≤ n) (dbg : Bool) {a b : List Nat} (ha : WF (2 ^ s) n a) (hb : WF (2 ^ s) n b)
    (h : CmpImpl.le (II.cmp (2 ^ s)) a b = true) :
    ∃ fa fb, FltD.floatFromBInt F dbg (2 ^ s) a = .ok fa ∧ FltD.floatFromBInt F dbg (2 ^ s) b = .ok fb ∧
      flt_key F.spec fa ≤ flt_key F.spec fb :=
  have ⟨fa, fb, h1, h2, h3, _⟩ := float_from_int_mono hF hs1 hs hn hs1 hs hn dbg dbg ha hb
    ((C07.i_order (Nat.pow_pos (by decide)) hn ha hb).2.1.1 h)
  ⟨fa, fb, h1, h2, h3⟩
example : CmpImpl.le (II.cmp (2 ^ 3)) [0x00, 0x00, 0xfe] [0x01, 0x00, 0xfe] = true := by decide

/-! ### G3. int → float and negation -/

/-- `(-x) as f == -(x as f)` bit for bit (the patterns differ exactly in the sign bit: `Flt.neg` is
    the primitive float negation), for signed `x` other than `0` and `MIN`. -/
theorem float_from_int_neg {F : FloatFmt} (hF : F.Valid) {s n : Nat} (hs1 : 1 ≤ s) (hs : s < 32)
    (hn : 1 ≤ n) (dbg : Bool) {a : List Nat} (ha : WF (2 ^ s) n a) (h0 : a ≠ zero n)
    (hmin : a ≠ iMin (2 ^ s) n) :
    ∃ f, FltD.floatFromBInt F dbg (2 ^ s) a = .ok f ∧
      FltD.floatFromBInt F dbg (2 ^ s) (II.wrappingNeg (2 ^ s) a) = .ok (Flt.neg F f) := by
  have hw1 : 1 ≤ 2 ^ s := Nat.pow_pos (by decide)
  have hw2 : 2 ≤ 2 ^ s := by
    calc 2 = 2 ^ 1 := rfl
      _ ≤ 2 ^ s := Nat.pow_le_pow_right (by decide) hs1
  obtain ⟨g1, g2⟩ := C01.i_wrapping_neg hw2 hn ha
  have hz : S (2 ^ s) a ≠ 0 := fun h => h0 (Cmp.S_injective ha (WF_zero _ n) (by rw [h, S_zero]))
  have hm : S (2 ^ s) a ≠ -((M (2 ^ s) n / 2 : Nat) : Int) := fun h =>
    hmin (Cmp.S_injective ha (WF_iMin hw1 hn) (by rw [h, S_iMin hw1 hn]))
  have hrep : repS (M (2 ^ s) n) (-S (2 ^ s) a) := by
    have := S_repS hw1 hn ha; have := M_even hw1 hn
    unfold repS at *; omega
  rw [wrapS_of_rep (M_pos _ n) hrep] at g2
  refine ⟨_, C14.floatFromInt_specD hF hs1 hs hn dbg ha, ?_⟩
  rw [C14.floatFromInt_specD hF hs1 hs hn dbg g1, g2, flt_intToFloat_neg hF hz]
example : FltD.floatFromBInt fmtF32 true (2 ^ 3) [0x39, 0x30, 0x00] = .ok 0x4640e400 ∧
    II.wrappingNeg (2 ^ 3) [0x39, 0x30, 0x00] = [0xc7, 0xcf, 0xff] ∧
    FltD.floatFromBInt fmtF32 true (2 ^ 3) [0xc7, 0xcf, 0xff] = .ok 0xc640e400 ∧
    Flt.neg fmtF32 0x4640e400 = 0xc640e400 := by decide

/-- at zero the law fails: `-0 = 0` casts to `+0.0`, whose negation is `-0.0` -/
theorem float_from_int_neg_zero_counterexample :
    FltD.floatFromBInt fmtF32 true (2 ^ 3) (II.wrappingNeg (2 ^ 3) [0, 0]) = .ok 0 ∧
    FltD.floatFromBInt fmtF32 true (2 ^ 3) [0, 0] = .ok 0 ∧ Flt.neg fmtF32 0 = 0x80000000 := by decide

/-- `MIN`: `-MIN == MIN` (wrapping), and `MIN as f` is exactly `-2^(BITS-1)` — sign bit, zero
    fraction, biased exponent `BITS - 1 + emax - 1` — when `BITS - 1 < emax`, and `-∞` otherwise
    (f32 from 136 bits up, f64 from 1032 bits up). -/
theorem float_from_int_min {F : FloatFmt} (hF : F.Valid) {s n : Nat} (hs1 : 1 ≤ s) (hs : s < 32)
    (hn : 1 ≤ n) (dbg : Bool) :
    II.wrappingNeg (2 ^ s) (iMin (2 ^ s) n) = iMin (2 ^ s) n ∧
    FltD.floatFromBInt F dbg (2 ^ s) (iMin (2 ^ s) n) =
      .ok (if 2 ^ s * n - 1 < F.emax then Flt.neg F ((2 ^ s * n - 1 + F.emax - 1) * 2 ^ (F.p - 1))
           else Flt.neg F (infinity F)) := by
  have hw1 : 1 ≤ 2 ^ s := Nat.pow_pos (by decide)
  have hw2 : 2 ≤ 2 ^ s := by
    calc 2 = 2 ^ 1 := rfl
      _ ≤ 2 ^ s := Nat.pow_le_pow_right (by decide) hs1
  have hmin := WF_iMin hw1 hn (w := 2 ^ s) (n := n)
  have hW : 1 ≤ 2 ^ s * n := Nat.mul_pos hw1 hn
  have hhalf : M (2 ^ s) n / 2 = 2 ^ (2 ^ s * n - 1) := by
    have : M (2 ^ s) n = 2 * 2 ^ (2 ^ s * n - 1) := by unfold M; rw [pow_split hW]; simp
    omega
  constructor
  · obtain ⟨g1, g2⟩ := C01.i_wrapping_neg hw2 hn hmin
    refine Cmp.S_injective g1 hmin ?_
    rw [g2, S_iMin hw1 hn]
    have := M_even hw1 hn; have := M_pos (2 ^ s) n
    have hk : (-(-((M (2 ^ s) n / 2 : Nat) : Int))) = -((M (2 ^ s) n / 2 : Nat) : Int) + 1 * (M (2 ^ s) n : Int) := by
      omega
    rw [hk, wrapS_add_mul]
    exact wrapS_of_rep (M_pos _ n) (by unfold repS; omega)
  · rw [C14.floatFromInt_specD hF hs1 hs hn dbg hmin, S_iMin hw1 hn, hhalf]
    have hpos : 0 < 2 ^ (2 ^ s * n - 1) := Nat.pow_pos (by decide)
    have hne : ((2 ^ (2 ^ s * n - 1) : Nat) : Int) ≠ 0 := by omega
    have : -((2 ^ (2 ^ s * n - 1) : Nat) : Int) = -(((2 ^ (2 ^ s * n - 1) : Nat) : Int)) := rfl
    rw [flt_intToFloat_neg hF hne, flt_intToFloat_nat, flt_natToFloat_pow2 hF, infinity_eq hF]
    split_ifs <;> rfl
example : FltD.floatFromBInt fmtF32 true (2 ^ 3) (iMin (2 ^ 3) 3) = .ok 0xcb000000 ∧
    (if 2 ^ 3 * 3 - 1 < fmtF32.emax then Flt.neg fmtF32 ((2 ^ 3 * 3 - 1 + fmtF32.emax - 1) * 2 ^ (fmtF32.p - 1))
      else Flt.neg fmtF32 (infinity fmtF32)) = 0xcb000000 := by decide
/-- `i136::MIN as f32 == -inf` -/
example : FltD.floatFromBInt fmtF32 true (2 ^ 3) (iMin (2 ^ 3) 17) = .ok 0xff800000 := by decide

/-! ### G4. float → int truncates, and is exact on integral floats in range -/

/-- `f as BUint<N>` for a finite non-negative float whose truncation fits: exactly `⌊f⌋`. -/
theorem uint_from_float_trunc {F : FloatFmt} (hF : F.Valid) (dbg : Bool) {w n : Nat} (hw : 1 ≤ w)
    (hn : 1 ≤ n) {x : Nat} (hx : x < 2 ^ F.bits) (hnan : Spec.isNaN F.spec x = false)
    (hinf : Spec.isInf F.spec x = false) (hs : signOf F.spec x = false)
    (hfit : truncOf F.spec x < M w n) :
    ∃ r, FltD.buintFromFloat F dbg w n x = .ok r ∧ WF w n r ∧ U w r = truncOf F.spec x := by
  obtain ⟨r, h1, h2, h3⟩ := flt_toUint_val hF dbg hw hn (flt_K_facts F w n).1 hx
  refine ⟨r, h1, h2, ?_⟩
  rw [flt_cval_finite false _ _ hnan hinf, hs] at h3
  simp only [Bool.false_eq_true, if_false] at h3
  rw [flt_clampU_nat (M_pos w n)] at h3
  have : U w r = min (truncOf F.spec x) (M w n - 1) := by exact_mod_cast h3
  omega
/-- `1234.75f32 as u16 = 1234` -/
example : truncOf fmtF32.spec 0x449a5800 = 1234 ∧
    FltD.buintFromFloat fmtF32 true 8 2 0x449a5800 = .ok [0xd2, 0x04] := by decide

/-- `f as BInt<N>` for a finite float whose truncation `±⌊|f|⌋` fits: exactly that integer. -/
theorem int_from_float_trunc {F : FloatFmt} (hF : F.Valid) (dbg : Bool) {w n : Nat} (hw : 2 ≤ w)
    (hn : 1 ≤ n) {x : Nat} (hx : x < 2 ^ F.bits) (hnan : Spec.isNaN F.spec x = false)
    (hinf : Spec.isInf F.spec x = false)
    (hfit : repS (M w n) (if signOf F.spec x then -((truncOf F.spec x : Nat) : Int) else ((truncOf F.spec x : Nat) : Int))) :
    ∃ r, FltD.bintFromFloat F dbg w n x = .ok r ∧ WF w n r ∧
      S w r = if signOf F.spec x then -((truncOf F.spec x : Nat) : Int) else ((truncOf F.spec x : Nat) : Int) := by
  obtain ⟨r, h1, h2, h3⟩ := flt_toSint_val hF dbg hw hn (flt_K_facts F w n).1 hx
  refine ⟨r, h1, h2, ?_⟩
  rw [h3, flt_cval_finite true _ _ hnan hinf]
  exact flt_clamp_of_rep (s := true) (flt_M_facts (by omega) hn).2 hfit
/-- `-1234.75f32 as i16 = -1234` -/
example : signOf fmtF32.spec 0xc49a5800 = true ∧ truncOf fmtF32.spec 0xc49a5800 = 1234 ∧
    FltD.bintFromFloat fmtF32 true 8 2 0xc49a5800 = .ok [0x2e, 0xfb] ∧ S 8 [0x2e, 0xfb] = -1234 := by decide

/-- EXACTNESS: a finite non-negative float whose value is an INTEGER `z < 2^BITS`
    (`flt_IsInt`: `m·2^e = z` for the decoded significand / exponent) casts to the digits of `z`. -/
theorem uint_from_float_exact {F : FloatFmt} (hF : F.Valid) (dbg : Bool) {w n : Nat} (hw : 1 ≤ w)
    (hn : 1 ≤ n) {x z : Nat} (hx : x < 2 ^ F.bits) (hnan : Spec.isNaN F.spec x = false)
    (hinf : Spec.isInf F.spec x = false) (hs : signOf F.spec x = false)
    (hint : flt_IsInt F.spec x z) (hfit : z < M w n) :
    ∃ r, FltD.buintFromFloat F dbg w n x = .ok r ∧ WF w n r ∧ U w r = z := by
  have ht := flt_truncOf_of_isInt hint
  obtain ⟨r, h1, h2, h3⟩ := uint_from_float_trunc hF dbg hw hn hx hnan hinf hs (by rw [ht]; exact hfit)
  exact ⟨r, h1, h2, by rw [h3, ht]⟩
/-- `3.0e9f32` (= 3000000000 exactly) as a 32-bit integer over u8 digits; `1.0f32` -/
example : flt_IsInt fmtF32.spec 0x4f32d05e 3000000000 ∧ flt_IsInt fmtF32.spec 0x3f800000 1 ∧
    ¬ flt_IsInt fmtF32.spec 0x3fc00000 1 ∧
    FltD.buintFromFloat fmtF32 true 8 4 0x4f32d05e = .ok [0x00, 0x5e, 0xd0, 0xb2] ∧
    U 8 [0x00, 0x5e, 0xd0, 0xb2] = 3000000000 := by decide

/-- EXACTNESS (signed): a finite float of integer value `±z` representable in `BInt<N>` casts to the
    two's-complement digits of `±z`. -/
theorem int_from_float_exact {F : FloatFmt} (hF : F.Valid) (dbg : Bool) {w n : Nat} (hw : 2 ≤ w)
    (hn : 1 ≤ n) {x z : Nat} (hx : x < 2 ^ F.bits) (hnan : Spec.isNaN F.spec x = false)
    (hinf : Spec.isInf F.spec x = false) (hint : flt_IsInt F.spec x z)
    (hfit : repS (M w n) (if signOf F.spec x then -(z : Int) else (z : Int))) :
    ∃ r, FltD.bintFromFloat F dbg w n x = .ok r ∧ WF w n r ∧
      S w r = if signOf F.spec x then -(z : Int) else (z : Int) := by
  have ht := flt_truncOf_of_isInt hint
  obtain ⟨r, h1, h2, h3⟩ := int_from_float_trunc hF dbg hw hn hx hnan hinf (by rw [ht]; exact hfit)
  exact ⟨r, h1, h2, by rw [h3, ht]⟩
/-- `-32768.0f32 as i16 = MIN` exactly -/
example : flt_IsInt fmtF32.spec 0xc7000000 32768 ∧ repS (M 8 2) (-(32768 : Int)) ∧
    FltD.bintFromFloat fmtF32 true 8 2 0xc7000000 = .ok [0x00, 0x80] := by decide

/-! ### G5. float → int is monotone, saturates at both ends, NaN ↦ 0 -/

/-- `f ≤ g` (IEEE order on non-NaN floats, `flt_key`) ⇒ `(f as BUint<N>) ≤ (g as BUint<N>)`, as values
    and for `BUint::le` (C07); saturation at `0` and `MAX` included (±∞ too). -/
theorem uint_from_float_mono {F : FloatFmt} (hF : F.Valid) (dbg : Bool) {w n : Nat} (hw : 1 ≤ w)
    (hn : 1 ≤ n) {x y : Nat} (hx : x < 2 ^ F.bits) (hy : y < 2 ^ F.bits)
    (hnx : Spec.isNaN F.spec x = false) (hny : Spec.isNaN F.spec y = false)
    (h : flt_key F.spec x ≤ flt_key F.spec y) :
    ∃ rx ry, FltD.buintFromFloat F dbg w n x = .ok rx ∧ FltD.buintFromFloat F dbg w n y = .ok ry ∧
      WF w n rx ∧ WF w n ry ∧ U w rx ≤ U w ry ∧ CmpImpl.le UI.cmp rx ry = true := by
  obtain ⟨hK1, hK2⟩ := flt_K_facts F w n
  obtain ⟨rx, a1, a2, a3⟩ := flt_toUint_val hF dbg hw hn hK1 hx
  obtain ⟨ry, b1, b2, b3⟩ := flt_toUint_val hF dbg hw hn hK1 hy
  have hm := flt_cval_mono hF false (flt_M_facts hw hn).1 hK2 hx hy hnx hny h
  have hle : U w rx ≤ U w ry := by omega
  exact ⟨rx, ry, a1, b1, a2, b2, hle, (C07.u_order a2 b2).2.1.2 hle⟩
/-- `-3.5 ≤ 2.5 ≤ 70000.0 ≤ +∞` cast to u16: `0 ≤ 2 ≤ 65535 ≤ 65535` -/
example : flt_key fmtF32.spec 0xc0600000 ≤ flt_key fmtF32.spec 0x40200000 ∧
    flt_key fmtF32.spec 0x40200000 ≤ flt_key fmtF32.spec 0x4788b800 ∧
    flt_key fmtF32.spec 0x4788b800 ≤ flt_key fmtF32.spec 0x7f800000 ∧
    FltD.buintFromFloat fmtF32 true 8 2 0xc0600000 = .ok [0, 0] ∧
    FltD.buintFromFloat fmtF32 true 8 2 0x40200000 = .ok [2, 0] ∧
    FltD.buintFromFloat fmtF32 true 8 2 0x4788b800 = .ok [0xff, 0xff] ∧
    FltD.buintFromFloat fmtF32 true 8 2 0x7f800000 = .ok [0xff, 0xff] := by decide

/-- `f ≤ g` ⇒ `(f as BInt<N>) ≤ (g as BInt<N>)` as signed values and for `BInt::le` (C07);
    saturation at `MIN` and `MAX` included. -/
theorem int_from_float_mono {F : FloatFmt} (hF : F.Valid) (dbg : Bool) {w n : Nat} (hw : 2 ≤ w)
    (hn : 1 ≤ n) {x y : Nat} (hx : x < 2 ^ F.bits) (hy : y < 2 ^ F.bits)
    (hnx : Spec.isNaN F.spec x = false) (hny : Spec.isNaN F.spec y = false)
    (h : flt_key F.spec x ≤ flt_key F.spec y) :
    ∃ rx ry, FltD.bintFromFloat F dbg w n x = .ok rx ∧ FltD.bintFromFloat F dbg w n y = .ok ry ∧
      WF w n rx ∧ WF w n ry ∧ S w rx ≤ S w ry ∧ CmpImpl.le (II.cmp w) rx ry = true := by
  obtain ⟨hK1, hK2⟩ := flt_K_facts F w n
  obtain ⟨rx, a1, a2, a3⟩ := flt_toSint_val hF dbg hw hn hK1 hx
  obtain ⟨ry, b1, b2, b3⟩ := flt_toSint_val hF dbg hw hn hK1 hy
  have hm := flt_cval_mono hF true (flt_M_facts (show 1 ≤ w by omega) hn).1 hK2 hx hy hnx hny h
  have hle : S w rx ≤ S w ry := by omega
  exact ⟨rx, ry, a1, b1, a2, b2, hle, (C07.i_order (by omega) hn a2 b2).2.1.2 hle⟩
/-- `-∞ ≤ -40000.0 ≤ -3.5 ≤ -0.0 ≤ 2.5 ≤ 70000.0` cast to i16: `MIN, MIN, -3, 0, 2, MAX` -/
example : flt_key fmtF32.spec 0xff800000 ≤ flt_key fmtF32.spec 0xc71c4000 ∧
    flt_key fmtF32.spec 0xc71c4000 ≤ flt_key fmtF32.spec 0xc0600000 ∧
    flt_key fmtF32.spec 0xc0600000 ≤ flt_key fmtF32.spec 0x80000000 ∧
    flt_key fmtF32.spec 0x80000000 ≤ flt_key fmtF32.spec 0x40200000 ∧
    FltD.bintFromFloat fmtF32 true 8 2 0xff800000 = .ok [0x00, 0x80] ∧
    FltD.bintFromFloat fmtF32 true 8 2 0xc71c4000 = .ok [0x00, 0x80] ∧
    FltD.bintFromFloat fmtF32 true 8 2 0xc0600000 = .ok [0xfd, 0xff] ∧
    FltD.bintFromFloat fmtF32 true 8 2 0x80000000 = .ok [0x00, 0x00] ∧
    FltD.bintFromFloat fmtF32 true 8 2 0x40200000 = .ok [0x02, 0x00] ∧
    FltD.bintFromFloat fmtF32 true 8 2 0x4788b800 = .ok [0xff, 0x7f] := by decide

/-- NaN (any payload, either sign) casts to `ZERO`, for both signednesses. -/
theorem from_float_nan {F : FloatFmt} (hF : F.Valid) (dbg : Bool) {w n : Nat} (hw : 2 ≤ w)
    (hn : 1 ≤ n) {x : Nat} (hx : x < 2 ^ F.bits) (hnan : Spec.isNaN F.spec x = true) :
    FltD.buintFromFloat F dbg w n x = .ok (zero n) ∧ FltD.bintFromFloat F dbg w n x = .ok (zero n) := by
  obtain ⟨hK1, _⟩ := flt_K_facts F w n
  obtain ⟨ru, a1, a2, a3⟩ := flt_toUint_val hF dbg (show 1 ≤ w by omega) hn hK1 hx
  obtain ⟨ri, b1, b2, b3⟩ := flt_toSint_val hF dbg hw hn hK1 hx
  unfold flt_cval at a3 b3
  rw [if_pos hnan] at a3 b3
  constructor
  · rw [a1, flt_eq_zero_of_U a2 (by omega)]
  · rw [b1, Cmp.S_injective b2 (WF_zero w n) (by rw [b3, S_zero])]
example : Spec.isNaN fmtF64.spec 0xfff8000000000001 = true ∧
    FltD.buintFromFloat fmtF64 true 16 2 0xfff8000000000001 = .ok [0, 0] ∧
    FltD.bintFromFloat fmtF64 true 16 2 0xfff8000000000001 = .ok [0, 0] := by decide

/-- SATURATION (unsigned): a non-negative non-NaN float that is `+∞` or has `⌊f⌋ ≥ 2^BITS` casts to `MAX`. -/
theorem uint_from_float_saturates {F : FloatFmt} (hF : F.Valid) (dbg : Bool) {w n : Nat} (hw : 1 ≤ w)
    (hn : 1 ≤ n) {x : Nat} (hx : x < 2 ^ F.bits) (hnan : Spec.isNaN F.spec x = false)
    (hs : signOf F.spec x = false) (hbig : Spec.isInf F.spec x = true ∨ M w n ≤ truncOf F.spec x) :
    FltD.buintFromFloat F dbg w n x = .ok (allOnes w n) := by
  obtain ⟨hK1, _⟩ := flt_K_facts F w n
  obtain ⟨r, a1, a2, a3⟩ := flt_toUint_val hF dbg hw hn hK1 hx
  have hge := flt_mag_ge hK1 hbig
  unfold flt_cval flt_smag at a3
  rw [if_neg (by simp [hnan]), hs] at a3
  simp only [Bool.false_eq_true, if_false] at a3
  rw [flt_clampU_nat (M_pos w n)] at a3
  have hU : U w r = min (flt_mag F.spec (M w n + 2 ^ F.emax) x) (M w n - 1) := by exact_mod_cast a3
  rw [a1, U_injective a2 (WF_allOnes w n) (by rw [U_allOnes, hU]; omega)]
example : M 8 2 ≤ truncOf fmtF32.spec 0x47800000 ∧
    FltD.buintFromFloat fmtF32 true 8 2 0x47800000 = .ok (allOnes 8 2) := by decide

/-- SATURATION (signed): non-NaN, `|f| = ∞` or `⌊|f|⌋ ≥ 2^(BITS-1)`: `MAX` for positive, `MIN` for negative `f`. -/
theorem int_from_float_saturates {F : FloatFmt} (hF : F.Valid) (dbg : Bool) {w n : Nat} (hw : 2 ≤ w)
    (hn : 1 ≤ n) {x : Nat} (hx : x < 2 ^ F.bits) (hnan : Spec.isNaN F.spec x = false)
    (hbig : Spec.isInf F.spec x = true ∨ M w n / 2 ≤ truncOf F.spec x) :
    FltD.bintFromFloat F dbg w n x = .ok (if signOf F.spec x then iMin w n else iMax w n) := by
  obtain ⟨hK1, _⟩ := flt_K_facts F w n
  have hw1 : 1 ≤ w := by omega
  obtain ⟨r, a1, a2, a3⟩ := flt_toSint_val hF dbg hw hn hK1 hx
  have hge := flt_mag_ge (K := M w n + 2 ^ F.emax) (t := M w n / 2) (by omega) hbig
  obtain ⟨hm2, hev⟩ := flt_M_facts hw1 hn
  unfold flt_cval flt_smag at a3
  rw [if_neg (by simp [hnan])] at a3
  rw [a1]; congr 1
  cases hs : signOf F.spec x <;> rw [hs] at a3 <;>
    simp only [Bool.false_eq_true, if_false, if_true] at a3 ⊢
  · refine Cmp.S_injective a2 (WF_iMax hw1 hn) ?_
    rw [a3, S_iMax hw1 hn]; unfold clamp minV maxV; simp only [if_true]; split_ifs <;> omega
  · refine Cmp.S_injective a2 (WF_iMin hw1 hn) ?_
    rw [a3, S_iMin hw1 hn]; unfold clamp minV maxV; simp only [if_true]; split_ifs <;> omega
example : M 8 2 / 2 ≤ truncOf fmtF32.spec 0xc7000001 ∧ signOf fmtF32.spec 0xc7000001 = true ∧
    FltD.bintFromFloat fmtF32 true 8 2 0xc7000001 = .ok (iMin 8 2) ∧
    FltD.bintFromFloat fmtF32 true 8 2 0x7f800000 = .ok (iMax 8 2) := by decide

/-! ### the order used in G2 / G5 is the numeric order of the exact values -/

/-- `flt_key` IS the numeric order: for any two patterns, `key x ≤ key y` iff the exact (scaled)
    values satisfy `value x ≤ value y` (meaningful for finite patterns; `-0.0 = +0.0`) -/
theorem float_key_le_iff_value {F : FloatFmt} (hF : F.Valid) {x y : Nat} (hx : x < 2 ^ F.bits)
    (hy : y < 2 ^ F.bits) :
    flt_key F.spec x ≤ flt_key F.spec y ↔ flt_sval F.spec x ≤ flt_sval F.spec y := by
  have h1 := flt_scaled_le_iff hF hx hy
  have h2 := flt_scaled_le_iff hF hy hx
  have hz : (0 : Nat) < 2 ^ F.bits := Nat.pow_pos (by decide)
  have h3 := flt_scaled_le_iff hF hx hz
  have h4 := flt_scaled_le_iff hF hy hz
  have h0 : flt_scaled F.spec 0 = 0 := by
    rw [flt_scaled_eq]; simp [expField, fracField]
  rw [h0] at h3 h4
  simp only [Nat.zero_mod] at h3 h4
  unfold flt_key flt_sval
  cases signOf F.spec x <;> cases signOf F.spec y <;>
    simp only [Bool.false_eq_true, if_false, if_true] <;> omega
/-- `-3.5 ≤ 2.5`; `-0.0` and `+0.0` are equal both ways; scaled values of `1.0f32`, `-3.5f32` -/
example : flt_key fmtF32.spec 0xc0600000 ≤ flt_key fmtF32.spec 0x40200000 ∧
    flt_sval fmtF32.spec 0xc0600000 ≤ flt_sval fmtF32.spec 0x40200000 ∧
    flt_key fmtF32.spec 0x80000000 = flt_key fmtF32.spec 0 ∧
    flt_sval fmtF32.spec 0x3f800000 = 2 ^ 149 ∧ flt_sval fmtF32.spec 0xc0600000 = -(7 * 2 ^ 148) := by decide

/-- G5 restated on exact values: `value f ≤ value g` (non-NaN) ⇒ `(f as BInt<N>) ≤ (g as BInt<N>)` and
    `(f as BUint<N>) ≤ (g as BUint<N>)`. -/
theorem from_float_mono_value {F : FloatFmt} (hF : F.Valid) (dbg : Bool) {w n : Nat} (hw : 2 ≤ w)
    (hn : 1 ≤ n) {x y : Nat} (hx : x < 2 ^ F.bits) (hy : y < 2 ^ F.bits)
    (hnx : Spec.isNaN F.spec x = false) (hny : Spec.isNaN F.spec y = false)
    (h : flt_sval F.spec x ≤ flt_sval F.spec y) :
    (∃ rx ry, FltD.buintFromFloat F dbg w n x = .ok rx ∧ FltD.buintFromFloat F dbg w n y = .ok ry ∧
      CmpImpl.le UI.cmp rx ry = true) ∧
    (∃ rx ry, FltD.bintFromFloat F dbg w n x = .ok rx ∧ FltD.bintFromFloat F dbg w n y = .ok ry ∧
      CmpImpl.le (II.cmp w) rx ry = true) := by
  have hk := (float_key_le_iff_value hF hx hy).2 h
  obtain ⟨rx, ry, a1, a2, _, _, _, a3⟩ := uint_from_float_mono hF dbg (show 1 ≤ w by omega) hn hx hy hnx hny hk
  obtain ⟨sx, sy, b1, b2, _, _, _, b3⟩ := int_from_float_mono hF dbg hw hn hx hy hnx hny hk
  exact ⟨⟨rx, ry, a1, a2, a3⟩, ⟨sx, sy, b1, b2, b3⟩⟩
example : flt_sval fmtF32.spec 0xc71c4000 ≤ flt_sval fmtF32.spec 0xc0600000 ∧
    CmpImpl.le (II.cmp 8) [0x00, 0x80] [0xfd, 0xff] = true := by decide

/-! ### G6. float → int and signedness -/

/-- For a float with clear sign bit (NaN included), the signed and the unsigned cast return THE SAME
    DIGITS whenever the unsigned result is below `2^(BITS-1)`; otherwise the signed one is `MAX`. -/
theorem from_float_signedness {F : FloatFmt} (hF : F.Valid) (dbg : Bool) {w n : Nat} (hw : 2 ≤ w)
    (hn : 1 ≤ n) {x : Nat} (hx : x < 2 ^ F.bits) (hs : signOf F.spec x = false) :
    ∃ ru ri, FltD.buintFromFloat F dbg w n x = .ok ru ∧ FltD.bintFromFloat F dbg w n x = .ok ri ∧
      (U w ru < M w n / 2 → ri = ru) ∧ (M w n / 2 ≤ U w ru → ri = iMax w n) := by
  obtain ⟨hK1, _⟩ := flt_K_facts F w n
  have hw1 : 1 ≤ w := by omega
  obtain ⟨ru, a1, a2, a3⟩ := flt_toUint_val hF dbg hw1 hn hK1 hx
  obtain ⟨ri, b1, b2, b3⟩ := flt_toSint_val hF dbg hw hn hK1 hx
  obtain ⟨hm2, hev⟩ := flt_M_facts hw1 hn
  refine ⟨ru, ri, a1, b1, ?_, ?_⟩
  · intro hlt
    refine Cmp.S_injective b2 a2 ?_
    rw [S_eq a2, toInt_of_lt (by omega), b3]
    unfold flt_cval flt_smag at a3 ⊢
    rw [hs] at a3 ⊢
    simp only [Bool.false_eq_true, if_false] at a3 ⊢
    split_ifs at a3 ⊢
    · omega
    · unfold clamp minV maxV at a3 ⊢
      simp only [Bool.false_eq_true, if_false, if_true] at a3 ⊢
      split_ifs at a3 ⊢ <;> omega
  · intro hge
    refine Cmp.S_injective b2 (WF_iMax hw1 hn) ?_
    rw [S_iMax hw1 hn, b3]
    unfold flt_cval flt_smag at a3 ⊢
    rw [hs] at a3 ⊢
    simp only [Bool.false_eq_true, if_false] at a3 ⊢
    split_ifs at a3 ⊢
    · omega
    · unfold clamp minV maxV at a3 ⊢
      simp only [Bool.false_eq_true, if_false, if_true] at a3 ⊢
      split_ifs at a3 ⊢ <;> omega
/-- `1234.75f32`: `u16` and `i16` digits agree; `40000.0f32`: `u16 = 40000`, `i16 = MAX` -/
example : FltD.buintFromFloat fmtF32 true 8 2 0x449a5800 = .ok [0xd2, 0x04] ∧
    FltD.bintFromFloat fmtF32 true 8 2 0x449a5800 = .ok [0xd2, 0x04] ∧
    FltD.buintFromFloat fmtF32 true 8 2 0x471c4000 = .ok [0x40, 0x9c] ∧
    FltD.bintFromFloat fmtF32 true 8 2 0x471c4000 = .ok (iMax 8 2) := by decide

/-- every float with the sign bit set (negative numbers, `-0.0`, `-∞`, negative NaNs) casts to
    `BUint::ZERO`. -/
theorem uint_from_float_negative {F : FloatFmt} (hF : F.Valid) (dbg : Bool) {w n : Nat} (hw : 1 ≤ w)
    (hn : 1 ≤ n) {x : Nat} (hx : x < 2 ^ F.bits) (hs : signOf F.spec x = true) :
    FltD.buintFromFloat F dbg w n x = .ok (zero n) := by
  obtain ⟨hK1, _⟩ := flt_K_facts F w n
  obtain ⟨r, a1, a2, a3⟩ := flt_toUint_val hF dbg hw hn hK1 hx
  rw [a1, flt_eq_zero_of_U a2]
  unfold flt_cval flt_smag at a3
  rw [hs] at a3
  simp only [if_true] at a3
  split_ifs at a3
  · omega
  · unfold clamp minV maxV at a3
    simp only [Bool.false_eq_true, if_false] at a3
    split_ifs at a3 <;> omega
example : signOf fmtF32.spec 0xc49a5800 = true ∧
    FltD.buintFromFloat fmtF32 true 8 2 0xc49a5800 = .ok (zero 2) ∧
    FltD.buintFromFloat fmtF32 true 8 2 0xff800000 = .ok (zero 2) := by decide

/-! ### G7. `as` casts from bool / char agree with the checked conversions when the value fits -/

/-- `BUint::cast_from(b) == BUint::from(b) == BUint::from_digit(b as Digit)` (C09 / C13): one digit list. -/
theorem cast_from_bool_eq_from_digit {n : Nat} (hn : 1 ≤ n) (b : Bool) :
    UI.fromBool n b = UI.castFromBool n b ∧ II.fromBool n b = II.castFromBool n b ∧
      UI.fromDigitO n b.toNat = .ok (UI.castFromBool n b) := by
  refine ⟨rfl, rfl, ?_⟩
  rw [flt_castFromBool_eq_fromDigit hn, (C13.from_digit (w := 8) hn).1]
example : UI.castFromBool 3 true = [1, 0, 0] ∧ UI.fromDigitO 3 (true).toNat = .ok [1, 0, 0] := by decide

/-- `FromPrimitive::from_<T>(b as T) == Some(cast_from(b))` for every primitive integer type `T`
    and both signednesses of the bnum type (C19 vs C09). -/
theorem cast_from_bool_eq_from_prim {w n : Nat} (hw : 2 ≤ w) (hn : 1 ≤ n) (s : Bool) (t : NumC.PrimT)
    (b : Bool) :
    NumC.fromPrim w n s t b.toNat = .ok (some (if s then II.castFromBool n b else UI.castFromBool n b)) := by
  obtain ⟨hp, hv⟩ := flt_primVal_bool t b
  obtain ⟨_, hwf, hU, hS⟩ := C13.from_bool hw hn b
  have h4 := M_ge_four hw hn
  have hb : b.toNat ≤ 1 := by cases b <;> decide
  have hspec := C19.fromPrim_spec (w := w) (n := n) s t (by omega) hn hp
  rw [hv] at hspec
  have hrep : repOf s (M w n) (b.toNat : Int) := by
    unfold repOf repS repU; cases s <;> simp only [Bool.false_eq_true, if_false, if_true] <;> omega
  rcases hspec with ⟨_, r, h1, h2, h3⟩ | ⟨hnr, _⟩
  · rw [h1]; congr 2
    cases s
    · simp only [Bool.false_eq_true, if_false]
      exact U_injective h2 hwf (by
        unfold valOf at h3; simp only [Bool.false_eq_true, if_false] at h3
        show U w r = U w (UI.fromBool n b); rw [hU]; exact_mod_cast h3)
    · simp only [if_true]
      exact Cmp.S_injective h2 hwf (by
        unfold valOf at h3; simp only [if_true] at h3
        show S w r = S w (UI.fromBool n b); rw [hS, h3])
  · exact absurd hrep hnr
example : NumC.fromPrim 8 2 true .i64 (true).toNat = .ok (some [1, 0]) ∧
    NumC.fromPrim 8 2 false .u8 (false).toNat = .ok (some [0, 0]) := by decide

/-- `BUint::cast_from(c: char)` agrees with `From<char>`, `From<u32>` (C13) and
    `FromPrimitive::from_u32` (C19) on the code point, whenever it fits the target (`c < 2^BITS`). -/
theorem cast_from_char_eq_from_u32 {w n c : Nat} (hw : 1 ≤ w) (hn : 1 ≤ n) (hc : c < B 32)
    (hfit : c < M w n) :
    ∃ r, UI.castFromChar w n c = .ok r ∧ UI.fromChar w n c = .ok r ∧ UI.fromUint w n 32 c = .ok r ∧
      NumC.fromPrim w n false .u32 c = .ok (some r) ∧ WF w n r ∧ U w r = c := by
  obtain ⟨r, h1, h2, h3⟩ := (C09.cast_from_char (w := w) hn hc).1
  rw [wrapU_natCast, Nat.mod_eq_of_lt hfit] at h3
  obtain ⟨r', g1, g2, g3⟩ := C13.from_uint (n := n) hw hc hfit
  have hspec := C19.fromPrim_spec (w := w) (n := n) false .u32 hw hn (show c < B (NumC.PrimT.u32).ty.bits from hc)
  have hv : PInt.val (NumC.PrimT.u32).ty c = (c : Int) := rfl
  rw [hv] at hspec
  refine ⟨r, h1, h1, ?_, ?_, h2, h3⟩
  · rw [g1]; congr 1
    exact U_injective g2 h2 (by
      unfold valOf at g3; simp only [Bool.false_eq_true, if_false] at g3
      rw [h3]; exact_mod_cast g3)
  · rcases hspec with ⟨_, r'', k1, k2, k3⟩ | ⟨hnr, _⟩
    · rw [k1]; congr 2
      exact U_injective k2 h2 (by
        unfold valOf at k3; simp only [Bool.false_eq_true, if_false] at k3
        rw [h3]; exact_mod_cast k3)
    · exact absurd (show repOf false (M w n) (c : Int) by unfold repOf repU; simp; omega) hnr
example : (0x10ffff : Nat) < B 32 ∧ 0x10ffff < M 8 3 ∧ UI.castFromChar 8 3 0x10ffff = .ok [0xff, 0xff, 0x10] ∧
    UI.fromUint 8 3 32 0x10ffff = .ok [0xff, 0xff, 0x10] ∧
    NumC.fromPrim 8 3 false .u32 0x10ffff = .ok (some [0xff, 0xff, 0x10]) := by decide

/-- without `c < 2^BITS` the three differ: the `as` cast wraps, `from_u32` is `None`, `From<u32>` panics -/
theorem cast_from_char_counterexample :
    UI.castFromChar 8 1 0x141 = .ok [0x41] ∧ NumC.fromPrim 8 1 false .u32 0x141 = .ok none ∧
    UI.fromUint 8 1 32 0x141 = .panic := by decide

/-- a code point below the digit base: `cast_from(c) == from_digit(c as Digit)`. -/
theorem cast_from_char_eq_from_digit {w n c : Nat} (hn : 1 ≤ n) (hc : c < B 32) (hd : c < B w) :
    UI.castFromChar w n c = UI.fromDigitO n c ∧ UI.fromDigitO n c = .ok (fromDigit n c) := by
  obtain ⟨r, h1, h2, h3⟩ := (C09.cast_from_char (w := w) hn hc).1
  have hM := flt_B_le_M (w := w) hn
  rw [wrapU_natCast, Nat.mod_eq_of_lt (by omega)] at h3
  have hfd := (C13.from_digit (w := w) (d := c) hn).1
  refine ⟨?_, hfd⟩
  rw [hfd, h1]; congr 1
  exact U_injective h2 (WF_fromDigit hn hd) (by rw [h3, U_fromDigit c hn])
example : (0x20ac : Nat) < B 32 ∧ 0x20ac < B 16 ∧ UI.castFromChar 16 2 0x20ac = .ok [0x20ac, 0] ∧
    UI.fromDigitO 2 0x20ac = .ok [0x20ac, 0] := by decide

/-! ### G8. further int → float laws: constants, powers of two, width / digit-type independence -/

/-- `ZERO as f == +0.0` (pattern `0`), signed and unsigned. -/
theorem float_from_zero {F : FloatFmt} (hF : F.Valid) {s : Nat} (hs1 : 1 ≤ s) (hs : s < 32) {n : Nat}
    (hn : 1 ≤ n) (dbg : Bool) :
    FltD.floatFromBUint F dbg (2 ^ s) (zero n) = .ok (Flt.zero F) ∧
      FltD.floatFromBInt F dbg (2 ^ s) (zero n) = .ok (Flt.zero F) := by
  constructor
  · rw [C14.floatFromUint_specD hF hs dbg (WF_zero _ n), U_zero, flt_natToFloat_zero]; rfl
  · rw [C14.floatFromInt_specD hF hs1 hs hn dbg (WF_zero _ n), S_zero]
    exact congrArg _ (by
      have := flt_intToFloat_nat F.spec 0
      rw [flt_natToFloat_zero] at this; exact this)
example : FltD.floatFromBUint fmtF64 true (2 ^ 3) (zero 3) = .ok 0 ∧
    FltD.floatFromBInt fmtF64 false (2 ^ 4) (zero 2) = .ok 0 := by decide

/-- `ONE as f == 1.0`: zero fraction, exponent field = the bias (`0x3f800000` / `0x3ff0000000000000`). -/
theorem float_from_one {F : FloatFmt} (hF : F.Valid) {s : Nat} (hs1 : 1 ≤ s) (hs : s < 32) {n : Nat}
    (hn : 1 ≤ n) (dbg : Bool) :
    FltD.floatFromBUint F dbg (2 ^ s) (one n) = .ok ((F.emax - 1) * 2 ^ (F.p - 1)) ∧
      FltD.floatFromBInt F dbg (2 ^ s) (one n) = .ok ((F.emax - 1) * 2 ^ (F.p - 1)) := by
  have hw2 := flt_two_le_pow hs1
  have hwf : WF (2 ^ s) n (one n) := WF_one (by omega) hn
  constructor
  · rw [C14.floatFromUint_specD hF hs dbg hwf, U_one hn, flt_natToFloat_one hF]
  · rw [C14.floatFromInt_specD hF hs1 hs hn dbg hwf, S_one hw2 hn]
    exact congrArg _ (by
      have := flt_intToFloat_nat F.spec 1
      rw [flt_natToFloat_one hF] at this; exact this)
example : FltD.floatFromBUint fmtF32 true (2 ^ 3) (one 3) = .ok 0x3f800000 ∧
    (fmtF32.emax - 1) * 2 ^ (fmtF32.p - 1) = 0x3f800000 ∧
    (fmtF64.emax - 1) * 2 ^ (fmtF64.p - 1) = 0x3ff0000000000000 := by decide

/-- `(b as BUint<N>) as f == if b { 1.0 } else { 0.0 }` (C09 bool cast, then C14). -/
theorem float_from_bool {F : FloatFmt} (hF : F.Valid) {s : Nat} (hs1 : 1 ≤ s) (hs : s < 32) {n : Nat}
    (hn : 1 ≤ n) (dbg : Bool) (b : Bool) :
    FltD.floatFromBUint F dbg (2 ^ s) (UI.castFromBool n b) =
      .ok (if b then (F.emax - 1) * 2 ^ (F.p - 1) else Flt.zero F) := by
  cases b
  · exact (float_from_zero hF hs1 hs hn dbg).1
  · exact (float_from_one hF hs1 hs hn dbg).1
example : FltD.floatFromBUint fmtF32 true (2 ^ 3) (UI.castFromBool 2 true) = .ok 0x3f800000 := by decide

/-- `BUint::power_of_two(k) as f` is the float `2^k`: ZERO FRACTION and biased exponent `k + emax - 1`
    (so the unbiased exponent is `k`); `+∞` once `k ≥ emax` (C06 `power_of_two`, then C14). -/
theorem float_from_power_of_two {F : FloatFmt} (hF : F.Valid) {s : Nat} (hs : s < 32) {n k : Nat}
    (hk : k < 2 ^ s * n) (dbg : Bool) :
    ∃ r, UI.powerOfTwo (2 ^ s) n k = .ok r ∧
      FltD.floatFromBUint F dbg (2 ^ s) r =
        .ok (if k < F.emax then (k + F.emax - 1) * 2 ^ (F.p - 1) else infinity F) := by
  obtain ⟨r, h1, h2, h3⟩ := (C06.power_of_two_spec hs n k).2 hk
  refine ⟨r, h1, ?_⟩
  rw [C14.floatFromUint_specD hF hs dbg h2, h3, flt_natToFloat_pow2 hF, infinity_eq hF]
example : UI.powerOfTwo (2 ^ 3) 3 19 = .ok [0, 0, 8] ∧
    FltD.floatFromBUint fmtF32 true (2 ^ 3) [0, 0, 8] = .ok 0x49000000 ∧
    (19 + fmtF32.emax - 1) * 2 ^ (fmtF32.p - 1) = 0x49000000 := by decide

/-- WIDTH / DIGIT-TYPE / BUILD-MODE INDEPENDENCE (unsigned): two unsigned bnum integers of any two
    types with the same value cast to the same float. -/
theorem float_from_uint_indep {F : FloatFmt} (hF : F.Valid) {s n s' n' : Nat} (hs : s < 32)
    (hs' : s' < 32) (dbg dbg' : Bool) {a b : List Nat} (ha : WF (2 ^ s) n a) (hb : WF (2 ^ s') n' b)
    (h : U (2 ^ s) a = U (2 ^ s') b) :
    FltD.floatFromBUint F dbg (2 ^ s) a = FltD.floatFromBUint F dbg' (2 ^ s') b := by
  rw [C14.floatFromUint_specD hF hs dbg ha, C14.floatFromUint_specD hF hs' dbg' hb, h]
example : U (2 ^ 3) [0x34, 0x12, 0xcd] = U (2 ^ 4) [0x1234, 0xcd, 0] ∧
    FltD.floatFromBUint fmtF32 true (2 ^ 3) [0x34, 0x12, 0xcd] =
      FltD.floatFromBUint fmtF32 false (2 ^ 4) [0x1234, 0xcd, 0] := by decide

/-- … in particular the float cast commutes with any value-preserving `As` cast between unsigned
    bnum types (zero-extension into a wider type, or a change of digit type; C09 `castBnum`):
    `(x as BUint<N'>) as f == x as f` whenever `x < 2^BITS'`. -/
theorem float_from_uint_cast {F : FloatFmt} (hF : F.Valid) {s n s' n' : Nat} (hs : s < 32)
    (hs' : s' < 32) (hn : 1 ≤ n) (hn' : 1 ≤ n') (dbg dbg' : Bool) {a : List Nat} (ha : WF (2 ^ s) n a)
    (hfit : U (2 ^ s) a < M (2 ^ s') n') :
    ∃ b, castBnum (2 ^ s) false a (2 ^ s') n' false = .ok b ∧
      FltD.floatFromBUint F dbg' (2 ^ s') b = FltD.floatFromBUint F dbg (2 ^ s) a := by
  obtain ⟨b, h1, h2, h3⟩ := C09.cast_bnum_value (n₂ := n') false false (Nat.pow_pos (by decide))
    (Nat.pow_pos (by decide)) hn hn' (flt_pow_dvd_total s s') ha
    (by unfold valOf repU; simp only [Bool.false_eq_true, if_false]; omega)
  refine ⟨b, h1, (float_from_uint_indep hF hs hs' dbg dbg' ha h2 ?_).symm⟩
  unfold valOf at h3; simp only [Bool.false_eq_true, if_false] at h3
  exact_mod_cast h3.symm
example : castBnum (2 ^ 3) false [0x34, 0x12, 0xcd] (2 ^ 4) 3 false = .ok [0x1234, 0xcd, 0] := by decide

/-- WIDTH / DIGIT-TYPE INDEPENDENCE (signed), e.g. across sign extension. -/
theorem float_from_int_indep {F : FloatFmt} (hF : F.Valid) {s n s' n' : Nat} (hs1 : 1 ≤ s) (hs : s < 32)
    (hn : 1 ≤ n) (hs1' : 1 ≤ s') (hs' : s' < 32) (hn' : 1 ≤ n') (dbg dbg' : Bool) {a b : List Nat}
    (ha : WF (2 ^ s) n a) (hb : WF (2 ^ s') n' b) (h : S (2 ^ s) a = S (2 ^ s') b) :
    FltD.floatFromBInt F dbg (2 ^ s) a = FltD.floatFromBInt F dbg' (2 ^ s') b := by
  rw [C14.floatFromInt_specD hF hs1 hs hn dbg ha, C14.floatFromInt_specD hF hs1' hs' hn' dbg' hb, h]
example : S (2 ^ 3) [0x34, 0x80] = S (2 ^ 4) [0x8034, 0xffff] ∧
    FltD.floatFromBInt fmtF32 true (2 ^ 3) [0x34, 0x80] =
      FltD.floatFromBInt fmtF32 true (2 ^ 4) [0x8034, 0xffff] := by decide

/-- `(x as BInt<N'>) as f == x as f` for signed `x` representable in `BInt<N'>` (sign extension, or a
    change of digit type). -/
theorem float_from_int_cast {F : FloatFmt} (hF : F.Valid) {s n s' n' : Nat} (hs1 : 1 ≤ s) (hs : s < 32)
    (hn : 1 ≤ n) (hs1' : 1 ≤ s') (hs' : s' < 32) (hn' : 1 ≤ n') (dbg dbg' : Bool) {a : List Nat}
    (ha : WF (2 ^ s) n a) (hfit : repS (M (2 ^ s') n') (S (2 ^ s) a)) :
    ∃ b, castBnum (2 ^ s) true a (2 ^ s') n' true = .ok b ∧
      FltD.floatFromBInt F dbg' (2 ^ s') b = FltD.floatFromBInt F dbg (2 ^ s) a := by
  obtain ⟨b, h1, h2, h3⟩ := C09.cast_bnum_value (n₂ := n') true true (Nat.pow_pos (by decide))
    (Nat.pow_pos (by decide)) hn hn' (flt_pow_dvd_total s s') ha
    (by unfold valOf; simpa using hfit)
  refine ⟨b, h1, (float_from_int_indep hF hs1 hs hn hs1' hs' hn' dbg dbg' ha h2 ?_).symm⟩
  unfold valOf at h3; simp only [if_true] at h3
  exact h3.symm
example : castBnum (2 ^ 3) true [0x34, 0x80] (2 ^ 4) 2 true = .ok [0x8034, 0xffff] := by decide

/-- a non-negative `BInt` casts to the same float as its bits read as a `BUint`
    (`x as f == x.cast_unsigned() as f` for `x ≥ 0`). -/
theorem float_from_int_nonneg {F : FloatFmt} (hF : F.Valid) {s n : Nat} (hs1 : 1 ≤ s) (hs : s < 32)
    (hn : 1 ≤ n) (dbg dbg' : Bool) {a : List Nat} (ha : WF (2 ^ s) n a) (hnn : isNegative (2 ^ s) a = false) :
    FltD.floatFromBInt F dbg (2 ^ s) a = FltD.floatFromBUint F dbg' (2 ^ s) (II.castUnsigned a) := by
  have h0 : 0 ≤ S (2 ^ s) a := by
    have := (C07.is_negative_iff (Nat.pow_pos (by decide)) hn ha)
    by_contra hc
    rw [this.2 (by omega)] at hnn; cases hnn
  show _ = FltD.floatFromBUint F dbg' (2 ^ s) a
  rw [C14.floatFromInt_specD hF hs1 hs hn dbg ha, C14.floatFromUint_specD hF hs dbg' ha,
    S_of_nonneg ha h0, flt_intToFloat_nat]
example : isNegative (2 ^ 3) [0xff, 0x7f] = false ∧
    FltD.floatFromBInt fmtF32 true (2 ^ 3) [0xff, 0x7f] = FltD.floatFromBUint fmtF32 true (2 ^ 3) [0xff, 0x7f] := by
  decide

/-- an unsigned integer of fewer than `emax` bits never overflows to `+∞` (u64 → f32, u512 → f64, …);
    the bound is sharp: `u128::MAX as f32 == +∞`. -/
theorem float_from_uint_finite {F : FloatFmt} (hF : F.Valid) {s n : Nat} (hs : s < 32) (dbg : Bool)
    {a : List Nat} (ha : WF (2 ^ s) n a) (hW : 2 ^ s * n < F.emax) :
    ∃ f, FltD.floatFromBUint F dbg (2 ^ s) a = .ok f ∧ f < infinity F := by
  refine ⟨_, C14.floatFromUint_specD hF hs dbg ha, ?_⟩
  have hp := hF.hp
  have hle := natToFloat_le hF (U (2 ^ s) a)
  rw [infinity_eq hF]
  have hfin : rne F.p (U (2 ^ s) a) < 2 ^ F.emax := by
    by_cases h0 : U (2 ^ s) a = 0
    · rw [h0]; have : rne F.p 0 = 0 := by simp [rne, size]
      rw [this]; exact Nat.pow_pos (by decide)
    · have h1 := (Flt.rne_bounds (p := F.p) (by omega) h0).2
      have h2 : size (U (2 ^ s) a) ≤ 2 ^ s * n := Flt.size_le_iff.2 (U_lt ha)
      have h3 : 2 ^ size (U (2 ^ s) a) < 2 ^ F.emax := Nat.pow_lt_pow_right (by decide) (by omega)
      omega
  have hni := ((flt_natToFloat_dec hF (U (2 ^ s) a)).2.2.1 hfin).1
  rcases Nat.lt_or_ge (natToFloat F.spec (U (2 ^ s) a)) (posInf F.spec) with h | h
  · exact h
  · have : natToFloat F.spec (U (2 ^ s) a) = posInf F.spec := by omega
    rw [this, (flt_posInf_dec hF).2] at hni; cases hni
example : 2 ^ 3 * 8 < fmtF32.emax ∧
    FltD.floatFromBUint fmtF32 true (2 ^ 3) (allOnes (2 ^ 3) 8) = .ok 0x5f800000 ∧
    0x5f800000 < infinity fmtF32 := by decide
theorem float_from_uint_finite_counterexample :
    FltD.floatFromBUint fmtF32 true (2 ^ 3) (allOnes (2 ^ 3) 16) = .ok (infinity fmtF32) := by decide

end Floats

section Arith
open Bnum.Laws

variable {w n w₁ n₁ w₂ n₂ w₃ n₃ : Nat} {x a b : List Nat}

/-! ## H. checked arithmetic is exact arithmetic in a wider type followed by `try_from`
    (C01 / C02 × C09 × C13)

  `a.checked_op(b) == Narrow::try_from((a as Wide) op (b as Wide)).ok()` for every wide type with
  one more bit (add, sub, neg, abs) resp. twice the bits (mul), any digit types.  The equations are
  between `Outcome (Option _)` values, so they also say the right-hand side never panics. -/

/-- `BUint::checked_add` via any unsigned type with at least one more bit -/
theorem u_checked_add_via_wide (d : Dims w₁ n₁ w₂ n₂) (hW : w₁ * n₁ + 1 ≤ w₂ * n₂)
    (ha : WF w₁ n₁ a) (hb : WF w₁ n₁ b) :
    (map₂ (UI.wrappingAdd w₂) (castBnum w₁ false a w₂ n₂ false) (castBnum w₁ false b w₂ n₂ false)).bind
      (fun r => btryFrom w₂ false r w₁ n₁ false) = .ok (UI.checkedAdd w₁ a b) := by
  obtain ⟨a', ha', ra⟩ := cast_ok d false false ha
  obtain ⟨b', hb', rb⟩ := cast_ok d false false hb
  rw [ha', hb', map₂_ok, bind_ok]
  have ra' : Rep w₂ n₂ a' (U w₁ a : Int) := ra
  have rb' : Rep w₂ n₂ b' (U w₁ b : Int) := rb
  refine checked_eq_wide_u (s₂ := false) d.symm (C01.u_checked_add ha hb) (rep_add ra' rb') ?_
  have := U_lt ha; have := U_lt hb; have := two_M_le hW
  simp only [repOf, repU, Bool.false_eq_true, if_false]; constructor <;> omega
example : Dims 8 2 16 2 ∧
    (map₂ (UI.wrappingAdd 16) (castBnum 8 false [200, 255] 16 2 false) (castBnum 8 false [100, 0] 16 2 false)).bind
      (fun r => btryFrom 16 false r 8 2 false) = .ok (UI.checkedAdd 8 [200, 255] [100, 0]) ∧
    UI.checkedAdd 8 [200, 255] [100, 0] = none ∧
    (map₂ (UI.wrappingAdd 16) (castBnum 8 false [200, 25] 16 2 false) (castBnum 8 false [100, 0] 16 2 false)).bind
      (fun r => btryFrom 16 false r 8 2 false) = .ok (UI.checkedAdd 8 [200, 25] [100, 0]) := by decide

/-- `BUint::checked_sub` via any SIGNED type with at least one more bit -/
theorem u_checked_sub_via_wide (d : Dims w₁ n₁ w₂ n₂) (hW : w₁ * n₁ + 1 ≤ w₂ * n₂)
    (ha : WF w₁ n₁ a) (hb : WF w₁ n₁ b) :
    (map₂ (II.wrappingSub w₂) (castBnum w₁ false a w₂ n₂ true) (castBnum w₁ false b w₂ n₂ true)).bind
      (fun r => btryFrom w₂ true r w₁ n₁ false) = .ok (UI.checkedSub w₁ a b) := by
  obtain ⟨a', ha', ra⟩ := cast_ok d false true ha
  obtain ⟨b', hb', rb⟩ := cast_ok d false true hb
  rw [ha', hb', map₂_ok, bind_ok]
  have ra' : Rep w₂ n₂ a' (U w₁ a : Int) := ra
  have rb' : Rep w₂ n₂ b' (U w₁ b : Int) := rb
  refine checked_eq_wide_u (s₂ := true) d.symm (C01.u_checked_sub ha hb) (rep_sub ra' rb') ?_
  have := U_lt ha; have := U_lt hb; have := two_M_le hW
  simp only [repOf, repS, if_true]; constructor <;> omega
example : (map₂ (II.wrappingSub 16) (castBnum 8 false [100, 0] 16 2 true) (castBnum 8 false [200, 255] 16 2 true)).bind
      (fun r => btryFrom 16 true r 8 2 false) = .ok (UI.checkedSub 8 [100, 0] [200, 255]) ∧
    UI.checkedSub 8 [100, 0] [200, 255] = none ∧
    (map₂ (II.wrappingSub 16) (castBnum 8 false [100, 7] 16 2 true) (castBnum 8 false [200, 2] 16 2 true)).bind
      (fun r => btryFrom 16 true r 8 2 false) = .ok (UI.checkedSub 8 [100, 7] [200, 2]) := by decide

/-- `BUint::checked_mul` via any unsigned type with at least twice the bits -/
theorem u_checked_mul_via_wide (d : Dims w₁ n₁ w₂ n₂) (hW : 2 * (w₁ * n₁) ≤ w₂ * n₂)
    (ha : WF w₁ n₁ a) (hb : WF w₁ n₁ b) :
    (map₂ (UI.wrappingMul w₂) (castBnum w₁ false a w₂ n₂ false) (castBnum w₁ false b w₂ n₂ false)).bind
      (fun r => btryFrom w₂ false r w₁ n₁ false) = .ok (UI.checkedMul w₁ a b) := by
  obtain ⟨a', ha', ra⟩ := cast_ok d false false ha
  obtain ⟨b', hb', rb⟩ := cast_ok d false false hb
  rw [ha', hb', map₂_ok, bind_ok]
  have ra' : Rep w₂ n₂ a' (U w₁ a : Int) := ra
  have rb' : Rep w₂ n₂ b' (U w₁ b : Int) := rb
  refine checked_eq_wide_u (s₂ := false) d.symm (C02.u_checked_mul ha hb) (rep_mul ra' rb') ?_
  have h1 := U_lt ha; have h2 := U_lt hb; have h3 := M_sq_le hW
  have h4 : U w₁ a * U w₁ b < M w₁ n₁ * M w₁ n₁ := Nat.mul_lt_mul'' h1 h2
  simp only [repOf, repU, Bool.false_eq_true, if_false]
  constructor
  · positivity
  · exact_mod_cast Nat.lt_of_lt_of_le h4 h3
example : (map₂ (UI.wrappingMul 16) (castBnum 8 false [200, 1] 16 2 false) (castBnum 8 false [100, 2] 16 2 false)).bind
      (fun r => btryFrom 16 false r 8 2 false) = .ok (UI.checkedMul 8 [200, 1] [100, 2]) ∧
    UI.checkedMul 8 [200, 1] [100, 2] = none ∧
    (map₂ (UI.wrappingMul 16) (castBnum 8 false [200, 0] 16 2 false) (castBnum 8 false [100, 0] 16 2 false)).bind
      (fun r => btryFrom 16 false r 8 2 false) = .ok (UI.checkedMul 8 [200, 0] [100, 0]) := by decide

/-- `BInt::checked_add` / `checked_sub` via any signed type with at least one more bit -/
theorem i_checked_add_via_wide (d : Dims w₁ n₁ w₂ n₂) (hw₁ : 2 ≤ w₁) (hW : w₁ * n₁ + 1 ≤ w₂ * n₂)
    (ha : WF w₁ n₁ a) (hb : WF w₁ n₁ b) :
    (map₂ (II.wrappingAdd w₂) (castBnum w₁ true a w₂ n₂ true) (castBnum w₁ true b w₂ n₂ true)).bind
      (fun r => btryFrom w₂ true r w₁ n₁ true) = .ok (II.checkedAdd w₁ a b) := by
  obtain ⟨a', ha', ra⟩ := cast_ok d true true ha
  obtain ⟨b', hb', rb⟩ := cast_ok d true true hb
  rw [ha', hb', map₂_ok, bind_ok]
  have ra' : Rep w₂ n₂ a' (S w₁ a) := ra
  have rb' : Rep w₂ n₂ b' (S w₁ b) := rb
  refine checked_eq_wide_i (s₂ := true) d.symm (C01.i_checked_add hw₁ d.hn₁ ha hb) (rep_add ra' rb') ?_
  have h1 := repOf_valOf true d.hw₁ d.hn₁ ha; have h2 := repOf_valOf true d.hw₁ d.hn₁ hb
  have := two_M_le hW
  simp only [repOf, valOf, repS, if_true] at h1 h2 ⊢; constructor <;> omega
theorem i_checked_sub_via_wide (d : Dims w₁ n₁ w₂ n₂) (hw₁ : 2 ≤ w₁) (hW : w₁ * n₁ + 1 ≤ w₂ * n₂)
    (ha : WF w₁ n₁ a) (hb : WF w₁ n₁ b) :
    (map₂ (II.wrappingSub w₂) (castBnum w₁ true a w₂ n₂ true) (castBnum w₁ true b w₂ n₂ true)).bind
      (fun r => btryFrom w₂ true r w₁ n₁ true) = .ok (II.checkedSub w₁ a b) := by
  obtain ⟨a', ha', ra⟩ := cast_ok d true true ha
  obtain ⟨b', hb', rb⟩ := cast_ok d true true hb
  rw [ha', hb', map₂_ok, bind_ok]
  have ra' : Rep w₂ n₂ a' (S w₁ a) := ra
  have rb' : Rep w₂ n₂ b' (S w₁ b) := rb
  refine checked_eq_wide_i (s₂ := true) d.symm (C01.i_checked_sub hw₁ d.hn₁ ha hb) (rep_sub ra' rb') ?_
  have h1 := repOf_valOf true d.hw₁ d.hn₁ ha; have h2 := repOf_valOf true d.hw₁ d.hn₁ hb
  have := two_M_le hW
  simp only [repOf, valOf, repS, if_true] at h1 h2 ⊢; constructor <;> omega
example : (map₂ (II.wrappingAdd 16) (castBnum 8 true [255, 127] 16 2 true) (castBnum 8 true [5, 0] 16 2 true)).bind
      (fun r => btryFrom 16 true r 8 2 true) = .ok (II.checkedAdd 8 [255, 127] [5, 0]) ∧
    II.checkedAdd 8 [255, 127] [5, 0] = none ∧
    (map₂ (II.wrappingSub 16) (castBnum 8 true [200, 255] 16 2 true) (castBnum 8 true [5, 0] 16 2 true)).bind
      (fun r => btryFrom 16 true r 8 2 true) = .ok (II.checkedSub 8 [200, 255] [5, 0]) ∧
    II.checkedSub 8 [200, 255] [5, 0] = some [195, 255] := by decide

/-- `BInt::checked_mul` via any signed type with at least twice the bits -/
theorem i_checked_mul_via_wide (d : Dims w₁ n₁ w₂ n₂) (hw₁ : 2 ≤ w₁) (hW : 2 * (w₁ * n₁) ≤ w₂ * n₂)
    (ha : WF w₁ n₁ a) (hb : WF w₁ n₁ b) :
    (map₂ (II.wrappingMul w₂) (castBnum w₁ true a w₂ n₂ true) (castBnum w₁ true b w₂ n₂ true)).bind
      (fun r => btryFrom w₂ true r w₁ n₁ true) = .ok (II.checkedMul w₁ a b) := by
  obtain ⟨a', ha', ra⟩ := cast_ok d true true ha
  obtain ⟨b', hb', rb⟩ := cast_ok d true true hb
  rw [ha', hb', map₂_ok, bind_ok]
  have ra' : Rep w₂ n₂ a' (S w₁ a) := ra
  have rb' : Rep w₂ n₂ b' (S w₁ b) := rb
  refine checked_eq_wide_i (s₂ := true) d.symm (C02.i_checked_mul hw₁ d.hn₁ ha hb) (rep_mul ra' rb') ?_
  have h1 := repOf_valOf true d.hw₁ d.hn₁ ha; have h2 := repOf_valOf true d.hw₁ d.hn₁ hb
  have h3 : ((M w₁ n₁ : Int)) * M w₁ n₁ ≤ M w₂ n₂ := by exact_mod_cast M_sq_le hW
  have h0 : (0 : Int) < M w₁ n₁ := by exact_mod_cast M_pos w₁ n₁
  simp only [repOf, valOf, repS, if_true] at h1 h2 ⊢
  generalize (M w₁ n₁ : Int) = h at *; generalize (M w₂ n₂ : Int) = m at *
  generalize S w₁ a = p at *; generalize S w₁ b = q at *
  constructor
  · nlinarith [mul_nonneg (show 0 ≤ 2 * p + h by omega) (show 0 ≤ 2 * q + h by omega),
      mul_nonneg (show 0 ≤ h - 2 * p by omega) (show 0 ≤ h - 2 * q by omega)]
  · nlinarith [mul_nonneg (show 0 ≤ 2 * p + h by omega) (show 0 ≤ h - 2 * q by omega),
      mul_nonneg (show 0 ≤ h - 2 * p by omega) (show 0 ≤ 2 * q + h by omega)]
example : (map₂ (II.wrappingMul 16) (castBnum 8 true [0, 128] 16 2 true) (castBnum 8 true [255, 255] 16 2 true)).bind
      (fun r => btryFrom 16 true r 8 2 true) = .ok (II.checkedMul 8 [0, 128] [255, 255]) ∧
    II.checkedMul 8 [0, 128] [255, 255] = none ∧
    (map₂ (II.wrappingMul 16) (castBnum 8 true [200, 255] 16 2 true) (castBnum 8 true [100, 0] 16 2 true)).bind
      (fun r => btryFrom 16 true r 8 2 true) = .ok (II.checkedMul 8 [200, 255] [100, 0]) := by decide

/-- `BInt::checked_neg` via any signed type with at least one more bit (`-MIN` overflows) -/
theorem i_checked_neg_via_wide (d : Dims w₁ n₁ w₂ n₂) (hw₁ : 2 ≤ w₁) (hw₂ : 2 ≤ w₂)
    (hW : w₁ * n₁ + 1 ≤ w₂ * n₂) (ha : WF w₁ n₁ a) :
    ((castBnum w₁ true a w₂ n₂ true).map (II.wrappingNeg w₂)).bind
      (fun r => btryFrom w₂ true r w₁ n₁ true) = .ok (II.checkedNeg w₁ a) := by
  obtain ⟨a', ha', ra⟩ := cast_ok d true true ha
  rw [ha', map_ok, bind_ok]
  have ra' : Rep w₂ n₂ a' (S w₁ a) := ra
  refine checked_eq_wide_i (s₂ := true) d.symm (C01.i_checked_neg hw₁ d.hn₁ ha) (rep_ineg hw₂ d.hn₂ ra') ?_
  have h1 := repOf_valOf true d.hw₁ d.hn₁ ha
  have := two_M_le hW
  simp only [repOf, valOf, repS, if_true] at h1 ⊢; constructor <;> omega
example : ((castBnum 8 true [0, 128] 16 2 true).map (II.wrappingNeg 16)).bind
      (fun r => btryFrom 16 true r 8 2 true) = .ok (II.checkedNeg 8 [0, 128]) ∧
    II.checkedNeg 8 [0, 128] = none ∧
    ((castBnum 8 true [1, 128] 16 2 true).map (II.wrappingNeg 16)).bind
      (fun r => btryFrom 16 true r 8 2 true) = .ok (II.checkedNeg 8 [1, 128]) := by decide

/-- mixed signedness: `BUint::checked_add_signed(a, b: BInt)` and `BInt::checked_add_unsigned /
    checked_sub_unsigned(a, b: BUint)` via a signed type with at least two more bits -/
theorem u_checked_add_signed_via_wide (d : Dims w₁ n₁ w₂ n₂) (hW : w₁ * n₁ + 2 ≤ w₂ * n₂)
    (ha : WF w₁ n₁ a) (hb : WF w₁ n₁ b) :
    (map₂ (II.wrappingAdd w₂) (castBnum w₁ false a w₂ n₂ true) (castBnum w₁ true b w₂ n₂ true)).bind
      (fun r => btryFrom w₂ true r w₁ n₁ false) = .ok (UI.checkedAddSigned w₁ a b) := by
  obtain ⟨a', ha', ra⟩ := cast_ok d false true ha
  obtain ⟨b', hb', rb⟩ := cast_ok d true true hb
  rw [ha', hb', map₂_ok, bind_ok]
  have ra' : Rep w₂ n₂ a' (U w₁ a : Int) := ra
  have rb' : Rep w₂ n₂ b' (S w₁ b) := rb
  refine checked_eq_wide_u (s₂ := true) d.symm (C01.u_checked_add_signed d.hw₁ d.hn₁ ha hb)
    (rep_add ra' rb') ?_
  have := U_lt ha; have h2 := repOf_valOf true d.hw₁ d.hn₁ hb
  have := two_M_le (show w₁ * n₁ + 1 ≤ w₂ * n₂ by omega)
  have h4 : 4 * M w₁ n₁ ≤ M w₂ n₂ := by
    unfold M; rw [show 4 = 2 ^ 2 from rfl, ← Nat.pow_add]
    exact Nat.pow_le_pow_right (by decide) (by omega)
  simp only [repOf, valOf, repS, if_true] at h2 ⊢; constructor <;> omega
theorem i_checked_add_unsigned_via_wide (d : Dims w₁ n₁ w₂ n₂) (hw₁ : 2 ≤ w₁)
    (hW : w₁ * n₁ + 2 ≤ w₂ * n₂) (ha : WF w₁ n₁ a) (hb : WF w₁ n₁ b) :
    (map₂ (II.wrappingAdd w₂) (castBnum w₁ true a w₂ n₂ true) (castBnum w₁ false b w₂ n₂ true)).bind
      (fun r => btryFrom w₂ true r w₁ n₁ true) = .ok (II.checkedAddUnsigned w₁ a b) := by
  obtain ⟨a', ha', ra⟩ := cast_ok d true true ha
  obtain ⟨b', hb', rb⟩ := cast_ok d false true hb
  rw [ha', hb', map₂_ok, bind_ok]
  have ra' : Rep w₂ n₂ a' (S w₁ a) := ra
  have rb' : Rep w₂ n₂ b' (U w₁ b : Int) := rb
  refine checked_eq_wide_i (s₂ := true) d.symm (C01.i_checked_add_unsigned hw₁ d.hn₁ ha hb)
    (rep_add ra' rb') ?_
  have := U_lt hb; have h2 := repOf_valOf true d.hw₁ d.hn₁ ha
  have h4 : 4 * M w₁ n₁ ≤ M w₂ n₂ := by
    unfold M; rw [show 4 = 2 ^ 2 from rfl, ← Nat.pow_add]
    exact Nat.pow_le_pow_right (by decide) (by omega)
  simp only [repOf, valOf, repS, if_true] at h2 ⊢; constructor <;> omega
theorem i_checked_sub_unsigned_via_wide (d : Dims w₁ n₁ w₂ n₂) (hw₁ : 2 ≤ w₁)
    (hW : w₁ * n₁ + 2 ≤ w₂ * n₂) (ha : WF w₁ n₁ a) (hb : WF w₁ n₁ b) :
    (map₂ (II.wrappingSub w₂) (castBnum w₁ true a w₂ n₂ true) (castBnum w₁ false b w₂ n₂ true)).bind
      (fun r => btryFrom w₂ true r w₁ n₁ true) = .ok (II.checkedSubUnsigned w₁ a b) := by
  obtain ⟨a', ha', ra⟩ := cast_ok d true true ha
  obtain ⟨b', hb', rb⟩ := cast_ok d false true hb
  rw [ha', hb', map₂_ok, bind_ok]
  have ra' : Rep w₂ n₂ a' (S w₁ a) := ra
  have rb' : Rep w₂ n₂ b' (U w₁ b : Int) := rb
  refine checked_eq_wide_i (s₂ := true) d.symm (C01.i_checked_sub_unsigned hw₁ d.hn₁ ha hb)
    (rep_sub ra' rb') ?_
  have := U_lt hb; have h2 := repOf_valOf true d.hw₁ d.hn₁ ha
  have h4 : 4 * M w₁ n₁ ≤ M w₂ n₂ := by
    unfold M; rw [show 4 = 2 ^ 2 from rfl, ← Nat.pow_add]
    exact Nat.pow_le_pow_right (by decide) (by omega)
  simp only [repOf, valOf, repS, if_true] at h2 ⊢; constructor <;> omega
example : (map₂ (II.wrappingAdd 16) (castBnum 8 false [100, 250] 16 2 true) (castBnum 8 true [200, 255] 16 2 true)).bind
      (fun r => btryFrom 16 true r 8 2 false) = .ok (UI.checkedAddSigned 8 [100, 250] [200, 255]) ∧
    UI.checkedAddSigned 8 [100, 250] [200, 255] = some [44, 250] ∧
    (map₂ (II.wrappingAdd 16) (castBnum 8 true [5, 0] 16 2 true) (castBnum 8 false [200, 255] 16 2 true)).bind
      (fun r => btryFrom 16 true r 8 2 true) = .ok (II.checkedAddUnsigned 8 [5, 0] [200, 255]) ∧
    II.checkedAddUnsigned 8 [5, 0] [200, 255] = none ∧
    (map₂ (II.wrappingSub 16) (castBnum 8 true [255, 127] 16 2 true) (castBnum 8 false [200, 255] 16 2 true)).bind
      (fun r => btryFrom 16 true r 8 2 true) = .ok (II.checkedSubUnsigned 8 [255, 127] [200, 255]) := by
  decide

/-! ## I. casts to / from primitive integers vs bnum casts (C09 × C09, C01, C02) -/

/-- `x as uK` / `x as iK` is `x as BUint<K bits>` read as a bit pattern (any digit type for the
    `K`-bit bnum type) -/
theorem cast_to_prim_eq_cast_bnum (d : Dims w₁ n₁ w₂ n₂) (s₁ s₂ : Bool) (t : PTy)
    (hk : t.bits = w₂ * n₂) (hx : WF w₁ n₁ x) :
    castToPrim w₁ s₁ x t = (castBnum w₁ s₁ x w₂ n₂ s₂).map (U w₂) := by
  rw [C09.cast_to_prim s₁ d.hw₁ d.hn₁ hx t]
  obtain ⟨r, hr, _, hu⟩ := C09.cast_bnum s₁ s₂ d.hw₁ d.hw₂ d.hn₁ d.hn₂ d.hdvd hx
  rw [hr, map_ok, hu]; unfold B M; rw [hk]
example : castToPrim 8 true [0x01, 0x80, 0xff] ⟨32, false⟩
    = (castBnum 8 true [0x01, 0x80, 0xff] 16 2 true).map (U 16) := by decide

/-- `p as Bnum` for a primitive `p` is the bnum cast of the `K`-bit bnum integer with the same bits -/
theorem cast_from_prim_eq_cast_bnum (d : Dims w₂ n₂ w n) (s : Bool) (t : PTy) {p : Nat}
    (hk : t.bits = w₂ * n₂) (hp : p < B t.bits) :
    castFromPrim w n s t p = castBnum w₂ t.signed (ofNat w₂ n₂ p) w n s := by
  have hk1 : 1 ≤ t.bits := hk ▸ Nat.mul_pos d.hw₁ d.hn₁
  have hB : B t.bits = M w₂ n₂ := by unfold B M; rw [hk]
  obtain ⟨r, hr, hwr, hur⟩ := C09.cast_from_prim (w := w) s d.hn₂ hk1 hp
  rw [hr]; symm
  apply cast_eq_of_rep d t.signed s (Radix.WF_ofNat w₂ n₂ p)
  have hU : U w₂ (ofNat w₂ n₂ p) = p := by
    rw [Radix.U_ofNat, Nat.mod_eq_of_lt (hB ▸ hp)]
  have hv : valOf t.signed w₂ (ofNat w₂ n₂ p) = PInt.val t p := by
    unfold valOf PInt.val
    cases t.signed
    · simp [hU]
    · simp only [if_true]; rw [S_eq (Radix.WF_ofNat w₂ n₂ p), hU, hB]
  rw [hv]; exact rep_wrapU hwr (by rw [hur])
example : (0xff80 : Nat) < B 16 ∧ castFromPrim 8 3 false ⟨16, true⟩ 0xff80
    = castBnum 16 true (ofNat 16 1 0xff80) 8 3 false ∧
    castFromPrim 8 3 false ⟨16, true⟩ 0xff80 = .ok [0x80, 0xff, 0xff] := by decide

/-- primitive → bnum → the same primitive is the identity when the bnum type is at least as wide -/
theorem cast_prim_roundtrip (s : Bool) (t : PTy) {p : Nat} (hw : 1 ≤ w) (hn : 1 ≤ n)
    (hk1 : 1 ≤ t.bits) (hk : t.bits ≤ w * n) (hp : p < B t.bits) :
    (castFromPrim w n s t p).bind (fun y => castToPrim w s y t) = .ok p := by
  obtain ⟨r, hr, hwr, hur⟩ := C09.cast_from_prim (w := w) s hn hk1 hp
  rw [hr, bind_ok, C09.cast_to_prim s hw hn hwr t]; congr 1
  have h1 : Rep w n r (PInt.val t p) := rep_wrapU hwr (by rw [hur])
  have h2 := (rep_valOf s hwr).2
  have hd : B t.bits ∣ M w n := by unfold B M; exact Nat.pow_dvd_pow 2 hk
  have e : valOf s w r % (B t.bits : Int) = PInt.val t p % (B t.bits : Int) :=
    emod_of_dvd hd (by rw [← h2, h1.2])
  rw [wrapU_congr e]; exact (NumC.val_eq_wrapU hp).symm
example : (castFromPrim 8 3 true ⟨16, true⟩ 0xff80).bind (fun y => castToPrim 8 true y ⟨16, true⟩)
    = .ok 0xff80 := by decide
/-- … and loses the high bits when it is narrower -/
theorem cast_prim_roundtrip_narrow_counterexample :
    (castFromPrim 8 1 false ⟨16, false⟩ 0x1234).bind (fun y => castToPrim 8 false y ⟨16, false⟩)
      = .ok 0x34 := by decide

/-- `(x as B) as uK = x as uK` whenever `B` has at least `K` bits, or can represent `x` -/
theorem cast_bnum_then_to_prim (d : Dims w₁ n₁ w₂ n₂) (s₁ s₂ : Bool) (t : PTy) (hx : WF w₁ n₁ x)
    (h : t.bits ≤ w₂ * n₂ ∨ repOf s₂ (M w₂ n₂) (valOf s₁ w₁ x)) :
    (castBnum w₁ s₁ x w₂ n₂ s₂).bind (fun y => castToPrim w₂ s₂ y t) = castToPrim w₁ s₁ x t := by
  obtain ⟨y, hy, ry⟩ := cast_ok d s₁ s₂ hx
  rw [hy, bind_ok, C09.cast_to_prim s₂ d.hw₂ d.hn₂ ry.1 t, C09.cast_to_prim s₁ d.hw₁ d.hn₁ hx t]
  congr 1
  rcases h with h | h
  · have hd : B t.bits ∣ M w₂ n₂ := by unfold B M; exact Nat.pow_dvd_pow 2 h
    have h2 := (rep_valOf s₂ ry.1).2
    exact wrapU_congr (emod_of_dvd hd (by rw [← h2, ry.2]))
  · rw [valOf_of_rep ry h]
example : (castBnum 16 true [0x8001, 0xffff] 8 3 false).bind (fun y => castToPrim 8 false y ⟨16, true⟩)
    = castToPrim 16 true [0x8001, 0xffff] ⟨16, true⟩ := by decide

/-- `(p as A) as B = p as B` whenever `B` is not wider than `A`, or `A` can represent `p` -/
theorem cast_from_prim_then_bnum (d : Dims w₁ n₁ w₂ n₂) (s₁ s₂ : Bool) (t : PTy) {p : Nat}
    (hk1 : 1 ≤ t.bits) (hp : p < B t.bits)
    (h : w₂ * n₂ ≤ w₁ * n₁ ∨ repOf s₁ (M w₁ n₁) (PInt.val t p)) :
    (castFromPrim w₁ n₁ s₁ t p).bind (fun y => castBnum w₁ s₁ y w₂ n₂ s₂)
      = castFromPrim w₂ n₂ s₂ t p := by
  obtain ⟨y, hy, hwy, huy⟩ := C09.cast_from_prim (w := w₁) s₁ d.hn₁ hk1 hp
  obtain ⟨r, hr, hwr, hur⟩ := C09.cast_from_prim (w := w₂) s₂ d.hn₂ hk1 hp
  rw [hy, hr, bind_ok]
  exact cast_hom d s₁ s₂ (rep_wrapU hwy (by rw [huy])) (rep_wrapU hwr (by rw [hur])) h
example : (castFromPrim 16 2 true ⟨8, true⟩ 0x80).bind (fun y => castBnum 16 true y 8 5 false)
    = castFromPrim 8 5 false ⟨8, true⟩ 0x80 ∧
    castFromPrim 8 5 false ⟨8, true⟩ 0x80 = .ok [0x80, 0xff, 0xff, 0xff, 0xff] := by decide

/-- casts into a primitive are ring homomorphisms too: `(a + b) as uK = (a as uK).wrapping_add(b as uK)`
    and likewise `*`, for every `K ≤ BITS` -/
theorem cast_to_prim_wrapping_add (s : Bool) (t : PTy) (hw : 1 ≤ w) (hn : 1 ≤ n)
    (hk : t.bits ≤ w * n) (ha : WF w n a) (hb : WF w n b) :
    castToPrim w s (UI.wrappingAdd w a b) t
      = map₂ (fun p q => (p + q) % B t.bits) (castToPrim w s a t) (castToPrim w s b t) := by
  have hab := (rep_add (rep_valOf s ha) (rep_valOf s hb))
  rw [C09.cast_to_prim s hw hn hab.1 t, C09.cast_to_prim s hw hn ha t, C09.cast_to_prim s hw hn hb t,
    map₂_ok]; congr 1
  have hd : B t.bits ∣ M w n := by unfold B M; exact Nat.pow_dvd_pow 2 hk
  have hB := B_pos t.bits
  have e := emod_of_dvd hd (by
    rw [← (rep_valOf s hab.1).2, hab.2] :
      valOf s w (UI.wrappingAdd w a b) % (M w n : Int) = (valOf s w a + valOf s w b) % (M w n : Int))
  rw [wrapU_congr e]
  have h1 := wrapU_cast hB (valOf s w a); have h2 := wrapU_cast hB (valOf s w b)
  have h3 := wrapU_cast hB (valOf s w a + valOf s w b)
  have : ((wrapU (B t.bits) (valOf s w a + valOf s w b) : Nat) : Int)
      = (((wrapU (B t.bits) (valOf s w a) + wrapU (B t.bits) (valOf s w b)) % B t.bits : Nat) : Int) := by
    rw [h3]; push_cast; rw [h1, h2, ← Int.add_emod]
  exact_mod_cast this
theorem cast_to_prim_wrapping_mul (s : Bool) (t : PTy) (hw : 1 ≤ w) (hn : 1 ≤ n)
    (hk : t.bits ≤ w * n) (ha : WF w n a) (hb : WF w n b) :
    castToPrim w s (UI.wrappingMul w a b) t
      = map₂ (fun p q => (p * q) % B t.bits) (castToPrim w s a t) (castToPrim w s b t) := by
  have hab := (rep_mul (rep_valOf s ha) (rep_valOf s hb))
  rw [C09.cast_to_prim s hw hn hab.1 t, C09.cast_to_prim s hw hn ha t, C09.cast_to_prim s hw hn hb t,
    map₂_ok]; congr 1
  have hd : B t.bits ∣ M w n := by unfold B M; exact Nat.pow_dvd_pow 2 hk
  have hB := B_pos t.bits
  have e := emod_of_dvd hd (by
    rw [← (rep_valOf s hab.1).2, hab.2] :
      valOf s w (UI.wrappingMul w a b) % (M w n : Int) = (valOf s w a * valOf s w b) % (M w n : Int))
  rw [wrapU_congr e]
  have h1 := wrapU_cast hB (valOf s w a); have h2 := wrapU_cast hB (valOf s w b)
  have h3 := wrapU_cast hB (valOf s w a * valOf s w b)
  have : ((wrapU (B t.bits) (valOf s w a * valOf s w b) : Nat) : Int)
      = (((wrapU (B t.bits) (valOf s w a) * wrapU (B t.bits) (valOf s w b)) % B t.bits : Nat) : Int) := by
    rw [h3]; push_cast; rw [h1, h2, ← Int.mul_emod]
  exact_mod_cast this
example : castToPrim 8 true (UI.wrappingAdd 8 [0xf0, 0x12, 0x80] [0x20, 0xff, 0x01]) ⟨16, false⟩
    = map₂ (fun p q => (p + q) % B 16) (castToPrim 8 true [0xf0, 0x12, 0x80] ⟨16, false⟩)
        (castToPrim 8 true [0x20, 0xff, 0x01] ⟨16, false⟩) ∧
    castToPrim 8 true (UI.wrappingMul 8 [0xf0, 0x12, 0x80] [0x20, 0xff, 0x01]) ⟨16, false⟩
    = map₂ (fun p q => (p * q) % B 16) (castToPrim 8 true [0xf0, 0x12, 0x80] ⟨16, false⟩)
        (castToPrim 8 true [0x20, 0xff, 0x01] ⟨16, false⟩) := by decide

/-! ## J. zero-extension vs the counting functions (C06 × C09) -/

/-- `(a as Wide).bits() = a.bits()` and `(a as Wide).leading_zeros() = a.leading_zeros() + extra bits` -/
theorem cast_zext_bits (d : Dims w₁ n₁ w₂ n₂) (s₂ : Bool) (hle : w₁ * n₁ ≤ w₂ * n₂) (ha : WF w₁ n₁ a) :
    (castBnum w₁ false a w₂ n₂ s₂).map (UI.bits w₂) = .ok (UI.bits w₁ a) ∧
    (castBnum w₁ false a w₂ n₂ s₂).map (UI.leadingZeros w₂)
      = .ok (UI.leadingZeros w₁ a + (w₂ * n₂ - w₁ * n₁)) := by
  obtain ⟨a', ha', wa', ua'⟩ := cast_zext d s₂ hle ha
  obtain ⟨l1, b1, _⟩ := C06.leading_zeros_spec ha
  obtain ⟨l2, b2, _⟩ := C06.leading_zeros_spec wa'
  rw [ha', map_ok, map_ok, b1, b2, l1, l2, ua']
  refine ⟨rfl, ?_⟩
  congr 1
  have : Spec.bitLen (U w₁ a) ≤ w₁ * n₁ := (C06.spec_bitLen _ _).mpr (U_lt ha)
  omega
example : (castBnum 8 false [0xf0, 0x1c] 16 2 false).map (UI.bits 16) = .ok (UI.bits 8 [0xf0, 0x1c]) ∧
    (castBnum 8 false [0xf0, 0x1c] 16 2 false).map (UI.leadingZeros 16)
      = .ok (UI.leadingZeros 8 [0xf0, 0x1c] + (16 * 2 - 8 * 2)) ∧ UI.leadingZeros 8 [0xf0, 0x1c] = 3 := by
  decide

/-- `(a as Wide).count_ones() = a.count_ones()` -/
theorem cast_zext_count_ones (d : Dims w₁ n₁ w₂ n₂) (s₂ : Bool) (hle : w₁ * n₁ ≤ w₂ * n₂)
    (ha : WF w₁ n₁ a) :
    (castBnum w₁ false a w₂ n₂ s₂).map (UI.countOnes w₂) = .ok (UI.countOnes w₁ a) := by
  obtain ⟨a', ha', wa', ua'⟩ := cast_zext d s₂ hle ha
  rw [ha', map_ok, (C06.count_spec ha).1, (C06.count_spec wa').1, ua']
  congr 1
  obtain ⟨k, hk⟩ := Nat.exists_eq_add_of_le hle
  rw [hk]; exact popcount_widen _ k _ (U_lt ha)
example : (castBnum 8 false [0xf0, 0x1c] 16 2 false).map (UI.countOnes 16)
    = .ok (UI.countOnes 8 [0xf0, 0x1c]) ∧ UI.countOnes 8 [0xf0, 0x1c] = 7 := by decide

/-- `(a as Wide).trailing_zeros() = a.trailing_zeros()` for `a ≠ 0` … -/
theorem cast_zext_trailing_zeros (d : Dims w₁ n₁ w₂ n₂) (s₂ : Bool) (hle : w₁ * n₁ ≤ w₂ * n₂)
    (ha : WF w₁ n₁ a) (h0 : a ≠ zero n₁) :
    (castBnum w₁ false a w₂ n₂ s₂).map (UI.trailingZeros w₂) = .ok (UI.trailingZeros w₁ a) := by
  obtain ⟨a', ha', wa', ua'⟩ := cast_zext d s₂ hle ha
  rw [ha', map_ok, C06.trailing_zeros_spec ha, C06.trailing_zeros_spec wa', ua']
  congr 1
  obtain ⟨k, hk⟩ := Nat.exists_eq_add_of_le hle
  rw [hk]; exact trailingZeros_widen _ k _ (U_ne_zero_of_ne ha h0) (U_lt ha)
example : (castBnum 8 false [0xf0, 0x1c] 16 2 false).map (UI.trailingZeros 16)
    = .ok (UI.trailingZeros 8 [0xf0, 0x1c]) ∧ UI.trailingZeros 8 [0xf0, 0x1c] = 4 := by decide
/-- … but `0.trailing_zeros()` is `BITS`, which grows -/
theorem cast_zext_trailing_zeros_zero_counterexample :
    (castBnum 8 false [0, 0] 16 2 false).map (UI.trailingZeros 16) = .ok 32 ∧
    UI.trailingZeros 8 [0, 0] = 16 := by decide

/-- `(a as Wide).is_power_of_two() = a.is_power_of_two()` -/
theorem cast_zext_is_power_of_two (d : Dims w₁ n₁ w₂ n₂) (s₂ : Bool) (hle : w₁ * n₁ ≤ w₂ * n₂)
    (ha : WF w₁ n₁ a) :
    (castBnum w₁ false a w₂ n₂ s₂).map (UI.isPowerOfTwo w₂) = .ok (UI.isPowerOfTwo w₁ a) := by
  obtain ⟨a', ha', wa', ua'⟩ := cast_zext d s₂ hle ha
  rw [ha', map_ok]; congr 1
  have h1 := C06.is_power_of_two_iff ha
  have h2 := C06.is_power_of_two_iff wa'
  rw [ua'] at h2
  cases h : UI.isPowerOfTwo w₁ a <;> cases h' : UI.isPowerOfTwo w₂ a' <;> simp_all
example : (castBnum 8 false [0x00, 0x20] 16 2 false).map (UI.isPowerOfTwo 16)
    = .ok (UI.isPowerOfTwo 8 [0x00, 0x20]) ∧ UI.isPowerOfTwo 8 [0x00, 0x20] = true := by decide

/-! ## K. division vs casts and signedness (C03 × C09) -/

/-- zero-extension commutes with `/` and `%` for EVERY divisor (both sides panic on zero):
    `(a / b) as Wide = (a as Wide) / (b as Wide)` -/
theorem cast_zext_div_rem (d : Dims w₁ n₁ w₂ n₂) (hle : w₁ * n₁ ≤ w₂ * n₂) (ha : WF w₁ n₁ a)
    (hb : WF w₁ n₁ b) :
    (UI.div w₁ a b).bind (fun q => castBnum w₁ false q w₂ n₂ false)
      = bind₂ (UI.div w₂) (castBnum w₁ false a w₂ n₂ false) (castBnum w₁ false b w₂ n₂ false) ∧
    (UI.rem w₁ a b).bind (fun r => castBnum w₁ false r w₂ n₂ false)
      = bind₂ (UI.rem w₂) (castBnum w₁ false a w₂ n₂ false) (castBnum w₁ false b w₂ n₂ false) := by
  obtain ⟨a', ha', wa', ua'⟩ := cast_zext d false hle ha
  obtain ⟨b', hb', wb', ub'⟩ := cast_zext d false hle hb
  simp only [bind₂, ha', hb', bind_ok]
  by_cases hb0 : U w₁ b = 0
  · have z1 := C03.u_zero_divisor (a := a) hb0 true
    have z2 := C03.u_zero_divisor (a := a') (ub'.trans hb0) true
    rw [z1.2.2.2.2.2.2.2.2.2.2.2.2.2.2.1, z1.2.2.2.2.2.2.2.2.2.2.2.2.2.2.2.1,
      z2.2.2.2.2.2.2.2.2.2.2.2.2.2.2.1, z2.2.2.2.2.2.2.2.2.2.2.2.2.2.2.2.1]
    exact ⟨rfl, rfl⟩
  · obtain ⟨q, r, wq, wr, uq, ur, f⟩ := C03.u_forms d.hw₁ d.hn₁ ha hb hb0
    obtain ⟨q', r', wq', wr', uq', ur', f'⟩ := C03.u_forms d.hw₂ d.hn₂ wa' wb' (by rw [ub']; exact hb0)
    have eq := f.2.2.2.2.2.2.2.2.2.2.2.2.2.2.1; have er := f.2.2.2.2.2.2.2.2.2.2.2.2.2.2.2.1
    have eq' := f'.2.2.2.2.2.2.2.2.2.2.2.2.2.2.1; have er' := f'.2.2.2.2.2.2.2.2.2.2.2.2.2.2.2.1
    rw [eq, er, eq', er', bind_ok, bind_ok]
    constructor
    · apply cast_eq_of_rep d false false wq
      have : U w₂ q' = U w₁ q := by rw [uq', uq, ua', ub']
      simp only [valOf, Bool.false_eq_true, if_false]; rw [← this]; exact rep_U wq'
    · apply cast_eq_of_rep d false false wr
      have : U w₂ r' = U w₁ r := by rw [ur', ur, ua', ub']
      simp only [valOf, Bool.false_eq_true, if_false]; rw [← this]; exact rep_U wr'
example : (UI.div 8 [0x12, 0xff] [0x07, 0x00]).bind (fun q => castBnum 8 false q 16 2 false)
      = bind₂ (UI.div 16) (castBnum 8 false [0x12, 0xff] 16 2 false) (castBnum 8 false [0x07, 0x00] 16 2 false) ∧
    (UI.rem 8 [0x12, 0xff] [0x07, 0x01]).bind (fun r => castBnum 8 false r 16 2 false)
      = bind₂ (UI.rem 16) (castBnum 8 false [0x12, 0xff] 16 2 false) (castBnum 8 false [0x07, 0x01] 16 2 false) ∧
    (UI.div 8 [0x12, 0xff] [0, 0]).bind (fun q => castBnum 8 false q 16 2 false) = .panic := by decide

/-- sign-extension commutes with `/` and `%` (truncating) except for `MIN / -1` -/
theorem cast_sext_div_rem (d : Dims w₁ n₁ w₂ n₂) (hw₁ : 2 ≤ w₁) (hw₂ : 2 ≤ w₂)
    (hle : w₁ * n₁ ≤ w₂ * n₂) (ha : WF w₁ n₁ a) (hb : WF w₁ n₁ b) (hb0 : b ≠ zero n₁)
    (hov : ¬ (a = iMin w₁ n₁ ∧ b = II.negOne w₁ n₁)) (dbg : Bool) :
    (II.div dbg w₁ a b).bind (fun q => castBnum w₁ true q w₂ n₂ true)
      = bind₂ (II.div dbg w₂) (castBnum w₁ true a w₂ n₂ true) (castBnum w₁ true b w₂ n₂ true) ∧
    (II.rem dbg w₁ a b).bind (fun r => castBnum w₁ true r w₂ n₂ true)
      = bind₂ (II.rem dbg w₂) (castBnum w₁ true a w₂ n₂ true) (castBnum w₁ true b w₂ n₂ true) := by
  have fit : ∀ {x : List Nat}, WF w₁ n₁ x → repOf true (M w₂ n₂) (valOf true w₁ x) := fun hx =>
    repOf_mono (s := true) (M_le_of_le hle) (repOf_valOf true d.hw₁ d.hn₁ hx)
  obtain ⟨a', ha', wa', sa'⟩ := cast_val d true true ha (fit ha)
  obtain ⟨b', hb', wb', sb'⟩ := cast_val d true true hb (fit hb)
  simp only [valOf, if_true] at sa' sb'
  simp only [bind₂, ha', hb', bind_ok]
  have hS0 : S w₁ b ≠ 0 := S_ne_zero_of_ne hb hb0
  have hov₁ := not_min_neg_one d.hw₁ d.hn₁ ha hb hov
  have hov₂ : ¬ (S w₂ a' = -((M w₂ n₂ / 2 : Nat) : Int) ∧ S w₂ b' = -1) := by
    rintro ⟨h1, h2⟩
    rw [sa'] at h1; rw [sb'] at h2
    have hr := repOf_valOf true d.hw₁ d.hn₁ ha
    have hM := M_le_of_le hle (w₁ := w₁) (m := n₁) (w₂ := w₂) (n := n₂)
    have e1 := M_even d.hw₁ d.hn₁; have e2 := M_even d.hw₂ d.hn₂
    simp only [repOf, valOf, if_true, repS] at hr
    have : M w₁ n₁ = M w₂ n₂ := by omega
    exact hov₁ ⟨by rw [h1, this], h2⟩
  obtain ⟨q, r, _, _, wq, wr, _, _, sq, sr, _, _, f⟩ := C03.i_forms hw₁ d.hn₁ ha hb hS0 hov₁ dbg
  obtain ⟨q', r', _, _, wq', wr', _, _, sq', sr', _, _, f'⟩ :=
    C03.i_forms hw₂ d.hn₂ wa' wb' (by rw [sb']; exact hS0) hov₂ dbg
  have eq := f.2.2.2.2.2.2.2.2.2.2.2.2.2.1; have er := f.2.2.2.2.2.2.2.2.2.2.2.2.2.2.1
  have eq' := f'.2.2.2.2.2.2.2.2.2.2.2.2.2.1; have er' := f'.2.2.2.2.2.2.2.2.2.2.2.2.2.2.1
  rw [eq, er, eq', er', bind_ok, bind_ok]
  constructor
  · apply cast_eq_of_rep d true true wq
    have : S w₂ q' = S w₁ q := by rw [sq', sq, sa', sb']
    simp only [valOf, if_true]; rw [← this]; exact rep_S wq'
  · apply cast_eq_of_rep d true true wr
    have : S w₂ r' = S w₁ r := by rw [sr', sr, sa', sb']
    simp only [valOf, if_true]; rw [← this]; exact rep_S wr'
example : (II.div true 8 [0x12, 0xff] [0xf9, 0xff]).bind (fun q => castBnum 8 true q 16 2 true)
      = bind₂ (II.div true 16) (castBnum 8 true [0x12, 0xff] 16 2 true) (castBnum 8 true [0xf9, 0xff] 16 2 true) ∧
    II.div true 8 [0x12, 0xff] [0xf9, 0xff] = .ok [0x22, 0x00] := by decide
/-- the excluded case: `i8::MIN / -1` panics (overflow), its sign-extension computes `128` -/
theorem cast_sext_div_min_counterexample :
    II.div true 8 [0x80] [0xff] = .panic ∧
    bind₂ (II.div true 8) (castBnum 8 true [0x80] 8 2 true) (castBnum 8 true [0xff] 8 2 true)
      = .ok [0x80, 0x00] := by decide

/-- on non-negative operands signed and unsigned division agree digit for digit -/
theorem i_div_rem_eq_u_of_nonneg (hw : 2 ≤ w) (hn : 1 ≤ n) (ha : WF w n a) (hb : WF w n b)
    (ha0 : isNegative w a = false) (hb0 : isNegative w b = false) (hbz : b ≠ zero n) (dbg : Bool) :
    II.div dbg w a b = UI.div w a b ∧ II.rem dbg w a b = UI.rem w a b := by
  have hw1 : 1 ≤ w := by omega
  have na : 0 ≤ S w a := by
    have := C07.is_negative_iff hw1 hn ha; rw [ha0] at this; simp at this; exact this
  have nb : 0 ≤ S w b := by
    have := C07.is_negative_iff hw1 hn hb; rw [hb0] at this; simp at this; exact this
  have ea := S_of_nonneg ha na; have eb := S_of_nonneg hb nb
  have hS0 : S w b ≠ 0 := S_ne_zero_of_ne hb hbz
  have hU0 : U w b ≠ 0 := U_ne_zero_of_ne hb hbz
  have hov : ¬ (S w a = -((M w n / 2 : Nat) : Int) ∧ S w b = -1) := by rintro ⟨_, h⟩; omega
  obtain ⟨q, r, _, _, wq, wr, _, _, sq, sr, _, _, f⟩ := C03.i_forms hw hn ha hb hS0 hov dbg
  obtain ⟨q', r', wq', wr', uq', ur', f'⟩ := C03.u_forms hw1 hn ha hb hU0
  rw [f.2.2.2.2.2.2.2.2.2.2.2.2.2.1, f.2.2.2.2.2.2.2.2.2.2.2.2.2.2.1,
    f'.2.2.2.2.2.2.2.2.2.2.2.2.2.2.1, f'.2.2.2.2.2.2.2.2.2.2.2.2.2.2.2.1]
  have hq : S w q = (U w q' : Int) := by
    rw [sq, ea, eb, uq']; push_cast; exact Int.tdiv_eq_ediv_of_nonneg (by omega)
  have hr : S w r = (U w r' : Int) := by
    rw [sr, ea, eb, ur']; push_cast; exact Int.tmod_eq_emod_of_nonneg (by omega)
  have hlt : (U w a : Int) * 2 < M w n := by
    have := repOf_valOf true hw1 hn ha
    simp only [repOf, valOf, if_true, repS] at this; omega
  have hq2 : 2 * U w q' < M w n := by
    have : U w q' ≤ U w a := by rw [uq']; exact Nat.div_le_self _ _
    omega
  have hr2 : 2 * U w r' < M w n := by
    have : U w r' ≤ U w a := by rw [ur']; exact Nat.mod_le _ _
    omega
  constructor
  · congr 1; apply Cmp.S_injective wq wq'
    rw [hq, S_eq wq', toInt_of_lt hq2]
  · congr 1; apply Cmp.S_injective wr wr'
    rw [hr, S_eq wr', toInt_of_lt hr2]
example : II.div true 8 [0x12, 0x7f] [0x07, 0x01] = UI.div 8 [0x12, 0x7f] [0x07, 0x01] ∧
    II.rem true 8 [0x12, 0x7f] [0x07, 0x01] = UI.rem 8 [0x12, 0x7f] [0x07, 0x01] := by decide

/-! ## L. order vs arithmetic vs bit operations vs signedness (C07 × C01 × C06 × C09) -/

/-- the classic offset-binary trick: signed comparison is unsigned comparison after flipping the
    sign bit, `a.cmp(b) == (a ^ MIN).cast_unsigned().cmp((b ^ MIN).cast_unsigned())` -/
theorem i_cmp_eq_u_cmp_xor_min (hw : 1 ≤ w) (hn : 1 ≤ n) (ha : WF w n a) (hb : WF w n b) :
    II.cmp w a b = UI.cmp (II.castUnsigned (UI.bitxor a (iMin w n)))
      (II.castUnsigned (UI.bitxor b (iMin w n))) := by
  obtain ⟨wa, ua⟩ := U_xor_iMin hw hn ha
  obtain ⟨wb, ub⟩ := U_xor_iMin hw hn hb
  rw [C07.i_cmp_spec hw hn ha hb]
  show _ = UI.cmp (UI.bitxor a (iMin w n)) (UI.bitxor b (iMin w n))
  rw [C07.u_cmp_spec wa wb]
  simp only [compare, compareOfLessAndEq]
  have h1 : (U w (UI.bitxor a (iMin w n)) < U w (UI.bitxor b (iMin w n))) ↔ S w a < S w b := by omega
  have h2 : (U w (UI.bitxor a (iMin w n)) = U w (UI.bitxor b (iMin w n))) ↔ S w a = S w b := by omega
  simp only [h1, h2]
example : II.cmp 8 [0x01, 0x80] [0xff, 0x7f]
    = UI.cmp (II.castUnsigned (UI.bitxor [0x01, 0x80] (iMin 8 2)))
        (II.castUnsigned (UI.bitxor [0xff, 0x7f] (iMin 8 2))) ∧ II.cmp 8 [0x01, 0x80] [0xff, 0x7f] = .lt := by
  decide

/-- `x.is_negative()` iff the bit pattern is `≥ MIN`'s, compared as unsigned numbers -/
theorem is_negative_eq_u_ge_min (hw : 1 ≤ w) (hn : 1 ≤ n) (ha : WF w n a) :
    isNegative w a = CmpImpl.ge UI.cmp (II.castUnsigned a) (II.castUnsigned (iMin w n)) := by
  show _ = CmpImpl.ge UI.cmp a (iMin w n)
  have h1 := C07.is_negative_iff hw hn ha
  have h2 := (C07.u_order ha (WF_iMin hw hn)).2.2.2
  rw [U_iMin hw hn] at h2
  have hs := S_eq ha; have hu := U_lt ha; have hM := M_even hw hn
  have key : S w a < 0 ↔ M w n / 2 ≤ U w a := by
    rw [hs]; unfold toInt; split <;> omega
  exact Bool.eq_iff_iff.mpr (by rw [h1, h2, key])
example : isNegative 8 [0x01, 0x80] = CmpImpl.ge UI.cmp (II.castUnsigned [0x01, 0x80]) (II.castUnsigned (iMin 8 2)) := by
  decide

/-- the borrow of `a - b` is `a < b`; the carry of `a + b` is `(a + b) < a` (the usual overflow test) -/
theorem u_sub_borrow_eq_lt (ha : WF w n a) (hb : WF w n b) :
    (UI.overflowingSub w a b).2 = CmpImpl.lt UI.cmp a b := by
  have h1 := (C01.u_overflowing_sub ha hb).2.2
  have h2 := (C07.u_order ha hb).1
  have hu := U_lt ha
  have key : ¬ repU (M w n) ((U w a : Int) - U w b) ↔ U w a < U w b := by unfold repU; omega
  exact Bool.eq_iff_iff.mpr (by rw [h1, h2, key])
theorem u_add_carry_eq_lt (ha : WF w n a) (hb : WF w n b) :
    (UI.overflowingAdd w a b).2 = CmpImpl.lt UI.cmp (UI.wrappingAdd w a b) a := by
  obtain ⟨h0, hv, h1⟩ := C01.u_overflowing_add ha hb
  have h2 := (C07.u_order h0 ha).1
  have hu := U_lt ha; have hub := U_lt hb; have hM := M_pos w n
  have hc := wrapU_cast hM ((U w a : Int) + U w b)
  have key : ¬ repU (M w n) ((U w a : Int) + U w b) ↔ U w (UI.overflowingAdd w a b).1 < U w a := by
    unfold repU
    by_cases hlt : U w a + U w b < M w n
    · have : ((U w a : Int) + U w b) % (M w n : Int) = U w a + U w b :=
        Int.emod_eq_of_lt (by omega) (by omega)
      omega
    · have : ((U w a : Int) + U w b) % (M w n : Int) = U w a + U w b - M w n := by
        rw [← Int.sub_emod_right]; exact Int.emod_eq_of_lt (by omega) (by omega)
      omega
  show _ = CmpImpl.lt UI.cmp (UI.overflowingAdd w a b).1 a
  exact Bool.eq_iff_iff.mpr (by rw [h1, h2, key])
example : (UI.overflowingSub 8 [100, 250] [200, 250]).2 = CmpImpl.lt UI.cmp [100, 250] [200, 250] ∧
    (UI.overflowingAdd 8 [100, 250] [200, 7]).2
      = CmpImpl.lt UI.cmp (UI.wrappingAdd 8 [100, 250] [200, 7]) [100, 250] ∧
    (UI.overflowingAdd 8 [100, 250] [200, 7]).2 = true := by decide

/-- signed `a < b` is `sign(a - b) != overflow(a - b)` (the `N ≠ V` condition of every CPU) -/
theorem i_lt_eq_sub_sign_xor_overflow (hw : 2 ≤ w) (hn : 1 ≤ n) (ha : WF w n a) (hb : WF w n b) :
    CmpImpl.lt (II.cmp w) a b
      = (isNegative w (II.overflowingSub w a b).1 != (II.overflowingSub w a b).2) := by
  have hw1 : 1 ≤ w := by omega
  obtain ⟨h0, hv, h1⟩ := C01.i_overflowing_sub hw hn ha hb
  have h2 := (C07.i_order hw1 hn ha hb).1
  have h3 := C07.is_negative_iff hw1 hn h0
  have ra := repOf_valOf true hw1 hn ha; have rb := repOf_valOf true hw1 hn hb
  have hM := M_pos w n; have hE := M_even hw1 hn
  simp only [repOf, valOf, if_true, repS] at ra rb
  have hws : repS (M w n) (S w (II.overflowingSub w a b).1) := by
    have := repOf_valOf true hw1 hn h0; simpa [repOf, valOf] using this
  obtain ⟨k, hk⟩ := wrapS_spec hM (S w a - S w b)
  rw [← hv] at hk
  have key : S w a < S w b ↔
      ((S w (II.overflowingSub w a b).1 < 0 ∧ repS (M w n) (S w a - S w b)) ∨
       (¬ S w (II.overflowingSub w a b).1 < 0 ∧ ¬ repS (M w n) (S w a - S w b))) := by
    unfold repS at hws ⊢
    generalize S w (II.overflowingSub w a b).1 = v at *
    have : k = 0 ∨ k = 1 ∨ k = -1 := by
      have h5 : -2 < k := by nlinarith
      have h6 : k < 2 := by nlinarith
      omega
    rcases this with rfl | rfl | rfl <;> omega
  have e : CmpImpl.lt (II.cmp w) a b = true ↔
      (isNegative w (II.overflowingSub w a b).1 != (II.overflowingSub w a b).2) = true := by
    have h1' : repS (M w n) (S w a - S w b) ↔ (II.overflowingSub w a b).2 = false := by
      rw [← Bool.not_eq_true, h1, Classical.not_not]
    rw [h2, key, ← h3, h1']
    cases isNegative w (II.overflowingSub w a b).1 <;> cases (II.overflowingSub w a b).2 <;> simp
  exact Bool.eq_iff_iff.mpr e
example : CmpImpl.lt (II.cmp 8) [0x01, 0x80] [0x05, 0x00]
    = (isNegative 8 (II.overflowingSub 8 [0x01, 0x80] [0x05, 0x00]).1
        != (II.overflowingSub 8 [0x01, 0x80] [0x05, 0x00]).2) ∧
    II.overflowingSub 8 [0x01, 0x80] [0x05, 0x00] = ([0xfc, 0x7f], true) := by decide

/-- equality is "difference is zero" and "xor is zero" -/
theorem u_eq_iff_sub_zero (ha : WF w n a) (hb : WF w n b) :
    UI.eq a b = isZero (UI.wrappingSub w a b) ∧ UI.eq a b = isZero (UI.bitxor a b) := by
  have h1 := UI.eq_iff_U ha hb
  have h2 := Cmp.isZero_iff_U (w := w) (UI.wrappingSub w a b)
  have h3 := Cmp.isZero_iff_U (w := w) (UI.bitxor a b)
  obtain ⟨s0, sv⟩ := C01.u_wrapping_sub ha hb
  have hx := (C06.logic_spec ha hb).2.2.2
  have hu := U_lt ha; have hub := U_lt hb; have hM := M_pos w n
  have hc := wrapU_cast hM ((U w a : Int) - U w b)
  have k1 : U w (UI.wrappingSub w a b) = 0 ↔ U w a = U w b := by
    constructor
    · intro h0
      rw [h0] at sv
      have : ((U w a : Int) - U w b) % (M w n : Int) = 0 := by omega
      have hd := Int.dvd_of_emod_eq_zero this
      obtain ⟨c, hc'⟩ := hd
      have : c = 0 := by
        have h5 : -1 < c := by nlinarith
        have h6 : c < 1 := by nlinarith
        omega
      subst this; omega
    · intro h; rw [h] at sv; simp at sv; have := wrapU_lt hM 0
      have : wrapU (M w n) 0 = 0 := by unfold wrapU; simp
      omega
  have k2 : U w (UI.bitxor a b) = 0 ↔ U w a = U w b := by
    rw [hx]
    constructor
    · intro h; apply Nat.eq_of_testBit_eq; intro i
      have := congrArg (·.testBit i) h
      simp only [Nat.testBit_xor, Nat.zero_testBit] at this
      cases h1 : (U w a).testBit i <;> cases h2 : (U w b).testBit i <;> simp_all
    · intro h; rw [h]; exact Nat.xor_self _
  constructor
  · cases h : UI.eq a b <;> cases h' : isZero (UI.wrappingSub w a b) <;> simp_all
  · cases h : UI.eq a b <;> cases h' : isZero (UI.bitxor a b) <;> simp_all
example : UI.eq [100, 250] [100, 250] = isZero (UI.wrappingSub 8 [100, 250] [100, 250]) ∧
    UI.eq [100, 250] [100, 251] = isZero (UI.bitxor [100, 250] [100, 251]) := by decide

/-- `x.unsigned_abs() == x.wrapping_abs().cast_unsigned()` (also at `MIN`) -/
theorem unsigned_abs_eq_wrapping_abs (hw : 2 ≤ w) (hn : 1 ≤ n) (ha : WF w n a) :
    II.unsignedAbs w a = II.castUnsigned (II.wrappingAbs w a) := by
  obtain ⟨h1, h2⟩ := C01.i_unsigned_abs hw hn ha
  obtain ⟨h3, h4⟩ := C01.i_wrapping_abs hw hn ha
  exact eq_of_rep' (rep_nat h1 (by rw [h2, Nat.mod_eq_of_lt (by rw [← h2]; exact U_lt h1)]))
    (rep_wrapS h3 h4) rfl
example : II.unsignedAbs 8 [0, 128] = II.castUnsigned (II.wrappingAbs 8 [0, 128]) ∧
    II.unsignedAbs 8 [200, 255] = II.castUnsigned (II.wrappingAbs 8 [200, 255]) := by decide

/-- `a.abs_diff(b) == max(a, b).wrapping_sub(min(a, b))`, unsigned and signed (the signed one
    returns the unsigned type: the wrapped difference re-read as unsigned is exact) -/
theorem u_abs_diff_eq_max_sub_min (ha : WF w n a) (hb : WF w n b) :
    UI.absDiff w a b = UI.wrappingSub w (CmpImpl.max UI.cmp a b) (CmpImpl.min UI.cmp a b) := by
  obtain ⟨h1, h2⟩ := C01.u_abs_diff ha hb
  have r1 : Rep w n (UI.absDiff w a b) ((((U w a : Int) - U w b).natAbs : Nat) : Int) :=
    rep_nat h1 (by rw [h2, Nat.mod_eq_of_lt (by rw [← h2]; exact U_lt h1)])
  have r2 := rep_sub (rep_U (wf_umax ha hb)) (rep_U (wf_umin ha hb))
  refine eq_of_rep' r1 r2 ?_
  rw [U_umax ha hb, U_umin ha hb]; omega
theorem i_abs_diff_eq_max_sub_min (hw : 1 ≤ w) (hn : 1 ≤ n) (ha : WF w n a) (hb : WF w n b) :
    II.absDiff w a b = II.castUnsigned
      (II.wrappingSub w (CmpImpl.max (II.cmp w) a b) (CmpImpl.min (II.cmp w) a b)) := by
  obtain ⟨h1, h2⟩ := C01.i_abs_diff hw hn ha hb
  have r1 : Rep w n (II.absDiff w a b) ((((S w a - S w b).natAbs : Nat)) : Int) :=
    rep_nat h1 (by rw [h2, Nat.mod_eq_of_lt (by rw [← h2]; exact U_lt h1)])
  have r2 := rep_sub (rep_S (wf_imax hw hn ha hb)) (rep_S (wf_imin hw hn ha hb))
  refine eq_of_rep' r1 r2 ?_
  rw [S_imax hw hn ha hb, S_imin hw hn ha hb]; omega
example : UI.absDiff 8 [3, 0] [255, 127] = UI.wrappingSub 8 (CmpImpl.max UI.cmp [3, 0] [255, 127])
      (CmpImpl.min UI.cmp [3, 0] [255, 127]) ∧
    II.absDiff 8 [0, 128] [255, 127] = II.castUnsigned (II.wrappingSub 8
      (CmpImpl.max (II.cmp 8) [0, 128] [255, 127]) (CmpImpl.min (II.cmp 8) [0, 128] [255, 127])) ∧
    II.absDiff 8 [0, 128] [255, 127] = [255, 255] := by decide

/-- `a.midpoint(b)` is `((a as Wide) + (b as Wide)) >> 1` narrowed back, for any unsigned type with
    at least one more bit -/
theorem u_midpoint_via_wide (d : Dims w₁ n₁ w₂ n₂) (hw₁ : 2 ≤ w₁) (hW : w₁ * n₁ + 1 ≤ w₂ * n₂)
    (ha : WF w₁ n₁ a) (hb : WF w₁ n₁ b) (dbg : Bool) :
    (map₂ (UI.wrappingAdd w₂) (castBnum w₁ false a w₂ n₂ false) (castBnum w₁ false b w₂ n₂ false)).bind
      (fun s => castBnum w₂ false (UI.unboundedShr w₂ s 1) w₁ n₁ false) = UI.midpoint dbg w₁ a b := by
  obtain ⟨a', ha', wa', ua'⟩ := cast_zext d false (by omega) ha
  obtain ⟨b', hb', wb', ub'⟩ := cast_zext d false (by omega) hb
  obtain ⟨r, hr, wr, ur⟩ := C01.u_midpoint_spec dbg hw₁ d.hn₁ ha hb
  rw [ha', hb', map₂_ok, bind_ok, hr]
  obtain ⟨s0, sv⟩ := C01.u_wrapping_add wa' wb'
  obtain ⟨t0, tv⟩ := u_unboundedShr_val d.hw₂ s0 1
  have h2 := two_M_le hW; have hu := U_lt ha; have hub := U_lt hb
  have hs : U w₂ (UI.wrappingAdd w₂ a' b') = U w₁ a + U w₁ b := by
    have := wrapU_of_rep (m := M w₂ n₂) (z := (U w₂ a' : Int) + U w₂ b') (by unfold repU; omega)
    omega
  apply cast_eq_of_rep d.symm false false t0
  simp only [valOf, Bool.false_eq_true, if_false]
  rw [tv, hs, Nat.pow_one, ← ur]; exact rep_U wr
example : (map₂ (UI.wrappingAdd 16) (castBnum 8 false [255, 255] 16 2 false) (castBnum 8 false [254, 255] 16 2 false)).bind
      (fun s => castBnum 16 false (UI.unboundedShr 16 s 1) 8 2 false) = UI.midpoint true 8 [255, 255] [254, 255] ∧
    UI.midpoint true 8 [255, 255] [254, 255] = .ok [254, 255] := by decide

/-! ## M. casts vs printing, bit access and saturating arithmetic (C11 / C06 / C01 × C09) -/

/-- printing commutes with zero-extension (and with any unsigned cast that keeps the value):
    `(a as Wide).to_str_radix(r) == a.to_str_radix(r)` -/
theorem cast_u_to_str_radix (d : Dims w₁ n₁ w₂ n₂) (h8₁ : 8 ≤ w₁) (h8₂ : 8 ≤ w₂) {r : Nat}
    (hr : 2 ≤ r) (hr36 : r ≤ 36) (ha : WF w₁ n₁ a) (hfit : U w₁ a < M w₂ n₂) :
    (castBnum w₁ false a w₂ n₂ false).bind (fun a' => UI.toStrRadix w₂ a' r) = UI.toStrRadix w₁ a r := by
  obtain ⟨a', ha', wa', va'⟩ := cast_val d false false ha
    (by simp only [repOf, valOf, repU, Bool.false_eq_true, if_false]; constructor <;> omega)
  simp only [valOf, Bool.false_eq_true, if_false, Nat.cast_inj] at va'
  rw [ha', bind_ok, C11.u_toStrRadix_spec d.hn₂ h8₂ wa' hr hr36, C11.u_toStrRadix_spec d.hn₁ h8₁ ha hr hr36,
    va']
example : (castBnum 8 false [0x39, 0x30] 16 2 false).bind (fun a' => UI.toStrRadix 16 a' 10)
    = UI.toStrRadix 8 [0x39, 0x30] 10 := by decide

/-- printing commutes with sign-extension (and with any signed cast that keeps the value) -/
theorem cast_i_to_str_radix (d : Dims w₁ n₁ w₂ n₂) (h8₁ : 8 ≤ w₁) (h8₂ : 8 ≤ w₂) {r : Nat}
    (hr : 2 ≤ r) (hr36 : r ≤ 36) (ha : WF w₁ n₁ a) (hfit : repS (M w₂ n₂) (S w₁ a)) :
    (castBnum w₁ true a w₂ n₂ true).bind (fun a' => II.toStrRadix w₂ a' r) = II.toStrRadix w₁ a r := by
  obtain ⟨a', ha', wa', va'⟩ := cast_val d true true ha (by simpa [repOf, valOf] using hfit)
  simp only [valOf, if_true] at va'
  rw [ha', bind_ok, C11.i_toStrRadix_spec d.hn₂ h8₂ wa' hr hr36, C11.i_toStrRadix_spec d.hn₁ h8₁ ha hr hr36,
    va']
example : (castBnum 8 true [0x80, 0xff] 16 2 true).bind (fun a' => II.toStrRadix 16 a' 10)
    = II.toStrRadix 8 [0x80, 0xff] 10 ∧ II.toStrRadix 8 [0x80, 0xff] 10 = .ok [0x2d, 0x31, 0x32, 0x38] := by
  decide
/-- … but a NEGATIVE value zero-extended prints differently -/
theorem cast_to_str_radix_counterexample :
    (castBnum 8 true [0xff] 8 2 false).bind (fun a' => UI.toStrRadix 8 a' 10) = .ok [0x36, 0x35, 0x35, 0x33, 0x35] ∧
    II.toStrRadix 8 [0xff] 10 = .ok [0x2d, 0x31] := by decide

/-- bit access through any cast: `(x as T).bit(i) == x.bit(i)` for `i` inside both types -/
theorem cast_bit {s₁ s₂ : Nat} (hs₁ : s₁ < 32) (hs₂ : s₂ < 32) (d : Dims (2 ^ s₁) n₁ (2 ^ s₂) n₂)
    (sg₁ sg₂ : Bool) (hx : WF (2 ^ s₁) n₁ x) {i : Nat} (h1 : i < 2 ^ s₁ * n₁) (h2 : i < 2 ^ s₂ * n₂) :
    (castBnum (2 ^ s₁) sg₁ x (2 ^ s₂) n₂ sg₂).bind (fun y => UI.bit (2 ^ s₂) y i) = UI.bit (2 ^ s₁) x i := by
  obtain ⟨y, hy, -⟩ := cast_ok d sg₁ sg₂ hx
  obtain ⟨wy, ty⟩ := tb_cast d sg₁ sg₂ hx hy i
  rw [hy, bind_ok, C06.bit_spec hs₂ wy, C06.bit_spec hs₁ hx, if_pos h1, if_pos h2, ty]
  simp [h1, h2]
example : (castBnum (2 ^ 4) true [0x8421] (2 ^ 3) 3 false).bind (fun y => UI.bit (2 ^ 3) y 10)
    = UI.bit (2 ^ 4) [0x8421] 10 ∧ UI.bit (2 ^ 4) [0x8421] 10 = .ok true := by decide

/-- the sign-extension bits: `(x as Wide).bit(i) == x.is_negative()` for `i` beyond the source -/
theorem cast_bit_sext {s₂ : Nat} (hs₂ : s₂ < 32) (d : Dims w₁ n₁ (2 ^ s₂) n₂)
    (sg₂ : Bool) (hx : WF w₁ n₁ x) {i : Nat} (h1 : w₁ * n₁ ≤ i) (h2 : i < 2 ^ s₂ * n₂) :
    (castBnum w₁ true x (2 ^ s₂) n₂ sg₂).bind (fun y => UI.bit (2 ^ s₂) y i)
      = .ok (isNegative w₁ x) := by
  obtain ⟨y, hy, -⟩ := cast_ok d true sg₂ hx
  obtain ⟨wy, ty⟩ := tb_cast d true sg₂ hx hy i
  rw [hy, bind_ok, C06.bit_spec hs₂ wy, if_pos h2, ty, if_neg (by omega)]
  simp only [h2, decide_true, Bool.true_and]
  congr 1
  have hn := C07.is_negative_iff d.hw₁ d.hn₁ hx
  have hW : 0 < w₁ * n₁ := Nat.mul_pos d.hw₁ d.hn₁
  obtain ⟨k, hk⟩ : ∃ k, w₁ * n₁ = k + 1 := ⟨w₁ * n₁ - 1, by omega⟩
  have hu : U w₁ x < 2 ^ (k + 1) := by have := U_lt hx; unfold M at this; rwa [hk] at this
  have hM : M w₁ n₁ = 2 ^ (k + 1) := by unfold M; rw [hk]
  have hp : 2 ^ (k + 1) = 2 * 2 ^ k := by rw [Nat.pow_succ]; omega
  have key : S w₁ x < 0 ↔ 2 ^ k ≤ U w₁ x := by
    rw [S_eq hx, hM]; unfold toInt; split <;> omega
  rw [hk, Nat.add_sub_cancel, testBit_top hu]
  exact (Bool.eq_iff_iff.mpr (by rw [hn, key]; simp)).symm
example : (castBnum (2 ^ 3) true [0x21, 0x84] (2 ^ 4) 2 false).bind (fun y => UI.bit (2 ^ 4) y 27)
    = .ok (isNegative (2 ^ 3) [0x21, 0x84]) ∧ isNegative (2 ^ 3) [0x21, 0x84] = true := by decide

/-- `a.saturating_add(b) == min((a as Wide) + (b as Wide), MAX as Wide) as Narrow` for any unsigned
    type with at least one more bit -/
theorem u_saturating_add_via_wide (d : Dims w₁ n₁ w₂ n₂) (hW : w₁ * n₁ + 1 ≤ w₂ * n₂)
    (ha : WF w₁ n₁ a) (hb : WF w₁ n₁ b) :
    (map₂ (UI.wrappingAdd w₂) (castBnum w₁ false a w₂ n₂ false) (castBnum w₁ false b w₂ n₂ false)).bind
      (fun s => (castBnum w₁ false (allOnes w₁ n₁) w₂ n₂ false).bind fun mx =>
        castBnum w₂ false (CmpImpl.min UI.cmp s mx) w₁ n₁ false) = .ok (UI.saturatingAdd w₁ a b) := by
  obtain ⟨a', ha', wa', ua'⟩ := cast_zext d false (by omega) ha
  obtain ⟨b', hb', wb', ub'⟩ := cast_zext d false (by omega) hb
  obtain ⟨mx, hmx, wmx, umx⟩ := cast_zext d false (by omega) (WF_allOnes w₁ n₁)
  rw [ha', hb', map₂_ok, bind_ok, hmx, bind_ok]
  obtain ⟨s0, sv⟩ := C01.u_wrapping_add wa' wb'
  obtain ⟨r0, rv⟩ := C01.u_saturating_add ha hb
  have h2 := two_M_le hW; have hu := U_lt ha; have hub := U_lt hb; have hM := M_pos w₁ n₁
  have hs : U w₂ (UI.wrappingAdd w₂ a' b') = U w₁ a + U w₁ b := by
    have := wrapU_of_rep (m := M w₂ n₂) (z := (U w₂ a' : Int) + U w₂ b') (by unfold repU; omega)
    omega
  apply cast_eq_of_rep d.symm false false (wf_umin s0 wmx)
  simp only [valOf, Bool.false_eq_true, if_false]
  rw [U_umin s0 wmx, hs, umx, U_allOnes]
  refine rep_of_add_mul 0 r0 ?_
  rw [rv]; unfold Spec.clamp Spec.minV Spec.maxV
  simp only [Bool.false_eq_true, if_false, Nat.min_def]
  split_ifs <;> push_cast <;> omega
example : (map₂ (UI.wrappingAdd 16) (castBnum 8 false [200, 255] 16 2 false) (castBnum 8 false [100, 0] 16 2 false)).bind
      (fun s => (castBnum 8 false (allOnes 8 2) 16 2 false).bind fun mx =>
        castBnum 16 false (CmpImpl.min UI.cmp s mx) 8 2 false) = .ok (UI.saturatingAdd 8 [200, 255] [100, 0]) ∧
    UI.saturatingAdd 8 [200, 255] [100, 0] = [255, 255] := by decide

/-- `a.saturating_sub(b) == max((a as IWide) - (b as IWide), 0) as Narrow` for any SIGNED type with
    at least one more bit -/
theorem u_saturating_sub_via_wide (d : Dims w₁ n₁ w₂ n₂) (hW : w₁ * n₁ + 1 ≤ w₂ * n₂)
    (ha : WF w₁ n₁ a) (hb : WF w₁ n₁ b) :
    (map₂ (II.wrappingSub w₂) (castBnum w₁ false a w₂ n₂ true) (castBnum w₁ false b w₂ n₂ true)).bind
      (fun s => castBnum w₂ true (CmpImpl.max (II.cmp w₂) s (zero n₂)) w₁ n₁ false)
      = .ok (UI.saturatingSub w₁ a b) := by
  have h2 := two_M_le hW; have hu := U_lt ha; have hub := U_lt hb; have hM := M_pos w₁ n₁
  have fit : ∀ {x : List Nat}, WF w₁ n₁ x → repOf true (M w₂ n₂) (valOf false w₁ x) := fun hx => by
    have := U_lt hx
    simp only [repOf, valOf, repS, if_true, Bool.false_eq_true, if_false]; constructor <;> omega
  obtain ⟨a', ha', wa', sa'⟩ := cast_val d false true ha (fit ha)
  obtain ⟨b', hb', wb', sb'⟩ := cast_val d false true hb (fit hb)
  simp only [valOf, if_true, Bool.false_eq_true, if_false] at sa' sb'
  rw [ha', hb', map₂_ok, bind_ok]
  obtain ⟨s0, sv⟩ := C01.i_wrapping_sub wa' wb'
  obtain ⟨r0, rv⟩ := C01.u_saturating_sub ha hb
  have hs : S w₂ (II.wrappingSub w₂ a' b') = (U w₁ a : Int) - U w₁ b := by
    rw [sv, sa', sb']; exact wrapS_of_rep (M_pos w₂ n₂) (by unfold repS; omega)
  have wz := WF_zero w₂ n₂
  apply cast_eq_of_rep d.symm true false (wf_imax d.hw₂ d.hn₂ s0 wz)
  simp only [valOf, if_true]
  rw [S_imax d.hw₂ d.hn₂ s0 wz, hs, S_zero]
  refine rep_of_add_mul 0 r0 ?_
  rw [rv]; unfold Spec.clamp Spec.minV Spec.maxV
  simp only [Bool.false_eq_true, if_false, Int.max_def]
  split_ifs <;> omega
example : (map₂ (II.wrappingSub 16) (castBnum 8 false [100, 0] 16 2 true) (castBnum 8 false [200, 255] 16 2 true)).bind
      (fun s => castBnum 16 true (CmpImpl.max (II.cmp 16) s (zero 2)) 8 2 false)
      = .ok (UI.saturatingSub 8 [100, 0] [200, 255]) ∧ UI.saturatingSub 8 [100, 0] [200, 255] = [0, 0] ∧
    (map₂ (II.wrappingSub 16) (castBnum 8 false [100, 7] 16 2 true) (castBnum 8 false [200, 2] 16 2 true)).bind
      (fun s => castBnum 16 true (CmpImpl.max (II.cmp 16) s (zero 2)) 8 2 false)
      = .ok (UI.saturatingSub 8 [100, 7] [200, 2]) := by decide

/-- `a.saturating_add(b) == ((a as Wide) + (b as Wide)).clamp(MIN as Wide, MAX as Wide) as Narrow`
    (signed; any signed type with at least one more bit); likewise `saturating_sub` -/
theorem i_saturating_add_via_wide (d : Dims w₁ n₁ w₂ n₂) (hw₁ : 2 ≤ w₁) (hW : w₁ * n₁ + 1 ≤ w₂ * n₂)
    (ha : WF w₁ n₁ a) (hb : WF w₁ n₁ b) :
    ((map₂ (II.wrappingAdd w₂) (castBnum w₁ true a w₂ n₂ true) (castBnum w₁ true b w₂ n₂ true)).bind
      (fun s => bind₂ (CmpImpl.clamp (II.cmp w₂) s) (castBnum w₁ true (iMin w₁ n₁) w₂ n₂ true)
        (castBnum w₁ true (iMax w₁ n₁) w₂ n₂ true))).bind (fun r => castBnum w₂ true r w₁ n₁ true)
      = .ok (II.saturatingAdd w₁ a b) := by
  have h2 := two_M_le hW; have hM := M_pos w₁ n₁; have hE := M_even d.hw₁ d.hn₁
  have fit : ∀ {x : List Nat}, WF w₁ n₁ x → repOf true (M w₂ n₂) (valOf true w₁ x) := fun hx =>
    repOf_mono (s := true) (M_le_of_le (by omega)) (repOf_valOf true d.hw₁ d.hn₁ hx)
  obtain ⟨a', ha', wa', sa'⟩ := cast_val d true true ha (fit ha)
  obtain ⟨b', hb', wb', sb'⟩ := cast_val d true true hb (fit hb)
  obtain ⟨mn, hmn, wmn, smn⟩ := cast_val d true true (WF_iMin d.hw₁ d.hn₁) (fit (WF_iMin d.hw₁ d.hn₁))
  obtain ⟨mx, hmx, wmx, smx⟩ := cast_val d true true (WF_iMax d.hw₁ d.hn₁) (fit (WF_iMax d.hw₁ d.hn₁))
  simp only [valOf, if_true] at sa' sb' smn smx
  rw [S_iMin d.hw₁ d.hn₁] at smn; rw [S_iMax d.hw₁ d.hn₁] at smx
  have ra := repOf_valOf true d.hw₁ d.hn₁ ha; have rb := repOf_valOf true d.hw₁ d.hn₁ hb
  simp only [repOf, valOf, if_true, repS] at ra rb
  rw [ha', hb', map₂_ok, bind_ok, hmn, hmx]; simp only [bind₂, bind_ok]
  obtain ⟨s0, sv⟩ := C01.i_wrapping_add wa' wb'
  obtain ⟨r0, rv⟩ := C01.i_saturating_add hw₁ d.hn₁ ha hb
  have hs : S w₂ (II.wrappingAdd w₂ a' b') = S w₁ a + S w₁ b := by
    rw [sv, sa', sb']; exact wrapS_of_rep (M_pos w₂ n₂) (by unfold repS; omega)
  obtain ⟨c, hc, wc, sc⟩ := (C07.i_clamp_spec d.hw₂ d.hn₂ s0 wmn wmx).2 (by rw [smn, smx]; omega)
  rw [hc, bind_ok]
  apply cast_eq_of_rep d.symm true true wc
  simp only [valOf, if_true]
  rw [sc, smn, smx, hs]
  have : Rep w₁ n₁ (II.saturatingAdd w₁ a b) (S w₁ (II.saturatingAdd w₁ a b)) := rep_S r0
  rw [rv] at this
  convert this using 1
  unfold Spec.clamp Spec.minV Spec.maxV
  simp only [if_true, Int.max_def, Int.min_def]
  split_ifs <;> push_cast <;> omega
example : ((map₂ (II.wrappingAdd 16) (castBnum 8 true [0, 128] 16 2 true) (castBnum 8 true [200, 255] 16 2 true)).bind
      (fun s => bind₂ (CmpImpl.clamp (II.cmp 16) s) (castBnum 8 true (iMin 8 2) 16 2 true)
        (castBnum 8 true (iMax 8 2) 16 2 true))).bind (fun r => castBnum 16 true r 8 2 true)
      = .ok (II.saturatingAdd 8 [0, 128] [200, 255]) ∧ II.saturatingAdd 8 [0, 128] [200, 255] = [0, 128] := by
  decide

end Arith

end Bnum.Laws3
