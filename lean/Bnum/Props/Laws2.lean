/-
  Bnum.Props.Laws2 — EXTENSION beyond properties C01–C20 and beyond Props/Laws.lean: CROSS-MODULE laws,
  i.e. statements that relate model functions of DIFFERENT modules to each other (bit structure <->
  arithmetic <-> order <-> division <-> gcd/roots <-> pow/log <-> numerals), for `BUint<N>` (`UI.*`,
  `NumT.U.*`) and `BInt<N>` (`II.*`), every digit width `w` and digit count `n` (hypotheses exactly
  where the underlying spec theorems need them: `1 ≤ w` / `2 ≤ w`, `1 ≤ n`; `w = 2^s`, `s < 32` where
  `power_of_two` / `bit` / `set_bit` / the roots are involved; `8 ≤ w` for the numerals; `w * n < 2^32`
  for `ilog`/`ilog10`, as in C08), all operands well-formed (`WF w n`).

  Every law is stated about the MODEL functions and is a corollary of the spec theorems of
  Props/C01–C03, C05–C08, C11, C18 (helpers: Lemmas/Laws2.lean, namespace `Bnum.Laws2`): results are
  well-formed digit lists denoting the same value, hence identical by `U_injective` /
  `Cmp.S_injective`; counts and flags are compared through the executable `Spec` functions.
  Each theorem is followed by a concrete non-trivial instance checked by `decide`.  A law that is false
  as first written is stated in its correct form and the counterexample of the naive form is recorded
  as a theorem proved by `decide` (`…_counterexample`).  All theorems depend only on `propext`,
  `Classical.choice`, `Quot.sound` (Audit/Laws2.lean).

  Sections
   A. bit counts: `count_ones + count_zeros = BITS`, complements, `bits = BITS - leading_zeros`,
      `leading/trailing_zeros = BITS ↔ 0`, `leading/trailing_ones` via `!`, `reverse_bits` exchanges
      leading and trailing zeros, `count_ones` invariant under `reverse_bits`/`swap_bytes`/rotations.
   B. bit structure vs value: `k ≤ leading_zeros ↔ a < 2^(BITS-k)`, `k ≤ trailing_zeros ↔ 2^k ∣ a`,
      `is_power_of_two ↔ count_ones = 1`, `ilog2 = bits - 1 = BITS - 1 - leading_zeros`, counts of
      `power_of_two(k)`, Kernighan's `a & (a-1) = 0`, `checked_next_power_of_two` (least, `< 2a`),
      idempotence of `next_power_of_two`.
   C. order vs arithmetic: unsigned `<` = borrow of `overflowing_sub`, `≥` = `checked_sub` is `Some`,
      `a ^ b = 0 ↔ a = b`, `abs_diff = 0 ↔ a = b`, `max - min = abs_diff`, `is_negative = (a < 0)`,
      signed `<` = sign XOR overflow of the difference, `signum`, `unsigned_abs = abs_diff(a, 0)`,
      `min ≤ midpoint ≤ max`.
   D. division: `a % b < b`, `/ 1`, `% 1`, `a / a`, `0 / b`, `(a * b) / b = a` without overflow,
      `a / b ≤ a`, unsigned Euclid/floor = truncation, signed `0 ≤ rem_euclid < |b|`,
      `div_floor ≤ div_ceil ≤ div_floor + 1` with equality iff the remainder is zero,
      `next_multiple_of`, `a % 2^k = a & (2^k - 1)`.  (`a >> k = a / power_of_two(k)` is
      `AlgLaws.u_shr_eq_div_pow2` in Props/Laws.lean and is not repeated.)
   E. gcd/lcm/roots: gcd commutative, `gcd(a,0) = gcd(a,a) = a`, gcd divides both, `gcd * lcm = a * b`,
      `sqrt` monotone, `sqrt(a²) = a`, `(sqrt a)² ≤ a` via `checked_mul`, `nth_root` 1/2/3.
   F. pow/shift/log: `power_of_two(k)^e = power_of_two(k e)`, `ilog2(power_of_two k) = k`,
      `ilog(b^e, b) = e`, `ONE << k = power_of_two(k)`, `len(to_str_radix(a, r)) = ilog(a, r) + 1`.
   G. (further) carry ⇔ `a + b < a`, `checked_add = None ⇔ b > !a`, mul overflow ⇔ `(a*b)/b ≠ a`,
      mul overflow vs leading zeros, `min + max = a + b`, `a * 2 = a + a = a << 1`, signed `cmp` =
      unsigned `cmp` after `^ MIN` (= `+ MIN`), inclusion–exclusion for `count_ones`, lowest set bit
      `a & -a = power_of_two(trailing_zeros a)`, monotonicity of `leading_zeros`/`bits`/`ilog2`,
      `rotate_left = shl | shr`, `TWO^k = power_of_two(k)`, `(a >> k) << k = a` for `k ≤ tz`,
      `midpoint = (a + b) >> 1` without carry.
   H. signed division: `/ 1`, `/ -1 = neg`, `a / a`, `0 / b`, magnitude and sign of the remainder,
      Euclidean vs truncating, `div_floor = div_euclid` for positive divisors.
   I. gcd vs bit structure / order / remainders: `tz(gcd) = min(tz a, tz b)`, `gcd ≤ a`,
      `gcd(a,b) = b ⇔ a % b = 0`, the Euclid step `gcd(a,b) = gcd(b, a % b)` for the binary gcd.
   J. `bit`/`set_bit` vs shifts and logic; `ilog(·,2) = ilog2`, `ilog(·,10) = ilog10`,
      `ilog(a,b) = ilog(a/b,b) + 1`, `b^ilog(a,b) ≤ a < b^(ilog(a,b)+1)`.
   K. shifts/arithmetic vs bit length and counts: `bits(a >> k)`, counts of `a << k` when no bit is
      lost, `bits(a+b)`, `bits(a*b)`, `tz + lz < BITS`, `count_ones + tz ≤ bits`.
   L. `is_negative ⇔ leading_zeros = 0`, `a = signum(a)·|a|`, signed `abs_diff` by bias, binary numeral
      length = `bits`, `next_power_of_two(a) = power_of_two(bits(a-1))`, `bits(sqrt a) = ⌈bits a / 2⌉`.

  Laws that are FALSE as first written (correct form proved, counterexample recorded):
   * `k ≤ leading_zeros(a) ↔ a < 2^(BITS-k)` needs `k ≤ BITS` (`le_leading_zeros_iff_counterexample`);
   * `k ≤ trailing_zeros(a) ↔ 2^k ∣ a` needs `a ≠ 0` (`le_trailing_zeros_iff_counterexample`);
   * signed `a < b ↔ (a - b) is negative` fails when the subtraction overflows; the correct rule is
     sign XOR overflow (`i_lt_eq_sign_of_sub_counterexample`, `i_lt_eq_sign_xor_overflow`);
   * `(a * b) / b = a` fails when the product wraps (`u_mul_div_cancel_counterexample`);
   * `div_floor = div_euclid` fails for negative divisors (`i_div_floor_eq_div_euclid_counterexample`);
   * `midpoint(a, b) = (a + b) >> 1` fails with carry (`u_midpoint_eq_add_shr_one_counterexample`);
   * `count_ones(a << k) = count_ones(a)` fails when set bits are shifted out
     (`count_ones_shl_counterexample`);
   * between the two leading-zero criteria for multiplication overflow (`lz a + lz b = BITS - 1`)
     both outcomes occur (`u_mul_leading_zeros_gap`).
  Nothing of the requested list is left unproved.
-/
import Bnum.Lemmas.Laws2

namespace Bnum.Laws2
open Bnum

variable {w n : Nat} {a b c : List Nat}

/-! ## A. bit counts -/

/-- `count_ones(a) + count_zeros(a) = BITS` -/
theorem count_ones_add_count_zeros (ha : WF w n a) :
    UI.countOnes w a + UI.countZeros w a = w * n := countOnes_add_countZeros ha
theorem i_count_ones_add_count_zeros (ha : WF w n a) :
    II.countOnes w a + II.countZeros w a = w * n := countOnes_add_countZeros ha
example : UI.countOnes 8 [0xf0, 0x3c, 0x01] + UI.countZeros 8 [0xf0, 0x3c, 0x01] = 8 * 3 := by decide

/-- `count_ones(!a) = count_zeros(a)`, `count_zeros(!a) = count_ones(a)` -/
theorem count_ones_not (ha : WF w n a) : UI.countOnes w (UI.not w a) = UI.countZeros w a :=
  countOnes_not ha
theorem count_zeros_not (ha : WF w n a) : UI.countZeros w (UI.not w a) = UI.countOnes w a :=
  countZeros_not ha
theorem i_count_ones_not (ha : WF w n a) : II.countOnes w (II.not w a) = II.countZeros w a :=
  countOnes_not ha
example : UI.countOnes 8 (UI.not 8 [0xf0, 0x3c, 0x01]) = UI.countZeros 8 [0xf0, 0x3c, 0x01] := by decide

/-- `bits(a) = BITS - leading_zeros(a)` (and the subtraction does not truncate) -/
theorem bits_eq_sub_leading_zeros (ha : WF w n a) :
    UI.bits w a = w * n - UI.leadingZeros w a ∧ UI.bits w a + UI.leadingZeros w a = w * n :=
  ⟨bits_eq ha, bits_add_leadingZeros ha⟩
example : UI.bits 8 [0xf0, 0x3c, 0x00] = 8 * 3 - UI.leadingZeros 8 [0xf0, 0x3c, 0x00] ∧
    UI.bits 8 [0xf0, 0x3c, 0x00] = 14 := by decide

/-- `leading_zeros(a) = BITS ↔ a = 0`, `trailing_zeros(a) = BITS ↔ a = 0` -/
theorem leading_zeros_eq_bits_iff (ha : WF w n a) : UI.leadingZeros w a = w * n ↔ a = zero n :=
  leadingZeros_eq_bits_iff ha
theorem trailing_zeros_eq_bits_iff (ha : WF w n a) : UI.trailingZeros w a = w * n ↔ a = zero n :=
  trailingZeros_eq_bits_iff ha
example : UI.leadingZeros 8 (zero 3) = 8 * 3 ∧ UI.trailingZeros 8 (zero 3) = 8 * 3 ∧
    UI.leadingZeros 8 [0, 0, 1] ≠ 8 * 3 ∧ UI.trailingZeros 8 [0, 0, 0x80] ≠ 8 * 3 := by decide

/-- `leading_ones(a) = leading_zeros(!a)`, `trailing_ones(a) = trailing_zeros(!a)`
    (the model has four separately written loops) -/
theorem leading_ones_eq_leading_zeros_not (ha : WF w n a) :
    UI.leadingOnes w a = UI.leadingZeros w (UI.not w a) := (C06.ones_spec ha).1
theorem trailing_ones_eq_trailing_zeros_not (ha : WF w n a) :
    UI.trailingOnes w a = UI.trailingZeros w (UI.not w a) := (C06.ones_spec ha).2.1
/-- … and dually `leading_zeros(a) = leading_ones(!a)`, `trailing_zeros(a) = trailing_ones(!a)` -/
theorem leading_zeros_eq_leading_ones_not (ha : WF w n a) :
    UI.leadingZeros w a = UI.leadingOnes w (UI.not w a) := by
  rw [(C06.ones_spec (Laws.wf_not ha)).1, AlgLaws.u_not_not ha]
theorem trailing_zeros_eq_trailing_ones_not (ha : WF w n a) :
    UI.trailingZeros w a = UI.trailingOnes w (UI.not w a) := by
  rw [(C06.ones_spec (Laws.wf_not ha)).2.1, AlgLaws.u_not_not ha]
example : UI.leadingOnes 8 [0x01, 0xff, 0xfb] = UI.leadingZeros 8 (UI.not 8 [0x01, 0xff, 0xfb]) ∧
    UI.trailingOnes 8 [0xff, 0x07, 0x00] = UI.trailingZeros 8 (UI.not 8 [0xff, 0x07, 0x00]) ∧
    UI.trailingOnes 8 [0xff, 0x07, 0x00] = 11 := by decide

/-- `reverse_bits` exchanges `leading_zeros` and `trailing_zeros` -/
theorem leading_zeros_reverse_bits (hw : 1 ≤ w) (ha : WF w n a) :
    UI.leadingZeros w (UI.reverseBits w a) = UI.trailingZeros w a := leadingZeros_reverseBits hw ha
theorem trailing_zeros_reverse_bits (hw : 1 ≤ w) (ha : WF w n a) :
    UI.trailingZeros w (UI.reverseBits w a) = UI.leadingZeros w a := trailingZeros_reverseBits hw ha
example : UI.leadingZeros 8 (UI.reverseBits 8 [0x00, 0x38, 0x01]) = UI.trailingZeros 8 [0x00, 0x38, 0x01] ∧
    UI.trailingZeros 8 (UI.reverseBits 8 [0x00, 0x38, 0x01]) = UI.leadingZeros 8 [0x00, 0x38, 0x01] ∧
    UI.trailingZeros 8 [0x00, 0x38, 0x01] = 11 := by decide

/-- `count_ones` is invariant under `reverse_bits`, `swap_bytes` (digit width `8*nb`) and rotations -/
theorem count_ones_reverse_bits (hw : 1 ≤ w) (ha : WF w n a) :
    UI.countOnes w (UI.reverseBits w a) = UI.countOnes w a := countOnes_reverseBits hw ha
theorem count_ones_swap_bytes {nb : Nat} (hnb : 1 ≤ nb) (ha : WF (8 * nb) n a) :
    UI.countOnes (8 * nb) (UI.swapBytes (8 * nb) a) = UI.countOnes (8 * nb) a :=
  countOnes_swapBytes hnb ha
theorem count_ones_rotate_left (hw : 1 ≤ w) (hn : 1 ≤ n) (ha : WF w n a) (k : Nat) :
    UI.countOnes w (UI.rotateLeft w a k) = UI.countOnes w a := countOnes_rotateLeft hw hn ha k
theorem count_ones_rotate_right (hw : 1 ≤ w) (hn : 1 ≤ n) (ha : WF w n a) (k : Nat) :
    UI.countOnes w (UI.rotateRight w a k) = UI.countOnes w a := by
  have h1 := (C05.rotr_spec hw hn ha k).1
  have := countOnes_rotateLeft hw hn h1 k
  rw [C05.rotl_rotr hw hn ha k] at this; exact this.symm
example : UI.countOnes 8 (UI.reverseBits 8 [0xf0, 0x3c, 0x01]) = UI.countOnes 8 [0xf0, 0x3c, 0x01] ∧
    UI.countOnes (8 * 2) (UI.swapBytes (8 * 2) [0x0123, 0x4567]) = UI.countOnes (8 * 2) [0x0123, 0x4567] ∧
    UI.countOnes 8 (UI.rotateLeft 8 [0xf0, 0x3c, 0x01] 13) = UI.countOnes 8 [0xf0, 0x3c, 0x01] ∧
    UI.countOnes 8 (UI.rotateRight 8 [0xf0, 0x3c, 0x01] 29) = 9 := by decide

/-! ## B. bit structure versus value -/

/-- `k ≤ leading_zeros(a) ↔ a < 2^(BITS-k)` for `k ≤ BITS` … -/
theorem le_leading_zeros_iff {k : Nat} (ha : WF w n a) (hk : k ≤ w * n) :
    k ≤ UI.leadingZeros w a ↔ U w a < 2 ^ (w * n - k) := le_leadingZeros_iff ha hk
example : 10 ≤ UI.leadingZeros 8 [0xff, 0x3f, 0x00] ∧ U 8 [0xff, 0x3f, 0x00] < 2 ^ (8 * 3 - 10) ∧
    ¬ 11 ≤ UI.leadingZeros 8 [0xff, 0x3f, 0x00] := by decide
/-- … the naive form without `k ≤ BITS` is false (`a = 0`, `k = BITS + 1`: truncated subtraction) -/
theorem le_leading_zeros_iff_counterexample :
    ¬ (9 ≤ UI.leadingZeros 8 (zero 1) ↔ U 8 (zero 1) < 2 ^ (8 * 1 - 9)) := by decide

/-- for `a ≠ 0`: `k ≤ trailing_zeros(a) ↔ 2^k ∣ a` … -/
theorem le_trailing_zeros_iff {k : Nat} (ha : WF w n a) (h0 : a ≠ zero n) :
    k ≤ UI.trailingZeros w a ↔ 2 ^ k ∣ U w a := le_trailingZeros_iff ha h0
example : 11 ≤ UI.trailingZeros 8 [0x00, 0x38, 0x01] ∧ 2 ^ 11 ∣ U 8 [0x00, 0x38, 0x01] ∧
    ¬ 12 ≤ UI.trailingZeros 8 [0x00, 0x38, 0x01] := by decide
/-- … and false for `a = 0` (`trailing_zeros(0) = BITS` although every `2^k` divides `0`) -/
theorem le_trailing_zeros_iff_counterexample :
    ¬ (9 ≤ UI.trailingZeros 8 (zero 1) ↔ 2 ^ 9 ∣ U 8 (zero 1)) := by decide

/-- `is_power_of_two(a) ↔ count_ones(a) = 1` (the model's `is_power_of_two` is an early-exit loop) -/
theorem is_power_of_two_iff_count_ones (ha : WF w n a) :
    UI.isPowerOfTwo w a = true ↔ UI.countOnes w a = 1 := isPowerOfTwo_iff_countOnes ha
example : UI.isPowerOfTwo 8 [0x00, 0x20, 0x00] = true ∧ UI.countOnes 8 [0x00, 0x20, 0x00] = 1 ∧
    UI.isPowerOfTwo 8 [0x01, 0x20, 0x00] = false := by decide

/-- for `a > 0`: `ilog2(a) = bits(a) - 1 = BITS - 1 - leading_zeros(a)`; `ilog2(0)` panics -/
theorem ilog2_eq_bits_sub_one (ha : WF w n a) (h0 : a ≠ zero n) :
    UI.ilog2 w a = .ok (UI.bits w a - 1) ∧ UI.ilog2 w a = .ok (w * n - 1 - UI.leadingZeros w a) ∧
    1 ≤ UI.bits w a := ⟨ilog2_eq_bits ha h0, ilog2_eq_leadingZeros ha h0, bits_pos ha h0⟩
theorem ilog2_zero_panics (w n : Nat) : UI.ilog2 w (zero n) = .panic := ilog2_zero w n
example : UI.ilog2 8 [0xf0, 0x3c, 0x00] = .ok 13 ∧ UI.bits 8 [0xf0, 0x3c, 0x00] = 14 ∧
    UI.leadingZeros 8 [0xf0, 0x3c, 0x00] = 10 := by decide

/-- `power_of_two(k)` (digit width `2^s`): value `2^k`, `trailing_zeros = k`, `count_ones = 1`,
    `leading_zeros = BITS - 1 - k`, `bits = k + 1`, and it is a power of two -/
theorem power_of_two_counts {s k : Nat} (hs : s < 32) {r : List Nat}
    (h : UI.powerOfTwo (2 ^ s) n k = .ok r) :
    k < 2 ^ s * n ∧ WF (2 ^ s) n r ∧ U (2 ^ s) r = 2 ^ k ∧
    UI.trailingZeros (2 ^ s) r = k ∧ UI.countOnes (2 ^ s) r = 1 ∧
    UI.leadingZeros (2 ^ s) r = 2 ^ s * n - 1 - k ∧ UI.isPowerOfTwo (2 ^ s) r = true ∧
    UI.bits (2 ^ s) r = k + 1 := powerOfTwo_counts hs h
example : UI.powerOfTwo (2 ^ 3) 3 13 = .ok [0x00, 0x20, 0x00] ∧
    UI.trailingZeros (2 ^ 3) [0x00, 0x20, 0x00] = 13 ∧ UI.countOnes (2 ^ 3) [0x00, 0x20, 0x00] = 1 := by
  decide

/-- Kernighan's test: `a & (a - 1) = 0 ↔ a = 0 ∨ is_power_of_two(a)` (`-` = `wrapping_sub`) -/
theorem and_sub_one_eq_zero_iff' (hw : 1 ≤ w) (hn : 1 ≤ n) (ha : WF w n a) :
    UI.bitand a (UI.wrappingSub w a (one n)) = zero n ↔
      a = zero n ∨ UI.isPowerOfTwo w a = true := and_sub_one_eq_zero_iff hw hn ha
example : UI.bitand [0x00, 0x20, 0x00] (UI.wrappingSub 8 [0x00, 0x20, 0x00] (one 3)) = zero 3 ∧
    UI.bitand [0x00, 0x30, 0x00] (UI.wrappingSub 8 [0x00, 0x30, 0x00] (one 3)) ≠ zero 3 ∧
    UI.bitand (zero 3) (UI.wrappingSub 8 (zero 3) (one 3)) = zero 3 := by decide

/-- `checked_next_power_of_two(a) = Some(p)` ⟹ `p` is a power of two, `a ≤ p`, `p < 2a` for
    `a ≥ 1`, and `p` is the least such power of two -/
theorem checked_next_power_of_two_some {s : Nat} (hs : s < 32) (ha : WF (2 ^ s) n a) {p : List Nat}
    (h : UI.checkedNextPowerOfTwo (2 ^ s) a = .ok (some p)) :
    WF (2 ^ s) n p ∧ UI.isPowerOfTwo (2 ^ s) p = true ∧ U (2 ^ s) a ≤ U (2 ^ s) p ∧
    (1 ≤ U (2 ^ s) a → U (2 ^ s) p < 2 * U (2 ^ s) a) ∧
    (∀ q, WF (2 ^ s) n q → UI.isPowerOfTwo (2 ^ s) q = true → U (2 ^ s) a ≤ U (2 ^ s) q →
      U (2 ^ s) p ≤ U (2 ^ s) q) := checkedNextPowerOfTwo_some hs ha h
example : UI.checkedNextPowerOfTwo (2 ^ 3) [0x01, 0x20, 0x00] = .ok (some [0x00, 0x40, 0x00]) ∧
    UI.isPowerOfTwo (2 ^ 3) [0x00, 0x40, 0x00] = true := by decide

/-- `next_power_of_two` fixes the powers of two, hence is idempotent -/
theorem next_power_of_two_of_power_of_two (dbg : Bool) (h : UI.isPowerOfTwo w a = true) :
    UI.checkedNextPowerOfTwo w a = .ok (some a) ∧ UI.nextPowerOfTwo dbg w a = .ok a ∧
    UI.wrappingNextPowerOfTwo w a = .ok a :=
  ⟨checkedNextPowerOfTwo_of_pow2 h, nextPowerOfTwo_of_pow2 dbg h⟩
theorem next_power_of_two_idempotent {s : Nat} (hs : s < 32) (dbg : Bool) (ha : WF (2 ^ s) n a)
    {p : List Nat} (h : UI.checkedNextPowerOfTwo (2 ^ s) a = .ok (some p)) :
    UI.checkedNextPowerOfTwo (2 ^ s) p = .ok (some p) ∧ UI.nextPowerOfTwo dbg (2 ^ s) p = .ok p :=
  nextPowerOfTwo_idem hs dbg ha h
example : UI.nextPowerOfTwo true (2 ^ 3) [0x01, 0x20, 0x00] = .ok [0x00, 0x40, 0x00] ∧
    UI.nextPowerOfTwo true (2 ^ 3) [0x00, 0x40, 0x00] = .ok [0x00, 0x40, 0x00] := by decide

/-! ## C. order versus arithmetic -/

/-- unsigned `a < b` is the borrow out of `a - b`; `a ≥ b` ⇔ `checked_sub` succeeds -/
theorem u_lt_eq_overflowing_sub_flag (ha : WF w n a) (hb : WF w n b) :
    CmpImpl.lt UI.cmp a b = (UI.overflowingSub w a b).2 := u_lt_eq_borrow ha hb
theorem u_ge_eq_checked_sub_is_some (ha : WF w n a) (hb : WF w n b) :
    CmpImpl.ge UI.cmp a b = (UI.checkedSub w a b).isSome := u_ge_iff_checkedSub ha hb
example : CmpImpl.lt UI.cmp [200, 7, 3] [100, 250, 3] = (UI.overflowingSub 8 [200, 7, 3] [100, 250, 3]).2 ∧
    (UI.overflowingSub 8 [200, 7, 3] [100, 250, 3]).2 = true ∧
    CmpImpl.ge UI.cmp [100, 250, 3] [200, 7, 3] = (UI.checkedSub 8 [100, 250, 3] [200, 7, 3]).isSome := by
  decide

/-- `a ^ b = 0 ↔ a = b` -/
theorem xor_eq_zero_iff' (ha : WF w n a) (hb : WF w n b) : UI.bitxor a b = zero n ↔ a = b :=
  xor_eq_zero_iff ha hb
theorem eq_iff_xor_eq_zero (ha : WF w n a) (hb : WF w n b) :
    UI.eq a b = true ↔ UI.bitxor a b = zero n := by
  rw [(C07.u_eq_iff ha hb).1, xor_eq_zero_iff ha hb]
example : UI.bitxor [200, 7, 3] [200, 7, 3] = zero 3 ∧ UI.bitxor [200, 7, 3] [200, 7, 2] ≠ zero 3 ∧
    UI.eq [200, 7, 3] [200, 7, 2] = false := by decide

/-- `abs_diff(a, b) = 0 ↔ a = b` (unsigned and signed) -/
theorem u_abs_diff_eq_zero_iff (ha : WF w n a) (hb : WF w n b) :
    UI.absDiff w a b = zero n ↔ a = b := u_absDiff_eq_zero_iff ha hb
theorem i_abs_diff_eq_zero_iff (hw : 1 ≤ w) (hn : 1 ≤ n) (ha : WF w n a) (hb : WF w n b) :
    II.absDiff w a b = zero n ↔ a = b := i_absDiff_eq_zero_iff hw hn ha hb
example : UI.absDiff 8 [200, 7, 3] [200, 7, 3] = zero 3 ∧ II.absDiff 8 [0, 0, 128] [255, 255, 127] ≠ zero 3 := by
  decide

/-- unsigned `max(a, b) - min(a, b) = abs_diff(a, b)` (`wrapping_sub`) -/
theorem u_max_sub_min_eq_abs_diff (ha : WF w n a) (hb : WF w n b) :
    UI.wrappingSub w (CmpImpl.max UI.cmp a b) (CmpImpl.min UI.cmp a b) = UI.absDiff w a b :=
  u_max_sub_min ha hb
example : UI.wrappingSub 8 (CmpImpl.max UI.cmp [200, 7, 3] [100, 250, 3])
    (CmpImpl.min UI.cmp [200, 7, 3] [100, 250, 3]) = UI.absDiff 8 [200, 7, 3] [100, 250, 3] := by decide

/-- `is_negative(a) = (a < ZERO)`, `is_positive(a) = (a > ZERO)` (sign-bit test vs `cmp`) -/
theorem is_negative_eq_lt_zero (hw : 1 ≤ w) (hn : 1 ≤ n) (ha : WF w n a) :
    isNegative w a = CmpImpl.lt (II.cmp w) a (zero n) := i_isNegative_eq_lt_zero hw hn ha
theorem is_positive_eq_gt_zero (hw : 1 ≤ w) (hn : 1 ≤ n) (ha : WF w n a) :
    II.isPositive w a = CmpImpl.gt (II.cmp w) a (zero n) := i_isPositive_eq_gt_zero hw hn ha
example : isNegative 8 [0, 0, 128] = CmpImpl.lt (II.cmp 8) [0, 0, 128] (zero 3) ∧
    isNegative 8 [0, 0, 128] = true ∧ II.isPositive 8 [0, 1, 0] = CmpImpl.gt (II.cmp 8) [0, 1, 0] (zero 3) := by
  decide

/-- signed `a < b` ⇔ sign bit of the wrapped difference XOR the overflow flag (the `N ≠ V` rule);
    without overflow it is just the sign bit of `a - b` … -/
theorem i_lt_eq_sign_xor_overflow (hw : 2 ≤ w) (hn : 1 ≤ n) (ha : WF w n a) (hb : WF w n b) :
    CmpImpl.lt (II.cmp w) a b =
      (isNegative w (II.overflowingSub w a b).1 != (II.overflowingSub w a b).2) :=
  i_lt_eq_neg_xor_ovf hw hn ha hb
theorem i_lt_eq_sign_of_sub (hw : 2 ≤ w) (hn : 1 ≤ n) (ha : WF w n a) (hb : WF w n b)
    (hno : (II.overflowingSub w a b).2 = false) :
    CmpImpl.lt (II.cmp w) a b = isNegative w (II.wrappingSub w a b) :=
  i_lt_iff_sub_neg hw hn ha hb hno
example : CmpImpl.lt (II.cmp 8) [0, 0, 128] [5, 0, 0] = true ∧
    isNegative 8 (II.overflowingSub 8 [0, 0, 128] [5, 0, 0]).1 = false ∧
    (II.overflowingSub 8 [0, 0, 128] [5, 0, 0]).2 = true := by decide
/-- … and the naive form "`a < b` ⇔ `a - b` is negative" is false when the subtraction overflows -/
theorem i_lt_eq_sign_of_sub_counterexample :
    CmpImpl.lt (II.cmp 8) [0, 0, 128] [5, 0, 0] ≠ isNegative 8 (II.wrappingSub 8 [0, 0, 128] [5, 0, 0]) := by
  decide

/-- `signum(a) = 0 ↔ a = 0`; `signum` by `is_negative` / `is_positive` -/
theorem signum_eq_zero_iff' (hw : 2 ≤ w) (hn : 1 ≤ n) (ha : WF w n a) :
    II.signum w a = zero n ↔ a = zero n := signum_eq_zero_iff hw hn ha
theorem signum_eq_by_sign_tests (hw : 2 ≤ w) (hn : 1 ≤ n) (ha : WF w n a) :
    II.signum w a = (if isNegative w a then II.negOne w n else if II.isPositive w a then one n
      else zero n) := signum_cases hw hn ha
example : II.signum 8 (zero 3) = zero 3 ∧ II.signum 8 [0, 0, 128] = II.negOne 8 3 ∧
    II.signum 8 [0, 1, 0] = one 3 := by decide

/-- `unsigned_abs(a) = abs_diff(a, 0)` -/
theorem unsigned_abs_eq_abs_diff_zero (hw : 2 ≤ w) (hn : 1 ≤ n) (ha : WF w n a) :
    II.unsignedAbs w a = II.absDiff w a (zero n) := unsignedAbs_eq_absDiff_zero hw hn ha
example : II.unsignedAbs 8 [0, 0, 128] = II.absDiff 8 [0, 0, 128] (zero 3) ∧
    II.unsignedAbs 8 [251, 255, 255] = [5, 0, 0] := by decide

/-- `min(a, b) ≤ midpoint(a, b) ≤ max(a, b)` (never panics; unsigned and signed) -/
theorem u_midpoint_between_min_max (dbg : Bool) (hw : 2 ≤ w) (hn : 1 ≤ n) (ha : WF w n a)
    (hb : WF w n b) :
    ∃ r, UI.midpoint dbg w a b = .ok r ∧ WF w n r ∧
      CmpImpl.le UI.cmp (CmpImpl.min UI.cmp a b) r = true ∧
      CmpImpl.le UI.cmp r (CmpImpl.max UI.cmp a b) = true := u_midpoint_between dbg hw hn ha hb
theorem i_midpoint_between_min_max (dbg : Bool) (hw : 2 ≤ w) (hn : 1 ≤ n) (ha : WF w n a)
    (hb : WF w n b) :
    ∃ r, II.midpoint dbg w a b = .ok r ∧ WF w n r ∧
      CmpImpl.le (II.cmp w) (CmpImpl.min (II.cmp w) a b) r = true ∧
      CmpImpl.le (II.cmp w) r (CmpImpl.max (II.cmp w) a b) = true :=
  i_midpoint_between dbg hw hn ha hb
example : II.midpoint true 8 [0, 0, 128] [255, 255, 127] = .ok [0, 0, 0] ∧
    CmpImpl.le (II.cmp 8) (CmpImpl.min (II.cmp 8) [0, 0, 128] [255, 255, 127]) [0, 0, 0] = true ∧
    CmpImpl.le (II.cmp 8) [0, 0, 0] (CmpImpl.max (II.cmp 8) [0, 0, 128] [255, 255, 127]) = true := by
  decide

/-! ## D. division laws (unsigned: every non-zero divisor; signed: except `MIN / -1`) -/

/-- `b ≠ 0 → a % b < b` -/
theorem u_rem_lt_divisor (hw : 1 ≤ w) (hn : 1 ≤ n) (ha : WF w n a) (hb : WF w n b)
    (hb0 : b ≠ zero n) :
    ∃ r, UI.rem w a b = .ok r ∧ WF w n r ∧ CmpImpl.lt UI.cmp r b = true := u_rem_lt hw hn ha hb hb0
example : UI.rem 8 [5, 8, 128] [195, 128, 0] = .ok [139, 70, 0] ∧
    CmpImpl.lt UI.cmp [139, 70, 0] [195, 128, 0] = true := by decide

/-- `a / 1 = a`, `a % 1 = 0` -/
theorem u_div_rem_one (hw : 1 ≤ w) (hn : 1 ≤ n) (ha : WF w n a) :
    UI.div w a (one n) = .ok a ∧ UI.rem w a (one n) = .ok (zero n) := u_div_one hw hn ha
example : UI.div 8 [5, 8, 128] (one 3) = .ok [5, 8, 128] ∧ UI.rem 8 [5, 8, 128] (one 3) = .ok (zero 3) := by
  decide

/-- `a / a = 1`, `a % a = 0` for `a ≠ 0`; `0 / b = 0`, `0 % b = 0` for `b ≠ 0` -/
theorem u_div_rem_self (hw : 1 ≤ w) (hn : 1 ≤ n) (ha : WF w n a) (h0 : a ≠ zero n) :
    UI.div w a a = .ok (one n) ∧ UI.rem w a a = .ok (zero n) := u_div_self hw hn ha h0
theorem u_zero_div_rem (hw : 1 ≤ w) (hn : 1 ≤ n) (hb : WF w n b) (hb0 : b ≠ zero n) :
    UI.div w (zero n) b = .ok (zero n) ∧ UI.rem w (zero n) b = .ok (zero n) :=
  u_zero_div hw hn hb hb0
example : UI.div 8 [5, 8, 128] [5, 8, 128] = .ok (one 3) ∧ UI.rem 8 [5, 8, 128] [5, 8, 128] = .ok (zero 3) ∧
    UI.div 8 (zero 3) [195, 128, 0] = .ok (zero 3) := by decide

/-- `a * b` does not overflow and `b ≠ 0` ⟹ `(a * b) / b = a` and `(a * b) % b = 0` … -/
theorem u_mul_div_cancel' (hw : 1 ≤ w) (hn : 1 ≤ n) (ha : WF w n a) (hb : WF w n b)
    (hb0 : b ≠ zero n) (hno : (UI.overflowingMul w a b).2 = false) :
    UI.div w (UI.wrappingMul w a b) b = .ok a ∧ UI.rem w (UI.wrappingMul w a b) b = .ok (zero n) :=
  u_mul_div_cancel hw hn ha hb hb0 hno
example : (UI.overflowingMul 8 [254, 0, 0] [195, 128, 0]).2 = false ∧
    UI.div 8 (UI.wrappingMul 8 [254, 0, 0] [195, 128, 0]) [195, 128, 0] = .ok [254, 0, 0] := by decide
/-- … and is false when the product wraps -/
theorem u_mul_div_cancel_counterexample :
    UI.div 8 (UI.wrappingMul 8 [0, 0, 128] [2, 0, 0]) [2, 0, 0] ≠ .ok [0, 0, 128] := by decide

/-- `a / b ≤ a` -/
theorem u_div_le_self (hw : 1 ≤ w) (hn : 1 ≤ n) (ha : WF w n a) (hb : WF w n b) (hb0 : b ≠ zero n) :
    ∃ q, UI.div w a b = .ok q ∧ WF w n q ∧ CmpImpl.le UI.cmp q a = true := u_div_le hw hn ha hb hb0
example : UI.div 8 [5, 8, 128] [195, 128, 0] = .ok [254, 0, 0] ∧
    CmpImpl.le UI.cmp [254, 0, 0] [5, 8, 128] = true := by decide

/-- unsigned `div_euclid = div`, `rem_euclid = rem`, `div_floor = div`, as outcomes, for EVERY
    divisor (a zero divisor panics in all of them) -/
theorem u_div_euclid_eq_div (hw : 1 ≤ w) (hn : 1 ≤ n) (ha : WF w n a) (hb : WF w n b) :
    UI.divEuclid w a b = UI.div w a b ∧ UI.remEuclid w a b = UI.rem w a b ∧
    UI.divFloor w a b = UI.div w a b := u_euclid_eq hw hn ha hb
example : UI.divEuclid 8 [5, 8, 128] [195, 128, 0] = UI.div 8 [5, 8, 128] [195, 128, 0] ∧
    UI.remEuclid 8 [5, 8, 128] (zero 3) = UI.rem 8 [5, 8, 128] (zero 3) := by decide

/-- signed `rem_euclid` is non-negative and below `|b|` -/
theorem i_rem_euclid_nonneg (hw : 2 ≤ w) (hn : 1 ≤ n) (ha : WF w n a) (hb : WF w n b)
    (hb0 : b ≠ zero n) (hov : ¬ (a = iMin w n ∧ b = II.negOne w n)) (dbg : Bool) :
    ∃ r, II.remEuclid dbg w a b = .ok r ∧ WF w n r ∧ isNegative w r = false ∧
      CmpImpl.lt UI.cmp r (II.unsignedAbs w b) = true := i_remEuclid_nonneg hw hn ha hb hb0 hov dbg
example : II.remEuclid true 8 [0xf9, 0xff, 0xff] [0xfe, 0xff, 0xff] = .ok [1, 0, 0] ∧
    isNegative 8 [1, 0, 0] = false ∧
    CmpImpl.lt UI.cmp [1, 0, 0] (II.unsignedAbs 8 [0xfe, 0xff, 0xff]) = true := by decide

/-- `div_floor ≤ div_ceil ≤ div_floor + 1`, and they coincide exactly when the remainder is zero
    (signed and unsigned) -/
theorem i_div_floor_le_div_ceil (hw : 2 ≤ w) (hn : 1 ≤ n) (ha : WF w n a) (hb : WF w n b)
    (hb0 : b ≠ zero n) (hov : ¬ (a = iMin w n ∧ b = II.negOne w n)) (dbg : Bool) :
    ∃ f c r, II.divFloor dbg w a b = .ok f ∧ II.divCeil dbg w a b = .ok c ∧
      II.rem dbg w a b = .ok r ∧ WF w n f ∧ WF w n c ∧
      CmpImpl.le (II.cmp w) f c = true ∧ (f = c ↔ r = zero n) ∧
      (r ≠ zero n → II.wrappingAdd w f (one n) = c) := i_floor_ceil hw hn ha hb hb0 hov dbg
theorem u_div_floor_le_div_ceil (hw : 1 ≤ w) (hn : 1 ≤ n) (ha : WF w n a) (hb : WF w n b)
    (hb0 : b ≠ zero n) (dbg : Bool) :
    ∃ f c r, UI.divFloor w a b = .ok f ∧ UI.divCeil dbg w a b = .ok c ∧
      UI.rem w a b = .ok r ∧ WF w n f ∧ WF w n c ∧
      CmpImpl.le UI.cmp f c = true ∧ (f = c ↔ r = zero n) ∧
      (r ≠ zero n → UI.wrappingAdd w f (one n) = c) := u_floor_ceil hw hn ha hb hb0 dbg
example : II.divFloor true 8 [0xf9, 0xff] [2, 0] = .ok [0xfc, 0xff] ∧
    II.divCeil true 8 [0xf9, 0xff] [2, 0] = .ok [0xfd, 0xff] ∧
    II.wrappingAdd 8 [0xfc, 0xff] (one 2) = [0xfd, 0xff] ∧
    UI.divFloor 8 [7, 1] [2, 0] = .ok [131, 0] ∧ UI.divCeil true 8 [7, 1] [2, 0] = .ok [132, 0] := by
  decide

/-- unsigned `next_multiple_of(a, b)` (when it does not overflow, i.e. the checked form is `Some`):
    a multiple of `b`, `≥ a`, `< a + b` -/
theorem u_next_multiple_of_props (hw : 1 ≤ w) (hn : 1 ≤ n) (ha : WF w n a) (hb : WF w n b)
    (hb0 : b ≠ zero n) (dbg : Bool) {m : List Nat}
    (h : UI.checkedNextMultipleOf dbg w a b = .ok (some m)) :
    WF w n m ∧ UI.rem w m b = .ok (zero n) ∧ CmpImpl.le UI.cmp a m = true ∧
      U w m < U w a + U w b ∧ UI.nextMultipleOf dbg w a b = .ok m :=
  u_nextMultiple_props hw hn ha hb hb0 dbg h
example : UI.checkedNextMultipleOf true 8 [100, 1] [7, 0] = .ok (some [101, 1]) ∧
    UI.rem 8 [101, 1] [7, 0] = .ok (zero 2) := by decide

/-- `a % power_of_two(k) = a & (power_of_two(k) - 1)` (digit widths `2^s`) -/
theorem u_rem_power_of_two_eq_and {s k : Nat} (hs : s < 32) (hn : 1 ≤ n) (ha : WF (2 ^ s) n a)
    (hk : k < 2 ^ s * n) :
    ∃ p, UI.powerOfTwo (2 ^ s) n k = .ok p ∧
      UI.rem (2 ^ s) a p = .ok (UI.bitand a (UI.wrappingSub (2 ^ s) p (one n))) :=
  u_rem_pow2_eq_and hs hn ha hk
example : UI.powerOfTwo (2 ^ 3) 3 13 = .ok [0, 32, 0] ∧
    UI.rem (2 ^ 3) [0x81, 0x7f, 0x83] [0, 32, 0]
      = .ok (UI.bitand [0x81, 0x7f, 0x83] (UI.wrappingSub (2 ^ 3) [0, 32, 0] (one 3))) := by decide

/-! ## E. gcd / lcm / roots (`NumT.U.*`: the `num_integer::Integer` and `Roots` impls of `BUint`) -/

/-- `gcd(a, b) = gcd(b, a)` -/
theorem u_gcd_comm' (hw : 1 ≤ w) (ha : WF w n a) (hb : WF w n b) (dbg : Bool) :
    NumT.U.gcd dbg w a b = NumT.U.gcd dbg w b a := u_gcd_comm hw ha hb dbg
example : NumT.U.gcd true 8 [12, 0, 1] [18, 3, 0] = NumT.U.gcd true 8 [18, 3, 0] [12, 0, 1] := by decide

/-- `gcd(a, 0) = a`, `gcd(0, a) = a`, `gcd(a, a) = a` -/
theorem u_gcd_zero_self (hw : 1 ≤ w) (ha : WF w n a) (dbg : Bool) :
    NumT.U.gcd dbg w a (zero n) = .ok a ∧ NumT.U.gcd dbg w (zero n) a = .ok a ∧
    NumT.U.gcd dbg w a a = .ok a := u_gcd_zero hw ha dbg
example : NumT.U.gcd true 8 [12, 0, 1] (zero 3) = .ok [12, 0, 1] ∧
    NumT.U.gcd true 8 [12, 0, 1] [12, 0, 1] = .ok [12, 0, 1] := by decide

/-- `gcd(a, b)` divides both: the remainders are `0` and `is_multiple_of` says `true`
    (`a`, `b` not both zero, so that the gcd is a legal divisor) -/
theorem u_gcd_divides (hw : 1 ≤ w) (hn : 1 ≤ n) (ha : WF w n a) (hb : WF w n b)
    (h0 : ¬ (a = zero n ∧ b = zero n)) (dbg : Bool) :
    ∃ g, NumT.U.gcd dbg w a b = .ok g ∧ WF w n g ∧ g ≠ zero n ∧
      UI.rem w a g = .ok (zero n) ∧ UI.rem w b g = .ok (zero n) ∧
      NumT.U.isMultipleOf w a g = .ok true ∧ NumT.U.isMultipleOf w b g = .ok true :=
  u_gcd_dvd hw hn ha hb h0 dbg
example : NumT.U.gcd true 8 [12, 0, 1] [18, 3, 0] = .ok [2, 0, 0] ∧
    UI.rem 8 [12, 0, 1] [2, 0, 0] = .ok (zero 3) ∧ UI.rem 8 [18, 3, 0] [2, 0, 0] = .ok (zero 3) := by
  decide

/-- `lcm` representable ⟹ `gcd(a, b) * lcm(a, b) = a * b` (`wrapping_mul`) -/
theorem u_gcd_mul_lcm' (hw : 1 ≤ w) (hn : 1 ≤ n) (ha : WF w n a) (hb : WF w n b)
    (hrep : Nat.lcm (U w a) (U w b) < M w n) (dbg : Bool) :
    ∃ g l, NumT.U.gcd dbg w a b = .ok g ∧ NumT.U.lcm dbg w a b = .ok l ∧
      UI.wrappingMul w g l = UI.wrappingMul w a b := u_gcd_mul_lcm hw hn ha hb hrep dbg
example : NumT.U.gcd true 8 [12, 0] [18, 0] = .ok [6, 0] ∧ NumT.U.lcm true 8 [12, 0] [18, 0] = .ok [36, 0] ∧
    UI.wrappingMul 8 [6, 0] [36, 0] = UI.wrappingMul 8 [12, 0] [18, 0] := by decide

/-- `sqrt` is monotone (digit widths `2^s`) -/
theorem u_sqrt_monotone {s : Nat} (hs : s < 32) (hn : 1 ≤ n) (ha : WF (2 ^ s) n a)
    (hb : WF (2 ^ s) n b) (hab : CmpImpl.le UI.cmp a b = true) (dbg : Bool) :
    ∃ r r', NumT.U.sqrt dbg (2 ^ s) a = .ok r ∧ NumT.U.sqrt dbg (2 ^ s) b = .ok r' ∧
      CmpImpl.le UI.cmp r r' = true := u_sqrt_mono hs hn ha hb hab dbg
set_option maxRecDepth 100000 in
example : NumT.U.sqrt true (2 ^ 3) [0, 1] = .ok [16, 0] ∧
    NumT.U.sqrt true (2 ^ 3) [255, 1] = .ok [22, 0] := by decide

/-- `sqrt(a * a) = a` when `a * a` does not overflow -/
theorem u_sqrt_square {s : Nat} (hs : s < 32) (hn : 1 ≤ n) (ha : WF (2 ^ s) n a)
    (hno : (UI.overflowingMul (2 ^ s) a a).2 = false) (dbg : Bool) :
    NumT.U.sqrt dbg (2 ^ s) (UI.wrappingMul (2 ^ s) a a) = .ok a := u_sqrt_sq hs hn ha hno dbg
set_option maxRecDepth 100000 in
example : (UI.overflowingMul (2 ^ 3) [106, 0] [106, 0]).2 = false ∧
    NumT.U.sqrt true (2 ^ 3) (UI.wrappingMul (2 ^ 3) [106, 0] [106, 0]) = .ok [106, 0] := by
  decide

/-- `(sqrt a)² ≤ a`: the square never overflows (`checked_mul` is `Some`) and is `≤ a` -/
theorem u_sqrt_square_le {s : Nat} (hs : s < 32) (hn : 1 ≤ n) (ha : WF (2 ^ s) n a) (dbg : Bool) :
    ∃ r p, NumT.U.sqrt dbg (2 ^ s) a = .ok r ∧ UI.checkedMul (2 ^ s) r r = some p ∧
      CmpImpl.le UI.cmp p a = true := u_sqrt_sq_le hs hn ha dbg
set_option maxRecDepth 100000 in
example : NumT.U.sqrt true (2 ^ 3) [255, 255] = .ok [255, 0] ∧
    UI.checkedMul (2 ^ 3) [255, 0] [255, 0] = some [1, 254] := by decide

/-- `nth_root(a, 1) = a`; `sqrt` / `cbrt` are `nth_root(2)` / `nth_root(3)` -/
theorem u_nth_root_one_two_three (dbg : Bool) (w : Nat) (x : List Nat) :
    NumT.U.nthRoot dbg w x 1 = .ok x ∧ NumT.U.nthRoot dbg w x 2 = NumT.U.sqrt dbg w x ∧
    NumT.U.nthRoot dbg w x 3 = NumT.U.cbrt dbg w x := u_nthRoot_small dbg w x
set_option maxRecDepth 100000 in
example : NumT.U.nthRoot true 8 [255, 255] 1 = .ok [255, 255] ∧
    NumT.U.nthRoot true 8 [255, 255] 3 = NumT.U.cbrt true 8 [255, 255] := by decide

/-! ## F. pow / shift / log links -/

/-- `power_of_two(k)^e = power_of_two(k * e)` when `k * e < BITS` (all pow flavours) -/
theorem pow_power_of_two {s k e : Nat} (hs : s < 32) (hn : 1 ≤ n) (hk : k < 2 ^ s * n)
    (hke : k * e < 2 ^ s * n) (dbg : Bool) :
    ∃ p q, UI.powerOfTwo (2 ^ s) n k = .ok p ∧ UI.powerOfTwo (2 ^ s) n (k * e) = .ok q ∧
      UI.pow (2 ^ s) dbg p e = .ok q ∧ UI.wrappingPow (2 ^ s) p e = q ∧
      UI.checkedPow (2 ^ s) p e = some q := pow_powerOfTwo hs hn hk hke dbg
example : UI.powerOfTwo (2 ^ 3) 3 5 = .ok [32, 0, 0] ∧ UI.powerOfTwo (2 ^ 3) 3 (5 * 4) = .ok [0, 0, 16] ∧
    UI.pow (2 ^ 3) true [32, 0, 0] 4 = .ok [0, 0, 16] := by decide

/-- `ilog2(power_of_two(k)) = k` -/
theorem ilog2_power_of_two {s k : Nat} (hs : s < 32) {p : List Nat}
    (h : UI.powerOfTwo (2 ^ s) n k = .ok p) : UI.ilog2 (2 ^ s) p = .ok k := ilog2_powerOfTwo hs h
example : UI.powerOfTwo (2 ^ 3) 3 13 = .ok [0, 32, 0] ∧ UI.ilog2 (2 ^ 3) [0, 32, 0] = .ok 13 := by decide

/-- `ilog(b^e, b) = e` when `b ≥ 2` and `b^e` does not overflow (`checked_pow` is `Some`) -/
theorem ilog_pow' (hw : 2 ≤ w) (hn : 1 ≤ n) (hW : w * n < 2 ^ 32) (hb : WF w n b)
    (hb2 : CmpImpl.lt UI.cmp (one n) b = true) {e : Nat} {p : List Nat}
    (h : UI.checkedPow w b e = some p) (dbg : Bool) : UI.ilog dbg w p b = .ok e :=
  ilog_pow hw hn hW hb hb2 h dbg
example : UI.checkedPow 8 [3, 0] 10 = some [169, 230] ∧ UI.ilog true 8 [169, 230] [3, 0] = .ok 10 := by
  decide

/-- `ONE << k = power_of_two(k)` for `k < BITS` -/
theorem shl_one_eq_power_of_two {s k : Nat} (hs : s < 32) (hn : 1 ≤ n) (hk : k < 2 ^ s * n) :
    UI.powerOfTwo (2 ^ s) n k = .ok (UI.wrappingShl (2 ^ s) (one n) k) :=
  shl_one_eq_powerOfTwo hs hn hk
example : UI.powerOfTwo (2 ^ 3) 3 13 = .ok (UI.wrappingShl (2 ^ 3) (one 3) 13) := by decide

/-- for `a > 0` the decimal string has `ilog10(a) + 1` characters; generally
    `len(to_str_radix(a, r)) = ilog(a, r) + 1` for `2 ≤ r ≤ 36` (digit widths `w ≥ 8`) -/
theorem to_str_radix_10_length (hn : 1 ≤ n) (hw8 : 8 ≤ w) (hW : w * n < 2 ^ 32) (ha : WF w n a)
    (h0 : a ≠ zero n) (dbg : Bool) :
    ∃ str l, UI.toStrRadix w a 10 = .ok str ∧ UI.ilog10 dbg w a = .ok l ∧ str.length = l + 1 :=
  toStr10_length_eq_ilog10 hn hw8 hW ha h0 dbg
theorem to_str_radix_length (hn : 1 ≤ n) (hw8 : 8 ≤ w) (hW : w * n < 2 ^ 32) (ha : WF w n a)
    (h0 : a ≠ zero n) (hb : WF w n b) {r : Nat} (hbr : U w b = r) (hr : 2 ≤ r) (hr36 : r ≤ 36)
    (dbg : Bool) :
    ∃ str l, UI.toStrRadix w a r = .ok str ∧ UI.ilog dbg w a b = .ok l ∧ str.length = l + 1 :=
  toStrRadix_length_eq_ilog hn hw8 hW ha h0 hb hbr hr hr36 dbg
example : UI.toStrRadix 8 [0x39, 0x30] 10 = .ok [0x31, 0x32, 0x33, 0x34, 0x35] ∧
    UI.ilog10 true 8 [0x39, 0x30] = .ok 4 := by decide

/-! ## G. further cross-module laws: overflow flags ↔ order / division / leading zeros;
       signed ↔ unsigned order; bit counts ↔ logic; lowest set bit; rotations ↔ shifts -/

/-- carry out of `a + b` ⇔ the wrapped sum is smaller than an operand (the C idiom `a + b < a`) -/
theorem u_carry_eq_sum_lt (ha : WF w n a) (hb : WF w n b) :
    (UI.overflowingAdd w a b).2 = CmpImpl.lt UI.cmp (UI.wrappingAdd w a b) a := u_carry_eq_lt ha hb
example : (UI.overflowingAdd 8 [200, 7, 255] [100, 250, 3]).2 = true ∧
    CmpImpl.lt UI.cmp (UI.wrappingAdd 8 [200, 7, 255] [100, 250, 3]) [200, 7, 255] = true := by decide

/-- `checked_add(a, b) = None ⇔ b > !a` (`!a = MAX - a`) -/
theorem u_checked_add_none_iff_gt_not (ha : WF w n a) (hb : WF w n b) :
    UI.checkedAdd w a b = none ↔ CmpImpl.lt UI.cmp (UI.not w a) b = true :=
  u_checkedAdd_none_iff ha hb
example : UI.checkedAdd 8 [200, 7, 255] [100, 250, 3] = none ∧
    CmpImpl.lt UI.cmp (UI.not 8 [200, 7, 255]) [100, 250, 3] = true := by decide

/-- `a * b` overflows ⇔ `(a * b) / b ≠ a` (the C idiom; `b ≠ 0`) -/
theorem u_mul_overflow_iff_div_ne (hw : 1 ≤ w) (hn : 1 ≤ n) (ha : WF w n a) (hb : WF w n b)
    (hb0 : b ≠ zero n) :
    (UI.overflowingMul w a b).2 = true ↔ UI.div w (UI.wrappingMul w a b) b ≠ .ok a :=
  u_mul_overflow_iff_div hw hn ha hb hb0
example : (UI.overflowingMul 8 [0, 0, 128] [2, 0, 0]).2 = true ∧
    UI.div 8 (UI.wrappingMul 8 [0, 0, 128] [2, 0, 0]) [2, 0, 0] ≠ .ok [0, 0, 128] := by decide

/-- `leading_zeros(a) + leading_zeros(b) ≥ BITS` ⟹ `a * b` fits;
    `leading_zeros(a) + leading_zeros(b) ≤ BITS - 2` ⟹ it overflows -/
theorem u_mul_no_overflow_of_leading_zeros (ha : WF w n a) (hb : WF w n b)
    (h : w * n ≤ UI.leadingZeros w a + UI.leadingZeros w b) :
    (UI.overflowingMul w a b).2 = false := u_mul_fits_of_leadingZeros ha hb h
theorem u_mul_overflow_of_leading_zeros (ha : WF w n a) (hb : WF w n b)
    (h : UI.leadingZeros w a + UI.leadingZeros w b + 2 ≤ w * n) :
    (UI.overflowingMul w a b).2 = true := u_mul_overflows_of_leadingZeros ha hb h
example : UI.leadingZeros 8 [255, 15, 0] + UI.leadingZeros 8 [255, 15, 0] = 24 ∧
    (UI.overflowingMul 8 [255, 15, 0] [255, 15, 0]).2 = false ∧
    UI.leadingZeros 8 [0, 32, 0] + UI.leadingZeros 8 [0, 16, 0] + 2 ≤ 24 ∧
    (UI.overflowingMul 8 [0, 32, 0] [0, 16, 0]).2 = true := by decide
/-- … and in between (`= BITS - 1`) both outcomes occur -/
theorem u_mul_leading_zeros_gap :
    UI.leadingZeros 8 [255] + UI.leadingZeros 8 [1] = 7 ∧ (UI.overflowingMul 8 [255] [1]).2 = false ∧
    UI.leadingZeros 8 [255] + UI.leadingZeros 8 [2] = 6 ∧ (UI.overflowingMul 8 [255] [2]).2 = true ∧
    UI.leadingZeros 8 [15] + UI.leadingZeros 8 [16] = 7 ∧ (UI.overflowingMul 8 [15] [16]).2 = false ∧
    UI.leadingZeros 8 [15] + UI.leadingZeros 8 [31] = 7 ∧ (UI.overflowingMul 8 [15] [31]).2 = true := by
  decide

/-- `min(a, b) + max(a, b) = a + b`, `min(a, b) + abs_diff(a, b) = max(a, b)` -/
theorem u_min_add_max_eq_add (ha : WF w n a) (hb : WF w n b) :
    UI.wrappingAdd w (CmpImpl.min UI.cmp a b) (CmpImpl.max UI.cmp a b) = UI.wrappingAdd w a b :=
  u_min_add_max ha hb
theorem u_min_add_abs_diff_eq_max (ha : WF w n a) (hb : WF w n b) :
    UI.wrappingAdd w (CmpImpl.min UI.cmp a b) (UI.absDiff w a b) = CmpImpl.max UI.cmp a b :=
  u_min_add_absDiff ha hb
example : UI.wrappingAdd 8 (CmpImpl.min UI.cmp [200, 7, 3] [100, 250, 3]) (UI.absDiff 8 [200, 7, 3] [100, 250, 3])
    = CmpImpl.max UI.cmp [200, 7, 3] [100, 250, 3] := by decide

/-- `b ≤ a` ⟹ `abs_diff(a, b) = a - b = checked_sub(a, b)` -/
theorem u_abs_diff_of_le (ha : WF w n a) (hb : WF w n b) (h : CmpImpl.le UI.cmp b a = true) :
    UI.absDiff w a b = UI.wrappingSub w a b ∧ UI.checkedSub w a b = some (UI.absDiff w a b) :=
  u_absDiff_of_le ha hb h
example : CmpImpl.le UI.cmp [200, 7, 3] [100, 250, 3] = true ∧
    UI.checkedSub 8 [100, 250, 3] [200, 7, 3] = some (UI.absDiff 8 [100, 250, 3] [200, 7, 3]) := by decide

/-- `a * 2 = a + a = a << 1` -/
theorem u_mul_two_eq_add_self_eq_shl_one (hw : 2 ≤ w) (hn : 1 ≤ n) (ha : WF w n a) :
    UI.wrappingMul w a (fromDigit n 2) = UI.wrappingAdd w a a ∧
    UI.wrappingShl w a 1 = UI.wrappingAdd w a a := u_mul_two hw hn ha
example : UI.wrappingMul 8 [200, 7, 255] (fromDigit 3 2) = UI.wrappingAdd 8 [200, 7, 255] [200, 7, 255] ∧
    UI.wrappingShl 8 [200, 7, 255] 1 = UI.wrappingAdd 8 [200, 7, 255] [200, 7, 255] := by decide

/-- signed `cmp` = unsigned `cmp` after flipping the sign bits (`^ MIN`), which is the same as adding
    the bias `MIN`; operands of equal sign compare alike signed and unsigned -/
theorem i_cmp_eq_u_cmp_xor_min (hw : 1 ≤ w) (hn : 1 ≤ n) (ha : WF w n a) (hb : WF w n b) :
    II.cmp w a b = UI.cmp (UI.bitxor a (iMin w n)) (UI.bitxor b (iMin w n)) :=
  i_cmp_eq_u_cmp_xor hw hn ha hb
theorem add_min_eq_xor_min (hw : 1 ≤ w) (hn : 1 ≤ n) (ha : WF w n a) :
    UI.wrappingAdd w a (iMin w n) = UI.bitxor a (iMin w n) := add_iMin_eq_xor hw hn ha
theorem i_cmp_eq_u_cmp_same_sign (hw : 1 ≤ w) (hn : 1 ≤ n) (ha : WF w n a) (hb : WF w n b)
    (hs : isNegative w a = isNegative w b) : II.cmp w a b = UI.cmp a b :=
  i_cmp_eq_u_cmp_of_same_sign hw hn ha hb hs
example : II.cmp 8 [0, 0, 128] [5, 0, 0] = .lt ∧
    UI.cmp (UI.bitxor [0, 0, 128] (iMin 8 3)) (UI.bitxor [5, 0, 0] (iMin 8 3)) = .lt ∧
    UI.cmp [0, 0, 128] [5, 0, 0] = .gt ∧
    UI.wrappingAdd 8 [7, 0, 200] (iMin 8 3) = UI.bitxor [7, 0, 200] (iMin 8 3) := by decide

/-- inclusion–exclusion: `count_ones(a & b) + count_ones(a | b) = count_ones(a) + count_ones(b)` -/
theorem count_ones_and_add_or (ha : WF w n a) (hb : WF w n b) :
    UI.countOnes w (UI.bitand a b) + UI.countOnes w (UI.bitor a b)
      = UI.countOnes w a + UI.countOnes w b := countOnes_and_or ha hb
example : UI.countOnes 8 (UI.bitand [0xf0, 0x3c] [0xaa, 0x55]) + UI.countOnes 8 (UI.bitor [0xf0, 0x3c] [0xaa, 0x55])
    = UI.countOnes 8 [0xf0, 0x3c] + UI.countOnes 8 [0xaa, 0x55] := by decide

/-- `count_ones(a) = 0 ↔ a = 0`, `count_zeros(a) = 0 ↔ a = MAX` -/
theorem count_ones_eq_zero_iff (ha : WF w n a) : UI.countOnes w a = 0 ↔ a = zero n :=
  countOnes_eq_zero_iff ha
theorem count_zeros_eq_zero_iff (ha : WF w n a) : UI.countZeros w a = 0 ↔ a = allOnes w n :=
  countZeros_eq_zero_iff ha
example : UI.countOnes 8 (zero 3) = 0 ∧ UI.countZeros 8 (allOnes 8 3) = 0 ∧
    UI.countZeros 8 [255, 254, 255] ≠ 0 := by decide

/-- a power of two is `power_of_two(trailing_zeros(a))`; in general `a & -a` (lowest set bit) is -/
theorem power_of_two_trailing_zeros_of_is_power_of_two {s : Nat} (hs : s < 32) (ha : WF (2 ^ s) n a)
    (h : UI.isPowerOfTwo (2 ^ s) a = true) :
    UI.powerOfTwo (2 ^ s) n (UI.trailingZeros (2 ^ s) a) = .ok a :=
  isPowerOfTwo_eq_powerOfTwo_tz hs ha h
theorem and_neg_eq_power_of_two_trailing_zeros {s : Nat} (hs : s < 32) (hn : 1 ≤ n)
    (ha : WF (2 ^ s) n a) (h0 : a ≠ zero n) :
    UI.powerOfTwo (2 ^ s) n (UI.trailingZeros (2 ^ s) a)
      = .ok (UI.bitand a (UI.wrappingNeg (2 ^ s) a)) := and_neg_eq_powerOfTwo_tz hs hn ha h0
example : UI.powerOfTwo (2 ^ 3) 3 (UI.trailingZeros (2 ^ 3) [0x00, 0x38, 0x01])
    = .ok (UI.bitand [0x00, 0x38, 0x01] (UI.wrappingNeg (2 ^ 3) [0x00, 0x38, 0x01])) ∧
    UI.bitand [0x00, 0x38, 0x01] (UI.wrappingNeg (2 ^ 3) [0x00, 0x38, 0x01]) = [0, 8, 0] := by decide

/-- `a ≤ b` ⟹ `leading_zeros(b) ≤ leading_zeros(a)`, `bits(a) ≤ bits(b)`, `ilog2(a) ≤ ilog2(b)`;
    strictly more leading zeros ⟹ strictly smaller -/
theorem leading_zeros_antitone (ha : WF w n a) (hb : WF w n b) (h : CmpImpl.le UI.cmp a b = true) :
    UI.leadingZeros w b ≤ UI.leadingZeros w a ∧ UI.bits w a ≤ UI.bits w b :=
  leadingZeros_antitone ha hb h
theorem ilog2_monotone (ha : WF w n a) (hb : WF w n b) (h0 : a ≠ zero n)
    (h : CmpImpl.le UI.cmp a b = true) :
    ∃ x y, UI.ilog2 w a = .ok x ∧ UI.ilog2 w b = .ok y ∧ x ≤ y := ilog2_mono ha hb h0 h
theorem lt_of_leading_zeros_lt (ha : WF w n a) (hb : WF w n b)
    (h : UI.leadingZeros w b < UI.leadingZeros w a) : CmpImpl.lt UI.cmp a b = true :=
  lt_of_leadingZeros_lt ha hb h
example : UI.leadingZeros 8 [0, 0, 1] < UI.leadingZeros 8 [255, 255, 0] ∧
    CmpImpl.lt UI.cmp [255, 255, 0] [0, 0, 1] = true := by decide

/-- `rotate_left(a, k) = (a << r) | (a >> (BITS - r))` with `r = k mod BITS` (unbounded shifts) -/
theorem rotate_left_eq_shl_or_shr (hw : 1 ≤ w) (hn : 1 ≤ n) (ha : WF w n a) (k : Nat) :
    UI.rotateLeft w a k = UI.bitor (UI.unboundedShl w a (k % (w * n)))
      (UI.unboundedShr w a (w * n - k % (w * n))) := rotl_eq_shl_or_shr hw hn ha k
example : UI.rotateLeft 8 [0x81, 0x7f, 0x83] 37 = UI.bitor (UI.unboundedShl 8 [0x81, 0x7f, 0x83] (37 % 24))
    (UI.unboundedShr 8 [0x81, 0x7f, 0x83] (24 - 37 % 24)) ∧
    UI.rotateLeft 8 [0x81, 0x7f, 0x83] 48 = UI.bitor (UI.unboundedShl 8 [0x81, 0x7f, 0x83] 0)
    (UI.unboundedShr 8 [0x81, 0x7f, 0x83] 24) := by decide

/-- `TWO^k = power_of_two(k)` for `k < BITS` -/
theorem pow_two_eq_power_of_two {s k : Nat} (hs1 : 1 ≤ s) (hs : s < 32) (hn : 1 ≤ n)
    (hk : k < 2 ^ s * n) :
    UI.powerOfTwo (2 ^ s) n k = .ok (UI.wrappingPow (2 ^ s) (two n) k) :=
  pow_two_eq_powerOfTwo hs1 hs hn hk
example : UI.powerOfTwo (2 ^ 3) 3 13 = .ok (UI.wrappingPow (2 ^ 3) (two 3) 13) := by decide

/-- `(a >> k) << k = a` for `k ≤ trailing_zeros(a)`; `a >> trailing_zeros(a)` is odd -/
theorem shl_shr_of_le_trailing_zeros {k : Nat} (hw : 1 ≤ w) (ha : WF w n a) (hk : k < w * n)
    (hz : k ≤ UI.trailingZeros w a) : UI.wrappingShl w (UI.wrappingShr w a k) k = a :=
  shl_shr_of_le_tz hw ha hk hz
theorem trailing_zeros_shr_trailing_zeros (hw : 1 ≤ w) (ha : WF w n a) (h0 : a ≠ zero n) :
    UI.trailingZeros w (UI.wrappingShr w a (UI.trailingZeros w a)) = 0 := tz_shr_tz hw ha h0
example : UI.wrappingShl 8 (UI.wrappingShr 8 [0x00, 0x38, 0x01] 11) 11 = [0x00, 0x38, 0x01] ∧
    UI.wrappingShr 8 [0x00, 0x38, 0x01] 11 = [39, 0, 0] := by decide

/-- without carry, `midpoint(a, b) = (a + b) >> 1` … -/
theorem u_midpoint_eq_add_shr_one (dbg : Bool) (hw : 2 ≤ w) (hn : 1 ≤ n) (ha : WF w n a)
    (hb : WF w n b) (hno : (UI.overflowingAdd w a b).2 = false) :
    UI.midpoint dbg w a b = .ok (UI.wrappingShr w (UI.wrappingAdd w a b) 1) :=
  midpoint_eq_add_shr dbg hw hn ha hb hno
example : UI.midpoint true 8 [200, 7, 3] [100, 250, 3]
    = .ok (UI.wrappingShr 8 (UI.wrappingAdd 8 [200, 7, 3] [100, 250, 3]) 1) := by decide
/-- … and with carry it is not (that is the point of `midpoint`) -/
theorem u_midpoint_eq_add_shr_one_counterexample :
    UI.midpoint true 8 [255, 255, 255] [255, 255, 255]
      ≠ .ok (UI.wrappingShr 8 (UI.wrappingAdd 8 [255, 255, 255] [255, 255, 255]) 1) := by decide

/-! ## H. signed division laws (`MIN / -1` excluded, either build profile) -/

/-- `a / 1 = a`, `a % 1 = 0`; `a / -1 = -a`, `a % -1 = 0` (`a ≠ MIN`) -/
theorem i_div_rem_one (hw : 2 ≤ w) (hn : 1 ≤ n) (ha : WF w n a) (dbg : Bool) :
    II.div dbg w a (one n) = .ok a ∧ II.rem dbg w a (one n) = .ok (zero n) := i_div_one hw hn ha dbg
theorem i_div_rem_neg_one (hw : 2 ≤ w) (hn : 1 ≤ n) (ha : WF w n a) (hmin : a ≠ iMin w n)
    (dbg : Bool) :
    II.div dbg w a (II.negOne w n) = .ok (II.wrappingNeg w a) ∧
    II.rem dbg w a (II.negOne w n) = .ok (zero n) := i_div_negOne hw hn ha hmin dbg
example : II.div true 8 [0xf9, 0xff, 0xff] (one 3) = .ok [0xf9, 0xff, 0xff] ∧
    II.div true 8 [0xf9, 0xff, 0xff] (II.negOne 8 3) = .ok [7, 0, 0] ∧
    II.wrappingNeg 8 [0xf9, 0xff, 0xff] = [7, 0, 0] := by decide

/-- `a / a = 1`, `a % a = 0` (`a ≠ 0`); `0 / b = 0`, `0 % b = 0` (`b ≠ 0`) -/
theorem i_div_rem_self (hw : 2 ≤ w) (hn : 1 ≤ n) (ha : WF w n a) (h0 : a ≠ zero n) (dbg : Bool) :
    II.div dbg w a a = .ok (one n) ∧ II.rem dbg w a a = .ok (zero n) := i_div_self hw hn ha h0 dbg
theorem i_zero_div_rem (hw : 2 ≤ w) (hn : 1 ≤ n) (hb : WF w n b) (hb0 : b ≠ zero n) (dbg : Bool) :
    II.div dbg w (zero n) b = .ok (zero n) ∧ II.rem dbg w (zero n) b = .ok (zero n) :=
  i_zero_div hw hn hb hb0 dbg
example : II.div true 8 [0, 0, 128] [0, 0, 128] = .ok (one 3) ∧
    II.rem true 8 (zero 3) [0xf9, 0xff, 0xff] = .ok (zero 3) := by decide

/-- the truncating remainder is smaller than the divisor in magnitude and has the sign of the
    dividend (or is zero) -/
theorem i_rem_magnitude_and_sign (hw : 2 ≤ w) (hn : 1 ≤ n) (ha : WF w n a) (hb : WF w n b)
    (hb0 : b ≠ zero n) (hov : ¬ (a = iMin w n ∧ b = II.negOne w n)) (dbg : Bool) :
    ∃ r, II.rem dbg w a b = .ok r ∧ WF w n r ∧
      CmpImpl.lt UI.cmp (II.unsignedAbs w r) (II.unsignedAbs w b) = true ∧
      (isNegative w r = true → isNegative w a = true) ∧
      (II.isPositive w r = true → II.isPositive w a = true) := i_rem_bounds hw hn ha hb hb0 hov dbg
example : II.rem true 8 [0xf9, 0xff, 0xff] [2, 0, 0] = .ok [0xff, 0xff, 0xff] ∧
    isNegative 8 [0xff, 0xff, 0xff] = true ∧ isNegative 8 [0xf9, 0xff, 0xff] = true := by decide

/-- Euclidean versus truncating division: equal when the truncating remainder is non-negative,
    otherwise `rem_euclid = rem + |b|` -/
theorem i_euclid_versus_truncating (hw : 2 ≤ w) (hn : 1 ≤ n) (ha : WF w n a) (hb : WF w n b)
    (hb0 : b ≠ zero n) (hov : ¬ (a = iMin w n ∧ b = II.negOne w n)) (dbg : Bool) :
    ∃ q r qe re, II.div dbg w a b = .ok q ∧ II.rem dbg w a b = .ok r ∧
      II.divEuclid dbg w a b = .ok qe ∧ II.remEuclid dbg w a b = .ok re ∧
      (isNegative w r = false → qe = q ∧ re = r) ∧
      (isNegative w r = true → re = UI.wrappingAdd w r (II.unsignedAbs w b)) :=
  i_euclid_vs_trunc hw hn ha hb hb0 hov dbg
example : II.rem true 8 [0xf9, 0xff] [0xfe, 0xff] = .ok [0xff, 0xff] ∧
    II.remEuclid true 8 [0xf9, 0xff] [0xfe, 0xff] = .ok [1, 0] ∧
    UI.wrappingAdd 8 [0xff, 0xff] (II.unsignedAbs 8 [0xfe, 0xff]) = [1, 0] := by decide

/-- for a positive divisor `div_floor = div_euclid` … -/
theorem i_div_floor_eq_div_euclid_of_pos (hw : 2 ≤ w) (hn : 1 ≤ n) (ha : WF w n a) (hb : WF w n b)
    (hbp : II.isPositive w b = true) (dbg : Bool) :
    II.divFloor dbg w a b = II.divEuclid dbg w a b := i_floor_eq_euclid_of_pos hw hn ha hb hbp dbg
example : II.divFloor true 8 [0xf9, 0xff] [2, 0] = II.divEuclid true 8 [0xf9, 0xff] [2, 0] := by decide
/-- … but not for a negative one (`7 / -2`: floor `-4`, Euclid `-3`) -/
theorem i_div_floor_eq_div_euclid_counterexample :
    II.divFloor true 8 [7, 0] [0xfe, 0xff] ≠ II.divEuclid true 8 [7, 0] [0xfe, 0xff] := by decide

/-! ## I. gcd versus bit structure, order and remainders -/

/-- `trailing_zeros(gcd(a, b)) = min(trailing_zeros a, trailing_zeros b)` (`a, b ≠ 0`) -/
theorem u_gcd_trailing_zeros (hw : 1 ≤ w) (ha : WF w n a) (hb : WF w n b) (ha0 : a ≠ zero n)
    (hb0 : b ≠ zero n) (dbg : Bool) :
    ∃ g, NumT.U.gcd dbg w a b = .ok g ∧
      UI.trailingZeros w g = min (UI.trailingZeros w a) (UI.trailingZeros w b) :=
  u_gcd_tz hw ha hb ha0 hb0 dbg
example : NumT.U.gcd true 8 [0, 12, 1] [0, 48, 0] = .ok [0, 4, 0] ∧
    UI.trailingZeros 8 [0, 4, 0] = 10 ∧ UI.trailingZeros 8 [0, 12, 1] = 10 ∧
    UI.trailingZeros 8 [0, 48, 0] = 12 := by decide

/-- `gcd(a, b) ≤ a` (`a ≠ 0`) -/
theorem u_gcd_le_left (hw : 1 ≤ w) (ha : WF w n a) (hb : WF w n b) (ha0 : a ≠ zero n) (dbg : Bool) :
    ∃ g, NumT.U.gcd dbg w a b = .ok g ∧ CmpImpl.le UI.cmp g a = true := u_gcd_le hw ha hb ha0 dbg
example : NumT.U.gcd true 8 [12, 0, 1] [18, 3, 0] = .ok [2, 0, 0] ∧
    CmpImpl.le UI.cmp [2, 0, 0] [12, 0, 1] = true := by decide

/-- `gcd(a, b) = b ⇔ a % b = 0` (`b ≠ 0`) -/
theorem u_gcd_eq_right_iff_rem_zero (hw : 1 ≤ w) (hn : 1 ≤ n) (ha : WF w n a) (hb : WF w n b)
    (hb0 : b ≠ zero n) (dbg : Bool) :
    NumT.U.gcd dbg w a b = .ok b ↔ UI.rem w a b = .ok (zero n) :=
  u_gcd_eq_right_iff hw hn ha hb hb0 dbg
example : NumT.U.gcd true 8 [36, 0, 0] [12, 0, 0] = .ok [12, 0, 0] ∧
    UI.rem 8 [36, 0, 0] [12, 0, 0] = .ok (zero 3) := by decide

/-- the Euclid step holds for the binary gcd: `gcd(a, b) = gcd(b, a % b)` -/
theorem u_gcd_euclid_step (hw : 1 ≤ w) (hn : 1 ≤ n) (ha : WF w n a) (hb : WF w n b)
    (hb0 : b ≠ zero n) (dbg : Bool) :
    ∃ r, UI.rem w a b = .ok r ∧ NumT.U.gcd dbg w a b = NumT.U.gcd dbg w b r :=
  u_gcd_rem hw hn ha hb hb0 dbg
set_option maxRecDepth 100000 in
example : UI.rem 8 [12, 0, 1] [18, 3, 0] = .ok [54, 1, 0] ∧
    NumT.U.gcd true 8 [12, 0, 1] [18, 3, 0] = NumT.U.gcd true 8 [18, 3, 0] [54, 1, 0] := by decide

/-! ## J. `bit` / `set_bit` versus shifts and logic; the three logarithm algorithms; log versus pow/div -/

/-- `bit(a, i) = ((a >> i) & 1 ≠ 0)` (digit widths `2^s`) -/
theorem bit_eq_shr_and_one' {s i : Nat} (hs : s < 32) (hn : 1 ≤ n) (ha : WF (2 ^ s) n a)
    (hi : i < 2 ^ s * n) :
    UI.bit (2 ^ s) a i = .ok (UI.bitand (UI.wrappingShr (2 ^ s) a i) (one n) != zero n) :=
  bit_eq_shr_and_one hs hn ha hi
example : UI.bit (2 ^ 3) [0xf0, 0x3c, 0x01] 11 = .ok true ∧
    (UI.bitand (UI.wrappingShr (2 ^ 3) [0xf0, 0x3c, 0x01] 11) (one 3) != zero 3) = true ∧
    UI.bit (2 ^ 3) [0xf0, 0x3c, 0x01] 14 = .ok false := by decide

/-- `set_bit(a, i, true) = a | power_of_two(i)`, `set_bit(a, i, false) = a & !power_of_two(i)` -/
theorem set_bit_eq_or_and {s i : Nat} (hs : s < 32) (ha : WF (2 ^ s) n a) (hi : i < 2 ^ s * n) :
    ∃ p, UI.powerOfTwo (2 ^ s) n i = .ok p ∧
      UI.setBit (2 ^ s) a i true = .ok (UI.bitor a p) ∧
      UI.setBit (2 ^ s) a i false = .ok (UI.bitand a (UI.not (2 ^ s) p)) := setBit_eq_logic hs ha hi
example : UI.setBit (2 ^ 3) [0xf0, 0x3c, 0x01] 14 true = .ok (UI.bitor [0xf0, 0x3c, 0x01] [0, 0x40, 0]) ∧
    UI.setBit (2 ^ 3) [0xf0, 0x3c, 0x01] 11 false
      = .ok (UI.bitand [0xf0, 0x3c, 0x01] (UI.not (2 ^ 3) [0, 0x08, 0])) := by decide

/-- bit `i` of `power_of_two(k)` is set exactly for `i = k` -/
theorem bit_power_of_two {s k i : Nat} (hs : s < 32) {p : List Nat}
    (h : UI.powerOfTwo (2 ^ s) n k = .ok p) (hi : i < 2 ^ s * n) :
    UI.bit (2 ^ s) p i = .ok (decide (i = k)) := bit_powerOfTwo hs h hi
example : UI.bit (2 ^ 3) [0, 32, 0] 13 = .ok true ∧ UI.bit (2 ^ 3) [0, 32, 0] 12 = .ok false := by decide

/-- `ilog(a, TWO) = ilog2(a)` and `ilog(a, TEN) = ilog10(a)` as outcomes (three different algorithms:
    `bits() - 1`, the `iilog` recursion from base ten, the `iilog` recursion from the given base) -/
theorem ilog_two_eq_ilog2' (hw : 2 ≤ w) (hn : 1 ≤ n) (hW : w * n < 2 ^ 32) (ha : WF w n a)
    (dbg : Bool) : UI.ilog dbg w a (two n) = UI.ilog2 w a := ilog_two_eq_ilog2 hw hn hW ha dbg
theorem ilog_ten_eq_ilog10' (hw8 : 8 ≤ w) (hn : 1 ≤ n) (hW : w * n < 2 ^ 32) (ha : WF w n a)
    (dbg : Bool) : UI.ilog dbg w a (ten n) = UI.ilog10 dbg w a := ilog_ten_eq_ilog10 hw8 hn hW ha dbg
example : UI.ilog true 8 [0x39, 0x30] (two 2) = UI.ilog2 8 [0x39, 0x30] ∧
    UI.ilog true 8 [0x39, 0x30] (ten 2) = UI.ilog10 true 8 [0x39, 0x30] ∧
    UI.ilog true 8 (zero 2) (two 2) = UI.ilog2 8 (zero 2) := by decide

/-- `ilog(a, b) = ilog(a / b, b) + 1` for `a ≥ b ≥ 2` -/
theorem ilog_eq_ilog_div_add_one (hw : 2 ≤ w) (hn : 1 ≤ n) (hW : w * n < 2 ^ 32) (ha : WF w n a)
    (hb : WF w n b) (hb2 : CmpImpl.lt UI.cmp (one n) b = true)
    (hab : CmpImpl.le UI.cmp b a = true) (dbg : Bool) :
    ∃ q l, UI.div w a b = .ok q ∧ UI.ilog dbg w q b = .ok l ∧ UI.ilog dbg w a b = .ok (l + 1) :=
  ilog_div_base hw hn hW ha hb hb2 hab dbg
example : UI.div 8 [231, 3] [3, 0] = .ok [77, 1] ∧ UI.ilog true 8 [77, 1] [3, 0] = .ok 5 ∧
    UI.ilog true 8 [231, 3] [3, 0] = .ok 6 := by decide

/-- `b^ilog(a, b) ≤ a < b^(ilog(a, b) + 1)`: the lower power never overflows, the upper one is larger
    whenever it fits -/
theorem pow_ilog_le_lt (hw : 2 ≤ w) (hn : 1 ≤ n) (hW : w * n < 2 ^ 32) (ha : WF w n a)
    (hb : WF w n b) (ha0 : a ≠ zero n) (hb2 : CmpImpl.lt UI.cmp (one n) b = true) (dbg : Bool) :
    ∃ l p, UI.ilog dbg w a b = .ok l ∧ UI.checkedPow w b l = some p ∧
      CmpImpl.le UI.cmp p a = true ∧
      (∀ p', UI.checkedPow w b (l + 1) = some p' → CmpImpl.lt UI.cmp a p' = true) :=
  pow_ilog_le hw hn hW ha hb ha0 hb2 dbg
example : UI.ilog true 8 [231, 3] [3, 0] = .ok 6 ∧ UI.checkedPow 8 [3, 0] 6 = some [217, 2] ∧
    UI.checkedPow 8 [3, 0] 7 = some [139, 8] := by decide

/-! ## K. shifts / arithmetic versus bit length and bit counts -/

/-- `bits(a >> k) = bits(a) - k` (truncated subtraction) -/
theorem bits_shr' {k : Nat} (hw : 1 ≤ w) (ha : WF w n a) (hk : k < w * n) :
    UI.bits w (UI.wrappingShr w a k) = UI.bits w a - k := bits_shr hw ha hk
example : UI.bits 8 (UI.wrappingShr 8 [0xf0, 0x3c, 0x00] 5) = UI.bits 8 [0xf0, 0x3c, 0x00] - 5 ∧
    UI.bits 8 (UI.wrappingShr 8 [0xf0, 0x3c, 0x00] 20) = 0 := by decide

/-- if no bits are lost (`k ≤ leading_zeros(a)`, `a ≠ 0`), `a << k` has `k` fewer leading zeros,
    `k` more trailing zeros, `k` more bits, and the same number of ones -/
theorem shl_bit_counts {k : Nat} (hw : 1 ≤ w) (ha : WF w n a) (h0 : a ≠ zero n) (hk : k < w * n)
    (hz : k ≤ UI.leadingZeros w a) :
    UI.leadingZeros w (UI.wrappingShl w a k) = UI.leadingZeros w a - k ∧
    UI.trailingZeros w (UI.wrappingShl w a k) = UI.trailingZeros w a + k ∧
    UI.bits w (UI.wrappingShl w a k) = UI.bits w a + k := shl_counts hw ha h0 hk hz
theorem count_ones_shl {k : Nat} (hw : 1 ≤ w) (ha : WF w n a) (hk : k < w * n)
    (hz : k ≤ UI.leadingZeros w a) :
    UI.countOnes w (UI.wrappingShl w a k) = UI.countOnes w a := countOnes_shl hw ha hk hz
example : UI.leadingZeros 8 [0xf0, 0x3c, 0x00] = 10 ∧
    UI.trailingZeros 8 (UI.wrappingShl 8 [0xf0, 0x3c, 0x00] 9) = UI.trailingZeros 8 [0xf0, 0x3c, 0x00] + 9 ∧
    UI.countOnes 8 (UI.wrappingShl 8 [0xf0, 0x3c, 0x00] 9) = UI.countOnes 8 [0xf0, 0x3c, 0x00] := by decide
/-- … and the count of ones drops when set bits are shifted out -/
theorem count_ones_shl_counterexample :
    UI.countOnes 8 (UI.wrappingShl 8 [0xf0, 0x3c, 0x00] 12) ≠ UI.countOnes 8 [0xf0, 0x3c, 0x00] := by
  decide

/-- `count_ones(a >> k) ≤ count_ones(a)` -/
theorem count_ones_shr_le {k : Nat} (hw : 1 ≤ w) (ha : WF w n a) (hk : k < w * n) :
    UI.countOnes w (UI.wrappingShr w a k) ≤ UI.countOnes w a := countOnes_shr_le hw ha hk
example : UI.countOnes 8 (UI.wrappingShr 8 [0xf0, 0x3c, 0x01] 6) ≤ UI.countOnes 8 [0xf0, 0x3c, 0x01] := by
  decide

/-- `bits(a + b) ≤ max(bits a, bits b) + 1`, `bits(a * b) ≤ bits a + bits b` -/
theorem bits_add_le' (ha : WF w n a) (hb : WF w n b) :
    UI.bits w (UI.wrappingAdd w a b) ≤ max (UI.bits w a) (UI.bits w b) + 1 := bits_add_le ha hb
theorem bits_mul_le' (ha : WF w n a) (hb : WF w n b) :
    UI.bits w (UI.wrappingMul w a b) ≤ UI.bits w a + UI.bits w b := bits_mul_le ha hb
example : UI.bits 8 (UI.wrappingMul 8 [255, 3, 0] [255, 7, 0]) = 21 ∧ UI.bits 8 [255, 3, 0] = 10 ∧
    UI.bits 8 [255, 7, 0] = 11 := by decide

/-- for `a ≠ 0`: `trailing_zeros(a) + leading_zeros(a) < BITS` and
    `count_ones(a) + trailing_zeros(a) ≤ bits(a)` -/
theorem trailing_leading_count_bounds (ha : WF w n a) (h0 : a ≠ zero n) :
    UI.trailingZeros w a + UI.leadingZeros w a < w * n ∧
    UI.countOnes w a + UI.trailingZeros w a ≤ UI.bits w a := counts_ineq ha h0
example : UI.trailingZeros 8 [0x00, 0x38, 0x01] + UI.leadingZeros 8 [0x00, 0x38, 0x01] = 18 ∧
    UI.countOnes 8 [0x00, 0x38, 0x01] + UI.trailingZeros 8 [0x00, 0x38, 0x01] = 15 ∧
    UI.bits 8 [0x00, 0x38, 0x01] = 17 := by decide

/-! ## L. sign structure, numerals, next power of two, square roots versus bit length -/

/-- `is_negative(a) ⇔ leading_zeros(a) = 0 ⇔ leading_ones(a) ≥ 1` -/
theorem is_negative_iff_leading_zeros_eq_zero (hw : 1 ≤ w) (hn : 1 ≤ n) (ha : WF w n a) :
    (isNegative w a = true ↔ UI.leadingZeros w a = 0) ∧
    (isNegative w a = true ↔ 1 ≤ UI.leadingOnes w a) := isNegative_iff_lz hw hn ha
example : isNegative 8 [0, 0, 0xc0] = true ∧ UI.leadingZeros 8 [0, 0, 0xc0] = 0 ∧
    UI.leadingOnes 8 [0, 0, 0xc0] = 2 ∧ isNegative 8 [0, 0, 0x40] = false := by decide

/-- `a = signum(a) * |a|` -/
theorem signum_mul_unsigned_abs (hw : 2 ≤ w) (hn : 1 ≤ n) (ha : WF w n a) :
    II.wrappingMul w (II.signum w a) (II.unsignedAbs w a) = a := signum_mul_abs hw hn ha
example : II.wrappingMul 8 (II.signum 8 [0xf9, 0xff, 0xff]) (II.unsignedAbs 8 [0xf9, 0xff, 0xff])
    = [0xf9, 0xff, 0xff] ∧ II.wrappingMul 8 (II.signum 8 [0, 0, 128]) (II.unsignedAbs 8 [0, 0, 128]) = [0, 0, 128] := by
  decide

/-- signed `abs_diff` is the unsigned `abs_diff` of the sign-flipped (biased) operands -/
theorem i_abs_diff_eq_u_abs_diff_xor_min (hw : 1 ≤ w) (hn : 1 ≤ n) (ha : WF w n a) (hb : WF w n b) :
    II.absDiff w a b = UI.absDiff w (UI.bitxor a (iMin w n)) (UI.bitxor b (iMin w n)) :=
  i_absDiff_eq_u_absDiff_xor hw hn ha hb
example : II.absDiff 8 [0, 0, 128] [255, 255, 127]
    = UI.absDiff 8 (UI.bitxor [0, 0, 128] (iMin 8 3)) (UI.bitxor [255, 255, 127] (iMin 8 3)) := by decide

/-- the binary numeral of `a > 0` has `bits(a)` characters -/
theorem to_str_radix_2_length_eq_bits (hn : 1 ≤ n) (hw8 : 8 ≤ w) (ha : WF w n a) (h0 : a ≠ zero n) :
    ∃ str, UI.toStrRadix w a 2 = .ok str ∧ str.length = UI.bits w a :=
  toStr2_length_eq_bits hn hw8 ha h0
example : UI.toStrRadix 8 [0x05, 0x01] 2 = .ok [0x31, 0x30, 0x30, 0x30, 0x30, 0x30, 0x31, 0x30, 0x31] ∧
    UI.bits 8 [0x05, 0x01] = 9 := by decide

/-- for `a ≥ 2`: `next_power_of_two(a) = power_of_two(bits(a - 1))` -/
theorem next_power_of_two_eq_power_of_two_bits {s : Nat} (hs : s < 32) (hn : 1 ≤ n)
    (ha : WF (2 ^ s) n a) (h2 : CmpImpl.lt UI.cmp (one n) a = true) {p : List Nat}
    (h : UI.checkedNextPowerOfTwo (2 ^ s) a = .ok (some p)) :
    UI.powerOfTwo (2 ^ s) n (UI.bits (2 ^ s) (UI.wrappingSub (2 ^ s) a (one n))) = .ok p :=
  nextPow2_eq_powerOfTwo_bits hs hn ha h2 h
example : UI.checkedNextPowerOfTwo (2 ^ 3) [0x00, 0x20, 0x00] = .ok (some [0x00, 0x20, 0x00]) ∧
    UI.powerOfTwo (2 ^ 3) 3 (UI.bits (2 ^ 3) (UI.wrappingSub (2 ^ 3) [0x00, 0x20, 0x00] (one 3)))
      = .ok [0x00, 0x20, 0x00] := by decide

/-- `bits(sqrt a) = ⌈bits(a) / 2⌉`; `sqrt(a) ≤ a`; `sqrt(a) = 0 ↔ a = 0` -/
theorem bits_sqrt' {s : Nat} (hs : s < 32) (hn : 1 ≤ n) (ha : WF (2 ^ s) n a) (dbg : Bool) :
    ∃ r, NumT.U.sqrt dbg (2 ^ s) a = .ok r ∧ UI.bits (2 ^ s) r = (UI.bits (2 ^ s) a + 1) / 2 :=
  bits_sqrt hs hn ha dbg
theorem sqrt_le_self' {s : Nat} (hs : s < 32) (hn : 1 ≤ n) (ha : WF (2 ^ s) n a) (dbg : Bool) :
    ∃ r, NumT.U.sqrt dbg (2 ^ s) a = .ok r ∧ CmpImpl.le UI.cmp r a = true ∧
      (r = zero n ↔ a = zero n) := sqrt_le_self hs hn ha dbg
set_option maxRecDepth 100000 in
example : NumT.U.sqrt true (2 ^ 3) [255, 31] = .ok [90, 0] ∧ UI.bits (2 ^ 3) [90, 0] = 7 ∧
    UI.bits (2 ^ 3) [255, 31] = 13 := by decide

end Bnum.Laws2
