/-
  C05 — "For every bnum integer type and every shift amount s < BITS, shl returns (x * 2^s) mod 2^BITS
  and shr returns floor(x / 2^s) (sign-propagating for signed types, zero-filling for unsigned);
  checked shifts return None and overflowing shifts set their flag exactly when s >= BITS,
  unbounded_shl/unbounded_shr return 0 (or -1 for a negative signed shr) when s >= BITS, and when BITS
  is a power of two wrapping/overflowing shifts use s mod BITS. rotate_left(n) and rotate_right(n)
  cyclically permute the BITS-bit pattern by n mod BITS places for every width, including widths that
  are not powers of two, and are inverses of each other."

  Model: Bnum/Model/Shift.lean (mirrors /repo/src/buint/mod.rs, bint/mod.rs, {buint,bint}/
  {overflowing,checked,wrapping}.rs, int/{strict,unchecked,ops}.rs) and Bnum/Model/C05Extra.lean (the
  operator impls `Shl<ExpType>`, `Shr<ExpType>`, `ShlAssign<u32>`, `ShrAssign<u32>`).  `w` = digit bits, `n` = digit
  count, BITS = `w * n`, `M w n = 2^BITS`; `U` unsigned value, `S` two's-complement value.
  All theorems hold for every `w ≥ 1`, `n ≥ 1` (in particular every `w ≥ 2`) and every amount `s : Nat`
  (so in particular every u32).  The model writes the digit index arithmetic `rhs >> BIT_SHIFT`,
  `rhs & BITS_MINUS_1` as `s / w`, `s % w`, which is what the Rust computes because every digit type
  has `w = 2^k` (`digit_split_pow2` below); the amount reduction `rhs & (BITS - 1)` of
  overflowing/wrapping shifts is modelled literally (`Shift.maskBits`, `Shift.effAmount`).

  Remark (history).  Before the `fix:` commit a393892 in /repo, `rotate_left`/`rotate_right` reduced
  the amount with `n & (BITS - 1)`; the rotation part of the property was then FALSE at every width
  that is not a power of two (e.g. w = 8, n = 3: `rotate_left(8)` returned its argument, the correct
  result of rotating `0x000001` is `0x000100`).  The theorems below are about the repaired code.
-/
import Bnum.Lemmas.Shift
import Bnum.Spec.Shift
import Bnum.Model.C05Extra
namespace Bnum.C05
open Bnum Bnum.Shift

variable {w n s : Nat} {a : List Nat}

/-- the Rust digit-index expressions coincide with the model's `s / w`, `s % w` for `w = 2^k` -/
theorem digit_split_pow2 {k : Nat} (s : Nat) (h : w = 2 ^ k) :
    s >>> k = digitShift w s ∧ s &&& (w - 1) = bitShift w s := Shift.digit_split_pow2 s h
example : (8 : Nat) = 2 ^ 3 := by decide

/-! ## in-range shifts (`s < BITS`): the internal functions every entry point reduces to -/

/-- "shl returns (x * 2^s) mod 2^BITS" -/
theorem shl_spec (hw : 1 ≤ w) (ha : WF w n a) (hs : s < w * n) :
    WF w n (UI.uncheckedShlInternal w a s) ∧
    U w (UI.uncheckedShlInternal w a s) = (U w a * 2 ^ s) % M w n :=
  UI.uncheckedShlInternal_spec hw ha hs
example : WF 8 3 [0x81, 0x7f, 0x83] ∧ 13 < 8 * 3 := by decide

/-- the same for a signed operand, read on signed values: the pattern of `S a * 2^s` -/
theorem i_shl_spec (hw : 1 ≤ w) (ha : WF w n a) (hs : s < w * n) :
    U w (UI.uncheckedShlInternal w a s) = wrapU (M w n) (S w a * 2 ^ s) := by
  have := wrapU_S_mul ha (2 ^ s)
  rw [(shl_spec hw ha hs).2, ← this]; norm_cast
example : WF 8 3 [0x81, 0x7f, 0x83] ∧ 13 < 8 * 3 := by decide

/-- "shr returns floor(x / 2^s), zero-filling for unsigned" -/
theorem u_shr_spec (hw : 1 ≤ w) (ha : WF w n a) (hs : s < w * n) :
    WF w n (UI.uncheckedShrInternal w a s) ∧
    U w (UI.uncheckedShrInternal w a s) = U w a / 2 ^ s :=
  UI.uncheckedShrInternal_spec hw ha hs
example : WF 8 3 [0x81, 0x7f, 0x83] ∧ 13 < 8 * 3 := by decide

/-- "shr returns floor(x / 2^s), sign-propagating for signed types".
    `II.shrVal w a s` is `unchecked_shr_pad_internal::<NEG = self.is_negative()>(self.bits, s)`. -/
theorem i_shr_spec (hw : 1 ≤ w) (hn : 1 ≤ n) (ha : WF w n a) (hs : s < w * n) :
    WF w n (II.shrVal w a s) ∧ S w (II.shrVal w a s) = Int.fdiv (S w a) (2 ^ s) := by
  obtain ⟨h1, h2⟩ := II.shrVal_spec hw hn ha hs
  exact ⟨h1, by rw [h2, Int.fdiv_eq_ediv_of_nonneg _ (by positivity)]⟩
example : WF 8 3 [0x81, 0x7f, 0x83] ∧ isNegative 8 [0x81, 0x7f, 0x83] = true ∧ 13 < 8 * 3 := by
  decide

/-- every public entry point, for `s < BITS`, returns exactly these values (unsigned) -/
theorem u_inrange (dbg : Bool) (hs : s < w * a.length) :
    UI.shl dbg w a s = .ok (UI.uncheckedShlInternal w a s) ∧
    UI.shr dbg w a s = .ok (UI.uncheckedShrInternal w a s) ∧
    UI.strictShl w a s = .ok (UI.uncheckedShlInternal w a s) ∧
    UI.strictShr w a s = .ok (UI.uncheckedShrInternal w a s) ∧
    UI.checkedShl w a s = some (UI.uncheckedShlInternal w a s) ∧
    UI.checkedShr w a s = some (UI.uncheckedShrInternal w a s) ∧
    UI.overflowingShl w a s = (UI.uncheckedShlInternal w a s, false) ∧
    UI.overflowingShr w a s = (UI.uncheckedShrInternal w a s, false) ∧
    UI.wrappingShl w a s = UI.uncheckedShlInternal w a s ∧
    UI.wrappingShr w a s = UI.uncheckedShrInternal w a s ∧
    UI.unboundedShl w a s = UI.uncheckedShlInternal w a s ∧
    UI.unboundedShr w a s = UI.uncheckedShrInternal w a s := by
  refine ⟨UI.shl_of_lt dbg hs, UI.shr_of_lt dbg hs, UI.strictShl_of_lt hs, UI.strictShr_of_lt hs,
    UI.checkedShl_of_lt hs, UI.checkedShr_of_lt hs, ?_, ?_, UI.wrappingShl_of_lt hs,
    UI.wrappingShr_of_lt hs, UI.unboundedShl_of_lt hs, UI.unboundedShr_of_lt hs⟩
  · rw [UI.overflowingShl_eq, effAmount_of_lt hs]; simp; omega
  · rw [UI.overflowingShr_eq, effAmount_of_lt hs]; simp; omega
example : 13 < 8 * [0x81, 0x7f, 0x83].length := by decide

/-- every public entry point, for `s < BITS`, returns exactly these values (signed) -/
theorem i_inrange (dbg : Bool) (hs : s < w * a.length) :
    II.shl dbg w a s = .ok (UI.uncheckedShlInternal w a s) ∧
    II.shr dbg w a s = .ok (II.shrVal w a s) ∧
    II.strictShl w a s = .ok (UI.uncheckedShlInternal w a s) ∧
    II.strictShr w a s = .ok (II.shrVal w a s) ∧
    II.checkedShl w a s = some (UI.uncheckedShlInternal w a s) ∧
    II.checkedShr w a s = some (II.shrVal w a s) ∧
    II.overflowingShl w a s = (UI.uncheckedShlInternal w a s, false) ∧
    II.overflowingShr w a s = (II.shrVal w a s, false) ∧
    II.wrappingShl w a s = UI.uncheckedShlInternal w a s ∧
    II.wrappingShr w a s = II.shrVal w a s ∧
    II.unboundedShl w a s = UI.uncheckedShlInternal w a s ∧
    II.unboundedShr w a s = II.shrVal w a s := by
  refine ⟨II.shl_of_lt dbg hs, II.shr_of_lt dbg hs, II.strictShl_of_lt hs, II.strictShr_of_lt hs,
    II.checkedShl_of_lt hs, II.checkedShr_of_lt hs, ?_, ?_, II.wrappingShl_of_lt hs,
    II.wrappingShr_of_lt hs, II.unboundedShl_of_lt hs, II.unboundedShr_of_lt hs⟩
  · rw [II.overflowingShl_eq, effAmount_of_lt hs]; simp; omega
  · rw [II.overflowingShr_eq, effAmount_of_lt hs]; simp [II.shrVal]; omega
example : 13 < 8 * [0x81, 0x7f, 0x83].length := by decide

/-! ## "checked shifts return None … exactly when s >= BITS" (and strict / debug `<<` `>>` panic) -/

theorem u_checked_shl_none : UI.checkedShl w a s = none ↔ w * a.length ≤ s := by
  constructor
  · intro h; by_contra hc; rw [UI.checkedShl_of_lt (by omega)] at h; cases h
  · exact UI.checkedShl_of_ge
theorem u_checked_shr_none : UI.checkedShr w a s = none ↔ w * a.length ≤ s := by
  constructor
  · intro h; by_contra hc; rw [UI.checkedShr_of_lt (by omega)] at h; cases h
  · exact UI.checkedShr_of_ge
theorem i_checked_shl_none : II.checkedShl w a s = none ↔ w * a.length ≤ s := by
  constructor
  · intro h; by_contra hc; rw [II.checkedShl_of_lt (by omega)] at h; cases h
  · exact II.checkedShl_of_ge
theorem i_checked_shr_none : II.checkedShr w a s = none ↔ w * a.length ≤ s := by
  constructor
  · intro h; by_contra hc; rw [II.checkedShr_of_lt (by omega)] at h; cases h
  · exact II.checkedShr_of_ge
example : 8 * [0x81, 0x7f, 0x83].length ≤ 24 := by decide

/-- `strict_shl` / `strict_shr` (both build modes) and `<<` / `>>` under `debug_assertions`
    panic exactly when `s ≥ BITS`; in release `<<` / `>>` never panic -/
theorem strict_panic :
    (UI.strictShl w a s = .panic ↔ w * a.length ≤ s) ∧
    (UI.strictShr w a s = .panic ↔ w * a.length ≤ s) ∧
    (II.strictShl w a s = .panic ↔ w * a.length ≤ s) ∧
    (II.strictShr w a s = .panic ↔ w * a.length ≤ s) := by
  refine ⟨⟨?_, UI.strictShl_of_ge⟩, ⟨?_, UI.strictShr_of_ge⟩, ⟨?_, II.strictShl_of_ge⟩,
    ⟨?_, II.strictShr_of_ge⟩⟩
  · intro h; by_contra hc; rw [UI.strictShl_of_lt (by omega)] at h; cases h
  · intro h; by_contra hc; rw [UI.strictShr_of_lt (by omega)] at h; cases h
  · intro h; by_contra hc; rw [II.strictShl_of_lt (by omega)] at h; cases h
  · intro h; by_contra hc; rw [II.strictShr_of_lt (by omega)] at h; cases h
example : UI.strictShl 8 [0x81, 0x7f, 0x83] 24 = .panic ∧
    UI.strictShl 8 [0x81, 0x7f, 0x83] 23 = .ok [0, 0, 0x80] := by decide

theorem shl_shr_dbg :
    UI.shl true w a s = UI.strictShl w a s ∧ UI.shr true w a s = UI.strictShr w a s ∧
    II.shl true w a s = II.strictShl w a s ∧ II.shr true w a s = II.strictShr w a s :=
  ⟨rfl, rfl, rfl, rfl⟩
theorem shl_shr_rel :
    UI.shl false w a s = .ok (UI.wrappingShl w a s) ∧ UI.shr false w a s = .ok (UI.wrappingShr w a s) ∧
    II.shl false w a s = .ok (II.wrappingShl w a s) ∧ II.shr false w a s = .ok (II.wrappingShr w a s) :=
  ⟨rfl, rfl, rfl, rfl⟩
example : UI.shl true 8 [0x81, 0x7f, 0x83] 25 = .panic ∧
    UI.shl false 8 [0x81, 0x7f, 0x83] 25 = .ok [0, 0, 0x02] := by decide

/-! ## "overflowing shifts set their flag exactly when s >= BITS" — value: the reduced amount -/

/-- flag ↔ `s ≥ BITS`; the value is the in-range shift by `effAmount BITS s`
    (`s` itself below BITS, `s & (BITS - 1)` otherwise), which is always `< BITS` -/
theorem u_overflowing_shl :
    UI.overflowingShl w a s
      = (UI.uncheckedShlInternal w a (effAmount (w * a.length) s), decide (w * a.length ≤ s)) :=
  UI.overflowingShl_eq w a s
theorem u_overflowing_shr :
    UI.overflowingShr w a s
      = (UI.uncheckedShrInternal w a (effAmount (w * a.length) s), decide (w * a.length ≤ s)) :=
  UI.overflowingShr_eq w a s
theorem i_overflowing_shl :
    II.overflowingShl w a s
      = (UI.uncheckedShlInternal w a (effAmount (w * a.length) s), decide (w * a.length ≤ s)) :=
  II.overflowingShl_eq w a s
theorem i_overflowing_shr :
    II.overflowingShr w a s
      = (II.shrVal w a (effAmount (w * a.length) s), decide (w * a.length ≤ s)) :=
  II.overflowingShr_eq w a s
example : UI.overflowingShl 8 [0x81, 0x7f, 0x83] 32 = ([0x81, 0x7f, 0x83], true) ∧
    II.overflowingShr 8 [0x81, 0x7f, 0x83] 7 = ([0xff, 0x06, 0xff], false) := by decide

/-- the reduced amount is always in range (so no internal function is ever called out of range),
    is `s` for `s < BITS`, and is `s mod BITS` when BITS is a power of two -/
theorem effAmount_facts {bits : Nat} (s : Nat) (hb : 0 < bits) :
    effAmount bits s < bits ∧ (s < bits → effAmount bits s = s) ∧
    (∀ k, bits = 2 ^ k → effAmount bits s = s % bits) :=
  ⟨effAmount_lt s hb, effAmount_of_lt, fun _ h => effAmount_pow2 s h⟩
example : (0 : Nat) < 32 ∧ (32 : Nat) = 2 ^ 5 := by decide

/-! ## "when BITS is a power of two wrapping/overflowing shifts use s mod BITS" -/

theorem wrapping_pow2 {k : Nat} (hW : w * a.length = 2 ^ k) :
    UI.wrappingShl w a s = UI.uncheckedShlInternal w a (s % (w * a.length)) ∧
    UI.wrappingShr w a s = UI.uncheckedShrInternal w a (s % (w * a.length)) ∧
    II.wrappingShl w a s = UI.uncheckedShlInternal w a (s % (w * a.length)) ∧
    II.wrappingShr w a s = II.shrVal w a (s % (w * a.length)) := by
  have e := effAmount_pow2 s hW
  refine ⟨?_, ?_, ?_, ?_⟩
  · unfold UI.wrappingShl; rw [UI.overflowingShl_eq, e]
  · unfold UI.wrappingShr; rw [UI.overflowingShr_eq, e]
  · unfold II.wrappingShl; rw [II.overflowingShl_eq, e]
  · unfold II.wrappingShr; rw [II.overflowingShr_eq, e]; rfl
example : 8 * [0x81, 0x7f, 0x83, 0x01].length = 2 ^ 5 := by decide

/-- value form: at a power-of-two width wrapping shifts compute the shift by `s mod BITS` -/
theorem wrapping_pow2_value {k : Nat} (hw : 1 ≤ w) (hn : 1 ≤ n) (ha : WF w n a) (hW : w * n = 2 ^ k) :
    U w (UI.wrappingShl w a s) = (U w a * 2 ^ (s % (w * n))) % M w n ∧
    U w (UI.wrappingShr w a s) = U w a / 2 ^ (s % (w * n)) ∧
    U w (II.wrappingShl w a s) = (U w a * 2 ^ (s % (w * n))) % M w n ∧
    S w (II.wrappingShr w a s) = Int.fdiv (S w a) (2 ^ (s % (w * n))) := by
  have hlt : s % (w * n) < w * n := Nat.mod_lt _ (bits_pos hw hn)
  have hW' : w * a.length = 2 ^ k := by rw [ha.1]; exact hW
  obtain ⟨e1, e2, e3, e4⟩ := wrapping_pow2 (s := s) hW'
  rw [ha.1] at e1 e2 e3 e4
  rw [e1, e2, e3, e4]
  exact ⟨(shl_spec hw ha hlt).2, (u_shr_spec hw ha hlt).2, (shl_spec hw ha hlt).2,
    (i_shr_spec hw hn ha hlt).2⟩
example : WF 8 4 [0x81, 0x7f, 0x83, 0x01] ∧ 8 * 4 = 2 ^ 5 := by decide

/-! ## "unbounded_shl/unbounded_shr return 0 (or -1 for a negative signed shr) when s >= BITS" -/

theorem u_unbounded_shl (hw : 1 ≤ w) (ha : WF w n a) :
    WF w n (UI.unboundedShl w a s) ∧
    U w (UI.unboundedShl w a s) = if s < w * n then (U w a * 2 ^ s) % M w n else 0 := by
  unfold UI.unboundedShl; rw [ha.1]
  by_cases h : s < w * n
  · rw [if_neg (by omega), if_pos h]; exact shl_spec hw ha h
  · rw [if_pos (by omega), if_neg h]; exact ⟨WF_zero w n, U_zero w n⟩

theorem u_unbounded_shr (hw : 1 ≤ w) (ha : WF w n a) :
    WF w n (UI.unboundedShr w a s) ∧
    U w (UI.unboundedShr w a s) = if s < w * n then U w a / 2 ^ s else 0 := by
  unfold UI.unboundedShr; rw [ha.1]
  by_cases h : s < w * n
  · rw [if_neg (by omega), if_pos h]; exact u_shr_spec hw ha h
  · rw [if_pos (by omega), if_neg h]; exact ⟨WF_zero w n, U_zero w n⟩

theorem i_unbounded_shl (hw : 1 ≤ w) (ha : WF w n a) :
    WF w n (II.unboundedShl w a s) ∧
    U w (II.unboundedShl w a s) = if s < w * n then (U w a * 2 ^ s) % M w n else 0 :=
  u_unbounded_shl hw ha

theorem i_unbounded_shr (hw : 1 ≤ w) (hn : 1 ≤ n) (ha : WF w n a) :
    WF w n (II.unboundedShr w a s) ∧
    S w (II.unboundedShr w a s)
      = if s < w * n then Int.fdiv (S w a) (2 ^ s) else if S w a < 0 then -1 else 0 := by
  rw [II.unboundedShr_eq, ha.1]
  by_cases h : s < w * n
  · rw [if_pos h, if_pos h]; exact i_shr_spec hw hn ha h
  · rw [if_neg h, if_neg h]
    have hneg := isNegative_iff' hw hn ha
    cases hN : isNegative w a with
    | true =>
      have : S w a < 0 := hneg.1 hN
      simp only [if_true, this]
      exact ⟨WF_allOnes w n, S_allOnes hw hn⟩
    | false =>
      have : ¬ S w a < 0 := fun h => by rw [hneg.2 h] at hN; cases hN
      simp only [Bool.false_eq_true, if_false, this]
      exact ⟨WF_zero w n, S_zero w n⟩
example : WF 8 3 [0x81, 0x7f, 0x83] ∧ isNegative 8 [0x81, 0x7f, 0x83] = true ∧ ¬ 24 < 8 * 3 := by
  decide

/-! ## rotations: "cyclically permute the BITS-bit pattern by n mod BITS places for every width,
    including widths that are not powers of two, and are inverses of each other" -/

/-- `rotate_left(k)`: with ρ = k mod BITS, the low BITS-ρ bits move up by ρ, the top ρ bits wrap -/
theorem rotl_spec (hw : 1 ≤ w) (hn : 1 ≤ n) (ha : WF w n a) (k : Nat) :
    WF w n (UI.rotateLeft w a k) ∧
    U w (UI.rotateLeft w a k)
      = (U w a * 2 ^ (k % (w * n))) % M w n + U w a / 2 ^ (w * n - k % (w * n)) :=
  UI.rotateLeft_spec hw hn ha k
example : WF 8 3 [0x81, 0x7f, 0x83] := by decide

/-- `rotate_right(k)`: symmetric -/
theorem rotr_spec (hw : 1 ≤ w) (hn : 1 ≤ n) (ha : WF w n a) (k : Nat) :
    WF w n (UI.rotateRight w a k) ∧
    U w (UI.rotateRight w a k)
      = U w a / 2 ^ (k % (w * n)) + (U w a * 2 ^ (w * n - k % (w * n))) % M w n :=
  UI.rotateRight_spec hw hn ha k
example : WF 8 3 [0x81, 0x7f, 0x83] := by decide

/-- `x.rotate_left(k).rotate_right(k) = x` -/
theorem rotr_rotl (hw : 1 ≤ w) (hn : 1 ≤ n) (ha : WF w n a) (k : Nat) :
    UI.rotateRight w (UI.rotateLeft w a k) k = a := UI.rotateRight_rotateLeft hw hn ha k
/-- `x.rotate_right(k).rotate_left(k) = x` -/
theorem rotl_rotr (hw : 1 ≤ w) (hn : 1 ≤ n) (ha : WF w n a) (k : Nat) :
    UI.rotateLeft w (UI.rotateRight w a k) k = a := UI.rotateLeft_rotateRight hw hn ha k
example : WF 8 3 [0x81, 0x7f, 0x83] := by decide

/-- `BInt::rotate_left/right` are the `BUint` ones on the bit pattern -/
theorem i_rot (k : Nat) :
    II.rotateLeft w a k = UI.rotateLeft w a k ∧ II.rotateRight w a k = UI.rotateRight w a k :=
  ⟨rfl, rfl⟩
example : II.rotateRight 8 [0x81, 0x7f, 0x83] 28 = [0xf8, 0x37, 0x18] := by decide

/-- the case that the pre-fix code got wrong: 24 bits, `rotate_left(8)` -/
theorem rotl_w8n3_by8 : UI.rotateLeft 8 [1, 0, 0] 8 = [0, 1, 0] := by decide

/-! ## `unchecked_shl` / `unchecked_shr` (observation point "unchecked_ shl and shr"; src/int/unchecked.rs)

  `self.checked_shl(rhs).unwrap_unchecked()`: for `s < BITS` exactly the in-range value; for `s ≥ BITS`
  the Rust is undefined behaviour, which the model keeps visible as `none` — exactly then. -/

theorem unchecked_inrange (hs : s < w * a.length) :
    UI.uncheckedShl w a s = some (UI.uncheckedShlInternal w a s) ∧
    UI.uncheckedShr w a s = some (UI.uncheckedShrInternal w a s) ∧
    II.uncheckedShl w a s = some (UI.uncheckedShlInternal w a s) ∧
    II.uncheckedShr w a s = some (II.shrVal w a s) :=
  ⟨UI.checkedShl_of_lt hs, UI.checkedShr_of_lt hs, II.checkedShl_of_lt hs, II.checkedShr_of_lt hs⟩
example : 13 < 8 * [0x81, 0x7f, 0x83].length ∧
    UI.uncheckedShl 8 [0x81, 0x7f, 0x83] 13 = some [0, 0x20, 0xf0] := by decide

theorem unchecked_ub :
    (UI.uncheckedShl w a s = none ↔ w * a.length ≤ s) ∧
    (UI.uncheckedShr w a s = none ↔ w * a.length ≤ s) ∧
    (II.uncheckedShl w a s = none ↔ w * a.length ≤ s) ∧
    (II.uncheckedShr w a s = none ↔ w * a.length ≤ s) :=
  ⟨u_checked_shl_none, u_checked_shr_none, i_checked_shl_none, i_checked_shr_none⟩
example : UI.uncheckedShl 8 [0x81, 0x7f, 0x83] 24 = none ∧
    II.uncheckedShr 8 [0x81, 0x7f, 0x83] 23 = some [0xff, 0xff, 0xff] := by decide

/-- delegation structure of the Rust: strict = `expect` of checked, unchecked = `unwrap_unchecked` of
    checked -/
theorem strict_unchecked_eq_checked :
    UI.strictShl w a s = Outcome.expect (UI.checkedShl w a s) ∧
    UI.strictShr w a s = Outcome.expect (UI.checkedShr w a s) ∧
    II.strictShl w a s = Outcome.expect (II.checkedShl w a s) ∧
    II.strictShr w a s = Outcome.expect (II.checkedShr w a s) ∧
    UI.uncheckedShl w a s = UI.checkedShl w a s ∧ UI.uncheckedShr w a s = UI.checkedShr w a s ∧
    II.uncheckedShl w a s = II.checkedShl w a s ∧ II.uncheckedShr w a s = II.checkedShr w a s :=
  ⟨rfl, rfl, rfl, rfl, rfl, rfl, rfl, rfl⟩
example : II.strictShr 8 [0x81, 0x7f, 0x83] 7 = .ok [0xff, 0x06, 0xff] := by decide

/-! ## the operators `<<`, `>>`, `<<=`, `>>=` with a `u32` amount (observation point "results of <<, >>";
    src/int/ops.rs `impl Shl<ExpType>` / `impl Shr<ExpType>` / `assign_op_impl!`; Model/C05Extra.lean) -/

/-- the operator impls are the inherent `shl` / `shr` of `trait_fillers!` -/
theorem operators_eq (dbg : Bool) :
    UI.shlExp dbg w a s = UI.shl dbg w a s ∧ UI.shrExp dbg w a s = UI.shr dbg w a s ∧
    II.shlExp dbg w a s = II.shl dbg w a s ∧ II.shrExp dbg w a s = II.shr dbg w a s ∧
    UI.shlAssignExp dbg w a s = UI.shl dbg w a s ∧ UI.shrAssignExp dbg w a s = UI.shr dbg w a s ∧
    II.shlAssignExp dbg w a s = II.shl dbg w a s ∧ II.shrAssignExp dbg w a s = II.shr dbg w a s :=
  ⟨rfl, rfl, rfl, rfl, rfl, rfl, rfl, rfl⟩
example : II.shrExp true 8 [0x81, 0x7f, 0x83] 24 = .panic ∧
    II.shrExp false 8 [0x81, 0x7f, 0x83] 24 = .ok [0x83, 0xff, 0xff] ∧
    II.shrAssignExp true 8 [0x81, 0x7f, 0x83] 7 = .ok [0xff, 0x06, 0xff] := by decide

/-- for `s < BITS`, in both build modes, the operators return exactly the in-range shift values -/
theorem operators_inrange (dbg : Bool) (hs : s < w * a.length) :
    UI.shlExp dbg w a s = .ok (UI.uncheckedShlInternal w a s) ∧
    UI.shrExp dbg w a s = .ok (UI.uncheckedShrInternal w a s) ∧
    II.shlExp dbg w a s = .ok (UI.uncheckedShlInternal w a s) ∧
    II.shrExp dbg w a s = .ok (II.shrVal w a s) ∧
    UI.shlAssignExp dbg w a s = .ok (UI.uncheckedShlInternal w a s) ∧
    UI.shrAssignExp dbg w a s = .ok (UI.uncheckedShrInternal w a s) ∧
    II.shlAssignExp dbg w a s = .ok (UI.uncheckedShlInternal w a s) ∧
    II.shrAssignExp dbg w a s = .ok (II.shrVal w a s) :=
  ⟨UI.shl_of_lt dbg hs, UI.shr_of_lt dbg hs, II.shl_of_lt dbg hs, II.shr_of_lt dbg hs,
   UI.shl_of_lt dbg hs, UI.shr_of_lt dbg hs, II.shl_of_lt dbg hs, II.shr_of_lt dbg hs⟩
example : 13 < 8 * [0x81, 0x7f, 0x83].length := by decide

/-- `<<` / `>>` (hence also the operator forms, `operators_eq`) panic exactly under
    `debug_assertions` with `s ≥ BITS` -/
theorem shl_shr_panic (dbg : Bool) :
    (UI.shl dbg w a s = .panic ↔ dbg = true ∧ w * a.length ≤ s) ∧
    (UI.shr dbg w a s = .panic ↔ dbg = true ∧ w * a.length ≤ s) ∧
    (II.shl dbg w a s = .panic ↔ dbg = true ∧ w * a.length ≤ s) ∧
    (II.shr dbg w a s = .panic ↔ dbg = true ∧ w * a.length ≤ s) := by
  obtain ⟨h1, h2, h3, h4⟩ := strict_panic (w := w) (a := a) (s := s)
  cases dbg
  · refine ⟨⟨?_, ?_⟩, ⟨?_, ?_⟩, ⟨?_, ?_⟩, ⟨?_, ?_⟩⟩ <;> intro h
    all_goals first | (cases h; done) | (exact absurd h.1 (by decide))
  · simp only [true_and]
    exact ⟨h1, h2, h3, h4⟩
example : UI.shl true 8 [0x81, 0x7f, 0x83] 24 = .panic ∧
    UI.shl false 8 [0x81, 0x7f, 0x83] 24 ≠ .panic ∧ UI.shl true 8 [0x81, 0x7f, 0x83] 23 ≠ .panic := by
  decide

/-- an overflowing shift is the wrapping shift paired with the flag `s ≥ BITS` -/
theorem overflowing_eq_wrapping :
    UI.overflowingShl w a s = (UI.wrappingShl w a s, decide (w * a.length ≤ s)) ∧
    UI.overflowingShr w a s = (UI.wrappingShr w a s, decide (w * a.length ≤ s)) ∧
    II.overflowingShl w a s = (II.wrappingShl w a s, decide (w * a.length ≤ s)) ∧
    II.overflowingShr w a s = (II.wrappingShr w a s, decide (w * a.length ≤ s)) := by
  refine ⟨?_, ?_, ?_, ?_⟩
  · unfold UI.wrappingShl; rw [u_overflowing_shl]
  · unfold UI.wrappingShr; rw [u_overflowing_shr]
  · unfold II.wrappingShl; rw [i_overflowing_shl]
  · unfold II.wrappingShr; rw [i_overflowing_shr]
example : II.overflowingShr 8 [0x81, 0x7f, 0x83] 39 = ([0xff, 0x06, 0xff], true) := by decide

/-! ## the executable Spec (Bnum/Spec/Shift.lean, used by the driver) is what the theorems say -/

theorem spec_shl_unsigned (hw : 1 ≤ w) (ha : WF w n a) (hs : s < w * n) :
    U w (UI.uncheckedShlInternal w a s) = Spec.Shift.shlVal (w * n) (U w a : Int) s := by
  rw [(shl_spec hw ha hs).2]; unfold Spec.Shift.shlVal
  have : ((U w a : Int) * 2 ^ s) = ((U w a * 2 ^ s : Nat) : Int) := by push_cast; rfl
  rw [this, wrapU_natCast]; rfl

theorem spec_shl_signed (hw : 1 ≤ w) (ha : WF w n a) (hs : s < w * n) :
    U w (UI.uncheckedShlInternal w a s) = Spec.Shift.shlVal (w * n) (S w a) s :=
  i_shl_spec hw ha hs

theorem spec_shr_unsigned (hw : 1 ≤ w) (ha : WF w n a) (hs : s < w * n) :
    U w (UI.uncheckedShrInternal w a s) = Spec.Shift.shrVal (w * n) (U w a : Int) s := by
  rw [(u_shr_spec hw ha hs).2]; unfold Spec.Shift.shrVal
  rw [Int.fdiv_eq_ediv_of_nonneg _ (by positivity)]
  have : ((U w a : Int) / 2 ^ s) = ((U w a / 2 ^ s : Nat) : Int) := by push_cast; rfl
  have hlt : U w a / 2 ^ s < M w n := Nat.lt_of_le_of_lt (Nat.div_le_self _ _) (U_lt ha)
  rw [this, wrapU_natCast]; exact (Nat.mod_eq_of_lt hlt).symm

theorem spec_shr_signed (hw : 1 ≤ w) (hn : 1 ≤ n) (ha : WF w n a) (hs : s < w * n) :
    U w (II.shrVal w a s) = Spec.Shift.shrVal (w * n) (S w a) s := by
  obtain ⟨h1, h2⟩ := i_shr_spec hw hn ha hs
  unfold Spec.Shift.shrVal; rw [← h2, S_def, h1.1]
  exact (wrapU_toInt (U_lt h1)).symm

theorem spec_rotl (hw : 1 ≤ w) (hn : 1 ≤ n) (ha : WF w n a) (k : Nat) :
    U w (UI.rotateLeft w a k) = Spec.Shift.rotl (w * n) (U w a) k := (rotl_spec hw hn ha k).2
theorem spec_rotr (hw : 1 ≤ w) (hn : 1 ≤ n) (ha : WF w n a) (k : Nat) :
    U w (UI.rotateRight w a k) = Spec.Shift.rotr (w * n) (U w a) k := (rotr_spec hw hn ha k).2
example : WF 8 3 [0x81, 0x7f, 0x83] ∧ 13 < 8 * 3 := by decide

/-! ### the remaining Spec functions the driver answers with (`isPow2`, `effAmount`, `unboundedShl`,
    `unboundedShr`) and the composed answers of `wrapping_*`, `overflowing_*` (with
    `overflowing_eq_wrapping`), `checked_*`, `strict_*`/`unchecked_*` (with `strict_unchecked_eq_checked`) -/

theorem spec_isPow2 (b : Nat) : Spec.Shift.isPow2 b = true ↔ ∃ k, b = 2 ^ k := by
  unfold Spec.Shift.isPow2
  rw [beq_iff_eq]
  constructor
  · intro h; exact ⟨_, h.symm⟩
  · rintro ⟨k, rfl⟩; rw [Nat.log2_two_pow]
example : Spec.Shift.isPow2 32 = true ∧ Spec.Shift.isPow2 24 = false ∧ Spec.Shift.isPow2 0 = false := by
  decide

/-- whenever the Spec fixes an amount it is the amount the code uses, and it is in range -/
theorem spec_effAmount_some {bits e : Nat} (hb : 0 < bits)
    (h : Spec.Shift.effAmount bits s = some e) : effAmount bits s = e ∧ e < bits := by
  unfold Spec.Shift.effAmount at h
  by_cases h1 : s < bits
  · rw [if_pos h1] at h; cases h; exact ⟨effAmount_of_lt h1, h1⟩
  · rw [if_neg h1] at h
    by_cases h2 : Spec.Shift.isPow2 bits = true
    · rw [if_pos h2] at h; cases h
      obtain ⟨k, hk⟩ := (spec_isPow2 bits).1 h2
      exact ⟨effAmount_pow2 s hk, Nat.mod_lt _ hb⟩
    · rw [if_neg h2] at h; cases h
example : (0 : Nat) < 32 ∧ Spec.Shift.effAmount 32 37 = some 5 := by decide

/-- the Spec fixes the amount for every `s < BITS` … -/
theorem spec_effAmount_lt {bits : Nat} (h : s < bits) : Spec.Shift.effAmount bits s = some s := by
  unfold Spec.Shift.effAmount; rw [if_pos h]
/-- … and, "when BITS is a power of two", as `s mod BITS` for every `s` … -/
theorem spec_effAmount_pow2 {bits k : Nat} (h : bits = 2 ^ k) :
    Spec.Shift.effAmount bits s = some (s % bits) := by
  unfold Spec.Shift.effAmount
  by_cases h1 : s < bits
  · rw [if_pos h1, Nat.mod_eq_of_lt h1]
  · rw [if_neg h1, if_pos ((spec_isPow2 bits).2 ⟨k, h⟩)]
/-- … and leaves it open (driver answer `*`) exactly for `s ≥ BITS` at a width that is not a power
    of two -/
theorem spec_effAmount_none {bits : Nat} :
    Spec.Shift.effAmount bits s = none ↔ bits ≤ s ∧ ¬ ∃ k, bits = 2 ^ k := by
  unfold Spec.Shift.effAmount
  rw [← spec_isPow2]
  by_cases h1 : s < bits
  · rw [if_pos h1]; constructor
    · intro h; cases h
    · intro h; omega
  · rw [if_neg h1]
    by_cases h2 : Spec.Shift.isPow2 bits = true
    · rw [if_pos h2]; constructor
      · intro h; cases h
      · intro h; exact absurd h2 h.2
    · rw [if_neg h2]; exact ⟨fun _ => ⟨by omega, h2⟩, fun _ => rfl⟩
example : Spec.Shift.effAmount 24 23 = some 23 ∧ Spec.Shift.effAmount 64 4294967295 = some 63 ∧
    Spec.Shift.effAmount 24 25 = none := by decide

/-- `wrapping_shl` / `wrapping_shr` (and by `overflowing_eq_wrapping` the value of `overflowing_*`,
    by `shl_shr_rel` release `<<` / `>>`): whenever the Spec fixes the amount `e`, the result is the
    Spec shift by `e` — of the unsigned value for `BUint`, of the signed value for `BInt` -/
theorem spec_wrapping (hw : 1 ≤ w) (hn : 1 ≤ n) (ha : WF w n a) {e : Nat}
    (h : Spec.Shift.effAmount (w * n) s = some e) :
    U w (UI.wrappingShl w a s) = Spec.Shift.shlVal (w * n) (U w a : Int) e ∧
    U w (UI.wrappingShr w a s) = Spec.Shift.shrVal (w * n) (U w a : Int) e ∧
    U w (II.wrappingShl w a s) = Spec.Shift.shlVal (w * n) (S w a) e ∧
    U w (II.wrappingShr w a s) = Spec.Shift.shrVal (w * n) (S w a) e := by
  obtain ⟨he, hlt⟩ := spec_effAmount_some (bits_pos hw hn) h
  refine ⟨?_, ?_, ?_, ?_⟩
  · unfold UI.wrappingShl; rw [u_overflowing_shl, ha.1, he]; exact spec_shl_unsigned hw ha hlt
  · unfold UI.wrappingShr; rw [u_overflowing_shr, ha.1, he]; exact spec_shr_unsigned hw ha hlt
  · unfold II.wrappingShl; rw [i_overflowing_shl, ha.1, he]; exact spec_shl_signed hw ha hlt
  · unfold II.wrappingShr; rw [i_overflowing_shr, ha.1, he]; exact spec_shr_signed hw hn ha hlt
example : WF 8 4 [0x81, 0x7f, 0x83, 0x01] ∧ Spec.Shift.effAmount (8 * 4) 37 = some 5 := by decide

/-- `checked_shl` / `checked_shr`: `None` for `s ≥ BITS`, else `Some` of the Spec shift by `s` -/
theorem spec_checked (hw : 1 ≤ w) (hn : 1 ≤ n) (ha : WF w n a) :
    (UI.checkedShl w a s).map (U w)
      = (if w * n ≤ s then none else some (Spec.Shift.shlVal (w * n) (U w a : Int) s)) ∧
    (UI.checkedShr w a s).map (U w)
      = (if w * n ≤ s then none else some (Spec.Shift.shrVal (w * n) (U w a : Int) s)) ∧
    (II.checkedShl w a s).map (U w)
      = (if w * n ≤ s then none else some (Spec.Shift.shlVal (w * n) (S w a) s)) ∧
    (II.checkedShr w a s).map (U w)
      = (if w * n ≤ s then none else some (Spec.Shift.shrVal (w * n) (S w a) s)) := by
  by_cases h : w * n ≤ s
  · have h' : w * a.length ≤ s := by rw [ha.1]; exact h
    simp only [if_pos h]
    rw [UI.checkedShl_of_ge h', UI.checkedShr_of_ge h', II.checkedShl_of_ge h', II.checkedShr_of_ge h']
    exact ⟨rfl, rfl, rfl, rfl⟩
  · have h' : s < w * a.length := by rw [ha.1]; omega
    have hs : s < w * n := by omega
    simp only [if_neg h]
    rw [UI.checkedShl_of_lt h', UI.checkedShr_of_lt h', II.checkedShl_of_lt h', II.checkedShr_of_lt h']
    simp only [Option.map_some]
    exact ⟨congrArg some (spec_shl_unsigned hw ha hs), congrArg some (spec_shr_unsigned hw ha hs),
      congrArg some (spec_shl_signed hw ha hs), congrArg some (spec_shr_signed hw hn ha hs)⟩
example : WF 8 3 [0x81, 0x7f, 0x83] ∧ ¬ 8 * 3 ≤ 23 ∧ 8 * 3 ≤ 24 := by decide

/-- `unbounded_shl` / `unbounded_shr` for every amount: the Spec shift below BITS, `0` (or the all-ones
    pattern of `-1` for a negative `BInt` shifted right) from BITS on -/
theorem spec_unbounded (hw : 1 ≤ w) (hn : 1 ≤ n) (ha : WF w n a) :
    U w (UI.unboundedShl w a s) = Spec.Shift.unboundedShl (w * n) (U w a : Int) s ∧
    U w (UI.unboundedShr w a s) = Spec.Shift.unboundedShr (w * n) (U w a : Int) s ∧
    U w (II.unboundedShl w a s) = Spec.Shift.unboundedShl (w * n) (S w a) s ∧
    U w (II.unboundedShr w a s) = Spec.Shift.unboundedShr (w * n) (S w a) s := by
  unfold Spec.Shift.unboundedShl Spec.Shift.unboundedShr
  by_cases h : s < w * n
  · have h' : s < w * a.length := by rw [ha.1]; exact h
    simp only [if_pos h]
    rw [UI.unboundedShl_of_lt h', UI.unboundedShr_of_lt h', II.unboundedShl_of_lt h',
      II.unboundedShr_of_lt h']
    exact ⟨spec_shl_unsigned hw ha h, spec_shr_unsigned hw ha h, spec_shl_signed hw ha h,
      spec_shr_signed hw hn ha h⟩
  · have hnn : ¬ ((U w a : Int) < 0) := by omega
    rw [(u_unbounded_shl hw ha).2, (u_unbounded_shr hw ha).2, (i_unbounded_shl hw ha).2,
      II.unboundedShr_eq, ha.1]
    simp only [if_neg h, if_neg hnn]
    refine ⟨trivial, trivial, trivial, ?_⟩
    have hneg := isNegative_iff' hw hn ha
    cases hN : isNegative w a with
    | true =>
      have : S w a < 0 := hneg.1 hN
      simp only [if_true, this]; exact U_allOnes w n
    | false =>
      have : ¬ S w a < 0 := fun h => by rw [hneg.2 h] at hN; cases hN
      simp only [Bool.false_eq_true, if_false, this]; exact U_zero w n
example : WF 8 3 [0x81, 0x7f, 0x83] ∧ S 8 [0x81, 0x7f, 0x83] < 0 ∧
    II.unboundedShr 8 [0x81, 0x7f, 0x83] 24 = [0xff, 0xff, 0xff] ∧
    II.unboundedShr 8 [0x81, 0x7f, 0x03] 4294967295 = [0, 0, 0] := by decide

end Bnum.C05
