/-
  Bnum.Props.C20 — property C20: "With the rand feature, for every RNG output stream and all
  bounds, gen_range(low..high), gen_range(low..=high), Uniform::sample and
  sample_single(_inclusive) return a value inside the requested range (signed ranges spanning zero
  and the full range included), and the set of RNG words they accept maps onto the range so that
  every value has the same number of preimages.  Standard sampling and Fill/try_fill_slice derive
  every digit of every generated integer from the RNG output in little-endian order, so all 2^BITS
  values are reachable and a slice fill equals filling each element in turn."

  Model: `Bnum/Model/Random.lean` (`Bnum.Rand.*`).  The digit width is `w = 8*k` bits (`k` bytes
  per digit: 1, 2, 4, 8 for the real digit types — the theorems hold for every `k`), `n` digits,
  `m = M (8*k) n = 2^BITS`.  Bounds and results are `BITS`-bit patterns (`< m`); `val signed m x`
  is the value of pattern `x` (two's complement when `signed`).  A stream is a list of bytes
  (`StreamOK`: every entry `< 256`).  `gen_range(low..high)` is `sample_single`,
  `gen_range(low..=high)` is `sample_single_inclusive`, `Uniform::new(..).sample` is
  `uniformNewSample`, `Uniform::new_inclusive(..).sample` is `uniformNewInclusiveSample`.
  Results: `.panic` (assert on an empty range) | `.ok none` (stream exhausted) |
  `.ok (some (x, rest))`.
-/
import Bnum.Lemmas.Random
import Bnum.Lemmas.RandomD
import Bnum.Lemmas.C20Extra
namespace Bnum.Props.C20
open Bnum Bnum.Rand

/-! ### 1. Range membership ("return a value inside the requested range (signed ranges spanning
    zero and the full range included)") — for every stream, all bounds, both build modes -/

/-- `sample_single_inclusive` / `gen_range(low..=high)`: `low ≤ x ≤ high` -/
theorem sample_single_inclusive_in_range {signed dbg : Bool} {k n low high x : Nat} {s rest : Stream}
    (hk : 1 ≤ k) (hn : 1 ≤ n) (hok : StreamOK s)
    (hl : low < M (8 * k) n) (hh : high < M (8 * k) n)
    (h : sampleSingleInclusive signed dbg (8 * k) n low high s = .ok (some (x, rest))) :
    x < M (8 * k) n ∧ val signed (M (8 * k) n) low ≤ val signed (M (8 * k) n) x ∧
      val signed (M (8 * k) n) x ≤ val signed (M (8 * k) n) high :=
  sampleSingleInclusive_in_range (by have := Nat.mul_le_mul (Nat.mul_le_mul_left 8 hk) hn; omega)
    hok hl hh h

-- signed range spanning zero, 16 bits (modulo zone): [-3, 3]; the word 0x9249 is rejected
-- (0x9249·7 mod 2^16 = 0xffff > zone = 0xfffd), the word 0x8000 is accepted and maps to 0
example : sampleSingleInclusive true true 8 2 0xfffd 3 [0x49, 0x92, 0x00, 0x80] = .ok (some (0, [])) := by
  decide
-- the full signed range, 24 bits: `range` wraps to zero, the first word is returned
example : sampleSingleInclusive true false 8 3 0x800000 0x7fffff [1, 2, 3, 4] =
    .ok (some (0x030201, [4])) := by decide
-- 24 bits unsigned (power-of-two zone `5·2^21 - 1`): the first word 0xffffff is rejected
example : sampleSingleInclusive false true 8 3 10 14 [0xff, 0xff, 0xff, 0, 0, 0x80] =
    .ok (some (12, [])) := by decide
example : StreamOK [0x49, 0x92, 0x00, 0x80] := by decide

/-- `sample_single` / `gen_range(low..high)`: `low ≤ x < high` -/
theorem sample_single_in_range {signed dbg : Bool} {k n low high x : Nat} {s rest : Stream}
    (hk : 1 ≤ k) (hn : 1 ≤ n) (hok : StreamOK s)
    (hl : low < M (8 * k) n) (hh : high < M (8 * k) n)
    (h : sampleSingle signed dbg (8 * k) n low high s = .ok (some (x, rest))) :
    x < M (8 * k) n ∧ val signed (M (8 * k) n) low ≤ val signed (M (8 * k) n) x ∧
      val signed (M (8 * k) n) x < val signed (M (8 * k) n) high :=
  sampleSingle_in_range (by have := Nat.mul_le_mul (Nat.mul_le_mul_left 8 hk) hn; omega) hok hl hh h

example : sampleSingle true true 8 2 0xfffd 4 [0xfd, 0xff, 0x00, 0x80] = .ok (some (3, [0, 0x80])) := by
  decide

/-- `rng.gen_range(low..high)` and `rng.gen_range(low..=high)` are exactly `sample_single` and
    `sample_single_inclusive` (rand's forwarders only repeat the emptiness assertion), so every
    theorem below about the latter is a theorem about `gen_range` -/
theorem gen_range_eq (signed dbg : Bool) (w n low high : Nat) (s : Stream) :
    genRange signed dbg w n low high s = sampleSingle signed dbg w n low high s ∧
    genRangeInclusive signed dbg w n low high s = sampleSingleInclusive signed dbg w n low high s :=
  ⟨genRange_eq .., genRangeInclusive_eq ..⟩

/-- `Uniform::new_inclusive(low, high).sample(rng)`: `low ≤ x ≤ high` -/
theorem uniform_new_inclusive_in_range {signed dbg : Bool} {k n low high x : Nat} {s rest : Stream}
    (hk : 1 ≤ k) (hn : 1 ≤ n) (hok : StreamOK s)
    (hl : low < M (8 * k) n) (hh : high < M (8 * k) n)
    (h : uniformNewInclusiveSample signed dbg (8 * k) n low high s = .ok (some (x, rest))) :
    x < M (8 * k) n ∧ val signed (M (8 * k) n) low ≤ val signed (M (8 * k) n) x ∧
      val signed (M (8 * k) n) x ≤ val signed (M (8 * k) n) high :=
  uniformNewInclusiveSample_in_range
    (by have := Nat.mul_le_mul (Nat.mul_le_mul_left 8 hk) hn; omega) hok hl hh h

example : uniformNewInclusiveSample false false 16 2 0 0xffffffff [1, 2, 3, 4] =
    .ok (some (0x04030201, [])) := by decide

/-- `Uniform::new(low, high).sample(rng)`: `low ≤ x < high` -/
theorem uniform_new_in_range {signed dbg : Bool} {k n low high x : Nat} {s rest : Stream}
    (hk : 1 ≤ k) (hn : 1 ≤ n) (hok : StreamOK s)
    (hl : low < M (8 * k) n) (hh : high < M (8 * k) n)
    (h : uniformNewSample signed dbg (8 * k) n low high s = .ok (some (x, rest))) :
    x < M (8 * k) n ∧ val signed (M (8 * k) n) low ≤ val signed (M (8 * k) n) x ∧
      val signed (M (8 * k) n) x < val signed (M (8 * k) n) high :=
  uniformNewSample_in_range (by have := Nat.mul_le_mul (Nat.mul_le_mul_left 8 hk) hn; omega) hok hl hh h

example : uniformNewSample true true 16 1 0xfffe 3 [0xff, 0xff, 0x00, 0x40] =
    .ok (some (2, [0, 0x40])) := by decide

/-! ### 2. Panics: exactly the `assert!` on an empty range; none of the internal operators
    (`high - ONE`, `MAX - range + 1`, `% range`, `MAX - z`, `range << lz`) can overflow, so debug and
    release builds behave identically. -/

theorem sample_single_inclusive_panic_iff {signed dbg : Bool} {w n low high : Nat} {s : Stream}
    (hW : 1 ≤ w * n) :
    sampleSingleInclusive signed dbg w n low high s = .panic ↔
      ¬ val signed (M w n) low ≤ val signed (M w n) high := by
  rw [sampleSingleInclusive_panic_iff hW, ← val_le_iff]; simp

theorem sample_single_panic_iff {signed dbg : Bool} {w n low high : Nat} {s : Stream}
    (hW : 2 ≤ w * n) (hl : low < M w n) (hh : high < M w n) :
    sampleSingle signed dbg w n low high s = .panic ↔
      ¬ val signed (M w n) low < val signed (M w n) high := by
  rw [sampleSingle_panic_iff hW hl hh, ← val_lt_iff]; simp

example : sampleSingle true true 8 2 4 4 [1, 2] = .panic := by decide
example : sampleSingleInclusive false true 8 2 5 4 [1, 2] = .panic := by decide

theorem sample_single_inclusive_mode_irrelevant {signed : Bool} {w n low high : Nat} {s : Stream}
    (hW : 1 ≤ w * n) :
    sampleSingleInclusive signed true w n low high s = sampleSingleInclusive signed false w n low high s :=
  sampleSingleInclusive_dbg hW
theorem sample_single_mode_irrelevant {signed : Bool} {w n low high : Nat} {s : Stream}
    (hW : 2 ≤ w * n) (hl : low < M w n) (hh : high < M w n) :
    sampleSingle signed true w n low high s = sampleSingle signed false w n low high s :=
  sampleSingle_dbg hW hl hh
theorem uniform_new_inclusive_mode_irrelevant {signed : Bool} {w n low high : Nat} {s : Stream}
    (hW : 1 ≤ w * n) :
    uniformNewInclusiveSample signed true w n low high s =
      uniformNewInclusiveSample signed false w n low high s :=
  uniformNewInclusiveSample_dbg hW
theorem uniform_new_mode_irrelevant {signed : Bool} {w n low high : Nat} {s : Stream}
    (hW : 2 ≤ w * n) (hl : low < M w n) (hh : high < M w n) :
    uniformNewSample signed true w n low high s = uniformNewSample signed false w n low high s :=
  uniformNewSample_dbg hW hl hh

/-! ### 3. Unbiasedness by construction ("the set of RNG words they accept maps onto the range so
    that every value has the same number of preimages").

    (a) what the code does: on a non-empty, non-full range the samplers run the rejection loop
        with `range = high - low + 1` and the zone `zoneSingle BITS range`
        (`sample_single(_inclusive)`: `m - 1 - m mod range` when `BITS ≤ 16`, else
        `range·2^lz - 1`) resp. `zoneExact m range = m - 1 - m mod range` (`Uniform`);
    (b) the loop returns exactly the image `low + ⌊v·range/m⌋` of the first word `v` whose low
        part `v·range mod m` is `≤ zone`, and every such word is reachable;
    (c) pure arithmetic: for both zones every `y < range` — hence every value of `[low, high]` —
        has exactly `(zone+1)/range ≥ 1` accepted preimages among the `m` words. -/

theorem sample_single_inclusive_closed_form {signed dbg : Bool} {w n low high : Nat} {s : Stream}
    (hW : 1 ≤ w * n) (hle : val signed (M w n) low ≤ val signed (M w n) high) :
    sampleSingleInclusive signed dbg w n low high s =
      .ok (if rangeOf (M w n) low high = 0 then genVal w n s
           else rejectLoop w n low (rangeOf (M w n) low high)
                  (zoneSingle (w * n) (rangeOf (M w n) low high)) (s.length + 1) s) :=
  sampleSingleInclusive_eq hW (val_le_iff.mpr hle)

theorem uniform_new_inclusive_closed_form {signed dbg : Bool} {w n low high : Nat} {s : Stream}
    (hW : 1 ≤ w * n) (hle : val signed (M w n) low ≤ val signed (M w n) high) :
    uniformNewInclusiveSample signed dbg w n low high s =
      .ok (if rangeOf (M w n) low high = 0 then genVal w n s
           else rejectLoop w n low (rangeOf (M w n) low high)
                  (zoneExact (M w n) (rangeOf (M w n) low high)) (s.length + 1) s) :=
  uniformNewInclusiveSample_eq hW (val_le_iff.mpr hle)

/-- `range` is the number of values of `[low, high]` (when that is not all `m` of them) -/
theorem range_eq {signed : Bool} {w n low high : Nat} (hW : 1 ≤ w * n)
    (hl : low < M w n) (hh : high < M w n) (hle : val signed (M w n) low ≤ val signed (M w n) high)
    (h0 : rangeOf (M w n) low high ≠ 0) :
    (rangeOf (M w n) low high : Int) = val signed (M w n) high - val signed (M w n) low + 1 :=
  (offset_in_range (hi := 0) (M_even' hW) (M_ge_two hW) hl hh hle h0 (Nat.pos_of_ne_zero h0)).1

/-- the loop's answer is the image of an accepted word of the stream (the `j`-th one), `j` whole
    words are consumed -/
theorem reject_loop_returns_accepted {k n low range zone fuel x : Nat} {s rest : Stream}
    (hok : StreamOK s) (h : rejectLoop (8 * k) n low range zone fuel s = some (x, rest)) :
    ∃ v j, v < M (8 * k) n ∧ (v * range) % M (8 * k) n ≤ zone ∧
      x = wrappingAdd (M (8 * k) n) low ((v * range) / M (8 * k) n) ∧
      1 ≤ j ∧ j * (n * k) ≤ s.length ∧ rest = s.drop (j * (n * k)) ∧
      v = leValue ((s.drop ((j - 1) * (n * k))).take (n * k)) :=
  rejectLoop_some hok h

/-- one loop iteration on a stream that starts with the `BYTES`-byte word `b` -/
theorem reject_loop_step {k n low range zone fuel : Nat} {b t : Stream} (hb : b.length = n * k) :
    rejectLoop (8 * k) n low range zone (fuel + 1) (b ++ t) =
      if (leValue b * range) % M (8 * k) n ≤ zone
      then some (wrappingAdd (M (8 * k) n) low ((leValue b * range) / M (8 * k) n), t)
      else rejectLoop (8 * k) n low range zone fuel t :=
  rejectLoop_word hb

/-- every accepted word is reachable and yields its image -/
theorem reject_loop_accepts {k n low range zone fuel v : Nat} (hv : v < M (8 * k) n)
    (hacc : (v * range) % M (8 * k) n ≤ zone) :
    rejectLoop (8 * k) n low range zone (fuel + 1) (ofNat 8 (n * k) v) =
      some (wrappingAdd (M (8 * k) n) low ((v * range) / M (8 * k) n), []) :=
  rejectLoop_accepts hv hacc

/-- the fuel of the model's loop (`stream length + 1`) is never the reason for `none` -/
theorem reject_loop_fuel_irrelevant {k n low range zone fuel : Nat} {s : Stream} (hnk : 1 ≤ n * k)
    (hf : s.length + 1 ≤ fuel) :
    rejectLoop (8 * k) n low range zone fuel s =
      rejectLoop (8 * k) n low range zone (s.length + 1) s :=
  rejectLoop_fuel_ge hnk hf

/-- PURE MATH: if `range ∣ zone + 1` and `zone < m`, each `y < range` is the high part of exactly
    `(zone+1)/range` accepted words (`countBelow p m` = number of `v < m` with `p v`,
    see `countBelow_eq_filter`) -/
theorem accept_count_uniform {m range zone y : Nat} (hr : range ≠ 0) (hz : zone < m)
    (hdvd : range ∣ zone + 1) (hy : y < range) :
    ((List.range m).filter
      (fun v => decide ((v * range) % m ≤ zone ∧ (v * range) / m = y))).length = (zone + 1) / range := by
  rw [← countBelow_eq_filter]; exact accept_count (Nat.pos_of_ne_zero hr) hz hdvd hy

example : ((List.range 256).filter
    (fun v => decide ((v * 7) % 256 ≤ 251 ∧ (v * 7) / 256 = 3))).length = 252 / 7 := by decide

/-- both zone formulas of the code satisfy the hypotheses of `accept_count_uniform`, and give at
    least one preimage -/
theorem zone_exact_ok {m range : Nat} (hr : range ≠ 0) (hrm : range < m) :
    zoneExact m range < m ∧ range ∣ zoneExact m range + 1 ∧ 1 ≤ (zoneExact m range + 1) / range := by
  obtain ⟨a, b, c⟩ := zoneExact_spec hr hrm
  exact ⟨a, b, (Nat.le_div_iff_mul_le (Nat.pos_of_ne_zero hr)).mpr (by omega)⟩
theorem zone_single_ok {W range : Nat} (hr : range ≠ 0) (hrm : range < 2 ^ W) :
    zoneSingle W range < 2 ^ W ∧ range ∣ zoneSingle W range + 1 ∧
      1 ≤ (zoneSingle W range + 1) / range := by
  obtain ⟨a, b, c⟩ := zoneSingle_facts hr hrm
  exact ⟨a, b, (Nat.le_div_iff_mul_le (Nat.pos_of_ne_zero hr)).mpr (by omega)⟩

/-- `sample_single(_inclusive)`: every `y < range` has the same number `(zone+1)/range ≥ 1` of
    accepted words -/
theorem accept_count_uniform_single {W range y : Nat} (hr : range ≠ 0) (hrm : range < 2 ^ W)
    (hy : y < range) :
    ((List.range (2 ^ W)).filter (fun v => decide ((v * range) % 2 ^ W ≤ zoneSingle W range ∧
        (v * range) / 2 ^ W = y))).length = (zoneSingle W range + 1) / range :=
  accept_count_uniform hr (zone_single_ok hr hrm).1 (zone_single_ok hr hrm).2.1 hy

/-- `Uniform::sample`: same with the exact zone -/
theorem accept_count_uniform_exact {m range y : Nat} (hr : range ≠ 0) (hrm : range < m)
    (hy : y < range) :
    ((List.range m).filter (fun v => decide ((v * range) % m ≤ zoneExact m range ∧
        (v * range) / m = y))).length = (zoneExact m range + 1) / range :=
  accept_count_uniform hr (zone_exact_ok hr hrm).1 (zone_exact_ok hr hrm).2.1 hy

/-- EVERY VALUE OF THE RANGE HAS THE SAME NUMBER OF PREIMAGES (`sample_single(_inclusive)`,
    `gen_range`): for `x ∈ [low, high]` the number of words `v < m` that are accepted and mapped to
    `x` is `(zone+1)/range`, independent of `x`, and `≥ 1` (`zone_single_ok`) -/
theorem preimage_count_single {signed : Bool} {w n low high x : Nat} (hW : 1 ≤ w * n)
    (hl : low < M w n) (hh : high < M w n) (hle : val signed (M w n) low ≤ val signed (M w n) high)
    (h0 : rangeOf (M w n) low high ≠ 0) (hx : x < M w n)
    (hin : val signed (M w n) low ≤ val signed (M w n) x ∧ val signed (M w n) x ≤ val signed (M w n) high) :
    ((List.range (M w n)).filter (fun v =>
        decide ((v * rangeOf (M w n) low high) % M w n ≤ zoneSingle (w * n) (rangeOf (M w n) low high) ∧
          wrappingAdd (M w n) low ((v * rangeOf (M w n) low high) / M w n) = x))).length =
      (zoneSingle (w * n) (rangeOf (M w n) low high) + 1) / rangeOf (M w n) low high := by
  have hr := rangeOf_lt (low := low) (high := high) (M_pos w n)
  obtain ⟨a, b, _⟩ := zone_single_ok h0 (M_eq_two_pow w n ▸ hr)
  rw [← countBelow_eq_filter]
  exact preimage_count (M_even' hW) (M_ge_two hW) hl hh hle h0 (M_eq_two_pow w n ▸ a) b hx hin

/-- same for `Uniform::new(_inclusive)` + `sample` -/
theorem preimage_count_uniform {signed : Bool} {w n low high x : Nat} (hW : 1 ≤ w * n)
    (hl : low < M w n) (hh : high < M w n) (hle : val signed (M w n) low ≤ val signed (M w n) high)
    (h0 : rangeOf (M w n) low high ≠ 0) (hx : x < M w n)
    (hin : val signed (M w n) low ≤ val signed (M w n) x ∧ val signed (M w n) x ≤ val signed (M w n) high) :
    ((List.range (M w n)).filter (fun v =>
        decide ((v * rangeOf (M w n) low high) % M w n ≤ zoneExact (M w n) (rangeOf (M w n) low high) ∧
          wrappingAdd (M w n) low ((v * rangeOf (M w n) low high) / M w n) = x))).length =
      (zoneExact (M w n) (rangeOf (M w n) low high) + 1) / rangeOf (M w n) low high := by
  have hr := rangeOf_lt (low := low) (high := high) (M_pos w n)
  obtain ⟨a, b, _⟩ := zone_exact_ok h0 hr
  rw [← countBelow_eq_filter]
  exact preimage_count (M_even' hW) (M_ge_two hW) hl hh hle h0 a b hx hin

-- i8x1, [-3, 3]: range 7, zone 251; the value -1 (0xff) has 36 = 252/7 preimages
example : ((List.range (M 8 1)).filter (fun v =>
    decide ((v * rangeOf (M 8 1) 0xfd 3) % M 8 1 ≤ zoneSingle 8 (rangeOf (M 8 1) 0xfd 3) ∧
      wrappingAdd (M 8 1) 0xfd ((v * rangeOf (M 8 1) 0xfd 3) / M 8 1) = 0xff))).length = 36 := by decide

/-! ### 4. `Standard` ("derive every digit of every generated integer from the RNG output in
    little-endian order, so all 2^BITS values are reachable") -/

/-- `rng.gen::<BUint<N>>()` / `rng.gen::<BInt<N>>()` succeeds iff `BYTES = n*k` bytes are left,
    consumes exactly those, and returns the well-formed integer whose (pattern) value is the
    little-endian value of those bytes -/
theorem standard_le {k n : Nat} {s : Stream} (hok : StreamOK s) :
    (s.length < n * k → UI.gen (8 * k) n s = none) ∧
    (n * k ≤ s.length → ∃ d, UI.gen (8 * k) n s = some (d, s.drop (n * k)) ∧ WF (8 * k) n d ∧
        U (8 * k) d = leValue (s.take (n * k))) := by
  refine ⟨gen_none, fun h => ⟨_, gen_eq h, ?_, ?_⟩⟩
  · exact digitsOfBytes_WF (hok.take _) (by rw [List.length_take]; omega)
  · rw [U_digitsOfBytes (by rw [List.length_take]; omega), List.take_take, Nat.min_self]

theorem standard_signed_eq (w n : Nat) (s : Stream) : II.gen w n s = UI.gen w n s := rfl

/-- digit `i` is the little-endian value of bytes `[i*k, (i+1)*k)` -/
theorem standard_digits (k : Nat) : ∀ (n : Nat) (bs : List Nat),
    digitsOfBytes k n bs = (List.range n).map (fun i => leValue ((bs.drop (i * k)).take k))
  | 0, _ => rfl
  | n + 1, bs => by
    rw [digitsOfBytes, standard_digits k n, List.range_succ_eq_map, List.map_cons, List.map_map]
    simp only [Nat.zero_mul, List.drop_zero, List.cons.injEq, true_and]
    apply List.map_congr_left
    intro i _
    simp only [Function.comp, List.drop_drop, Nat.succ_mul]
    rw [Nat.add_comm]

/-- all `2^BITS` values are reachable -/
theorem standard_surjective (k n v : Nat) (hv : v < M (8 * k) n) :
    ∃ s, StreamOK s ∧ s.length = n * k ∧ genVal (8 * k) n s = some (v, []) :=
  ⟨ofNat 8 (n * k) v, ofNat_ok _ _, ofNat_length _ _ _, genVal_surjective k n v hv⟩

example : UI.gen 16 2 [1, 2, 3, 4, 5] = some ([0x0201, 0x0403], [5]) := by decide

/-! ### 5. Slice fill ("a slice fill equals filling each element in turn") -/

/-- `try_fill_slice` / `Fill for Slice<T>` on `len` elements = `len` consecutive `rng.gen()`
    (`genMany`): same elements, same remaining stream, fails in the same cases — for every digit
    width and digit count -/
theorem fill_slice_eq_gen_each (w n len : Nat) (s : Stream) :
    fillSlice w n len s = genMany w n len s :=
  fillSlice_eq_genMany w n len s

example : fillSlice 16 2 2 [1, 2, 3, 4, 5, 6, 7, 8, 9] =
    some ([[0x0201, 0x0403], [0x0605, 0x0807]], [9]) := by decide
example : fillSlice 16 2 3 [1, 2, 3, 4, 5, 6, 7, 8, 9] = none := by decide

/-! ### 6. The model computes the sampling law of `Spec/Random.lean` (the independent value-level
    re-statement that the driver prints as the spec answer): first accepted word of the stream cut
    into little-endian `BYTES`-byte words, answer `low + ⌊v·range/m⌋` as an exact integer, number
    of bytes consumed.  `drawView` turns the model's `(pattern, rest of stream)` into
    `(value, bytes consumed)`. -/

theorem sample_single_inclusive_eq_spec {signed dbg : Bool} {k n low high : Nat} {s : Stream}
    (hk : 1 ≤ k) (hn : 1 ≤ n) (hok : StreamOK s) (hl : low < M (8 * k) n) (hh : high < M (8 * k) n)
    (hle : val signed (M (8 * k) n) low ≤ val signed (M (8 * k) n) high) :
    ∃ d, sampleSingleInclusive signed dbg (8 * k) n low high s = .ok d ∧
      drawView signed (M (8 * k) n) s d =
        Spec.Random.sampleInclusive signed (M (8 * k) n) (n * k)
          (Spec.Random.zoneSingle (8 * k * n) (M (8 * k) n))
          (val signed (M (8 * k) n) low) (val signed (M (8 * k) n) high) s :=
  sampleSingleInclusive_eq_spec (by have := Nat.mul_le_mul (Nat.mul_le_mul_left 8 hk) hn; omega)
    hok hl hh hle

theorem sample_single_eq_spec {signed dbg : Bool} {k n low high : Nat} {s : Stream}
    (hk : 1 ≤ k) (hn : 1 ≤ n) (hok : StreamOK s) (hl : low < M (8 * k) n) (hh : high < M (8 * k) n)
    (hlt : val signed (M (8 * k) n) low < val signed (M (8 * k) n) high) :
    ∃ d, sampleSingle signed dbg (8 * k) n low high s = .ok d ∧
      drawView signed (M (8 * k) n) s d =
        Spec.Random.sampleInclusive signed (M (8 * k) n) (n * k)
          (Spec.Random.zoneSingle (8 * k * n) (M (8 * k) n))
          (val signed (M (8 * k) n) low) (val signed (M (8 * k) n) high - 1) s :=
  sampleSingle_eq_spec (by have := Nat.mul_le_mul (Nat.mul_le_mul_left 8 hk) hn; omega)
    hok hl hh hlt

theorem uniform_new_inclusive_eq_spec {signed dbg : Bool} {k n low high : Nat} {s : Stream}
    (hk : 1 ≤ k) (hn : 1 ≤ n) (hok : StreamOK s) (hl : low < M (8 * k) n) (hh : high < M (8 * k) n)
    (hle : val signed (M (8 * k) n) low ≤ val signed (M (8 * k) n) high) :
    ∃ d, uniformNewInclusiveSample signed dbg (8 * k) n low high s = .ok d ∧
      drawView signed (M (8 * k) n) s d =
        Spec.Random.sampleInclusive signed (M (8 * k) n) (n * k)
          (Spec.Random.zoneExact (M (8 * k) n))
          (val signed (M (8 * k) n) low) (val signed (M (8 * k) n) high) s :=
  uniformNewInclusiveSample_eq_spec
    (by have := Nat.mul_le_mul (Nat.mul_le_mul_left 8 hk) hn; omega) hok hl hh hle

theorem uniform_new_eq_spec {signed dbg : Bool} {k n low high : Nat} {s : Stream}
    (hk : 1 ≤ k) (hn : 1 ≤ n) (hok : StreamOK s) (hl : low < M (8 * k) n) (hh : high < M (8 * k) n)
    (hlt : val signed (M (8 * k) n) low < val signed (M (8 * k) n) high) :
    ∃ d, uniformNewSample signed dbg (8 * k) n low high s = .ok d ∧
      drawView signed (M (8 * k) n) s d =
        Spec.Random.sampleInclusive signed (M (8 * k) n) (n * k)
          (Spec.Random.zoneExact (M (8 * k) n))
          (val signed (M (8 * k) n) low) (val signed (M (8 * k) n) high - 1) s :=
  uniformNewSample_eq_spec (by have := Nat.mul_le_mul (Nat.mul_le_mul_left 8 hk) hn; omega)
    hok hl hh hlt

theorem standard_eq_spec' {k n : Nat} {s : Stream} :
    (genVal (8 * k) n s).map (fun p => (p.1, s.length - p.2.length)) =
      Spec.Random.standard (n * k) s :=
  standard_eq_spec

theorem fill_slice_eq_spec {k n len : Nat} {s : Stream} (hk : 1 ≤ k) (hn : 1 ≤ n) :
    (fillSlice (8 * k) n len s).map (fun p => (p.1.map (U (8 * k)), s.length - p.2.length)) =
      Spec.Random.fill (n * k) len s :=
  fillSlice_eq_spec (Nat.mul_le_mul hn hk)

example : Spec.Random.sampleInclusive true (M 8 2) 2 (Spec.Random.zoneSingle 16 (M 8 2)) (-3) 3
    [0x49, 0x92, 0x00, 0x80] = some (0, 4) := by decide

/-! ### 7. DIGIT LEVEL.  `Model/RandomD.lean` (`RandD.*`) is the same macro body written over
    digit lists, calling the digit-level models of every bnum function involved: `cmp`, the `Sub`
    operator (`strict_sub` / `wrapping_sub` by build mode), `wrapping_sub`, `wrapping_add`,
    `Add<Digit>`, the `Rem` operator (Knuth's Algorithm D), the `Shl` operator, `leading_zeros`,
    `bits`, `is_zero`, `widening_mul`.  REFINEMENT: on well-formed operands each sampler returns
    exactly what the value-level sampler of sections 1–6 returns on the values — same panic, same
    exhaustion, same remaining stream, well-formed result with the same pattern
    (`viewD w` maps the returned digit list to its pattern `U w ·`).  Hence every theorem above
    holds for the digit-level code; the most important ones are restated.
    `valD signed w x` = `S w x` (two's complement) if `signed` else `U w x`. -/

section digit
open Bnum.RandD

variable {signed dbg : Bool} {k n : Nat} {low high : List Nat} {s : Stream}

theorem d_sample_single_inclusive_refines (hk : 1 ≤ k) (hn : 1 ≤ n) (hok : StreamOK s)
    (hl : WF (8 * k) n low) (hh : WF (8 * k) n high) :
    viewD (8 * k) (RandD.sampleSingleInclusive signed dbg (8 * k) n low high s) =
      Rand.sampleSingleInclusive signed dbg (8 * k) n (U (8 * k) low) (U (8 * k) high) s ∧
    ∀ x rest, RandD.sampleSingleInclusive signed dbg (8 * k) n low high s = .ok (some (x, rest)) →
      WF (8 * k) n x :=
  (sampleSingleInclusive_ref hk hn hok hl hh).view

theorem d_sample_single_refines (hk : 1 ≤ k) (hn : 1 ≤ n) (hok : StreamOK s)
    (hl : WF (8 * k) n low) (hh : WF (8 * k) n high) :
    viewD (8 * k) (RandD.sampleSingle signed dbg (8 * k) n low high s) =
      Rand.sampleSingle signed dbg (8 * k) n (U (8 * k) low) (U (8 * k) high) s ∧
    ∀ x rest, RandD.sampleSingle signed dbg (8 * k) n low high s = .ok (some (x, rest)) →
      WF (8 * k) n x :=
  (sampleSingle_ref hk hn hok hl hh).view

theorem d_gen_range_refines (hk : 1 ≤ k) (hn : 1 ≤ n) (hok : StreamOK s)
    (hl : WF (8 * k) n low) (hh : WF (8 * k) n high) :
    viewD (8 * k) (RandD.genRange signed dbg (8 * k) n low high s) =
      Rand.genRange signed dbg (8 * k) n (U (8 * k) low) (U (8 * k) high) s ∧
    viewD (8 * k) (RandD.genRangeInclusive signed dbg (8 * k) n low high s) =
      Rand.genRangeInclusive signed dbg (8 * k) n (U (8 * k) low) (U (8 * k) high) s :=
  ⟨(genRange_ref hk hn hok hl hh).view.1, (genRangeInclusive_ref hk hn hok hl hh).view.1⟩

theorem d_uniform_new_inclusive_refines (hk : 1 ≤ k) (hn : 1 ≤ n) (hok : StreamOK s)
    (hl : WF (8 * k) n low) (hh : WF (8 * k) n high) :
    viewD (8 * k) (RandD.uniformNewInclusiveSample signed dbg (8 * k) n low high s) =
      Rand.uniformNewInclusiveSample signed dbg (8 * k) n (U (8 * k) low) (U (8 * k) high) s ∧
    ∀ x rest, RandD.uniformNewInclusiveSample signed dbg (8 * k) n low high s = .ok (some (x, rest)) →
      WF (8 * k) n x :=
  (uniformNewInclusiveSample_ref hk hn hok hl hh).view

theorem d_uniform_new_refines (hk : 1 ≤ k) (hn : 1 ≤ n) (hok : StreamOK s)
    (hl : WF (8 * k) n low) (hh : WF (8 * k) n high) :
    viewD (8 * k) (RandD.uniformNewSample signed dbg (8 * k) n low high s) =
      Rand.uniformNewSample signed dbg (8 * k) n (U (8 * k) low) (U (8 * k) high) s ∧
    ∀ x rest, RandD.uniformNewSample signed dbg (8 * k) n low high s = .ok (some (x, rest)) →
      WF (8 * k) n x :=
  (uniformNewSample_ref hk hn hok hl hh).view

/-- `UniformSampler::new(_inclusive)` build the same sampler (field by field), and `sample` on any
    well-formed sampler refines the value-level `sample` -/
theorem d_new_refines (hk : 1 ≤ k) (hn : 1 ≤ n) (hl : WF (8 * k) n low) (hh : WF (8 * k) n high) :
    RefOU (8 * k) n (RandD.new signed dbg (8 * k) n low high)
      (Rand.new signed dbg (8 * k) n (U (8 * k) low) (U (8 * k) high)) ∧
    RefOU (8 * k) n (RandD.newInclusive signed dbg (8 * k) n low high)
      (Rand.newInclusive signed dbg (8 * k) n (U (8 * k) low) (U (8 * k) high)) :=
  ⟨new_ref (by omega) hn hl hh, newInclusive_ref (by omega) hn hl hh⟩

theorem d_sample_refines {u : RandD.UniformInt} {v : Rand.UniformInt} (hn : 1 ≤ n) (hok : StreamOK s)
    (huv : RefU (8 * k) n u v) :
    viewD (8 * k) (RandD.sample signed dbg (8 * k) n u s) = Rand.sample dbg (8 * k) n v s :=
  (sample_ref hn hok huv).view.1

-- the digit-level model on a 24-bit signed range spanning zero (Knuth-free path) and on a 16-bit
-- one (modulo zone: `%` runs the digit-level division)
example : RandD.sampleSingleInclusive true true 8 2 [0xfd, 0xff] [3, 0] [0x49, 0x92, 0x00, 0x80] =
    .ok (some ([0, 0], [])) := by decide
example : RandD.sampleSingleInclusive false true 8 3 [10, 0, 0] [14, 0, 0]
    [0xff, 0xff, 0xff, 0, 0, 0x80] = .ok (some ([12, 0, 0], [])) := by decide
example : WF 8 2 [0xfd, 0xff] ∧ WF 8 2 [3, 0] := by decide

/-- digit level: `sample_single_inclusive` / `gen_range(low..=high)` stays in `[low, high]` -/
theorem d_sample_single_inclusive_in_range {x : List Nat} {rest : Stream}
    (hk : 1 ≤ k) (hn : 1 ≤ n) (hok : StreamOK s) (hl : WF (8 * k) n low) (hh : WF (8 * k) n high)
    (h : RandD.sampleSingleInclusive signed dbg (8 * k) n low high s = .ok (some (x, rest))) :
    WF (8 * k) n x ∧ valD signed (8 * k) low ≤ valD signed (8 * k) x ∧
      valD signed (8 * k) x ≤ valD signed (8 * k) high := by
  obtain ⟨hx, hv⟩ := (sampleSingleInclusive_ref hk hn hok hl hh).of_some h
  obtain ⟨_, a, b⟩ := sample_single_inclusive_in_range hk hn hok (U_lt hl) (U_lt hh) hv
  rw [valD_eq hl, valD_eq hx, valD_eq hh]; exact ⟨hx, a, b⟩

/-- digit level: `sample_single` / `gen_range(low..high)` stays in `[low, high)` -/
theorem d_sample_single_in_range {x : List Nat} {rest : Stream}
    (hk : 1 ≤ k) (hn : 1 ≤ n) (hok : StreamOK s) (hl : WF (8 * k) n low) (hh : WF (8 * k) n high)
    (h : RandD.sampleSingle signed dbg (8 * k) n low high s = .ok (some (x, rest))) :
    WF (8 * k) n x ∧ valD signed (8 * k) low ≤ valD signed (8 * k) x ∧
      valD signed (8 * k) x < valD signed (8 * k) high := by
  obtain ⟨hx, hv⟩ := (sampleSingle_ref hk hn hok hl hh).of_some h
  obtain ⟨_, a, b⟩ := sample_single_in_range hk hn hok (U_lt hl) (U_lt hh) hv
  rw [valD_eq hl, valD_eq hx, valD_eq hh]; exact ⟨hx, a, b⟩

theorem d_gen_range_in_range {x : List Nat} {rest : Stream}
    (hk : 1 ≤ k) (hn : 1 ≤ n) (hok : StreamOK s) (hl : WF (8 * k) n low) (hh : WF (8 * k) n high)
    (h : RandD.genRange signed dbg (8 * k) n low high s = .ok (some (x, rest))) :
    WF (8 * k) n x ∧ valD signed (8 * k) low ≤ valD signed (8 * k) x ∧
      valD signed (8 * k) x < valD signed (8 * k) high := by
  obtain ⟨hx, hv⟩ := (genRange_ref hk hn hok hl hh).of_some h
  rw [genRange_eq] at hv
  obtain ⟨_, a, b⟩ := sample_single_in_range hk hn hok (U_lt hl) (U_lt hh) hv
  rw [valD_eq hl, valD_eq hx, valD_eq hh]; exact ⟨hx, a, b⟩

theorem d_gen_range_inclusive_in_range {x : List Nat} {rest : Stream}
    (hk : 1 ≤ k) (hn : 1 ≤ n) (hok : StreamOK s) (hl : WF (8 * k) n low) (hh : WF (8 * k) n high)
    (h : RandD.genRangeInclusive signed dbg (8 * k) n low high s = .ok (some (x, rest))) :
    WF (8 * k) n x ∧ valD signed (8 * k) low ≤ valD signed (8 * k) x ∧
      valD signed (8 * k) x ≤ valD signed (8 * k) high := by
  obtain ⟨hx, hv⟩ := (genRangeInclusive_ref hk hn hok hl hh).of_some h
  rw [genRangeInclusive_eq] at hv
  obtain ⟨_, a, b⟩ := sample_single_inclusive_in_range hk hn hok (U_lt hl) (U_lt hh) hv
  rw [valD_eq hl, valD_eq hx, valD_eq hh]; exact ⟨hx, a, b⟩

theorem d_uniform_new_inclusive_in_range {x : List Nat} {rest : Stream}
    (hk : 1 ≤ k) (hn : 1 ≤ n) (hok : StreamOK s) (hl : WF (8 * k) n low) (hh : WF (8 * k) n high)
    (h : RandD.uniformNewInclusiveSample signed dbg (8 * k) n low high s = .ok (some (x, rest))) :
    WF (8 * k) n x ∧ valD signed (8 * k) low ≤ valD signed (8 * k) x ∧
      valD signed (8 * k) x ≤ valD signed (8 * k) high := by
  obtain ⟨hx, hv⟩ := (uniformNewInclusiveSample_ref hk hn hok hl hh).of_some h
  obtain ⟨_, a, b⟩ := uniform_new_inclusive_in_range hk hn hok (U_lt hl) (U_lt hh) hv
  rw [valD_eq hl, valD_eq hx, valD_eq hh]; exact ⟨hx, a, b⟩

theorem d_uniform_new_in_range {x : List Nat} {rest : Stream}
    (hk : 1 ≤ k) (hn : 1 ≤ n) (hok : StreamOK s) (hl : WF (8 * k) n low) (hh : WF (8 * k) n high)
    (h : RandD.uniformNewSample signed dbg (8 * k) n low high s = .ok (some (x, rest))) :
    WF (8 * k) n x ∧ valD signed (8 * k) low ≤ valD signed (8 * k) x ∧
      valD signed (8 * k) x < valD signed (8 * k) high := by
  obtain ⟨hx, hv⟩ := (uniformNewSample_ref hk hn hok hl hh).of_some h
  obtain ⟨_, a, b⟩ := uniform_new_in_range hk hn hok (U_lt hl) (U_lt hh) hv
  rw [valD_eq hl, valD_eq hx, valD_eq hh]; exact ⟨hx, a, b⟩

/-- digit level: the only panic is the emptiness assertion — in particular the digit-level
    `strict_sub`, `Rem` (division by zero), `strict_shl` and the index operations inside
    `Add<Digit>` / Knuth D never panic here -/
theorem d_sample_single_inclusive_panic_iff (hk : 1 ≤ k) (hn : 1 ≤ n) (hok : StreamOK s)
    (hl : WF (8 * k) n low) (hh : WF (8 * k) n high) :
    RandD.sampleSingleInclusive signed dbg (8 * k) n low high s = .panic ↔
      ¬ valD signed (8 * k) low ≤ valD signed (8 * k) high := by
  rw [(sampleSingleInclusive_ref hk hn hok hl hh).panic_iff,
    sample_single_inclusive_panic_iff (by have := Nat.mul_le_mul (Nat.mul_le_mul_left 8 hk) hn; omega),
    valD_eq hl, valD_eq hh]

theorem d_sample_single_panic_iff (hk : 1 ≤ k) (hn : 1 ≤ n) (hok : StreamOK s)
    (hl : WF (8 * k) n low) (hh : WF (8 * k) n high) :
    RandD.sampleSingle signed dbg (8 * k) n low high s = .panic ↔
      ¬ valD signed (8 * k) low < valD signed (8 * k) high := by
  rw [(sampleSingle_ref hk hn hok hl hh).panic_iff,
    sample_single_panic_iff (by have := Nat.mul_le_mul (Nat.mul_le_mul_left 8 hk) hn; omega)
      (U_lt hl) (U_lt hh), valD_eq hl, valD_eq hh]

/-- digit level: debug and release builds return the same digits -/
theorem d_sample_single_inclusive_mode_irrelevant (hk : 1 ≤ k) (hn : 1 ≤ n) (hok : StreamOK s)
    (hl : WF (8 * k) n low) (hh : WF (8 * k) n high) :
    RandD.sampleSingleInclusive signed true (8 * k) n low high s =
      RandD.sampleSingleInclusive signed false (8 * k) n low high s := by
  have h1 := sampleSingleInclusive_ref (signed := signed) (dbg := true) hk hn hok hl hh
  have h2 := sampleSingleInclusive_ref (signed := signed) (dbg := false) hk hn hok hl hh
  rw [sample_single_inclusive_mode_irrelevant
    (by have := Nat.mul_le_mul (Nat.mul_le_mul_left 8 hk) hn; omega)] at h1
  exact h1.unique h2

theorem d_sample_single_mode_irrelevant (hk : 1 ≤ k) (hn : 1 ≤ n) (hok : StreamOK s)
    (hl : WF (8 * k) n low) (hh : WF (8 * k) n high) :
    RandD.sampleSingle signed true (8 * k) n low high s =
      RandD.sampleSingle signed false (8 * k) n low high s := by
  have h1 := sampleSingle_ref (signed := signed) (dbg := true) hk hn hok hl hh
  have h2 := sampleSingle_ref (signed := signed) (dbg := false) hk hn hok hl hh
  rw [sample_single_mode_irrelevant
    (by have := Nat.mul_le_mul (Nat.mul_le_mul_left 8 hk) hn; omega) (U_lt hl) (U_lt hh)] at h1
  exact h1.unique h2

theorem d_uniform_new_inclusive_mode_irrelevant (hk : 1 ≤ k) (hn : 1 ≤ n) (hok : StreamOK s)
    (hl : WF (8 * k) n low) (hh : WF (8 * k) n high) :
    RandD.uniformNewInclusiveSample signed true (8 * k) n low high s =
      RandD.uniformNewInclusiveSample signed false (8 * k) n low high s := by
  have h1 := uniformNewInclusiveSample_ref (signed := signed) (dbg := true) hk hn hok hl hh
  have h2 := uniformNewInclusiveSample_ref (signed := signed) (dbg := false) hk hn hok hl hh
  rw [uniform_new_inclusive_mode_irrelevant
    (by have := Nat.mul_le_mul (Nat.mul_le_mul_left 8 hk) hn; omega)] at h1
  exact h1.unique h2

theorem d_uniform_new_mode_irrelevant (hk : 1 ≤ k) (hn : 1 ≤ n) (hok : StreamOK s)
    (hl : WF (8 * k) n low) (hh : WF (8 * k) n high) :
    RandD.uniformNewSample signed true (8 * k) n low high s =
      RandD.uniformNewSample signed false (8 * k) n low high s := by
  have h1 := uniformNewSample_ref (signed := signed) (dbg := true) hk hn hok hl hh
  have h2 := uniformNewSample_ref (signed := signed) (dbg := false) hk hn hok hl hh
  rw [uniform_new_mode_irrelevant
    (by have := Nat.mul_le_mul (Nat.mul_le_mul_left 8 hk) hn; omega) (U_lt hl) (U_lt hh)] at h1
  exact h1.unique h2

/-- digit level, unbiasedness: on a non-empty range the digit-level sampler IS the rejection loop
    with the zones whose accepted words are counted in section 3 (`preimage_count_single`,
    `preimage_count_uniform`, `accept_count_uniform_*`) -/
theorem d_sample_single_inclusive_closed_form (hk : 1 ≤ k) (hn : 1 ≤ n) (hok : StreamOK s)
    (hl : WF (8 * k) n low) (hh : WF (8 * k) n high)
    (hle : valD signed (8 * k) low ≤ valD signed (8 * k) high) :
    viewD (8 * k) (RandD.sampleSingleInclusive signed dbg (8 * k) n low high s) =
      .ok (if rangeOf (M (8 * k) n) (U (8 * k) low) (U (8 * k) high) = 0 then genVal (8 * k) n s
           else rejectLoop (8 * k) n (U (8 * k) low)
                  (rangeOf (M (8 * k) n) (U (8 * k) low) (U (8 * k) high))
                  (zoneSingle (8 * k * n) (rangeOf (M (8 * k) n) (U (8 * k) low) (U (8 * k) high)))
                  (s.length + 1) s) := by
  rw [(d_sample_single_inclusive_refines hk hn hok hl hh).1]
  rw [valD_eq hl, valD_eq hh] at hle
  exact sample_single_inclusive_closed_form
    (by have := Nat.mul_le_mul (Nat.mul_le_mul_left 8 hk) hn; omega) hle

theorem d_uniform_new_inclusive_closed_form (hk : 1 ≤ k) (hn : 1 ≤ n) (hok : StreamOK s)
    (hl : WF (8 * k) n low) (hh : WF (8 * k) n high)
    (hle : valD signed (8 * k) low ≤ valD signed (8 * k) high) :
    viewD (8 * k) (RandD.uniformNewInclusiveSample signed dbg (8 * k) n low high s) =
      .ok (if rangeOf (M (8 * k) n) (U (8 * k) low) (U (8 * k) high) = 0 then genVal (8 * k) n s
           else rejectLoop (8 * k) n (U (8 * k) low)
                  (rangeOf (M (8 * k) n) (U (8 * k) low) (U (8 * k) high))
                  (zoneExact (M (8 * k) n) (rangeOf (M (8 * k) n) (U (8 * k) low) (U (8 * k) high)))
                  (s.length + 1) s) := by
  rw [(d_uniform_new_inclusive_refines hk hn hok hl hh).1]
  rw [valD_eq hl, valD_eq hh] at hle
  exact uniform_new_inclusive_closed_form
    (by have := Nat.mul_le_mul (Nat.mul_le_mul_left 8 hk) hn; omega) hle

/-- digit level = Spec: what the driver prints as model answer (digit-level) and as spec answer
    are provably the same for every request -/
theorem d_sample_single_inclusive_eq_spec (hk : 1 ≤ k) (hn : 1 ≤ n) (hok : StreamOK s)
    (hl : WF (8 * k) n low) (hh : WF (8 * k) n high)
    (hle : valD signed (8 * k) low ≤ valD signed (8 * k) high) :
    ∃ d, RandD.sampleSingleInclusive signed dbg (8 * k) n low high s = .ok d ∧
      drawViewD signed (8 * k) s d =
        Spec.Random.sampleInclusive signed (M (8 * k) n) (n * k)
          (Spec.Random.zoneSingle (8 * k * n) (M (8 * k) n))
          (valD signed (8 * k) low) (valD signed (8 * k) high) s := by
  have href := sampleSingleInclusive_ref (signed := signed) (dbg := dbg) hk hn hok hl hh
  rw [valD_eq hl, valD_eq hh] at hle ⊢
  obtain ⟨d', e, hs⟩ := sample_single_inclusive_eq_spec (dbg := dbg) hk hn hok (U_lt hl) (U_lt hh) hle
  rw [e] at href
  match hD : RandD.sampleSingleInclusive signed dbg (8 * k) n low high s, href with
  | .ok d, href => exact ⟨d, rfl, by rw [drawViewD_eq href, hs]⟩

theorem d_sample_single_eq_spec (hk : 1 ≤ k) (hn : 1 ≤ n) (hok : StreamOK s)
    (hl : WF (8 * k) n low) (hh : WF (8 * k) n high)
    (hlt : valD signed (8 * k) low < valD signed (8 * k) high) :
    ∃ d, RandD.sampleSingle signed dbg (8 * k) n low high s = .ok d ∧
      drawViewD signed (8 * k) s d =
        Spec.Random.sampleInclusive signed (M (8 * k) n) (n * k)
          (Spec.Random.zoneSingle (8 * k * n) (M (8 * k) n))
          (valD signed (8 * k) low) (valD signed (8 * k) high - 1) s := by
  have href := sampleSingle_ref (signed := signed) (dbg := dbg) hk hn hok hl hh
  rw [valD_eq hl, valD_eq hh] at hlt ⊢
  obtain ⟨d', e, hs⟩ := sample_single_eq_spec (dbg := dbg) hk hn hok (U_lt hl) (U_lt hh) hlt
  rw [e] at href
  match hD : RandD.sampleSingle signed dbg (8 * k) n low high s, href with
  | .ok d, href => exact ⟨d, rfl, by rw [drawViewD_eq href, hs]⟩

theorem d_uniform_new_inclusive_eq_spec (hk : 1 ≤ k) (hn : 1 ≤ n) (hok : StreamOK s)
    (hl : WF (8 * k) n low) (hh : WF (8 * k) n high)
    (hle : valD signed (8 * k) low ≤ valD signed (8 * k) high) :
    ∃ d, RandD.uniformNewInclusiveSample signed dbg (8 * k) n low high s = .ok d ∧
      drawViewD signed (8 * k) s d =
        Spec.Random.sampleInclusive signed (M (8 * k) n) (n * k)
          (Spec.Random.zoneExact (M (8 * k) n))
          (valD signed (8 * k) low) (valD signed (8 * k) high) s := by
  have href := uniformNewInclusiveSample_ref (signed := signed) (dbg := dbg) hk hn hok hl hh
  rw [valD_eq hl, valD_eq hh] at hle ⊢
  obtain ⟨d', e, hs⟩ := uniform_new_inclusive_eq_spec (dbg := dbg) hk hn hok (U_lt hl) (U_lt hh) hle
  rw [e] at href
  match hD : RandD.uniformNewInclusiveSample signed dbg (8 * k) n low high s, href with
  | .ok d, href => exact ⟨d, rfl, by rw [drawViewD_eq href, hs]⟩

theorem d_uniform_new_eq_spec (hk : 1 ≤ k) (hn : 1 ≤ n) (hok : StreamOK s)
    (hl : WF (8 * k) n low) (hh : WF (8 * k) n high)
    (hlt : valD signed (8 * k) low < valD signed (8 * k) high) :
    ∃ d, RandD.uniformNewSample signed dbg (8 * k) n low high s = .ok d ∧
      drawViewD signed (8 * k) s d =
        Spec.Random.sampleInclusive signed (M (8 * k) n) (n * k)
          (Spec.Random.zoneExact (M (8 * k) n))
          (valD signed (8 * k) low) (valD signed (8 * k) high - 1) s := by
  have href := uniformNewSample_ref (signed := signed) (dbg := dbg) hk hn hok hl hh
  rw [valD_eq hl, valD_eq hh] at hlt ⊢
  obtain ⟨d', e, hs⟩ := uniform_new_eq_spec (dbg := dbg) hk hn hok (U_lt hl) (U_lt hh) hlt
  rw [e] at href
  match hD : RandD.uniformNewSample signed dbg (8 * k) n low high s, href with
  | .ok d, href => exact ⟨d, rfl, by rw [drawViewD_eq href, hs]⟩

end digit

/-! ### 8. Exclusive entry points in closed form; exactly one word per value; END-TO-END preimage
    counts.  Section 3 counts the words satisfying the closed-form predicate of a non-full range.
    Here the count is stated for the SAMPLERS THEMSELVES, full range included:
    `wordCount f k n x` = number of RNG words `v < 2^BITS` such that the sampler `f`, run on the
    one-word stream holding the `BYTES` little-endian bytes of `v`, returns `x` (i.e. accepts `v`
    and maps it to `x`; a rejected word exhausts the one-word stream and counts for no value). -/

/-- `sample_single(low, high)` / `gen_range(low..high)` on a non-empty range IS
    `sample_single_inclusive(low, high - 1)` (`high - ONE` cannot overflow) -/
theorem sample_single_closed_form {signed dbg : Bool} {w n low high : Nat} {s : Stream}
    (hW : 2 ≤ w * n) (hl : low < M w n) (hh : high < M w n)
    (hlt : val signed (M w n) low < val signed (M w n) high) :
    sampleSingle signed dbg w n low high s =
      sampleSingleInclusive signed dbg w n low (wrappingSub (M w n) high 1) s ∧
    wrappingSub (M w n) high 1 < M w n ∧
    val signed (M w n) (wrappingSub (M w n) high 1) = val signed (M w n) high - 1 := by
  have h4 : 4 ≤ M w n := by
    have := Nat.pow_le_pow_right (n := 2) (by decide) hW; simpa [M] using this
  obtain ⟨_, b, c, _⟩ := subOne_eq (dbg := dbg) (M_even' (by omega)) h4 hl hh (val_lt_iff.mpr hlt)
  exact ⟨sampleSingle_eq hW hl hh (val_lt_iff.mpr hlt), b, c⟩

/-- `Uniform::new(low, high)` builds the sampler of `Uniform::new_inclusive(low, high - 1)` -/
theorem uniform_new_closed_form {signed dbg : Bool} {w n low high : Nat}
    (hW : 2 ≤ w * n) (hl : low < M w n) (hh : high < M w n)
    (hlt : val signed (M w n) low < val signed (M w n) high) :
    Rand.new signed dbg w n low high =
      Rand.newInclusive signed dbg w n low (wrappingSub (M w n) high 1) ∧
    ∀ s, uniformNewSample signed dbg w n low high s =
      uniformNewInclusiveSample signed dbg w n low (wrappingSub (M w n) high 1) s := by
  have e := new_eq (dbg := dbg) hW hl hh (val_lt_iff.mpr hlt)
  exact ⟨e, fun s => by rw [uniformNewSample, uniformNewInclusiveSample, e]⟩

example : sampleSingle true true 8 2 0xfffd 4 [0xfd, 0xff, 0x00, 0x80] =
    sampleSingleInclusive true true 8 2 0xfffd 3 [0xfd, 0xff, 0x00, 0x80] := by decide
example : wrappingSub (M 8 2) 0 1 = 0xffff := by decide

/-- THE FULL RANGE (`range` wraps to zero): every word is accepted and returned as it is -/
theorem full_range_identity {signed dbg : Bool} {k n low high : Nat} {b t : Stream}
    (hk : 1 ≤ k) (hn : 1 ≤ n)
    (hle : val signed (M (8 * k) n) low ≤ val signed (M (8 * k) n) high)
    (h0 : rangeOf (M (8 * k) n) low high = 0) (hb : b.length = n * k) :
    sampleSingleInclusive signed dbg (8 * k) n low high (b ++ t) = .ok (some (leValue b, t)) ∧
    uniformNewInclusiveSample signed dbg (8 * k) n low high (b ++ t) = .ok (some (leValue b, t)) := by
  have hW : 1 ≤ 8 * k * n := by have := Nat.mul_le_mul (Nat.mul_le_mul_left 8 hk) hn; omega
  rw [sample_single_inclusive_closed_form hW hle, uniform_new_inclusive_closed_form hW hle,
    if_pos h0, if_pos h0, genVal_append hb]
  exact ⟨rfl, rfl⟩

example : rangeOf (M 8 3) 0x800000 0x7fffff = 0 := by decide

/-- EXACTLY ONE WORD PER VALUE: the `BYTES`-byte word on which `Standard` (hence a full-range
    draw) returns `v` exists (`standard_surjective`) and is unique -/
theorem standard_word_unique {k n v : Nat} {s s' : Stream} (hs : StreamOK s) (hs' : StreamOK s')
    (hl : s.length = n * k) (hl' : s'.length = n * k)
    (h : genVal (8 * k) n s = some (v, [])) (h' : genVal (8 * k) n s' = some (v, [])) : s = s' := by
  have := genVal_word_unique hs hs' h h'
  rwa [List.take_of_length_le (by omega), List.take_of_length_le (by omega)] at this

theorem standard_bijective (k n v : Nat) (hv : v < M (8 * k) n) :
    ∃ s, (StreamOK s ∧ s.length = n * k ∧ genVal (8 * k) n s = some (v, [])) ∧
      ∀ s', StreamOK s' ∧ s'.length = n * k ∧ genVal (8 * k) n s' = some (v, []) → s' = s := by
  obtain ⟨s, a, b, c⟩ := standard_surjective k n v hv
  exact ⟨s, ⟨a, b, c⟩, fun s' ⟨a', b', c'⟩ => standard_word_unique a' a b' b c' c⟩

example : genVal 16 2 [1, 2, 3, 4] = some (0x04030201, []) := by decide

/-- END-TO-END PREIMAGE COUNT, `sample_single_inclusive` / `gen_range(low..=high)`: every
    `x ∈ [low, high]` is returned for exactly `1` word when the range is everything, and for
    exactly `(zone+1)/range` words otherwise — independent of `x` -/
theorem sample_single_inclusive_word_count {signed dbg : Bool} {k n low high x : Nat}
    (hk : 1 ≤ k) (hn : 1 ≤ n) (hl : low < M (8 * k) n) (hh : high < M (8 * k) n)
    (hle : val signed (M (8 * k) n) low ≤ val signed (M (8 * k) n) high) (hx : x < M (8 * k) n)
    (hin : val signed (M (8 * k) n) low ≤ val signed (M (8 * k) n) x ∧
      val signed (M (8 * k) n) x ≤ val signed (M (8 * k) n) high) :
    wordCount (sampleSingleInclusive signed dbg (8 * k) n low high) k n x =
      if rangeOf (M (8 * k) n) low high = 0 then 1
      else (zoneSingle (8 * k * n) (rangeOf (M (8 * k) n) low high) + 1) /
        rangeOf (M (8 * k) n) low high := by
  have hW : 1 ≤ 8 * k * n := by have := Nat.mul_le_mul (Nat.mul_le_mul_left 8 hk) hn; omega
  refine wordCount_closed hk hn hl hh hle hx hin (fun h0 => ?_)
    (fun s => sample_single_inclusive_closed_form hW hle)
  have hr := rangeOf_lt (low := low) (high := high) (M_pos (8 * k) n)
  obtain ⟨a, b, _⟩ := zone_single_ok h0 (M_eq_two_pow (8 * k) n ▸ hr)
  exact ⟨M_eq_two_pow (8 * k) n ▸ a, b⟩

/-- same for `Uniform::new_inclusive(low, high).sample` (the exact zone) -/
theorem uniform_new_inclusive_word_count {signed dbg : Bool} {k n low high x : Nat}
    (hk : 1 ≤ k) (hn : 1 ≤ n) (hl : low < M (8 * k) n) (hh : high < M (8 * k) n)
    (hle : val signed (M (8 * k) n) low ≤ val signed (M (8 * k) n) high) (hx : x < M (8 * k) n)
    (hin : val signed (M (8 * k) n) low ≤ val signed (M (8 * k) n) x ∧
      val signed (M (8 * k) n) x ≤ val signed (M (8 * k) n) high) :
    wordCount (uniformNewInclusiveSample signed dbg (8 * k) n low high) k n x =
      if rangeOf (M (8 * k) n) low high = 0 then 1
      else (zoneExact (M (8 * k) n) (rangeOf (M (8 * k) n) low high) + 1) /
        rangeOf (M (8 * k) n) low high := by
  have hW : 1 ≤ 8 * k * n := by have := Nat.mul_le_mul (Nat.mul_le_mul_left 8 hk) hn; omega
  refine wordCount_closed hk hn hl hh hle hx hin (fun h0 => ?_)
    (fun s => uniform_new_inclusive_closed_form hW hle)
  have hr := rangeOf_lt (low := low) (high := high) (M_pos (8 * k) n)
  obtain ⟨a, b, _⟩ := zone_exact_ok h0 hr
  exact ⟨a, b⟩

/-- a value outside `[low, high]` has NO preimage (both samplers) -/
theorem word_count_outside {signed dbg : Bool} {k n low high x : Nat}
    (hk : 1 ≤ k) (hn : 1 ≤ n) (hl : low < M (8 * k) n) (hh : high < M (8 * k) n)
    (hout : ¬ (val signed (M (8 * k) n) low ≤ val signed (M (8 * k) n) x ∧
      val signed (M (8 * k) n) x ≤ val signed (M (8 * k) n) high)) :
    wordCount (sampleSingleInclusive signed dbg (8 * k) n low high) k n x = 0 ∧
    wordCount (uniformNewInclusiveSample signed dbg (8 * k) n low high) k n x = 0 :=
  ⟨wordCount_outside (signed := signed) (low := low) (high := high) hout
      (fun _ _ _ hok h => (sample_single_inclusive_in_range hk hn hok hl hh h).2),
   wordCount_outside (signed := signed) (low := low) (high := high) hout
      (fun _ _ _ hok h => (uniform_new_inclusive_in_range hk hn hok hl hh h).2)⟩

/-- UNBIASED BY CONSTRUCTION, inclusive forms: any two values of `[low, high]` have the same
    number of preimages, and at least one -/
theorem inclusive_unbiased {signed dbg : Bool} {k n low high x y : Nat}
    (hk : 1 ≤ k) (hn : 1 ≤ n) (hl : low < M (8 * k) n) (hh : high < M (8 * k) n)
    (hx : x < M (8 * k) n) (hy : y < M (8 * k) n)
    (hinx : val signed (M (8 * k) n) low ≤ val signed (M (8 * k) n) x ∧
      val signed (M (8 * k) n) x ≤ val signed (M (8 * k) n) high)
    (hiny : val signed (M (8 * k) n) low ≤ val signed (M (8 * k) n) y ∧
      val signed (M (8 * k) n) y ≤ val signed (M (8 * k) n) high) :
    (wordCount (sampleSingleInclusive signed dbg (8 * k) n low high) k n x =
      wordCount (sampleSingleInclusive signed dbg (8 * k) n low high) k n y ∧
     1 ≤ wordCount (sampleSingleInclusive signed dbg (8 * k) n low high) k n x) ∧
    (wordCount (uniformNewInclusiveSample signed dbg (8 * k) n low high) k n x =
      wordCount (uniformNewInclusiveSample signed dbg (8 * k) n low high) k n y ∧
     1 ≤ wordCount (uniformNewInclusiveSample signed dbg (8 * k) n low high) k n x) := by
  have hle : val signed (M (8 * k) n) low ≤ val signed (M (8 * k) n) high := by omega
  have hr := rangeOf_lt (low := low) (high := high) (M_pos (8 * k) n)
  rw [sample_single_inclusive_word_count hk hn hl hh hle hx hinx,
    sample_single_inclusive_word_count hk hn hl hh hle hy hiny,
    uniform_new_inclusive_word_count hk hn hl hh hle hx hinx,
    uniform_new_inclusive_word_count hk hn hl hh hle hy hiny]
  refine ⟨⟨rfl, ?_⟩, rfl, ?_⟩
  · split
    · exact Nat.le_refl 1
    · next h0 => exact (zone_single_ok h0 (M_eq_two_pow (8 * k) n ▸ hr)).2.2
  · split
    · exact Nat.le_refl 1
    · next h0 => exact (zone_exact_ok h0 hr).2.2

/-- UNBIASED BY CONSTRUCTION, exclusive forms (`sample_single`, `gen_range(low..high)`,
    `Uniform::new`): any two values of `[low, high)` have the same number of preimages, ≥ 1 -/
theorem exclusive_unbiased {signed dbg : Bool} {k n low high x y : Nat}
    (hk : 1 ≤ k) (hn : 1 ≤ n) (hl : low < M (8 * k) n) (hh : high < M (8 * k) n)
    (hx : x < M (8 * k) n) (hy : y < M (8 * k) n)
    (hinx : val signed (M (8 * k) n) low ≤ val signed (M (8 * k) n) x ∧
      val signed (M (8 * k) n) x < val signed (M (8 * k) n) high)
    (hiny : val signed (M (8 * k) n) low ≤ val signed (M (8 * k) n) y ∧
      val signed (M (8 * k) n) y < val signed (M (8 * k) n) high) :
    (wordCount (sampleSingle signed dbg (8 * k) n low high) k n x =
      wordCount (sampleSingle signed dbg (8 * k) n low high) k n y ∧
     1 ≤ wordCount (sampleSingle signed dbg (8 * k) n low high) k n x) ∧
    (wordCount (genRange signed dbg (8 * k) n low high) k n x =
      wordCount (genRange signed dbg (8 * k) n low high) k n y ∧
     1 ≤ wordCount (genRange signed dbg (8 * k) n low high) k n x) ∧
    (wordCount (uniformNewSample signed dbg (8 * k) n low high) k n x =
      wordCount (uniformNewSample signed dbg (8 * k) n low high) k n y ∧
     1 ≤ wordCount (uniformNewSample signed dbg (8 * k) n low high) k n x) := by
  have hW : 2 ≤ 8 * k * n := by have := Nat.mul_le_mul (Nat.mul_le_mul_left 8 hk) hn; omega
  have hlt : val signed (M (8 * k) n) low < val signed (M (8 * k) n) high := by omega
  obtain ⟨_, hb, hc⟩ := sample_single_closed_form (dbg := dbg) (s := []) hW hl hh hlt
  have e1 : sampleSingle signed dbg (8 * k) n low high =
      sampleSingleInclusive signed dbg (8 * k) n low (wrappingSub (M (8 * k) n) high 1) :=
    funext fun s => (sample_single_closed_form hW hl hh hlt).1
  have e2 : genRange signed dbg (8 * k) n low high = sampleSingle signed dbg (8 * k) n low high :=
    funext fun s => genRange_eq ..
  have e3 : uniformNewSample signed dbg (8 * k) n low high =
      uniformNewInclusiveSample signed dbg (8 * k) n low (wrappingSub (M (8 * k) n) high 1) :=
    funext fun s => (uniform_new_closed_form hW hl hh hlt).2 s
  have := inclusive_unbiased (signed := signed) (dbg := dbg) hk hn hl hb hx hy
    (by rw [hc]; omega) (by rw [hc]; omega)
  rw [e2, e1, e3]
  exact ⟨this.1, this.1, this.2⟩

/-- `gen_range(low..=high)` likewise (it is `sample_single_inclusive`) -/
theorem gen_range_inclusive_word_count_eq (signed dbg : Bool) (k n low high x : Nat) :
    wordCount (genRangeInclusive signed dbg (8 * k) n low high) k n x =
      wordCount (sampleSingleInclusive signed dbg (8 * k) n low high) k n x := by
  rw [show genRangeInclusive signed dbg (8 * k) n low high =
    sampleSingleInclusive signed dbg (8 * k) n low high from funext fun s => genRangeInclusive_eq ..]

-- i8x1, [-3, 3] through the sampler itself: 36 of the 256 words return -1, 36 return 3, none returns 4;
-- the full range: one word per value
example : wordCount (sampleSingleInclusive true true 8 1 0xfd 3) 1 1 0xff = 36 := by decide
example : wordCount (uniformNewInclusiveSample true false 8 1 0xfd 3) 1 1 3 = 36 := by decide
example : wordCount (sampleSingleInclusive true true 8 1 0xfd 3) 1 1 4 = 0 := by decide
example : wordCount (sampleSingle true true 8 1 0xfd 4) 1 1 0 = 36 := by decide
example : wordCount (sampleSingleInclusive false true 8 1 0 0xff) 1 1 0x5a = 1 := by decide

/-- digit level: the digit-level samplers (results read as patterns, `viewD`) have the word counts of
    the value-level samplers, so `inclusive_unbiased` / `exclusive_unbiased` / `*_word_count` hold
    for the digit-level code -/
theorem d_word_count_eq {signed dbg : Bool} {k n x : Nat} {low high : List Nat}
    (hk : 1 ≤ k) (hn : 1 ≤ n) (hl : WF (8 * k) n low) (hh : WF (8 * k) n high) :
    wordCount (fun s => RandD.viewD (8 * k) (RandD.sampleSingleInclusive signed dbg (8 * k) n low high s)) k n x =
      wordCount (sampleSingleInclusive signed dbg (8 * k) n (U (8 * k) low) (U (8 * k) high)) k n x ∧
    wordCount (fun s => RandD.viewD (8 * k) (RandD.uniformNewInclusiveSample signed dbg (8 * k) n low high s)) k n x =
      wordCount (uniformNewInclusiveSample signed dbg (8 * k) n (U (8 * k) low) (U (8 * k) high)) k n x ∧
    wordCount (fun s => RandD.viewD (8 * k) (RandD.sampleSingle signed dbg (8 * k) n low high s)) k n x =
      wordCount (sampleSingle signed dbg (8 * k) n (U (8 * k) low) (U (8 * k) high)) k n x ∧
    wordCount (fun s => RandD.viewD (8 * k) (RandD.uniformNewSample signed dbg (8 * k) n low high s)) k n x =
      wordCount (uniformNewSample signed dbg (8 * k) n (U (8 * k) low) (U (8 * k) high)) k n x :=
  ⟨wordCount_congr (fun _ hok => (d_sample_single_inclusive_refines hk hn hok hl hh).1),
   wordCount_congr (fun _ hok => (d_uniform_new_inclusive_refines hk hn hok hl hh).1),
   wordCount_congr (fun _ hok => (d_sample_single_refines hk hn hok hl hh).1),
   wordCount_congr (fun _ hok => (d_uniform_new_refines hk hn hok hl hh).1)⟩

example : wordCount (fun s => RandD.viewD 8 (RandD.sampleSingleInclusive true true 8 1 [0xfd] [3] s)) 1 1 0xff
    = 36 := by decide
example : wordCount (genRangeInclusive true true 8 1 0xfd 3) 1 1 0xff = 36 := by decide

/-! ### 9. One stored sampler, several draws (`let u = Uniform::new(_inclusive)(low, high);` then
    `u.sample(rng)` `cnt` times — `Rand.uniformMany`, digit level `RandD.uniformMany`): the stored
    `range` / `z` are reused by every draw. -/

/-- panics exactly on the empty range, in both build modes; otherwise every one of the `cnt` draws
    lies in the range (`incl`: `[low, high]`, else `[low, high)`) -/
theorem uniform_many_in_range {signed dbg incl : Bool} {k n low high cnt : Nat} {s rest : Stream}
    {xs : List Nat} (hk : 1 ≤ k) (hn : 1 ≤ n) (hok : StreamOK s)
    (hl : low < M (8 * k) n) (hh : high < M (8 * k) n)
    (h : uniformMany signed dbg incl (8 * k) n low high cnt s = .ok (some (xs, rest))) :
    xs.length = cnt ∧ ∀ x ∈ xs, x < M (8 * k) n ∧
      val signed (M (8 * k) n) low ≤ val signed (M (8 * k) n) x ∧
      (if incl then val signed (M (8 * k) n) x ≤ val signed (M (8 * k) n) high
       else val signed (M (8 * k) n) x < val signed (M (8 * k) n) high) := by
  have hW : 2 ≤ 8 * k * n := by have := Nat.mul_le_mul (Nat.mul_le_mul_left 8 hk) hn; omega
  cases incl
  · rcases lt_cases signed (M (8 * k) n) low high with hlt | hlt
    · have h4 : 4 ≤ M (8 * k) n := by
        have := Nat.pow_le_pow_right (n := 2) (by decide) hW; simpa [M] using this
      obtain ⟨_, b, c, d⟩ := subOne_eq (dbg := dbg) (M_even' (by omega)) h4 hl hh hlt
      rw [uniformMany_exclusive_eq hW hl hh hlt, uniformMany_inclusive_eq (by omega) d] at h
      obtain ⟨a, e⟩ := sampleMany_in_range (by omega) hl b d cnt s xs rest hok h
      refine ⟨a, fun x hx => ?_⟩
      obtain ⟨e1, e2, e3⟩ := e x hx
      simp only [Bool.false_eq_true, if_false]
      exact ⟨e1, e2, by omega⟩
    · rw [uniformMany_panic (by simpa using hlt)] at h; cases h
  · rcases le_cases signed (M (8 * k) n) low high with hle | hle
    · rw [uniformMany_inclusive_eq (by omega) hle] at h
      obtain ⟨a, e⟩ := sampleMany_in_range (by omega) hl hh hle cnt s xs rest hok h
      refine ⟨a, fun x hx => ?_⟩
      obtain ⟨e1, e2, e3⟩ := e x hx
      simp only [if_true]
      exact ⟨e1, e2, e3⟩
    · rw [uniformMany_panic (by simpa using hle)] at h; cases h

theorem uniform_many_panic_iff {signed dbg incl : Bool} {k n low high cnt : Nat} {s : Stream}
    (hk : 1 ≤ k) (hn : 1 ≤ n) (hok : StreamOK s) (hl : low < M (8 * k) n) (hh : high < M (8 * k) n) :
    uniformMany signed dbg incl (8 * k) n low high cnt s = .panic ↔
      ¬ (if incl then val signed (M (8 * k) n) low ≤ val signed (M (8 * k) n) high
         else val signed (M (8 * k) n) low < val signed (M (8 * k) n) high) := by
  have hW : 2 ≤ 8 * k * n := by have := Nat.mul_le_mul (Nat.mul_le_mul_left 8 hk) hn; omega
  have hnp : ∀ l h', le signed (M (8 * k) n) l h' = true → l < M (8 * k) n → h' < M (8 * k) n →
      uniformMany signed dbg true (8 * k) n l h' cnt s ≠ .panic := by
    intro l h' hle hl' hh' hp
    obtain ⟨d, e, _⟩ := sampleMany_eq_spec (signed := signed) (dbg := dbg) (by omega) hl' hh'
      (val_le_iff.mp hle) cnt s hok
    rw [uniformMany_inclusive_eq (by omega) hle, closedSampler, e] at hp; cases hp
  cases incl
  · simp only [Bool.false_eq_true, if_false]
    rcases lt_cases signed (M (8 * k) n) low high with hlt | hlt
    · have h4 : 4 ≤ M (8 * k) n := by
        have := Nat.pow_le_pow_right (n := 2) (by decide) hW; simpa [M] using this
      obtain ⟨_, b, c, d⟩ := subOne_eq (dbg := dbg) (M_even' (by omega)) h4 hl hh hlt
      rw [uniformMany_exclusive_eq hW hl hh hlt]
      exact ⟨fun hp => absurd hp (hnp _ _ d hl b), fun hc => absurd (val_lt_iff.mp hlt) hc⟩
    · rw [uniformMany_panic (by simpa using hlt)]
      have : ¬ val signed (M (8 * k) n) low < val signed (M (8 * k) n) high := by
        rw [← val_lt_iff, hlt]; simp
      simp [this]
  · simp only [if_true]
    rcases le_cases signed (M (8 * k) n) low high with hle | hle
    · exact ⟨fun hp => absurd hp (hnp _ _ hle hl hh), fun hc => absurd (val_le_iff.mp hle) hc⟩
    · rw [uniformMany_panic (by simpa using hle)]
      have : ¬ val signed (M (8 * k) n) low ≤ val signed (M (8 * k) n) high := by
        rw [← val_le_iff, hle]; simp
      simp [this]

/-- MODEL = SPEC for `cnt` draws (what the driver prints for `uniform_many`): the Spec's law for
    one draw, applied `cnt` times to what is left of the stream -/
theorem uniform_many_eq_spec {signed dbg : Bool} {k n low high cnt : Nat} {s : Stream}
    (hk : 1 ≤ k) (hn : 1 ≤ n) (hok : StreamOK s) (hl : low < M (8 * k) n) (hh : high < M (8 * k) n)
    (hle : val signed (M (8 * k) n) low ≤ val signed (M (8 * k) n) high) :
    ∃ d, uniformMany signed dbg true (8 * k) n low high cnt s = .ok d ∧
      drawsView signed (M (8 * k) n) s d =
        Spec.Random.sampleManyInclusive signed (M (8 * k) n) (n * k)
          (Spec.Random.zoneExact (M (8 * k) n))
          (val signed (M (8 * k) n) low) (val signed (M (8 * k) n) high) cnt s := by
  have hW : 1 ≤ 8 * k * n := by have := Nat.mul_le_mul (Nat.mul_le_mul_left 8 hk) hn; omega
  rw [uniformMany_inclusive_eq hW (val_le_iff.mpr hle)]
  exact sampleMany_eq_spec hW hl hh hle cnt s hok

theorem uniform_many_exclusive_eq_spec {signed dbg : Bool} {k n low high cnt : Nat} {s : Stream}
    (hk : 1 ≤ k) (hn : 1 ≤ n) (hok : StreamOK s) (hl : low < M (8 * k) n) (hh : high < M (8 * k) n)
    (hlt : val signed (M (8 * k) n) low < val signed (M (8 * k) n) high) :
    ∃ d, uniformMany signed dbg false (8 * k) n low high cnt s = .ok d ∧
      drawsView signed (M (8 * k) n) s d =
        Spec.Random.sampleManyInclusive signed (M (8 * k) n) (n * k)
          (Spec.Random.zoneExact (M (8 * k) n))
          (val signed (M (8 * k) n) low) (val signed (M (8 * k) n) high - 1) cnt s := by
  have hW : 2 ≤ 8 * k * n := by have := Nat.mul_le_mul (Nat.mul_le_mul_left 8 hk) hn; omega
  have h4 : 4 ≤ M (8 * k) n := by
    have := Nat.pow_le_pow_right (n := 2) (by decide) hW; simpa [M] using this
  obtain ⟨_, b, c, d⟩ := subOne_eq (dbg := dbg) (M_even' (by omega)) h4 hl hh (val_lt_iff.mpr hlt)
  rw [uniformMany_exclusive_eq hW hl hh (val_lt_iff.mpr hlt), ← c]
  exact uniform_many_eq_spec hk hn hok hl b (val_le_iff.mp d)

/-- digit level refines value level: same panic, same exhaustion, same remaining stream, the
    returned digit lists are well-formed and have the value-level patterns -/
theorem d_uniform_many_refines {signed dbg incl : Bool} {k n cnt : Nat} {low high : List Nat}
    {s : Stream} (hk : 1 ≤ k) (hn : 1 ≤ n) (hok : StreamOK s)
    (hl : WF (8 * k) n low) (hh : WF (8 * k) n high) :
    RandD.viewDs (8 * k) (RandD.uniformMany signed dbg incl (8 * k) n low high cnt s) =
      Rand.uniformMany signed dbg incl (8 * k) n (U (8 * k) low) (U (8 * k) high) cnt s ∧
    ∀ xs rest, RandD.uniformMany signed dbg incl (8 * k) n low high cnt s = .ok (some (xs, rest)) →
      ∀ x ∈ xs, WF (8 * k) n x :=
  (RandD.uniformMany_ref hk hn hok hl hh).view

-- two draws from one stored sampler on [-3, 3] (16 bits): the first word 0x9249 is rejected
example : uniformMany true true true 8 2 0xfffd 3 2 [0x49, 0x92, 0x00, 0x80, 0xff, 0x7f] =
    .ok (some ([0, 0], [])) := by decide
example : RandD.uniformMany true true false 8 2 [0xfd, 0xff] [4, 0] 2 [0x49, 0x92, 0x00, 0x80, 0, 0] =
    .ok (some ([[0, 0], [0xfd, 0xff]], [])) := by decide
example : uniformMany false true false 8 2 4 4 2 [1, 2, 3, 4] = .panic := by decide
example : Spec.Random.sampleManyInclusive true (M 8 2) 2 (Spec.Random.zoneExact (M 8 2)) (-3) 3 2
    [0x49, 0x92, 0x00, 0x80, 0xff, 0x7f] = some ([0, 0], 6) := by decide

end Bnum.Props.C20
