/-
  C11 — "For every bnum integer and every radix r in 2..=36, to_str_radix(r) is the canonical base-r
  numeral of the value: lowercase digits, no leading zeros, '0' for zero and a leading '-' for
  negative values; for r in 2..=256, to_radix_be(r) and to_radix_le(r) are the canonical digit
  sequences (most or least significant first) of the value (of the two's-complement bit pattern for
  signed types). Consequently parsing the output with the same radix returns the original value for
  every value, and these methods panic only for an out-of-range radix."

  Scope: every digit width `w ≥ 8` (the `u8` casts of the digit values must be lossless; for the
  round trips through `from_str_radix` additionally `4 ∣ w`, signed `w = 2^s`), every digit count
  `n ≥ 1`, every well-formed `x`.  All five code paths of `to_radix_le` are covered: zero, the
  `u8`-digit copy for radix 256, `to_bitwise_digits_le` (`log2 r ∣ w`), `to_inexact_bitwise_digits_le`
  (radices 8, 32, 64, 128), `to_radix_digits_le` (every other radix, by `div_rem_digit`).
  `Spec.Radix.canonLE r v` = digits of `v` by repeated division (`[0]` for zero), `canonBE` its
  reverse, `canonStr r z` = optional `-` then the lowercase ASCII image of `canonBE r |z|`
  (`canonStr_props`: these definitions have the properties the statement lists).

  Signed entry points (`BInt::to_radix_le/_be`, round trips, panics) have their own statements
  (`i_*`), and "parsing the output" is proved for EVERY parsing entry point of the crate:
  `from_str_radix`, `parse_str_radix`, `parse_bytes`, `FromStr` (radix 10), `from_radix_be`,
  `from_radix_le` (also with the digit order crossed).
-/
import Bnum.Lemmas.C11Extra
namespace Bnum.C11
open Bnum Bnum.Radix Bnum.Spec.Radix

/-! ### the canonical digit sequences -/

theorem toRadixLe_spec {w n r : Nat} {x : List Nat} (hn : 1 ≤ n) (hw8 : 8 ≤ w) (hx : WF w n x)
    (hr : 2 ≤ r) (hr256 : r ≤ 256) : UI.toRadixLe w x r = .ok (canonLE r (U w x)) :=
  UI.toRadixLe_spec hn hw8 hx hr hr256
example : WF 8 2 [0x39, 0x30] ∧ UI.toRadixLe 8 [0x39, 0x30] 10 = .ok [5, 4, 3, 2, 1] ∧
    UI.toRadixLe 8 [0x39, 0x30] 8 = .ok [1, 7, 0, 0, 3] := by decide

theorem toRadixBe_spec {w n r : Nat} {x : List Nat} (hn : 1 ≤ n) (hw8 : 8 ≤ w) (hx : WF w n x)
    (hr : 2 ≤ r) (hr256 : r ≤ 256) : UI.toRadixBe w x r = .ok (canonBE r (U w x)) :=
  UI.toRadixBe_spec hn hw8 hx hr hr256
example : UI.toRadixBe 8 [0x39, 0x30] 256 = .ok [0x30, 0x39] := by decide

/-- `to_radix_be` is the reverse of `to_radix_le` (for every radix, also when both panic) -/
theorem toRadixBe_eq_reverse (w : Nat) (x : List Nat) (r : Nat) :
    UI.toRadixBe w x r = (UI.toRadixLe w x r).map List.reverse := rfl

/-- signed types print the two's-complement bit pattern -/
theorem i_toRadixLe_eq (w : Nat) (x : List Nat) (r : Nat) : II.toRadixLe w x r = UI.toRadixLe w x r := rfl
theorem i_toRadixBe_eq (w : Nat) (x : List Nat) (r : Nat) : II.toRadixBe w x r = UI.toRadixBe w x r := rfl

/-- the canonical sequence: digits `< r`, most significant digit non-zero (or the single digit `0`),
    value recovered -/
theorem canonLE_props {r : Nat} (hr : 2 ≤ r) (v : Nat) :
    (∀ d ∈ canonLE r v, d < r) ∧ valueOfLE r (canonLE r v) = v ∧ canonLE r v ≠ [] ∧
    (v ≠ 0 → (canonLE r v).getLast? ≠ some 0) := by
  exact ⟨canonLE_lt hr, valueOfLE_canonLE hr v, canonLE_ne_nil hr v, canonLE_getLast hr⟩
example : canonLE 10 12345 = [5, 4, 3, 2, 1] ∧ canonLE 10 0 = [0] := by decide

/-! ### `to_str_radix` -/

theorem u_toStrRadix_spec {w n r : Nat} {x : List Nat} (hn : 1 ≤ n) (hw8 : 8 ≤ w) (hx : WF w n x)
    (hr : 2 ≤ r) (hr36 : r ≤ 36) :
    UI.toStrRadix w x r = .ok ((canonBE r (U w x)).map digitChar) :=
  UI.toStrRadix_spec hn hw8 hx hr hr36
example : UI.toStrRadix 8 [0xff, 0xff] 36 = .ok [0x31, 0x65, 0x6b, 0x66] := by decide

theorem i_toStrRadix_spec {w n r : Nat} {x : List Nat} (hn : 1 ≤ n) (hw8 : 8 ≤ w) (hx : WF w n x)
    (hr : 2 ≤ r) (hr36 : r ≤ 36) : II.toStrRadix w x r = .ok (canonStr r (S w x)) :=
  II.toStrRadix_spec hn hw8 hx hr hr36
example : II.toStrRadix 8 [0x00, 0x80] 10 = .ok [0x2d, 0x33, 0x32, 0x37, 0x36, 0x38] := by decide

/-! ### round trips through the parser -/

theorem u_roundtrip_str {w n r : Nat} {x : List Nat} (hn : 1 ≤ n) (hw8 : 8 ≤ w) (hw4 : 4 ∣ w)
    (hx : WF w n x) (hr : 2 ≤ r) (hr36 : r ≤ 36) :
    (UI.toStrRadix w x r).bind (fun s => UI.fromStrRadix w n s r) = .ok (.ok x) := by
  rw [UI.toStrRadix_spec hn hw8 hx hr hr36]
  show UI.fromStrRadix w n _ r = _
  have hg := Grammar_canonStr hr hr36 false (U w x : Int) (Or.inr (by omega))
  have hc : canonStr r (U w x : Int) = (canonBE r (U w x)).map digitChar := by
    unfold canonStr; rw [if_neg (by omega)]; rfl
  rw [hc] at hg
  have hd := denote_canon hr (U w x : Int)
  have := UI.fromStrRadix_matches (n := n) hn hw8 hw4 hr hr36 ((canonBE r (U w x)).map digitChar)
  rw [expect_of_grammar hg, hd] at this
  have hrep : repU (M w n) (U w x : Int) := by have := U_lt hx; unfold repU; omega
  simp only [Bool.false_eq_true, if_false, hrep, decide_true, if_true, Matches] at this
  rw [this, ofInt_U hx]
example : (UI.toStrRadix 8 [0xff, 0xff] 7).bind (fun s => UI.fromStrRadix 8 2 s 7) = .ok (.ok [0xff, 0xff]) := by
  decide

theorem i_roundtrip_str {s n r : Nat} {x : List Nat} (hn : 1 ≤ n) (hs3 : 3 ≤ s) (hs : s < 32)
    (hx : WF (2 ^ s) n x) (hr : 2 ≤ r) (hr36 : r ≤ 36) :
    (II.toStrRadix (2 ^ s) x r).bind (fun str => II.fromStrRadix (2 ^ s) n str r) = .ok (.ok x) := by
  obtain ⟨hw8, _⟩ := pow_s_facts hs3
  rw [II.toStrRadix_spec hn hw8 hx hr hr36]
  show II.fromStrRadix (2 ^ s) n _ r = _
  have hg := Grammar_canonStr hr hr36 true (S (2 ^ s) x) (Or.inl rfl)
  have hd := denote_canon hr (S (2 ^ s) x)
  have := II.fromStrRadix_matches (n := n) hn hs3 hs hr hr36 (canonStr r (S (2 ^ s) x))
  rw [expect_of_grammar hg, hd] at this
  have hrep : repS (M (2 ^ s) n) (S (2 ^ s) x) := S_repS (by omega) hn hx
  simp only [if_true, hrep, decide_true, Matches] at this
  rw [this, ofInt_S hx]
example : (II.toStrRadix (2 ^ 3) [0x00, 0x80] 16).bind (fun s => II.fromStrRadix (2 ^ 3) 2 s 16)
    = .ok (.ok [0x00, 0x80]) := by decide

theorem roundtrip_be {w n r sh : Nat} {x : List Nat} (hn : 1 ≤ n) (hwb : w = 8 * 2 ^ sh)
    (hx : WF w n x) (hr : 2 ≤ r) (hr256 : r ≤ 256) :
    (UI.toRadixBe w x r).bind (fun ds => UI.fromRadixBe w n ds r) = .ok (some x) := by
  have hw : 8 ≤ w := by have := Nat.pow_pos (n := sh) (show 0 < 2 by omega); omega
  rw [UI.toRadixBe_spec hn hw hx hr hr256]
  show UI.fromRadixBe w n _ r = _
  have hlt : ∀ d ∈ canonBE r (U w x), d < r := by
    intro d hd; unfold canonBE at hd; exact canonLE_lt hr d (by simpa using hd)
  rw [UI.fromRadixBe_spec hn hwb hr hr256 _ (fun b hb => by have := hlt b hb; omega)]
  unfold expectDigits
  rw [valueOf_canonBE hr, if_pos ⟨by simpa using hlt, U_lt hx⟩]
  simp only [Option.map_some]
  rw [← eq_ofNat hx]
example : (UI.toRadixBe 8 [0x39, 0x30] 200).bind (fun ds => UI.fromRadixBe 8 2 ds 200)
    = .ok (some [0x39, 0x30]) := by decide

theorem roundtrip_le {w n r sh : Nat} {x : List Nat} (hn : 1 ≤ n) (hwb : w = 8 * 2 ^ sh)
    (hx : WF w n x) (hr : 2 ≤ r) (hr256 : r ≤ 256) :
    (UI.toRadixLe w x r).bind (fun ds => UI.fromRadixLe w n ds r) = .ok (some x) := by
  have hw : 8 ≤ w := by have := Nat.pow_pos (n := sh) (show 0 < 2 by omega); omega
  rw [UI.toRadixLe_spec hn hw hx hr hr256]
  show UI.fromRadixLe w n _ r = _
  have hlt := canonLE_lt (v := U w x) hr
  rw [UI.fromRadixLe_spec hn hwb hr hr256 _ (fun b hb => by have := hlt b hb; omega)]
  unfold expectDigits
  rw [valueOf_reverse, valueOfLE_canonLE hr, if_pos ⟨by simpa using hlt, U_lt hx⟩]
  simp only [Option.map_some]
  rw [← eq_ofNat hx]
example : (UI.toRadixLe 8 [0x39, 0x30] 256).bind (fun ds => UI.fromRadixLe 8 2 ds 256)
    = .ok (some [0x39, 0x30]) := by decide

/-! ### the canonical string has the properties the statement lists -/

/-- "lowercase digits, no leading zeros, '0' for zero and a leading '-' for negative values", and the
    numeral denotes the value (so `canonStr` is the only string with these properties) -/
theorem canonStr_props {r : Nat} (hr : 2 ≤ r) (hr36 : r ≤ 36) (z : Int) :
    canonStr r 0 = [48] ∧
    (z < 0 → canonStr r z = 45 :: canonStr r (-z)) ∧
    (0 ≤ z → (canonStr r z).head? ≠ some 45) ∧
    (0 < z → (canonStr r z).head? ≠ some 48) ∧
    (∀ b ∈ canonStr r z, b = 45 ∨ (48 ≤ b ∧ b ≤ 57) ∨ (97 ≤ b ∧ b ≤ 122)) ∧
    (∃ g, Grammar r true (canonStr r z) = some g ∧ denote r g = z) :=
  Bnum.canonStr_props hr hr36 z
example : canonStr 16 (-255) = [0x2d, 0x66, 0x66] ∧ canonStr 36 35 = [0x7a] ∧ canonStr 2 0 = [0x30] := by decide

/-! ### signed types (`BInt::to_radix_le`, `to_radix_be`): the digits of the two's-complement pattern -/

theorem i_toRadixLe_spec {w n r : Nat} {x : List Nat} (hn : 1 ≤ n) (hw8 : 8 ≤ w) (hx : WF w n x)
    (hr : 2 ≤ r) (hr256 : r ≤ 256) : II.toRadixLe w x r = .ok (canonLE r (U w x)) :=
  toRadixLe_spec hn hw8 hx hr hr256
theorem i_toRadixBe_spec {w n r : Nat} {x : List Nat} (hn : 1 ≤ n) (hw8 : 8 ≤ w) (hx : WF w n x)
    (hr : 2 ≤ r) (hr256 : r ≤ 256) : II.toRadixBe w x r = .ok (canonBE r (U w x)) :=
  toRadixBe_spec hn hw8 hx hr hr256
/-- -1 as `BIntD8<2>`: the digits of 65535 -/
example : S 8 [0xff, 0xff] = -1 ∧ II.toRadixBe 8 [0xff, 0xff] 10 = .ok [6, 5, 5, 3, 5] ∧
    II.toRadixLe 8 [0xff, 0xff] 16 = .ok [15, 15, 15, 15] := by decide

theorem i_roundtrip_be {w n r sh : Nat} {x : List Nat} (hn : 1 ≤ n) (hwb : w = 8 * 2 ^ sh)
    (hx : WF w n x) (hr : 2 ≤ r) (hr256 : r ≤ 256) :
    (II.toRadixBe w x r).bind (fun ds => II.fromRadixBe w n ds r) = .ok (some x) :=
  roundtrip_be hn hwb hx hr hr256
example : (II.toRadixBe 8 [0x00, 0x80] 200).bind (fun ds => II.fromRadixBe 8 2 ds 200)
    = .ok (some [0x00, 0x80]) := by decide

theorem i_roundtrip_le {w n r sh : Nat} {x : List Nat} (hn : 1 ≤ n) (hwb : w = 8 * 2 ^ sh)
    (hx : WF w n x) (hr : 2 ≤ r) (hr256 : r ≤ 256) :
    (II.toRadixLe w x r).bind (fun ds => II.fromRadixLe w n ds r) = .ok (some x) :=
  roundtrip_le hn hwb hx hr hr256
example : (II.toRadixLe 8 [0xff, 0xff] 8).bind (fun ds => II.fromRadixLe 8 2 ds 8)
    = .ok (some [0xff, 0xff]) := by decide

/-- the digits printed in one order, reversed, are read back by the entry point of the other order -/
theorem roundtrip_be_le {w n r sh : Nat} {x : List Nat} (hn : 1 ≤ n) (hwb : w = 8 * 2 ^ sh)
    (hx : WF w n x) (hr : 2 ≤ r) (hr256 : r ≤ 256) :
    (UI.toRadixBe w x r).bind (fun ds => UI.fromRadixLe w n ds.reverse r) = .ok (some x) ∧
    (UI.toRadixLe w x r).bind (fun ds => UI.fromRadixBe w n ds.reverse r) = .ok (some x) := by
  have hw : 8 ≤ w := by have := Nat.pow_pos (n := sh) (show 0 < 2 by omega); omega
  have hle := roundtrip_le hn hwb hx hr hr256
  have hbe := roundtrip_be hn hwb hx hr hr256
  have hs := UI.toRadixLe_spec hn hw hx hr hr256
  have hb := UI.toRadixBe_spec hn hw hx hr hr256
  rw [Outcome.bind_ok_eq _ hs] at hle
  rw [Outcome.bind_ok_eq _ hb] at hbe
  rw [Outcome.bind_ok_eq _ hs, Outcome.bind_ok_eq _ hb]
  constructor
  · unfold canonBE; rw [List.reverse_reverse]; exact hle
  · exact hbe
example : (UI.toRadixBe 8 [0x39, 0x30] 10).bind (fun ds => UI.fromRadixLe 8 2 ds.reverse 10)
    = .ok (some [0x39, 0x30]) := by decide

/-! ### round trips through the other string-parsing entry points:
    `parse_bytes`, `parse_str_radix`, `FromStr` -/

theorem u_roundtrip_parse_bytes {w n r : Nat} {x : List Nat} (hn : 1 ≤ n) (hw8 : 8 ≤ w) (hw4 : 4 ∣ w)
    (hx : WF w n x) (hr : 2 ≤ r) (hr36 : r ≤ 36) :
    (UI.toStrRadix w x r).bind (fun s => UI.parseBytes w n s r) = .ok (some x) := by
  have h := u_roundtrip_str hn hw8 hw4 hx hr hr36
  have hs := UI.toStrRadix_spec hn hw8 hx hr hr36
  rw [Outcome.bind_ok_eq _ hs] at h
  rw [Outcome.bind_ok_eq _ hs]
  refine UI.parseBytes_of_ok ?_ h
  rw [← canonStr_ofNat]; exact canonStr_utf8Valid hr hr36 _
example : (UI.toStrRadix 8 [0xff, 0xff] 36).bind (fun s => UI.parseBytes 8 2 s 36) = .ok (some [0xff, 0xff]) := by
  decide

theorem i_roundtrip_parse_bytes {s n r : Nat} {x : List Nat} (hn : 1 ≤ n) (hs3 : 3 ≤ s) (hs : s < 32)
    (hx : WF (2 ^ s) n x) (hr : 2 ≤ r) (hr36 : r ≤ 36) :
    (II.toStrRadix (2 ^ s) x r).bind (fun str => II.parseBytes (2 ^ s) n str r) = .ok (some x) := by
  obtain ⟨hw8, _⟩ := pow_s_facts hs3
  have h := i_roundtrip_str hn hs3 hs hx hr hr36
  have hp := II.toStrRadix_spec hn hw8 hx hr hr36
  rw [Outcome.bind_ok_eq _ hp] at h
  rw [Outcome.bind_ok_eq _ hp]
  exact II.parseBytes_of_ok (canonStr_utf8Valid hr hr36 _) h
example : (II.toStrRadix (2 ^ 3) [0x00, 0x80] 7).bind (fun s => II.parseBytes (2 ^ 3) 2 s 7)
    = .ok (some [0x00, 0x80]) := by decide

theorem u_roundtrip_parse_str {w n r : Nat} {x : List Nat} (hn : 1 ≤ n) (hw8 : 8 ≤ w) (hw4 : 4 ∣ w)
    (hx : WF w n x) (hr : 2 ≤ r) (hr36 : r ≤ 36) :
    (UI.toStrRadix w x r).bind (fun s => UI.parseStrRadix w n s r) = .ok x := by
  have h := u_roundtrip_str hn hw8 hw4 hx hr hr36
  have hs := UI.toStrRadix_spec hn hw8 hx hr hr36
  rw [Outcome.bind_ok_eq _ hs] at h
  rw [Outcome.bind_ok_eq _ hs]
  exact UI.parseStrRadix_of_ok h
example : (UI.toStrRadix 8 [0xff, 0xff] 3).bind (fun s => UI.parseStrRadix 8 2 s 3) = .ok [0xff, 0xff] := by
  decide

theorem i_roundtrip_parse_str {s n r : Nat} {x : List Nat} (hn : 1 ≤ n) (hs3 : 3 ≤ s) (hs : s < 32)
    (hx : WF (2 ^ s) n x) (hr : 2 ≤ r) (hr36 : r ≤ 36) :
    (II.toStrRadix (2 ^ s) x r).bind (fun str => II.parseStrRadix (2 ^ s) n str r) = .ok x := by
  obtain ⟨hw8, _⟩ := pow_s_facts hs3
  have h := i_roundtrip_str hn hs3 hs hx hr hr36
  have hp := II.toStrRadix_spec hn hw8 hx hr hr36
  rw [Outcome.bind_ok_eq _ hp] at h
  rw [Outcome.bind_ok_eq _ hp]
  exact II.parseStrRadix_of_ok h
example : (II.toStrRadix (2 ^ 3) [0xff, 0xff] 2).bind (fun s => II.parseStrRadix (2 ^ 3) 2 s 2)
    = .ok [0xff, 0xff] := by decide

/-- `x.to_str_radix(10).parse::<T>() == Ok(x)` -/
theorem u_roundtrip_from_str {w n : Nat} {x : List Nat} (hn : 1 ≤ n) (hw8 : 8 ≤ w) (hw4 : 4 ∣ w)
    (hx : WF w n x) : (UI.toStrRadix w x 10).bind (fun s => UI.fromStr w n s) = .ok (.ok x) :=
  u_roundtrip_str hn hw8 hw4 hx (by omega) (by omega)
example : (UI.toStrRadix 8 [0x39, 0x30] 10).bind (fun s => UI.fromStr 8 2 s) = .ok (.ok [0x39, 0x30]) := by
  decide

theorem i_roundtrip_from_str {s n : Nat} {x : List Nat} (hn : 1 ≤ n) (hs3 : 3 ≤ s) (hs : s < 32)
    (hx : WF (2 ^ s) n x) :
    (II.toStrRadix (2 ^ s) x 10).bind (fun str => II.fromStr (2 ^ s) n str) = .ok (.ok x) :=
  i_roundtrip_str hn hs3 hs hx (by omega) (by omega)
example : (II.toStrRadix (2 ^ 3) [0x00, 0x80] 10).bind (fun s => II.fromStr (2 ^ 3) 2 s)
    = .ok (.ok [0x00, 0x80]) := by decide

/-! ### panics: exactly for an out-of-range radix -/

theorem toRadixLe_panic_iff {w n : Nat} {x : List Nat} (hn : 1 ≤ n) (hw8 : 8 ≤ w) (hx : WF w n x)
    (r : Nat) : UI.toRadixLe w x r = .panic ↔ ¬ (2 ≤ r ∧ r ≤ 256) := by
  constructor
  · intro h hr
    rw [UI.toRadixLe_spec hn hw8 hx hr.1 hr.2] at h; cases h
  · intro h
    have : inRange r 256 = false := by simpa [inRange] using h
    simp [UI.toRadixLe, this]

theorem toRadixBe_panic_iff {w n : Nat} {x : List Nat} (hn : 1 ≤ n) (hw8 : 8 ≤ w) (hx : WF w n x)
    (r : Nat) : UI.toRadixBe w x r = .panic ↔ ¬ (2 ≤ r ∧ r ≤ 256) := by
  rw [← toRadixLe_panic_iff hn hw8 hx r]
  unfold UI.toRadixBe
  cases UI.toRadixLe w x r <;> simp [Outcome.map]

theorem u_toStrRadix_panic_iff {w n : Nat} {x : List Nat} (hn : 1 ≤ n) (hw8 : 8 ≤ w)
    (hx : WF w n x) (r : Nat) : UI.toStrRadix w x r = .panic ↔ ¬ (2 ≤ r ∧ r ≤ 36) := by
  constructor
  · intro h hr
    rw [UI.toStrRadix_spec hn hw8 hx hr.1 hr.2] at h; cases h
  · intro h
    have : inRange r 36 = false := by simpa [inRange] using h
    simp [UI.toStrRadix, this]

theorem i_toStrRadix_panic_iff {w n : Nat} {x : List Nat} (hn : 1 ≤ n) (hw8 : 8 ≤ w)
    (hx : WF w n x) (r : Nat) : II.toStrRadix w x r = .panic ↔ ¬ (2 ≤ r ∧ r ≤ 36) := by
  constructor
  · intro h hr
    rw [II.toStrRadix_spec hn hw8 hx hr.1 hr.2] at h; cases h
  · intro h
    have hp := (u_toStrRadix_panic_iff hn hw8 hx r).mpr h
    have hp' := (u_toStrRadix_panic_iff hn hw8
      (II.unsignedAbs_spec (show 2 ≤ w by omega) hn hx).1 r).mpr h
    unfold II.toStrRadix
    split
    · rw [hp']; rfl
    · exact hp

theorem i_toRadixLe_panic_iff {w n : Nat} {x : List Nat} (hn : 1 ≤ n) (hw8 : 8 ≤ w) (hx : WF w n x)
    (r : Nat) : II.toRadixLe w x r = .panic ↔ ¬ (2 ≤ r ∧ r ≤ 256) := toRadixLe_panic_iff hn hw8 hx r
theorem i_toRadixBe_panic_iff {w n : Nat} {x : List Nat} (hn : 1 ≤ n) (hw8 : 8 ≤ w) (hx : WF w n x)
    (r : Nat) : II.toRadixBe w x r = .panic ↔ ¬ (2 ≤ r ∧ r ≤ 256) := toRadixBe_panic_iff hn hw8 hx r
/-- also for zero and for negative values, and for radices that a cast to the digit type would make valid -/
example : II.toRadixLe 8 [0, 0] 257 = .panic ∧ UI.toRadixBe 8 [0, 0] 0 = .panic ∧
    II.toStrRadix 8 [0xff, 0xff] 37 = .panic ∧ UI.toStrRadix 8 [0, 0] 1 = .panic ∧
    UI.toRadixLe 8 [5, 0] 266 = .panic ∧ UI.toRadixLe 16 [5, 0] 65546 = .panic := by decide

/-- a composed print-then-parse request panics for an out-of-range radix (its printing half does),
    whatever the parser is -/
theorem composed_panic_of_bad_radix {β : Type} {w n : Nat} {x : List Nat} (hn : 1 ≤ n) (hw8 : 8 ≤ w)
    (hx : WF w n x) (r : Nat) (f : List Nat → Outcome β) :
    (¬ (2 ≤ r ∧ r ≤ 256) → (UI.toRadixLe w x r).bind f = .panic ∧ (UI.toRadixBe w x r).bind f = .panic) ∧
    (¬ (2 ≤ r ∧ r ≤ 36) → (UI.toStrRadix w x r).bind f = .panic ∧ (II.toStrRadix w x r).bind f = .panic) := by
  constructor
  · intro h
    rw [(toRadixLe_panic_iff hn hw8 hx r).mpr h, (toRadixBe_panic_iff hn hw8 hx r).mpr h]
    exact ⟨rfl, rfl⟩
  · intro h
    rw [(u_toStrRadix_panic_iff hn hw8 hx r).mpr h, (i_toStrRadix_panic_iff hn hw8 hx r).mpr h]
    exact ⟨rfl, rfl⟩
example : (UI.toRadixLe 8 [0, 0] 300).bind (fun ds => UI.fromRadixLe 8 2 ds 300) = .panic := by decide

end Bnum.C11
