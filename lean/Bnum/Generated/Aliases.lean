/- GENERATED on every run of check C16 from /repo/src/types.rs by gen/c16.py (pre hook); do not edit. -/
namespace Bnum.Generated
/-- (alias name, signed, width literal); the macro instantiates `BUint::<{bits / 64}>` / `BInt::<{bits / 64}>` -/
def aliases : List (String × Bool × Nat) := [
  ("U128", false, 128),
  ("I128", true, 128),
  ("U256", false, 256),
  ("I256", true, 256),
  ("U512", false, 512),
  ("I512", true, 512),
  ("U1024", false, 1024),
  ("I1024", true, 1024),
  ("U2048", false, 2048),
  ("I2048", true, 2048),
  ("U4096", false, 4096),
  ("I4096", true, 4096),
  ("U8192", false, 8192),
  ("I8192", true, 8192)
]
/-- every alias has exactly its advertised width: 64 · (bits / 64) = bits -/
theorem aliases_ok : ∀ e ∈ aliases, 64 * (e.2.2 / 64) = e.2.2 := by decide
theorem aliases_count : aliases.length = 14 := by decide
end Bnum.Generated
