/- GENERATED on every run of check C16 from /repo/src/{buint,bint}/consts.rs by gen/c16.py (pre_consts); do not edit. -/
import Bnum.Model.Consts
namespace Bnum.Generated
/-- `pos_const!` invocation of src/buint/consts.rs -/
def posU : List (String × Nat) := [("ONE", 1), ("TWO", 2), ("THREE", 3), ("FOUR", 4), ("FIVE", 5), ("SIX", 6), ("SEVEN", 7), ("EIGHT", 8), ("NINE", 9), ("TEN", 10)]
/-- `ONE` + `pos_const!` invocation of src/bint/consts.rs -/
def posI : List (String × Nat) := [("ONE", 1), ("TWO", 2), ("THREE", 3), ("FOUR", 4), ("FIVE", 5), ("SIX", 6), ("SEVEN", 7), ("EIGHT", 8), ("NINE", 9), ("TEN", 10)]
/-- `neg_const!` invocation of src/bint/consts.rs -/
def negI : List (String × Nat) := [("NEG_ONE", 1), ("NEG_TWO", 2), ("NEG_THREE", 3), ("NEG_FOUR", 4), ("NEG_FIVE", 5), ("NEG_SIX", 6), ("NEG_SEVEN", 7), ("NEG_EIGHT", 8), ("NEG_NINE", 9), ("NEG_TEN", 10)]
/-- the model's constants (and every theorem of Props/C16.lean about ONE..TEN, NEG_ONE..NEG_TEN) are built from exactly these tables -/
theorem posU_is_model : posU = Bnum.Consts.posNames := rfl
theorem posI_is_model : posI = Bnum.Consts.posNames := rfl
theorem negI_is_model : negI = Bnum.Consts.negNames := rfl
end Bnum.Generated
