/-
  Bnum.Lemmas.Indep — helper lemmas for property C16 (digit-type independence, extension,
  constants).  All names live in `Bnum.Indep`.

  Part 1: the constants of Model/Consts.lean evaluate to the digit lists `zero`, `allOnes`,
          `fromDigit`, `iMin`, `iMax` (whose values are known from Lemmas/AddSub2.lean), and
          `NEG_k` to the all-ones list with `k - 1` subtracted from digit 0.
  Part 2: relations between results computed at two configurations `(w₁, n₁)`, `(w₂, n₂)` and the
          generic transfer lemmas ("two results that satisfy the same specification — a right-hand
          side that mentions only `2^(w·n)` and the operand values — are equal as values").
-/
import Bnum.Lemmas.AddSub2
import Bnum.Lemmas.Shift
import Bnum.Lemmas.Cast
import Bnum.Lemmas.Radix
import Bnum.Model.Consts
import Bnum.Spec.Consts

namespace Bnum.Indep
open Bnum Bnum.Arr

/-! ## Part 1: constants -/

theorem M_half_eq_H {w n : Nat} (hw : 1 ≤ w) (hn : 1 ≤ n) : M w n / 2 = H w n := by
  unfold M H
  have : 1 ≤ w * n := Nat.mul_le_mul hw hn
  obtain ⟨k, hk⟩ := Nat.exists_eq_add_of_le this
  rw [hk, Nat.add_comm 1 k, Nat.pow_succ]; simp

theorem B_le_M {w n : Nat} (hn : 1 ≤ n) : B w ≤ M w n := by
  obtain ⟨k, rfl⟩ := Nat.exists_eq_add_of_le hn
  rw [Nat.add_comm, M_succ]
  exact Nat.le_mul_of_pos_right _ (M_pos w k)

theorem B_mono {w w' : Nat} (h : w ≤ w') : B w ≤ B w' := Nat.pow_le_pow_right (by decide) h

theorem M_eq_of_bits {w₁ n₁ w₂ n₂ : Nat} (h : w₁ * n₁ = w₂ * n₂) : M w₁ n₁ = M w₂ n₂ := by
  unfold M; rw [h]

theorem M_le_of_bits {w₁ n₁ w₂ n₂ : Nat} (h : w₁ * n₁ ≤ w₂ * n₂) : M w₁ n₁ ≤ M w₂ n₂ :=
  Nat.pow_le_pow_right (by decide) h

/-- `BITS`: no `u32` overflow ⇒ digit bits × N -/
theorem BITS_eq {w n : Nat} (hW : w * n < 2 ^ 32) (hw : 1 ≤ w) : Consts.UI.BITS w n = .ok (w * n) := by
  have hn : n < 2 ^ 32 := by
    have : 1 * n ≤ w * n := Nat.mul_le_mul_right n hw
    omega
  unfold Consts.UI.BITS Consts.expMax
  simp only [Nat.mod_eq_of_lt hn, hW, if_true]

theorem BYTES_eq {w n : Nat} (hW : w * n < 2 ^ 32) (hw : 1 ≤ w) :
    Consts.UI.BYTES w n = .ok (w * n / 8) := by
  unfold Consts.UI.BYTES; rw [BITS_eq hW hw]; rfl

theorem UMIN_eq (n : Nat) : Consts.UI.MIN n = zero n := rfl
theorem UZERO_eq (n : Nat) : Consts.UI.ZERO n = zero n := rfl
theorem UMAX_eq (w n : Nat) : Consts.UI.MAX w n = allOnes w n := rfl
theorem IZERO_eq (n : Nat) : Consts.II.ZERO n = zero n := rfl

theorem fromDigitO_eq {n : Nat} (d : Nat) (hn : 1 ≤ n) : Bnum.UI.fromDigitO n d = .ok (fromDigit n d) := by
  obtain ⟨k, rfl⟩ := Nat.exists_eq_add_of_le hn
  rw [Nat.add_comm]
  simp [Bnum.UI.fromDigitO, upd, zero, fromDigit, List.replicate_succ]

/-- `pos_const!`: `from_digit(k)` -/
theorem upos_eq {w n k : Nat} (hk : k < B w) (hn : 1 ≤ n) :
    Consts.UI.pos w n k = .ok (fromDigit n k) := by
  unfold Consts.UI.pos Consts.lit
  rw [if_pos hk]; exact fromDigitO_eq k hn

theorem ipos_eq {w n k : Nat} (hk : k < B w) (hn : 1 ≤ n) :
    Consts.II.pos w n k = .ok (fromDigit n k) := by
  unfold Consts.II.pos; rw [upos_eq hk hn]; rfl

theorem set_last_replicate (k d e : Nat) :
    (List.replicate (k + 1) d).set k e = List.replicate k d ++ [e] := by
  induction k with
  | zero => rfl
  | succ k ih => rw [List.replicate_succ, List.set_cons_succ, ih]; rfl

theorem B_half {w : Nat} (hw : 1 ≤ w) : 2 ^ (w - 1) = B w / 2 := by
  unfold B
  obtain ⟨k, rfl⟩ := Nat.exists_eq_add_of_le hw
  rw [Nat.add_comm 1 k, Nat.pow_succ]; simp

/-- `BInt::MIN` -/
theorem IMIN_eq {w n : Nat} (hw : 1 ≤ w) (hn : 1 ≤ n) : Consts.II.MIN w n = .ok (iMin w n) := by
  obtain ⟨k, rfl⟩ := Nat.exists_eq_add_of_le hn
  have hlt : 2 ^ (w - 1) < B w := by
    rw [B_half hw]; have := B_even hw; have := B_pos w; omega
  unfold Consts.II.MIN csub PInt.shl
  rw [if_pos (by omega), if_pos hw]
  simp only [Outcome.bind, Nat.one_mul]
  rw [if_pos (by omega), Nat.mod_eq_of_lt hlt]
  simp only [upd, List.length_replicate]
  rw [if_pos (by omega)]
  simp only [Outcome.map, Bnum.II.fromBits, Bnum.UI.fromDigits]
  have : 1 + k - 1 = k := by omega
  rw [this, Nat.add_comm 1 k, set_last_replicate, B_half hw]
  simp [iMin]

/-- `BInt::MAX` -/
theorem IMAX_eq {w n : Nat} (hw : 2 ≤ w) (hn : 1 ≤ n) : Consts.II.MAX w n = .ok (iMax w n) := by
  obtain ⟨k, rfl⟩ := Nat.exists_eq_add_of_le hn
  have hB := B_even (show 1 ≤ w by omega)
  have hB2 := B_half_ge_two hw
  unfold Consts.II.MAX csub
  rw [if_pos (by omega)]
  have e : 1 + k - 1 = k := by omega
  simp only [Outcome.bind, e]
  have hidx : idx (List.replicate (1 + k) (B w - 1)) k = .ok (B w - 1) := by
    unfold idx
    rw [List.getElem?_replicate, if_pos (by omega)]
  rw [hidx]
  simp only [PInt.shr, PInt.shrRaw, Bool.false_and, Bool.false_eq_true, if_false]
  rw [if_pos (by omega)]
  simp only [upd, List.length_replicate]
  rw [if_pos (by omega)]
  simp only [Outcome.map, Bnum.II.fromBits, Bnum.UI.fromDigits]
  rw [Nat.add_comm 1 k, set_last_replicate]
  have : (B w - 1) / 2 ^ 1 = B w / 2 - 1 := by omega
  rw [this]; simp [iMax]

/-- the digit list of `NEG_k`: all ones with `k - 1` subtracted from digit 0 -/
def negList (w n k : Nat) : List Nat :=
  match n with
  | 0 => []
  | m + 1 => (B w - k) :: List.replicate m (B w - 1)

/-- `neg_const!` -/
theorem ineg_eq {w n k : Nat} (hk1 : 1 ≤ k) (hk : k < B w) (hn : 1 ≤ n) :
    Consts.II.neg w n k = .ok (negList w n k) := by
  obtain ⟨m, rfl⟩ := Nat.exists_eq_add_of_le hn
  unfold Consts.II.neg Consts.lit csub
  rw [if_pos hk]
  simp only [Outcome.bind]
  rw [if_pos hk1]
  simp only [Consts.UI.MAX, Bnum.UI.fromDigits, Nat.add_comm 1 m, List.replicate_succ, idx,
    List.getElem?_cons_zero]
  rw [if_pos (by omega)]
  simp only [upd, List.length_cons, Nat.zero_lt_succ, if_true, List.set_cons_zero, Outcome.map,
    Bnum.II.fromBits, negList]
  have : B w - 1 - (k - 1) = B w - k := by omega
  rw [this]

theorem WF_negList {w n k : Nat} (hk1 : 1 ≤ k) (hn : 1 ≤ n) : WF w n (negList w n k) := by
  obtain ⟨m, rfl⟩ := Nat.exists_eq_add_of_le hn
  rw [Nat.add_comm]
  have := B_pos w
  exact WF_cons.mpr ⟨by omega, WF_replicate m (by omega)⟩

theorem U_negList {w n k : Nat} (hk : k ≤ B w) (hn : 1 ≤ n) :
    U w (negList w n k) = M w n - k := by
  obtain ⟨m, rfl⟩ := Nat.exists_eq_add_of_le hn
  rw [Nat.add_comm]
  simp only [negList, U_cons, U_replicate_max, M_succ]
  have hB := B_pos w
  have hM := M_pos w m
  generalize B w = b at *; generalize M w m = mm at *
  obtain ⟨m', rfl⟩ : ∃ m', mm = m' + 1 := ⟨mm - 1, by omega⟩
  rw [Nat.mul_add]; simp only [Nat.add_sub_cancel, Nat.mul_one]; omega

theorem S_negList {w n k : Nat} (hk1 : 1 ≤ k) (hk : k ≤ B w) (hk2 : 2 * k ≤ M w n) (hn : 1 ≤ n) :
    S w (negList w n k) = -(k : Int) := by
  have hWF := WF_negList (w := w) hk1 hn
  rw [S_def, hWF.1, U_negList hk hn]
  have hM := M_pos w n
  rw [toInt_of_ge (by omega)]
  omega

theorem S_fromDigit {w n k : Nat} (hk2 : 2 * k < M w n) (hn : 1 ≤ n) : S w (fromDigit n k) = k := by
  have hlen : (fromDigit n k).length = n := by
    obtain ⟨m, rfl⟩ := Nat.exists_eq_add_of_le hn
    rw [Nat.add_comm]; simp [fromDigit]
  rw [S_def, hlen, U_fromDigit k hn, toInt_of_lt hk2]

/-! ## Part 2: two configurations

  `(w₁, n₁)` and `(w₂, n₂)` are two ways of building an integer type (digit bits, digit count).
  `Cfgs`  : same total width `w₁·n₁ = w₂·n₂` (the same type built from two digit types);
  `Ext`   : `w₁·n₁ ≤ w₂·n₂` (the second type is at least as wide: zero- or sign-extension target).
  `SameU` / `SameS` : well-formed operands denoting the same unsigned / two's-complement value —
  which is exactly what the `As` cast (C09) produces from one operand (see `SameU.iff_cast`). -/

structure Cfgs (w₁ n₁ w₂ n₂ : Nat) : Prop where
  hw₁ : 2 ≤ w₁
  hw₂ : 2 ≤ w₂
  hn₁ : 1 ≤ n₁
  hn₂ : 1 ≤ n₂
  bits : w₁ * n₁ = w₂ * n₂

structure Ext (w₁ n₁ w₂ n₂ : Nat) : Prop where
  hw₁ : 2 ≤ w₁
  hw₂ : 2 ≤ w₂
  hn₁ : 1 ≤ n₁
  hn₂ : 1 ≤ n₂
  bits : w₁ * n₁ ≤ w₂ * n₂

theorem Cfgs.ext {w₁ n₁ w₂ n₂ : Nat} (c : Cfgs w₁ n₁ w₂ n₂) : Ext w₁ n₁ w₂ n₂ :=
  ⟨c.hw₁, c.hw₂, c.hn₁, c.hn₂, Nat.le_of_eq c.bits⟩
theorem Cfgs.symm {w₁ n₁ w₂ n₂ : Nat} (c : Cfgs w₁ n₁ w₂ n₂) : Cfgs w₂ n₂ w₁ n₁ :=
  ⟨c.hw₂, c.hw₁, c.hn₂, c.hn₁, c.bits.symm⟩
theorem Cfgs.one₁ {w₁ n₁ w₂ n₂ : Nat} (c : Cfgs w₁ n₁ w₂ n₂) : 1 ≤ w₁ := by have := c.hw₁; omega
theorem Cfgs.one₂ {w₁ n₁ w₂ n₂ : Nat} (c : Cfgs w₁ n₁ w₂ n₂) : 1 ≤ w₂ := by have := c.hw₂; omega
theorem Ext.one₁ {w₁ n₁ w₂ n₂ : Nat} (c : Ext w₁ n₁ w₂ n₂) : 1 ≤ w₁ := by have := c.hw₁; omega
theorem Ext.one₂ {w₁ n₁ w₂ n₂ : Nat} (c : Ext w₁ n₁ w₂ n₂) : 1 ≤ w₂ := by have := c.hw₂; omega
theorem Cfgs.M_eq {w₁ n₁ w₂ n₂ : Nat} (c : Cfgs w₁ n₁ w₂ n₂) : M w₁ n₁ = M w₂ n₂ := M_eq_of_bits c.bits
theorem Ext.M_le {w₁ n₁ w₂ n₂ : Nat} (c : Ext w₁ n₁ w₂ n₂) : M w₁ n₁ ≤ M w₂ n₂ := M_le_of_bits c.bits

structure SameU (w₁ n₁ w₂ n₂ : Nat) (a₁ a₂ : List Nat) : Prop where
  wf₁ : WF w₁ n₁ a₁
  wf₂ : WF w₂ n₂ a₂
  val : U w₁ a₁ = U w₂ a₂

structure SameS (w₁ n₁ w₂ n₂ : Nat) (a₁ a₂ : List Nat) : Prop where
  wf₁ : WF w₁ n₁ a₁
  wf₂ : WF w₂ n₂ a₂
  val : S w₁ a₁ = S w₂ a₂

theorem SameU.ival {w₁ n₁ w₂ n₂ : Nat} {a₁ a₂ : List Nat} (h : SameU w₁ n₁ w₂ n₂ a₁ a₂) :
    (U w₁ a₁ : Int) = (U w₂ a₂ : Int) := by rw [h.val]

/-- at equal total width, equal patterns ⇔ equal two's-complement values -/
theorem SameU.toS {w₁ n₁ w₂ n₂ : Nat} {a₁ a₂ : List Nat} (c : Cfgs w₁ n₁ w₂ n₂)
    (h : SameU w₁ n₁ w₂ n₂ a₁ a₂) : SameS w₁ n₁ w₂ n₂ a₁ a₂ :=
  ⟨h.wf₁, h.wf₂, by rw [S_eq h.wf₁, S_eq h.wf₂, c.M_eq, h.val]⟩

theorem SameS.toU {w₁ n₁ w₂ n₂ : Nat} {a₁ a₂ : List Nat} (c : Cfgs w₁ n₁ w₂ n₂)
    (h : SameS w₁ n₁ w₂ n₂ a₁ a₂) : SameU w₁ n₁ w₂ n₂ a₁ a₂ := by
  refine ⟨h.wf₁, h.wf₂, ?_⟩
  have e := h.val
  rw [S_eq h.wf₁, S_eq h.wf₂, c.M_eq] at e
  have h1 := wrapU_toInt (U_lt h.wf₁)
  have h2 := wrapU_toInt (U_lt h.wf₂)
  rw [c.M_eq, e] at h1
  omega

/-- a non-negative signed value is its own zero-extension -/
theorem SameS.toU_of_nonneg {w₁ n₁ w₂ n₂ : Nat} {a₁ a₂ : List Nat} (h : SameS w₁ n₁ w₂ n₂ a₁ a₂)
    (h0 : 0 ≤ S w₁ a₁) : SameU w₁ n₁ w₂ n₂ a₁ a₂ := by
  refine ⟨h.wf₁, h.wf₂, ?_⟩
  have e1 := S_of_nonneg h.wf₁ h0
  have e2 := S_of_nonneg h.wf₂ (by rw [← h.val]; exact h0)
  have := h.val; omega

/-! ### relations between results -/

def EqU (w₁ w₂ : Nat) (r₁ r₂ : List Nat) : Prop := U w₁ r₁ = U w₂ r₂
def EqS (w₁ w₂ : Nat) (r₁ r₂ : List Nat) : Prop := S w₁ r₁ = S w₂ r₂

/-- same `Option`-ness, related payloads -/
def OptRel {α β : Type} (R : α → β → Prop) : Option α → Option β → Prop
  | none, none => True
  | some a, some b => R a b
  | _, _ => False
/-- both panic or both return related results -/
def OutRel {α β : Type} (R : α → β → Prop) : Outcome α → Outcome β → Prop
  | .panic, .panic => True
  | .ok a, .ok b => R a b
  | _, _ => False
/-- related first components, equal second components (flags, counts) -/
def PairRel {α β γ : Type} (R : α → β → Prop) (p : α × γ) (q : β × γ) : Prop := R p.1 q.1 ∧ p.2 = q.2
/-- both components related -/
def Pair2Rel {α β γ δ : Type} (R : α → β → Prop) (Q : γ → δ → Prop) (p : α × γ) (q : β × δ) : Prop :=
  R p.1 q.1 ∧ Q p.2 q.2

theorem EqU.of_int {w₁ w₂ : Nat} {r₁ r₂ : List Nat} {x y : Int} (h₁ : (U w₁ r₁ : Int) = x)
    (h₂ : (U w₂ r₂ : Int) = y) (h : x = y) : EqU w₁ w₂ r₁ r₂ := by unfold EqU; omega
theorem EqU.of_nat {w₁ w₂ : Nat} {r₁ r₂ : List Nat} {x y : Nat} (h₁ : U w₁ r₁ = x)
    (h₂ : U w₂ r₂ = y) (h : x = y) : EqU w₁ w₂ r₁ r₂ := by unfold EqU; omega
theorem EqS.of_int {w₁ w₂ : Nat} {r₁ r₂ : List Nat} {x y : Int} (h₁ : S w₁ r₁ = x)
    (h₂ : S w₂ r₂ = y) (h : x = y) : EqS w₁ w₂ r₁ r₂ := by unfold EqS; omega

theorem EqU.same {w₁ n₁ w₂ n₂ : Nat} {r₁ r₂ : List Nat} (h : EqU w₁ w₂ r₁ r₂) (h₁ : WF w₁ n₁ r₁)
    (h₂ : WF w₂ n₂ r₂) : SameU w₁ n₁ w₂ n₂ r₁ r₂ := ⟨h₁, h₂, h⟩
theorem EqS.same {w₁ n₁ w₂ n₂ : Nat} {r₁ r₂ : List Nat} (h : EqS w₁ w₂ r₁ r₂) (h₁ : WF w₁ n₁ r₁)
    (h₂ : WF w₂ n₂ r₂) : SameS w₁ n₁ w₂ n₂ r₁ r₂ := ⟨h₁, h₂, h⟩

/-- at equal total width, well-formed results of equal pattern have equal two's-complement value -/
theorem EqU.toS {w₁ n₁ w₂ n₂ : Nat} {r₁ r₂ : List Nat} (c : Cfgs w₁ n₁ w₂ n₂) (h : EqU w₁ w₂ r₁ r₂)
    (h₁ : WF w₁ n₁ r₁) (h₂ : WF w₂ n₂ r₂) : EqS w₁ w₂ r₁ r₂ := ((h.same h₁ h₂).toS c).val
theorem EqS.toU {w₁ n₁ w₂ n₂ : Nat} {r₁ r₂ : List Nat} (c : Cfgs w₁ n₁ w₂ n₂) (h : EqS w₁ w₂ r₁ r₂)
    (h₁ : WF w₁ n₁ r₁) (h₂ : WF w₂ n₂ r₂) : EqU w₁ w₂ r₁ r₂ := ((h.same h₁ h₂).toU c).val

theorem OptRel.mono {α β : Type} {R R' : α → β → Prop} (hR : ∀ a b, R a b → R' a b)
    {o₁ : Option α} {o₂ : Option β} (h : OptRel R o₁ o₂) : OptRel R' o₁ o₂ := by
  cases o₁ <;> cases o₂ <;> simp_all [OptRel]
theorem OutRel.mono {α β : Type} {R R' : α → β → Prop} (hR : ∀ a b, R a b → R' a b)
    {o₁ : Outcome α} {o₂ : Outcome β} (h : OutRel R o₁ o₂) : OutRel R' o₁ o₂ := by
  cases o₁ <;> cases o₂ <;> simp_all [OutRel]

theorem OptRel.none_iff {α β : Type} {R : α → β → Prop} {o₁ : Option α} {o₂ : Option β}
    (h : OptRel R o₁ o₂) : o₁ = none ↔ o₂ = none := by
  cases o₁ <;> cases o₂ <;> simp_all [OptRel]
theorem OutRel.panic_iff {α β : Type} {R : α → β → Prop} {o₁ : Outcome α} {o₂ : Outcome β}
    (h : OutRel R o₁ o₂) : o₁ = .panic ↔ o₂ = .panic := by
  cases o₁ <;> cases o₂ <;> simp_all [OutRel]
theorem OptRel.some {α β : Type} {R : α → β → Prop} {o₁ : Option α} {o₂ : Option β}
    (h : OptRel R o₁ o₂) {a : α} {b : β} (h₁ : o₁ = some a) (h₂ : o₂ = some b) : R a b := by
  subst h₁ h₂; exact h
theorem OutRel.ok {α β : Type} {R : α → β → Prop} {o₁ : Outcome α} {o₂ : Outcome β}
    (h : OutRel R o₁ o₂) {a : α} {b : β} (h₁ : o₁ = .ok a) (h₂ : o₂ = .ok b) : R a b := by
  subst h₁ h₂; exact h

/-- `checked_*` = `tuple_to_option(overflowing_*)` -/
theorem PairRel.checked {α β : Type} {R : α → β → Prop} {p : α × Bool} {q : β × Bool}
    (h : PairRel R p q) : OptRel R (tupleToOption p) (tupleToOption q) := by
  obtain ⟨h1, h2⟩ := h
  unfold tupleToOption; rw [h2]
  cases q.2 <;> simp [OptRel, h1]
/-- `strict_*` = `option_expect!(checked_*)` -/
theorem OptRel.expect {α β : Type} {R : α → β → Prop} {o₁ : Option α} {o₂ : Option β}
    (h : OptRel R o₁ o₂) : OutRel R (Outcome.expect o₁) (Outcome.expect o₂) := by
  cases o₁ <;> cases o₂ <;> simp_all [OptRel, OutRel, Outcome.expect]
theorem PairRel.strict {α β : Type} {R : α → β → Prop} {p : α × Bool} {q : β × Bool}
    (h : PairRel R p q) :
    OutRel R (Outcome.expect (tupleToOption p)) (Outcome.expect (tupleToOption q)) := h.checked.expect
/-- `wrapping_*` = `overflowing_*.0` -/
theorem PairRel.wrapping {α β γ : Type} {R : α → β → Prop} {p : α × γ} {q : β × γ}
    (h : PairRel R p q) : R p.1 q.1 := h.1
/-- the unsuffixed operator: `strict_*` under `debug_assertions`, `wrapping_*` otherwise -/
theorem OutRel.dbg {α β : Type} {R : α → β → Prop} {s₁ : Outcome α} {s₂ : Outcome β} {v₁ : α} {v₂ : β}
    (hs : OutRel R s₁ s₂) (hv : R v₁ v₂) (dbg : Bool) :
    OutRel R (if dbg then s₁ else .ok v₁) (if dbg then s₂ else .ok v₂) := by
  cases dbg
  · exact hv
  · exact hs
theorem OutRel.ok_ok {α β : Type} {R : α → β → Prop} {a : α} {b : β} (h : R a b) :
    OutRel R (.ok a) (.ok b) := h
theorem OutRel.map {α β α' β' : Type} {R : α → β → Prop} {R' : α' → β' → Prop} {f : α → α'}
    {g : β → β'} (hfg : ∀ a b, R a b → R' (f a) (g b)) {o₁ : Outcome α} {o₂ : Outcome β}
    (h : OutRel R o₁ o₂) : OutRel R' (o₁.map f) (o₂.map g) := by
  cases o₁ <;> cases o₂ <;> simp_all [OutRel, Outcome.map]

theorem OutRel.bind {α β α' β' : Type} {R : α → β → Prop} {R' : α' → β' → Prop} {f : α → Outcome α'}
    {g : β → Outcome β'} {o₁ : Outcome α} {o₂ : Outcome β} (h : OutRel R o₁ o₂)
    (hfg : ∀ a b, R a b → OutRel R' (f a) (g b)) : OutRel R' (o₁.bind f) (o₂.bind g) := by
  cases o₁ <;> cases o₂ <;> simp_all [OutRel, Outcome.bind]

/-- results described through `map (Option.map value)` (C06 `checked_next_power_of_two`) -/
theorem outOpt_of_map {w₁ w₂ : Nat} {o₁ o₂ : Outcome (Option (List Nat))} {x₁ x₂ : Option Nat}
    (h₁ : o₁.map (Option.map (U w₁)) = .ok x₁) (h₂ : o₂.map (Option.map (U w₂)) = .ok x₂)
    (hx : x₁ = x₂) : OutRel (OptRel (EqU w₁ w₂)) o₁ o₂ := by
  subst hx
  cases o₁ with
  | panic => simp [Outcome.map] at h₁
  | ok a =>
    cases o₂ with
    | panic => simp [Outcome.map] at h₂
    | ok b =>
      simp only [Outcome.map, Outcome.ok.injEq] at h₁ h₂
      subst h₁
      cases a <;> cases b <;> simp_all [OutRel, OptRel, EqU]

/-! ### transfer lemmas: equal modulus, equal exact result ⇒ related results -/

section transfer
variable {w₁ n₁ w₂ n₂ : Nat}

/-- `overflowing_*`, unsigned result: same value, same flag -/
theorem ovfU {p₁ p₂ : List Nat × Bool} {z₁ z₂ : Int} (hM : M w₁ n₁ = M w₂ n₂)
    (h₁ : OvfU w₁ n₁ p₁ z₁) (h₂ : OvfU w₂ n₂ p₂ z₂) (hz : z₁ = z₂) :
    PairRel (EqU w₁ w₂) p₁ p₂ := by
  subst hz
  refine ⟨EqU.of_int h₁.2.1 h₂.2.1 (by rw [hM]), ?_⟩
  rw [h₁.2.2, h₂.2.2, hM]

/-- `overflowing_*`, signed result -/
theorem ovfS {p₁ p₂ : List Nat × Bool} {z₁ z₂ : Int} (hM : M w₁ n₁ = M w₂ n₂)
    (h₁ : OvfS w₁ n₁ p₁ z₁) (h₂ : OvfS w₂ n₂ p₂ z₂) (hz : z₁ = z₂) :
    PairRel (EqS w₁ w₂) p₁ p₂ := by
  subst hz
  refine ⟨EqS.of_int h₁.2.1 h₂.2.1 (by rw [hM]), ?_⟩
  rw [h₁.2.2, h₂.2.2, hM]

/-- the published `overflowing_*` shape is `OvfU` / `OvfS` -/
theorem ofExpandU {p : List Nat × Bool} {z : Int} {w n : Nat}
    (h : WF w n p.1 ∧ (U w p.1 : Int) = wrapU (M w n) z ∧ (p.2 = true ↔ ¬ repU (M w n) z)) :
    OvfU w n p z := by
  refine ⟨h.1, h.2.1, ?_⟩
  have e := h.2.2
  cases hp : p.2 <;> simp_all
theorem ofExpandS {p : List Nat × Bool} {z : Int} {w n : Nat}
    (h : WF w n p.1 ∧ S w p.1 = wrapS (M w n) z ∧ (p.2 = true ↔ ¬ repS (M w n) z)) :
    OvfS w n p z := by
  refine ⟨h.1, h.2.1, ?_⟩
  have e := h.2.2
  cases hp : p.2 <;> simp_all

/-- published `overflowing_*` shape (`….expand`), unsigned -/
theorem ovfU' {p₁ p₂ : List Nat × Bool} {z₁ z₂ : Int} (hM : M w₁ n₁ = M w₂ n₂)
    (h₁ : WF w₁ n₁ p₁.1 ∧ (U w₁ p₁.1 : Int) = wrapU (M w₁ n₁) z₁ ∧ (p₁.2 = true ↔ ¬ repU (M w₁ n₁) z₁))
    (h₂ : WF w₂ n₂ p₂.1 ∧ (U w₂ p₂.1 : Int) = wrapU (M w₂ n₂) z₂ ∧ (p₂.2 = true ↔ ¬ repU (M w₂ n₂) z₂))
    (hz : z₁ = z₂) : PairRel (EqU w₁ w₂) p₁ p₂ := by
  subst hz
  refine ⟨EqU.of_int h₁.2.1 h₂.2.1 (by rw [hM]), ?_⟩
  have e₁ := h₁.2.2; have e₂ := h₂.2.2
  rw [hM] at e₁
  cases h : p₁.2 <;> cases h' : p₂.2 <;> simp_all

/-- published `overflowing_*` shape, signed -/
theorem ovfS' {p₁ p₂ : List Nat × Bool} {z₁ z₂ : Int} (hM : M w₁ n₁ = M w₂ n₂)
    (h₁ : WF w₁ n₁ p₁.1 ∧ S w₁ p₁.1 = wrapS (M w₁ n₁) z₁ ∧ (p₁.2 = true ↔ ¬ repS (M w₁ n₁) z₁))
    (h₂ : WF w₂ n₂ p₂.1 ∧ S w₂ p₂.1 = wrapS (M w₂ n₂) z₂ ∧ (p₂.2 = true ↔ ¬ repS (M w₂ n₂) z₂))
    (hz : z₁ = z₂) : PairRel (EqS w₁ w₂) p₁ p₂ := by
  subst hz
  refine ⟨EqS.of_int h₁.2.1 h₂.2.1 (by rw [hM]), ?_⟩
  have e₁ := h₁.2.2; have e₂ := h₂.2.2
  rw [hM] at e₁
  cases h : p₁.2 <;> cases h' : p₂.2 <;> simp_all

/-- published `checked_*` shape: `None ↔ P`, `Some r → value r = z` -/
theorem optU {o₁ o₂ : Option (List Nat)} {P₁ P₂ : Prop} {Q₁ Q₂ : List Nat → Prop} {z₁ z₂ : Int}
    (h₁ : (o₁ = none ↔ P₁) ∧ ∀ r, o₁ = some r → Q₁ r ∧ (U w₁ r : Int) = z₁)
    (h₂ : (o₂ = none ↔ P₂) ∧ ∀ r, o₂ = some r → Q₂ r ∧ (U w₂ r : Int) = z₂)
    (hP : P₁ ↔ P₂) (hz : z₁ = z₂) : OptRel (EqU w₁ w₂) o₁ o₂ := by
  cases e₁ : o₁ <;> cases e₂ : o₂
  · trivial
  · have := h₂.1.mpr (hP.mp (h₁.1.mp e₁)); rw [e₂] at this; cases this
  · have := h₁.1.mpr (hP.mpr (h₂.1.mp e₂)); rw [e₁] at this; cases this
  · exact EqU.of_int (h₁.2 _ e₁).2 (h₂.2 _ e₂).2 hz

theorem optS {o₁ o₂ : Option (List Nat)} {P₁ P₂ : Prop} {Q₁ Q₂ : List Nat → Prop} {z₁ z₂ : Int}
    (h₁ : (o₁ = none ↔ P₁) ∧ ∀ r, o₁ = some r → Q₁ r ∧ S w₁ r = z₁)
    (h₂ : (o₂ = none ↔ P₂) ∧ ∀ r, o₂ = some r → Q₂ r ∧ S w₂ r = z₂)
    (hP : P₁ ↔ P₂) (hz : z₁ = z₂) : OptRel (EqS w₁ w₂) o₁ o₂ := by
  cases e₁ : o₁ <;> cases e₂ : o₂
  · trivial
  · have := h₂.1.mpr (hP.mp (h₁.1.mp e₁)); rw [e₂] at this; cases this
  · have := h₁.1.mpr (hP.mpr (h₂.1.mp e₂)); rw [e₁] at this; cases this
  · exact EqS.of_int (h₁.2 _ e₁).2 (h₂.2 _ e₂).2 hz

/-- published `strict_*` shape: `panic ↔ P`, `ok r → value r = z` -/
theorem outU {o₁ o₂ : Outcome (List Nat)} {P₁ P₂ : Prop} {Q₁ Q₂ : List Nat → Prop} {z₁ z₂ : Int}
    (h₁ : (o₁ = .panic ↔ P₁) ∧ ∀ r, o₁ = .ok r → Q₁ r ∧ (U w₁ r : Int) = z₁)
    (h₂ : (o₂ = .panic ↔ P₂) ∧ ∀ r, o₂ = .ok r → Q₂ r ∧ (U w₂ r : Int) = z₂)
    (hP : P₁ ↔ P₂) (hz : z₁ = z₂) : OutRel (EqU w₁ w₂) o₁ o₂ := by
  cases e₁ : o₁ <;> cases e₂ : o₂
  · exact EqU.of_int (h₁.2 _ e₁).2 (h₂.2 _ e₂).2 hz
  · have := h₁.1.mpr (hP.mpr (h₂.1.mp e₂)); rw [e₁] at this; cases this
  · have := h₂.1.mpr (hP.mp (h₁.1.mp e₁)); rw [e₂] at this; cases this
  · trivial

theorem outS {o₁ o₂ : Outcome (List Nat)} {P₁ P₂ : Prop} {Q₁ Q₂ : List Nat → Prop} {z₁ z₂ : Int}
    (h₁ : (o₁ = .panic ↔ P₁) ∧ ∀ r, o₁ = .ok r → Q₁ r ∧ S w₁ r = z₁)
    (h₂ : (o₂ = .panic ↔ P₂) ∧ ∀ r, o₂ = .ok r → Q₂ r ∧ S w₂ r = z₂)
    (hP : P₁ ↔ P₂) (hz : z₁ = z₂) : OutRel (EqS w₁ w₂) o₁ o₂ := by
  cases e₁ : o₁ <;> cases e₂ : o₂
  · exact EqS.of_int (h₁.2 _ e₁).2 (h₂.2 _ e₂).2 hz
  · have := h₁.1.mpr (hP.mpr (h₂.1.mp e₂)); rw [e₁] at this; cases this
  · have := h₂.1.mpr (hP.mp (h₁.1.mp e₁)); rw [e₂] at this; cases this
  · trivial

/-- "never panics, the result denotes `z`" shape -/
theorem okU {o₁ o₂ : Outcome (List Nat)} {Q₁ Q₂ : List Nat → Prop} {z₁ z₂ : Int}
    (h₁ : ∃ r, o₁ = .ok r ∧ Q₁ r ∧ (U w₁ r : Int) = z₁)
    (h₂ : ∃ r, o₂ = .ok r ∧ Q₂ r ∧ (U w₂ r : Int) = z₂) (hz : z₁ = z₂) :
    OutRel (EqU w₁ w₂) o₁ o₂ := by
  obtain ⟨r₁, rfl, _, e₁⟩ := h₁; obtain ⟨r₂, rfl, _, e₂⟩ := h₂
  exact EqU.of_int e₁ e₂ hz
theorem okUn {o₁ o₂ : Outcome (List Nat)} {Q₁ Q₂ : List Nat → Prop} {z₁ z₂ : Nat}
    (h₁ : ∃ r, o₁ = .ok r ∧ Q₁ r ∧ U w₁ r = z₁)
    (h₂ : ∃ r, o₂ = .ok r ∧ Q₂ r ∧ U w₂ r = z₂) (hz : z₁ = z₂) :
    OutRel (EqU w₁ w₂) o₁ o₂ := by
  obtain ⟨r₁, rfl, _, e₁⟩ := h₁; obtain ⟨r₂, rfl, _, e₂⟩ := h₂
  exact EqU.of_nat e₁ e₂ hz
theorem okS {o₁ o₂ : Outcome (List Nat)} {Q₁ Q₂ : List Nat → Prop} {z₁ z₂ : Int}
    (h₁ : ∃ r, o₁ = .ok r ∧ Q₁ r ∧ S w₁ r = z₁)
    (h₂ : ∃ r, o₂ = .ok r ∧ Q₂ r ∧ S w₂ r = z₂) (hz : z₁ = z₂) :
    OutRel (EqS w₁ w₂) o₁ o₂ := by
  obtain ⟨r₁, rfl, _, e₁⟩ := h₁; obtain ⟨r₂, rfl, _, e₂⟩ := h₂
  exact EqS.of_int e₁ e₂ hz

theorem divmod_unique {h l m x : Nat} (hl : l < m) (e : h * m + l = x) : l = x % m ∧ h = x / m := by
  subst e
  have hm : 0 < m := by omega
  constructor
  · rw [Nat.mul_comm, Nat.mul_add_mod, Nat.mod_eq_of_lt hl]
  · rw [Nat.mul_comm, Nat.mul_add_div hm, Nat.div_eq_of_lt hl]; rfl

/-- a double-width result `(lo, hi)` with `hi·2^W + lo = x` -/
theorem wide {lo₁ hi₁ lo₂ hi₂ : List Nat} {x₁ x₂ : Nat} (hM : M w₁ n₁ = M w₂ n₂)
    (h₁ : WF w₁ n₁ lo₁ ∧ WF w₁ n₁ hi₁ ∧ U w₁ hi₁ * M w₁ n₁ + U w₁ lo₁ = x₁)
    (h₂ : WF w₂ n₂ lo₂ ∧ WF w₂ n₂ hi₂ ∧ U w₂ hi₂ * M w₂ n₂ + U w₂ lo₂ = x₂) (hx : x₁ = x₂) :
    EqU w₁ w₂ lo₁ lo₂ ∧ EqU w₁ w₂ hi₁ hi₂ := by
  obtain ⟨a1, b1⟩ := divmod_unique (U_lt h₁.1) h₁.2.2
  obtain ⟨a2, b2⟩ := divmod_unique (U_lt h₂.1) h₂.2.2
  unfold EqU
  rw [a1, a2, b1, b2, hM, hx]; exact ⟨rfl, rfl⟩

/-! ### extension: a representable exact result is returned unchanged by both types -/

theorem wrapU_ext {m₁ m₂ : Nat} {z : Int} (hle : m₁ ≤ m₂) (hrep : repU m₁ z) :
    wrapU m₁ z = wrapU m₂ z := by
  have h2 : repU m₂ z := ⟨hrep.1, by have := hrep.2; omega⟩
  have := wrapU_of_rep hrep; have := wrapU_of_rep h2; omega

theorem repS_ext {m₁ m₂ : Nat} {z : Int} (hle : m₁ ≤ m₂) (hrep : repS m₁ z) : repS m₂ z := by
  unfold repS at *; omega
theorem repU_ext {m₁ m₂ : Nat} {z : Int} (hle : m₁ ≤ m₂) (hrep : repU m₁ z) : repU m₂ z := by
  unfold repU at *; omega

/-- unsigned `overflowing_*` after zero-extension: same value, neither overflows -/
theorem ext_ovfU {p₁ p₂ : List Nat × Bool} {z₁ z₂ : Int} (hM : M w₁ n₁ ≤ M w₂ n₂)
    (h₁ : OvfU w₁ n₁ p₁ z₁) (h₂ : OvfU w₂ n₂ p₂ z₂) (hz : z₁ = z₂) (hrep : repU (M w₁ n₁) z₁) :
    PairRel (EqU w₁ w₂) p₁ p₂ ∧ p₁.2 = false := by
  subst hz
  have hrep2 := repU_ext hM hrep
  have f₁ : p₁.2 = false := by rw [h₁.2.2]; simpa using hrep
  have f₂ : p₂.2 = false := by rw [h₂.2.2]; simpa using hrep2
  refine ⟨⟨EqU.of_int h₁.2.1 h₂.2.1 (by rw [wrapU_ext hM hrep]), by rw [f₁, f₂]⟩, f₁⟩

/-- signed `overflowing_*` after sign-extension -/
theorem ext_ovfS {p₁ p₂ : List Nat × Bool} {z₁ z₂ : Int} (hM : M w₁ n₁ ≤ M w₂ n₂)
    (h₁ : OvfS w₁ n₁ p₁ z₁) (h₂ : OvfS w₂ n₂ p₂ z₂) (hz : z₁ = z₂) (hrep : repS (M w₁ n₁) z₁) :
    PairRel (EqS w₁ w₂) p₁ p₂ ∧ p₁.2 = false := by
  subst hz
  have hrep2 := repS_ext hM hrep
  have f₁ : p₁.2 = false := by rw [h₁.2.2]; simpa using hrep
  have f₂ : p₂.2 = false := by rw [h₂.2.2]; simpa using hrep2
  refine ⟨⟨EqS.of_int h₁.2.1 h₂.2.1 ?_, by rw [f₁, f₂]⟩, f₁⟩
  rw [wrapS_of_rep (M_pos _ _) hrep, wrapS_of_rep (M_pos _ _) hrep2]

/-- a result whose pattern is `wrapU 2^W z` for a signed-representable `z` denotes `z` -/
theorem S_of_pattern {w n : Nat} {r : List Nat} {z : Int} (hr : WF w n r)
    (hu : U w r = wrapU (M w n) z) (hrep : repS (M w n) z) : S w r = z := by
  rw [S_eq hr, hu]; exact wrapS_of_rep (M_pos w n) hrep

end transfer

/-! ### parsing (C10): the expectation `Spec.Radix.expectParse r signed 2^W s` depends on `W` only -/

section parse
open Bnum.Radix Bnum.Spec.Radix
variable {w₁ n₁ w₂ n₂ : Nat}

/-- `Result<_, ParseIntError>` at two configurations: both `Ok` with related values, or both `Err` —
    of the same kind whenever `sameKind` (the specification pins the kind down) -/
def ParseRel (R : List Nat → List Nat → Prop) (sameKind : Prop) : PRes → PRes → Prop
  | .ok x, .ok y => R x y
  | .err k, .err k' => sameKind → k = k'
  | _, _ => False

theorem matches_relU {r : Nat} {s : List Nat} {res₁ res₂ : Outcome PRes} (hM : M w₁ n₁ = M w₂ n₂)
    (h₁ : Matches w₁ n₁ (expectParse r false (M w₁ n₁) s) res₁)
    (h₂ : Matches w₂ n₂ (expectParse r false (M w₂ n₂) s) res₂) :
    OutRel (ParseRel (EqU w₁ w₂) (expectParse r false (M w₁ n₁) s ≠ .anyErr)) res₁ res₂ := by
  rw [← hM] at h₂
  generalize he : expectParse r false (M w₁ n₁) s = e at h₁ h₂
  cases e with
  | ok z =>
    obtain ⟨g, -, rfl, hrep⟩ := expect_ok_inv he
    simp only [Bool.false_eq_true, if_false] at hrep
    simp only [Matches] at h₁ h₂; subst h₁ h₂
    exact EqU.of_int (U_ofInt_of_rep hrep) (U_ofInt_of_rep (hM ▸ hrep)) rfl
  | anyErr =>
    obtain ⟨k, rfl⟩ := h₁; obtain ⟨k', rfl⟩ := h₂
    intro h; exact absurd rfl h
  | empty => simp only [Matches] at h₁ h₂; subst h₁ h₂; intro _; rfl
  | invalidDigit => simp only [Matches] at h₁ h₂; subst h₁ h₂; intro _; rfl
  | posOverflow => simp only [Matches] at h₁ h₂; subst h₁ h₂; intro _; rfl
  | negOverflow => simp only [Matches] at h₁ h₂; subst h₁ h₂; intro _; rfl

theorem matches_relS {r : Nat} {s : List Nat} {res₁ res₂ : Outcome PRes} (hM : M w₁ n₁ = M w₂ n₂)
    (h₁ : Matches w₁ n₁ (expectParse r true (M w₁ n₁) s) res₁)
    (h₂ : Matches w₂ n₂ (expectParse r true (M w₂ n₂) s) res₂) :
    OutRel (ParseRel (EqS w₁ w₂) (expectParse r true (M w₁ n₁) s ≠ .anyErr)) res₁ res₂ := by
  rw [← hM] at h₂
  generalize he : expectParse r true (M w₁ n₁) s = e at h₁ h₂
  cases e with
  | ok z =>
    obtain ⟨g, -, rfl, hrep⟩ := expect_ok_inv he
    simp only [if_true] at hrep
    simp only [Matches] at h₁ h₂; subst h₁ h₂
    exact EqS.of_int (S_ofInt_of_rep hrep) (S_ofInt_of_rep (hM ▸ hrep)) rfl
  | anyErr =>
    obtain ⟨k, rfl⟩ := h₁; obtain ⟨k', rfl⟩ := h₂
    intro h; exact absurd rfl h
  | empty => simp only [Matches] at h₁ h₂; subst h₁ h₂; intro _; rfl
  | invalidDigit => simp only [Matches] at h₁ h₂; subst h₁ h₂; intro _; rfl
  | posOverflow => simp only [Matches] at h₁ h₂; subst h₁ h₂; intro _; rfl
  | negOverflow => simp only [Matches] at h₁ h₂; subst h₁ h₂; intro _; rfl

/-- `parse_bytes` -/
theorem expectOpt_relU {r : Nat} {s : List Nat} (hM : M w₁ n₁ = M w₂ n₂) :
    OptRel (EqU w₁ w₂) (expectOpt w₁ n₁ (expectParse r false (M w₁ n₁) s))
      (expectOpt w₂ n₂ (expectParse r false (M w₂ n₂) s)) := by
  rw [← hM]
  generalize he : expectParse r false (M w₁ n₁) s = e
  cases e with
  | ok z =>
    obtain ⟨g, -, rfl, hrep⟩ := expect_ok_inv he
    simp only [Bool.false_eq_true, if_false] at hrep
    exact EqU.of_int (U_ofInt_of_rep hrep) (U_ofInt_of_rep (hM ▸ hrep)) rfl
  | _ => trivial

theorem expectOpt_relS {r : Nat} {s : List Nat} (hM : M w₁ n₁ = M w₂ n₂) :
    OptRel (EqS w₁ w₂) (expectOpt w₁ n₁ (expectParse r true (M w₁ n₁) s))
      (expectOpt w₂ n₂ (expectParse r true (M w₂ n₂) s)) := by
  rw [← hM]
  generalize he : expectParse r true (M w₁ n₁) s = e
  cases e with
  | ok z =>
    obtain ⟨g, -, rfl, hrep⟩ := expect_ok_inv he
    simp only [if_true] at hrep
    exact EqS.of_int (S_ofInt_of_rep hrep) (S_ofInt_of_rep (hM ▸ hrep)) rfl
  | _ => trivial

/-- `from_radix_be` / `from_radix_le` -/
theorem expectDigits_rel {r : Nat} {ds : List Nat} (hM : M w₁ n₁ = M w₂ n₂) :
    OptRel (EqU w₁ w₂) ((expectDigits r (M w₁ n₁) ds).map (ofNat w₁ n₁))
      ((expectDigits r (M w₂ n₂) ds).map (ofNat w₂ n₂)) := by
  rw [← hM]
  unfold expectDigits
  split
  · simp only [Option.map_some, OptRel]
    unfold EqU; rw [U_ofNat, U_ofNat, hM]
  · trivial

end parse

/-! ### vocabulary of the summary table `C16.op_digit_independent`

  `DI1 Rel f` / `DI2 Rel f` / `DI3 Rel f`: the unary / binary / ternary operation `f` (first argument:
  the digit width) is digit-type independent — at any two configurations of equal total width, on
  operands with the same bit pattern (`SameU`; at equal width this is also `SameS`, and it is the `As`
  cast in either signedness), the results are related by `Rel w₁ w₂`. -/

def DI1 {α : Type} (Rel : Nat → Nat → α → α → Prop) (f : Nat → List Nat → α) : Prop :=
  ∀ (w₁ n₁ w₂ n₂ : Nat) (a₁ a₂ : List Nat), Cfgs w₁ n₁ w₂ n₂ → SameU w₁ n₁ w₂ n₂ a₁ a₂ →
    Rel w₁ w₂ (f w₁ a₁) (f w₂ a₂)
def DI2 {α : Type} (Rel : Nat → Nat → α → α → Prop) (f : Nat → List Nat → List Nat → α) : Prop :=
  ∀ (w₁ n₁ w₂ n₂ : Nat) (a₁ a₂ b₁ b₂ : List Nat), Cfgs w₁ n₁ w₂ n₂ → SameU w₁ n₁ w₂ n₂ a₁ a₂ →
    SameU w₁ n₁ w₂ n₂ b₁ b₂ → Rel w₁ w₂ (f w₁ a₁ b₁) (f w₂ a₂ b₂)
def DI3 {α : Type} (Rel : Nat → Nat → α → α → Prop)
    (f : Nat → List Nat → List Nat → List Nat → α) : Prop :=
  ∀ (w₁ n₁ w₂ n₂ : Nat) (a₁ a₂ b₁ b₂ c₁ c₂ : List Nat), Cfgs w₁ n₁ w₂ n₂ → SameU w₁ n₁ w₂ n₂ a₁ a₂ →
    SameU w₁ n₁ w₂ n₂ b₁ b₂ → SameU w₁ n₁ w₂ n₂ c₁ c₂ → Rel w₁ w₂ (f w₁ a₁ b₁ c₁) (f w₂ a₂ b₂ c₂)

/-- result relations: `U`/`S` = equal unsigned / two's-complement value; prefix `P` = pair with equal
    flag, `O` = `Option`, `X` = `Outcome` (panic), `2` = pair of values; `REq` = the same `u32` /
    `bool` / `Ordering` -/
abbrev RU (w₁ w₂ : Nat) : List Nat → List Nat → Prop := EqU w₁ w₂
abbrev RS (w₁ w₂ : Nat) : List Nat → List Nat → Prop := EqS w₁ w₂
abbrev RPU (w₁ w₂ : Nat) : List Nat × Bool → List Nat × Bool → Prop := PairRel (EqU w₁ w₂)
abbrev RPS (w₁ w₂ : Nat) : List Nat × Bool → List Nat × Bool → Prop := PairRel (EqS w₁ w₂)
abbrev ROU (w₁ w₂ : Nat) : Option (List Nat) → Option (List Nat) → Prop := OptRel (EqU w₁ w₂)
abbrev ROS (w₁ w₂ : Nat) : Option (List Nat) → Option (List Nat) → Prop := OptRel (EqS w₁ w₂)
abbrev RXU (w₁ w₂ : Nat) : Outcome (List Nat) → Outcome (List Nat) → Prop := OutRel (EqU w₁ w₂)
abbrev RXS (w₁ w₂ : Nat) : Outcome (List Nat) → Outcome (List Nat) → Prop := OutRel (EqS w₁ w₂)
abbrev RXOU (w₁ w₂ : Nat) : Outcome (Option (List Nat)) → Outcome (Option (List Nat)) → Prop :=
  OutRel (OptRel (EqU w₁ w₂))
abbrev RXOS (w₁ w₂ : Nat) : Outcome (Option (List Nat)) → Outcome (Option (List Nat)) → Prop :=
  OutRel (OptRel (EqS w₁ w₂))
abbrev RXPU (w₁ w₂ : Nat) : Outcome (List Nat × Bool) → Outcome (List Nat × Bool) → Prop :=
  OutRel (PairRel (EqU w₁ w₂))
abbrev RXPS (w₁ w₂ : Nat) : Outcome (List Nat × Bool) → Outcome (List Nat × Bool) → Prop :=
  OutRel (PairRel (EqS w₁ w₂))
abbrev R2U (w₁ w₂ : Nat) : List Nat × List Nat → List Nat × List Nat → Prop :=
  Pair2Rel (EqU w₁ w₂) (EqU w₁ w₂)
abbrev REq {α : Type} (_w₁ _w₂ : Nat) : α → α → Prop := Eq

/-! ### the operand relation is the C09 `As` cast

  Zero-extending an unsigned operand / sign-extending a signed operand into a type at least as wide
  (in particular: re-expressing it over another digit type of the same total width) is `castBnum`
  with equal signedness; `SameU` / `SameS` hold for (and only for) its result. -/

theorem castU {w₁ n₁ w₂ n₂ : Nat} {a₁ : List Nat} (c : Ext w₁ n₁ w₂ n₂) (hdvd : w₁ ∣ w₂ ∨ w₂ ∣ w₁)
    (hx : WF w₁ n₁ a₁) :
    ∃ a₂, castBnum w₁ false a₁ w₂ n₂ false = .ok a₂ ∧ SameU w₁ n₁ w₂ n₂ a₁ a₂ := by
  have hrep : repU (M w₂ n₂) (valOf false w₁ a₁) := by
    have := U_lt hx; have := c.M_le
    simp only [valOf, Bool.false_eq_true, if_false]; constructor <;> omega
  obtain ⟨r, hr, hwf, hv⟩ :=
    (castBnum_spec false false (by have := c.hw₁; omega) (by have := c.hw₂; omega) c.hn₁ c.hn₂ hdvd
      hx).value false (by simpa using hrep)
  refine ⟨r, hr, hx, hwf, ?_⟩
  simp only [valOf, Bool.false_eq_true, if_false] at hv
  omega

theorem castS {w₁ n₁ w₂ n₂ : Nat} {a₁ : List Nat} (c : Ext w₁ n₁ w₂ n₂) (hdvd : w₁ ∣ w₂ ∨ w₂ ∣ w₁)
    (hx : WF w₁ n₁ a₁) :
    ∃ a₂, castBnum w₁ true a₁ w₂ n₂ true = .ok a₂ ∧ SameS w₁ n₁ w₂ n₂ a₁ a₂ := by
  have hrep : repS (M w₂ n₂) (valOf true w₁ a₁) := by
    simp only [valOf, if_true]
    exact repS_ext c.M_le (S_repS (by have := c.hw₁; omega) c.hn₁ hx)
  obtain ⟨r, hr, hwf, hv⟩ :=
    (castBnum_spec true true (by have := c.hw₁; omega) (by have := c.hw₂; omega) c.hn₁ c.hn₂ hdvd
      hx).value true (by simpa using hrep)
  refine ⟨r, hr, hx, hwf, ?_⟩
  simp only [valOf, if_true] at hv
  exact hv.symm

theorem SameU.cast_eq {w₁ n₁ w₂ n₂ : Nat} {a₁ a₂ : List Nat} (c : Ext w₁ n₁ w₂ n₂)
    (hdvd : w₁ ∣ w₂ ∨ w₂ ∣ w₁) (h : SameU w₁ n₁ w₂ n₂ a₁ a₂) :
    castBnum w₁ false a₁ w₂ n₂ false = .ok a₂ := by
  obtain ⟨r, hr, hs⟩ := castU c hdvd h.wf₁
  rw [hr, U_injective hs.wf₂ h.wf₂ (by rw [← hs.val, h.val])]

theorem S_inj' {w n : Nat} {x y : List Nat} (hx : WF w n x) (hy : WF w n y) (h : S w x = S w y) :
    x = y := by
  rw [S_eq hx, S_eq hy] at h
  have h1 := wrapU_toInt (U_lt hx)
  have h2 := wrapU_toInt (U_lt hy)
  rw [h] at h1
  exact U_injective hx hy (by omega)

theorem SameS.cast_eq {w₁ n₁ w₂ n₂ : Nat} {a₁ a₂ : List Nat} (c : Ext w₁ n₁ w₂ n₂)
    (hdvd : w₁ ∣ w₂ ∨ w₂ ∣ w₁) (h : SameS w₁ n₁ w₂ n₂ a₁ a₂) :
    castBnum w₁ true a₁ w₂ n₂ true = .ok a₂ := by
  obtain ⟨r, hr, hs⟩ := castS c hdvd h.wf₁
  rw [hr, S_inj' hs.wf₂ h.wf₂ (by rw [← hs.val, h.val])]

end Bnum.Indep
