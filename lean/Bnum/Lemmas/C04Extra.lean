/-
  Bnum.Lemmas.C04Extra — helper lemmas for the shift clauses of Props/C04.lean that speak about the
  VALUE of `<<` / `>>` (the panic conditions are in Lemmas/Panic.lean, Props/C17.lean):
    * `Panic.shiftPrim_inRange`  an operator shift by a primitive amount `0 ≤ k < BITS` is, in both
      build modes, the in-range shift by `k`;
    * `Panic.wrappingShift_wf`   `wrapping_shl` / `wrapping_shr` (what the operators return in release
      builds) are the in-range shifts by the reduced amount `effAmount BITS s < BITS`, for EVERY `s`.
-/
import Bnum.Lemmas.Panic
import Bnum.Props.C05
import Bnum.Props.C17
namespace Bnum.Panic
open Bnum Bnum.Ops Bnum.Shift

/-- `0 ≤ k < BITS ≤ 2^32`: `k mod 2^32`, as a natural number, is `k` -/
theorem amount_toNat {k : Int} {bits : Nat} (h0 : 0 ≤ k) (hlt : k < (bits : Int))
    (hB : bits ≤ 2 ^ 32) : (k % 2 ^ 32).toNat = k.toNat ∧ k.toNat < bits := by
  have h32 : k < 2 ^ 32 := by
    have : ((bits : Nat) : Int) ≤ 2 ^ 32 := by exact_mod_cast hB
    omega
  rw [Int.emod_eq_of_lt h0 h32]
  exact ⟨rfl, by omega⟩

/-- an operator shift by an in-range primitive amount: both build modes, `BUint` and `BInt`,
    the by-value impl (every other form is this one: `Panic.shlForms_eq`, `Panic.shrForms_eq`) -/
theorem shiftPrim_inRange {w : Nat} {a : List Nat} (t : PrimTy) {p : Nat} (hp : p < B t.bits)
    (hB : w * a.length ≤ 2 ^ 32) (h0 : 0 ≤ t.val p) (hlt : t.val p < ((w * a.length : Nat) : Int))
    (dbg : Bool) :
    shl_vv (buint w a.length) dbg t a p = .ok (UI.uncheckedShlInternal w a (t.val p).toNat) ∧
    shr_vv (buint w a.length) dbg t a p = .ok (UI.uncheckedShrInternal w a (t.val p).toNat) ∧
    shl_vv (bint w a.length) dbg t a p = .ok (UI.uncheckedShlInternal w a (t.val p).toNat) ∧
    shr_vv (bint w a.length) dbg t a p = .ok (II.shrVal w a (t.val p).toNat) := by
  obtain ⟨e, hs⟩ := amount_toNat h0 hlt hB
  cases dbg
  · obtain ⟨r1, r2, r3, r4⟩ := C17.shift_prim_rel (w := w) (n := a.length) a t hp
    obtain ⟨-, -, -, -, -, -, -, -, u1, u2, -, -⟩ := C05.u_inrange (w := w) (a := a) false hs
    obtain ⟨-, -, -, -, -, -, -, -, i1, i2, -, -⟩ := C05.i_inrange (w := w) (a := a) false hs
    rw [e] at r1 r2 r3 r4
    exact ⟨by rw [r1, u1], by rw [r2, u2], by rw [r3, i1], by rw [r4, i2]⟩
  · obtain ⟨d1, d2, d3, d4⟩ := C17.shift_prim_dbg (w := w) (a := a) t hp hB
    have hc : 0 ≤ t.val p ∧ t.val p < ((w * a.length : Nat) : Int) := ⟨h0, hlt⟩
    exact ⟨by rw [d1, if_pos hc], by rw [d2, if_pos hc], by rw [d3, if_pos hc], by rw [d4, if_pos hc]⟩

/-- `wrapping_shl` / `wrapping_shr` for EVERY amount `s` (in particular `s ≥ BITS` at a width that
    is not a power of two, where no property fixes which value comes out): the in-range shift by
    the reduced amount `e = effAmount BITS s < BITS` — a well-formed value, never a panic -/
theorem wrappingShift_wf {w n : Nat} {a : List Nat} (hw : 1 ≤ w) (hn : 1 ≤ n) (ha : WF w n a)
    (s : Nat) :
    effAmount (w * n) s < w * n ∧
    (WF w n (UI.wrappingShl w a s) ∧
      U w (UI.wrappingShl w a s) = (U w a * 2 ^ effAmount (w * n) s) % M w n) ∧
    (WF w n (UI.wrappingShr w a s) ∧
      U w (UI.wrappingShr w a s) = U w a / 2 ^ effAmount (w * n) s) ∧
    (WF w n (II.wrappingShl w a s) ∧
      U w (II.wrappingShl w a s) = (U w a * 2 ^ effAmount (w * n) s) % M w n) ∧
    (WF w n (II.wrappingShr w a s) ∧
      S w (II.wrappingShr w a s) = Int.fdiv (S w a) (2 ^ effAmount (w * n) s)) := by
  have hlt : effAmount (w * n) s < w * n := effAmount_lt s (bits_pos hw hn)
  have e1 : UI.wrappingShl w a s = UI.uncheckedShlInternal w a (effAmount (w * n) s) := by
    unfold UI.wrappingShl; rw [UI.overflowingShl_eq, ha.1]
  have e2 : UI.wrappingShr w a s = UI.uncheckedShrInternal w a (effAmount (w * n) s) := by
    unfold UI.wrappingShr; rw [UI.overflowingShr_eq, ha.1]
  have e3 : II.wrappingShl w a s = UI.uncheckedShlInternal w a (effAmount (w * n) s) := by
    unfold II.wrappingShl; rw [II.overflowingShl_eq, ha.1]
  have e4 : II.wrappingShr w a s = II.shrVal w a (effAmount (w * n) s) := by
    unfold II.wrappingShr; rw [II.overflowingShr_eq, ha.1]; rfl
  rw [e1, e2, e3, e4]
  exact ⟨hlt, C05.shl_spec hw ha hlt, C05.u_shr_spec hw ha hlt, C05.shl_spec hw ha hlt,
    C05.i_shr_spec hw hn ha hlt⟩

end Bnum.Panic
