/-
  Bnum.Lemmas.C12Extra — helper lemmas for the C12 theorems about fill characters that are not one
  byte long (`Fmt.Flags.fill` is the UTF-8 encoding of the fill `char`; `pad_integral` counts the
  minimum width in chars and writes the fill `char` once per missing column).
-/
import Bnum.Lemmas.Fmt

namespace Bnum
namespace Fmt

/-- number of `char`s of a UTF-8 byte string: the bytes that are not continuation bytes
    (`0x80 ..= 0xBF`, i.e. `b / 64 = 2` for a byte) -/
def chars (l : List Nat) : Nat := (l.filter (fun b => b / 64 != 2)).length

theorem chars_nil : chars [] = 0 := rfl

theorem chars_append (a b : List Nat) : chars (a ++ b) = chars a + chars b := by
  simp [chars, List.filter_append]

theorem chars_of_ascii : ∀ (l : List Nat), (∀ b ∈ l, b < 128) → chars l = l.length
  | [], _ => rfl
  | b :: l, h => by
    have hb : b < 128 := h b (by simp)
    have hl := chars_of_ascii l (fun c hc => h c (by simp [hc]))
    have h2 : (b / 64 != 2) = true := by
      have : b / 64 < 2 := by omega
      simp; omega
    unfold chars at *
    simp [h2, hl]

theorem chars_replicate_ascii (k c : Nat) (hc : c < 128) : chars (List.replicate k c) = k := by
  rw [chars_of_ascii _ (by intro b hb; rw [List.eq_of_mem_replicate hb]; exact hc)]
  simp

theorem chars_fillN (fill : List Nat) : ∀ k, chars (fillN fill k) = k * chars fill
  | 0 => by simp [fillN, chars]
  | k + 1 => by
    rw [fillN, chars_append, chars_fillN fill k]; ring

/-- the two paddings together are `pad` copies of the fill -/
theorem padding_length_fill (fl : Flags) (pad : Nat) (d : Align) :
    (padding fl pad d).1.length + (padding fl pad d).2.length = pad * fl.fill.length := by
  unfold padding
  simp only [fillN_length]
  cases fl.align with
  | none => cases d <;> (simp; try (rw [← Nat.add_mul]; congr 1; omega))
  | some a => cases a <;> (simp; try (rw [← Nat.add_mul]; congr 1; omega))

theorem padding_chars (fl : Flags) (pad : Nat) (d : Align) :
    chars (padding fl pad d).1 + chars (padding fl pad d).2 = pad * chars fl.fill := by
  unfold padding
  simp only [chars_fillN]
  cases fl.align with
  | none => cases d <;> (simp; try (rw [← Nat.add_mul]; congr 1; omega))
  | some a => cases a <;> (simp; try (rw [← Nat.add_mul]; congr 1; omega))

/-- length in bytes for an arbitrary fill: `width - natural length` copies of the fill are added
    (zeros under the `0` flag) -/
theorem padIntegral_length_fill (fl : Flags) (isNonneg : Bool) (pfx buf : List Nat) :
    (padIntegral fl isNonneg pfx buf).length
      = if fl.width ≤ (natural fl isNonneg pfx buf).length then (natural fl isNonneg pfx buf).length
        else if fl.zeroPad then fl.width
        else (natural fl isNonneg pfx buf).length
          + (fl.width - (natural fl isNonneg pfx buf).length) * fl.fill.length := by
  rw [padIntegral_eq]
  dsimp only
  by_cases h : fl.width ≤ (natural fl isNonneg pfx buf).length
  · rw [if_pos h, if_pos h]
  · rw [if_neg h, if_neg h]
    have hp := padding_length_fill fl (fl.width - (natural fl isNonneg pfx buf).length) .right
    cases fl.zeroPad
    · simp only [Bool.false_eq_true, if_false, List.length_append]; omega
    · simp only [if_true, List.length_append, List.length_replicate]
      unfold natural at *; simp only [List.length_append] at *; omega

/-- width counted in chars: when the fill is one `char` and the unpadded text is ASCII, the output
    has exactly `max width (natural length)` chars, whatever the byte length of the fill -/
theorem padIntegral_chars (fl : Flags) (isNonneg : Bool) (pfx buf : List Nat)
    (hf : chars fl.fill = 1) (ha : ∀ b ∈ natural fl isNonneg pfx buf, b < 128) :
    chars (padIntegral fl isNonneg pfx buf)
      = max fl.width (natural fl isNonneg pfx buf).length := by
  have hn := chars_of_ascii _ ha
  rw [padIntegral_eq]
  dsimp only
  by_cases h : fl.width ≤ (natural fl isNonneg pfx buf).length
  · rw [if_pos h, Nat.max_eq_right h, hn]
  · rw [if_neg h]
    have hp := padding_chars fl (fl.width - (natural fl isNonneg pfx buf).length) .right
    rw [hf, Nat.mul_one] at hp
    cases fl.zeroPad
    · simp only [Bool.false_eq_true, if_false, chars_append, hn]; omega
    · simp only [if_true]
      have hsp : chars (signPrefix fl isNonneg pfx) = (signPrefix fl isNonneg pfx).length :=
        chars_of_ascii _ (fun b hb => ha b (by unfold natural; simp [hb]))
      have hb : chars buf = buf.length :=
        chars_of_ascii _ (fun b hb => ha b (by unfold natural; simp [hb]))
      rw [chars_append, chars_append, chars_replicate_ascii _ _ (by omega), hsp, hb]
      unfold natural at *; simp only [List.length_append] at *; omega

/-! ### every text of C12 is ASCII -/
open Spec.Radix Spec.Fmt

theorem canonBE_lt {r : Nat} (hr : 2 ≤ r) (v : Nat) : ∀ d ∈ canonBE r v, d < r := by
  intro d hd
  unfold canonBE canonLE at hd
  rw [List.mem_reverse] at hd
  by_cases hv : v = 0
  · simp [hv] at hd; omega
  · rw [if_neg hv] at hd
    exact digitsLE_lt hr v v (Nat.le_refl _) d hd

theorem numeral_ascii {r : Nat} (hr : 2 ≤ r) (hr36 : r ≤ 36) (v : Nat) : ∀ b ∈ numeral r v, b < 128 := by
  intro b hb
  unfold numeral at hb
  obtain ⟨d, hd, rfl⟩ := List.mem_map.1 hb
  have := canonBE_lt hr v d hd
  unfold digitChar; split <;> omega

theorem numeralUpper_ascii {r : Nat} (hr : 2 ≤ r) (hr36 : r ≤ 36) (v : Nat) :
    ∀ b ∈ numeralUpper r v, b < 128 := by
  intro b hb
  unfold numeralUpper at hb
  obtain ⟨d, hd, rfl⟩ := List.mem_map.1 hb
  have := canonBE_lt hr v d hd
  unfold upperChar; split <;> omega

theorem expText_ascii {e : Nat} (he : e < 128) (v : Nat) : ∀ b ∈ expText e v, b < 128 := by
  intro b hb
  by_cases hv : v = 0
  · subst hv; rw [expText_zero] at hb; simp at hb; omega
  · rw [expText_eq (by omega) e] at hb
    have h10 := fun v => numeral_ascii (r := 10) (by omega) (by omega) v
    simp only [List.mem_append, List.mem_singleton] at hb
    rcases hb with ((hb | hb) | hb) | hb
    · exact h10 _ b (List.mem_of_mem_take hb)
    · split at hb
      · simp at hb
      · rcases List.mem_cons.1 hb with h | h
        · omega
        · exact h10 _ b (List.mem_of_mem_drop h)
    · omega
    · exact h10 _ b hb

/-- prefix and digits of the triple core hands to `pad_integral` are ASCII, for every trait -/
theorem primTriple_ascii (t : Trait) (signed : Bool) (W : Nat) (z : Int) :
    (∀ b ∈ (primTriple t signed W z).2.1, b < 128) ∧ (∀ b ∈ (primTriple t signed W z).2.2, b < 128) := by
  have hn := fun r (h : 2 ≤ r ∧ r ≤ 36) v => numeral_ascii (r := r) h.1 h.2 v
  cases t <;> simp only [primTriple] <;> refine ⟨by simp, ?_⟩
  · exact hn 10 (by omega) _
  · exact hn 10 (by omega) _
  · exact hn 2 (by omega) _
  · exact hn 8 (by omega) _
  · exact hn 16 (by omega) _
  · exact numeralUpper_ascii (by omega) (by omega) _
  · exact expText_ascii (by omega) _
  · exact expText_ascii (by omega) _

theorem natural_ascii (fl : Flags) (nn : Bool) {pfx buf : List Nat} (hp : ∀ b ∈ pfx, b < 128)
    (hb : ∀ b ∈ buf, b < 128) : ∀ b ∈ natural fl nn pfx buf, b < 128 := by
  intro b h
  unfold natural signPrefix at h
  simp only [List.mem_append] at h
  rcases h with (h | h) | h
  · cases nn <;> cases fl.signPlus <;> simp at h <;> omega
  · split at h
    · exact hp b h
    · simp at h
  · exact hb b h

end Fmt
end Bnum
