/-
  Bnum.Lemmas.C02Extra — helper lemmas for the additional C02 theorems:
  * `UI.mulWords_spec`: chaining `carrying_mul` over `k` words gives the exact `(k+1)`-word product
  * `UI.U_flatten`: the value of the concatenated digits of a word list is its base-`2^BITS` value
  * the operator forms (`*`, `*=`, by value / by reference) are the inherent `mul`
-/
import Bnum.Lemmas.Mul
import Bnum.Model.C02Extra
import Bnum.Model.Ops

namespace Bnum
namespace UI

theorem UW_nil (w n : Nat) : UW w n [] = 0 := rfl
theorem UW_cons (w n : Nat) (x : List Nat) (xs : List (List Nat)) :
    UW w n (x :: xs) = U w x + M w n * UW w n xs := rfl

/-- the digits of the words, concatenated, are the digits of the multi-word number -/
theorem U_flatten {w n : Nat} : ∀ (xs : List (List Nat)), (∀ x ∈ xs, WF w n x) →
    U w xs.flatten = UW w n xs ∧ WF w (n * xs.length) xs.flatten
  | [], _ => by
    refine ⟨by simp [UW], ?_, ?_⟩
    · simp
    · intro d hd; simp at hd
  | x :: xs, h => by
    have hx : WF w n x := h x (List.mem_cons_self)
    obtain ⟨ih1, ih2⟩ := U_flatten xs (fun y hy => h y (List.mem_cons_of_mem _ hy))
    refine ⟨?_, ?_, ?_⟩
    · rw [List.flatten_cons, U_append, ih1, UW_cons, hx.1, M_eq_pow]
    · rw [List.flatten_cons, List.length_append, hx.1, ih2.1, List.length_cons]; ring
    · intro d hd
      rw [List.flatten_cons, List.mem_append] at hd
      rcases hd with hd | hd
      · exact hx.2 d hd
      · exact ih2.2 d hd

/-- `k` chained `carrying_mul`s: `(Σ aᵢ·Mⁱ)·b + c` exactly, as `k` low words and one carry word -/
theorem mulWords_spec {w n : Nat} {b : List Nat} (hw : 1 ≤ w) (hn : 1 ≤ n) (hb : WF w n b) :
    ∀ (as : List (List Nat)) (c : List Nat), (∀ a ∈ as, WF w n a) → WF w n c →
      (mulWords w as b c).1.length = as.length ∧
      (∀ x ∈ (mulWords w as b c).1, WF w n x) ∧ WF w n (mulWords w as b c).2 ∧
      UW w n (mulWords w as b c).1 + M w n ^ as.length * U w (mulWords w as b c).2
        = UW w n as * U w b + U w c
  | [], c, _, hc => by
    refine ⟨rfl, ?_, hc, ?_⟩
    · intro x hx; simp [mulWords] at hx
    · simp [mulWords, UW]
  | a :: as, c, has, hc => by
    have ha : WF w n a := has a (List.mem_cons_self)
    obtain ⟨k1, k2, k3⟩ := u_carryingMul_spec hw hn ha hb hc
    obtain ⟨i1, i2, i3, i4⟩ := mulWords_spec hw hn hb as (carryingMul w a b c).2
      (fun y hy => has y (List.mem_cons_of_mem _ hy)) k2
    simp only [mulWords]
    refine ⟨by simp [i1], ?_, i3, ?_⟩
    · intro x hx
      rcases List.mem_cons.mp hx with rfl | hx
      · exact k1
      · exact i2 x hx
    · rw [UW_cons, UW_cons, List.length_cons, pow_succ]
      have t : M w n * (UW w n (mulWords w as b (carryingMul w a b c).2).1
            + M w n ^ as.length * U w (mulWords w as b (carryingMul w a b c).2).2)
          = M w n * (UW w n as * U w b + U w (carryingMul w a b c).2) := by rw [i4]
      nlinarith [t, k3]

theorem UW_append_singleton (w n : Nat) (y : List Nat) : ∀ xs : List (List Nat),
    UW w n (xs ++ [y]) = UW w n xs + M w n ^ xs.length * U w y
  | [] => by simp [UW]
  | x :: xs => by
    rw [List.cons_append, UW_cons, UW_cons, UW_append_singleton w n y xs, List.length_cons, pow_succ]
    ring

/-- the result words of `mulWords`, concatenated, are the digits of the exact value -/
theorem mulWords_digits {w n : Nat} {b c : List Nat} {as : List (List Nat)} (hw : 1 ≤ w)
    (hn : 1 ≤ n) (has : ∀ a ∈ as, WF w n a) (hb : WF w n b) (hc : WF w n c) :
    WF w (n * (as.length + 1)) ((mulWords w as b c).1 ++ [(mulWords w as b c).2]).flatten ∧
    U w ((mulWords w as b c).1 ++ [(mulWords w as b c).2]).flatten
      = U w as.flatten * U w b + U w c := by
  obtain ⟨i1, i2, i3, i4⟩ := mulWords_spec hw hn hb as c has hc
  have hall : ∀ x ∈ (mulWords w as b c).1 ++ [(mulWords w as b c).2], WF w n x := by
    intro x hx
    rcases List.mem_append.mp hx with hx | hx
    · exact i2 x hx
    · rw [List.mem_singleton] at hx; subst hx; exact i3
  obtain ⟨f1, f2⟩ := U_flatten _ hall
  obtain ⟨g1, _⟩ := U_flatten as has
  rw [List.length_append, List.length_singleton, i1] at f2
  refine ⟨f2, ?_⟩
  rw [f1, UW_append_singleton, i1, g1, i4]

end UI

namespace Ops
/-- every operator form of multiplication of `BUint<N>` is the inherent `mul` -/
theorem mul_forms_buint (w n : Nat) (dbg : Bool) (a b : List Nat) :
    mul_vv (buint w n) dbg a b = UI.mul w dbg a b ∧ mul_vr (buint w n) dbg a b = UI.mul w dbg a b ∧
    mul_rv (buint w n) dbg a b = UI.mul w dbg a b ∧ mul_rr (buint w n) dbg a b = UI.mul w dbg a b ∧
    mulAssign (buint w n) dbg a b = UI.mul w dbg a b ∧
    mulAssignRef (buint w n) dbg a b = UI.mul w dbg a b :=
  ⟨rfl, rfl, rfl, rfl, rfl, rfl⟩

/-- every operator form of multiplication of `BInt<N>` is the inherent `mul` -/
theorem mul_forms_bint (w n : Nat) (dbg : Bool) (a b : List Nat) :
    mul_vv (bint w n) dbg a b = II.mul w dbg a b ∧ mul_vr (bint w n) dbg a b = II.mul w dbg a b ∧
    mul_rv (bint w n) dbg a b = II.mul w dbg a b ∧ mul_rr (bint w n) dbg a b = II.mul w dbg a b ∧
    mulAssign (bint w n) dbg a b = II.mul w dbg a b ∧
    mulAssignRef (bint w n) dbg a b = II.mul w dbg a b :=
  ⟨rfl, rfl, rfl, rfl, rfl, rfl⟩
end Ops
end Bnum
