/-
  Bnum.Lemmas.Panic — helper lemmas for property C04 (panic behaviour).  C04 is cross-cutting: almost
  everything is a corollary of the property theorems C01 / C02 / C03 / C05 / C06 / C08 / C17, which
  this file therefore imports.  New here:
    * the lists of operator-trait forms (`addForms` …) and that every member is the by-value impl;
    * the `cfg`-dependent operators `KD.uOpAdd` … `KD.iOpSub` characterised in BOTH build modes
      (Lemmas/Div.lean only has the representable case);
    * the unsuffixed `BInt::abs` (`II.abs` = `NumT.Inh.abs`) in both build modes;
    * `next_power_of_two` in terms of the exact result `Spec.nextPow2`;
    * `next_multiple_of` when the exact result is NOT representable (debug panic, release wrap),
      completing `C03.u_nextMultipleOf_spec` / `C03.i_nextMultipleOf_spec`;
    * the three-way case analysis (zero divisor / `MIN` and `-1` / otherwise) of every division form,
      packaged from `C03.u_forms`, `C03.u_zero_divisor`, `C03.i_forms`, `C03.i_zero_divisor`,
      `C03.i_min_neg_one`.
  Every name is in the namespace `Bnum.Panic`.
-/
import Bnum.Model.Panic
import Bnum.Props.C01
import Bnum.Props.C02
import Bnum.Props.C03
import Bnum.Props.C05
import Bnum.Props.C06
import Bnum.Props.C08
import Bnum.Props.C17
namespace Bnum
namespace Panic
open Bnum.Ops DivL Bnum.Bits

/-! ## generic -/

theorem ne_panic_of_ok {α : Type} {x : Outcome α} {v : α} (h : x = .ok v) : x ≠ .panic := by
  rw [h]; intro e; cases e

theorem ok_ne_panic {α : Type} (v : α) : (Outcome.ok v : Outcome α) ≠ .panic := by
  intro e; cases e

theorem ite_panic_iff {α : Type} {c : Prop} [Decidable c] (v : α) :
    (if c then Outcome.ok v else Outcome.panic) = Outcome.panic ↔ ¬ c := by
  by_cases h : c <;> simp [h]

/-! ## the operator-trait forms of `int/ops.rs`: by value, the three by-reference combinations
    (`op_ref_impl!`), `op=` by value and by reference (`assign_op_impl!`) -/

/-- the six `impl`s behind `a + b`, `a + &b`, `&a + b`, `&a + &b`, `a += b`, `a += &b` -/
def addForms : List (Ty → Bool → List Nat → List Nat → Outcome (List Nat)) :=
  [add_vv, add_vr, add_rv, add_rr, addAssign, addAssignRef]
def subForms : List (Ty → Bool → List Nat → List Nat → Outcome (List Nat)) :=
  [sub_vv, sub_vr, sub_rv, sub_rr, subAssign, subAssignRef]
def mulForms : List (Ty → Bool → List Nat → List Nat → Outcome (List Nat)) :=
  [mul_vv, mul_vr, mul_rv, mul_rr, mulAssign, mulAssignRef]
def divForms : List (Ty → Bool → List Nat → List Nat → Outcome (List Nat)) :=
  [div_vv, div_vr, div_rv, div_rr, divAssign, divAssignRef]
def remForms : List (Ty → Bool → List Nat → List Nat → Outcome (List Nat)) :=
  [rem_vv, rem_vr, rem_rv, rem_rr, remAssign, remAssignRef]
/-- `-a`, `-&a` (`BInt` only) -/
def negForms : List (Bool → Nat → List Nat → Outcome (List Nat)) := [neg_v, neg_r]
/-- `a << k`, `a << &k`, `&a << k`, `&a << &k`, `a <<= k`, `a <<= &k` for a primitive `k` -/
def shlForms : List (Ty → Bool → PrimTy → List Nat → Nat → Outcome (List Nat)) :=
  [shl_vv, shl_vr, shl_rv, shl_rr, shlAssign, shlAssignRef]
def shrForms : List (Ty → Bool → PrimTy → List Nat → Nat → Outcome (List Nat)) :=
  [shr_vv, shr_vr, shr_rv, shr_rr, shrAssign, shrAssignRef]

theorem addForms_eq {f} (hf : f ∈ addForms) (T : Ty) (dbg : Bool) (a b : List Nat) :
    f T dbg a b = T.add dbg a b := by
  simp only [addForms, List.mem_cons, List.not_mem_nil, or_false] at hf
  rcases hf with rfl | rfl | rfl | rfl | rfl | rfl <;> rfl
theorem subForms_eq {f} (hf : f ∈ subForms) (T : Ty) (dbg : Bool) (a b : List Nat) :
    f T dbg a b = T.sub dbg a b := by
  simp only [subForms, List.mem_cons, List.not_mem_nil, or_false] at hf
  rcases hf with rfl | rfl | rfl | rfl | rfl | rfl <;> rfl
theorem mulForms_eq {f} (hf : f ∈ mulForms) (T : Ty) (dbg : Bool) (a b : List Nat) :
    f T dbg a b = T.mul dbg a b := by
  simp only [mulForms, List.mem_cons, List.not_mem_nil, or_false] at hf
  rcases hf with rfl | rfl | rfl | rfl | rfl | rfl <;> rfl
theorem divForms_eq {f} (hf : f ∈ divForms) (T : Ty) (dbg : Bool) (a b : List Nat) :
    f T dbg a b = T.div dbg a b := by
  simp only [divForms, List.mem_cons, List.not_mem_nil, or_false] at hf
  rcases hf with rfl | rfl | rfl | rfl | rfl | rfl <;> rfl
theorem remForms_eq {f} (hf : f ∈ remForms) (T : Ty) (dbg : Bool) (a b : List Nat) :
    f T dbg a b = T.rem dbg a b := by
  simp only [remForms, List.mem_cons, List.not_mem_nil, or_false] at hf
  rcases hf with rfl | rfl | rfl | rfl | rfl | rfl <;> rfl
theorem negForms_eq {f} (hf : f ∈ negForms) (dbg : Bool) (w : Nat) (a : List Nat) :
    f dbg w a = bintNeg dbg w a := by
  simp only [negForms, List.mem_cons, List.not_mem_nil, or_false] at hf
  rcases hf with rfl | rfl <;> rfl
theorem shlForms_eq {f} (hf : f ∈ shlForms) (T : Ty) (dbg : Bool) (t : PrimTy) (a : List Nat)
    (p : Nat) : f T dbg t a p = shl_vv T dbg t a p := by
  simp only [shlForms, List.mem_cons, List.not_mem_nil, or_false] at hf
  rcases hf with rfl | rfl | rfl | rfl | rfl | rfl <;> rfl
theorem shrForms_eq {f} (hf : f ∈ shrForms) (T : Ty) (dbg : Bool) (t : PrimTy) (a : List Nat)
    (p : Nat) : f T dbg t a p = shr_vv T dbg t a p := by
  simp only [shrForms, List.mem_cons, List.not_mem_nil, or_false] at hf
  rcases hf with rfl | rfl | rfl | rfl | rfl | rfl <;> rfl

/-! ## the `cfg`-dependent unsuffixed operators used inside other functions, both build modes -/

theorem uOpAdd_dbg (w : Nat) (a b : List Nat) : KD.uOpAdd true w a b = UI.strictAdd w a b := rfl
theorem uOpAdd_rel (w : Nat) (a b : List Nat) : KD.uOpAdd false w a b = .ok (UI.wrappingAdd w a b) := rfl
theorem uOpSub_dbg (w : Nat) (a b : List Nat) : KD.uOpSub true w a b = UI.strictSub w a b := rfl
theorem uOpSub_rel (w : Nat) (a b : List Nat) : KD.uOpSub false w a b = .ok (UI.wrappingSub w a b) := rfl
theorem iOpAdd_dbg (w : Nat) (a b : List Nat) : KD.iOpAdd true w a b = II.strictAdd w a b := rfl
theorem iOpAdd_rel (w : Nat) (a b : List Nat) : KD.iOpAdd false w a b = .ok (II.wrappingAdd w a b) := rfl
theorem iOpSub_dbg (w : Nat) (a b : List Nat) : KD.iOpSub true w a b = II.strictSub w a b := rfl
theorem iOpSub_rel (w : Nat) (a b : List Nat) : KD.iOpSub false w a b = .ok (II.wrappingSub w a b) := rfl

/-- the unsuffixed inherent `add` / `sub` of `trait_fillers!` are the same functions -/
theorem add_eq_uOpAdd (dbg : Bool) (w : Nat) (a b : List Nat) : UI.add dbg w a b = KD.uOpAdd dbg w a b := rfl
theorem sub_eq_uOpSub (dbg : Bool) (w : Nat) (a b : List Nat) : UI.sub dbg w a b = KD.uOpSub dbg w a b := rfl
theorem add_eq_iOpAdd (dbg : Bool) (w : Nat) (a b : List Nat) : II.add dbg w a b = KD.iOpAdd dbg w a b := rfl
theorem sub_eq_iOpSub (dbg : Bool) (w : Nat) (a b : List Nat) : II.sub dbg w a b = KD.iOpSub dbg w a b := rfl
theorem bintNeg_eq_iOpNeg (dbg : Bool) (w : Nat) (a : List Nat) : bintNeg dbg w a = KD.iOpNeg dbg w a := rfl


/-! ## the unsuffixed `BInt::abs` -/

theorem abs_dbg (w : Nat) (a : List Nat) : II.abs true w a = II.strictAbs w a := rfl

/-- release build: `checked_abs` or `MIN` — which is the wrapped `|self|` -/
theorem abs_rel {w n : Nat} {a : List Nat} (hw : 2 ≤ w) (hn : 1 ≤ n) (ha : WF w n a) :
    ∃ r, II.abs false w a = .ok r ∧ WF w n r ∧
      S w r = wrapS (M w n) (((S w a).natAbs : Int)) := by
  have hw1 : 1 ≤ w := by omega
  obtain ⟨hc1, hc2⟩ := C01.i_checked_abs hw hn ha
  show ∃ r, NumT.Inh.abs false w a = .ok r ∧ _
  unfold NumT.Inh.abs
  simp only [Bool.false_eq_true, if_false]
  cases hc : II.checkedAbs w a with
  | some r =>
    obtain ⟨wr, sr⟩ := hc2 r hc
    have hrep : repS (M w n) (((S w a).natAbs : Int)) := by
      by_contra h; rw [hc1.mpr h] at hc; cases hc
    exact ⟨r, rfl, wr, by rw [sr, wrapS_of_rep (M_pos w n) hrep]⟩
  | none =>
    have hnrep := hc1.mp hc
    have hle := (II.S_natAbs_le hw1 hn ha).1
    have hme := M_even hw1 hn
    have hM4 := M_ge_four hw hn
    refine ⟨iMin w n, by rw [ha.1], WF_iMin hw1 hn, ?_⟩
    rw [S_iMin hw1 hn]
    have e : ((S w a).natAbs : Int) = ((M w n / 2 : Nat) : Int) := by
      unfold repS at hnrep; omega
    rw [e, wrapS_of_rep_sub (M_pos w n) (by unfold repS; omega)]
    omega


/-! ## `next_power_of_two` against the exact result `Spec.nextPow2` -/

/-- when no power of two `≥ v` is below `2^W` (and `v < 2^W`), the least one is `2^W` itself -/
theorem nextPow2_eq_of_none {W v : Nat} (hv : v < 2 ^ W) (h : ∀ k, v ≤ 2 ^ k → 2 ^ W ≤ 2 ^ k) :
    Spec.nextPow2 v = 2 ^ W := by
  obtain ⟨k, hk, hle, hmin⟩ := spec_nextPow2 v
  have h1 : 2 ^ W ≤ 2 ^ k := h k (by rw [← hk]; exact hle)
  have h2 : k ≤ W := hmin W (Nat.le_of_lt hv)
  have h3 : 2 ^ k ≤ 2 ^ W := Nat.pow_le_pow_right (by decide) h2
  rw [hk]; omega

/-- `BUint::next_power_of_two`: debug panics iff the exact result `Spec.nextPow2 self` (the least
    power of two `≥ self`) is not below `2^BITS`; release returns it reduced mod `2^BITS` -/
theorem nextPowerOfTwo_full {s n : Nat} (hs : s < 32) {x : List Nat} (hx : WF (2 ^ s) n x) :
    (UI.nextPowerOfTwo true (2 ^ s) x = .panic ↔
      ¬ repU (M (2 ^ s) n) (Spec.nextPow2 (U (2 ^ s) x) : Nat)) ∧
    (∀ r, UI.nextPowerOfTwo true (2 ^ s) x = .ok r →
      WF (2 ^ s) n r ∧ U (2 ^ s) r = Spec.nextPow2 (U (2 ^ s) x)) ∧
    (∃ r, UI.nextPowerOfTwo false (2 ^ s) x = .ok r ∧ WF (2 ^ s) n r ∧
      (U (2 ^ s) r : Int) = wrapU (M (2 ^ s) n) (Spec.nextPow2 (U (2 ^ s) x) : Nat)) := by
  have hsp := spec_nextPow2 (U (2 ^ s) x)
  have hM : M (2 ^ s) n = 2 ^ (2 ^ s * n) := rfl
  have hlt := U_lt hx
  refine ⟨?_, ?_, ?_⟩
  · rcases nextPowerOfTwo_spec hs true hx with ⟨r, h1, h2, h3⟩ | ⟨h2, h1⟩
    · rw [h1, ← isNextPow2_unique h3 hsp]
      have := U_lt h2
      simp only [repU, reduceCtorEq, false_iff]
      omega
    · rw [h1, nextPow2_eq_of_none hlt h2]
      simp only [repU, if_true, true_iff]
      rw [hM]; omega
  · intro r hr
    rcases nextPowerOfTwo_spec hs true hx with ⟨r', h1, h2, h3⟩ | ⟨h2, h1⟩
    · rw [h1] at hr; cases hr
      exact ⟨h2, isNextPow2_unique h3 hsp⟩
    · rw [h1] at hr; simp at hr
  · rcases nextPowerOfTwo_spec hs false hx with ⟨r, h1, h2, h3⟩ | ⟨h2, h1⟩
    · refine ⟨r, h1, h2, ?_⟩
      rw [← isNextPow2_unique h3 hsp]
      have := U_lt h2
      rw [wrapU_of_rep (by unfold repU; omega)]
    · refine ⟨zero n, by rw [h1]; rfl, WF_zero _ n, ?_⟩
      rw [U_zero, nextPow2_eq_of_none hlt h2, ← hM]
      unfold wrapU; simp


/-! ## `next_multiple_of` in both build modes, representable or not -/

/-- `BUint::next_multiple_of` on a non-zero divisor: debug panics iff the exact result
    `Spec.nextMultiple` is not representable; release returns it reduced mod `2^BITS` -/
theorem u_nextMultipleOf_full {w n : Nat} {a b : List Nat} (hw : 1 ≤ w) (hn : 1 ≤ n)
    (ha : WF w n a) (hb : WF w n b) (hb0 : U w b ≠ 0) :
    (UI.nextMultipleOf true w a b = .panic ↔
      ¬ repU (M w n) (Spec.nextMultiple (U w a) (U w b))) ∧
    (∀ r, UI.nextMultipleOf true w a b = .ok r →
      WF w n r ∧ (U w r : Int) = Spec.nextMultiple (U w a) (U w b)) ∧
    (∃ r, UI.nextMultipleOf false w a b = .ok r ∧ WF w n r ∧
      (U w r : Int) = wrapU (M w n) (Spec.nextMultiple (U w a) (U w b))) := by
  obtain ⟨q, r, h, wq, wr, uq, ur⟩ := C03.udivspec hw hn a b ha hb hb0
  have hz : isZero b = false := (isZero_false_iff_U b).mpr hb0
  have hml := Nat.mod_lt (U w a) (show 0 < U w b by omega)
  have hlt := U_lt ha
  have hzr : isZero r = decide (U w r = 0) := bool_eq_decide (isZero_iff_U r)
  have key : ∀ dbg, UI.nextMultipleOf dbg w a b =
      if U w r = 0 then .ok a else
        (KD.uOpSub dbg w b r).bind (fun s => KD.uOpAdd dbg w a s) := by
    intro dbg
    unfold UI.nextMultipleOf UI.wrappingRem UI.checkedRem
    rw [hz]; simp only [Bool.false_eq_true, if_false, h, Outcome.map, Outcome.bind, Outcome.expect]
    rw [hzr]
    by_cases hr : U w r = 0
    · simp [hr]
    · simp only [hr, decide_false, Bool.false_eq_true, if_false]
      cases KD.uOpSub dbg w b r <;> rfl
  rw [C03.nextMultiple_nat _ _ hb0, ← ur, key true, key false]
  by_cases hr : U w r = 0
  · simp only [hr, if_true]
    refine ⟨by simp [repU]; omega, ?_, ⟨a, rfl, ha, by rw [wrapU_of_rep (by unfold repU; omega)]⟩⟩
    intro r' hr'; cases hr'; exact ⟨ha, rfl⟩
  · simp only [hr, if_false]
    obtain ⟨s, c1, c2, c3⟩ := uOpSub_ok hb wr (by omega) true
    obtain ⟨s', d1, d2, d3⟩ := uOpSub_ok hb wr (by omega) false
    rw [c1, d1]; simp only [Outcome.bind]
    have hs : s' = s := U_injective d2 c2 (by rw [d3, c3])
    subst hs
    have e : ((U w a + (U w b - U w r) : Nat) : Int) = (U w a : Int) + (U w s' : Int) := by
      rw [c3]; push_cast; rfl
    rw [e, uOpAdd_dbg, uOpAdd_rel]
    obtain ⟨s1, s2⟩ := C01.u_strict_add ha c2
    obtain ⟨v1, v2⟩ := C01.u_wrapping_add ha c2
    exact ⟨s1, s2, ⟨_, rfl, v1, v2⟩⟩


/-- `BInt::next_multiple_of` on a non-zero divisor: debug panics iff the exact result
    `Spec.nextMultiple` is not representable; release returns it wrapped -/
theorem i_nextMultipleOf_full {w n : Nat} {a b : List Nat} (hw : 2 ≤ w) (hn : 1 ≤ n)
    (ha : WF w n a) (hb : WF w n b) (hb0 : S w b ≠ 0) :
    (II.nextMultipleOf true w a b = .panic ↔
      ¬ repS (M w n) (Spec.nextMultiple (S w a) (S w b))) ∧
    (∀ r, II.nextMultipleOf true w a b = .ok r →
      WF w n r ∧ S w r = Spec.nextMultiple (S w a) (S w b)) ∧
    (∃ r, II.nextMultipleOf false w a b = .ok r ∧ WF w n r ∧
      S w r = wrapS (M w n) (Spec.nextMultiple (S w a) (S w b))) := by
  have hw1 : 1 ≤ w := by omega
  have hU := C03.udivspec hw1 hn
  obtain ⟨r, h, wr, sr⟩ := II.i_wrappingRemEuclid_spec hw hn hU ha hb hb0 true
  obtain ⟨r', h', wr', sr'⟩ := II.i_wrappingRemEuclid_spec hw hn hU ha hb hb0 false
  have hrr : r' = r := S_inj wr' wr (by rw [sr', sr])
  subst hrr
  have hz : isZero r' = decide (S w r' = 0) := bool_eq_decide (II.isZero_iff_S wr)
  have hnn : 0 ≤ S w r' := by rw [sr]; exact Int.emod_nonneg _ hb0
  have hlt : S w r' < (S w b).natAbs := by rw [sr]; have := Int.emod_lt (S w a) hb0; omega
  have rb := S_repS hw1 hn hb
  have ra := S_repS hw1 hn ha
  unfold repS at rb
  have hme := M_even hw1 hn
  rw [nextMultiple_eq _ _ hb0, ← sr]
  unfold II.nextMultipleOf
  rw [h, h']; simp only
  rw [hz, isNegative_eq_decide hw1 hn wr, isNegative_eq_decide hw1 hn hb]
  by_cases nr : S w r' = 0
  · simp only [nr, decide_true, if_true]
    refine ⟨by simp; exact ra, ?_, ⟨a, rfl, ha, by rw [wrapS_of_rep (M_pos w n) ra]⟩⟩
    intro x hx; cases hx; exact ⟨ha, rfl⟩
  · have nrn : ¬ S w r' < 0 := by omega
    simp only [nr, nrn, decide_false, Bool.false_eq_true, if_false]
    by_cases nb : S w b < 0
    · have pb : ¬ 0 < S w b := by omega
      simp only [nb, pb, decide_true, if_false, show (false == true) = false from rfl,
        Bool.false_eq_true]
      rw [iOpSub_dbg, iOpSub_rel]
      obtain ⟨s1, s2⟩ := C01.i_strict_sub hw hn ha wr
      obtain ⟨v1, v2⟩ := C01.i_wrapping_sub ha wr
      exact ⟨s1, s2, ⟨_, rfl, v1, v2⟩⟩
    · have pb : 0 < S w b := by omega
      simp only [nb, pb, decide_false, if_true, beq_self_eq_true]
      obtain ⟨s, c1, c2, c3⟩ := iOpSub_ok hw hn hb wr (by unfold repS; omega) true
      obtain ⟨s', d1, d2, d3⟩ := iOpSub_ok hw hn hb wr (by unfold repS; omega) false
      have hs : s' = s := S_inj d2 c2 (by rw [d3, c3])
      subst hs
      rw [c1, d1]; simp only
      rw [iOpAdd_dbg, iOpAdd_rel, ← c3]
      obtain ⟨s1, s2⟩ := C01.i_strict_add hw hn ha c2
      obtain ⟨v1, v2⟩ := C01.i_wrapping_add ha c2
      exact ⟨s1, s2, ⟨_, rfl, v1, v2⟩⟩


/-! ## every division form: zero divisor / `MIN` and `-1` / otherwise -/

/-- `BUint`: every panicking, wrapping, overflowing and saturating div/rem form panics exactly for a
    zero divisor (the unsigned models are `cfg`-independent) -/
theorem u_div_panic_iff {w n : Nat} {a b : List Nat} (hw : 1 ≤ w) (hn : 1 ≤ n) (ha : WF w n a)
    (hb : WF w n b) :
    (UI.div w a b = .panic ↔ U w b = 0) ∧ (UI.rem w a b = .panic ↔ U w b = 0) ∧
    (UI.divEuclid w a b = .panic ↔ U w b = 0) ∧ (UI.remEuclid w a b = .panic ↔ U w b = 0) ∧
    (UI.wrappingDiv w a b = .panic ↔ U w b = 0) ∧ (UI.wrappingRem w a b = .panic ↔ U w b = 0) ∧
    (UI.wrappingDivEuclid w a b = .panic ↔ U w b = 0) ∧
    (UI.wrappingRemEuclid w a b = .panic ↔ U w b = 0) ∧
    (UI.overflowingDiv w a b = .panic ↔ U w b = 0) ∧ (UI.overflowingRem w a b = .panic ↔ U w b = 0) ∧
    (UI.overflowingDivEuclid w a b = .panic ↔ U w b = 0) ∧
    (UI.overflowingRemEuclid w a b = .panic ↔ U w b = 0) ∧
    (UI.saturatingDiv w a b = .panic ↔ U w b = 0) := by
  by_cases hb0 : U w b = 0
  · obtain ⟨-, -, -, -, -, h1, h2, h3, h4, h5, h6, h7, h8, h9, h10, h11, h12, h13, -, -, -⟩ :=
      C03.u_zero_divisor (a := a) hb0 true
    simp only [h1, h2, h3, h4, h5, h6, h7, h8, h9, h10, h11, h12, h13, hb0, and_self]
  · obtain ⟨q, r, -, -, -, -, -, -, -, -, -, h1, h2, h3, h4, h5, h6, h7, h8, h9, h10, h11, h12, h13, -⟩ :=
      C03.u_forms hw hn ha hb hb0
    simp only [h1, h2, h3, h4, h5, h6, h7, h8, h9, h10, h11, h12, h13, hb0, reduceCtorEq, and_self]

/-- `BUint`: the checked div/rem forms and `checked_next_multiple_of` never panic -/
theorem u_checked_div_ne_panic {w n : Nat} {a b : List Nat} (hw : 1 ≤ w) (hn : 1 ≤ n)
    (ha : WF w n a) (hb : WF w n b) (dbg : Bool) :
    UI.checkedDiv w a b ≠ .panic ∧ UI.checkedRem w a b ≠ .panic ∧
    UI.checkedDivEuclid w a b ≠ .panic ∧ UI.checkedRemEuclid w a b ≠ .panic ∧
    UI.checkedNextMultipleOf dbg w a b ≠ .panic := by
  by_cases hb0 : U w b = 0
  · obtain ⟨h1, h2, h3, h4, h5, -⟩ := C03.u_zero_divisor (a := a) hb0 dbg
    rw [h1, h2, h3, h4, h5]; simp
  · obtain ⟨q, r, -, -, -, -, -, h1, h2, h3, h4, -⟩ := C03.u_forms hw hn ha hb hb0
    obtain ⟨o, h5, -⟩ := C03.u_checkedNextMultipleOf_spec hw hn ha hb hb0 dbg
    rw [h1, h2, h3, h4, h5]; simp

/-- the three cases of a signed division -/
theorem i_div_cases (m : Nat) (x y : Int) :
    y = 0 ∨ (x = -((m / 2 : Nat) : Int) ∧ y = -1) ∨
      (y ≠ 0 ∧ ¬ (x = -((m / 2 : Nat) : Int) ∧ y = -1)) := by
  by_cases h : y = 0
  · exact Or.inl h
  · by_cases h2 : (x = -((m / 2 : Nat) : Int) ∧ y = -1)
    · exact Or.inr (Or.inl h2)
    · exact Or.inr (Or.inr ⟨h, h2⟩)

/-- `BInt::div`, `rem`, `div_euclid`, `rem_euclid` (and so the operators `/`, `%`): a panic, in both
    build modes, exactly for a zero divisor and for `MIN` with `-1` -/
theorem i_div_panic_iff {w n : Nat} {a b : List Nat} (hw : 2 ≤ w) (hn : 1 ≤ n) (ha : WF w n a)
    (hb : WF w n b) (dbg : Bool) :
    (II.div dbg w a b = .panic ↔ S w b = 0 ∨ (S w a = -((M w n / 2 : Nat) : Int) ∧ S w b = -1)) ∧
    (II.rem dbg w a b = .panic ↔ S w b = 0 ∨ (S w a = -((M w n / 2 : Nat) : Int) ∧ S w b = -1)) ∧
    (II.divEuclid dbg w a b = .panic ↔
      S w b = 0 ∨ (S w a = -((M w n / 2 : Nat) : Int) ∧ S w b = -1)) ∧
    (II.remEuclid dbg w a b = .panic ↔
      S w b = 0 ∨ (S w a = -((M w n / 2 : Nat) : Int) ∧ S w b = -1)) := by
  rcases i_div_cases (M w n) (S w a) (S w b) with hb0 | hov | ⟨hb0, hov⟩
  · obtain ⟨-, -, -, -, -, -, -, -, -, -, -, -, -, -, h1, h2, h3, h4, -⟩ :=
      C03.i_zero_divisor hw hn ha hb hb0 dbg
    simp only [h1, h2, h3, h4, hb0, true_or, and_self]
  · obtain ⟨-, -, -, -, -, -, -, -, -, -, -, -, -, -, h1, h2, h3, h4⟩ :=
      C03.i_min_neg_one hw hn ha hb hov dbg
    simp only [h1, h2, h3, h4, hov, and_self, or_true]
  · obtain ⟨q, r, qe, re, -, -, -, -, -, -, -, -, -, -, -, -, -, -, -, -, -, -, -, -, -, h1, h2, h3, h4⟩ :=
      C03.i_forms hw hn ha hb hb0 hov dbg
    simp only [h1, h2, h3, h4, hb0, hov, reduceCtorEq, or_self, and_self]

/-- `BInt`: every wrapping, overflowing and saturating div/rem form panics, in both build modes,
    exactly for a zero divisor (`MIN` with `-1` wraps / sets the flag / saturates) -/
theorem i_wos_div_panic_iff {w n : Nat} {a b : List Nat} (hw : 2 ≤ w) (hn : 1 ≤ n) (ha : WF w n a)
    (hb : WF w n b) (dbg : Bool) :
    (II.wrappingDiv dbg w a b = .panic ↔ S w b = 0) ∧
    (II.wrappingRem dbg w a b = .panic ↔ S w b = 0) ∧
    (II.wrappingDivEuclid dbg w a b = .panic ↔ S w b = 0) ∧
    (II.wrappingRemEuclid dbg w a b = .panic ↔ S w b = 0) ∧
    (II.overflowingDiv dbg w a b = .panic ↔ S w b = 0) ∧
    (II.overflowingRem dbg w a b = .panic ↔ S w b = 0) ∧
    (II.overflowingDivEuclid dbg w a b = .panic ↔ S w b = 0) ∧
    (II.overflowingRemEuclid dbg w a b = .panic ↔ S w b = 0) ∧
    (II.saturatingDiv dbg w a b = .panic ↔ S w b = 0) := by
  rcases i_div_cases (M w n) (S w a) (S w b) with hb0 | hov | ⟨hb0, hov⟩
  · obtain ⟨-, -, -, -, -, h5, h6, h7, h8, h1, h2, h3, h4, h9, -⟩ :=
      C03.i_zero_divisor hw hn ha hb hb0 dbg
    simp only [h1, h2, h3, h4, h5, h6, h7, h8, h9, hb0, and_self]
  · obtain ⟨-, -, -, -, -, h5, h6, h7, h8, h1, h2, h3, h4, h9, -⟩ :=
      C03.i_min_neg_one hw hn ha hb hov dbg
    have hb0 : S w b ≠ 0 := by omega
    simp only [h1, h2, h3, h4, h5, h6, h7, h8, h9, hb0, reduceCtorEq, and_self]
  · obtain ⟨q, r, qe, re, -, -, -, -, -, -, -, -, -, -, -, -, h5, h6, h7, h8, h1, h2, h3, h4, h9, -⟩ :=
      C03.i_forms hw hn ha hb hb0 hov dbg
    simp only [h1, h2, h3, h4, h5, h6, h7, h8, h9, hb0, reduceCtorEq, and_self]

/-- `BInt`: the checked div/rem forms and `checked_next_multiple_of` never panic, in either build
    mode (their bodies reach the `cfg`-dependent unsuffixed `neg` / `add` / `sub`) -/
theorem i_checked_div_ne_panic {w n : Nat} {a b : List Nat} (hw : 2 ≤ w) (hn : 1 ≤ n)
    (ha : WF w n a) (hb : WF w n b) (dbg : Bool) :
    II.checkedDiv dbg w a b ≠ .panic ∧ II.checkedRem dbg w a b ≠ .panic ∧
    II.checkedDivEuclid dbg w a b ≠ .panic ∧ II.checkedRemEuclid dbg w a b ≠ .panic ∧
    II.checkedNextMultipleOf dbg w a b ≠ .panic := by
  have h5 : II.checkedNextMultipleOf dbg w a b ≠ .panic := by
    by_cases hb0 : S w b = 0
    · rw [(C03.i_zero_divisor hw hn ha hb hb0 dbg).2.2.2.2.1]; simp
    · obtain ⟨o, h, -⟩ := C03.i_checkedNextMultipleOf_spec hw hn ha hb hb0 dbg
      rw [h]; simp
  rcases i_div_cases (M w n) (S w a) (S w b) with hb0 | hov | ⟨hb0, hov⟩
  · obtain ⟨h1, h2, h3, h4, -⟩ := C03.i_zero_divisor hw hn ha hb hb0 dbg
    rw [h1, h2, h3, h4]; exact ⟨ok_ne_panic _, ok_ne_panic _, ok_ne_panic _, ok_ne_panic _, h5⟩
  · obtain ⟨-, h1, h2, h3, h4, -⟩ := C03.i_min_neg_one hw hn ha hb hov dbg
    rw [h1, h2, h3, h4]; exact ⟨ok_ne_panic _, ok_ne_panic _, ok_ne_panic _, ok_ne_panic _, h5⟩
  · obtain ⟨q, r, qe, re, -, -, -, -, -, -, -, -, h1, h2, h3, h4, -⟩ :=
      C03.i_forms hw hn ha hb hb0 hov dbg
    rw [h1, h2, h3, h4]; exact ⟨ok_ne_panic _, ok_ne_panic _, ok_ne_panic _, ok_ne_panic _, h5⟩

end Panic
end Bnum
