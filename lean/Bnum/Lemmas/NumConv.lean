/-
  Bnum.Lemmas.NumConv — lemmas for C19 (`FromPrimitive` / `ToPrimitive` / `AsPrimitive`).
  All names live in `Bnum.NumC`.
    1. integer digits: `idig w z j` = `j`-th base-`2^w` digit of the two's-complement expansion of
       `z : Int`; `U_map_idig` (the low `n` digits denote `z mod 2^(w n)`), `idig_all_zero/_max`.
    2. `cast_shr`: `(n >> s) as Digit` = `⌊n / 2^s⌋ mod 2^w` for signed and unsigned primitives.
    3. the shared `from_*` loop: `fromLoop_run` (abstract digit stream, early `None`), `fromLoop_spec`
       (succeeds iff `-2^BITS ≤ z < 2^BITS`, then holds `z mod 2^BITS`).
    4. `UI.fromPrim_spec`, `II.fromUint_spec`, `II.fromInt_spec`, `fromPrim_spec` (`ConvOk`).
    5. floats: `decodeFloat_eq`, `UI.fromFloat_pos/_zero/_neg/_nonfinite/_nonneg`, `negI_spec`,
       `UI/II.fromFloat_matches`, `fromFloat_matches` (`FloatOk` against `Spec.NumC.fromFloat`);
       reuses lean-c14's `Flt.fields`, `nan_inf_iff`, `neg_fields`, `truncOf_*`.
    6. `toPrim_spec` (via C13's `tryToPrim_spec`: the bodies are `rfl`-equal), `toFloat_spec`,
       `asPrim_spec`, `asFloat_spec`; driver correspondence `fromPrim_matches`, `toPrim_matches`.
-/
import Bnum.Model.NumConv
import Bnum.Spec.NumConv
import Bnum.Lemmas.Cast
import Bnum.Lemmas.Shift
import Bnum.Lemmas.Float
namespace Bnum
namespace NumC
open Arr Flt Spec

/-! ### integer digits -/
theorem emod_mul_split (z : Int) {a b : Int} (ha : 0 < a) (hb : 0 < b) :
    z % (a * b) = z % a + a * ((z / a) % b) := by
  have h1 := Int.emod_add_mul_ediv z a
  have h2 := Int.emod_add_mul_ediv (z / a) b
  have h3 := Int.emod_nonneg z (ne_of_gt ha)
  have h4 := Int.emod_lt_of_pos z ha
  have h5 := Int.emod_nonneg (z / a) (ne_of_gt hb)
  have h6 := Int.emod_lt_of_pos (z / a) hb
  have e : z = (z % a + a * ((z / a) % b)) + (z / a / b) * (a * b) := by
    have : a * (z / a) = a * ((z / a) % b + b * (z / a / b)) := by rw [h2]
    linear_combination (-1 : Int) * h1 + this
  conv_lhs => rw [e]
  rw [Int.add_mul_emod_self_right]
  apply Int.emod_eq_of_lt
  · positivity
  · nlinarith

/-- `j`-th base-`2^w` digit of the two's-complement expansion of an integer -/
def idig (w : Nat) (z : Int) (j : Nat) : Nat := wrapU (B w) (z / ((B w : Int) ^ j))

theorem idig_lt (w : Nat) (z : Int) (j : Nat) : idig w z j < B w := wrapU_lt (B_pos w) _

theorem U_map_idig (w : Nat) (z : Int) : ∀ n, U w ((List.range n).map (idig w z)) = wrapU (B w ^ n) z := by
  intro n
  induction n with
  | zero => simp [wrapU, Int.emod_one]
  | succ n ih =>
    rw [List.range_succ, List.map_append, U_append, ih]
    simp only [List.length_map, List.length_range, List.map_cons, List.map_nil, U_cons, U_nil,
      Nat.mul_zero, Nat.add_zero]
    have hB : (0 : Int) < (B w : Int) := by exact_mod_cast B_pos w
    have hBn : (0 : Int) < ((B w ^ n : Nat) : Int) := by exact_mod_cast Nat.pow_pos (B_pos w)
    have key := emod_mul_split z hBn hB
    apply Int.ofNat_inj.mp
    rw [wrapU_cast (Nat.pow_pos (B_pos w))]
    push_cast
    push_cast at key
    rw [pow_succ, key]
    unfold idig
    rw [wrapU_cast (B_pos w), wrapU_cast (Nat.pow_pos (B_pos w))]
    push_cast
    rfl


theorem Bpow_pos (w j : Nat) : (0 : Int) < (B w : Int) ^ j := by
  have : (0 : Int) < (B w : Int) := by exact_mod_cast B_pos w
  positivity

/-- digits above a non-negative number are 0 -/
theorem idig_of_nonneg_lt {w j : Nat} {z : Int} (h0 : 0 ≤ z) (h1 : z < (B w : Int) ^ j) :
    idig w z j = 0 := by
  unfold idig
  rw [Int.ediv_eq_zero_of_lt h0 h1]
  simp [wrapU]

/-- digits above a negative number are `B - 1` -/
theorem idig_of_neg_ge {w j : Nat} {z : Int} (h0 : z < 0) (h1 : -((B w : Int) ^ j) ≤ z) :
    idig w z j = B w - 1 := by
  unfold idig
  have hp := Bpow_pos w j
  have : z / (B w : Int) ^ j = -1 := by
    have e : z = (z + (B w : Int) ^ j) + (-1) * (B w : Int) ^ j := by ring
    rw [e, Int.add_mul_ediv_right _ _ (ne_of_gt hp), Int.ediv_eq_zero_of_lt (by omega) (by omega)]
    rfl
  rw [this]
  have hB := B_pos w
  apply wrapU_eq_of (by omega) (k := -1)
  omega

theorem idig_top_nonneg {w j : Nat} {z : Int} (h0 : 0 ≤ z) (h1 : z < (B w : Int) ^ (j + 1))
    (hd : idig w z j = 0) : z < (B w : Int) ^ j := by
  have hp := Bpow_pos w j
  have hB : (0 : Int) < (B w : Int) := by exact_mod_cast B_pos w
  have hq0 : 0 ≤ z / (B w : Int) ^ j := Int.ediv_nonneg h0 (le_of_lt hp)
  have hq1 : z / (B w : Int) ^ j < B w := by
    apply Int.ediv_lt_of_lt_mul hp
    rw [pow_succ] at h1; linarith [Int.mul_comm ((B w : Int) ^ j) (B w)]
  unfold idig wrapU at hd
  rw [Int.emod_eq_of_lt hq0 hq1] at hd
  have hq : z / (B w : Int) ^ j = 0 := by omega
  have := Int.emod_add_mul_ediv z ((B w : Int) ^ j)
  have := Int.emod_lt_of_pos z hp
  rw [hq] at *
  omega

theorem idig_top_neg {w j : Nat} {z : Int} (h0 : z < 0) (h1 : -((B w : Int) ^ (j + 1)) ≤ z)
    (hd : idig w z j = B w - 1) : -((B w : Int) ^ j) ≤ z := by
  have hp := Bpow_pos w j
  have hB : (0 : Int) < (B w : Int) := by exact_mod_cast B_pos w
  have hBn := B_pos w
  have hm := Int.emod_add_mul_ediv z ((B w : Int) ^ j)
  have hm1 := Int.emod_lt_of_pos z hp
  have hm0 := Int.emod_nonneg z (ne_of_gt hp)
  have hq0 : z / (B w : Int) ^ j < 0 := Int.ediv_neg_of_neg_of_pos h0 hp
  have hq1 : -(B w : Int) ≤ z / (B w : Int) ^ j := by
    rw [Int.le_ediv_iff_mul_le hp]
    rw [pow_succ] at h1; linarith
  unfold idig wrapU at hd
  have e : z / (B w : Int) ^ j % (B w : Int) = z / (B w : Int) ^ j + B w := by
    have : z / (B w : Int) ^ j = (z / (B w : Int) ^ j + B w) + (-1) * (B w : Int) := by ring
    conv_lhs => rw [this]
    rw [Int.add_mul_emod_self_right]
    exact Int.emod_eq_of_lt (by omega) (by omega)
  rw [e] at hd
  have hq : z / (B w : Int) ^ j = -1 := by omega
  rw [hq] at hm
  omega

theorem idig_all_zero {w n : Nat} {z : Int} (h0 : 0 ≤ z) : ∀ d, z < (B w : Int) ^ (n + d) →
    (∀ j, n ≤ j → j < n + d → idig w z j = 0) → z < (B w : Int) ^ n := by
  intro d
  induction d with
  | zero => intro h _; exact h
  | succ d ih =>
    intro h hall
    apply ih
    · exact idig_top_nonneg h0 h (hall (n + d) (by omega) (by omega))
    · intro j h1 h2; exact hall j h1 (by omega)

theorem idig_all_max {w n : Nat} {z : Int} (h0 : z < 0) : ∀ d, -((B w : Int) ^ (n + d)) ≤ z →
    (∀ j, n ≤ j → j < n + d → idig w z j = B w - 1) → -((B w : Int) ^ n) ≤ z := by
  intro d
  induction d with
  | zero => intro h _; exact h
  | succ d ih =>
    intro h hall
    apply ih
    · exact idig_top_neg h0 h (hall (n + d) (by omega) (by omega))
    · intro j h1 h2; exact hall j h1 (by omega)

/-! ### `(n >> s) as Digit` -/

theorem B_add (a b : Nat) : B (a + b) = B a * B b := by unfold B; rw [Nat.pow_add]

/-- `(n >> s) as Digit` is the residue of `⌊n / 2^s⌋` modulo the digit base, for a primitive `n`
    of either signedness and a digit narrower or wider than the primitive -/
theorem cast_shr {k w s p : Nat} (sg : Bool) (hs : s < k) (hp : p < B k) :
    PInt.shr k sg p s = .ok (PInt.shrRaw k sg p s) ∧
    PInt.cast k sg w (PInt.shrRaw k sg p s) = wrapU (B w) (PInt.val ⟨k, sg⟩ p / (2 : Int) ^ s) := by
  refine ⟨by unfold PInt.shr; rw [if_pos hs], ?_⟩
  have hks : B k = 2 ^ s * B (k - s) := by
    rw [show (2 : Nat) ^ s = B s from rfl, ← B_add]; congr 1; omega
  have hps : 0 < 2 ^ s := Nat.pow_pos (by decide)
  have hdiv : p / 2 ^ s < B (k - s) := by
    rw [Nat.div_lt_iff_lt_mul hps, Nat.mul_comm, ← hks]; exact hp
  have hle : B (k - s) ≤ B k := Nat.pow_le_pow_right (by decide) (by omega)
  by_cases hneg : sg = true ∧ B k ≤ 2 * p
  · obtain ⟨rfl, hge⟩ := hneg
    have hval : PInt.val ⟨k, true⟩ p = (p : Int) - B k := by
      unfold PInt.val; simp only [if_true]; exact toInt_of_ge hge
    have hraw : PInt.shrRaw k true p s = p / 2 ^ s + (B k - B (k - s)) := by
      unfold PInt.shrRaw; simp [hge]
    have hzdiv : ((p : Int) - B k) / (2 : Int) ^ s = ((p / 2 ^ s : Nat) : Int) - B (k - s) := by
      have : ((p : Int) - B k) = (p : Int) + (-(B (k - s) : Int)) * (2 : Int) ^ s := by
        rw [hks]; push_cast; ring
      rw [this, Int.add_mul_ediv_right _ _ (by positivity)]
      push_cast; ring
    have heven : B (k - s) = 2 * (B (k - s) / 2) := B_even (by omega)
    have hhalf : B (k - s) ≤ 2 * (p / 2 ^ s) := by
      have : B (k - s) / 2 ≤ p / 2 ^ s := by
        rw [Nat.le_div_iff_mul_le hps]
        have : B k = 2 * (B (k - s) / 2 * 2 ^ s) := by
          rw [hks]
          conv_lhs => rw [heven]
          ac_rfl
        omega
      omega
    rw [hval, hzdiv, hraw]
    generalize p / 2 ^ s = q at *
    unfold PInt.cast
    by_cases hwk : w ≤ k
    · rw [if_pos hwk]
      obtain ⟨c, hc⟩ : B w ∣ B k := Nat.pow_dvd_pow _ hwk
      symm
      apply wrapU_eq_of (Nat.mod_lt _ (B_pos w))
        (k := ((q + (B k - B (k - s))) / B w : Nat) - (c : Int))
      have := Nat.div_add_mod (q + (B k - B (k - s))) (B w)
      have e : ((q + (B k - B (k - s)) : Nat) : Int) = (q : Int) + B k - B (k - s) := by omega
      have e2 : (((q + (B k - B (k - s))) % B w : Nat) : Int)
          = ((q + (B k - B (k - s)) : Nat) : Int) - (B w : Int) * ((q + (B k - B (k - s))) / B w : Nat) := by
        have := congrArg (Int.ofNat) this
        push_cast at this ⊢
        linarith
      rw [e2, e, hc]; push_cast; ring
    · rw [if_neg hwk]
      have hBwk : B k ≤ B w := Nat.pow_le_pow_right (by decide) (by omega)
      have : (true && decide (B k ≤ 2 * (q + (B k - B (k - s))))) = true := by
        simp; omega
      rw [if_pos this]
      symm
      apply wrapU_eq_of (by omega) (k := -1)
      push_cast
      omega
  · have hval : PInt.val ⟨k, sg⟩ p = (p : Int) := by
      unfold PInt.val
      cases sg
      · rfl
      · simp only [if_true]; exact toInt_of_lt (by simp at hneg; omega)
    have hraw : PInt.shrRaw k sg p s = p / 2 ^ s := by
      unfold PInt.shrRaw
      cases sg
      · simp
      · simp at hneg; simp [hneg]
    have hq2 : sg = true → 2 * (p / 2 ^ s) < B (k - s) := by
      intro h
      have heven : B (k - s) = 2 * (B (k - s) / 2) := B_even (by omega)
      have h2 : B k = 2 * (2 ^ s * (B (k - s) / 2)) := by
          rw [hks]
          conv_lhs => rw [heven]
          ac_rfl
      have : p / 2 ^ s < B (k - s) / 2 := by
        rw [Nat.div_lt_iff_lt_mul hps, Nat.mul_comm]
        have : ¬ (B k ≤ 2 * p) := fun hc => hneg ⟨h, hc⟩
        omega
      omega
    rw [hval, hraw, show ((2 : Int) ^ s) = ((2 ^ s : Nat) : Int) by push_cast; rfl,
      ← Int.natCast_ediv, wrapU_natCast]
    generalize p / 2 ^ s = q at *
    unfold PInt.cast
    by_cases hwk : w ≤ k
    · rw [if_pos hwk]
    · rw [if_neg hwk]
      have hBwk : B k ≤ B w := Nat.pow_le_pow_right (by decide) (by omega)
      have hq : q < B w := by omega
      rw [Nat.mod_eq_of_lt hq]
      cases sg
      · simp
      · have := hq2 rfl
        have : ¬ (B k ≤ 2 * q) := by omega
        simp [this]

/-! ### the shared loop -/

/-- the array after the loop has passed index `i`: digits `D j` below `min i n`, padding above -/
def stD (D : Nat → Nat) (n pad i : Nat) : List Nat :=
  (List.range (min i n)).map D ++ List.replicate (n - min i n) pad

theorem stD_length (D : Nat → Nat) (n pad i : Nat) : (stD D n pad i).length = n := by
  unfold stD; simp

theorem stD_zero (D : Nat → Nat) (n pad : Nat) : stD D n pad 0 = List.replicate n pad := by
  simp [stD]

theorem stD_upd {D : Nat → Nat} {n pad i : Nat} (hi : i < n) :
    upd (stD D n pad i) i (D i) = .ok (stD D n pad (i + 1)) := by
  unfold stD
  rw [Nat.min_eq_left (by omega), Nat.min_eq_left (by omega), upd_eq _ (by simp; omega)]
  have := set_append_replicate ((List.range i).map D) pad (D i) (show 0 < n - i by omega)
  simp only [List.length_map, List.length_range] at this
  rw [this, List.range_succ, List.map_append, show n - i - 1 = n - (i + 1) by omega]; rfl

theorem stD_same {D : Nat → Nat} {n pad i : Nat} (h : i < n → D i = pad) :
    stD D n pad (i + 1) = stD D n pad i := by
  unfold stD
  by_cases hi : i < n
  · rw [Nat.min_eq_left (by omega), Nat.min_eq_left (by omega), List.range_succ, List.map_append,
      List.append_assoc]
    congr 1
    obtain ⟨j, hj⟩ : ∃ j, n - i = j + 1 := ⟨n - i - 1, by omega⟩
    rw [hj, show n - (i + 1) = j by omega, List.replicate_succ]
    simp [h hi]
  · rw [Nat.min_eq_right (by omega), Nat.min_eq_right (by omega)]

/-- the shared `from_*` loop over an abstract digit stream `D` -/
theorem fromLoop_run {w n k p pad : Nat} {sg : Bool} {D : Nat → Nat} (hw : 1 ≤ w)
    (hD : ∀ i, i * w < k → ∃ sh, PInt.shr k sg p (i * w) = .ok sh ∧ PInt.cast k sg w sh = D i) :
    ∀ (f i : Nat), k ≤ f + i →
      ((∀ j, i ≤ j → j * w < k → n ≤ j → D j = pad) →
        ∃ J, i ≤ J ∧ k ≤ J * w ∧
          fromLoop w k sg p pad f i (stD D n pad i) = .ok (some (stD D n pad J)))
      ∧ ((∃ j, i ≤ j ∧ j * w < k ∧ n ≤ j ∧ D j ≠ pad) →
          fromLoop w k sg p pad f i (stD D n pad i) = .ok none) := by
  intro f
  induction f with
  | zero =>
    intro i hi
    have : i ≤ i * w := Nat.le_mul_of_pos_right _ hw
    refine ⟨fun _ => ⟨i, Nat.le_refl _, by omega, rfl⟩, ?_⟩
    rintro ⟨j, h1, h2, _⟩
    have : j ≤ j * w := Nat.le_mul_of_pos_right _ hw
    have : i * w ≤ j * w := Nat.mul_le_mul_right _ h1
    omega
  | succ f ih =>
    intro i hi
    unfold fromLoop
    by_cases hik : i * w < k
    · obtain ⟨sh, h1, h2⟩ := hD i hik
      simp only [hik, if_true, h1, Outcome.bind_ok, h2, stD_length]
      obtain ⟨ihA, ihB⟩ := ih (i + 1) (by omega)
      by_cases hd : D i = pad
      · have hne : (D i != pad) = false := by simp [hd]
        simp only [hne, Bool.false_eq_true, if_false]
        rw [← stD_same (n := n) (fun _ => hd)]
        constructor
        · intro hall
          obtain ⟨J, hJ1, hJ2, hJ3⟩ := ihA (fun j hj => hall j (by omega))
          exact ⟨J, by omega, hJ2, hJ3⟩
        · rintro ⟨j, hj1, hj2, hj3, hj4⟩
          apply ihB
          refine ⟨j, ?_, hj2, hj3, hj4⟩
          by_contra hc
          have : j = i := by omega
          subst this; exact hj4 hd
      · have hne : (D i != pad) = true := by simp [hd]
        simp only [hne, if_true]
        by_cases hin : i < n
        · simp only [hin, if_true]
          rw [stD_upd hin, Outcome.bind_ok]
          constructor
          · intro hall
            obtain ⟨J, hJ1, hJ2, hJ3⟩ := ihA (fun j hj => hall j (by omega))
            exact ⟨J, by omega, hJ2, hJ3⟩
          · rintro ⟨j, hj1, hj2, hj3, hj4⟩
            apply ihB
            exact ⟨j, by omega, hj2, hj3, hj4⟩
        · simp only [hin, if_false]
          constructor
          · intro hall
            exact absurd (hall i (Nat.le_refl _) hik (by omega)) hd
          · intro _; trivial
    · simp only [hik, if_false]
      refine ⟨fun _ => ⟨i, Nat.le_refl _, by omega, rfl⟩, ?_⟩
      rintro ⟨j, h1, h2, _⟩
      have : i * w ≤ j * w := Nat.mul_le_mul_right _ h1
      omega

theorem stD_full {D : Nat → Nat} {n pad : Nat} : ∀ (d J : Nat), J + d = n →
    (∀ j, J ≤ j → j < n → D j = pad) → stD D n pad J = (List.range n).map D := by
  intro d
  induction d with
  | zero =>
    intro J hJ _
    unfold stD; rw [Nat.min_eq_right (by omega)]; simp
  | succ d ih =>
    intro J hJ h
    rw [← stD_same (fun _ => h J (Nat.le_refl _) (by omega))]
    exact ih (J + 1) (by omega) (fun j h1 h2 => h j (by omega) h2)

theorem stD_full' {D : Nat → Nat} {n pad J : Nat}
    (h : ∀ j, J ≤ j → j < n → D j = pad) : stD D n pad J = (List.range n).map D := by
  by_cases hJ : J ≤ n
  · exact stD_full (n - J) J (by omega) h
  · unfold stD; rw [Nat.min_eq_right (by omega)]; simp

theorem WF_map_idig (w : Nat) (z : Int) (n : Nat) : WF w n ((List.range n).map (idig w z)) := by
  refine ⟨by simp, ?_⟩
  intro d hd
  obtain ⟨j, _, rfl⟩ := List.mem_map.mp hd
  exact idig_lt w z j

/-- padding digit of an integer: `Digit::MAX` for negative numbers, else `0` -/
def padOf (w : Nat) (z : Int) : Nat := if z < 0 then B w - 1 else 0

theorem two_pow_mul_int (i w : Nat) : (2 : Int) ^ (i * w) = (B w : Int) ^ i := by
  have := two_pow_mul i w
  exact_mod_cast this

theorem val_bounds {k p : Nat} (sg : Bool) (hp : p < B k) :
    -(B k : Int) ≤ PInt.val ⟨k, sg⟩ p ∧ PInt.val ⟨k, sg⟩ p < B k := by
  unfold PInt.val toInt
  cases sg <;> simp <;> (try split) <;> omega

theorem idig_pad_of_bounds {w j : Nat} {z : Int} (h1 : -((B w : Int) ^ j) ≤ z)
    (h2 : z < (B w : Int) ^ j) : idig w z j = padOf w z := by
  unfold padOf
  by_cases hz : z < 0
  · rw [if_pos hz]; exact idig_of_neg_ge hz h1
  · rw [if_neg hz]; exact idig_of_nonneg_lt (by omega) h2

/-- the shared `from_*` loop, semantically: it succeeds exactly when `-2^BITS ≤ z < 2^BITS`
    (i.e. all digits from `N` on are padding), and then the array holds the low `BITS` bits -/
theorem fromLoop_spec {w n k p : Nat} (sg : Bool) (hw : 1 ≤ w) (hp : p < B k) :
    let z := PInt.val ⟨k, sg⟩ p
    ((-(M w n : Int) ≤ z ∧ z < M w n) →
      ∃ r, fromLoop w k sg p (padOf w z) k 0 (List.replicate n (padOf w z)) = .ok (some r)
        ∧ WF w n r ∧ U w r = wrapU (M w n) z) ∧
    (¬ (-(M w n : Int) ≤ z ∧ z < M w n) →
      fromLoop w k sg p (padOf w z) k 0 (List.replicate n (padOf w z)) = .ok none) := by
  intro z
  have hD : ∀ i, i * w < k → ∃ sh, PInt.shr k sg p (i * w) = .ok sh
      ∧ PInt.cast k sg w sh = idig w z i := by
    intro i hi
    obtain ⟨h1, h2⟩ := cast_shr (w := w) sg hi hp
    exact ⟨_, h1, by rw [h2, two_pow_mul_int]; rfl⟩
  obtain ⟨hA, hBn⟩ := fromLoop_run (n := n) (pad := padOf w z) hw hD k 0 (by omega)
  rw [stD_zero] at hA hBn
  obtain ⟨hz1, hz2⟩ := val_bounds sg hp
  have hMc : (M w n : Int) = (B w : Int) ^ n := by rw [M_eq_pow]; push_cast; rfl
  -- digits at positions `j` with `k ≤ j * w` are padding
  have hhigh : ∀ j, k ≤ j * w → idig w z j = padOf w z := by
    intro j hj
    have : (B k : Int) ≤ (B w : Int) ^ j := by
      rw [← two_pow_mul_int]
      have : B k ≤ 2 ^ (j * w) := Nat.pow_le_pow_right (by decide) hj
      exact_mod_cast this
    exact idig_pad_of_bounds (by omega) (by omega)
  constructor
  · rintro ⟨h1, h2⟩
    rw [hMc] at h1 h2
    have hall : ∀ j, n ≤ j → idig w z j = padOf w z := by
      intro j hj
      have : (B w : Int) ^ n ≤ (B w : Int) ^ j :=
        pow_le_pow_right₀ (by have := B_pos w; omega) hj
      exact idig_pad_of_bounds (by omega) (by omega)
    obtain ⟨J, _, hJ2, hJ3⟩ := hA (fun j _ _ hj => hall j hj)
    refine ⟨_, hJ3, ?_, ?_⟩
    · rw [stD_full' (fun j hj _ => hhigh j (Nat.le_trans hJ2 (Nat.mul_le_mul_right _ hj)))]
      exact WF_map_idig w z n
    · rw [stD_full' (fun j hj _ => hhigh j (Nat.le_trans hJ2 (Nat.mul_le_mul_right _ hj))),
        U_map_idig, M_eq_pow]
  · intro hnot
    apply hBn
    by_contra hc
    apply hnot
    have hall : ∀ j, n ≤ j → j < n + k → idig w z j = padOf w z := by
      intro j hj _
      by_cases hjk : j * w < k
      · by_contra hne
        exact hc ⟨j, Nat.zero_le _, hjk, hj, hne⟩
      · exact hhigh j (by omega)
    have hbig : (B k : Int) ≤ (B w : Int) ^ (n + k) := by
      rw [← two_pow_mul_int]
      have h1 : k ≤ (n + k) * w := by
        have : n + k ≤ (n + k) * w := Nat.le_mul_of_pos_right _ hw
        omega
      have : B k ≤ 2 ^ ((n + k) * w) := Nat.pow_le_pow_right (by decide) h1
      exact_mod_cast this
    rw [hMc]
    by_cases hz : z < 0
    · have hpad : padOf w z = B w - 1 := by unfold padOf; rw [if_pos hz]
      rw [hpad] at hall
      have := idig_all_max hz k (by omega) hall
      constructor <;> [exact this; (have := Bpow_pos w n; omega)]
    · have hpad : padOf w z = 0 := by unfold padOf; rw [if_neg hz]
      rw [hpad] at hall
      have := idig_all_zero (by omega) k (by omega) hall
      constructor <;> [(have := Bpow_pos w n; omega); exact this]

theorem padOf_nonneg {w : Nat} {z : Int} (h : 0 ≤ z) : padOf w z = 0 := by
  unfold padOf; rw [if_neg (by omega)]

theorem replicate_zero_eq (n : Nat) : List.replicate n 0 = zero n := rfl

/-- the loop on a non-negative source: `Some` iff `p < 2^BITS` -/
theorem fromLoop_nonneg {w n k p : Nat} (sg : Bool) (hw : 1 ≤ w) (hp : p < B k)
    (hv : PInt.val ⟨k, sg⟩ p = (p : Int)) :
    (p < M w n → ∃ r, fromLoop w k sg p 0 k 0 (zero n) = .ok (some r) ∧ WF w n r ∧ U w r = p) ∧
    (¬ p < M w n → fromLoop w k sg p 0 k 0 (zero n) = .ok none) := by
  have h := fromLoop_spec (n := n) sg hw hp
  simp only [hv, padOf_nonneg (Int.natCast_nonneg p), replicate_zero_eq] at h
  obtain ⟨h1, h2⟩ := h
  constructor
  · intro hlt
    obtain ⟨r, hr1, hr2, hr3⟩ := h1 ⟨by omega, by omega⟩
    refine ⟨r, hr1, hr2, ?_⟩
    rw [hr3, wrapU_natCast, Nat.mod_eq_of_lt hlt]
  · intro hnl
    exact h2 (by omega)

namespace UI
/-- `BUint::from_u64` / `from_u128` -/
theorem fromUintK_spec {w n k p : Nat} (hw : 1 ≤ w) (hp : p < B k) :
    ConvOk false w n (fromUintK w n k p) (p : Int) := by
  unfold fromUintK
  obtain ⟨h1, h2⟩ := fromLoop_nonneg (w := w) (n := n) false hw hp rfl
  by_cases hlt : p < M w n
  · obtain ⟨r, hr1, hr2, hr3⟩ := h1 hlt
    exact Or.inl ⟨by simp [repOf, repU]; omega, r, hr1, hr2, by simp [valOf, hr3]⟩
  · exact Or.inr ⟨by simp [repOf, repU]; omega, h2 hlt⟩

/-- `BUint::from_i64` / `from_i128` -/
theorem fromIntK_spec {w n k p : Nat} (hw : 1 ≤ w) (hp : p < B k) :
    ConvOk false w n (fromIntK w n k p) (PInt.val ⟨k, true⟩ p) := by
  unfold fromIntK
  by_cases hneg : PInt.isNeg ⟨k, true⟩ p = true
  · rw [if_pos hneg]
    obtain ⟨_, hge⟩ := PInt.isNeg_iff.mp hneg
    refine Or.inr ⟨?_, rfl⟩
    unfold PInt.val; simp only [if_true]
    rw [toInt_of_ge hge]
    simp [repOf, repU]; omega
  · rw [if_neg hneg]
    have : PInt.val ⟨k, true⟩ p = (p : Int) := by
      unfold PInt.val; simp only [if_true]
      apply toInt_of_lt
      by_contra hc
      exact hneg (PInt.isNeg_iff.mpr ⟨rfl, by simp at hc ⊢; omega⟩)
    rw [this]
    exact fromUintK_spec hw hp
end UI

/-- lossless widening keeps the value -/
theorem widen_val {k₁ k₂ p : Nat} (sg : Bool) (hk₁ : 1 ≤ k₁) (hk : k₁ ≤ k₂) (hp : p < B k₁) :
    PInt.cast k₁ sg k₂ p < B k₂ ∧
    PInt.val ⟨k₂, sg⟩ (PInt.cast k₁ sg k₂ p) = PInt.val ⟨k₁, sg⟩ p := by
  have hle : B k₁ ≤ B k₂ := Nat.pow_le_pow_right (by decide) hk
  have he := B_even hk₁
  have he2 := B_even (show 1 ≤ k₂ by omega)
  unfold PInt.cast PInt.val toInt
  by_cases hkk : k₂ ≤ k₁
  · have : k₁ = k₂ := by omega
    subst this
    simp [Nat.mod_eq_of_lt hp, hp]
  · rw [if_neg hkk]
    have hlt : B k₁ ≤ B k₂ / 2 := by
      have : k₁ ≤ k₂ - 1 := by omega
      have h2 : B k₂ = 2 * B (k₂ - 1) := by
        unfold B; rw [← Nat.pow_succ']; congr 1; omega
      have : B k₁ ≤ B (k₂ - 1) := Nat.pow_le_pow_right (by decide) this
      omega
    cases sg
    · simp; omega
    · by_cases hn : B k₁ ≤ 2 * p
      · simp [hn]
        constructor
        · omega
        · split <;> omega
      · simp [hn]
        constructor
        · omega
        · split <;> omega

theorem PrimT.bits_pos (t : PrimT) : 1 ≤ t.ty.bits := by cases t <;> decide
theorem PrimT.bits_le (t : PrimT) : t.ty.bits ≤ 128 := by cases t <;> decide

namespace UI
/-- `<BUint<N> as FromPrimitive>::from_<prim>` for all twelve primitive integer types -/
theorem fromPrim_spec {w n : Nat} (t : PrimT) {p : Nat} (hw : 1 ≤ w) (hp : p < B t.ty.bits) :
    ConvOk false w n (fromPrim w n t p) (PInt.val t.ty p) := by
  have u64 : ∀ q, q < B 64 → ConvOk false w n (fromU64 w n q) (PInt.val ⟨64, false⟩ q) :=
    fun q hq => fromUintK_spec hw hq
  have i64 : ∀ q, q < B 64 → ConvOk false w n (fromI64 w n q) (PInt.val ⟨64, true⟩ q) :=
    fun q hq => fromIntK_spec hw hq
  have wd : ∀ (k : Nat) (sg : Bool), 1 ≤ k → k ≤ 64 → p < B k →
      PInt.cast k sg 64 p < B 64 ∧ PInt.val ⟨64, sg⟩ (PInt.cast k sg 64 p) = PInt.val ⟨k, sg⟩ p :=
    fun k sg h1 h2 h3 => widen_val sg h1 h2 h3
  cases t <;> simp only [fromPrim, PrimT.ty, widen64, sizeTo64] at hp ⊢
  · obtain ⟨h1, h2⟩ := wd 8 false (by decide) (by decide) hp; rw [← h2]; exact u64 _ h1
  · obtain ⟨h1, h2⟩ := wd 16 false (by decide) (by decide) hp; rw [← h2]; exact u64 _ h1
  · obtain ⟨h1, h2⟩ := wd 32 false (by decide) (by decide) hp; rw [← h2]; exact u64 _ h1
  · exact u64 _ hp
  · exact fromUintK_spec hw hp
  · obtain ⟨h1, h2⟩ := wd 64 false (by decide) (by decide) hp; rw [← h2]; exact u64 _ h1
  · obtain ⟨h1, h2⟩ := wd 8 true (by decide) (by decide) hp; rw [← h2]; exact i64 _ h1
  · obtain ⟨h1, h2⟩ := wd 16 true (by decide) (by decide) hp; rw [← h2]; exact i64 _ h1
  · obtain ⟨h1, h2⟩ := wd 32 true (by decide) (by decide) hp; rw [← h2]; exact i64 _ h1
  · exact i64 _ hp
  · exact fromIntK_spec hw hp
  · obtain ⟨h1, h2⟩ := wd 64 true (by decide) (by decide) hp; rw [← h2]; exact i64 _ h1
end UI

namespace II
/-- `from_uint!` (BInt) -/
theorem fromUint_spec {w n k p : Nat} (hw : 1 ≤ w) (hn : 1 ≤ n) (hp : p < B k) :
    ConvOk true w n (fromUint w n k p) (p : Int) := by
  unfold fromUint
  obtain ⟨h1, h2⟩ := fromLoop_nonneg (w := w) (n := n) false hw hp rfl
  have hM := M_even hw hn
  by_cases hlt : p < M w n
  · obtain ⟨r, hr1, hr2, hr3⟩ := h1 hlt
    rw [hr1, Outcome.bind_ok]
    simp only
    by_cases hng : isNegative w r = true
    · rw [if_pos hng]
      have := (Shift.isNegative_iff_U hw hn hr2).mp hng
      exact Or.inr ⟨by simp [repOf, repS]; omega, rfl⟩
    · rw [if_neg hng]
      have : ¬ (M w n ≤ 2 * U w r) := fun h => hng ((Shift.isNegative_iff_U hw hn hr2).mpr h)
      refine Or.inl ⟨by simp [repOf, repS]; omega, r, rfl, hr2, ?_⟩
      simp only [valOf, if_true]
      rw [S_eq hr2, toInt_of_lt (by omega), hr3]
  · rw [h2 hlt, Outcome.bind_ok]
    exact Or.inr ⟨by simp [repOf, repS]; omega, rfl⟩

/-- `from_int!` (BInt) -/
theorem fromInt_spec {w n k p : Nat} (hw : 1 ≤ w) (hn : 1 ≤ n) (hk : 1 ≤ k) (hp : p < B k) :
    ConvOk true w n (fromInt w n k p) (PInt.val ⟨k, true⟩ p) := by
  unfold fromInt
  have hM := M_even hw hn
  have hMp := M_pos w n
  have hspec := fromLoop_spec (n := n) true hw hp
  simp only at hspec
  have hnegiff : PInt.isNeg ⟨k, true⟩ p = decide (PInt.val ⟨k, true⟩ p < 0) := by
    have he := B_even hk
    unfold PInt.isNeg PInt.val toInt
    simp only [Bool.true_and, if_true]
    split <;> (apply decide_eq_decide.mpr; omega)
  have hpad : (if PInt.isNeg ⟨k, true⟩ p = true then B w - 1 else 0) = padOf w (PInt.val ⟨k, true⟩ p) := by
    rw [hnegiff]; unfold padOf; simp
  simp only [Bnum.II.fromBits, Bnum.UI.fromDigits, hpad]
  generalize PInt.val ⟨k, true⟩ p = z at *
  obtain ⟨h1, h2⟩ := hspec
  by_cases hfit : -(M w n : Int) ≤ z ∧ z < M w n
  · obtain ⟨r, hr1, hr2, hr3⟩ := h1 hfit
    rw [hr1, Outcome.bind_ok]
    simp only
    rw [hnegiff, bool_eq_decide (Shift.isNegative_iff_U hw hn hr2), hr3]
    have hu := U_lt hr2
    by_cases hz : z < 0
    · have hwr : (wrapU (M w n) z : Int) = z + M w n := by
        have : wrapU (M w n) z = (z + M w n).toNat := by
          apply wrapU_eq_of (by omega) (k := -1); omega
        omega
      by_cases hrep : -(M w n : Int) ≤ 2 * z
      · have hc : (decide (z < 0) != decide (M w n ≤ 2 * wrapU (M w n) z)) = false := by
          simp [hz]; omega
        rw [hc]
        refine Or.inl ⟨by simp [repOf, repS]; omega, r, rfl, hr2, ?_⟩
        simp only [valOf, if_true]
        rw [S_eq hr2, toInt_of_ge (by omega), hr3]; omega
      · have hc : (decide (z < 0) != decide (M w n ≤ 2 * wrapU (M w n) z)) = true := by
          simp [hz]; omega
        rw [hc]
        exact Or.inr ⟨by simp [repOf, repS]; omega, rfl⟩
    · have hwr : (wrapU (M w n) z : Int) = z := wrapU_of_rep ⟨by omega, hfit.2⟩
      by_cases hrep : 2 * z < M w n
      · have hc : (decide (z < 0) != decide (M w n ≤ 2 * wrapU (M w n) z)) = false := by
          simp [hz]; omega
        rw [hc]
        refine Or.inl ⟨by simp [repOf, repS]; omega, r, rfl, hr2, ?_⟩
        simp only [valOf, if_true]
        rw [S_eq hr2, toInt_of_lt (by omega), hr3]; omega
      · have hc : (decide (z < 0) != decide (M w n ≤ 2 * wrapU (M w n) z)) = true := by
          simp [hz]; omega
        rw [hc]
        exact Or.inr ⟨by simp [repOf, repS]; omega, rfl⟩
  · rw [h2 hfit, Outcome.bind_ok]
    refine Or.inr ⟨?_, rfl⟩
    simp [repOf, repS]; omega
end II

namespace II
/-- `<BInt<N> as FromPrimitive>::from_<prim>` for all twelve primitive integer types -/
theorem fromPrim_spec {w n : Nat} (t : PrimT) {p : Nat} (hw : 1 ≤ w) (hn : 1 ≤ n)
    (hp : p < B t.ty.bits) : ConvOk true w n (fromPrim w n t p) (PInt.val t.ty p) := by
  unfold fromPrim
  by_cases hs : t.ty.signed = true
  · rw [if_pos hs]
    have : t.ty = ⟨t.ty.bits, true⟩ := by rw [← hs]
    rw [this]
    exact fromInt_spec hw hn t.bits_pos hp
  · rw [if_neg hs]
    have hv : PInt.val t.ty p = (p : Int) := by unfold PInt.val; rw [if_neg hs]
    rw [hv]
    exact fromUint_spec hw hn hp
end II

/-- C19 `fromPrim_spec`: `from_<prim>(v)` never panics, is `Some x` exactly when `v` is
    representable in the bnum type, `x` then denotes `v`; `None` otherwise — for every digit width,
    every digit count (in particular targets narrower than the source) and all twelve primitives -/
theorem fromPrim_spec {w n : Nat} (s : Bool) (t : PrimT) {p : Nat} (hw : 1 ≤ w) (hn : 1 ≤ n)
    (hp : p < B t.ty.bits) : ConvOk s w n (fromPrim w n s t p) (PInt.val t.ty p) := by
  unfold fromPrim
  cases s
  · exact UI.fromPrim_spec t hw hp
  · exact II.fromPrim_spec t hw hn hp

/-! ### floats -/

/-- `decode_f32` / `decode_f64` in terms of the fields of the pattern -/
theorem decodeFloat_eq {F : FloatFmt} (hF : F.Valid) {x : Nat} (hx : x < 2 ^ F.bits) :
    decodeFloat F x =
      (if expField F.spec x ≠ 0 then fracField F.spec x + 2 ^ (F.p - 1) else fracField F.spec x,
       (expField F.spec x : Int) - ((F.emax : Int) - 1 + (F.p : Int) - 1)) := by
  obtain ⟨_, hf, _, hraw⟩ := fields hF hx
  unfold intoRawParts at hraw
  simp only [Prod.mk.injEq] at hraw
  obtain ⟨_, hE, hfr⟩ := hraw
  unfold decodeFloat
  simp only [hE, hfr]
  by_cases h0 : expField F.spec x = 0
  · simp [h0]
  · have : (expField F.spec x != 0) = true := by simp [h0]
    simp only [this, if_true, ne_eq, h0, not_false_eq_true]
    rw [or_one_shiftLeft hf]

theorem isSignNegative_eq (F : FloatFmt) (x : Nat) : isSignNegative F x = signOf F.spec x := rfl

theorem finite_iff {F : FloatFmt} (hF : F.Valid) {x : Nat} (hx : x < 2 ^ F.bits) :
    isFinite F x = true ↔ (Spec.isNaN F.spec x = false ∧ Spec.isInf F.spec x = false) := by
  obtain ⟨h1, h2⟩ := nan_inf_iff hF hx
  rw [← h1, ← h2]
  unfold isFinite isNan isInfinite
  simp only [decide_eq_true_eq, decide_eq_false_iff_not]
  omega

/-- a finite pattern has an exponent field below the maximum -/
theorem finite_exp {F : FloatFmt} {x : Nat} (h1 : Spec.isNaN F.spec x = false)
    (h2 : Spec.isInf F.spec x = false) : expField F.spec x ≠ 2 * F.emax - 1 := by
  intro h
  unfold Spec.isNaN at h1
  unfold Spec.isInf at h2
  have : (expField F.spec x == 2 * F.spec.emax - 1) = true := by
    rw [h]; exact beq_self_eq_true _
  rw [this] at h1 h2
  simp at h1 h2
  exact h2 h1

theorem size_mul_pow {m e : Nat} (hm : m ≠ 0) : size (m * 2 ^ e) = size m + e := by
  have h1 := two_pow_size_le hm
  have h2 := lt_two_pow_size m
  have hs := size_pos hm
  have : size (m * 2 ^ e) = (size m - 1 + e) + 1 := by
    apply size_eq_of_bounds
    · rw [Nat.pow_add]; exact Nat.mul_le_mul_right _ h1
    · rw [show size m - 1 + e + 1 = size m + e by omega, Nat.pow_add]
      exact Nat.mul_lt_mul_of_pos_right h2 (Nat.pow_pos (by decide))
  omega

theorem M_eq_two_pow (w n : Nat) : M w n = 2 ^ (w * n) := rfl

/-- `Self::cast_from(mant)` of a mantissa that fits -/
theorem castMant {w n k v : Nat} (hn : 1 ≤ n) (hk : 1 ≤ k) (hv : v < B k) (hvM : v < M w n) :
    ∃ r, Bnum.UI.castFromPrim w n ⟨k, false⟩ v = .ok r ∧ WF w n r ∧ U w r = v := by
  obtain ⟨r, h1, h2, h3⟩ := Bnum.UI.castFromPrim_spec (w := w) (t := ⟨k, false⟩) hn hk hv
  refine ⟨r, h1, h2, ?_⟩
  rw [h3]
  unfold PInt.val
  simp only [Bool.false_eq_true, if_false]
  rw [wrapU_natCast, Nat.mod_eq_of_lt hvM]

namespace UI
/-- `from_float!` (BUint) on a finite, non-zero, positive float: `Some(⌊f⌋)` iff `⌊f⌋ < 2^BITS` -/
theorem fromFloat_pos {F : FloatFmt} (hF : F.Valid) {w n : Nat} (hn : 1 ≤ n) (hw : 1 ≤ w)
    (dbg : Bool) {x : Nat} (hx : x < 2 ^ F.bits)
    (hnan : Spec.isNaN F.spec x = false) (hinf : Spec.isInf F.spec x = false)
    (hnz : absBits F x ≠ 0) (hs : signOf F.spec x = false) :
    (truncOf F.spec x < M w n →
      ∃ r, fromFloat dbg F w n x = .ok (some r) ∧ WF w n r ∧ U w r = truncOf F.spec x) ∧
    (¬ truncOf F.spec x < M w n → fromFloat dbg F w n x = .ok none) := by
  obtain ⟨hE, hf, habs, _⟩ := fields hF hx
  obtain ⟨hem2, hem4, hem30⟩ := emax_facts hF
  have hp := hF.hp
  have hbits := hF.hbits
  have hfin : isFinite F x = true := (finite_iff hF hx).mpr ⟨hnan, hinf⟩
  have hz : isZeroF F x = false := by unfold isZeroF; simp [hnz]
  have hEne := finite_exp hnan hinf
  have hpb : (2 : Nat) ^ F.p ≤ 2 ^ F.bits := Nat.pow_le_pow_right (by decide) (by omega)
  have hpp : (2 : Nat) ^ F.p = 2 * 2 ^ (F.p - 1) := by
    rw [← Nat.pow_succ']; congr 1; omega
  unfold fromFloat
  simp only [hfin, hz, isSignNegative_eq, hs, Bool.not_true, Bool.false_eq_true, if_false,
    decodeFloat_eq hF hx]
  by_cases hE0 : expField F.spec x = 0
  · -- subnormal: the mantissa is shifted out
    have htr := truncOf_subnormal hF hx hE0
    simp only [hE0, ne_eq, not_true_eq_false, if_false]
    have hneg : ((0 : Nat) : Int) - ((F.emax : Int) - 1 + (F.p : Int) - 1) < 0 := by omega
    rw [if_pos hneg]
    have hsh : (primCheckedShr F.bits (fracField F.spec x)
        (-(((0 : Nat) : Int) - ((F.emax : Int) - 1 + (F.p : Int) - 1))).toNat).getD 0 = 0 := by
      unfold primCheckedShr
      split
      · simp only [Option.getD_some, Nat.shiftRight_eq_div_pow]
        apply Nat.div_eq_of_lt
        have : 2 ^ (F.p - 1) ≤ 2 ^ (-(((0 : Nat) : Int) - ((F.emax : Int) - 1 + (F.p : Int) - 1))).toNat :=
          Nat.pow_le_pow_right (by decide) (by omega)
        omega
      · rfl
    rw [hsh, htr]
    have h0 : ¬ mantBits 0 > w * n := by unfold mantBits bitsOf; simp
    rw [if_neg h0]
    obtain ⟨r, h1, h2, h3⟩ := castMant (w := w) (n := n) (k := F.bits) (v := 0) hn (by omega)
      (B_pos _) (M_pos w n)
    rw [h1]
    exact ⟨fun _ => ⟨r, rfl, h2, h3⟩, fun h => absurd (M_pos w n) h⟩
  · -- normal
    have htr := truncOf_normal (F := F) (x := x) hE0
    simp only [ne_eq, hE0, not_false_eq_true, if_true]
    set m := fracField F.spec x + 2 ^ (F.p - 1) with hm
    have hm1 : 2 ^ (F.p - 1) ≤ m := by omega
    have hm2 : m < 2 ^ F.p := by omega
    have hmB : m < B F.bits := by unfold B; omega
    have hsz : size m = F.p := by
      have := size_eq_of_bounds hm1 (by rw [show F.p - 1 + 1 = F.p by omega]; exact hm2); omega
    have hexp : (expField F.spec x : Int) - bias F - ((F.p : Int) - 1)
        = (expField F.spec x : Int) - ((F.emax : Int) - 1 + (F.p : Int) - 1) := by
      unfold bias; ring
    rw [hexp] at htr
    have hexb : (expField F.spec x : Int) - ((F.emax : Int) - 1 + (F.p : Int) - 1) < 2 ^ 31 := by omega
    generalize (expField F.spec x : Int) - ((F.emax : Int) - 1 + (F.p : Int) - 1) = ex at *
    rw [htr]
    by_cases hneg : ex < 0
    · rw [if_pos hneg]
      have htm : truncMag m ex = m / 2 ^ (-ex).toNat := by
        unfold truncMag; rw [if_neg (by omega)]
      have hsh : (primCheckedShr F.bits m (-ex).toNat).getD 0 = m / 2 ^ (-ex).toNat := by
        unfold primCheckedShr
        split
        · simp [Nat.shiftRight_eq_div_pow]
        · simp only [Option.getD_none]
          symm; apply Nat.div_eq_of_lt
          have : 2 ^ F.bits ≤ 2 ^ (-ex).toNat := Nat.pow_le_pow_right (by decide) (by omega)
          omega
      rw [hsh, htm]
      have hle : m / 2 ^ (-ex).toNat ≤ m := Nat.div_le_self _ _
      generalize m / 2 ^ (-ex).toNat = t at *
      by_cases hfit : t < M w n
      · have : ¬ mantBits t > w * n := by
          unfold mantBits; rw [bitsOf_eq_size]
          have := (size_le_iff (v := t) (k := w * n)).mpr hfit; omega
        rw [if_neg this]
        obtain ⟨r, h1, h2, h3⟩ := castMant (w := w) (n := n) (k := F.bits) (v := t) hn (by omega)
          (by omega) hfit
        rw [h1]
        exact ⟨fun _ => ⟨r, rfl, h2, h3⟩, fun h => absurd hfit h⟩
      · have : mantBits t > w * n := by
          unfold mantBits; rw [bitsOf_eq_size]
          have := (size_le_iff (v := t) (k := w * n)).not.mpr hfit; omega
        rw [if_pos this]
        exact ⟨fun h => absurd h hfit, fun _ => rfl⟩
    · rw [if_neg hneg]
      have htm : truncMag m ex = m * 2 ^ ex.toNat := by
        unfold truncMag; rw [if_pos (by omega)]
      rw [htm]
      have hmb : mantBits m = F.p := by unfold mantBits; rw [bitsOf_eq_size]; exact hsz
      have hsz2 : size (m * 2 ^ ex.toNat) = F.p + ex.toNat := by
        rw [size_mul_pow (by omega), hsz]
      rw [hmb]
      by_cases hfit : m * 2 ^ ex.toNat < M w n
      · have hle : F.p + ex.toNat ≤ w * n := by
          rw [← hsz2]; exact size_le_iff.mpr hfit
        rw [if_neg (by omega)]
        have hmM : m < M w n := by
          have : 0 < 2 ^ ex.toNat := Nat.pow_pos (by decide)
          exact Nat.lt_of_le_of_lt (Nat.le_mul_of_pos_right _ this) hfit
        obtain ⟨c, h1, h2, h3⟩ := castMant (w := w) (n := n) (k := F.bits) (v := m) hn (by omega)
          hmB hmM
        rw [h1, Outcome.bind_ok]
        have hsl : ex.toNat < w * c.length := by rw [h2.1]; omega
        have hshl : shlI16 dbg w c ex = .ok (Bnum.UI.uncheckedShlInternal w c ex.toNat) := by
          unfold shlI16
          cases dbg
          · simp only [Bool.false_eq_true, if_false]
            have : (ex % (2 ^ 32 : Int)).toNat = ex.toNat := by
              rw [Int.emod_eq_of_lt (by omega) (by omega)]
            rw [this]; exact Bnum.UI.shl_of_lt false hsl
          · simp only [if_true]; rw [if_neg hneg]; exact Bnum.UI.shl_of_lt true hsl
        rw [hshl]
        obtain ⟨g1, g2⟩ := Bnum.UI.uncheckedShlInternal_spec (s := ex.toNat) (by omega) h2 (by omega)
        refine ⟨fun _ => ⟨_, rfl, g1, ?_⟩, fun h => absurd hfit h⟩
        rw [g2, h3, Nat.mod_eq_of_lt hfit]
      · have hgt : ¬ (F.p + ex.toNat ≤ w * n) := by
          intro hle
          apply hfit
          rw [← hsz2] at hle
          exact size_le_iff.mp hle
        rw [if_pos (by omega)]
        exact ⟨fun h => absurd h hfit, fun _ => rfl⟩
end UI

theorem absBits_eq_zero_iff {F : FloatFmt} (hF : F.Valid) {x : Nat} (hx : x < 2 ^ F.bits) :
    absBits F x = 0 ↔ (expField F.spec x = 0 ∧ fracField F.spec x = 0) := by
  obtain ⟨_, _, habs, _⟩ := fields hF hx
  rw [habs]
  have : 0 < 2 ^ (F.p - 1) := Nat.pow_pos (by decide)
  constructor
  · intro h
    have h1 : expField F.spec x * 2 ^ (F.p - 1) = 0 := by omega
    rcases Nat.mul_eq_zero.mp h1 with h2 | h2
    · exact ⟨h2, by omega⟩
    · omega
  · rintro ⟨h1, h2⟩; rw [h1, h2]; simp

namespace UI
theorem fromFloat_nonfinite {F : FloatFmt} (hF : F.Valid) (w n : Nat) (dbg : Bool) {x : Nat}
    (hx : x < 2 ^ F.bits) (h : Spec.isNaN F.spec x = true ∨ Spec.isInf F.spec x = true) :
    fromFloat dbg F w n x = .ok none := by
  have : isFinite F x = false := by
    cases hfin : isFinite F x
    · rfl
    · obtain ⟨h1, h2⟩ := (finite_iff hF hx).mp hfin
      rcases h with h | h <;> simp_all
  unfold fromFloat; simp [this]

theorem fromFloat_zero {F : FloatFmt} (hF : F.Valid) (w n : Nat) (dbg : Bool) {x : Nat}
    (hx : x < 2 ^ F.bits) (h0 : absBits F x = 0) :
    fromFloat dbg F w n x = .ok (some (zero n)) ∧ truncOf F.spec x = 0 ∧
      Spec.isNaN F.spec x = false ∧ Spec.isInf F.spec x = false := by
  obtain ⟨hem2, hem4, hem30⟩ := emax_facts hF
  obtain ⟨hE0, hf0⟩ := (absBits_eq_zero_iff hF hx).mp h0
  have hnan : Spec.isNaN F.spec x = false := by
    unfold Spec.isNaN; rw [hf0]; simp
  have hinf : Spec.isInf F.spec x = false := by
    unfold Spec.isInf; rw [hE0]
    have : ((0 : Nat) == 2 * F.spec.emax - 1) = false := by
      simp [FloatFmt.spec]; omega
    rw [this]; rfl
  have hfin : isFinite F x = true := (finite_iff hF hx).mpr ⟨hnan, hinf⟩
  have hz : isZeroF F x = true := by unfold isZeroF; simp [h0]
  refine ⟨?_, truncOf_subnormal hF hx hE0, hnan, hinf⟩
  unfold fromFloat; simp [hfin, hz]

/-- finite float with clear sign bit -/
theorem fromFloat_nonneg {F : FloatFmt} (hF : F.Valid) {w n : Nat} (hn : 1 ≤ n) (hw : 1 ≤ w)
    (dbg : Bool) {x : Nat} (hx : x < 2 ^ F.bits)
    (hnan : Spec.isNaN F.spec x = false) (hinf : Spec.isInf F.spec x = false)
    (hs : signOf F.spec x = false) :
    (truncOf F.spec x < M w n →
      ∃ r, fromFloat dbg F w n x = .ok (some r) ∧ WF w n r ∧ U w r = truncOf F.spec x) ∧
    (¬ truncOf F.spec x < M w n → fromFloat dbg F w n x = .ok none) := by
  by_cases h0 : absBits F x = 0
  · obtain ⟨h1, h2, _⟩ := fromFloat_zero hF w n dbg hx h0
    rw [h1, h2]
    exact ⟨fun _ => ⟨_, rfl, WF_zero w n, U_zero w n⟩, fun h => absurd (M_pos w n) h⟩
  · exact fromFloat_pos hF hn hw dbg hx hnan hinf h0 hs

/-- finite non-zero float with set sign bit -/
theorem fromFloat_neg {F : FloatFmt} (hF : F.Valid) (w n : Nat) (dbg : Bool) {x : Nat}
    (hx : x < 2 ^ F.bits) (hnan : Spec.isNaN F.spec x = false) (hinf : Spec.isInf F.spec x = false)
    (hnz : absBits F x ≠ 0) (hs : signOf F.spec x = true) :
    fromFloat dbg F w n x = .ok none := by
  have hfin : isFinite F x = true := (finite_iff hF hx).mpr ⟨hnan, hinf⟩
  have hz : isZeroF F x = false := by unfold isZeroF; simp [hnz]
  unfold fromFloat; simp [hfin, hz, isSignNegative_eq, hs]
end UI

/-- the model outcome `o` agrees with the specification answer `ans` -/
def FloatOk (w n : Nat) (o : Outcome (Option (List Nat))) : Spec.NumC.FloatAns → Prop
  | .some pat => ∃ r, o = .ok (some r) ∧ WF w n r ∧ U w r = pat
  | .none => o = .ok none
  | .any => o ≠ .panic

theorem truncFloat_eq (F : Spec.Fmt) (x : Nat) :
    Spec.NumC.truncFloat F x = if signOf F x then -(truncOf F x : Int) else (truncOf F x : Int) := rfl

theorem floatNegative_eq {F : FloatFmt} (hF : F.Valid) {x : Nat} (hx : x < 2 ^ F.bits) :
    Spec.NumC.floatNegative F.spec x = (signOf F.spec x && decide (absBits F x ≠ 0)) := by
  unfold Spec.NumC.floatNegative
  congr 1
  have h := absBits_eq_zero_iff hF hx
  unfold decodeFinite
  by_cases hE : expField F.spec x = 0
  · simp only [hE, if_true]
    by_cases hf : fracField F.spec x = 0
    · have := h.mpr ⟨hE, hf⟩; simp [hf, this]
    · have : absBits F x ≠ 0 := fun hc => hf (h.mp hc).2
      simp [hf, this]
  · have : absBits F x ≠ 0 := fun hc => hE (h.mp hc).1
    have h2 : 0 < 2 ^ (F.spec.p - 1) := Nat.pow_pos (by decide)
    simp only [hE, if_false]
    simp [this]

namespace UI
/-- C19, `BUint::from_f32/from_f64` against the specification -/
theorem fromFloat_matches {F : FloatFmt} (hF : F.Valid) {w n : Nat} (hw : 1 ≤ w) (hn : 1 ≤ n)
    (dbg : Bool) {x : Nat} (hx : x < 2 ^ F.bits) :
    FloatOk w n (fromFloat dbg F w n x) (Spec.NumC.fromFloat F.spec false (M w n) x) := by
  unfold Spec.NumC.fromFloat
  by_cases hni : Spec.isNaN F.spec x = true ∨ Spec.isInf F.spec x = true
  · have : (Spec.isNaN F.spec x || Spec.isInf F.spec x) = true := by simpa using hni
    rw [if_pos this]
    exact fromFloat_nonfinite hF w n dbg hx hni
  · have hnan : Spec.isNaN F.spec x = false := by
      cases h : Spec.isNaN F.spec x <;> simp_all
    have hinf : Spec.isInf F.spec x = false := by
      cases h : Spec.isInf F.spec x <;> simp_all
    have : ¬ (Spec.isNaN F.spec x || Spec.isInf F.spec x) = true := by simp [hnan, hinf]
    rw [if_neg this]
    simp only [truncFloat_eq, floatNegative_eq hF hx, Spec.rep, Bool.false_eq_true, if_false,
      Bool.not_false, Bool.true_and]
    have hMp := M_pos w n
    rcases Bool.eq_false_or_eq_true (signOf F.spec x) with hs | hs
    swap
    · simp only [hs, Bool.false_eq_true, if_false, Bool.false_and]
      obtain ⟨h1, h2⟩ := fromFloat_nonneg hF hn hw dbg hx hnan hinf hs
      by_cases hfit : truncOf F.spec x < M w n
      · have : decide (repU (M w n) (truncOf F.spec x : Int)) = true := by
          simp [repU]; omega
        simp only [this, Bool.not_true, Bool.false_eq_true, if_false]
        obtain ⟨r, hr1, hr2, hr3⟩ := h1 hfit
        refine ⟨r, hr1, hr2, ?_⟩
        rw [hr3, wrapU_natCast, Nat.mod_eq_of_lt hfit]
      · have : decide (repU (M w n) (truncOf F.spec x : Int)) = false := by
          simp [repU]; omega
        simp only [this, Bool.not_false, if_true]
        exact h2 hfit
    · simp only [hs, if_true, Bool.true_and]
      by_cases h0 : absBits F x = 0
      · obtain ⟨g1, g2, _⟩ := fromFloat_zero hF w n dbg hx h0
        rw [g2]
        have : decide (repU (M w n) (-((0 : Nat) : Int))) = true := by simp [repU]; exact hMp
        simp only [this, Bool.not_true, Bool.false_eq_true, if_false, h0, ne_eq, not_true_eq_false,
          decide_false]
        refine ⟨_, g1, WF_zero w n, ?_⟩
        rw [U_zero]; simp [wrapU]
      · have hm := fromFloat_neg hF w n dbg hx hnan hinf h0 hs
        by_cases ht : truncOf F.spec x = 0
        · rw [ht]
          have : decide (repU (M w n) (-((0 : Nat) : Int))) = true := by simp [repU]; exact hMp
          simp only [this, Bool.not_true, Bool.false_eq_true, if_false, ne_eq, h0, not_false_eq_true,
            decide_true, if_true]
          rw [hm]; intro h; cases h
        · have : decide (repU (M w n) (-(truncOf F.spec x : Int))) = false := by
            simp [repU]; omega
          simp only [this, Bool.not_false, if_true]
          exact hm
end UI

/-- unary minus on a non-negative `BInt` below `2^(BITS-1)`: no overflow in either build mode -/
theorem negI_spec {w n : Nat} {a : List Nat} (hw : 2 ≤ w) (hn : 1 ≤ n) (dbg : Bool)
    (ha : WF w n a) (hlt : 2 * U w a < M w n) :
    ∃ r, negI dbg w a = .ok r ∧ WF w n r ∧ U w r = wrapU (M w n) (-(U w a : Int)) := by
  have hS : S w a = U w a := by rw [S_eq ha, toInt_of_lt hlt]
  obtain ⟨h1, h2, h3⟩ := II.overflowingNeg_spec hw hn ha
  have hrep : repS (M w n) (-(S w a)) := by rw [hS]; unfold repS; omega
  rw [wrapS_of_rep (M_pos w n) hrep] at h2
  have hflag : (II.overflowingNeg w a).2 = false := by rw [h3]; simp [hrep]
  have hU : U w (II.overflowingNeg w a).1 = wrapU (M w n) (-(U w a : Int)) := by
    rw [← hS, ← h2, S_eq h1, wrapU_toInt (U_lt h1)]
  refine ⟨(II.overflowingNeg w a).1, ?_, h1, hU⟩
  unfold negI II.strictNeg II.checkedNeg II.wrappingNeg tupleToOption
  cases dbg <;> simp [hflag, Outcome.expect]

namespace II
/-- C19, `BInt::from_f32/from_f64` against the specification -/
theorem fromFloat_matches {F : FloatFmt} (hF : F.Valid) {w n : Nat} (hw : 2 ≤ w) (hn : 1 ≤ n)
    (dbg : Bool) {x : Nat} (hx : x < 2 ^ F.bits) :
    FloatOk w n (fromFloat dbg F w n x) (Spec.NumC.fromFloat F.spec true (M w n) x) := by
  have hw1 : 1 ≤ w := by omega
  have hMp := M_pos w n
  have hMe := M_even hw1 hn
  unfold Spec.NumC.fromFloat fromFloat
  rw [isSignNegative_eq]
  simp only [truncFloat_eq, Spec.rep, if_true, Bool.not_true, Bool.false_and, Bool.false_eq_true,
    if_false]
  rcases Bool.eq_false_or_eq_true (signOf F.spec x) with hs | hs
  · -- sign bit set: go through `-f`
    obtain ⟨hy, hys, _, _⟩ := neg_fields hF hx hs
    obtain ⟨e1, e2, e3⟩ := neg_decoded hF hx hs
    simp only [hs, if_true]
    by_cases hni : Spec.isNaN F.spec x = true ∨ Spec.isInf F.spec x = true
    · have : (Spec.isNaN F.spec x || Spec.isInf F.spec x) = true := by simpa using hni
      rw [if_pos this, UI.fromFloat_nonfinite hF w n dbg hy (by rw [e1, e2]; exact hni)]
      rfl
    · have hnan : Spec.isNaN F.spec x = false := by
        cases h : Spec.isNaN F.spec x <;> [rfl; exact absurd (Or.inl h) hni]
      have hinf : Spec.isInf F.spec x = false := by
        cases h : Spec.isInf F.spec x <;> [rfl; exact absurd (Or.inr h) hni]
      have : ¬ (Spec.isNaN F.spec x || Spec.isInf F.spec x) = true := by rw [hnan, hinf]; decide
      rw [if_neg this]
      obtain ⟨h1, h2⟩ := UI.fromFloat_nonneg hF hn hw1 dbg hy (by rw [e1]; exact hnan)
        (by rw [e2]; exact hinf) hys
      rw [e3] at h1 h2
      generalize truncOf F.spec x = T at *
      by_cases hfit : T < M w n
      · obtain ⟨u, hu1, hu2, hu3⟩ := h1 hfit
        rw [hu1, Outcome.bind_ok]
        simp only
        have heq : II.eq (Bnum.II.fromBits u) (iMin w n) = decide (T = M w n / 2) := by
          have := bool_eq_decide (UI.eq_iff_U hu2 (WF_iMin hw1 hn))
          rw [U_iMin hw1 hn, hu3] at this; exact this
        have hng : isNegative w (Bnum.II.fromBits u) = decide (M w n ≤ 2 * T) := by
          have := bool_eq_decide (Shift.isNegative_iff_U hw1 hn hu2)
          rw [hu3] at this; exact this
        simp only [heq, hng]
        by_cases hmin : T = M w n / 2
        · have hr : decide (repS (M w n) (-(T : Int))) = true := decide_eq_true (by unfold repS; omega)
          simp only [hmin, decide_true, if_true] at hr ⊢
          simp only [hr, Bool.not_true, Bool.false_eq_true, if_false]
          refine ⟨_, rfl, WF_iMin hw1 hn, ?_⟩
          rw [U_iMin hw1 hn]
          symm; apply wrapU_eq_of (by omega) (k := -1); omega
        · simp only [hmin, decide_false, Bool.false_eq_true, if_false]
          by_cases hneg : M w n ≤ 2 * T
          · have hr : decide (repS (M w n) (-(T : Int))) = false := decide_eq_false (by unfold repS; omega)
            simp only [hneg, decide_true, if_true, hr, Bool.not_false]
            rfl
          · have hr : decide (repS (M w n) (-(T : Int))) = true := decide_eq_true (by unfold repS; omega)
            simp only [hneg, decide_false, Bool.false_eq_true, if_false, hr, Bool.not_true]
            obtain ⟨r, hr1, hr2, hr3⟩ := negI_spec hw hn dbg hu2 (by omega)
            rw [show Bnum.II.fromBits u = u from rfl, hr1]
            exact ⟨r, rfl, hr2, by rw [hr3, hu3]⟩
      · rw [h2 hfit, Outcome.bind_ok]
        have hr : decide (repS (M w n) (-(T : Int))) = false := decide_eq_false (by unfold repS; omega)
        simp only [hr, Bool.not_false, if_true]
        rfl
  · simp only [hs, Bool.false_eq_true, if_false]
    by_cases hni : Spec.isNaN F.spec x = true ∨ Spec.isInf F.spec x = true
    · have : (Spec.isNaN F.spec x || Spec.isInf F.spec x) = true := by simpa using hni
      rw [if_pos this, UI.fromFloat_nonfinite hF w n dbg hx hni]
      rfl
    · have hnan : Spec.isNaN F.spec x = false := by
        cases h : Spec.isNaN F.spec x <;> [rfl; exact absurd (Or.inl h) hni]
      have hinf : Spec.isInf F.spec x = false := by
        cases h : Spec.isInf F.spec x <;> [rfl; exact absurd (Or.inr h) hni]
      have : ¬ (Spec.isNaN F.spec x || Spec.isInf F.spec x) = true := by rw [hnan, hinf]; decide
      rw [if_neg this]
      obtain ⟨h1, h2⟩ := UI.fromFloat_nonneg hF hn hw1 dbg hx hnan hinf hs
      generalize truncOf F.spec x = T at *
      by_cases hfit : T < M w n
      · obtain ⟨u, hu1, hu2, hu3⟩ := h1 hfit
        rw [hu1, Outcome.bind_ok]
        simp only
        have hng : isNegative w (Bnum.II.fromBits u) = decide (M w n ≤ 2 * T) := by
          have := bool_eq_decide (Shift.isNegative_iff_U hw1 hn hu2)
          rw [hu3] at this; exact this
        simp only [hng]
        by_cases hneg : M w n ≤ 2 * T
        · have hr : decide (repS (M w n) (T : Int)) = false := decide_eq_false (by unfold repS; omega)
          simp only [hneg, decide_true, if_true, hr, Bool.not_false]
          rfl
        · have hr : decide (repS (M w n) (T : Int)) = true := decide_eq_true (by unfold repS; omega)
          simp only [hneg, decide_false, Bool.false_eq_true, if_false, hr, Bool.not_true]
          refine ⟨u, rfl, hu2, ?_⟩
          rw [hu3, wrapU_natCast, Nat.mod_eq_of_lt hfit]
      · rw [h2 hfit, Outcome.bind_ok]
        have hr : decide (repS (M w n) (T : Int)) = false := decide_eq_false (by unfold repS; omega)
        simp only [hr, Bool.not_false, if_true]
        rfl
end II

/-- C19 `fromFloat` against the specification, both signednesses -/
theorem fromFloat_matches {F : FloatFmt} (hF : F.Valid) {w n : Nat} (hw : 2 ≤ w) (hn : 1 ≤ n)
    (dbg : Bool) (s : Bool) {x : Nat} (hx : x < 2 ^ F.bits) :
    FloatOk w n (fromFloat dbg F w n s x) (Spec.NumC.fromFloat F.spec s (M w n) x) := by
  unfold fromFloat
  cases s
  · exact UI.fromFloat_matches hF (by omega) hn dbg hx
  · exact II.fromFloat_matches hF hw hn dbg hx

/-! ### `ToPrimitive` / `AsPrimitive` -/

/-- the `to_int!` / `to_uint!` bodies are those of the `TryFrom` impls of `convert.rs` -/
theorem UI.toPrim_eq (w : Nat) (x : List Nat) (t : PTy) : UI.toPrim w x t = Bnum.UI.tryToPrim w x t := rfl
theorem II.toPrim_eq (w : Nat) (x : List Nat) (t : PTy) : II.toPrim w x t = Bnum.II.tryToPrim w x t := rfl
theorem toPrim_eq (w : Nat) (s : Bool) (x : List Nat) (t : PTy) :
    toPrim w s x t = Bnum.tryToPrim w s x t := rfl

/-- C19 `toPrim_spec`: `to_<prim>` never panics and is `Some y` with the same value exactly when
    the value fits the primitive -/
theorem toPrim_spec {w n : Nat} {x : List Nat} (s : Bool) (t : PTy) (hw : 1 ≤ w) (hn : 1 ≤ n)
    (hk : 1 ≤ t.bits) (hdiv : t.bits < w ∨ ∃ c, t.bits = c * w) (hx : WF w n x) :
    ConvOkP t (toPrim w s x t) (valOf s w x) := by
  rw [toPrim_eq]; exact tryToPrim_spec s t hw hn hk hdiv hx

/-- `to_f32` / `to_f64`: always `Some` of the C14 cast -/
theorem toFloat_spec {F : FloatFmt} (hF : F.Valid) {w n : Nat} {x : List Nat} (s : Bool)
    (hw : 1 ≤ w) (hn : 1 ≤ n) (dbg : Bool) (hx : WF w n x) :
    toFloat dbg F w s x = .ok (some (Spec.intToFloat F.spec (valOf s w x))) := by
  have hu := U_lt hx
  unfold toFloat valOf
  cases s
  · simp only [Bool.false_eq_true, if_false]
    unfold UI.toFloat floatFromBUint
    rw [castFloatFromUint_spec hF]
    unfold intToFloat
    simp
  · simp only [if_true]
    unfold II.toFloat
    rw [hx.1, floatFromBInt_spec hF (Nat.mul_pos hw hn) dbg hu, S_eq hx]
    rfl

/-- `AsPrimitive<f32/f64>::as_` is the C14 cast -/
theorem asFloat_spec {F : FloatFmt} (hF : F.Valid) {w n : Nat} {x : List Nat} (s : Bool)
    (hw : 1 ≤ w) (hn : 1 ≤ n) (dbg : Bool) (hx : WF w n x) :
    asFloat dbg F w s x = .ok (Spec.intToFloat F.spec (valOf s w x)) := by
  have hu := U_lt hx
  unfold asFloat valOf
  cases s
  · simp only [Bool.false_eq_true, if_false]
    unfold floatFromBUint
    rw [castFloatFromUint_spec hF]
    unfold intToFloat
    simp
  · simp only [if_true]
    rw [hx.1, floatFromBInt_spec hF (Nat.mul_pos hw hn) dbg hu, S_eq hx]
    rfl

/-- `to_f32` / `to_f64` return `Some(self.as_())` -/
theorem toFloat_eq_as (dbg : Bool) (F : FloatFmt) (w : Nat) (s : Bool) (x : List Nat) :
    toFloat dbg F w s x = (asFloat dbg F w s x).map some := by
  unfold toFloat asFloat UI.toFloat II.toFloat floatFromBUint
  cases s <;> rfl

/-- `AsPrimitive<$int>::as_` IS the `As` cast (`CastFrom`) -/
theorem asPrim_eq_cast (w : Nat) (s : Bool) (x : List Nat) (t : PTy) :
    asPrim w s x t = castToPrim w s x t := rfl

/-- … and therefore the value modulo `2^K` -/
theorem asPrim_spec {w n : Nat} {x : List Nat} (s : Bool) (hw : 1 ≤ w) (hn : 1 ≤ n)
    (hx : WF w n x) (t : PTy) : asPrim w s x t = .ok (wrapU (B t.bits) (valOf s w x)) :=
  castToPrim_spec s hw hn hx t

/-! ### the answers the driver prints: model = spec -/

theorem U_eq_wrapU_valOf {w n : Nat} {r : List Nat} (s : Bool) (hr : WF w n r) :
    U w r = wrapU (M w n) (valOf s w r) := by
  unfold valOf
  cases s
  · simp only [Bool.false_eq_true, if_false]
    rw [wrapU_natCast, Nat.mod_eq_of_lt (U_lt hr)]
  · simp only [if_true]
    rw [S_eq hr, wrapU_toInt (U_lt hr)]

theorem val_eq_wrapU {t : PTy} {q : Nat} (hq : q < B t.bits) : q = wrapU (B t.bits) (PInt.val t q) := by
  unfold PInt.val
  split
  · rw [wrapU_toInt hq]
  · rw [wrapU_natCast, Nat.mod_eq_of_lt hq]

theorem rep_eq_decide (s : Bool) (m : Nat) (z : Int) : Spec.rep s m z = decide (repOf s m z) := by
  unfold Spec.rep repOf; cases s <;> simp

theorem conv_src (t : PTy) (p : Nat) :
    (if t.signed then toInt (2 ^ t.bits) p else (p : Int)) = PInt.val t p := rfl

/-- `from_<prim>`: the printed model answer is the specification's answer -/
theorem fromPrim_matches {w n : Nat} (s : Bool) (t : PrimT) {p : Nat} (hw : 1 ≤ w) (hn : 1 ≤ n)
    (hp : p < B t.ty.bits) :
    (fromPrim w n s t p).map (Option.map (U w))
      = .ok (Spec.NumC.conv t.ty.signed (2 ^ t.ty.bits) p s (M w n)) := by
  unfold Spec.NumC.conv
  simp only [conv_src, rep_eq_decide]
  rcases fromPrim_spec s t hw hn hp with ⟨h1, r, h2, h3, h4⟩ | ⟨h1, h2⟩
  · rw [h2, if_pos (decide_eq_true h1), ← h4, ← U_eq_wrapU_valOf s h3]; rfl
  · rw [h2, if_neg (by simpa using h1)]; rfl

/-- `to_<prim>`: the printed model answer is the specification's answer -/
theorem toPrim_matches {w n : Nat} {x : List Nat} (s : Bool) (t : PTy) (hw : 1 ≤ w) (hn : 1 ≤ n)
    (hk : 1 ≤ t.bits) (hdiv : t.bits < w ∨ ∃ c, t.bits = c * w) (hx : WF w n x) :
    toPrim w s x t = .ok (Spec.NumC.conv s (M w n) (U w x) t.signed (2 ^ t.bits)) := by
  unfold Spec.NumC.conv
  have hv : (if s then toInt (M w n) (U w x) else (U w x : Int)) = valOf s w x := by
    unfold valOf; cases s
    · rfl
    · simp only [if_true]; rw [S_eq hx]
  simp only [hv, rep_eq_decide]
  change _ = Outcome.ok (if decide (repOf t.signed (B t.bits) (valOf s w x)) = true then
    some (wrapU (B t.bits) (valOf s w x)) else none)
  rcases toPrim_spec s t hw hn hk hdiv hx with ⟨h1, q, h2, h3, h4⟩ | ⟨h1, h2⟩
  · rw [h2, if_pos (decide_eq_true h1), ← h4, ← val_eq_wrapU h3]
  · rw [h2, if_neg (by simpa using h1)]

end NumC
end Bnum
