/-
  Bnum.Lemmas.C19Extra — lemmas about the `AsPrimitive` impl families (b), (c), (d) of
  `src/int/numtraits.rs` (Model/C19Extra.lean).  Each `as_` body is one delegation to a `CastFrom`
  impl, so each lemma is the C09 / C14 lemma about that impl, restated for the `as_` entry point,
  plus the form the driver prints (`… = Spec.cast …` / `Spec.floatToInt …`).
-/
import Bnum.Model.C19Extra
import Bnum.Lemmas.NumConvD
namespace Bnum
namespace NumC

/-- the specification's reading of a primitive pattern is `PInt.val` -/
theorem valueOf_prim (t : PTy) (p : Nat) : Spec.valueOf t.signed (2 ^ t.bits) p = PInt.val t p := rfl

/-- the specification's reading of a digit list's pattern is `valOf` -/
theorem valueOf_digits {w n : Nat} {x : List Nat} (s : Bool) (hx : WF w n x) :
    Spec.valueOf s (M w n) (U w x) = valOf s w x := by
  unfold Spec.valueOf valOf
  cases s
  · rfl
  · simp only [if_true]; rw [S_eq hx]

/-- a cast outcome, printed -/
theorem CastOk.printed {w n : Nat} {o : Outcome (List Nat)} {z : Int} (h : CastOk w n o z) :
    o.map (U w) = .ok (wrapU (M w n) z) := by
  obtain ⟨r, rfl, _, hu⟩ := h
  show Outcome.ok (U w r) = _
  rw [hu]

/-! ### (b) primitive / char / bool / float → bnum -/

theorem asFromPrim_spec {w n : Nat} {t : PTy} {p : Nat} (s : Bool) (hn : 1 ≤ n) (hk : 1 ≤ t.bits)
    (hp : p < B t.bits) : CastOk w n (asFromPrim w n s t p) (PInt.val t p) :=
  castFromPrim_spec s hn hk hp

theorem asFromPrim_matches {w n : Nat} {t : PTy} {p : Nat} (s : Bool) (hn : 1 ≤ n)
    (hk : 1 ≤ t.bits) (hp : p < B t.bits) :
    (asFromPrim w n s t p).map (U w) = .ok (Spec.cast t.signed (2 ^ t.bits) p (M w n)) := by
  rw [CastOk.printed (asFromPrim_spec s hn hk hp)]; rfl

theorem asFromChar_spec {w n c : Nat} (s : Bool) (hn : 1 ≤ n) (hc : c < B 32) :
    CastOk w n (asFromChar w n s c) (c : Int) := by
  unfold asFromChar
  cases s
  · exact UI.castFromChar_spec hn hc
  · exact (UI.castFromChar_spec hn hc).map_id

theorem asFromChar_matches {w n c : Nat} (s : Bool) (hn : 1 ≤ n) (hc : c < B 32) :
    (asFromChar w n s c).map (U w) = .ok (Spec.cast false (2 ^ 32) c (M w n)) := by
  rw [CastOk.printed (asFromChar_spec s hn hc)]; rfl

theorem asFromBool_spec {w n : Nat} (s : Bool) (hw : 1 ≤ w) (hn : 1 ≤ n) (b : Bool) :
    WF w n (asFromBool n s b) ∧ U w (asFromBool n s b) = b.toNat := by
  unfold asFromBool
  cases s
  · exact UI.castFromBool_spec hw hn b
  · exact UI.castFromBool_spec hw hn b

theorem asFromBool_matches {w n : Nat} (s : Bool) (hw : 1 ≤ w) (hn : 1 ≤ n) (b : Bool) :
    U w (asFromBool n s b) = Spec.cast false 2 b.toNat (M w n) := by
  rw [(asFromBool_spec s hw hn b).2]
  have hM : 2 ≤ M w n := by
    have h1 : 1 ≤ w * n := Nat.mul_pos hw hn
    calc 2 = 2 ^ 1 := rfl
      _ ≤ 2 ^ (w * n) := Nat.pow_le_pow_right (by decide) h1
  have hb : b.toNat < M w n := by cases b <;> simp <;> omega
  unfold Spec.cast Spec.valueOf
  simp only [Bool.false_eq_true, if_false]
  rw [wrapU_natCast, Nat.mod_eq_of_lt hb]

/-- float → bnum: no panic in either build mode, well-formed digits, and the pattern is C14's
    `floatToInt` (NaN ↦ 0, ±∞ and out-of-range ↦ saturation, else truncation toward zero) -/
theorem asFromFloat_spec {F : FloatFmt} (hF : F.Valid) (dbg : Bool) {w n : Nat} (hw : 2 ≤ w)
    (hn : 1 ≤ n) (s : Bool) {x : Nat} (hx : x < 2 ^ F.bits) :
    ∃ r, asFromFloat dbg F w n s x = .ok r ∧ WF w n r ∧
      U w r = Spec.floatToInt F.spec s (M w n) x := by
  unfold asFromFloat
  cases s
  · obtain ⟨r, h1, h2, h3⟩ := FltD.buintFromFloat_refines hF dbg (by omega : 0 < w) hn hx
    exact ⟨r, h1, h2, by rw [h3, Flt.buintFromFloat_spec hF _ hx]; rfl⟩
  · obtain ⟨r, h1, h2, h3⟩ := FltD.bintFromFloat_refines hF dbg hw hn hx
    have hW : 1 ≤ w * n := Nat.mul_pos (by omega) hn
    exact ⟨r, h1, h2, by rw [h3, Flt.bintFromFloat_spec hF hW hx]; rfl⟩

theorem asFromFloat_matches {F : FloatFmt} (hF : F.Valid) (dbg : Bool) {w n : Nat} (hw : 2 ≤ w)
    (hn : 1 ≤ n) (s : Bool) {x : Nat} (hx : x < 2 ^ F.bits) :
    (asFromFloat dbg F w n s x).map (U w) = .ok (Spec.floatToInt F.spec s (M w n) x) := by
  obtain ⟨r, h1, _, h3⟩ := asFromFloat_spec hF dbg hw hn s hx
  rw [h1, ← h3]; rfl

/-! ### (c), (d) bnum → bnum of the same digit type -/

theorem asBig_spec {w n : Nat} {x : List Nat} (s₁ s₂ : Bool) {m : Nat} (hw : 1 ≤ w) (hn : 1 ≤ n)
    (hm : 1 ≤ m) (hx : WF w n x) : CastOk w m (asBig w s₁ x m s₂) (valOf s₁ w x) :=
  castBnum_spec s₁ s₂ hw hw hn hm (Or.inl (Nat.dvd_refl w)) hx

theorem asBig_matches {w n : Nat} {x : List Nat} (s₁ s₂ : Bool) {m : Nat} (hw : 1 ≤ w)
    (hn : 1 ≤ n) (hm : 1 ≤ m) (hx : WF w n x) :
    (asBig w s₁ x m s₂).map (U w) = .ok (Spec.cast s₁ (M w n) (U w x) (M w m)) := by
  rw [CastOk.printed (asBig_spec s₁ s₂ hw hn hm hx)]
  unfold Spec.cast
  rw [valueOf_digits s₁ hx]

end NumC
end Bnum
