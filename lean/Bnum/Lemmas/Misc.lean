/-
  Bnum.Lemmas.Misc — `midpoint` and `abs_diff` (Model/Misc.lean), for C01.
  Helper lemmas are prefixed `Misc.`.
-/
import Bnum.Model.Misc
import Bnum.Lemmas.Shift
import Bnum.Lemmas.Bits
import Bnum.Lemmas.Cmp

namespace Bnum

/-! ### Hacker's Delight 2-5: `a + b = 2 (a & b) + (a ^ b)` -/

theorem Misc.bit_add : ∀ x < 2, ∀ y < 2, x + y = 2 * (x &&& y) + (x ^^^ y) := by decide

theorem Misc.add_eq_and_xor (a b : Nat) : a + b = 2 * (a &&& b) + (a ^^^ b) := by
  induction a using Nat.strong_induction_on generalizing b with
  | _ a ih =>
    by_cases h0 : a = 0
    · subst h0; simp
    · have ha : a = 2 ^ 1 * (a / 2) + a % 2 := by omega
      have hb : b = 2 ^ 1 * (b / 2) + b % 2 := by omega
      have hx : a % 2 < 2 ^ 1 := by omega
      have hy : b % 2 < 2 ^ 1 := by omega
      have e1 := Bits.and_two_pow_mul_add (u := a / 2) (v := b / 2) hx hy
      have e2 := Bits.xor_two_pow_mul_add (u := a / 2) (v := b / 2) hx hy
      rw [← ha, ← hb] at e1 e2
      have i1 := ih (a / 2) (by omega) (b / 2)
      have i2 := Misc.bit_add (a % 2) (by omega) (b % 2) (by omega)
      rw [e1, e2]
      omega

/-- the same identity for the two's-complement readings of `W`-bit patterns -/
theorem Misc.toInt_and_xor {W ua ub : Nat} (hW : 1 ≤ W) (ha : ua < 2 ^ W) (hb : ub < 2 ^ W) :
    toInt (2 ^ W) ua + toInt (2 ^ W) ub
      = 2 * toInt (2 ^ W) (ua &&& ub) + toInt (2 ^ W) (ua ^^^ ub) := by
  obtain ⟨k, rfl⟩ : ∃ k, W = k + 1 := ⟨W - 1, by omega⟩
  have hP : 0 < 2 ^ k := Nat.pow_pos (by decide)
  have hM : 2 ^ (k + 1) = 2 * 2 ^ k := by rw [Nat.pow_succ]; omega
  have hra : ua % 2 ^ k < 2 ^ k := Nat.mod_lt _ hP
  have hrb : ub % 2 ^ k < 2 ^ k := Nat.mod_lt _ hP
  have ea : ua = 2 ^ k * (ua / 2 ^ k) + ua % 2 ^ k := (Nat.div_add_mod ua (2 ^ k)).symm
  have eb : ub = 2 ^ k * (ub / 2 ^ k) + ub % 2 ^ k := (Nat.div_add_mod ub (2 ^ k)).symm
  have hta : ua / 2 ^ k < 2 := by
    rw [Nat.div_lt_iff_lt_mul hP]; omega
  have htb : ub / 2 ^ k < 2 := by
    rw [Nat.div_lt_iff_lt_mul hP]; omega
  have e1 := Bits.and_two_pow_mul_add (u := ua / 2 ^ k) (v := ub / 2 ^ k) hra hrb
  have e2 := Bits.xor_two_pow_mul_add (u := ua / 2 ^ k) (v := ub / 2 ^ k) hra hrb
  rw [← ea, ← eb] at e1 e2
  have hrd : ua % 2 ^ k &&& ub % 2 ^ k < 2 ^ k := Nat.and_lt_two_pow _ hrb
  have hrx : ua % 2 ^ k ^^^ ub % 2 ^ k < 2 ^ k := Nat.xor_lt_two_pow hra hrb
  have hr := Misc.add_eq_and_xor (ua % 2 ^ k) (ub % 2 ^ k)
  rw [e1, e2, hM]
  generalize ua % 2 ^ k &&& ub % 2 ^ k = rd at *
  generalize ua % 2 ^ k ^^^ ub % 2 ^ k = rx at *
  generalize ua % 2 ^ k = ra at *
  generalize ub % 2 ^ k = rb at *
  generalize ua / 2 ^ k = ta at *
  generalize ub / 2 ^ k = tb at *
  generalize 2 ^ k = P at *
  subst ea eb
  have hta' : ta = 0 ∨ ta = 1 := by omega
  have htb' : tb = 0 ∨ tb = 1 := by omega
  rcases hta' with rfl | rfl <;> rcases htb' with rfl | rfl <;>
    simp only [Nat.and_self, Nat.xor_self, Nat.zero_and, Nat.and_zero, Nat.zero_xor, Nat.xor_zero,
      Nat.mul_zero, Nat.mul_one, Nat.zero_add] <;>
    unfold toInt <;> split_ifs <;> omega

/-! ### the unsuffixed `add` never panics when the exact sum is representable -/

theorem UI.add_of_rep {w n : Nat} {a b : List Nat} (dbg : Bool) (ha : WF w n a) (hb : WF w n b)
    (hr : repU (M w n) ((U w a : Int) + U w b)) :
    ∃ r, UI.add dbg w a b = .ok r ∧ WF w n r ∧ (U w r : Int) = (U w a : Int) + U w b := by
  have h := UI.overflowingAdd_spec ha hb
  cases dbg
  · refine ⟨UI.wrappingAdd w a b, by simp [UI.add], h.1, ?_⟩
    unfold UI.wrappingAdd; rw [h.2.1, wrapU_of_rep hr]
  · cases hres : UI.checkedAdd w a b with
    | none => exact absurd hr (h.checked.1.1 hres)
    | some r =>
      obtain ⟨h1, h2⟩ := h.checked.2 r hres
      exact ⟨r, by simp [UI.add, UI.strictAdd, hres, Outcome.expect], h1, h2⟩

theorem II.add_of_rep {w n : Nat} {a b : List Nat} (dbg : Bool) (hw : 2 ≤ w) (hn : 1 ≤ n)
    (ha : WF w n a) (hb : WF w n b) (hr : repS (M w n) (S w a + S w b)) :
    ∃ r, II.add dbg w a b = .ok r ∧ WF w n r ∧ S w r = S w a + S w b := by
  cases dbg
  · obtain ⟨h1, h2⟩ := II.wrappingAdd_spec ha hb
    exact ⟨II.wrappingAdd w a b, by simp [II.add], h1, by rw [h2, wrapS_of_rep (M_pos w n) hr]⟩
  · have h := II.overflowingAdd_spec hw hn ha hb
    cases hres : II.checkedAdd w a b with
    | none => exact absurd hr (h.checked.1.1 hres)
    | some r =>
      obtain ⟨h1, h2⟩ := h.checked.2 r hres
      exact ⟨r, by simp [II.add, II.strictAdd, hres, Outcome.expect], h1, h2⟩

/-! ### midpoint -/

theorem Misc.one_lt_bits {w n : Nat} (hw : 2 ≤ w) (hn : 1 ≤ n) : 1 < w * n := by
  have : 2 * 1 ≤ w * n := Nat.mul_le_mul hw hn
  omega

/-- `BUint::midpoint` never panics (debug or release) and is `floor((a + b) / 2)` -/
theorem UI.midpoint_spec {w n : Nat} {a b : List Nat} (dbg : Bool) (hw : 2 ≤ w) (hn : 1 ≤ n)
    (ha : WF w n a) (hb : WF w n b) :
    ∃ r, UI.midpoint dbg w a b = .ok r ∧ WF w n r ∧ U w r = (U w a + U w b) / 2 := by
  obtain ⟨hx, hxu⟩ := Bits.bitxor_spec n a b ha hb
  obtain ⟨hd, hdu⟩ := Bits.bitand_spec n a b ha hb
  have hs : 1 < w * (UI.bitxor a b).length := by rw [hx.1]; exact Misc.one_lt_bits hw hn
  obtain ⟨hh, hhu⟩ := UI.uncheckedShrInternal_spec (s := 1) (by omega) hx
    (Misc.one_lt_bits hw hn)
  have hid := Misc.add_eq_and_xor (U w a) (U w b)
  have hua := U_lt ha; have hub := U_lt hb
  rw [hxu, Nat.pow_one] at hhu
  obtain ⟨r, h1, h2, h3⟩ := UI.add_of_rep dbg hd hh (by unfold repU; rw [hdu, hhu]; omega)
  refine ⟨r, ?_, h2, ?_⟩
  · unfold UI.midpoint; rw [UI.shr_of_lt dbg hs]; exact h1
  · rw [hdu, hhu] at h3; omega

theorem Misc.tdiv_two (z : Int) : Int.tdiv z 2 = if 0 ≤ z then z / 2 else -((-z) / 2) := by
  split
  · rename_i h; exact Int.tdiv_eq_ediv_of_nonneg h
  · rename_i h
    have : z = -(-z) := by omega
    rw [this, Int.neg_tdiv, Int.tdiv_eq_ediv_of_nonneg (by omega)]; simp

theorem Misc.headD_and_one {w n : Nat} {x : List Nat} (hw : 1 ≤ w) (hn : 1 ≤ n) (hx : WF w n x) :
    (x.headD 0 &&& 1 == 1) = decide (U w x % 2 = 1) := by
  obtain ⟨k, rfl⟩ : ∃ k, n = k + 1 := ⟨n - 1, by omega⟩
  match x, hx with
  | d :: ds, hx =>
    have hB := B_even hw
    apply bool_eq_decide
    rw [beq_iff_eq, List.headD_cons, U_cons, Nat.and_one_is_mod]
    generalize B w / 2 = h at hB
    rw [hB, Nat.mul_assoc]
    generalize h * U w ds = q
    omega
  | [], hx => exact absurd hx.1 (by simp)

/-- `BInt::midpoint` never panics (debug or release) and is `(a + b) / 2` rounded toward zero -/
theorem II.midpoint_spec {w n : Nat} {a b : List Nat} (dbg : Bool) (hw : 2 ≤ w) (hn : 1 ≤ n)
    (ha : WF w n a) (hb : WF w n b) :
    ∃ r, II.midpoint dbg w a b = .ok r ∧ WF w n r ∧ S w r = Int.tdiv (S w a + S w b) 2 := by
  have hw1 : 1 ≤ w := by omega
  obtain ⟨hx, hxu⟩ := Bits.bitxor_spec n a b ha hb
  obtain ⟨hd, hdu⟩ := Bits.bitand_spec n a b ha hb
  have hs : 1 < w * (II.bitxor a b).length := by
    unfold II.bitxor; rw [hx.1]; exact Misc.one_lt_bits hw hn
  obtain ⟨hh, hhs⟩ := II.shrVal_spec (s := 1) hw1 hn hx (Misc.one_lt_bits hw hn)
  -- the signed Hacker's Delight identity
  have hid : S w a + S w b = 2 * S w (UI.bitand a b) + S w (UI.bitxor a b) := by
    rw [S_eq ha, S_eq hb, S_eq hd, S_eq hx, hdu, hxu]
    have hW : 1 ≤ w * n := by have := Misc.one_lt_bits hw hn; omega
    exact Misc.toInt_and_xor hW (U_lt ha) (U_lt hb)
  have hra := S_repS hw1 hn ha; have hrb := S_repS hw1 hn hb
  have hrd := S_repS hw1 hn hd; have hrx := S_repS hw1 hn hx
  have hm := M_even hw1 hn
  rw [pow_one] at hhs
  -- t = and + (xor >> 1) = floor((a + b) / 2)
  obtain ⟨t, ht1, ht2, ht3⟩ := II.add_of_rep dbg hw hn hd hh
    (by rw [hhs]; unfold repS at *; omega)
  rw [hhs] at ht3
  have hpar := Misc.headD_and_one hw1 hn hx
  have hneg := isNegative_eq_decide hw1 hn ht2
  have hxpar : U w (UI.bitxor a b) % 2 = 1 ↔ (S w a + S w b) % 2 = 1 := by
    rcases S_cases hx with ⟨_, h⟩ | ⟨_, h⟩ <;> omega
  have hunf : II.midpoint dbg w a b =
      if isNegative w t && ((UI.bitxor a b).headD 0 &&& 1 == 1) then II.add dbg w t (one a.length)
      else .ok t := by
    unfold II.midpoint
    simp only [II.shr_of_lt dbg hs]
    unfold II.bitand II.bitxor at *
    simp only [ht1]
  rw [hunf, hneg, hpar, ha.1, Misc.tdiv_two]
  by_cases hc : S w t < 0 ∧ U w (UI.bitxor a b) % 2 = 1
  · have hodd := hxpar.1 hc.2
    simp only [hc.1, hc.2, decide_true, Bool.and_self, if_true]
    obtain ⟨r, hr1, hr2, hr3⟩ := II.add_of_rep dbg hw hn ht2 (WF_one hw1 hn)
      (by rw [S_one hw hn]; have := S_repS hw1 hn ht2; unfold repS at *; omega)
    refine ⟨r, hr1, hr2, ?_⟩
    rw [hr3, S_one hw hn, ht3]
    split_ifs <;> omega
  · have hcond : (decide (S w t < 0) && decide (U w (UI.bitxor a b) % 2 = 1)) = false := by
      rw [← Bool.not_eq_true, Bool.and_eq_true, decide_eq_true_iff, decide_eq_true_iff]; exact hc
    rw [hcond]
    simp only [Bool.false_eq_true, if_false]
    refine ⟨t, rfl, ht2, ?_⟩
    rw [ht3]
    have : ¬ (S w t < 0 ∧ (S w a + S w b) % 2 = 1) := fun h => hc ⟨h.1, hxpar.2 h.2⟩
    rw [ht3] at this
    split_ifs <;> omega

/-! ### abs_diff -/

theorem Misc.lt_iff_cmp (cmp : List Nat → List Nat → Ordering) (a b : List Nat) :
    CmpImpl.lt cmp a b = true ↔ cmp a b = .lt := by
  unfold CmpImpl.lt; cases cmp a b <;> simp

/-- `BUint::abs_diff` = `|a - b|` -/
theorem UI.absDiff_spec {w n : Nat} {a b : List Nat} (ha : WF w n a) (hb : WF w n b) :
    WF w n (UI.absDiff w a b) ∧ U w (UI.absDiff w a b) = ((U w a : Int) - U w b).natAbs := by
  unfold UI.absDiff
  have hlt : CmpImpl.lt UI.cmp a b = true ↔ U w a < U w b := by
    rw [Misc.lt_iff_cmp, UI.cmp_spec ha hb, compare_lt_iff_lt]
  have hua := U_lt ha; have hub := U_lt hb
  by_cases h : CmpImpl.lt UI.cmp a b = true
  · rw [if_pos h]
    have h' := hlt.1 h
    obtain ⟨h1, h2, _⟩ := UI.overflowingSub_spec hb ha
    refine ⟨h1, ?_⟩
    unfold UI.wrappingSub
    have := wrapU_of_rep (m := M w n) (z := (U w b : Int) - U w a) ⟨by omega, by omega⟩
    omega
  · rw [if_neg h]
    have h' : ¬ U w a < U w b := fun hh => h (hlt.2 hh)
    obtain ⟨h1, h2, _⟩ := UI.overflowingSub_spec ha hb
    refine ⟨h1, ?_⟩
    unfold UI.wrappingSub
    have := wrapU_of_rep (m := M w n) (z := (U w a : Int) - U w b) ⟨by omega, by omega⟩
    omega

/-- `BInt::abs_diff`: the result, read as unsigned, is `|a - b|` -/
theorem II.absDiff_spec {w n : Nat} {a b : List Nat} (hw : 1 ≤ w) (hn : 1 ≤ n)
    (ha : WF w n a) (hb : WF w n b) :
    WF w n (II.absDiff w a b) ∧ U w (II.absDiff w a b) = (S w a - S w b).natAbs := by
  unfold II.absDiff
  have hlt : CmpImpl.lt (II.cmp w) a b = true ↔ S w a < S w b := by
    rw [Misc.lt_iff_cmp, II.cmp_spec hw hn ha hb, compare_lt_iff_lt]
  have hra := S_repS hw hn ha; have hrb := S_repS hw hn hb
  obtain ⟨ka, hka⟩ := S_spec ha; obtain ⟨kb, hkb⟩ := S_spec hb
  unfold repS at hra hrb
  by_cases h : CmpImpl.lt (II.cmp w) a b = true
  · rw [if_pos h]
    have h' := hlt.1 h
    obtain ⟨h1, h2, _⟩ := UI.overflowingSub_spec hb ha
    refine ⟨h1, ?_⟩
    unfold II.wrappingSub UI.wrappingSub
    have e : (U w b : Int) - U w a = (S w b - S w a) + (ka - kb) * M w n := by
      rw [hka, hkb]; ring
    rw [e, wrapU_add_mul] at h2
    have := wrapU_of_rep (m := M w n) (z := S w b - S w a) ⟨by omega, by omega⟩
    omega
  · rw [if_neg h]
    have h' : ¬ S w a < S w b := fun hh => h (hlt.2 hh)
    obtain ⟨h1, h2, _⟩ := UI.overflowingSub_spec ha hb
    refine ⟨h1, ?_⟩
    unfold II.wrappingSub UI.wrappingSub
    have e : (U w a : Int) - U w b = (S w a - S w b) + (kb - ka) * M w n := by
      rw [hka, hkb]; ring
    rw [e, wrapU_add_mul] at h2
    have := wrapU_of_rep (m := M w n) (z := S w a - S w b) ⟨by omega, by omega⟩
    omega

end Bnum
