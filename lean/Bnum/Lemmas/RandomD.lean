/-
  Bnum.Lemmas.RandomD — REFINEMENT: the digit-level model of the uniform sampler
  (`Model/RandomD.lean`, which calls the digit-level `wrapping_sub`, `Sub`, `Add<Digit>`, `Rem`
  (Knuth D), `Shl`, `leading_zeros`, `bits`, `widening_mul`, `cmp` …) returns on well-formed operands
  exactly what the value-level model (`Model/Random.lean`) returns on their values: same panics,
  same exhaustion, same remaining stream, well-formed result with the same pattern.
  Part 1: each primitive against its value-level counterpart.  Part 2: the sampler functions.
-/
import Bnum.Model.RandomD
import Bnum.Lemmas.Random
import Bnum.Lemmas.KnuthD
import Bnum.Lemmas.Mul
import Bnum.Lemmas.Shift
import Bnum.Lemmas.Bits
import Bnum.Lemmas.Ops
namespace Bnum.RandD
open Bnum
open Bnum.Rand (Stream StreamOK)

/-- a digit-level outcome refines a value-level one: same panic, well-formed result, same value -/
def RefV (w n : Nat) : Outcome (List Nat) → Outcome Nat → Prop
  | .ok r, .ok x => WF w n r ∧ U w r = x
  | .panic, .panic => True
  | _, _ => False

theorem RefV.ok {w n : Nat} {r : List Nat} {x : Nat} (h1 : WF w n r) (h2 : U w r = x) :
    RefV w n (.ok r) (.ok x) := ⟨h1, h2⟩

/-- composing refinements through `bind` -/
theorem RefV.bind {w n : Nat} {o : Outcome (List Nat)} {v : Outcome Nat}
    {f : List Nat → Outcome (List Nat)} {g : Nat → Outcome Nat} (h : RefV w n o v)
    (hfg : ∀ r, WF w n r → RefV w n (f r) (g (U w r))) : RefV w n (o.bind f) (v.bind g) := by
  match o, v, h with
  | .ok r, .ok x, ⟨h1, h2⟩ => subst h2; exact hfg r h1
  | .panic, .panic, _ => trivial

theorem wrapU_sub_nat {m a b : Nat} (hb : b ≤ m) :
    wrapU m ((a : Int) - b) = (a + m - b) % m := by
  rw [← wrapU_add_mul _ 1, ← wrapU_natCast]
  congr 1; push_cast [show b ≤ a + m by omega]; ring

theorem wrappingSub_ref {w n : Nat} {a b : List Nat} (ha : WF w n a) (hb : WF w n b) :
    WF w n (UI.wrappingSub w a b) ∧
      U w (UI.wrappingSub w a b) = Rand.wrappingSub (M w n) (U w a) (U w b) := by
  obtain ⟨h1, h2, _⟩ := UI.overflowingSub_spec ha hb
  refine ⟨h1, ?_⟩
  have := U_lt hb
  have e : (U w (UI.wrappingSub w a b) : Int) = ((U w a + M w n - U w b) % M w n : Nat) := by
    rw [← wrapU_sub_nat (by omega)]; exact h2
  exact_mod_cast e

theorem wrappingAdd_ref {w n : Nat} {a b : List Nat} (ha : WF w n a) (hb : WF w n b) :
    WF w n (UI.wrappingAdd w a b) ∧
      U w (UI.wrappingAdd w a b) = Rand.wrappingAdd (M w n) (U w a) (U w b) := by
  obtain ⟨h1, h2, _⟩ := UI.overflowingAdd_spec ha hb
  refine ⟨h1, ?_⟩
  have e : (U w (UI.wrappingAdd w a b) : Int) = ((U w a + U w b) % M w n : Nat) := by
    rw [← wrapU_natCast]; push_cast; exact h2
  exact_mod_cast e

theorem wrappingSubT_ref {signed : Bool} {w n : Nat} {a b : List Nat} (ha : WF w n a) (hb : WF w n b) :
    WF w n (wrappingSubT signed w a b) ∧
      U w (wrappingSubT signed w a b) = Rand.wrappingSub (M w n) (U w a) (U w b) := by
  cases signed <;> exact wrappingSub_ref ha hb
theorem wrappingAddT_ref {signed : Bool} {w n : Nat} {a b : List Nat} (ha : WF w n a) (hb : WF w n b) :
    WF w n (wrappingAddT signed w a b) ∧
      U w (wrappingAddT signed w a b) = Rand.wrappingAdd (M w n) (U w a) (U w b) := by
  cases signed <;> exact wrappingAdd_ref ha hb

/-- the unsigned `Sub` operator -/
theorem usub_ref {dbg : Bool} {w n : Nat} {a b : List Nat} (ha : WF w n a) (hb : WF w n b) :
    RefV w n (UI.sub dbg w a b) (Rand.opSub false dbg (M w n) (U w a) (U w b)) := by
  obtain ⟨h1, _, h3⟩ := UI.overflowingSub_spec ha hb
  obtain ⟨w1, w2⟩ := wrappingSub_ref ha hb
  have hf : (UI.overflowingSub w a b).2 = decide (U w a < U w b) := by
    rw [h3]; congr 1; unfold repU
    have := U_lt ha
    apply propext; constructor <;> intro h <;> omega
  unfold UI.sub Rand.opSub UI.strictSub UI.checkedSub tupleToOption
  rw [hf]
  cases dbg
  · simp only [Bool.false_eq_true, if_false, Bool.false_and]; exact ⟨w1, w2⟩
  · by_cases hlt : U w a < U w b
    · simp [hlt, Outcome.expect, RefV]
    · simp only [hlt, decide_false, Bool.false_eq_true, if_false, if_true, Bool.and_false,
        Outcome.expect]
      exact ⟨w1, w2⟩


/-- the pattern of a result whose signed value is `wrapS m z` is `wrapU m z` -/
theorem U_of_S_wrapS {w n : Nat} {r : List Nat} {z : Int} (hr : WF w n r)
    (h : S w r = wrapS (M w n) z) : (U w r : Int) = wrapU (M w n) z := by
  obtain ⟨k, hk⟩ := S_spec hr
  obtain ⟨k', hk'⟩ := wrapS_spec (M_pos w n) z
  have : U w r = wrapU (M w n) z := U_eq_wrapU hr (k := k' + k) (by rw [hk', ← h, hk]; ring)
  exact_mod_cast this

theorem wrapU_S_sub {w n : Nat} {a b : List Nat} (ha : WF w n a) (hb : WF w n b) :
    wrapU (M w n) (S w a - S w b) = Rand.wrappingSub (M w n) (U w a) (U w b) := by
  obtain ⟨ka, hka⟩ := S_spec ha
  obtain ⟨kb, hkb⟩ := S_spec hb
  have := U_lt hb
  rw [hka, hkb, show (U w a : Int) + ka * M w n - (U w b + kb * M w n)
    = ((U w a : Int) - U w b) + (ka - kb) * M w n by ring, wrapU_add_mul, wrapU_sub_nat (by omega)]
  rfl

/-- the signed `Sub` operator -/
theorem isub_ref {dbg : Bool} {w n : Nat} {a b : List Nat} (hw : 2 ≤ w) (hn : 1 ≤ n)
    (ha : WF w n a) (hb : WF w n b) :
    RefV w n (II.sub dbg w a b) (Rand.opSub true dbg (M w n) (U w a) (U w b)) := by
  obtain ⟨h1, h2, h3⟩ := II.overflowingSub_spec hw hn ha hb
  obtain ⟨w1, w2⟩ := wrappingSub_ref ha hb
  have hu : U w (II.overflowingSub w a b).1 = Rand.wrappingSub (M w n) (U w a) (U w b) := by
    have := U_of_S_wrapS h1 h2
    rw [wrapU_S_sub ha hb] at this
    exact_mod_cast this
  unfold II.sub Rand.opSub II.strictSub II.checkedSub tupleToOption
  rw [h3, S_eq ha, S_eq hb]
  cases dbg
  · simp only [Bool.false_eq_true, if_false, Bool.false_and]; exact ⟨w1, w2⟩
  · by_cases hov : repS (M w n) (toInt (M w n) (U w a) - toInt (M w n) (U w b))
    · simp only [hov, not_true_eq_false, decide_false, Bool.false_eq_true, if_false, if_true,
        Bool.and_false, Outcome.expect]
      exact ⟨h1, hu⟩
    · simp [hov, Outcome.expect, RefV]

theorem subT_ref {signed dbg : Bool} {w n : Nat} {a b : List Nat} (hw : 2 ≤ w) (hn : 1 ≤ n)
    (ha : WF w n a) (hb : WF w n b) :
    RefV w n (subT signed dbg w a b) (Rand.opSub signed dbg (M w n) (U w a) (U w b)) := by
  cases signed
  · exact usub_ref ha hb
  · exact isub_ref hw hn ha hb

/-- `x + 1` (`Add<Digit>`) -/
theorem addDigit_ref {w n : Nat} {a : List Nat} (hw : 1 ≤ w) (hn : 1 ≤ n) (ha : WF w n a) :
    RefV w n (Ops.addDigit w a 1) (.ok (Rand.addDigit (M w n) (U w a) 1)) := by
  obtain ⟨r, h1, h2, h3⟩ := Ops.addDigit_spec (d := 1) hn ha (by have := B_ge_two hw; omega)
  rw [h1]; exact ⟨h2, h3⟩

/-- the `Rem` operator on `BUint` (Knuth's Algorithm D inside) -/
theorem rem_ref {w n : Nat} {a b : List Nat} (hw : 1 ≤ w) (hn : 1 ≤ n)
    (ha : WF w n a) (hb : WF w n b) :
    RefV w n (UI.rem w a b) (Rand.opRem (U w a) (U w b)) := by
  unfold UI.rem UI.wrappingRem UI.checkedRem Rand.opRem
  by_cases h0 : U w b = 0
  · have hz : isZero b = true := (DivL.isZero_iff_U b).mpr h0
    simp [hz, h0, Outcome.bind, Outcome.expect, RefV]
  · have hz : isZero b = false := (DivL.isZero_false_iff_U b).mpr h0
    obtain ⟨q, r, h, _, wr, _, ur⟩ :=
      UDivSpec_of_KnuthD (KDL.knuthD_correct hw) hw hn a b ha hb h0
    simp only [hz, Bool.false_eq_true, if_false, h, Outcome.map, Outcome.bind, Outcome.expect, h0]
    exact ⟨wr, ur⟩

theorem bitLen_eq_spec : ∀ (fuel x : Nat), x < 2 ^ fuel → Rand.bitLen fuel x = Spec.bitLen x
  | 0, x, h => by
    have : x = 0 := by simpa using h
    subst this; simp [Rand.bitLen, Bits.bitLen_zero]
  | fuel + 1, x, h => by
    rw [Rand.bitLen]
    by_cases h0 : x = 0
    · subst h0; simp [Bits.bitLen_zero]
    · rw [if_neg h0, Bits.bitLen_half h0, bitLen_eq_spec fuel (x / 2) (by rw [Nat.pow_succ] at h; omega)]
      omega

theorem leadingZeros_ref {w n : Nat} {x : List Nat} (hx : WF w n x) :
    UI.leadingZeros w x = Rand.leadingZeros (w * n) (U w x) := by
  rw [Bits.leadingZeros_spec hx, Rand.leadingZeros, bitLen_eq_spec _ _ (Rand.M_eq_two_pow w n ▸ U_lt hx)]

theorem bits_max_ref (w n : Nat) :
    UI.bits w (allOnes w n) = Rand.bitLen (w * n) (M w n - 1) := by
  rw [Bits.bits_spec (WF_allOnes w n), U_allOnes,
    bitLen_eq_spec _ _ (by have := M_pos w n; rw [Rand.M_eq_two_pow] at *; omega)]

/-- the `Shl` operator for an in-range amount -/
theorem shl_ref {dbg : Bool} {w n k : Nat} {a : List Nat} (hw : 1 ≤ w) (ha : WF w n a)
    (hk : k < w * n) :
    RefV w n (UI.shl dbg w a k) (Rand.opShl dbg (w * n) (U w a) k) := by
  rw [UI.shl_of_lt dbg (by rw [ha.1]; exact hk)]
  obtain ⟨h1, h2⟩ := UI.uncheckedShlInternal_spec (by omega) ha hk
  have : ¬ w * n ≤ k := by omega
  simp only [Rand.opShl, this, decide_false, Bool.and_false, Bool.false_eq_true, if_false,
    Nat.mod_eq_of_lt hk]
  exact ⟨h1, by rw [h2]; rfl⟩

theorem wideningMul_ref {w n : Nat} {a b : List Nat} (ha : WF w n a) (hb : WF w n b) :
    WF w n (UI.wideningMul w a b).1 ∧ WF w n (UI.wideningMul w a b).2 ∧
    (U w (UI.wideningMul w a b).1, U w (UI.wideningMul w a b).2) =
      Rand.wideningMul (M w n) (U w a) (U w b) := by
  obtain ⟨h1, h2, _⟩ := UI.u_wideningMul_spec ha hb
  obtain ⟨e1, e2⟩ := UI.u_wideningMul_divmod ha hb
  exact ⟨h1, h2, by rw [e1, e2]; rfl⟩

theorem opLe_of_compare {cmp : List Nat → List Nat → Ordering} {α : Type} [LinearOrder α]
    {a b : List Nat} {x y : α} (h : cmp a b = compare x y) :
    Traits.opLe cmp a b = decide (x ≤ y) := by
  unfold Traits.opLe Traits.partialCmp
  rw [h]
  rcases lt_trichotomy x y with hlt | heq | hgt
  · rw [compare_lt_iff_lt.mpr hlt]; simp [le_of_lt hlt]
  · rw [compare_eq_iff_eq.mpr heq]; simp [heq]
  · rw [compare_gt_iff_gt.mpr hgt]; simpa using hgt

theorem opLt_of_compare {cmp : List Nat → List Nat → Ordering} {α : Type} [LinearOrder α]
    {a b : List Nat} {x y : α} (h : cmp a b = compare x y) :
    Traits.opLt cmp a b = decide (x < y) := by
  unfold Traits.opLt Traits.partialCmp
  rw [h]
  rcases lt_trichotomy x y with hlt | heq | hgt
  · rw [compare_lt_iff_lt.mpr hlt]; simp [hlt]
  · rw [compare_eq_iff_eq.mpr heq]; simp [heq]
  · rw [compare_gt_iff_gt.mpr hgt]; simpa using le_of_lt hgt

theorem opLeT_ref {signed : Bool} {w n : Nat} {a b : List Nat} (hw : 1 ≤ w) (hn : 1 ≤ n)
    (ha : WF w n a) (hb : WF w n b) :
    Traits.opLe (cmpT signed w) a b = Rand.le signed (M w n) (U w a) (U w b) := by
  cases signed
  · simp only [cmpT, Rand.le, Bool.false_eq_true, if_false]
    exact opLe_of_compare (UI.cmp_spec ha hb)
  · simp only [cmpT, Rand.le, if_true]
    rw [opLe_of_compare (II.cmp_spec hw hn ha hb), S_eq ha, S_eq hb]

theorem opLtT_ref {signed : Bool} {w n : Nat} {a b : List Nat} (hw : 1 ≤ w) (hn : 1 ≤ n)
    (ha : WF w n a) (hb : WF w n b) :
    Traits.opLt (cmpT signed w) a b = Rand.lt signed (M w n) (U w a) (U w b) := by
  cases signed
  · simp only [cmpT, Rand.lt, Bool.false_eq_true, if_false]
    exact opLt_of_compare (UI.cmp_spec ha hb)
  · simp only [cmpT, Rand.lt, if_true]
    rw [opLt_of_compare (II.cmp_spec hw hn ha hb), S_eq ha, S_eq hb]

theorem isZero_ref {w : Nat} (x : List Nat) : isZero x = decide (U w x = 0) :=
  bool_eq_decide (DivL.isZero_iff_U x)

/-! ## Part 2 — the sampler functions -/

theorem rangeOf_ref {signed : Bool} {w n : Nat} {low high : List Nat} (hw : 1 ≤ w) (hn : 1 ≤ n)
    (hl : WF w n low) (hh : WF w n high) :
    WF w n (rangeOf signed w n low high) ∧
      U w (rangeOf signed w n low high) = Rand.rangeOf (M w n) (U w low) (U w high) := by
  obtain ⟨a1, a2⟩ := wrappingSubT_ref (signed := signed) hh hl
  obtain ⟨b1, b2⟩ := wrappingAddT_ref (signed := signed) a1 (WF_one hw hn)
  exact ⟨b1, by rw [rangeOf, b2, a2, U_one hn]; rfl⟩

theorem intsToReject_ref {dbg : Bool} {w n : Nat} {range : List Nat} (hw : 1 ≤ w) (hn : 1 ≤ n)
    (hr : WF w n range) :
    RefV w n (intsToReject dbg w n range) (Rand.intsToReject dbg (M w n) (U w range)) := by
  have h1 := usub_ref (dbg := dbg) (WF_allOnes w n) hr
  rw [U_allOnes] at h1
  show RefV w n _ ((Rand.opSub false dbg (M w n) (M w n - 1) (U w range)).bind fun t =>
    (Outcome.ok (Rand.addDigit (M w n) t 1)).bind fun t1 => Rand.opRem t1 (U w range))
  refine RefV.bind h1 (fun t ht => RefV.bind (addDigit_ref hw hn ht) (fun t1 ht1 => ?_))
  exact rem_ref hw hn ht1 hr

theorem singleZone_ref {dbg : Bool} {w n : Nat} {range : List Nat} (hw : 1 ≤ w) (hn : 1 ≤ n)
    (hr : WF w n range) (h0 : U w range ≠ 0) :
    RefV w n (singleZone dbg w n range) (Rand.singleZone dbg (w * n) (M w n) (U w range)) := by
  unfold singleZone Rand.singleZone
  rw [bits_max_ref]
  split
  · show RefV w n _ ((Rand.intsToReject dbg (M w n) (U w range)).bind fun r =>
      Rand.opSub false dbg (M w n) (M w n - 1) r)
    refine RefV.bind (intsToReject_ref hw hn hr) (fun r hr' => ?_)
    have := usub_ref (dbg := dbg) (WF_allOnes w n) hr'
    rwa [U_allOnes] at this
  · show RefV w n _ ((Rand.opShl dbg (w * n) (U w range) (Rand.leadingZeros (w * n) (U w range))).bind
      fun sh => Outcome.ok (Rand.wrappingSub (M w n) sh 1))
    rw [leadingZeros_ref hr]
    have hlt : U w range < 2 ^ (w * n) := Rand.M_eq_two_pow w n ▸ U_lt hr
    obtain ⟨_, _, _, hb⟩ := Rand.bitLen_spec hlt h0
    have hW : 1 ≤ w * n := Nat.mul_le_mul hw hn
    refine RefV.bind (shl_ref hw hr (by unfold Rand.leadingZeros; omega)) (fun sh hsh => ?_)
    obtain ⟨a, b⟩ := wrappingSub_ref hsh (WF_one hw hn)
    exact ⟨a, by rw [b, U_one hn]⟩

/-- refinement of a draw -/
def RefD (w n : Nat) : Draw → Rand.Draw → Prop
  | none, none => True
  | some p, some q => WF w n p.1 ∧ U w p.1 = q.1 ∧ p.2 = q.2
  | _, _ => False

/-- refinement of a sampler result -/
def RefO (w n : Nat) : Outcome Draw → Outcome Rand.Draw → Prop
  | .ok d, .ok v => RefD w n d v
  | .panic, .panic => True
  | _, _ => False

theorem RefO.bindV {w n : Nat} {o : Outcome (List Nat)} {v : Outcome Nat}
    {f : List Nat → Outcome Draw} {g : Nat → Outcome Rand.Draw} (h : RefV w n o v)
    (hfg : ∀ r, WF w n r → RefO w n (f r) (g (U w r))) : RefO w n (o.bind f) (v.bind g) := by
  match o, v, h with
  | .ok r, .ok x, ⟨h1, h2⟩ => subst h2; exact hfg r h1
  | .panic, .panic, _ => trivial

/-- `rng.gen()` (either signedness) -/
theorem gen_ref {signed : Bool} {k n : Nat} {s : Stream} (hok : StreamOK s) :
    RefD (8 * k) n (if signed then Rand.II.gen (8 * k) n s else Rand.UI.gen (8 * k) n s)
      (Rand.genVal (8 * k) n s) := by
  have e : (if signed then Rand.II.gen (8 * k) n s else Rand.UI.gen (8 * k) n s)
      = Rand.UI.gen (8 * k) n s := by cases signed <;> rfl
  rw [e, Rand.genVal]
  by_cases hl : n * k ≤ s.length
  · rw [Rand.gen_eq hl]
    exact ⟨Rand.digitsOfBytes_WF (hok.take _) (by rw [List.length_take]; omega), rfl, rfl⟩
  · rw [Rand.gen_none (by omega)]; trivial

/-- the rejection loop -/
theorem rejectLoop_ref {signed : Bool} {k n : Nat} {low range zone : List Nat} (hn : 1 ≤ n)
    (hl : WF (8 * k) n low) (hr : WF (8 * k) n range) (hz : WF (8 * k) n zone) :
    ∀ (fuel : Nat) (s : Stream), StreamOK s →
    RefD (8 * k) n (rejectLoop signed (8 * k) n low range zone fuel s)
      (Rand.rejectLoop (8 * k) n (U (8 * k) low) (U (8 * k) range) (U (8 * k) zone) fuel s)
  | 0, _, _ => trivial
  | fuel + 1, s, hok => by
    rw [rejectLoop, Rand.rejectLoop_succ, Rand.genVal]
    by_cases hlen : n * k ≤ s.length
    · rw [Rand.gen_eq hlen]
      have hv := Rand.digitsOfBytes_WF (n := n) (k := k) (hok.take (n * k))
        (by rw [List.length_take]; omega)
      obtain ⟨w1, w2, e⟩ := wideningMul_ref hv hr
      simp only [Rand.wideningMul, Prod.mk.injEq] at e
      simp only
      rw [opLe_of_compare (UI.cmp_spec w1 hz), e.1]
      by_cases hacc : U (8 * k) (Rand.digitsOfBytes k n (List.take (n * k) s)) * U (8 * k) range
          % M (8 * k) n ≤ U (8 * k) zone
      · simp only [hacc, decide_true, if_true]
        obtain ⟨a, b⟩ := wrappingAddT_ref (signed := signed) hl w2
        exact ⟨a, by rw [b, e.2], rfl⟩
      · simp only [hacc, decide_false, Bool.false_eq_true, if_false]
        exact rejectLoop_ref hn hl hr hz fuel _ (hok.drop _)
    · rw [Rand.gen_none (by omega)]; trivial


/-- refinement of a `UniformInt` -/
def RefU (w n : Nat) (u : UniformInt) (v : Rand.UniformInt) : Prop :=
  WF w n u.low ∧ WF w n u.range ∧ WF w n u.z ∧
    U w u.low = v.low ∧ U w u.range = v.range ∧ U w u.z = v.z

def RefOU (w n : Nat) : Outcome UniformInt → Outcome Rand.UniformInt → Prop
  | .ok u, .ok v => RefU w n u v
  | .panic, .panic => True
  | _, _ => False

theorem newInclusive_ref {signed dbg : Bool} {w n : Nat} {low high : List Nat} (hw : 1 ≤ w)
    (hn : 1 ≤ n) (hl : WF w n low) (hh : WF w n high) :
    RefOU w n (newInclusive signed dbg w n low high)
      (Rand.newInclusive signed dbg w n (U w low) (U w high)) := by
  unfold newInclusive Rand.newInclusive
  rw [opLeT_ref hw hn hl hh]
  obtain ⟨r1, r2⟩ := rangeOf_ref (signed := signed) hw hn hl hh
  rcases Rand.le_cases signed (M w n) (U w low) (U w high) with hle | hle
  · simp only [hle, Bool.not_true, Bool.false_eq_true, if_false]
    rw [isZero_ref (w := w), r2]
    by_cases h0 : Rand.rangeOf (M w n) (U w low) (U w high) = 0
    · simp only [h0, decide_true, Bool.not_true, Bool.false_eq_true, if_false, ne_eq,
        not_true_eq_false]
      exact (show RefU w n _ _ from ⟨hl, r1, WF_zero w n, rfl, by rw [r2, h0], U_zero w n⟩)
    · simp only [h0, decide_false, Bool.not_false, if_true, ne_eq, not_false_eq_true]
      have := intsToReject_ref (dbg := dbg) hw hn r1
      rw [r2] at this
      match hA : intsToReject dbg w n (rangeOf signed w n low high),
        hB : Rand.intsToReject dbg (M w n) (Rand.rangeOf (M w n) (U w low) (U w high)), this with
      | .ok z, .ok z', ⟨z1, z2⟩ => exact (show RefU w n _ _ from ⟨hl, r1, z1, rfl, r2, z2⟩)
      | .panic, .panic, _ => exact (show True from trivial)
  · simp only [hle, Bool.not_false, if_true]; exact (show True from trivial)

theorem new_ref {signed dbg : Bool} {w n : Nat} {low high : List Nat} (hw : 2 ≤ w)
    (hn : 1 ≤ n) (hl : WF w n low) (hh : WF w n high) :
    RefOU w n (new signed dbg w n low high) (Rand.new signed dbg w n (U w low) (U w high)) := by
  unfold new Rand.new
  rw [opLtT_ref (by omega) hn hl hh]
  rcases Rand.lt_cases signed (M w n) (U w low) (U w high) with hlt | hlt
  · simp only [hlt, Bool.not_true, Bool.false_eq_true, if_false]
    have := subT_ref (signed := signed) (dbg := dbg) hw hn hh (WF_one (by omega) hn)
    rw [U_one hn] at this
    match hA : subT signed dbg w high (one n), hB : Rand.opSub signed dbg (M w n) (U w high) 1, this with
    | .ok h, .ok h', ⟨h1, h2⟩ => subst h2; exact newInclusive_ref (by omega) hn hl h1
    | .panic, .panic, _ => exact (show True from trivial)
  · simp only [hlt, Bool.not_false, if_true]; exact (show True from trivial)

theorem sample_ref {signed dbg : Bool} {k n : Nat} {u : UniformInt} {v : Rand.UniformInt}
    {s : Stream} (hn : 1 ≤ n) (hok : StreamOK s) (huv : RefU (8 * k) n u v) :
    RefO (8 * k) n (sample signed dbg (8 * k) n u s) (Rand.sample dbg (8 * k) n v s) := by
  obtain ⟨l1, r1, z1, l2, r2, z2⟩ := huv
  unfold sample Rand.sample
  rw [isZero_ref (w := 8 * k), r2]
  by_cases h0 : v.range = 0
  · simp only [h0, decide_true, Bool.not_true, Bool.false_eq_true, if_false, ne_eq,
      not_true_eq_false]
    exact gen_ref hok
  · simp only [h0, decide_false, Bool.not_false, if_true, ne_eq, not_false_eq_true]
    have := usub_ref (dbg := dbg) (WF_allOnes (8 * k) n) z1
    rw [U_allOnes, z2] at this
    refine RefO.bindV this (fun zone hz => ?_)
    have := rejectLoop_ref (signed := signed) hn l1 r1 hz (s.length + 1) s hok
    rw [l2, r2] at this
    exact this

theorem sampleSingleInclusive_ref {signed dbg : Bool} {k n : Nat} {low high : List Nat} {s : Stream}
    (hk : 1 ≤ k) (hn : 1 ≤ n) (hok : StreamOK s) (hl : WF (8 * k) n low) (hh : WF (8 * k) n high) :
    RefO (8 * k) n (sampleSingleInclusive signed dbg (8 * k) n low high s)
      (Rand.sampleSingleInclusive signed dbg (8 * k) n (U (8 * k) low) (U (8 * k) high) s) := by
  have hw : 1 ≤ 8 * k := by omega
  unfold sampleSingleInclusive Rand.sampleSingleInclusive
  rw [opLeT_ref hw hn hl hh]
  obtain ⟨r1, r2⟩ := rangeOf_ref (signed := signed) hw hn hl hh
  rcases Rand.le_cases signed (M (8 * k) n) (U (8 * k) low) (U (8 * k) high) with hle | hle
  swap
  · simp only [hle, Bool.not_false, if_true]; exact (show True from trivial)
  · simp only [hle, Bool.not_true, Bool.false_eq_true, if_false]
    rw [isZero_ref (w := 8 * k), r2]
    by_cases h0 : Rand.rangeOf (M (8 * k) n) (U (8 * k) low) (U (8 * k) high) = 0
    · simp only [h0, decide_true, if_true]
      exact gen_ref hok
    · simp only [h0, decide_false, Bool.false_eq_true, if_false]
      have := singleZone_ref (dbg := dbg) hw hn r1 (by rw [r2]; exact h0)
      rw [r2] at this
      refine RefO.bindV this (fun zone hz => ?_)
      have := rejectLoop_ref (signed := signed) hn hl r1 hz (s.length + 1) s hok
      rw [r2] at this
      exact this

theorem sampleSingle_ref {signed dbg : Bool} {k n : Nat} {low high : List Nat} {s : Stream}
    (hk : 1 ≤ k) (hn : 1 ≤ n) (hok : StreamOK s) (hl : WF (8 * k) n low) (hh : WF (8 * k) n high) :
    RefO (8 * k) n (sampleSingle signed dbg (8 * k) n low high s)
      (Rand.sampleSingle signed dbg (8 * k) n (U (8 * k) low) (U (8 * k) high) s) := by
  have hw : 2 ≤ 8 * k := by omega
  unfold sampleSingle Rand.sampleSingle
  rw [opLtT_ref (by omega) hn hl hh]
  rcases Rand.lt_cases signed (M (8 * k) n) (U (8 * k) low) (U (8 * k) high) with hlt | hlt
  swap
  · simp only [hlt, Bool.not_false, if_true]; exact (show True from trivial)
  · simp only [hlt, Bool.not_true, Bool.false_eq_true, if_false]
    have := subT_ref (signed := signed) (dbg := dbg) hw hn hh (WF_one (by omega) hn)
    rw [U_one hn] at this
    exact RefO.bindV this (fun h hh' => sampleSingleInclusive_ref hk hn hok hl hh')

theorem genRange_ref {signed dbg : Bool} {k n : Nat} {low high : List Nat} {s : Stream}
    (hk : 1 ≤ k) (hn : 1 ≤ n) (hok : StreamOK s) (hl : WF (8 * k) n low) (hh : WF (8 * k) n high) :
    RefO (8 * k) n (genRange signed dbg (8 * k) n low high s)
      (Rand.genRange signed dbg (8 * k) n (U (8 * k) low) (U (8 * k) high) s) := by
  unfold genRange Rand.genRange
  rw [opLtT_ref (by omega) hn hl hh]
  rcases Rand.lt_cases signed (M (8 * k) n) (U (8 * k) low) (U (8 * k) high) with hlt | hlt
  · simp only [hlt, Bool.not_true, Bool.false_eq_true, if_false]
    exact sampleSingle_ref hk hn hok hl hh
  · simp only [hlt, Bool.not_false, if_true]; exact (show True from trivial)

theorem genRangeInclusive_ref {signed dbg : Bool} {k n : Nat} {low high : List Nat} {s : Stream}
    (hk : 1 ≤ k) (hn : 1 ≤ n) (hok : StreamOK s) (hl : WF (8 * k) n low) (hh : WF (8 * k) n high) :
    RefO (8 * k) n (genRangeInclusive signed dbg (8 * k) n low high s)
      (Rand.genRangeInclusive signed dbg (8 * k) n (U (8 * k) low) (U (8 * k) high) s) := by
  unfold genRangeInclusive Rand.genRangeInclusive
  rw [opLeT_ref (by omega) hn hl hh]
  rcases Rand.le_cases signed (M (8 * k) n) (U (8 * k) low) (U (8 * k) high) with hle | hle
  · simp only [hle, Bool.not_true, Bool.false_eq_true, if_false]
    exact sampleSingleInclusive_ref hk hn hok hl hh
  · simp only [hle, Bool.not_false, if_true]; exact (show True from trivial)

theorem RefO.bindU {w n : Nat} {o : Outcome UniformInt} {v : Outcome Rand.UniformInt}
    {f : UniformInt → Outcome Draw} {g : Rand.UniformInt → Outcome Rand.Draw} (h : RefOU w n o v)
    (hfg : ∀ u u', RefU w n u u' → RefO w n (f u) (g u')) : RefO w n (o.bind f) (v.bind g) := by
  match o, v, h with
  | .ok u, .ok u', h => exact hfg u u' h
  | .panic, .panic, _ => trivial

theorem uniformNewSample_ref {signed dbg : Bool} {k n : Nat} {low high : List Nat} {s : Stream}
    (hk : 1 ≤ k) (hn : 1 ≤ n) (hok : StreamOK s) (hl : WF (8 * k) n low) (hh : WF (8 * k) n high) :
    RefO (8 * k) n (uniformNewSample signed dbg (8 * k) n low high s)
      (Rand.uniformNewSample signed dbg (8 * k) n (U (8 * k) low) (U (8 * k) high) s) :=
  RefO.bindU (new_ref (by omega) hn hl hh) (fun _ _ h => sample_ref hn hok h)

theorem uniformNewInclusiveSample_ref {signed dbg : Bool} {k n : Nat} {low high : List Nat}
    {s : Stream} (hk : 1 ≤ k) (hn : 1 ≤ n) (hok : StreamOK s)
    (hl : WF (8 * k) n low) (hh : WF (8 * k) n high) :
    RefO (8 * k) n (uniformNewInclusiveSample signed dbg (8 * k) n low high s)
      (Rand.uniformNewInclusiveSample signed dbg (8 * k) n (U (8 * k) low) (U (8 * k) high) s) :=
  RefO.bindU (newInclusive_ref (by omega) hn hl hh) (fun _ _ h => sample_ref hn hok h)

/-- what a refinement says, spelled out: the digit-level result mapped to values IS the
    value-level result, and every returned integer is well-formed -/
def viewD (w : Nat) (o : Outcome Draw) : Outcome Rand.Draw :=
  o.map (Option.map (fun p => (U w p.1, p.2)))

theorem RefO.view {w n : Nat} {o : Outcome Draw} {v : Outcome Rand.Draw} (h : RefO w n o v) :
    viewD w o = v ∧ ∀ x rest, o = .ok (some (x, rest)) → WF w n x := by
  match o, v, h with
  | .ok none, .ok none, _ => exact ⟨rfl, fun _ _ h => by cases h⟩
  | .ok (some p), .ok (some q), ⟨h1, h2, h3⟩ =>
    refine ⟨?_, fun x rest h => ?_⟩
    · simp only [viewD, Outcome.map, Option.map_some, h2, h3]
    · cases h; exact h1
  | .panic, .panic, _ => exact ⟨rfl, fun _ _ h => by cases h⟩


/-! ## Part 3 — transferring statements along a refinement -/

/-- value of a digit list under the signedness (`U` or two's-complement `S`) -/
def valD (signed : Bool) (w : Nat) (x : List Nat) : Int := if signed then S w x else (U w x : Int)

theorem valD_eq {signed : Bool} {w n : Nat} {x : List Nat} (hx : WF w n x) :
    valD signed w x = Rand.val signed (M w n) (U w x) := by
  cases signed
  · rfl
  · simp only [valD, Rand.val, if_true]; exact S_eq hx

theorem RefO.of_some {w n : Nat} {o : Outcome Draw} {v : Outcome Rand.Draw} {x : List Nat}
    {rest : Stream} (h : RefO w n o v) (ho : o = .ok (some (x, rest))) :
    WF w n x ∧ v = .ok (some (U w x, rest)) := by
  subst ho
  match v, h with
  | .ok (some (q1, q2)), ⟨h1, h2, h3⟩ =>
    simp only at h2 h3; exact ⟨h1, by rw [← h2, ← h3]⟩

theorem RefO.panic_iff {w n : Nat} {o : Outcome Draw} {v : Outcome Rand.Draw} (h : RefO w n o v) :
    o = .panic ↔ v = .panic := by
  match o, v, h with
  | .ok _, .ok _, _ => simp
  | .panic, .panic, _ => simp

theorem RefO.none_iff {w n : Nat} {o : Outcome Draw} {v : Outcome Rand.Draw} (h : RefO w n o v) :
    o = .ok none ↔ v = .ok none := by
  match o, v, h with
  | .ok none, .ok none, _ => simp
  | .ok (some _), .ok (some _), _ => simp
  | .panic, .panic, _ => simp

/-- two digit-level results refining the same value-level result are equal -/
theorem RefO.unique {w n : Nat} {o o' : Outcome Draw} {v : Outcome Rand.Draw}
    (h : RefO w n o v) (h' : RefO w n o' v) : o = o' := by
  match o, o', v, h, h' with
  | .ok none, .ok none, .ok none, _, _ => rfl
  | .ok (some p), .ok (some p'), .ok (some q), ⟨a1, a2, a3⟩, ⟨b1, b2, b3⟩ =>
    have : p.1 = p'.1 := U_injective a1 b1 (by rw [a2, b2])
    have : p = p' := Prod.ext this (by rw [a3, b3])
    rw [this]
  | .panic, .panic, .panic, _, _ => rfl

/-- the Spec's view of a digit-level draw: (value, bytes consumed) -/
def drawViewD (signed : Bool) (w : Nat) (s : Stream) (d : Draw) : Option (Int × Nat) :=
  d.map (fun p => (valD signed w p.1, s.length - p.2.length))

theorem drawViewD_eq {signed : Bool} {w n : Nat} {s : Stream} {d : Draw} {v : Rand.Draw}
    (h : RefD w n d v) : drawViewD signed w s d = Rand.drawView signed (M w n) s v := by
  match d, v, h with
  | none, none, _ => rfl
  | some p, some q, ⟨h1, h2, h3⟩ =>
    simp only [drawViewD, Rand.drawView, Option.map_some, valD_eq h1, h2, h3]


end Bnum.RandD
