/-
  Bnum.Lemmas.Div — C03: short division, the dispatch of `div_rem_unchecked`, the obligation
  `KnuthD_correct`, pure `Int` facts about the four rounding conventions, the signed layer.
-/
import Bnum.Lemmas.Cmp
import Bnum.Model.Div
import Bnum.Spec.Div
namespace Bnum

/-- `x ||| y = x + y` when `x` is a multiple of `2^w` and `y < 2^w` -/
theorem mul_B_or {w : Nat} (h l : Nat) (hl : l < B w) : (h * B w) ||| l = h * B w + l := by
  unfold B at *
  rw [Nat.mul_comm]; exact (Nat.two_pow_add_eq_or_of_lt hl h).symm

namespace Digit

theorem divRemWide_spec {w low high rhs : Nat} (h1 : high < rhs) (h2 : rhs < B w) (h3 : low < B w) :
    (divRemWide w low high rhs).1 * rhs + (divRemWide w low high rhs).2 = high * B w + low ∧
    (divRemWide w low high rhs).2 < rhs ∧ (divRemWide w low high rhs).1 < B w := by
  unfold divRemWide
  have hB := B_pos w
  have hlt : high * B w < B w * B w := Nat.mul_lt_mul_of_pos_right (by omega) hB
  simp only
  rw [Nat.mod_eq_of_lt hlt, mul_B_or high low h3]
  have hpos : 0 < rhs := by omega
  have ha : high * B w + low < rhs * B w := by
    have : (high + 1) * B w ≤ rhs * B w := Nat.mul_le_mul_right _ h1
    rw [Nat.add_mul] at this; omega
  generalize high * B w + low = a at *
  have hq : a / rhs < B w := (Nat.div_lt_iff_lt_mul hpos).mpr (by rw [Nat.mul_comm]; exact ha)
  have hr : a % rhs < rhs := Nat.mod_lt _ hpos
  rw [Nat.mod_eq_of_lt hq, Nat.mod_eq_of_lt (by omega)]
  refine ⟨?_, hr, hq⟩
  rw [Nat.mul_comm]; exact Nat.div_add_mod a rhs

end Digit

namespace UI

theorem divRemDigitLoop_spec {w d : Nat} (hd0 : 0 < d) (hd : d < B w) :
    ∀ (n : Nat) (a : List Nat), WF w n a →
    U w (divRemDigitLoop w d a).1 * d + (divRemDigitLoop w d a).2 = U w a ∧
    (divRemDigitLoop w d a).2 < d ∧ WF w n (divRemDigitLoop w d a).1 := by
  intro n
  induction n with
  | zero =>
    intro a ha
    have := ha.1; simp at this; subst this
    simp [divRemDigitLoop, WF_nil, hd0]
  | succ n ih =>
    intro a ha
    match a, ha with
    | x :: xs, ha =>
      rw [WF_cons] at ha
      obtain ⟨h1, h2, h3⟩ := ih xs ha.2
      simp only [divRemDigitLoop]
      obtain ⟨g1, g2, g3⟩ := Digit.divRemWide_spec (w := w) (low := x) h2 hd ha.1
      refine ⟨?_, g2, WF_cons.mpr ⟨g3, h3⟩⟩
      simp only [U_cons]
      generalize (Digit.divRemWide w x (divRemDigitLoop w d xs).2 d).1 = q0 at *
      generalize (Digit.divRemWide w x (divRemDigitLoop w d xs).2 d).2 = r0 at *
      generalize (divRemDigitLoop w d xs).2 = r1 at *
      generalize U w (divRemDigitLoop w d xs).1 = q1 at *
      rw [← h1]
      have : B w * (q1 * d + r1) = B w * q1 * d + r1 * B w := by ring
      rw [this]
      have : (q0 + B w * q1) * d = q0 * d + B w * q1 * d := by ring
      rw [this]; omega
    | [], ha => exact absurd ha.1 (by simp)

theorem u_divRemDigit_spec {w n d : Nat} {a : List Nat} (hd0 : 0 < d) (hd : d < B w)
    (ha : WF w n a) :
    ∃ q r, divRemDigit w a d = .ok (q, r) ∧ U w q * d + r = U w a ∧ r < d ∧ WF w n q := by
  refine ⟨(divRemDigitLoop w d a).1, (divRemDigitLoop w d a).2, ?_, divRemDigitLoop_spec hd0 hd n a ha⟩
  unfold divRemDigit
  rw [if_neg (by omega)]

end UI

namespace DivL

theorem isZero_iff_U {w : Nat} : ∀ (x : List Nat), isZero x = true ↔ U w x = 0
  | [] => by simp [isZero]
  | d :: ds => by
    have ih := isZero_iff_U (w := w) ds
    have hB := B_pos w
    unfold isZero
    by_cases hd : d = 0
    · subst hd; simp [ih]; omega
    · simp [hd]

theorem isZero_false_iff_U {w : Nat} (x : List Nat) : isZero x = false ↔ U w x ≠ 0 := by
  have := isZero_iff_U (w := w) x
  cases h : isZero x <;> simp_all

theorem go_eq_zero : ∀ (ds : List Nat) (i idx : Nat), 0 < i →
    (lastDigitIndex.go ds i idx = 0 ↔ idx = 0 ∧ ∀ d ∈ ds, d = 0)
  | [], i, idx, _ => by simp [lastDigitIndex.go]
  | d :: ds, i, idx, hi => by
    simp only [lastDigitIndex.go]
    rw [go_eq_zero ds (i + 1) _ (by omega)]
    by_cases hd : d = 0
    · subst hd; simp
    · simp [hd]; omega

theorem U_of_all_zero {w : Nat} : ∀ (ds : List Nat), (∀ d ∈ ds, d = 0) → U w ds = 0
  | [], _ => rfl
  | d :: ds, h => by
    have h1 : d = 0 := h d (by simp)
    have h2 := U_of_all_zero (w := w) ds (fun e he => h e (by simp [he]))
    simp [h1, h2]

/-- a divisor with `last_digit_index = 0` is its lowest digit -/
theorem ldi_zero {w n : Nat} {b : List Nat} (hb : WF w n b) (h : lastDigitIndex b = 0) :
    U w b = b.headD 0 ∧ b.headD 0 < B w := by
  match b, hb with
  | [], _ => simp [B_pos]
  | d :: ds, hb =>
    unfold lastDigitIndex at h
    simp only at h
    rw [go_eq_zero ds 1 0 (by omega)] at h
    have hd : d < B w := hb.2 d (by simp)
    simp [U_of_all_zero ds h.2, hd]

end DivL

/-- the one obligation the multi-digit path rests on: `basecase_div_rem` (Knuth's Algorithm D)
    returns quotient and remainder whenever it is called by `div_rem_unchecked`, i.e. for a divisor
    of at least two significant digits that is smaller than the dividend -/
def KnuthD_correct (w : Nat) : Prop :=
  ∀ (n : Nat) (a b : List Nat), WF w n a → WF w n b → lastDigitIndex b ≠ 0 → U w b < U w a →
    ∃ q r, KD.basecaseDivRem w a b (lastDigitIndex b + 1) = .ok (q, r) ∧ WF w n q ∧ WF w n r ∧
      U w q = U w a / U w b ∧ U w r = U w a % U w b

/-- what `BUint::div_rem_unchecked` has to deliver on one pair of operands -/
def UDivRes (w n : Nat) (a b : List Nat) : Prop :=
  ∃ q r, UI.divRemUnchecked w a b = .ok (q, r) ∧ WF w n q ∧ WF w n r ∧
    U w q = U w a / U w b ∧ U w r = U w a % U w b

namespace UI

/-- `div_rem_unchecked` is correct on every pair that does not reach Algorithm D … -/
theorem u_divRem_spec_partial {w n : Nat} {a b : List Nat} (hw : 1 ≤ w) (hn : 1 ≤ n)
    (ha : WF w n a) (hb : WF w n b) (hb0 : U w b ≠ 0)
    (hpath : lastDigitIndex b = 0 ∨ U w a ≤ U w b ∨ KnuthD_correct w) : UDivRes w n a b := by
  unfold UDivRes divRemUnchecked
  rw [ha.1]
  by_cases hz : isZero a = true
  · have h0 := (DivL.isZero_iff_U (w := w) a).mp hz
    simp only [hz, if_true]
    exact ⟨_, _, rfl, WF_zero w n, WF_zero w n, by simp [U_zero, h0], by simp [U_zero, h0]⟩
  · have h0 : U w a ≠ 0 := fun h => hz ((DivL.isZero_iff_U (w := w) a).mpr h)
    simp only [hz]
    rw [cmp_spec ha hb]
    have hbpos : 0 < U w b := by omega
    rcases Nat.lt_trichotomy (U w a) (U w b) with hlt | heq | hgt
    · rw [Nat.compare_eq_lt.mpr hlt]
      exact ⟨_, _, rfl, WF_zero w n, ha, by rw [U_zero, Nat.div_eq_of_lt hlt],
        by rw [Nat.mod_eq_of_lt hlt]⟩
    · rw [Nat.compare_eq_eq.mpr heq]
      exact ⟨_, _, rfl, WF_one hw hn, WF_zero w n, by rw [U_one hn, heq, Nat.div_self hbpos],
        by rw [U_zero, heq, Nat.mod_self]⟩
    · rw [Nat.compare_eq_gt.mpr hgt]
      simp only
      by_cases hl : lastDigitIndex b = 0
      · obtain ⟨e1, e2⟩ := DivL.ldi_zero hb hl
        simp only [hl, beq_self_eq_true, if_true]
        obtain ⟨q, r, h1, h2, h3, h4⟩ := u_divRemDigit_spec (w := w) (d := b.headD 0) (by omega) e2 ha
        rw [h1]
        refine ⟨_, _, rfl, h4, WF_fromDigit hn (by omega), ?_, ?_⟩
        · simp only; rw [e1]
          have : U w a = (b.headD 0) * U w q + r := by rw [Nat.mul_comm]; omega
          rw [this, Nat.mul_add_div (by omega), Nat.div_eq_of_lt h3]; omega
        · simp only; rw [U_fromDigit _ hn, e1]
          have : U w a = (b.headD 0) * U w q + r := by rw [Nat.mul_comm]; omega
          rw [this, Nat.mul_add_mod, Nat.mod_eq_of_lt h3]
      · have hl' : (lastDigitIndex b == 0) = false := by simpa using hl
        simp only [hl', Bool.false_eq_true, if_false]
        rcases hpath with h | h | hK
        · exact absurd h hl
        · omega
        · exact hK n a b ha hb hl hgt

/-- … and on every pair once Algorithm D is granted -/
theorem u_divRem_spec {w n : Nat} {a b : List Nat} (hK : KnuthD_correct w) (hw : 1 ≤ w) (hn : 1 ≤ n)
    (ha : WF w n a) (hb : WF w n b) (hb0 : U w b ≠ 0) : UDivRes w n a b :=
  u_divRem_spec_partial hw hn ha hb hb0 (Or.inr (Or.inr hK))

end UI

namespace DivL

/-! ### pure `Int` facts: the other rounding conventions in terms of truncation -/

theorem ediv_of_tdiv (a b : Int) (hb : b ≠ 0) :
    a / b = if a < 0 ∧ a.tmod b ≠ 0 then (if b < 0 then a.tdiv b + 1 else a.tdiv b - 1)
      else a.tdiv b := by
  have h := @Int.tdiv_eq_ediv a b
  simp only [Int.dvd_iff_tmod_eq_zero] at h
  by_cases ha : 0 ≤ a
  · simp only [ha, true_or, if_true] at h
    rw [if_neg (by omega)]; omega
  · by_cases hr : a.tmod b = 0
    · simp only [hr, or_true, if_true] at h
      rw [if_neg (by simp [hr])]; omega
    · simp only [ha, hr, or_self, if_false] at h
      rw [if_pos ⟨by omega, hr⟩]
      by_cases hneg : b < 0
      · rw [Int.sign_eq_neg_one_of_neg hneg] at h; rw [if_pos hneg]; omega
      · rw [Int.sign_eq_one_of_pos (by omega)] at h; rw [if_neg hneg]; omega

theorem emod_of_tmod (a b : Int) (hb : b ≠ 0) :
    a % b = if a.tmod b < 0 then (if b < 0 then a.tmod b - b else a.tmod b + b) else a.tmod b := by
  have h := @Int.tmod_eq_emod a b
  simp only [Int.dvd_iff_tmod_eq_zero] at h
  have hnn : 0 ≤ a % b := Int.emod_nonneg a hb
  have hlt : a % b < b.natAbs := by
    have := Int.emod_lt a hb; omega
  by_cases hc : 0 ≤ a ∨ a.tmod b = 0
  · simp only [hc, if_true] at h
    rw [if_neg (by omega)]; omega
  · simp only [hc, if_false] at h
    rw [if_pos (by omega)]
    split <;> omega

theorem fdiv_of_tdiv (a b : Int) (hb : b ≠ 0) :
    a.fdiv b = if a.tmod b = 0 ∨ (a < 0 ↔ b < 0) then a.tdiv b else a.tdiv b - 1 := by
  have h := @Int.fdiv_eq_ediv a b
  simp only [Int.dvd_iff_tmod_eq_zero] at h
  rw [ediv_of_tdiv a b hb] at h
  rw [h]
  by_cases hr : a.tmod b = 0
  · simp [hr]
  · by_cases ha : a < 0 <;> by_cases hn : b < 0 <;>
      simp only [ha, hn, hr, true_and, false_and, if_true, if_false, or_false, false_or, iff_true,
        iff_false, not_true, not_false_iff, ne_eq] <;> split <;> omega

theorem cdiv_of_tdiv (a b : Int) (hb : b ≠ 0) :
    Spec.cdiv a b = if a.tmod b = 0 ∨ ¬ (a < 0 ↔ b < 0) then a.tdiv b else a.tdiv b + 1 := by
  unfold Spec.cdiv
  rw [fdiv_of_tdiv (-a) b hb, Int.neg_tmod, Int.neg_tdiv]
  by_cases hr : a.tmod b = 0
  · simp [hr]
  · have hr' : ¬ (-a.tmod b = 0) := by omega
    have ha0 : a ≠ 0 := by rintro rfl; simp at hr
    by_cases ha : a < 0 <;> by_cases hn : b < 0 <;>
      simp only [ha, hn, hr, hr', if_true, if_false, or_false, false_or, iff_true,
        iff_false, not_true, not_false_iff, Int.neg_lt_zero_iff] <;> split <;> omega

/-- `next_multiple_of` on exact integers, in the shape the signed code computes it -/
theorem nextMultiple_eq (a b : Int) (hb : b ≠ 0) :
    Spec.nextMultiple a b =
      if a % b = 0 then a else if 0 < b then a + (b - a % b) else a - a % b := by
  unfold Spec.nextMultiple Spec.cdiv
  have h1 := Int.mul_fdiv_add_fmod (-a) b
  have h2 := @Int.fmod_eq_emod (-a) b
  simp only [@Int.neg_emod a b, Int.dvd_iff_emod_eq_zero] at h2
  have e : b * -(-a).fdiv b = a + (-a).fmod b := by
    have : b * -(-a).fdiv b = -(b * (-a).fdiv b) := by ring
    rw [this]; omega
  rw [e, h2]
  have hnn : 0 ≤ a % b := Int.emod_nonneg a hb
  have hlt : a % b < b.natAbs := by have := Int.emod_lt a hb; omega
  split_ifs <;> omega

/-- everything the overflow analysis of the signed layer needs about truncated division -/
theorem tdiv_facts (a b : Int) (hb : b ≠ 0) :
    (a.tdiv b).natAbs ≤ a.natAbs ∧ (a.tmod b).natAbs < b.natAbs ∧
    (a.tmod b ≠ 0 → 2 * (a.tdiv b).natAbs + 1 ≤ a.natAbs) ∧
    (b.natAbs = 1 → a.tmod b = 0 ∧ (a.tdiv b).natAbs = a.natAbs) ∧
    (0 ≤ a → 0 ≤ a.tmod b) ∧ (a ≤ 0 → a.tmod b ≤ 0) := by
  have hq := Int.natAbs_tdiv a b
  have hr := Int.natAbs_tmod a b
  have hy : 0 < b.natAbs := by omega
  have hdm := Nat.div_add_mod a.natAbs b.natAbs
  have hml := Nat.mod_lt a.natAbs hy
  have hdl : a.natAbs / b.natAbs ≤ a.natAbs := Nat.div_le_self _ _
  change (a.tdiv b).natAbs = a.natAbs / b.natAbs at hq
  refine ⟨by omega, by omega, ?_, ?_, ?_, ?_⟩
  · intro h
    have h2 : 2 ≤ b.natAbs := by omega
    have : 2 * (a.natAbs / b.natAbs) ≤ b.natAbs * (a.natAbs / b.natAbs) := Nat.mul_le_mul_right _ h2
    omega
  · intro h1
    rw [h1, Nat.mod_one] at hr
    rw [h1, Nat.div_one] at hq
    exact ⟨by omega, hq⟩
  · intro h; exact Int.tmod_nonneg b h
  · intro h
    have := Int.tmod_nonneg (a := -a) b (by omega)
    rw [Int.neg_tmod] at this; omega

theorem tdiv_sign (a b : Int) :
    ((0 ≤ a ∧ 0 ≤ b) ∨ (a ≤ 0 ∧ b ≤ 0) → 0 ≤ a.tdiv b) ∧
    ((0 ≤ a ∧ b ≤ 0) ∨ (a ≤ 0 ∧ 0 ≤ b) → a.tdiv b ≤ 0) := by
  have key : ∀ x y : Nat, (0 : Int) ≤ ((x / y : Nat) : Int) ∧ ((x / y : Nat) : Int) ≤ x ∧
      (y = 0 → ((x / y : Nat) : Int) = 0) := fun x y =>
    ⟨Int.natCast_nonneg _, by exact_mod_cast Nat.div_le_self x y, by rintro rfl; simp⟩
  obtain ⟨x, rfl | rfl⟩ := Int.eq_nat_or_neg a <;> obtain ⟨y, rfl | rfl⟩ := Int.eq_nat_or_neg b <;>
    simp only [Int.neg_tdiv, Int.tdiv_neg, ← Int.ofNat_tdiv, Int.neg_neg] <;>
    obtain ⟨k1, k2, k3⟩ := key x y <;>
    generalize ((x / y : Nat) : Int) = z at * <;> omega

/-- quotient and remainder are unique: truncated and Euclidean convention -/
theorem divRem_unique_trunc {a b q r : Int} (hb : b ≠ 0) (h1 : a = q * b + r)
    (h2 : r.natAbs < b.natAbs) (h3 : (0 ≤ a → 0 ≤ r) ∧ (a ≤ 0 → r ≤ 0)) :
    q = a.tdiv b ∧ r = a.tmod b := by
  have e := Int.mul_tdiv_add_tmod a b
  obtain ⟨f1, f2, -, -, f5, f6⟩ := tdiv_facts a b hb
  have hd : b * (q - a.tdiv b) = a.tmod b - r := by rw [Int.mul_sub]; linarith [Int.mul_comm q b]
  have hq : q - a.tdiv b = 0 := by
    by_contra hne
    have hle : b.natAbs ≤ (b * (q - a.tdiv b)).natAbs := by
      rw [Int.natAbs_mul]
      exact Nat.le_mul_of_pos_right _ (by omega)
    rw [hd] at hle
    omega
  have hq' : q = a.tdiv b := by omega
  refine ⟨hq', ?_⟩
  rw [hq] at hd; simp at hd; omega

theorem divRem_unique_euclid {a b q r : Int} (hb : b ≠ 0) (h1 : a = q * b + r)
    (h2 : 0 ≤ r) (h3 : r < b.natAbs) : q = a / b ∧ r = a % b := by
  have e := Int.mul_ediv_add_emod a b
  have f1 := Int.emod_nonneg a hb
  have f2 : a % b < b.natAbs := by have := Int.emod_lt a hb; omega
  have hd : b * (q - a / b) = a % b - r := by rw [Int.mul_sub]; linarith [Int.mul_comm q b]
  have hq : q - a / b = 0 := by
    by_contra hne
    have hle : b.natAbs ≤ (b * (q - a / b)).natAbs := by
      rw [Int.natAbs_mul]
      exact Nat.le_mul_of_pos_right _ (by omega)
    rw [hd] at hle
    omega
  have hq' : q = a / b := by omega
  refine ⟨hq', ?_⟩
  rw [hq] at hd; simp at hd; omega

end DivL

namespace DivL

/-! ### the `cfg(debug_assertions)`-dependent operators when the exact result is representable -/

theorem ovfS_op {w n : Nat} {p : List Nat × Bool} {z : Int} (h : OvfS w n p z)
    (hrep : repS (M w n) z) (dbg : Bool) :
    (if dbg then Outcome.expect (tupleToOption p) else Outcome.ok p.1) = .ok p.1 ∧
      WF w n p.1 ∧ S w p.1 = z := by
  obtain ⟨h1, h2, h3⟩ := h
  have hf : p.2 = false := by rw [h3]; simpa using hrep
  refine ⟨?_, h1, by rw [h2, wrapS_of_rep (M_pos w n) hrep]⟩
  cases dbg
  · rfl
  · simp [tupleToOption, hf, Outcome.expect]

theorem ovfU_op {w n : Nat} {p : List Nat × Bool} {z : Int} (h : OvfU w n p z)
    (hrep : repU (M w n) z) (dbg : Bool) :
    (if dbg then Outcome.expect (tupleToOption p) else Outcome.ok p.1) = .ok p.1 ∧
      WF w n p.1 ∧ (U w p.1 : Int) = z := by
  obtain ⟨h1, h2, h3⟩ := h
  have hf : p.2 = false := by rw [h3]; simpa using hrep
  refine ⟨?_, h1, by rw [h2, wrapU_of_rep hrep]⟩
  cases dbg
  · rfl
  · simp [tupleToOption, hf, Outcome.expect]

theorem iOpNeg_ok {w n : Nat} {a : List Nat} (hw : 2 ≤ w) (hn : 1 ≤ n) (ha : WF w n a)
    (hrep : repS (M w n) (- S w a)) (dbg : Bool) :
    ∃ r, KD.iOpNeg dbg w a = .ok r ∧ WF w n r ∧ S w r = - S w a :=
  ⟨_, ovfS_op (II.overflowingNeg_spec hw hn ha) hrep dbg⟩

theorem iOpAdd_ok {w n : Nat} {a b : List Nat} (hw : 2 ≤ w) (hn : 1 ≤ n) (ha : WF w n a)
    (hb : WF w n b) (hrep : repS (M w n) (S w a + S w b)) (dbg : Bool) :
    ∃ r, KD.iOpAdd dbg w a b = .ok r ∧ WF w n r ∧ S w r = S w a + S w b := by
  cases dbg
  · obtain ⟨h1, h2⟩ := II.wrappingAdd_spec ha hb
    exact ⟨_, rfl, h1, by rw [h2, wrapS_of_rep (M_pos w n) hrep]⟩
  · exact ⟨_, ovfS_op (II.overflowingAdd_spec hw hn ha hb) hrep true⟩

theorem iOpSub_ok {w n : Nat} {a b : List Nat} (hw : 2 ≤ w) (hn : 1 ≤ n) (ha : WF w n a)
    (hb : WF w n b) (hrep : repS (M w n) (S w a - S w b)) (dbg : Bool) :
    ∃ r, KD.iOpSub dbg w a b = .ok r ∧ WF w n r ∧ S w r = S w a - S w b := by
  cases dbg
  · obtain ⟨h1, h2⟩ := II.wrappingSub_spec ha hb
    exact ⟨_, rfl, h1, by rw [h2, wrapS_of_rep (M_pos w n) hrep]⟩
  · exact ⟨_, ovfS_op (II.overflowingSub_spec hw hn ha hb) hrep true⟩

theorem uOpAdd_ok {w n : Nat} {a b : List Nat} (ha : WF w n a)
    (hb : WF w n b) (hrep : U w a + U w b < M w n) (dbg : Bool) :
    ∃ r, KD.uOpAdd dbg w a b = .ok r ∧ WF w n r ∧ U w r = U w a + U w b := by
  obtain ⟨h1, h2, h3⟩ := ovfU_op (UI.overflowingAdd_spec ha hb) (by unfold repU; omega) dbg
  exact ⟨_, h1, h2, by exact_mod_cast h3⟩

theorem uOpSub_ok {w n : Nat} {a b : List Nat} (ha : WF w n a)
    (hb : WF w n b) (hrep : U w b ≤ U w a) (dbg : Bool) :
    ∃ r, KD.uOpSub dbg w a b = .ok r ∧ WF w n r ∧ U w r = U w a - U w b := by
  have := U_lt ha
  obtain ⟨h1, h2, h3⟩ := ovfU_op (UI.overflowingSub_spec ha hb) (by unfold repU; omega) dbg
  exact ⟨_, h1, h2, by omega⟩

theorem S_inj {w n : Nat} {x y : List Nat} (hx : WF w n x) (hy : WF w n y)
    (h : S w x = S w y) : x = y := by
  apply U_injective hx hy
  have := S_cases hx; have := S_cases hy
  have := U_lt hx; have := U_lt hy
  omega

theorem isOne_iff_U {w n : Nat} {b : List Nat} (hw : 1 ≤ w) (hb : WF w n b) :
    isOne b = true ↔ U w b = 1 := by
  match b, hb with
  | [], _ => simp [isOne]
  | d :: ds, hb =>
    have hd : d < B w := hb.2 d (by simp)
    have hB := B_ge_two hw
    have hz := isZero_iff_U (w := w) ds
    unfold isOne
    by_cases h1 : d = 1
    · subst h1; simp only [bne_self_eq_false, Bool.false_eq_true, if_false, U_cons]
      rw [hz]; constructor
      · intro h; rw [h]; simp
      · intro h
        rcases Nat.eq_zero_or_pos (U w ds) with h0 | h0
        · exact h0
        · have : B w * 1 ≤ B w * U w ds := Nat.mul_le_mul_left _ h0
          omega
    · simp only [U_cons, bne_iff_ne, ne_eq, h1, not_false_eq_true, if_true, Bool.false_eq_true,
        false_iff]
      intro h
      rcases Nat.eq_zero_or_pos (U w ds) with h0 | h0
      · rw [h0] at h; omega
      · have : B w * 1 ≤ B w * U w ds := Nat.mul_le_mul_left _ h0
        omega

end DivL

/-- `BUint::div_rem_unchecked` is correct on all `n`-digit operands -/
def UDivSpec (w n : Nat) : Prop :=
  ∀ a b, WF w n a → WF w n b → U w b ≠ 0 → UDivRes w n a b

theorem UDivSpec_of_KnuthD {w n : Nat} (hK : KnuthD_correct w) (hw : 1 ≤ w) (hn : 1 ≤ n) :
    UDivSpec w n := fun _ _ ha hb hb0 => UI.u_divRem_spec hK hw hn ha hb hb0

/-- single-digit integers never reach Algorithm D -/
theorem UDivSpec_one {w : Nat} (hw : 1 ≤ w) : UDivSpec w 1 := by
  intro a b ha hb hb0
  refine UI.u_divRem_spec_partial hw (Nat.le_refl 1) ha hb hb0 (Or.inl ?_)
  match b, hb with
  | [d], _ => rfl
  | [], hb => exact absurd hb.1 (by simp)
  | _ :: _ :: _, hb => exact absurd hb.1 (by simp)

namespace II
open DivL

/-- the representable range in terms of `natAbs` -/
theorem S_natAbs_le {w n : Nat} {x : List Nat} (hw : 1 ≤ w) (hn : 1 ≤ n) (hx : WF w n x) :
    (S w x).natAbs ≤ M w n / 2 ∧ (0 ≤ S w x → (S w x).natAbs < M w n / 2) := by
  have h := S_repS hw hn hx
  have hm := M_even hw hn
  unfold repS at h
  omega

theorem i_divRemUnchecked_spec {w n : Nat} {a b : List Nat} (hw : 2 ≤ w) (hn : 1 ≤ n)
    (hU : UDivSpec w n) (ha : WF w n a) (hb : WF w n b) (hb0 : S w b ≠ 0)
    (hov : ¬ (S w a = -((M w n / 2 : Nat) : Int) ∧ S w b = -1)) (dbg : Bool) :
    ∃ q r, divRemUnchecked dbg w a b = .ok (q, r) ∧ WF w n q ∧ WF w n r ∧
      S w q = (S w a).tdiv (S w b) ∧ S w r = (S w a).tmod (S w b) := by
  have hw1 : 1 ≤ w := by omega
  have hM4 := M_ge_four hw hn
  have hme := M_even hw1 hn
  unfold divRemUnchecked
  rw [ha.1]
  by_cases hc : (II.eq a (iMin w n) && isOne b) = true
  · rw [if_pos hc]
    rw [Bool.and_eq_true] at hc
    obtain ⟨c1, c2⟩ := hc
    have e1 : a = iMin w n := by
      unfold II.eq at c1
      exact (UI.eq_iff a _ (by rw [ha.1, (WF_iMin hw1 hn).1])).mp c1
    have e2 : U w b = 1 := (isOne_iff_U hw1 hb).mp c2
    have e3 : S w b = 1 := by
      rw [S_eq hb]; unfold toInt; rw [e2, if_pos (by omega)]; rfl
    refine ⟨_, _, rfl, ha, WF_zero w n, ?_, ?_⟩
    · rw [e3, Int.tdiv_one]
    · rw [e3, S_zero]; simp
  · rw [if_neg hc]
    have hc' : ¬ (S w a = -((M w n / 2 : Nat) : Int) ∧ S w b = 1) := by
      rintro ⟨g1, g2⟩
      apply hc
      rw [Bool.and_eq_true]
      constructor
      · unfold II.eq
        rw [UI.eq_iff_U ha (WF_iMin hw1 hn)]
        have := S_inj ha (WF_iMin hw1 hn) (by rw [g1, S_iMin hw1 hn])
        rw [this]
      · rw [isOne_iff_U hw1 hb]
        have := S_of_nonneg hb (by omega)
        omega
    obtain ⟨wa, ua⟩ := unsignedAbs_spec hw hn ha
    obtain ⟨wb, ub⟩ := unsignedAbs_spec hw hn hb
    obtain ⟨q, r, hqr, wq, wr, uq, ur⟩ := hU _ _ wa wb (by rw [ub]; omega)
    rw [hqr]
    simp only
    rw [ua, ub] at uq ur
    -- facts about the magnitudes
    obtain ⟨ba1, ba2⟩ := S_natAbs_le hw1 hn ha
    obtain ⟨bb1, bb2⟩ := S_natAbs_le hw1 hn hb
    obtain ⟨f1, f2, f3, f4, f5, f6⟩ := tdiv_facts (S w a) (S w b) hb0
    obtain ⟨g1, g2⟩ := tdiv_sign (S w a) (S w b)
    have hq := Int.natAbs_tdiv (S w a) (S w b)
    change ((S w a).tdiv (S w b)).natAbs = (S w a).natAbs / (S w b).natAbs at hq
    have hr := Int.natAbs_tmod (S w a) (S w b)
    have h2q : 2 ≤ (S w b).natAbs → 2 * ((S w a).tdiv (S w b)).natAbs ≤ (S w a).natAbs := by
      intro h2
      have := Nat.div_add_mod (S w a).natAbs (S w b).natAbs
      have : 2 * ((S w a).natAbs / (S w b).natAbs) ≤ (S w b).natAbs * ((S w a).natAbs / (S w b).natAbs) :=
        Nat.mul_le_mul_right _ h2
      omega
    rw [← hq] at uq
    rw [← hr] at ur
    have sq := S_cases wq
    have sr := S_cases wr
    have ltq := S_repS hw1 hn wq
    have ltr := S_repS hw1 hn wr
    unfold repS at ltq ltr
    generalize (S w a).tdiv (S w b) = Q at *
    generalize (S w a).tmod (S w b) = R at *
    rw [isNegative_eq_decide hw1 hn ha, isNegative_eq_decide hw1 hn hb]
    by_cases na : S w a < 0 <;> by_cases nb : S w b < 0 <;>
      simp only [na, nb, decide_true, decide_false]
    · -- (true, true)
      obtain ⟨r', e1, e2, e3⟩ := iOpNeg_ok hw hn wr (by unfold repS; omega) dbg
      rw [e1]
      exact ⟨_, _, rfl, wq, e2, by omega, by omega⟩
    · -- (true, false)
      obtain ⟨q', d1, d2, d3⟩ := iOpNeg_ok hw hn wq (by unfold repS; omega) dbg
      obtain ⟨r', e1, e2, e3⟩ := iOpNeg_ok hw hn wr (by unfold repS; omega) dbg
      rw [d1]; simp only; rw [e1]
      exact ⟨_, _, rfl, d2, e2, by omega, by omega⟩
    · -- (false, true)
      obtain ⟨q', d1, d2, d3⟩ := iOpNeg_ok hw hn wq (by unfold repS; omega) dbg
      rw [d1]
      exact ⟨_, _, rfl, d2, wr, by omega, by omega⟩
    · exact ⟨_, _, rfl, wq, wr, by omega, by omega⟩

end II

namespace II
open DivL

/-! ### recognisers used by the signed guards -/

theorem S_negOne {w n : Nat} (hw : 1 ≤ w) (hn : 1 ≤ n) : S w (negOne w n) = -1 := by
  unfold negOne
  rw [S_eq (WF_allOnes w n), U_allOnes]
  have := M_even hw hn; have := M_pos w n
  unfold toInt; rw [if_neg (by omega)]; omega

theorem eq_iff_S' {w n : Nat} {a c : List Nat} (ha : WF w n a) (hc : WF w n c) :
    II.eq a c = true ↔ S w a = S w c := by
  unfold II.eq
  rw [UI.eq_iff a c (by rw [ha.1, hc.1])]
  exact ⟨fun h => by rw [h], S_inj ha hc⟩

theorem WF_negOne (w n : Nat) : WF w n (negOne w n) := WF_allOnes w n

theorem eqMin_iff {w n : Nat} {a : List Nat} (hw : 1 ≤ w) (hn : 1 ≤ n) (ha : WF w n a) :
    II.eq a (iMin w n) = true ↔ S w a = -((M w n / 2 : Nat) : Int) := by
  rw [eq_iff_S' ha (WF_iMin hw hn), S_iMin hw hn]

theorem eqNegOne_iff {w n : Nat} {b : List Nat} (hw : 1 ≤ w) (hn : 1 ≤ n) (hb : WF w n b) :
    II.eq b (negOne w n) = true ↔ S w b = -1 := by
  rw [eq_iff_S' hb (WF_negOne w n), S_negOne hw hn]

theorem isOne_iff_S {w n : Nat} {b : List Nat} (hw : 2 ≤ w) (hn : 1 ≤ n) (hb : WF w n b) :
    isOne b = true ↔ S w b = 1 := by
  rw [isOne_iff_U (by omega) hb, S_eq hb]
  have := U_lt hb; have := M_ge_four hw hn
  unfold toInt; split <;> omega

theorem isZero_iff_S {w n : Nat} {b : List Nat} (hb : WF w n b) :
    isZero b = true ↔ S w b = 0 := by
  rw [isZero_iff_U (w := w), S_eq hb]
  have := U_lt hb
  unfold toInt; split <;> omega

/-- the guard of the overflowing forms: `self == MIN && rhs == NEG_ONE` -/
theorem ovfGuard_iff {w n : Nat} {a b : List Nat} (hw : 1 ≤ w) (hn : 1 ≤ n) (ha : WF w n a)
    (hb : WF w n b) : (II.eq a (iMin w n) && II.eq b (negOne w n)) = true ↔
      (S w a = -((M w n / 2 : Nat) : Int) ∧ S w b = -1) := by
  rw [Bool.and_eq_true, eqMin_iff hw hn ha, eqNegOne_iff hw hn hb]

theorem ovfGuard_false {w n : Nat} {a b : List Nat} (hw : 1 ≤ w) (hn : 1 ≤ n) (ha : WF w n a)
    (hb : WF w n b) (hov : ¬ (S w a = -((M w n / 2 : Nat) : Int) ∧ S w b = -1)) :
    (II.eq a (iMin w n) && II.eq b (negOne w n)) = false := by
  rw [← Bool.not_eq_true, ovfGuard_iff hw hn ha hb]; exact hov

theorem isZero_false {w n : Nat} {b : List Nat} (hb : WF w n b) (hb0 : S w b ≠ 0) :
    isZero b = false := by
  rw [← Bool.not_eq_true, isZero_iff_S hb]; exact hb0

/-! ### the four `overflowing_*` forms away from the two exceptional divisors -/

section
variable {w n : Nat} {a b : List Nat} (hw : 2 ≤ w) (hn : 1 ≤ n) (hU : UDivSpec w n)
  (ha : WF w n a) (hb : WF w n b) (hb0 : S w b ≠ 0)
  (hov : ¬ (S w a = -((M w n / 2 : Nat) : Int) ∧ S w b = -1)) (dbg : Bool)
include hw hn hU ha hb hb0 hov

theorem i_overflowingDiv_spec :
    ∃ q, overflowingDiv dbg w a b = .ok (q, false) ∧ WF w n q ∧ S w q = (S w a).tdiv (S w b) := by
  have hw1 : 1 ≤ w := by omega
  unfold overflowingDiv
  rw [ha.1]; dsimp only
  rw [isZero_false hb hb0, ovfGuard_false hw1 hn ha hb hov]
  simp only [Bool.false_eq_true, if_false]
  by_cases hc : (II.eq a (iMin w n) && isOne b) = true
  · rw [if_pos hc]
    rw [Bool.and_eq_true, isOne_iff_S hw hn hb] at hc
    exact ⟨_, rfl, ha, by rw [hc.2, Int.tdiv_one]⟩
  · rw [if_neg hc]
    obtain ⟨q, r, h, wq, -, sq, -⟩ := i_divRemUnchecked_spec hw hn hU ha hb hb0 hov dbg
    rw [h]; exact ⟨_, rfl, wq, sq⟩

theorem i_overflowingRem_spec :
    ∃ r, overflowingRem dbg w a b = .ok (r, false) ∧ WF w n r ∧ S w r = (S w a).tmod (S w b) := by
  have hw1 : 1 ≤ w := by omega
  unfold overflowingRem
  rw [ha.1]; dsimp only
  rw [isZero_false hb hb0, ovfGuard_false hw1 hn ha hb hov]
  simp only [Bool.false_eq_true, if_false]
  obtain ⟨q, r, h, -, wr, -, sr⟩ := i_divRemUnchecked_spec hw hn hU ha hb hb0 hov dbg
  rw [h]; exact ⟨_, rfl, wr, sr⟩

theorem i_overflowingDivEuclid_spec :
    ∃ q, overflowingDivEuclid dbg w a b = .ok (q, false) ∧ WF w n q ∧ S w q = S w a / S w b := by
  have hw1 : 1 ≤ w := by omega
  unfold overflowingDivEuclid
  rw [ha.1]; dsimp only
  rw [isZero_false hb hb0, ovfGuard_false hw1 hn ha hb hov]
  simp only [Bool.false_eq_true, if_false]
  by_cases hc : (II.eq a (iMin w n) && isOne b) = true
  · rw [if_pos hc]
    rw [Bool.and_eq_true, isOne_iff_S hw hn hb] at hc
    exact ⟨_, rfl, ha, by rw [hc.2, Int.ediv_one]⟩
  · rw [if_neg hc]
    obtain ⟨q, r, h, wq, wr, sq, sr⟩ := i_divRemUnchecked_spec hw hn hU ha hb hb0 hov dbg
    rw [h]; simp only
    rw [ediv_of_tdiv _ _ hb0, ← sq, ← sr]
    rw [isNegative_eq_decide hw1 hn ha, isNegative_eq_decide hw1 hn hb]
    have hz : isZero r = decide (S w r = 0) := bool_eq_decide (isZero_iff_S wr)
    rw [hz]
    obtain ⟨ba1, -⟩ := S_natAbs_le hw1 hn ha
    obtain ⟨-, -, f3, -, -, -⟩ := tdiv_facts (S w a) (S w b) hb0
    rw [← sq, ← sr] at f3
    have hM4 := M_ge_four hw hn
    have hme := M_even hw1 hn
    have s1 := S_one (n := n) hw hn
    by_cases na : S w a < 0 <;> by_cases nr : S w r = 0 <;>
      simp only [na, nr, decide_true, decide_false, Bool.and_true, Bool.and_false, Bool.not_true,
        Bool.not_false, Bool.false_eq_true, if_false, if_true,
        true_and, false_and, ne_eq, not_true, not_false_iff]
    · exact ⟨_, rfl, wq, rfl⟩
    · by_cases nb : S w b < 0 <;> simp only [nb, decide_true, decide_false, if_true, if_false,
        Bool.false_eq_true]
      · obtain ⟨d, e1, e2, e3⟩ := iOpAdd_ok hw hn wq (WF_one hw1 hn)
          (by rw [s1]; unfold repS; omega) dbg
        rw [e1]; exact ⟨_, rfl, e2, by rw [e3, s1]⟩
      · obtain ⟨d, e1, e2, e3⟩ := iOpSub_ok hw hn wq (WF_one hw1 hn)
          (by rw [s1]; unfold repS; omega) dbg
        rw [e1]; exact ⟨_, rfl, e2, by rw [e3, s1]⟩
    · exact ⟨_, rfl, wq, rfl⟩
    · exact ⟨_, rfl, wq, rfl⟩

theorem i_overflowingRemEuclid_spec :
    ∃ r, overflowingRemEuclid dbg w a b = .ok (r, false) ∧ WF w n r ∧ S w r = S w a % S w b := by
  have hw1 : 1 ≤ w := by omega
  unfold overflowingRemEuclid
  rw [ha.1]; dsimp only
  rw [isZero_false hb hb0, ovfGuard_false hw1 hn ha hb hov]
  simp only [Bool.false_eq_true, if_false]
  obtain ⟨q, r, h, wq, wr, sq, sr⟩ := i_divRemUnchecked_spec hw hn hU ha hb hb0 hov dbg
  rw [h]; simp only
  rw [emod_of_tmod _ _ hb0, ← sr]
  rw [isNegative_eq_decide hw1 hn wr, isNegative_eq_decide hw1 hn hb]
  obtain ⟨bb1, -⟩ := S_natAbs_le hw1 hn hb
  obtain ⟨-, f2, -, -, -, -⟩ := tdiv_facts (S w a) (S w b) hb0
  rw [← sr] at f2
  have hme := M_even hw1 hn
  by_cases nr : S w r < 0 <;> simp only [nr, decide_true, decide_false, if_true, if_false,
    Bool.false_eq_true]
  · by_cases nb : S w b < 0 <;> simp only [nb, decide_true, decide_false, if_true, if_false,
      Bool.false_eq_true]
    · obtain ⟨e1, e2⟩ := wrappingSub_spec wr hb
      exact ⟨_, rfl, e1, by rw [e2, wrapS_of_rep (M_pos w n) (by unfold repS; omega)]⟩
    · obtain ⟨e1, e2⟩ := wrappingAdd_spec wr hb
      exact ⟨_, rfl, e1, by rw [e2, wrapS_of_rep (M_pos w n) (by unfold repS; omega)]⟩
  · exact ⟨_, rfl, wr, rfl⟩

end
end II

namespace II
open DivL

section
variable {w n : Nat} {a b : List Nat} (hw : 2 ≤ w) (hn : 1 ≤ n) (hU : UDivSpec w n)
  (ha : WF w n a) (hb : WF w n b) (hb0 : S w b ≠ 0)
include hw hn hU ha hb hb0

/-- `wrapping_rem_euclid` is total on non-zero divisors (`MIN % -1 = 0` included) -/
theorem i_wrappingRemEuclid_spec (dbg : Bool) :
    ∃ r, wrappingRemEuclid dbg w a b = .ok r ∧ WF w n r ∧ S w r = S w a % S w b := by
  have hw1 : 1 ≤ w := by omega
  unfold wrappingRemEuclid
  by_cases hov : (S w a = -((M w n / 2 : Nat) : Int) ∧ S w b = -1)
  · unfold overflowingRemEuclid
    rw [ha.1]; dsimp only
    rw [isZero_false hb hb0, (ovfGuard_iff hw1 hn ha hb).mpr hov]
    simp only [Bool.false_eq_true, if_false, if_true, Outcome.map]
    exact ⟨_, rfl, WF_zero w n, by rw [S_zero, hov.2]; simp⟩
  · obtain ⟨r, h, wr, sr⟩ := i_overflowingRemEuclid_spec hw hn hU ha hb hb0 hov dbg
    rw [h]; exact ⟨_, rfl, wr, sr⟩

theorem i_divFloor_spec (hov : ¬ (S w a = -((M w n / 2 : Nat) : Int) ∧ S w b = -1)) (dbg : Bool) :
    ∃ q, divFloor dbg w a b = .ok q ∧ WF w n q ∧ S w q = (S w a).fdiv (S w b) := by
  have hw1 : 1 ≤ w := by omega
  unfold divFloor
  rw [isZero_false hb hb0]
  simp only [Bool.false_eq_true, if_false]
  obtain ⟨q, r, h, wq, wr, sq, sr⟩ := i_divRemUnchecked_spec hw hn hU ha hb hb0 hov dbg
  rw [h]; simp only
  rw [fdiv_of_tdiv _ _ hb0, ← sq, ← sr]
  rw [isNegative_eq_decide hw1 hn ha, isNegative_eq_decide hw1 hn hb]
  have hz : isZero r = decide (S w r = 0) := bool_eq_decide (isZero_iff_S wr)
  rw [hz, ha.1]
  obtain ⟨ba1, -⟩ := S_natAbs_le hw1 hn ha
  obtain ⟨-, -, f3, -, -, -⟩ := tdiv_facts (S w a) (S w b) hb0
  obtain ⟨-, g2⟩ := tdiv_sign (S w a) (S w b)
  rw [← sq, ← sr] at f3
  rw [← sq] at g2
  have hM4 := M_ge_four hw hn
  have hme := M_even hw1 hn
  have s1 := S_one (n := n) hw hn
  by_cases nr : S w r = 0
  · simp only [nr, decide_true, Bool.true_or, if_true, true_or]
    exact ⟨_, rfl, wq, rfl⟩
  · by_cases na : S w a < 0 <;> by_cases nb : S w b < 0 <;>
      simp only [na, nb, nr, decide_true, decide_false, Bool.false_or, beq_self_eq_true, if_true,
        false_or, iff_self, iff_true, iff_false, not_true, if_false,
        Bool.false_eq_true, show (true == false) = false from rfl,
        show (false == true) = false from rfl]
    · exact ⟨_, rfl, wq, rfl⟩
    · obtain ⟨d, e1, e2, e3⟩ := iOpSub_ok hw hn wq (WF_one hw1 hn)
        (by rw [s1]; unfold repS; omega) dbg
      rw [e1]; exact ⟨_, rfl, e2, by rw [e3, s1]⟩
    · obtain ⟨d, e1, e2, e3⟩ := iOpSub_ok hw hn wq (WF_one hw1 hn)
        (by rw [s1]; unfold repS; omega) dbg
      rw [e1]; exact ⟨_, rfl, e2, by rw [e3, s1]⟩
    · exact ⟨_, rfl, wq, rfl⟩

theorem i_divCeil_spec (hov : ¬ (S w a = -((M w n / 2 : Nat) : Int) ∧ S w b = -1)) (dbg : Bool) :
    ∃ q, divCeil dbg w a b = .ok q ∧ WF w n q ∧ S w q = Spec.cdiv (S w a) (S w b) := by
  have hw1 : 1 ≤ w := by omega
  unfold divCeil
  rw [isZero_false hb hb0]
  simp only [Bool.false_eq_true, if_false]
  obtain ⟨q, r, h, wq, wr, sq, sr⟩ := i_divRemUnchecked_spec hw hn hU ha hb hb0 hov dbg
  rw [h]; simp only
  rw [cdiv_of_tdiv _ _ hb0, ← sq, ← sr]
  rw [isNegative_eq_decide hw1 hn ha, isNegative_eq_decide hw1 hn hb]
  have hz : isZero r = decide (S w r = 0) := bool_eq_decide (isZero_iff_S wr)
  rw [hz, ha.1]
  obtain ⟨ba1, -⟩ := S_natAbs_le hw1 hn ha
  obtain ⟨-, -, f3, -, -, -⟩ := tdiv_facts (S w a) (S w b) hb0
  obtain ⟨g1, -⟩ := tdiv_sign (S w a) (S w b)
  rw [← sq, ← sr] at f3
  rw [← sq] at g1
  have hM4 := M_ge_four hw hn
  have hme := M_even hw1 hn
  have s1 := S_one (n := n) hw hn
  by_cases nr : S w r = 0
  · simp only [nr, decide_true, Bool.true_or, if_true, true_or]
    exact ⟨_, rfl, wq, rfl⟩
  · by_cases na : S w a < 0 <;> by_cases nb : S w b < 0 <;>
      simp only [na, nb, nr, decide_true, decide_false, Bool.false_or, bne_self_eq_false, if_true,
        false_or, iff_self, iff_true, iff_false, not_true, not_false_iff, if_false,
        Bool.false_eq_true, show (true != false) = true from rfl,
        show (false != true) = true from rfl]
    · obtain ⟨d, e1, e2, e3⟩ := iOpAdd_ok hw hn wq (WF_one hw1 hn)
        (by rw [s1]; unfold repS; omega) dbg
      rw [e1]; exact ⟨_, rfl, e2, by rw [e3, s1]⟩
    · exact ⟨_, rfl, wq, rfl⟩
    · exact ⟨_, rfl, wq, rfl⟩
    · obtain ⟨d, e1, e2, e3⟩ := iOpAdd_ok hw hn wq (WF_one hw1 hn)
        (by rw [s1]; unfold repS; omega) dbg
      rw [e1]; exact ⟨_, rfl, e2, by rw [e3, s1]⟩

theorem i_nextMultipleOf_spec (hrep : repS (M w n) (Spec.nextMultiple (S w a) (S w b)))
    (dbg : Bool) :
    ∃ r, nextMultipleOf dbg w a b = .ok r ∧ WF w n r ∧
      S w r = Spec.nextMultiple (S w a) (S w b) := by
  have hw1 : 1 ≤ w := by omega
  unfold nextMultipleOf
  obtain ⟨r, h, wr, sr⟩ := i_wrappingRemEuclid_spec hw hn hU ha hb hb0 dbg
  rw [h]; simp only
  rw [nextMultiple_eq _ _ hb0, ← sr] at hrep ⊢
  have hz : isZero r = decide (S w r = 0) := bool_eq_decide (isZero_iff_S wr)
  rw [hz, isNegative_eq_decide hw1 hn wr, isNegative_eq_decide hw1 hn hb]
  have hnn : 0 ≤ S w r := by rw [sr]; exact Int.emod_nonneg _ hb0
  have hlt : S w r < (S w b).natAbs := by rw [sr]; have := Int.emod_lt (S w a) hb0; omega
  have rb := S_repS hw1 hn hb
  unfold repS at rb
  have hme := M_even hw1 hn
  by_cases nr : S w r = 0
  · simp only [nr, decide_true, if_true]
    exact ⟨_, rfl, ha, rfl⟩
  · have nrn : ¬ S w r < 0 := by omega
    simp only [nr, nrn, decide_false, Bool.false_eq_true, if_false] at hrep ⊢
    by_cases nb : S w b < 0
    · have pb : ¬ 0 < S w b := by omega
      simp only [nb, pb, decide_true, if_false, show (false == true) = false from rfl,
        Bool.false_eq_true] at hrep ⊢
      obtain ⟨d, e1, e2, e3⟩ := iOpSub_ok hw hn ha wr hrep dbg
      exact ⟨_, e1, e2, e3⟩
    · have pb : 0 < S w b := by omega
      simp only [nb, pb, decide_false, if_true, beq_self_eq_true] at hrep ⊢
      obtain ⟨s, c1, c2, c3⟩ := iOpSub_ok hw hn hb wr (by unfold repS; omega) dbg
      rw [c1]; simp only
      obtain ⟨d, e1, e2, e3⟩ := iOpAdd_ok hw hn ha c2 (by rw [c3]; exact hrep) dbg
      exact ⟨_, e1, e2, by rw [e3, c3]⟩

theorem i_checkedNextMultipleOf_spec (dbg : Bool) :
    ∃ o, checkedNextMultipleOf dbg w a b = .ok o ∧
      (o = none ↔ ¬ repS (M w n) (Spec.nextMultiple (S w a) (S w b))) ∧
      (∀ r, o = some r → WF w n r ∧ S w r = Spec.nextMultiple (S w a) (S w b)) := by
  have hw1 : 1 ≤ w := by omega
  unfold checkedNextMultipleOf
  rw [isZero_false hb hb0]
  simp only [Bool.false_eq_true, if_false]
  obtain ⟨r, h, wr, sr⟩ := i_wrappingRemEuclid_spec hw hn hU ha hb hb0 dbg
  rw [h]; simp only
  rw [nextMultiple_eq _ _ hb0, ← sr]
  have hz : isZero r = decide (S w r = 0) := bool_eq_decide (isZero_iff_S wr)
  rw [hz, isNegative_eq_decide hw1 hn wr, isNegative_eq_decide hw1 hn hb]
  have hnn : 0 ≤ S w r := by rw [sr]; exact Int.emod_nonneg _ hb0
  have hlt : S w r < (S w b).natAbs := by rw [sr]; have := Int.emod_lt (S w a) hb0; omega
  have rb := S_repS hw1 hn hb
  unfold repS at rb
  have hme := M_even hw1 hn
  by_cases nr : S w r = 0
  · simp only [nr, decide_true, if_true]
    refine ⟨_, rfl, ?_, ?_⟩
    · simp; exact S_repS hw1 hn ha
    · intro r' hr'; cases hr'; exact ⟨ha, rfl⟩
  · have nrn : ¬ S w r < 0 := by omega
    simp only [nr, nrn, decide_false, Bool.false_eq_true, if_false]
    by_cases nb : S w b < 0
    · have pb : ¬ 0 < S w b := by omega
      simp only [nb, pb, decide_true, if_false, show (false == true) = false from rfl,
        Bool.false_eq_true]
      exact ⟨_, rfl, (II.overflowingSub_spec hw hn ha wr).checked⟩
    · have pb : 0 < S w b := by omega
      simp only [nb, pb, decide_false, if_true, beq_self_eq_true]
      obtain ⟨c2, c3⟩ := wrappingSub_spec hb wr
      rw [wrapS_of_rep (M_pos w n) (by unfold repS; omega)] at c3
      have := (II.overflowingAdd_spec hw hn ha c2).checked
      rw [c3] at this
      exact ⟨_, rfl, this⟩

end
end II
end Bnum
