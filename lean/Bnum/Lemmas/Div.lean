/-
  Bnum.Lemmas.Div — C03: short division, the dispatch of `div_rem_unchecked`, the obligation
  `KnuthD_correct`, pure `Int` facts about the four rounding conventions, the signed layer.
-/
import Bnum.Lemmas.Cmp
import Bnum.Model.Div
namespace Bnum

/-- `x ||| y = x + y` when `x` is a multiple of `2^w` and `y < 2^w` -/
theorem mul_B_or {w : Nat} (h l : Nat) (hl : l < B w) : (h * B w) ||| l = h * B w + l := by
  unfold B at *
  rw [Nat.mul_comm]; exact (Nat.two_pow_add_eq_or_of_lt hl h).symm

namespace Digit

theorem divRemWide_spec {w low high rhs : Nat} (h1 : high < rhs) (h2 : rhs < B w) (h3 : low < B w) :
    (divRemWide w low high rhs).1 * rhs + (divRemWide w low high rhs).2 = high * B w + low ∧
    (divRemWide w low high rhs).2 < rhs ∧ (divRemWide w low high rhs).1 < B w := by
  unfold divRemWide
  have hB := B_pos w
  have hlt : high * B w < B w * B w := Nat.mul_lt_mul_of_pos_right (by omega) hB
  simp only
  rw [Nat.mod_eq_of_lt hlt, mul_B_or high low h3]
  have hpos : 0 < rhs := by omega
  have ha : high * B w + low < rhs * B w := by
    have : (high + 1) * B w ≤ rhs * B w := Nat.mul_le_mul_right _ h1
    rw [Nat.add_mul] at this; omega
  generalize high * B w + low = a at *
  have hq : a / rhs < B w := (Nat.div_lt_iff_lt_mul hpos).mpr (by rw [Nat.mul_comm]; exact ha)
  have hr : a % rhs < rhs := Nat.mod_lt _ hpos
  rw [Nat.mod_eq_of_lt hq, Nat.mod_eq_of_lt (by omega)]
  refine ⟨?_, hr, hq⟩
  rw [Nat.mul_comm]; exact Nat.div_add_mod a rhs

end Digit

namespace UI

theorem divRemDigitLoop_spec {w d : Nat} (hd0 : 0 < d) (hd : d < B w) :
    ∀ (n : Nat) (a : List Nat), WF w n a →
    U w (divRemDigitLoop w d a).1 * d + (divRemDigitLoop w d a).2 = U w a ∧
    (divRemDigitLoop w d a).2 < d ∧ WF w n (divRemDigitLoop w d a).1 := by
  intro n
  induction n with
  | zero =>
    intro a ha
    have := ha.1; simp at this; subst this
    simp [divRemDigitLoop, WF_nil, hd0]
  | succ n ih =>
    intro a ha
    match a, ha with
    | x :: xs, ha =>
      rw [WF_cons] at ha
      obtain ⟨h1, h2, h3⟩ := ih xs ha.2
      simp only [divRemDigitLoop]
      obtain ⟨g1, g2, g3⟩ := Digit.divRemWide_spec (w := w) (low := x) h2 hd ha.1
      refine ⟨?_, g2, WF_cons.mpr ⟨g3, h3⟩⟩
      simp only [U_cons]
      generalize (Digit.divRemWide w x (divRemDigitLoop w d xs).2 d).1 = q0 at *
      generalize (Digit.divRemWide w x (divRemDigitLoop w d xs).2 d).2 = r0 at *
      generalize (divRemDigitLoop w d xs).2 = r1 at *
      generalize U w (divRemDigitLoop w d xs).1 = q1 at *
      rw [← h1]
      have : B w * (q1 * d + r1) = B w * q1 * d + r1 * B w := by ring
      rw [this]
      have : (q0 + B w * q1) * d = q0 * d + B w * q1 * d := by ring
      rw [this]; omega
    | [], ha => exact absurd ha.1 (by simp)

theorem u_divRemDigit_spec {w n d : Nat} {a : List Nat} (hd0 : 0 < d) (hd : d < B w)
    (ha : WF w n a) :
    ∃ q r, divRemDigit w a d = .ok (q, r) ∧ U w q * d + r = U w a ∧ r < d ∧ WF w n q := by
  refine ⟨(divRemDigitLoop w d a).1, (divRemDigitLoop w d a).2, ?_, divRemDigitLoop_spec hd0 hd n a ha⟩
  unfold divRemDigit
  rw [if_neg (by omega)]

end UI

namespace DivL

theorem isZero_iff_U {w : Nat} : ∀ (x : List Nat), isZero x = true ↔ U w x = 0
  | [] => by simp [isZero]
  | d :: ds => by
    have ih := isZero_iff_U (w := w) ds
    have hB := B_pos w
    unfold isZero
    by_cases hd : d = 0
    · subst hd; simp [ih]; omega
    · simp [hd]

theorem isZero_false_iff_U {w : Nat} (x : List Nat) : isZero x = false ↔ U w x ≠ 0 := by
  have := isZero_iff_U (w := w) x
  cases h : isZero x <;> simp_all

theorem go_eq_zero : ∀ (ds : List Nat) (i idx : Nat), 0 < i →
    (lastDigitIndex.go ds i idx = 0 ↔ idx = 0 ∧ ∀ d ∈ ds, d = 0)
  | [], i, idx, _ => by simp [lastDigitIndex.go]
  | d :: ds, i, idx, hi => by
    simp only [lastDigitIndex.go]
    rw [go_eq_zero ds (i + 1) _ (by omega)]
    by_cases hd : d = 0
    · subst hd; simp
    · simp [hd]; omega

theorem U_of_all_zero {w : Nat} : ∀ (ds : List Nat), (∀ d ∈ ds, d = 0) → U w ds = 0
  | [], _ => rfl
  | d :: ds, h => by
    have h1 : d = 0 := h d (by simp)
    have h2 := U_of_all_zero (w := w) ds (fun e he => h e (by simp [he]))
    simp [h1, h2]

/-- a divisor with `last_digit_index = 0` is its lowest digit -/
theorem ldi_zero {w n : Nat} {b : List Nat} (hb : WF w n b) (h : lastDigitIndex b = 0) :
    U w b = b.headD 0 ∧ b.headD 0 < B w := by
  match b, hb with
  | [], _ => simp [B_pos]
  | d :: ds, hb =>
    unfold lastDigitIndex at h
    simp only at h
    rw [go_eq_zero ds 1 0 (by omega)] at h
    have hd : d < B w := hb.2 d (by simp)
    simp [U_of_all_zero ds h.2, hd]

end DivL

/-- the one obligation the multi-digit path rests on: `basecase_div_rem` (Knuth's Algorithm D)
    returns quotient and remainder whenever it is called by `div_rem_unchecked`, i.e. for a divisor
    of at least two significant digits that is smaller than the dividend -/
def KnuthD_correct (w : Nat) : Prop :=
  ∀ (n : Nat) (a b : List Nat), WF w n a → WF w n b → lastDigitIndex b ≠ 0 → U w b < U w a →
    ∃ q r, KD.basecaseDivRem w a b (lastDigitIndex b + 1) = .ok (q, r) ∧ WF w n q ∧ WF w n r ∧
      U w q = U w a / U w b ∧ U w r = U w a % U w b

/-- what `BUint::div_rem_unchecked` has to deliver on one pair of operands -/
def UDivRes (w n : Nat) (a b : List Nat) : Prop :=
  ∃ q r, UI.divRemUnchecked w a b = .ok (q, r) ∧ WF w n q ∧ WF w n r ∧
    U w q = U w a / U w b ∧ U w r = U w a % U w b

namespace UI

/-- `div_rem_unchecked` is correct on every pair that does not reach Algorithm D … -/
theorem u_divRem_spec_partial {w n : Nat} {a b : List Nat} (hw : 1 ≤ w) (hn : 1 ≤ n)
    (ha : WF w n a) (hb : WF w n b) (hb0 : U w b ≠ 0)
    (hpath : lastDigitIndex b = 0 ∨ U w a ≤ U w b ∨ KnuthD_correct w) : UDivRes w n a b := by
  unfold UDivRes divRemUnchecked
  rw [ha.1]
  by_cases hz : isZero a = true
  · have h0 := (DivL.isZero_iff_U (w := w) a).mp hz
    simp only [hz, if_true]
    exact ⟨_, _, rfl, WF_zero w n, WF_zero w n, by simp [U_zero, h0], by simp [U_zero, h0]⟩
  · have h0 : U w a ≠ 0 := fun h => hz ((DivL.isZero_iff_U (w := w) a).mpr h)
    simp only [hz]
    rw [cmp_spec ha hb]
    have hbpos : 0 < U w b := by omega
    rcases Nat.lt_trichotomy (U w a) (U w b) with hlt | heq | hgt
    · rw [Nat.compare_eq_lt.mpr hlt]
      exact ⟨_, _, rfl, WF_zero w n, ha, by rw [U_zero, Nat.div_eq_of_lt hlt],
        by rw [Nat.mod_eq_of_lt hlt]⟩
    · rw [Nat.compare_eq_eq.mpr heq]
      exact ⟨_, _, rfl, WF_one hw hn, WF_zero w n, by rw [U_one hn, heq, Nat.div_self hbpos],
        by rw [U_zero, heq, Nat.mod_self]⟩
    · rw [Nat.compare_eq_gt.mpr hgt]
      simp only
      by_cases hl : lastDigitIndex b = 0
      · obtain ⟨e1, e2⟩ := DivL.ldi_zero hb hl
        simp only [hl, beq_self_eq_true, if_true]
        obtain ⟨q, r, h1, h2, h3, h4⟩ := u_divRemDigit_spec (w := w) (d := b.headD 0) (by omega) e2 ha
        rw [h1]
        refine ⟨_, _, rfl, h4, WF_fromDigit hn (by omega), ?_, ?_⟩
        · simp only; rw [e1]
          have : U w a = (b.headD 0) * U w q + r := by rw [Nat.mul_comm]; omega
          rw [this, Nat.mul_add_div (by omega), Nat.div_eq_of_lt h3]; omega
        · simp only; rw [U_fromDigit _ hn, e1]
          have : U w a = (b.headD 0) * U w q + r := by rw [Nat.mul_comm]; omega
          rw [this, Nat.mul_add_mod, Nat.mod_eq_of_lt h3]
      · have hl' : (lastDigitIndex b == 0) = false := by simpa using hl
        simp only [hl', Bool.false_eq_true, if_false]
        rcases hpath with h | h | hK
        · exact absurd h hl
        · omega
        · exact hK n a b ha hb hl hgt

/-- … and on every pair once Algorithm D is granted -/
theorem u_divRem_spec {w n : Nat} {a b : List Nat} (hK : KnuthD_correct w) (hw : 1 ≤ w) (hn : 1 ≤ n)
    (ha : WF w n a) (hb : WF w n b) (hb0 : U w b ≠ 0) : UDivRes w n a b :=
  u_divRem_spec_partial hw hn ha hb hb0 (Or.inr (Or.inr hK))

end UI
end Bnum
