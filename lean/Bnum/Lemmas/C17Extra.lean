/-
  Bnum.Lemmas.C17Extra — helper lemmas for the additions of Bnum.Model.C17Extra:
  the primitive-amount shift impls read on a target with 16-, 32- or 64-bit pointers.
-/
import Bnum.Lemmas.Ops
import Bnum.Model.C17Extra
namespace Bnum
namespace Ops

/-- on the 64-bit target `shiftPrimAt` is the `shiftPrim` of Model/Ops.lean -/
theorem shiftPrimAt_64 (dbg : Bool) (t : PrimTy) (method : Nat → Outcome (List Nat)) (p : Nat) :
    shiftPrimAt 64 dbg t method p = shiftPrim dbg t method p := by
  cases t <;> rfl

theorem valAt_64 (t : PrimTy) (p : Nat) : t.valAt 64 p = t.val p := by cases t <;> rfl
theorem bitsAt_64 (t : PrimTy) : t.bitsAt 64 = t.bits := by cases t <;> rfl

/-- `rhs as u32` is the value reduced mod `2^32` (two's complement for negative values) -/
theorem asExpAt_eq {pw : Nat} (hpw : pw = 16 ∨ pw = 32 ∨ pw = 64) (t : PrimTy) {p : Nat}
    (hp : p < B (t.bitsAt pw)) : (asExpAt pw t p : Int) = t.valAt pw p % 2 ^ 32 := by
  rcases hpw with rfl | rfl | rfl <;> cases t <;>
    simp only [asExpAt, PInt.cast, PrimTy.valAt, PrimTy.bitsAt, PrimTy.bits, PrimTy.signed, B,
      toInt] at hp ⊢ <;>
    norm_num at hp ⊢ <;> (try split_ifs) <;> omega

/-- `u32::try_from(rhs)` fails iff the value is negative or `≥ 2^32` -/
theorem tryFromPrimAt_eq {pw : Nat} (hpw : pw = 16 ∨ pw = 32 ∨ pw = 64) (t : PrimTy) {p : Nat}
    (hp : p < B (t.bitsAt pw)) :
    tryFromPrimAt pw t p =
      if 0 ≤ t.valAt pw p ∧ t.valAt pw p < 2 ^ 32 then some (t.valAt pw p).toNat else none := by
  rcases hpw with rfl | rfl | rfl <;> cases t <;>
    simp only [tryFromPrimAt, PInt.isNeg, PrimTy.valAt, PrimTy.bitsAt, PrimTy.bits, PrimTy.signed,
      B, toInt] at hp ⊢ <;>
    norm_num at hp ⊢ <;> (repeat' split_ifs) <;> (try simp) <;> omega

/-- u8, u16, u32 values always fit `u32` -/
theorem valAt_range_of_cast {pw : Nat} {t : PrimTy} (h : t.impl ≠ .tryFrom) {p : Nat}
    (hp : p < B (t.bitsAt pw)) : 0 ≤ t.valAt pw p ∧ t.valAt pw p < 2 ^ 32 := by
  cases t <;> simp [PrimTy.impl] at h <;>
    simp only [PrimTy.valAt, PrimTy.bitsAt, PrimTy.bits, PrimTy.signed, B] at hp ⊢ <;>
    norm_num at hp ⊢ <;> omega

/-- `shiftPrim_eq` on a target with 16-, 32- or 64-bit pointers -/
theorem shiftPrimAt_eq {pw : Nat} (hpw : pw = 16 ∨ pw = 32 ∨ pw = 64) (dbg : Bool) (t : PrimTy)
    (method : Nat → Outcome (List Nat)) {p : Nat} (hp : p < B (t.bitsAt pw)) :
    shiftPrimAt pw dbg t method p =
      if dbg = true ∧ ¬ (0 ≤ t.valAt pw p ∧ t.valAt pw p < 2 ^ 32) then .panic
      else method (t.valAt pw p % 2 ^ 32).toNat := by
  have h1 := asExpAt_eq hpw t hp
  have h2 := tryFromPrimAt_eq hpw t hp
  have h1' : asExpAt pw t p = (t.valAt pw p % 2 ^ 32).toNat := by omega
  unfold shiftPrimAt
  cases hI : t.impl
  · have hr := valAt_range_of_cast (pw := pw) (t := t) (by rw [hI]; decide) hp
    have : t = .u32 := by cases t <;> simp [PrimTy.impl] at hI <;> rfl
    subst this
    simp only [PrimTy.valAt, PrimTy.signed] at hr ⊢
    simp only [hr, and_self, not_true_eq_false, and_false, if_false]
    congr 1
    simp at hr ⊢; omega
  · have hr := valAt_range_of_cast (pw := pw) (t := t) (by rw [hI]; decide) hp
    simp only [hr, and_self, not_true_eq_false, and_false, if_false, h1']
  · simp only [h2, h1']
    cases dbg
    · simp
    · by_cases hr : 0 ≤ t.valAt pw p ∧ t.valAt pw p < 2 ^ 32
      · simp only [hr, and_self, if_true, not_true_eq_false, and_false, if_false]
        congr 1
        have := Int.emod_eq_of_lt hr.1 hr.2
        rw [this]
      · rw [if_neg hr, if_pos (And.intro rfl hr)]; rfl

/-- `usize` amounts on a target whose pointers are at most 32 bits wide: the debug-build
    `u32::try_from` cannot fail, so both build modes are the inherent method on the amount itself -/
theorem shiftPrimAt_usize_small {pw : Nat} (hpw : pw = 16 ∨ pw = 32) (dbg : Bool)
    (method : Nat → Outcome (List Nat)) {p : Nat} (hp : p < B pw) :
    shiftPrimAt pw dbg .usize method p = method p := by
  have hp' : p < B (PrimTy.usize.bitsAt pw) := hp
  rw [shiftPrimAt_eq (by rcases hpw with h | h <;> simp [h]) dbg .usize method hp']
  have hv : PrimTy.usize.valAt pw p = (p : Int) := rfl
  have hlt : (p : Int) < 2 ^ 32 := by
    rcases hpw with rfl | rfl <;> simp only [B] at hp <;> norm_num at hp <;> omega
  rw [hv, if_neg (by intro h; exact h.2 ⟨by omega, hlt⟩)]
  congr 1
  omega

end Ops
end Bnum
