/-
  Bnum.Lemmas.Shift — arithmetic of the shift / rotate loops of Bnum/Model/Shift.lean.
  Route: everything is expressed on the unsigned value `U`; a digit shifted by `bs` splits into its
  low part `(d << bs)` and the carry `d >> (w - bs)` with `(d << bs) + B·carry = d·2^bs`.
-/
import Bnum.Model.Shift
import Bnum.Lemmas.AddSub
import Bnum.Lemmas.AddSub2
set_option linter.unusedVariables false
namespace Bnum
namespace Shift
theorem B_split {w bs : Nat} (h : bs ≤ w) : B w = 2 ^ (w - bs) * 2 ^ bs := by
  unfold B; rw [← Nat.pow_add]; congr 1; omega
theorem two_pow_pos (k : Nat) : 0 < 2 ^ k := Nat.pow_pos (by decide)
theorem mul_pow_lor {k c : Nat} (q : Nat) (h : c < 2 ^ k) : (q * 2 ^ k) ||| c = q * 2 ^ k + c := by
  rw [← Nat.shiftLeft_eq, ← Nat.shiftLeft_add_eq_or_of_lt h]
theorem lor_mul_pow {k c : Nat} (q : Nat) (h : c < 2 ^ k) : c ||| (q * 2 ^ k) = q * 2 ^ k + c := by
  rw [Nat.or_comm]; exact mul_pow_lor q h
theorem dshl_lt (w d s : Nat) : dshl w d s < B w := Nat.mod_lt _ (B_pos w)
theorem dshl_eq {w bs : Nat} (d : Nat) (h : bs ≤ w) : dshl w d bs = (d % 2 ^ (w - bs)) * 2 ^ bs := by
  unfold dshl; rw [B_split h, Nat.mul_mod_mul_right]
theorem dshr_lt {w d bs : Nat} (h : bs ≤ w) (hd : d < B w) : dshr d (w - bs) < 2 ^ bs := by
  unfold dshr; rw [B_split h, Nat.mul_comm] at hd
  exact Nat.div_lt_of_lt_mul (by rwa [Nat.mul_comm] at hd)
theorem dshl_add_dshr {w bs : Nat} (d : Nat) (h : bs ≤ w) :
    dshl w d bs + B w * dshr d (w - bs) = d * 2 ^ bs := by
  rw [dshl_eq d h]; unfold dshr; rw [B_split h]
  generalize 2 ^ (w - bs) = c; generalize 2 ^ bs = p
  have := Nat.mod_add_div d c
  calc d % c * p + c * p * (d / c) = (d % c + c * (d / c)) * p := by ring
    _ = d * p := by rw [this]

/-- `(d << bs) | carry` is a digit, and is the sum, when `carry < 2^bs` -/
theorem dshl_lor {w bs d c : Nat} (h : bs ≤ w) (hc : c < 2 ^ bs) :
    (dshl w d bs ||| c) = dshl w d bs + c ∧ dshl w d bs + c < B w := by
  rw [dshl_eq d h, mul_pow_lor _ hc]
  refine ⟨rfl, ?_⟩
  rw [B_split h]
  have h1 : d % 2 ^ (w - bs) < 2 ^ (w - bs) := Nat.mod_lt _ (two_pow_pos _)
  generalize d % 2 ^ (w - bs) = q at *; generalize 2 ^ (w - bs) = cc at *; generalize 2 ^ bs = p at *
  have : (q + 1) * p ≤ cc * p := Nat.mul_le_mul_right _ h1
  rw [Nat.add_mul] at this; omega

theorem shlCarryLoop_spec {w bs : Nat} (h : bs ≤ w) : ∀ (n : Nat) (l : List Nat) (c : Nat),
    WF w n l → c < 2 ^ bs →
    WF w n (shlCarryLoop w bs l c).1 ∧ (shlCarryLoop w bs l c).2 < 2 ^ bs ∧
    U w (shlCarryLoop w bs l c).1 + B w ^ n * (shlCarryLoop w bs l c).2 = U w l * 2 ^ bs + c := by
  intro n
  induction n with
  | zero =>
    intro l c hl hc
    have := hl.1; simp at this; subst this
    simp [shlCarryLoop, WF_nil, hc]
  | succ n ih =>
    intro l c hl hc
    match l, hl with
    | d :: ds, hl =>
      rw [WF_cons] at hl
      simp only [shlCarryLoop]
      obtain ⟨h1, h2, h3⟩ := ih ds (dshr d (w - bs)) hl.2 (dshr_lt h hl.1)
      obtain ⟨e1, e2⟩ := dshl_lor (d := d) h hc
      refine ⟨WF_cons.mpr ⟨by rw [e1]; exact e2, h1⟩, h2, ?_⟩
      rw [U_cons, U_cons, e1, Nat.pow_succ]
      have h4 := dshl_add_dshr d h
      generalize (shlCarryLoop w bs ds (dshr d (w - bs))).2 = c' at *
      generalize U w (shlCarryLoop w bs ds (dshr d (w - bs))).1 = r at *
      generalize dshl w d bs = x at *
      generalize dshr d (w - bs) = y at *
      generalize U w ds = u at *
      generalize 2 ^ bs = p at *
      generalize B w ^ n = m at *
      generalize B w = b at *
      have : b * (r + m * c') = b * (u * p + y) := by rw [h3]
      calc x + c + b * r + m * b * c' = x + c + b * (r + m * c') := by ring
        _ = x + c + b * (u * p + y) := by rw [this]
        _ = (x + b * y) + b * u * p + c := by ring
        _ = (d + b * u) * p + c := by rw [h4]; ring
    | [], hl => exact absurd hl.1 (by simp)
theorem maskBits_lt {bits : Nat} (s : Nat) (h : 0 < bits) : maskBits bits s < bits := by
  unfold maskBits; have : s &&& (bits - 1) ≤ bits - 1 := Nat.and_le_right; omega

theorem maskBits_pow2 {bits k : Nat} (s : Nat) (h : bits = 2 ^ k) : maskBits bits s = s % bits := by
  unfold maskBits; rw [h]; exact Nat.and_two_pow_sub_one_eq_mod s k

/-- justification of `digitShift` / `bitShift`: for a power-of-two digit width the Rust expressions
    `rhs >> BIT_SHIFT`, `rhs & BITS_MINUS_1` (`BIT_SHIFT = log2 w`) are `rhs / w`, `rhs % w`. -/
theorem digit_split_pow2 {w k : Nat} (s : Nat) (h : w = 2 ^ k) :
    s >>> k = digitShift w s ∧ s &&& (w - 1) = bitShift w s := by
  subst h; exact ⟨Nat.shiftRight_eq_div_pow s k, Nat.and_two_pow_sub_one_eq_mod s k⟩

theorem two_pow_amount (w s : Nat) : 2 ^ s = B w ^ digitShift w s * 2 ^ bitShift w s := by
  unfold B digitShift bitShift
  rw [← Nat.pow_mul, ← Nat.pow_add, Nat.div_add_mod]


/-! ### list helpers -/
theorem WF_take {w n : Nat} {a : List Nat} (k : Nat) (h : WF w n a) : WF w (min k n) (a.take k) :=
  ⟨by rw [List.length_take, h.1], fun d hd => h.2 d (List.mem_of_mem_take hd)⟩
theorem WF_drop {w n : Nat} {a : List Nat} (k : Nat) (h : WF w n a) : WF w (n - k) (a.drop k) :=
  ⟨by rw [List.length_drop, h.1], fun d hd => h.2 d (List.mem_of_mem_drop hd)⟩
theorem WF_append {w n m : Nat} {x y : List Nat} (hx : WF w n x) (hy : WF w m y) :
    WF w (n + m) (x ++ y) :=
  ⟨by rw [List.length_append, hx.1, hy.1], fun d hd => by
    rcases List.mem_append.mp hd with h | h
    · exact hx.2 d h
    · exact hy.2 d h⟩
theorem WF_replicate {w d : Nat} (k : Nat) (hd : d < B w) : WF w k (List.replicate k d) :=
  ⟨List.length_replicate, fun e he => by rw [List.eq_of_mem_replicate he]; exact hd⟩
theorem WF_reverse {w n : Nat} {a : List Nat} (h : WF w n a) : WF w n a.reverse :=
  ⟨by rw [List.length_reverse, h.1], fun d hd => h.2 d (List.mem_reverse.mp hd)⟩
theorem WF_cast {w n m : Nat} {a : List Nat} (h : WF w n a) (e : n = m) : WF w m a := e ▸ h

theorem U_lt_pow {w n : Nat} {x : List Nat} (h : WF w n x) : U w x < B w ^ n := by
  rw [← M_eq_pow]; exact U_lt h

/-- splitting a value at digit `k` -/
theorem U_take_drop {w n : Nat} {a : List Nat} (k : Nat) (h : WF w n a) (hk : k ≤ n) :
    U w a = U w (a.take k) + B w ^ k * U w (a.drop k) := by
  conv_lhs => rw [← List.take_append_drop k a]
  rw [U_append, List.length_take, h.1, Nat.min_eq_left hk]

theorem U_drop {w n : Nat} {a : List Nat} (k : Nat) (h : WF w n a) (hk : k ≤ n) :
    U w (a.drop k) = U w a / B w ^ k := by
  have h1 := U_take_drop k h hk
  have h2 : U w (a.take k) < B w ^ k := by
    have := U_lt_pow (WF_take k h); rwa [Nat.min_eq_left hk] at this
  rw [h1, Nat.add_mul_div_left _ _ (Nat.pow_pos (B_pos w)), Nat.div_eq_of_lt h2, Nat.zero_add]

theorem U_take {w n : Nat} {a : List Nat} (k : Nat) (h : WF w n a) (hk : k ≤ n) :
    U w (a.take k) = U w a % B w ^ k := by
  have h1 := U_take_drop k h hk
  have h2 : U w (a.take k) < B w ^ k := by
    have := U_lt_pow (WF_take k h); rwa [Nat.min_eq_left hk] at this
  rw [h1, Nat.add_mul_mod_self_left, Nat.mod_eq_of_lt h2]

theorem U_zeros_append (w k : Nat) (x : List Nat) :
    U w (List.replicate k 0 ++ x) = B w ^ k * U w x := by
  rw [U_append, U_replicate_zero, List.length_replicate, Nat.zero_add]

theorem U_replicate_max (w k : Nat) : U w (List.replicate k (B w - 1)) + 1 = B w ^ k := by
  induction k with
  | zero => simp
  | succ k ih =>
    rw [List.replicate_succ, U_cons, Nat.pow_succ]
    have hB := B_pos w
    generalize U w (List.replicate k (B w - 1)) = u at *
    rw [← ih]; generalize B w = b at *
    have : b * (u + 1) = b * u + b := by ring
    rw [Nat.mul_comm (u + 1) b, this]; omega

theorem digitShift_lt {w n s : Nat} (hw : 0 < w) (hs : s < w * n) : digitShift w s < n := by
  unfold digitShift; exact Nat.div_lt_of_lt_mul hs
theorem bitShift_lt {w : Nat} (s : Nat) (hw : 0 < w) : bitShift w s < w := Nat.mod_lt _ hw
/-! ### the right-shift loop -/
theorem B_split' {w bs : Nat} (h : bs ≤ w) : B w = 2 ^ bs * 2 ^ (w - bs) := by
  rw [B_split h, Nat.mul_comm]

/-- the loop of `unchecked_shr_pad_internal` (most significant digit first). `p` is the part of the
    digit above that falls into this window (`carry = p << (w - bs)`). -/
theorem shrCarryLoop_spec {w bs : Nat} (h : bs ≤ w) : ∀ (k : Nat) (l : List Nat) (p : Nat),
    WF w k l → p < 2 ^ bs →
    WF w k (shrCarryLoop w bs l (p * 2 ^ (w - bs))) ∧
    U w (shrCarryLoop w bs l (p * 2 ^ (w - bs))).reverse
      = (p * B w ^ k + U w l.reverse) / 2 ^ bs := by
  intro k
  induction k with
  | zero =>
    intro l p hl hp
    have := hl.1; simp at this; subst this
    simp [shrCarryLoop, WF_nil, Nat.div_eq_of_lt hp]
  | succ k ih =>
    intro l p hl hp
    match l, hl with
    | d :: ds, hl =>
      rw [WF_cons] at hl
      simp only [shrCarryLoop]
      have hcs : w - (w - bs) = bs := by omega
      have e1 : dshl w d (w - bs) = (d % 2 ^ bs) * 2 ^ (w - bs) := by
        rw [dshl_eq d (Nat.sub_le w bs), hcs]
      rw [e1]
      obtain ⟨h1, h2⟩ := ih ds (d % 2 ^ bs) hl.2 (Nat.mod_lt _ (two_pow_pos bs))
      have hd : dshr d bs < 2 ^ (w - bs) := by
        unfold dshr; apply Nat.div_lt_of_lt_mul; rw [← B_split' h]; exact hl.1
      rw [lor_mul_pow p hd]
      have hlen : (shrCarryLoop w bs ds (d % 2 ^ bs * 2 ^ (w - bs))).reverse.length = k := by
        rw [List.length_reverse]; exact h1.1
      have hlen2 : ds.reverse.length = k := by rw [List.length_reverse]; exact hl.2.1
      refine ⟨WF_cons.mpr ⟨?_, h1⟩, ?_⟩
      · rw [B_split h]
        generalize 2 ^ (w - bs) = c at *; generalize 2 ^ bs = P at *
        have : (p + 1) * c ≤ P * c := Nat.mul_le_mul_right _ hp
        rw [Nat.add_mul] at this; rw [Nat.mul_comm c P]; omega
      · rw [List.reverse_cons, List.reverse_cons, U_append, U_append, hlen, hlen2, h2]
        simp only [U_cons, U_nil, Nat.mul_zero, Nat.add_zero]
        unfold dshr
        rw [Nat.pow_succ]
        generalize B w ^ k = m at *
        rw [B_split' h]
        have hP := two_pow_pos bs
        have hdm := Nat.div_add_mod d (2 ^ bs)
        generalize U w ds.reverse = u at *
        generalize d / 2 ^ bs = dq at *; generalize d % 2 ^ bs = dr at *
        generalize 2 ^ (w - bs) = c at *; generalize 2 ^ bs = P at *
        subst hdm
        have e : p * (m * (P * c)) + (u + m * (P * dq + dr))
            = P * (p * c * m + m * dq) + (dr * m + u) := by ring
        rw [e, Nat.mul_add_div hP]; ring
    | [], hl => exact absurd hl.1 (by simp)
end Shift

open Shift
namespace UI

/-- `unchecked_shl_internal`: `(x · 2^s) mod 2^BITS` for `s < BITS` -/
theorem uncheckedShlInternal_spec {w n s : Nat} {a : List Nat} (hw : 0 < w) (ha : WF w n a)
    (hs : s < w * n) :
    WF w n (uncheckedShlInternal w a s) ∧
    U w (uncheckedShlInternal w a s) = (U w a * 2 ^ s) % M w n := by
  have hds := digitShift_lt hw hs
  have hbs := bitShift_lt s hw
  have hpow := two_pow_amount w s
  unfold uncheckedShlInternal
  rw [ha.1]
  generalize digitShift w s = ds at *
  generalize bitShift w s = bs at *
  have hmin : min ds n = ds := Nat.min_eq_left (by omega)
  have hsrc : WF w (n - ds) (a.take (n - ds)) := WF_cast (WF_take (n - ds) ha) (by omega)
  have hsplit := U_take_drop (n - ds) ha (by omega)
  have hM : M w n = B w ^ ds * B w ^ (n - ds) := by
    rw [M_eq_pow, ← Nat.pow_add]; congr 1; omega
  have hlt := U_lt_pow hsrc
  simp only [hmin]
  rw [hM, hpow]
  split
  · -- bit_shift ≠ 0
    obtain ⟨h1, h2, h3⟩ := shlCarryLoop_spec (w := w) (bs := bs) (by omega) (n - ds) _ 0 hsrc
      (two_pow_pos bs)
    refine ⟨WF_cast (WF_append (WF_replicate ds (B_pos w)) h1) (by omega), ?_⟩
    rw [U_zeros_append]
    have hr := U_lt_pow h1
    generalize (shlCarryLoop w bs (List.take (n - ds) a) 0).2 = c' at *
    generalize U w (shlCarryLoop w bs (List.take (n - ds) a) 0).1 = r at *
    generalize U w (List.take (n - ds) a) = lo at *
    generalize U w (List.drop (n - ds) a) = hi at *
    generalize U w a = x at *
    generalize B w ^ ds = p at *; generalize B w ^ (n - ds) = q at *; generalize 2 ^ bs = t at *
    subst hsplit
    have e : (lo + q * hi) * (p * t) = p * (r + q * (c' + hi * t)) := by
      have : lo * t = r + q * c' := by omega
      calc (lo + q * hi) * (p * t) = p * (lo * t + q * (hi * t)) := by ring
        _ = p * (r + q * (c' + hi * t)) := by rw [this]; ring
    rw [e, Nat.mul_mod_mul_left, Nat.add_mul_mod_self_left, Nat.mod_eq_of_lt hr]
  · -- bit_shift = 0
    rename_i hb
    have hb0 : bs = 0 := by simpa using hb
    subst hb0
    refine ⟨WF_cast (WF_append (WF_replicate ds (B_pos w)) hsrc) (by omega), ?_⟩
    rw [U_zeros_append]
    generalize U w (List.take (n - ds) a) = lo at *
    generalize U w (List.drop (n - ds) a) = hi at *
    generalize U w a = x at *
    generalize B w ^ ds = p at *; generalize B w ^ (n - ds) = q at *
    subst hsplit
    have e : (lo + q * hi) * (p * 2 ^ 0) = p * (lo + q * hi) := by ring
    rw [e, Nat.mul_mod_mul_left, Nat.add_mul_mod_self_left, Nat.mod_eq_of_lt hlt]
end UI
namespace Shift
theorem dshl_max {w bs : Nat} (h : bs ≤ w) :
    dshl w (B w - 1) (w - bs) = (2 ^ bs - 1) * 2 ^ (w - bs) := by
  have hcs : w - (w - bs) = bs := by omega
  rw [dshl_eq _ (Nat.sub_le w bs), hcs]
  congr 1
  rw [B_split' h]
  have hP := two_pow_pos bs
  have hC := two_pow_pos (w - bs)
  generalize 2 ^ bs = P at *; generalize 2 ^ (w - bs) = c at *
  obtain ⟨c', rfl⟩ : ∃ c', c = c' + 1 := ⟨c - 1, by omega⟩
  have : P * (c' + 1) - 1 = P * c' + (P - 1) := by rw [Nat.mul_add]; omega
  rw [this, Nat.mul_add_mod, Nat.mod_eq_of_lt (by omega)]

theorem U_max_append (w k : Nat) (x : List Nat) :
    U w (x ++ List.replicate k (B w - 1)) + B w ^ x.length = U w x + B w ^ x.length * B w ^ k := by
  rw [U_append]
  have := U_replicate_max w k
  generalize U w (List.replicate k (B w - 1)) = u at *
  rw [← this]; ring
end Shift
open Shift
namespace UI

/-- `unchecked_shr_pad_internal::<NEG>`: `floor(x / 2^s)`, with the top `s` bits set for `NEG` -/
theorem uncheckedShrPadInternal_spec {w n s : Nat} {a : List Nat} (neg : Bool) (hw : 0 < w)
    (ha : WF w n a) (hs : s < w * n) :
    WF w n (uncheckedShrPadInternal w neg a s) ∧
    U w (uncheckedShrPadInternal w neg a s) + (if neg then 2 ^ (w * n - s) else 0)
      = U w a / 2 ^ s + (if neg then M w n else 0) := by
  have hds := digitShift_lt hw hs
  have hbs := bitShift_lt s hw
  have hpow := two_pow_amount w s
  have hsplit : s = w * digitShift w s + bitShift w s := (Nat.div_add_mod s w).symm
  unfold uncheckedShrPadInternal
  rw [ha.1]
  generalize digitShift w s = ds at *
  generalize bitShift w s = bs at *
  have hmin : min ds n = ds := Nat.min_eq_left (by omega)
  have hsrc : WF w (n - ds) (a.drop ds) := WF_drop ds ha
  have hdrop := U_drop ds ha (by omega)
  have hM : M w n = B w ^ (n - ds) * B w ^ ds := by
    rw [M_eq_pow, ← Nat.pow_add]; congr 1; omega
  have hQ : B w ^ (n - ds) = 2 ^ bs * 2 ^ (w * n - s) := by
    unfold B; rw [← Nat.pow_mul, ← Nat.pow_add]; congr 1
    have : w * (n - ds) = w * n - w * ds := Nat.mul_sub w n ds
    have : w * (ds + 1) ≤ w * n := Nat.mul_le_mul_left _ hds
    rw [Nat.mul_add] at this
    omega
  have hdiv : U w a / 2 ^ s = U w (a.drop ds) / 2 ^ bs := by
    rw [hdrop, hpow, Nat.div_div_eq_div_mul]
  have hpad : (if neg = true then B w - 1 else 0) < B w := by
    have := B_pos w; split <;> omega
  simp only [hmin]
  split
  · -- bit_shift ≠ 0
    have hlen : (a.drop ds).reverse.length = n - ds := by rw [List.length_reverse]; exact hsrc.1
    cases neg with
    | false =>
      simp only [Bool.false_eq_true, if_false, Nat.add_zero]
      obtain ⟨h1, h2⟩ := shrCarryLoop_spec (w := w) (bs := bs) (by omega) (n - ds) _ 0
        (WF_reverse hsrc) (two_pow_pos bs)
      rw [Nat.zero_mul] at h1 h2
      refine ⟨WF_cast (WF_append (WF_reverse h1) (WF_replicate ds (B_pos w))) (by omega), ?_⟩
      rw [U_append, U_replicate_zero, h2, List.reverse_reverse, hdiv]; simp
    | true =>
      simp only [if_true]
      obtain ⟨h1, h2⟩ := shrCarryLoop_spec (w := w) (bs := bs) (by omega) (n - ds) _ (2 ^ bs - 1)
        (WF_reverse hsrc) (by have := two_pow_pos bs; omega)
      rw [← dshl_max (by omega : bs ≤ w), List.reverse_reverse] at h2
      rw [← dshl_max (by omega : bs ≤ w)] at h1
      -- the head `|=` is the same as starting the loop with that carry
      have hhead : orHead (dshl w (B w - 1) (w - bs)) (shrCarryLoop w bs (a.drop ds).reverse 0)
          = shrCarryLoop w bs (a.drop ds).reverse (dshl w (B w - 1) (w - bs)) := by
        cases (a.drop ds).reverse with
        | nil => rfl
        | cons d t => simp [shrCarryLoop, orHead]
      rw [hhead]
      refine ⟨WF_cast (WF_append (WF_reverse h1) (WF_replicate ds (by have := B_pos w; omega)))
        (by omega), ?_⟩
      have hl := (WF_reverse h1).1
      have := U_max_append w ds (shrCarryLoop w bs (a.drop ds).reverse (dshl w (B w - 1) (w - bs))).reverse
      rw [hl, h2] at this
      rw [hdiv, hM]
      generalize U w ((shrCarryLoop w bs (a.drop ds).reverse (dshl w (B w - 1) (w - bs))).reverse ++ List.replicate ds (B w - 1)) = r at *
      have hP := two_pow_pos bs
      generalize U w (List.drop ds a) = y at *
      rw [hQ] at this ⊢
      generalize 2 ^ (w * n - s) = q at *; generalize 2 ^ bs = P at *
      generalize B w ^ ds = D at *
      have e : (P - 1) * (P * q) + y = P * ((P - 1) * q) + y := by ring
      rw [e, Nat.mul_add_div hP] at this
      obtain ⟨P', rfl⟩ : ∃ P', P = P' + 1 := ⟨P - 1, by omega⟩
      simp only [Nat.add_sub_cancel] at this
      have e2 : (P' + 1) * q = P' * q + q := by ring
      rw [e2] at this ⊢
      omega
  · -- bit_shift = 0
    rename_i hb
    have hb0 : bs = 0 := by simpa using hb
    subst hb0
    refine ⟨WF_cast (WF_append hsrc (WF_replicate ds hpad)) (by omega), ?_⟩
    simp only [Nat.pow_zero, Nat.div_one, Nat.one_mul] at hdiv hQ
    cases neg with
    | false =>
      simp only [Bool.false_eq_true, if_false, Nat.add_zero]
      rw [U_append, U_replicate_zero, hdiv]; simp
    | true =>
      simp only [if_true]
      have := U_max_append w ds (a.drop ds)
      rw [hsrc.1] at this
      rw [hdiv, hM, ← hQ]; omega
end UI
namespace Shift
theorem isNegative_iff_U {w n : Nat} {x : List Nat} (hw : 1 ≤ w) (hn : 1 ≤ n) (hx : WF w n x) :
    (isNegative w x = true ↔ M w n ≤ 2 * U w x) := by
  rw [isNegative_iff' hw hn hx, S_def, hx.1]
  have := U_lt hx
  unfold toInt; split <;> omega

theorem two_pow_sub_mul {W s : Nat} (h : s ≤ W) : 2 ^ (W - s) * 2 ^ s = 2 ^ W := by
  rw [← Nat.pow_add]; congr 1; omega

/-- `BInt` right shift by `s < BITS`: pad chosen by the sign ⇒ floor division of the signed value -/
theorem shrPad_signed {w n s : Nat} {a : List Nat} (hw : 1 ≤ w) (hn : 1 ≤ n) (ha : WF w n a)
    (hs : s < w * n) :
    WF w n (UI.uncheckedShrPadInternal w (isNegative w a) a s) ∧
    S w (UI.uncheckedShrPadInternal w (isNegative w a) a s) = S w a / 2 ^ s := by
  obtain ⟨h1, h2⟩ := UI.uncheckedShrPadInternal_spec (isNegative w a) hw ha hs
  refine ⟨h1, ?_⟩
  have hneg := isNegative_iff_U hw hn ha
  have hQ : 2 ^ (w * n - s) * 2 ^ s = M w n := two_pow_sub_mul (Nat.le_of_lt hs)
  have hu := U_lt ha
  have hP := two_pow_pos s
  rw [S_def, S_def, h1.1, ha.1]
  generalize UI.uncheckedShrPadInternal w (isNegative w a) a s = r at *
  have hdiv : U w a / 2 ^ s ≤ U w a := Nat.div_le_self _ _
  have hcast : ((U w a / 2 ^ s : Nat) : Int) = (U w a : Int) / 2 ^ s := by push_cast; rfl
  cases hN : isNegative w a with
  | false =>
    rw [hN] at h2 hneg
    simp only [Bool.false_eq_true, if_false, Nat.add_zero, false_iff, Nat.not_le] at h2 hneg
    rw [toInt_of_lt hneg, toInt_of_lt (by omega), h2, hcast]
  | true =>
    rw [hN] at h2 hneg
    simp only [if_true, true_iff] at h2 hneg
    have hge : M w n ≤ 2 * U w r := by
      rcases Nat.eq_zero_or_pos s with h0 | h0
      · subst h0; simp at hQ h2; omega
      · generalize U w a / 2 ^ s = t at h2 hdiv
        have : 2 ^ s = 2 * 2 ^ (s - 1) := by
          rw [← Nat.pow_succ']; congr 1; omega
        rw [this] at hQ
        generalize 2 ^ (w * n - s) = q at *
        have e : q * (2 * 2 ^ (s - 1)) = 2 * q * 2 ^ (s - 1) := by ring
        have : 2 * q * 1 ≤ 2 * q * 2 ^ (s - 1) := Nat.mul_le_mul_left _ (two_pow_pos _)
        rw [e] at hQ
        omega
    rw [toInt_of_ge hneg, toInt_of_ge hge]
    have e : (U w a : Int) - (M w n : Int) = (U w a : Int) + (-(2 ^ (w * n - s) : Int)) * 2 ^ s := by
      rw [← hQ]; push_cast; ring
    rw [e, Int.add_mul_ediv_right _ _ (by positivity), ← hcast]
    have : (U w r : Int) + (2 ^ (w * n - s) : Int) = (U w a / 2 ^ s : Nat) + (M w n : Int) := by
      exact_mod_cast h2
    omega


/-- cyclic left rotation of a `W`-bit pattern by `r ≤ W` places -/
def rotN (W x r : Nat) : Nat := (x * 2 ^ r) % 2 ^ W + x / 2 ^ (W - r)

theorem rot_split (P Q h l : Nat) (hl : l < Q) (hP : 0 < P) :
    ((h * Q + l) * P) % (P * Q) + (h * Q + l) / Q = l * P + h := by
  have hQ : 0 < Q := by omega
  have e : (h * Q + l) * P = l * P + (P * Q) * h := by ring
  have hlt : l * P < P * Q := by
    rw [Nat.mul_comm P Q]; exact Nat.mul_lt_mul_of_pos_right hl hP
  have : (h * Q + l) / Q = h := by
    rw [Nat.add_comm, Nat.mul_comm, Nat.add_mul_div_left _ _ hQ, Nat.div_eq_of_lt hl, Nat.zero_add]
  rw [this, e, Nat.add_mul_mod_self_left, Nat.mod_eq_of_lt hlt]

theorem rotN_split {W r h l : Nat} (hr : r ≤ W) (hl : l < 2 ^ (W - r)) :
    rotN W (h * 2 ^ (W - r) + l) r = l * 2 ^ r + h := by
  unfold rotN
  have : 2 ^ W = 2 ^ r * 2 ^ (W - r) := by rw [← Nat.pow_add]; congr 1; omega
  rw [this]; exact rot_split _ _ h l hl (two_pow_pos r)

theorem rotN_zero (W x : Nat) (hx : x < 2 ^ W) : rotN W x 0 = x := by
  unfold rotN; simp [Nat.mod_eq_of_lt hx, Nat.div_eq_of_lt hx]

theorem rotN_full (W x : Nat) : rotN W x W = x := by
  unfold rotN; simp

theorem rotN_lt {W x r : Nat} (hr : r ≤ W) (hx : x < 2 ^ W) : rotN W x r < 2 ^ W := by
  have hQ := two_pow_pos (W - r)
  have e := Nat.div_add_mod x (2 ^ (W - r))
  have hl := Nat.mod_lt x hQ
  have hh : x / 2 ^ (W - r) < 2 ^ r := by
    apply Nat.div_lt_of_lt_mul; rw [← Nat.pow_add]; rwa [show W - r + r = W by omega]
  rw [← e, Nat.mul_comm, rotN_split hr hl]
  have : 2 ^ W = 2 ^ (W - r) * 2 ^ r := by rw [← Nat.pow_add]; congr 1; omega
  rw [this]
  generalize x / 2 ^ (W - r) = h at *; generalize x % 2 ^ (W - r) = l at *
  generalize 2 ^ (W - r) = Q at *; generalize 2 ^ r = P at *
  have : (l + 1) * P ≤ Q * P := Nat.mul_le_mul_right _ hl
  rw [Nat.add_mul] at this; omega

/-- rotations compose -/
theorem rotN_add {W x r1 r2 : Nat} (hx : x < 2 ^ W) (hr : r1 + r2 ≤ W) :
    rotN W (rotN W x r1) r2 = rotN W x (r1 + r2) := by
  -- x = x2·2^(W-r1) + x1·2^(W-r1-r2) + x0
  have hA := two_pow_pos r1
  have hB := two_pow_pos r2
  have hC := two_pow_pos (W - r1 - r2)
  have e1 : 2 ^ (W - r1) = 2 ^ r2 * 2 ^ (W - r1 - r2) := by rw [← Nat.pow_add]; congr 1; omega
  have e2 : 2 ^ (W - r2) = 2 ^ r1 * 2 ^ (W - r1 - r2) := by rw [← Nat.pow_add]; congr 1; omega
  have e3 : 2 ^ (r1 + r2) = 2 ^ r1 * 2 ^ r2 := Nat.pow_add _ _ _
  have e4 : 2 ^ (W - (r1 + r2)) = 2 ^ (W - r1 - r2) := by congr 1; omega
  have eW : 2 ^ W = 2 ^ r1 * 2 ^ r2 * 2 ^ (W - r1 - r2) := by
    rw [← Nat.pow_add, ← Nat.pow_add]; congr 1; omega
  have d1 := Nat.div_add_mod x (2 ^ (W - r1))
  have d2 := Nat.div_add_mod (x % 2 ^ (W - r1)) (2 ^ (W - r1 - r2))
  have b0 := Nat.mod_lt (x % 2 ^ (W - r1)) hC
  have b1 : x % 2 ^ (W - r1) / 2 ^ (W - r1 - r2) < 2 ^ r2 := by
    apply Nat.div_lt_of_lt_mul; rw [Nat.mul_comm, ← e1]; exact Nat.mod_lt _ (two_pow_pos _)
  have b2 : x / 2 ^ (W - r1) < 2 ^ r1 := by
    apply Nat.div_lt_of_lt_mul; rw [← Nat.pow_add]; rwa [show W - r1 + r1 = W by omega]
  have bl := Nat.mod_lt x (two_pow_pos (W - r1))
  generalize x / 2 ^ (W - r1) = x2 at *
  generalize hrest : x % 2 ^ (W - r1) = rest at *
  generalize rest / 2 ^ (W - r1 - r2) = x1 at *
  generalize rest % 2 ^ (W - r1 - r2) = x0 at *
  -- step 1
  have s1 : rotN W x r1 = x1 * 2 ^ (W - r2) + (x0 * 2 ^ r1 + x2) := by
    rw [← d1, Nat.mul_comm, rotN_split (by omega) bl, ← d2, e2]; ring
  -- step 2
  have hl2 : x0 * 2 ^ r1 + x2 < 2 ^ (W - r2) := by
    rw [e2]
    generalize 2 ^ r1 = A at *; generalize 2 ^ (W - r1 - r2) = C at *
    have : (x0 + 1) * A ≤ C * A := Nat.mul_le_mul_right _ b0
    rw [Nat.add_mul] at this; rw [Nat.mul_comm A C]; omega
  have s2 : rotN W (rotN W x r1) r2 = (x0 * 2 ^ r1 + x2) * 2 ^ r2 + x1 := by
    rw [s1, rotN_split (by omega) hl2]
  -- step 3
  have s3 : rotN W x (r1 + r2) = x0 * 2 ^ (r1 + r2) + (x2 * 2 ^ r2 + x1) := by
    have : x = (x2 * 2 ^ r2 + x1) * 2 ^ (W - (r1 + r2)) + x0 := by
      rw [← d1, ← d2, e4, e1]; ring
    rw [this, rotN_split hr (by rw [e4]; exact b0)]
  rw [s2, s3, e3]; ring


theorem M_eq_two_pow (w n : Nat) : M w n = 2 ^ (w * n) := rfl
theorem B_pow_eq (w k : Nat) : B w ^ k = 2 ^ (w * k) := by unfold B; rw [Nat.pow_mul]
end Shift
open Shift
namespace UI

/-- `rotate_digits_left(k)`, `k ≤ N` -/
theorem rotateDigitsLeft_spec {w n k : Nat} {a : List Nat} (ha : WF w n a) (hk : k ≤ n) :
    WF w n (rotateDigitsLeft a k) ∧
    U w (rotateDigitsLeft a k) = rotN (w * n) (U w a) (w * k) := by
  unfold rotateDigitsLeft
  rw [ha.1]
  have hd := WF_drop (n - k) ha
  have ht := WF_take (n - k) ha
  have hsplit := U_take_drop (n - k) ha (by omega)
  refine ⟨WF_cast (WF_append hd ht) (by omega), ?_⟩
  rw [U_append, hd.1, show n - (n - k) = k by omega, hsplit]
  have hlt : U w (a.take (n - k)) < 2 ^ (w * n - w * k) := by
    have := U_lt_pow ht
    rwa [Nat.min_eq_left (by omega), B_pow_eq, Nat.mul_sub] at this
  have e : B w ^ (n - k) = 2 ^ (w * n - w * k) := by rw [B_pow_eq, Nat.mul_sub]
  rw [e, Nat.add_comm (U w (List.take (n - k) a)), Nat.mul_comm (2 ^ (w * n - w * k)),
    rotN_split (Nat.mul_le_mul_left w hk) hlt, B_pow_eq]
  ring

/-- the bit-rotation loop of `unchecked_rotate_left` followed by `out.digits[0] |= carry` -/
theorem rotateBits_spec {w n bs : Nat} {x : List Nat} (hn : 1 ≤ n) (hx : WF w n x) (hbs : bs ≤ w) :
    WF w n (orHead (shlCarryLoop w bs x 0).2 (shlCarryLoop w bs x 0).1) ∧
    U w (orHead (shlCarryLoop w bs x 0).2 (shlCarryLoop w bs x 0).1)
      = rotN (w * n) (U w x) bs := by
  obtain ⟨h1, h2, h3⟩ := shlCarryLoop_spec hbs n x 0 hx (two_pow_pos bs)
  have hr := U_lt_pow h1
  have hW : 2 ^ (w * n) = 2 ^ (w * n - bs) * 2 ^ bs := by
    rw [← Nat.pow_add]; congr 1
    have : w * 1 ≤ w * n := Nat.mul_le_mul_left _ hn
    omega
  rw [B_pow_eq] at h3 hr
  rw [Nat.add_zero] at h3
  -- value of the loop output and of the carry
  have hmod : U w (shlCarryLoop w bs x 0).1 = (U w x * 2 ^ bs) % 2 ^ (w * n) := by
    rw [← h3, Nat.add_mul_mod_self_left, Nat.mod_eq_of_lt hr]
  have hdiv : (shlCarryLoop w bs x 0).2 = U w x / 2 ^ (w * n - bs) := by
    have h4 : U w x * 2 ^ bs / (2 ^ (w * n - bs) * 2 ^ bs) = U w x / 2 ^ (w * n - bs) :=
      Nat.mul_div_mul_right _ _ (two_pow_pos bs)
    rw [← h4, ← hW, ← h3, Nat.add_mul_div_left _ _ (two_pow_pos _), Nat.div_eq_of_lt hr,
      Nat.zero_add]
  unfold rotN
  rw [← hmod, ← hdiv]
  match x, n, hx, hn, h1, h2 with
  | d :: t, n + 1, hx, _, h1, h2 =>
    have hloop : shlCarryLoop w bs (d :: t) 0
        = (dshl w d bs :: (shlCarryLoop w bs t (dshr d (w - bs))).1,
           (shlCarryLoop w bs t (dshr d (w - bs))).2) := by
      simp [shlCarryLoop]
    rw [hloop] at h1 h2 ⊢
    simp only [orHead] at h1 h2 ⊢
    rw [WF_cons] at h1
    obtain ⟨e1, e2⟩ := dshl_lor (w := w) (d := d) hbs h2
    rw [e1]
    refine ⟨WF_cons.mpr ⟨e2, h1.2⟩, ?_⟩
    simp only [U_cons]; omega
  | [], _, hx, hn, _, _ => exact absurd hx.1 (by simp; omega)
end UI
open Shift
namespace UI

/-- `unchecked_rotate_left(s)` for `s ≤ BITS` is the cyclic rotation by `s` -/
theorem uncheckedRotateLeft_spec {w n s : Nat} {a : List Nat} (hw : 0 < w) (hn : 1 ≤ n)
    (ha : WF w n a) (hs : s ≤ w * n) :
    WF w n (uncheckedRotateLeft w a s) ∧
    U w (uncheckedRotateLeft w a s) = rotN (w * n) (U w a) s := by
  have hsplit : w * digitShift w s + bitShift w s = s := Nat.div_add_mod s w
  have hbs := bitShift_lt s hw
  have hds : digitShift w s ≤ n := by
    unfold digitShift
    rcases Nat.lt_or_ge (s / w) (n + 1) with h | h
    · omega
    · exfalso
      have h1 : w * (n + 1) ≤ w * (s / w) := Nat.mul_le_mul_left _ h
      have h2 := Nat.div_add_mod s w
      rw [Nat.mul_add] at h1; omega
  unfold uncheckedRotateLeft
  generalize digitShift w s = ds at *
  generalize bitShift w s = bs at *
  obtain ⟨h1, h2⟩ := rotateDigitsLeft_spec ha hds
  simp only
  split
  · obtain ⟨h3, h4⟩ := rotateBits_spec (bs := bs) hn h1 (by omega)
    refine ⟨h3, ?_⟩
    rw [h4, h2, rotN_add (by rw [← M_eq_two_pow]; exact U_lt ha) (by omega), hsplit]
  · rename_i hb
    have hb0 : bs = 0 := by simpa using hb
    subst hb0
    refine ⟨h1, ?_⟩
    rw [h2]; congr 1
end UI
namespace Shift
theorem bits_pos {w n : Nat} (hw : 1 ≤ w) (hn : 1 ≤ n) : 0 < w * n := Nat.mul_pos hw hn

theorem S_allOnes {w n : Nat} (hw : 1 ≤ w) (hn : 1 ≤ n) : S w (allOnes w n) = -1 := by
  have h1 := U_allOnes w n
  have h2 := M_even hw hn
  have h3 := M_pos w n
  rw [S_def, (WF_allOnes w n).1, toInt_of_ge (by omega)]
  omega

/-- the amount used by wrapping / overflowing shifts -/
def effAmount (bits s : Nat) : Nat := if s < bits then s else maskBits bits s

theorem effAmount_lt {bits : Nat} (s : Nat) (h : 0 < bits) : effAmount bits s < bits := by
  unfold effAmount; split
  · assumption
  · exact maskBits_lt s h

theorem effAmount_pow2 {bits k : Nat} (s : Nat) (h : bits = 2 ^ k) : effAmount bits s = s % bits := by
  unfold effAmount; split
  · rw [Nat.mod_eq_of_lt ‹_›]
  · exact maskBits_pow2 s h
end Shift
open Shift

namespace UI
theorem overflowingShl_eq (w : Nat) (a : List Nat) (s : Nat) :
    overflowingShl w a s
      = (uncheckedShlInternal w a (effAmount (w * a.length) s), decide (w * a.length ≤ s)) := by
  unfold overflowingShl effAmount
  by_cases h : s < w * a.length
  · have h' : ¬ s ≥ w * a.length := by omega
    have h'' : ¬ w * a.length ≤ s := by omega
    simp [h, h'']
  · have h' : s ≥ w * a.length := by omega
    simp [h, h']

theorem overflowingShr_eq (w : Nat) (a : List Nat) (s : Nat) :
    overflowingShr w a s
      = (uncheckedShrInternal w a (effAmount (w * a.length) s), decide (w * a.length ≤ s)) := by
  unfold overflowingShr effAmount
  by_cases h : s < w * a.length
  · have h'' : ¬ w * a.length ≤ s := by omega
    simp [h, h'']
  · have h' : s ≥ w * a.length := by omega
    simp [h, h']
end UI

namespace II
/-- the value `BInt` right shifts compute for an in-range amount -/
theorem overflowingShr_eq (w : Nat) (a : List Nat) (s : Nat) :
    overflowingShr w a s
      = (UI.uncheckedShrPadInternal w (isNegative w a) a (effAmount (w * a.length) s),
         decide (w * a.length ≤ s)) := by
  unfold overflowingShr effAmount
  by_cases h : s < w * a.length
  · have h'' : ¬ w * a.length ≤ s := by omega
    cases isNegative w a <;> simp [h, h'']
  · have h' : s ≥ w * a.length := by omega
    cases isNegative w a <;> simp [h, h']

theorem overflowingShl_eq (w : Nat) (a : List Nat) (s : Nat) :
    overflowingShl w a s
      = (UI.uncheckedShlInternal w a (effAmount (w * a.length) s), decide (w * a.length ≤ s)) := by
  unfold overflowingShl; rw [UI.overflowingShl_eq]

theorem unboundedShr_eq (w : Nat) (a : List Nat) (s : Nat) :
    unboundedShr w a s = if s < w * a.length then UI.uncheckedShrPadInternal w (isNegative w a) a s
      else if isNegative w a then allOnes w a.length else zero a.length := by
  unfold unboundedShr
  by_cases h : s < w * a.length
  · have h' : ¬ s ≥ w * a.length := by omega
    cases isNegative w a <;> simp [h, h']
  · have h' : s ≥ w * a.length := by omega
    simp [h, h']
end II
namespace Shift
/-- two rotations whose amounts add up to `BITS` cancel -/
theorem rotate_cancel {w n r1 r2 : Nat} {a : List Nat} (hw : 0 < w) (hn : 1 ≤ n) (ha : WF w n a)
    (hr : r1 + r2 = w * n) :
    UI.uncheckedRotateLeft w (UI.uncheckedRotateLeft w a r1) r2 = a := by
  obtain ⟨h1, h2⟩ := UI.uncheckedRotateLeft_spec (s := r1) hw hn ha (by omega)
  obtain ⟨h3, h4⟩ := UI.uncheckedRotateLeft_spec (s := r2) hw hn h1 (by omega)
  apply U_injective h3 ha
  rw [h4, h2, rotN_add (by rw [← M_eq_two_pow]; exact U_lt ha) (by omega), hr, rotN_full]

theorem rotN_left (W x r : Nat) : rotN W x r = (x * 2 ^ r) % 2 ^ W + x / 2 ^ (W - r) := rfl
theorem rotN_right {W r : Nat} (x : Nat) (hr : r ≤ W) :
    rotN W x (W - r) = x / 2 ^ r + (x * 2 ^ (W - r)) % 2 ^ W := by
  unfold rotN; rw [show W - (W - r) = r by omega, Nat.add_comm]

/-- pattern of a product with a signed factor: only the residue of the factor matters -/
theorem wrapU_S_mul {w n : Nat} {a : List Nat} (ha : WF w n a) (t : Nat) :
    wrapU (M w n) (S w a * (t : Int)) = (U w a * t) % M w n := by
  rw [← wrapU_natCast]
  apply wrapU_congr
  push_cast
  rw [S_def, ha.1]; unfold toInt; split
  · rfl
  · have e : ((U w a : Int) - (M w n : Int)) * (t : Int) = (U w a : Int) * t + (M w n : Int) * (-(t : Int)) := by
      ring
    rw [e, Int.add_mul_emod_self_left]

theorem effAmount_of_lt {bits s : Nat} (h : s < bits) : effAmount bits s = s := by
  unfold effAmount; simp [h]
end Shift
open Shift

/-! ### public API in range: everything reduces to the `unchecked_*_internal` functions -/
namespace UI
/-- `x >> s` for `s < BITS` is `floor(x / 2^s)` -/
theorem uncheckedShrInternal_spec {w n s : Nat} {a : List Nat} (hw : 0 < w) (ha : WF w n a)
    (hs : s < w * n) :
    WF w n (uncheckedShrInternal w a s) ∧ U w (uncheckedShrInternal w a s) = U w a / 2 ^ s := by
  have := uncheckedShrPadInternal_spec false hw ha hs
  simpa [uncheckedShrInternal] using this

theorem wrappingShl_of_lt {w s : Nat} {a : List Nat} (hs : s < w * a.length) :
    wrappingShl w a s = uncheckedShlInternal w a s := by
  unfold wrappingShl; rw [overflowingShl_eq, effAmount_of_lt hs]
theorem wrappingShr_of_lt {w s : Nat} {a : List Nat} (hs : s < w * a.length) :
    wrappingShr w a s = uncheckedShrInternal w a s := by
  unfold wrappingShr; rw [overflowingShr_eq, effAmount_of_lt hs]
theorem checkedShl_of_lt {w s : Nat} {a : List Nat} (hs : s < w * a.length) :
    checkedShl w a s = some (uncheckedShlInternal w a s) := by
  unfold checkedShl; rw [if_neg (by omega)]
theorem checkedShr_of_lt {w s : Nat} {a : List Nat} (hs : s < w * a.length) :
    checkedShr w a s = some (uncheckedShrInternal w a s) := by
  unfold checkedShr; rw [if_neg (by omega)]
theorem checkedShl_of_ge {w s : Nat} {a : List Nat} (hs : w * a.length ≤ s) :
    checkedShl w a s = none := by
  unfold checkedShl; rw [if_pos (by omega)]
theorem checkedShr_of_ge {w s : Nat} {a : List Nat} (hs : w * a.length ≤ s) :
    checkedShr w a s = none := by
  unfold checkedShr; rw [if_pos (by omega)]
theorem strictShl_of_lt {w s : Nat} {a : List Nat} (hs : s < w * a.length) :
    strictShl w a s = .ok (uncheckedShlInternal w a s) := by
  unfold strictShl; rw [checkedShl_of_lt hs]; rfl
theorem strictShr_of_lt {w s : Nat} {a : List Nat} (hs : s < w * a.length) :
    strictShr w a s = .ok (uncheckedShrInternal w a s) := by
  unfold strictShr; rw [checkedShr_of_lt hs]; rfl
theorem strictShl_of_ge {w s : Nat} {a : List Nat} (hs : w * a.length ≤ s) :
    strictShl w a s = .panic := by
  unfold strictShl; rw [checkedShl_of_ge hs]; rfl
theorem strictShr_of_ge {w s : Nat} {a : List Nat} (hs : w * a.length ≤ s) :
    strictShr w a s = .panic := by
  unfold strictShr; rw [checkedShr_of_ge hs]; rfl
/-- `self << s` / `self.shl(s)` in range: same value in debug and release builds -/
theorem shl_of_lt {w s : Nat} {a : List Nat} (dbg : Bool) (hs : s < w * a.length) :
    shl dbg w a s = .ok (uncheckedShlInternal w a s) := by
  unfold shl; cases dbg <;> simp [strictShl_of_lt hs, wrappingShl_of_lt hs]
theorem shr_of_lt {w s : Nat} {a : List Nat} (dbg : Bool) (hs : s < w * a.length) :
    shr dbg w a s = .ok (uncheckedShrInternal w a s) := by
  unfold shr; cases dbg <;> simp [strictShr_of_lt hs, wrappingShr_of_lt hs]
theorem unboundedShl_of_lt {w s : Nat} {a : List Nat} (hs : s < w * a.length) :
    unboundedShl w a s = uncheckedShlInternal w a s := by
  unfold unboundedShl; rw [if_neg (by omega)]
theorem unboundedShr_of_lt {w s : Nat} {a : List Nat} (hs : s < w * a.length) :
    unboundedShr w a s = uncheckedShrInternal w a s := by
  unfold unboundedShr; rw [if_neg (by omega)]; rfl
end UI

namespace II
/-- the `BInt` right shift value for an in-range amount -/
def shrVal (w : Nat) (a : List Nat) (s : Nat) : List Nat :=
  UI.uncheckedShrPadInternal w (isNegative w a) a s

/-- `x >> s` for `s < BITS` on `BInt`: floor division of the signed value (sign-propagating) -/
theorem shrVal_spec {w n s : Nat} {a : List Nat} (hw : 1 ≤ w) (hn : 1 ≤ n) (ha : WF w n a)
    (hs : s < w * n) : WF w n (shrVal w a s) ∧ S w (shrVal w a s) = S w a / 2 ^ s :=
  shrPad_signed hw hn ha hs

theorem wrappingShl_of_lt {w s : Nat} {a : List Nat} (hs : s < w * a.length) :
    wrappingShl w a s = UI.uncheckedShlInternal w a s := by
  unfold wrappingShl; rw [overflowingShl_eq, effAmount_of_lt hs]
theorem wrappingShr_of_lt {w s : Nat} {a : List Nat} (hs : s < w * a.length) :
    wrappingShr w a s = shrVal w a s := by
  unfold wrappingShr; rw [overflowingShr_eq, effAmount_of_lt hs]; rfl
theorem checkedShl_of_lt {w s : Nat} {a : List Nat} (hs : s < w * a.length) :
    checkedShl w a s = some (UI.uncheckedShlInternal w a s) := by
  unfold checkedShl tupleToOption; rw [overflowingShl_eq, effAmount_of_lt hs]
  simp; omega
theorem checkedShr_of_lt {w s : Nat} {a : List Nat} (hs : s < w * a.length) :
    checkedShr w a s = some (shrVal w a s) := by
  unfold checkedShr tupleToOption; rw [overflowingShr_eq, effAmount_of_lt hs]
  simp [shrVal]; omega
theorem checkedShl_of_ge {w s : Nat} {a : List Nat} (hs : w * a.length ≤ s) :
    checkedShl w a s = none := by
  unfold checkedShl tupleToOption; rw [overflowingShl_eq]; simp [hs]
theorem checkedShr_of_ge {w s : Nat} {a : List Nat} (hs : w * a.length ≤ s) :
    checkedShr w a s = none := by
  unfold checkedShr tupleToOption; rw [overflowingShr_eq]; simp [hs]
theorem strictShl_of_lt {w s : Nat} {a : List Nat} (hs : s < w * a.length) :
    strictShl w a s = .ok (UI.uncheckedShlInternal w a s) := by
  unfold strictShl; rw [checkedShl_of_lt hs]; rfl
theorem strictShr_of_lt {w s : Nat} {a : List Nat} (hs : s < w * a.length) :
    strictShr w a s = .ok (shrVal w a s) := by
  unfold strictShr; rw [checkedShr_of_lt hs]; rfl
theorem strictShl_of_ge {w s : Nat} {a : List Nat} (hs : w * a.length ≤ s) :
    strictShl w a s = .panic := by
  unfold strictShl; rw [checkedShl_of_ge hs]; rfl
theorem strictShr_of_ge {w s : Nat} {a : List Nat} (hs : w * a.length ≤ s) :
    strictShr w a s = .panic := by
  unfold strictShr; rw [checkedShr_of_ge hs]; rfl
theorem shl_of_lt {w s : Nat} {a : List Nat} (dbg : Bool) (hs : s < w * a.length) :
    shl dbg w a s = .ok (UI.uncheckedShlInternal w a s) := by
  unfold shl; cases dbg <;> simp [strictShl_of_lt hs, wrappingShl_of_lt hs]
theorem shr_of_lt {w s : Nat} {a : List Nat} (dbg : Bool) (hs : s < w * a.length) :
    shr dbg w a s = .ok (shrVal w a s) := by
  unfold shr; cases dbg <;> simp [strictShr_of_lt hs, wrappingShr_of_lt hs]
theorem unboundedShr_of_lt {w s : Nat} {a : List Nat} (hs : s < w * a.length) :
    unboundedShr w a s = shrVal w a s := by
  rw [unboundedShr_eq, if_pos hs]; rfl
theorem unboundedShl_of_lt {w s : Nat} {a : List Nat} (hs : s < w * a.length) :
    unboundedShl w a s = UI.uncheckedShlInternal w a s := UI.unboundedShl_of_lt hs
end II
open Shift
namespace UI
theorem rotateLeft_spec {w n : Nat} {a : List Nat} (hw : 0 < w) (hn : 1 ≤ n) (ha : WF w n a)
    (k : Nat) :
    WF w n (rotateLeft w a k) ∧
    U w (rotateLeft w a k)
      = (U w a * 2 ^ (k % (w * n))) % M w n + U w a / 2 ^ (w * n - k % (w * n)) := by
  have hW := bits_pos hw hn
  unfold rotateLeft; rw [ha.1]
  exact uncheckedRotateLeft_spec hw hn ha (Nat.le_of_lt (Nat.mod_lt k hW))

theorem rotateRight_spec {w n : Nat} {a : List Nat} (hw : 0 < w) (hn : 1 ≤ n) (ha : WF w n a)
    (k : Nat) :
    WF w n (rotateRight w a k) ∧
    U w (rotateRight w a k)
      = U w a / 2 ^ (k % (w * n)) + (U w a * 2 ^ (w * n - k % (w * n))) % M w n := by
  have hW := bits_pos hw hn
  have hk := Nat.le_of_lt (Nat.mod_lt k hW)
  unfold rotateRight; rw [ha.1]
  obtain ⟨h1, h2⟩ := uncheckedRotateLeft_spec (s := w * n - k % (w * n)) hw hn ha (Nat.sub_le _ _)
  exact ⟨h1, by rw [h2, rotN_right _ hk]; rfl⟩

theorem rotateRight_rotateLeft {w n : Nat} {a : List Nat} (hw : 0 < w) (hn : 1 ≤ n)
    (ha : WF w n a) (k : Nat) : rotateRight w (rotateLeft w a k) k = a := by
  have hW := bits_pos hw hn
  have hk := Nat.le_of_lt (Nat.mod_lt k hW)
  have hl := (rotateLeft_spec hw hn ha k).1.1
  unfold rotateRight; rw [hl]; unfold rotateLeft; rw [ha.1]
  exact rotate_cancel hw hn ha (by omega)

theorem rotateLeft_rotateRight {w n : Nat} {a : List Nat} (hw : 0 < w) (hn : 1 ≤ n)
    (ha : WF w n a) (k : Nat) : rotateLeft w (rotateRight w a k) k = a := by
  have hW := bits_pos hw hn
  have hk := Nat.le_of_lt (Nat.mod_lt k hW)
  have hl := (rotateRight_spec hw hn ha k).1.1
  unfold rotateLeft; rw [hl]; unfold rotateRight; rw [ha.1]
  exact rotate_cancel hw hn ha (by omega)
end UI
end Bnum
