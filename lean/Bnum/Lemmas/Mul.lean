/-
  Bnum.Lemmas.Mul — multiplication (C02): `digit::carrying_mul`, `long_mul`, `widening_mul`,
  `carrying_mul`, signed `overflowing_mul` and the checked / wrapping / saturating / strict forms.

  Invariants (everything on exact naturals, all terms non-negative so the flag is monotone):
  * row      `U out' + B^k * (carry' + a * X) = U out + carry + a * U b`, `break`-flag ↔ `a * X ≠ 0`
             where `k = N - i` is the length of the tail `out[i..]` and `X = U (b[k..])`;
  * rows     `U out' + B^k * Y = U out + U a[i..] * U b`, flag ↔ (flag before ∨ `Y ≠ 0`).
  With `k = N`, `out = 0`: `U out' = (U a * U b) mod M` and flag ↔ `M ≤ U a * U b`.
-/
import Bnum.Model.Mul
import Bnum.Lemmas.AddSub2

namespace Bnum

theorem MulAux.mul_add_lt_sq {a b c d k : Nat} (ha : a < k) (hb : b < k) (hc : c < k) (hd : d < k) :
    a * b + c + d < k * k := by
  obtain ⟨j, rfl⟩ : ∃ j, k = j + 1 := ⟨k - 1, by omega⟩
  have h1 : a * b ≤ j * j := Nat.mul_le_mul (by omega) (by omega)
  have : (j + 1) * (j + 1) = j * j + 2 * j + 1 := by ring
  omega

namespace Digit
theorem carryingMul_spec {w a b c d : Nat} (ha : a < B w) (hb : b < B w) (hc : c < B w)
    (hd : d < B w) :
    (carryingMul w a b c d).1 + B w * (carryingMul w a b c d).2 = a * b + c + d
    ∧ (carryingMul w a b c d).1 < B w ∧ (carryingMul w a b c d).2 < B w := by
  unfold carryingMul
  have hB := B_pos w
  have hlt := MulAux.mul_add_lt_sq ha hb hc hd
  generalize B w = k at *
  have e : c + d + a * b = a * b + c + d := by omega
  simp only [e, Nat.mod_eq_of_lt hlt]
  have hq : (a * b + c + d) / k < k := Nat.div_lt_of_lt_mul hlt
  rw [Nat.mod_eq_of_lt hq]
  exact ⟨Nat.mod_add_div _ _, Nat.mod_lt _ hB, hq⟩

theorem wideningMul_spec {w a b : Nat} (ha : a < B w) (hb : b < B w) :
    (wideningMul w a b).1 + B w * (wideningMul w a b).2 = a * b
    ∧ (wideningMul w a b).1 < B w ∧ (wideningMul w a b).2 < B w := by
  have := carryingMul_spec ha hb (B_pos w) (B_pos w)
  simpa [carryingMul, wideningMul] using this
end Digit

theorem MulAux.WF_length_zero {w : Nat} {x : List Nat} (h : WF w 0 x) : x = [] := by
  have := h.1; simpa using this
theorem MulAux.WF_append {w i j : Nat} {x y : List Nat} (hx : WF w i x) (hy : WF w j y) :
    WF w (i + j) (x ++ y) := by
  refine ⟨by simp [hx.1, hy.1], ?_⟩
  intro d hd
  rcases List.mem_append.mp hd with h | h
  · exact hx.2 d h
  · exact hy.2 d h

theorem MulAux.WF_singleton {w d : Nat} (hd : d < B w) : WF w 1 [d] := WF_cons.mpr ⟨hd, WF_nil w⟩

namespace UI

/-! ### `long_mul` -/

theorem mulRowScan_spec {w : Nat} (a : Nat) : ∀ bs : List Nat,
    (mulRowScan a bs = true ↔ a * U w bs ≠ 0) := by
  intro bs
  induction bs with
  | nil => simp [mulRowScan]
  | cons b bs ih =>
    have hB := B_pos w
    simp only [mulRowScan, U_cons]
    by_cases h : a ≠ 0 ∧ b ≠ 0
    · have : (a != 0 && b != 0) = true := by simp [h.1, h.2]
      simp only [this, if_true, true_iff]
      have : 0 < a * b := Nat.mul_pos (by omega) (by omega)
      rw [Nat.mul_add]; omega
    · have : (a != 0 && b != 0) = false := by
        simp only [Bool.and_eq_false_iff, bne_eq_false_iff_eq]
        omega
      simp only [this, Bool.false_eq_true, if_false, ih]
      by_cases ha : a = 0
      · subst ha; simp
      · have hb : b = 0 := by omega
        subst hb
        simp [Nat.pos_iff_ne_zero.mp hB]

theorem mulRow_spec {w a : Nat} (ha : a < B w) : ∀ (k m : Nat) (os bs : List Nat) (c : Nat),
    WF w k os → WF w m bs → c < B w → k ≤ m →
    WF w k (mulRow w a os bs c).1 ∧ (mulRow w a os bs c).2.1 < B w ∧
    ∃ X, U w (mulRow w a os bs c).1 + B w ^ k * ((mulRow w a os bs c).2.1 + a * X)
          = U w os + c + a * U w bs
        ∧ ((mulRow w a os bs c).2.2 = true ↔ a * X ≠ 0) := by
  intro k
  induction k with
  | zero =>
    intro m os bs c hos hbs hc _
    have := MulAux.WF_length_zero hos; subst this
    simp only [mulRow]
    refine ⟨WF_nil w, hc, U w bs, ?_, mulRowScan_spec a bs⟩
    simp
  | succ k ih =>
    intro m os bs c hos hbs hc hkm
    match os, bs, m, hos, hbs, hkm with
    | o :: os, b :: bs, m + 1, hos, hbs, hkm =>
      rw [WF_cons] at hos hbs
      simp only [mulRow]
      obtain ⟨h1, h2, h3⟩ := Digit.carryingMul_spec ha hbs.1 hc hos.1
      obtain ⟨h4, h5, X, h6, h7⟩ := ih m os bs (Digit.carryingMul w a b c o).2 hos.2 hbs.2 h3 (by omega)
      refine ⟨WF_cons.mpr ⟨h2, h4⟩, h5, X, ?_, h7⟩
      simp only [U_cons, Nat.pow_succ]
      generalize (mulRow w a os bs (Digit.carryingMul w a b c o).2).2.1 = c2 at *
      generalize U w (mulRow w a os bs (Digit.carryingMul w a b c o).2).1 = r at *
      generalize (Digit.carryingMul w a b c o).2 = c1 at *
      generalize (Digit.carryingMul w a b c o).1 = s at *
      have : B w * (r + B w ^ k * (c2 + a * X)) = B w * (U w os + c1 + a * U w bs) := by rw [h6]
      generalize B w ^ k = p at *
      nlinarith [this, h1]
    | [], _, _, hos, _, _ => exact absurd hos.1 (by simp)
    | _ :: _, [], m, _, hbs, hkm => 
      have := hbs.1; simp at this; omega
    | _ :: _, _ :: _, 0, _, hbs, hkm => omega
theorem longMulLoop_spec {w m : Nat} {b : List Nat} (hb : WF w m b) :
    ∀ (k : Nat) (as out : List Nat) (ov : Bool), WF w k as → WF w k out → k ≤ m →
    WF w k (longMulLoop w as b out ov).1 ∧
    ∃ Y, U w (longMulLoop w as b out ov).1 + B w ^ k * Y = U w out + U w as * U w b
        ∧ ((longMulLoop w as b out ov).2 = true ↔ (ov = true ∨ Y ≠ 0)) := by
  intro k
  induction k with
  | zero =>
    intro as out ov has hout _
    have := MulAux.WF_length_zero has; subst this
    have := MulAux.WF_length_zero hout; subst this
    simp only [longMulLoop]
    exact ⟨WF_nil w, 0, by simp, by simp⟩
  | succ k ih =>
    intro as out ov has hout hkm
    match as, has with
    | a :: as, has =>
      rw [WF_cons] at has
      obtain ⟨h1, h2, X, h3, h4⟩ := mulRow_spec has.1 (k+1) m out b 0 hout hb (B_pos w) hkm
      simp only [longMulLoop]
      generalize mulRow w a out b 0 = r at *
      obtain ⟨r1, c1, f1⟩ := r
      simp only at h1 h2 h3 h4 ⊢
      match r1, h1 with
      | d :: rest, h1 =>
        rw [WF_cons] at h1
        simp only
        generalize hov : (if (c1 != 0) = true then true else (ov || f1)) = ov2
        obtain ⟨h5, Y, h6, h7⟩ := ih as rest ov2 has.2 h1.2 (by omega)
        refine ⟨WF_cons.mpr ⟨h1.1, h5⟩, Y + (c1 + a * X), ?_, ?_⟩
        · simp only [U_cons, Nat.pow_succ] at *
          generalize U w (longMulLoop w as b rest ov2).1 = res at *
          generalize B w ^ k = p at *
          have : B w * (res + p * Y) = B w * (U w rest + U w as * U w b) := by rw [h6]
          nlinarith [this, h3]
        · rw [h7, ← hov]
          have e : (Y + (c1 + a * X) ≠ 0) ↔ (Y ≠ 0 ∨ c1 ≠ 0 ∨ a * X ≠ 0) := by omega
          rw [e, ← h4]
          by_cases hc : c1 = 0
          · subst hc; cases ov <;> cases f1 <;> simp
          · have : (c1 != 0) = true := by simp [hc]
            simp [this, hc]
      | [], h1 => exact absurd h1.1 (by simp)
    | [], has => exact absurd has.1 (by simp)

theorem u_longMul_spec {w n : Nat} {a b : List Nat} (ha : WF w n a) (hb : WF w n b) :
    U w (longMul w a b).1 = (U w a * U w b) % M w n ∧
    ((longMul w a b).2 = true ↔ M w n ≤ U w a * U w b) ∧ WF w n (longMul w a b).1 := by
  unfold longMul
  rw [ha.1]
  have hz := WF_zero w n
  obtain ⟨h1, Y, h2, h3⟩ := longMulLoop_spec hb n a (zero n) false ha hz (Nat.le_refl _)
  have hlt := U_lt h1
  have hM := M_pos w n
  rw [show U w (zero n) = 0 from U_replicate_zero w n, Nat.zero_add, ← M_eq_pow] at h2
  generalize U w (longMulLoop w a b (zero n) false).1 = r at *
  refine ⟨?_, ?_, h1⟩
  · rw [← h2, Nat.add_mul_mod_self_left, Nat.mod_eq_of_lt hlt]
  · rw [h3, ← h2]
    simp only [Bool.false_eq_true, false_or]
    constructor
    · intro hy
      have : M w n * 1 ≤ M w n * Y := Nat.mul_le_mul_left _ (by omega)
      omega
    · intro h hy; subst hy; omega

/-! ### `widening_mul` -/

theorem wideRowLow_spec {w a : Nat} (ha : a < B w) : ∀ (k i : Nat) (ls bs : List Nat) (c : Nat),
    WF w k ls → WF w (k + i) bs → c < B w →
    WF w k (wideRowLow w a ls bs c).1 ∧ (wideRowLow w a ls bs c).2.1 < B w ∧
    WF w i (wideRowLow w a ls bs c).2.2 ∧
    U w (wideRowLow w a ls bs c).1
        + B w ^ k * ((wideRowLow w a ls bs c).2.1 + a * U w (wideRowLow w a ls bs c).2.2)
      = U w ls + c + a * U w bs := by
  intro k
  induction k with
  | zero =>
    intro i ls bs c hls hbs hc
    have := MulAux.WF_length_zero hls; subst this
    simp only [wideRowLow]
    refine ⟨WF_nil w, hc, by simpa using hbs, by simp⟩
  | succ k ih =>
    intro i ls bs c hls hbs hc
    match ls, bs, hls, hbs with
    | l :: ls, b :: bs, hls, hbs =>
      rw [show k + 1 + i = (k + i) + 1 by omega] at hbs
      rw [WF_cons] at hls hbs
      simp only [wideRowLow]
      obtain ⟨h1, h2, h3⟩ := Digit.carryingMul_spec ha hbs.1 hc hls.1
      obtain ⟨h4, h5, h6, h7⟩ := ih i ls bs (Digit.carryingMul w a b c l).2 hls.2 hbs.2 h3
      refine ⟨WF_cons.mpr ⟨h2, h4⟩, h5, h6, ?_⟩
      simp only [U_cons, Nat.pow_succ]
      generalize (wideRowLow w a ls bs (Digit.carryingMul w a b c l).2).2.1 = c2 at *
      generalize U w (wideRowLow w a ls bs (Digit.carryingMul w a b c l).2).2.2 = X at *
      generalize U w (wideRowLow w a ls bs (Digit.carryingMul w a b c l).2).1 = r at *
      generalize (Digit.carryingMul w a b c l).2 = c1 at *
      generalize (Digit.carryingMul w a b c l).1 = s at *
      have : B w * (r + B w ^ k * (c2 + a * X)) = B w * (U w ls + c1 + a * U w bs) := by rw [h7]
      generalize B w ^ k = p at *
      nlinarith [this, h1]
    | [], _, hls, _ => exact absurd hls.1 (by simp)
    | _ :: _, [], _, hbs => have := hbs.1; simp at this; omega

theorem wideRowHigh_spec {w a : Nat} (ha : a < B w) (z : Nat) (tl : List Nat) :
    ∀ (i : Nat) (hp bs : List Nat) (c : Nat), WF w i hp → WF w i bs → c < B w →
    ∃ hp' c', wideRowHigh w a (hp ++ z :: tl) bs c = hp' ++ c' :: tl ∧ WF w i hp' ∧ c' < B w ∧
      U w hp' + B w ^ i * c' = U w hp + c + a * U w bs := by
  intro i
  induction i with
  | zero =>
    intro hp bs c hhp hbs hc
    have := MulAux.WF_length_zero hhp; subst this
    have := MulAux.WF_length_zero hbs; subst this
    exact ⟨[], c, by simp [wideRowHigh], WF_nil w, hc, by simp⟩
  | succ i ih =>
    intro hp bs c hhp hbs hc
    match hp, bs, hhp, hbs with
    | h :: hp, b :: bs, hhp, hbs =>
      rw [WF_cons] at hhp hbs
      obtain ⟨h1, h2, h3⟩ := Digit.carryingMul_spec ha hbs.1 hc hhp.1
      obtain ⟨hp', c', e, h4, h5, h6⟩ := ih hp bs (Digit.carryingMul w a b c h).2 hhp.2 hbs.2 h3
      refine ⟨(Digit.carryingMul w a b c h).1 :: hp', c', ?_, WF_cons.mpr ⟨h2, h4⟩, h5, ?_⟩
      · simp only [List.cons_append, wideRowHigh, e]
      · simp only [U_cons, Nat.pow_succ]
        generalize (Digit.carryingMul w a b c h).2 = c1 at *
        generalize (Digit.carryingMul w a b c h).1 = s at *
        have : B w * (U w hp' + B w ^ i * c') = B w * (U w hp + c1 + a * U w bs) := by rw [h6]
        generalize B w ^ i = p at *
        nlinarith [this, h1]
    | [], _, hhp, _ => exact absurd hhp.1 (by simp)
    | _ :: _, [], _, hbs => exact absurd hbs.1 (by simp)

theorem wideLoop_spec {w m : Nat} {b : List Nat} (hb : WF w m b) :
    ∀ (k i : Nat) (as low hp : List Nat), WF w k as → WF w k low → WF w i hp → k + i = m →
    WF w k (wideLoop w as b low (hp ++ List.replicate k 0)).1 ∧
    WF w m (wideLoop w as b low (hp ++ List.replicate k 0)).2 ∧
    U w (wideLoop w as b low (hp ++ List.replicate k 0)).1
        + B w ^ k * U w (wideLoop w as b low (hp ++ List.replicate k 0)).2
      = U w low + B w ^ k * U w hp + U w as * U w b := by
  intro k
  induction k with
  | zero =>
    intro i as low hp has hlow hhp hm
    have := MulAux.WF_length_zero has; subst this
    have := MulAux.WF_length_zero hlow; subst this
    simp only [wideLoop, List.replicate_zero, List.append_nil]
    refine ⟨WF_nil w, by rw [← hm]; simpa using hhp, by simp⟩
  | succ k ih =>
    intro i as low hp has hlow hhp hm
    match as, has with
    | a :: as, has =>
      rw [WF_cons] at has
      have hb' : WF w (k + 1 + i) b := by rw [hm]; exact hb
      obtain ⟨h1, h2, h3, h4⟩ := wideRowLow_spec has.1 (k+1) i low b 0 hlow hb' (B_pos w)
      simp only [wideLoop]
      generalize wideRowLow w a low b 0 = r at *
      obtain ⟨r1, c1, rem⟩ := r
      simp only at h1 h2 h3 h4 ⊢
      obtain ⟨hp', c', e, h5, h6, h7⟩ :=
        wideRowHigh_spec has.1 0 (List.replicate k 0) i hp rem c1 hhp h3 h2
      rw [List.replicate_succ, e]
      match r1, h1 with
      | d :: rest, h1 =>
        rw [WF_cons] at h1
        simp only
        have e2 : hp' ++ c' :: List.replicate k 0 = (hp' ++ [c']) ++ List.replicate k 0 := by simp
        rw [e2]
        have hw' : WF w (i + 1) (hp' ++ [c']) := MulAux.WF_append h5 (MulAux.WF_singleton h6)
        obtain ⟨h8, h9, h10⟩ := ih (i + 1) as rest (hp' ++ [c']) has.2 h1.2 hw' (by omega)
        refine ⟨WF_cons.mpr ⟨h1.1, h8⟩, h9, ?_⟩
        rw [U_append, h5.1] at h10
        simp only [U_cons, U_nil, Nat.pow_succ, Nat.mul_zero, Nat.add_zero] at *
        generalize U w (wideLoop w as b rest (hp' ++ [c'] ++ List.replicate k 0)).1 = lo at *
        generalize U w (wideLoop w as b rest (hp' ++ [c'] ++ List.replicate k 0)).2 = hi at *
        generalize B w ^ k = p at *
        generalize B w ^ i = q at *
        have t1 : B w * (lo + p * hi) = B w * (U w rest + p * (U w hp' + q * c') + U w as * U w b) := by
          rw [h10]
        have t2 : p * B w * (U w hp' + q * c') = p * B w * (U w hp + c1 + a * U w rem) := by rw [h7]
        nlinarith [t1, t2, h4]
      | [], h1 => exact absurd h1.1 (by simp)
    | [], has => exact absurd has.1 (by simp)

theorem u_wideningMul_spec {w n : Nat} {a b : List Nat} (ha : WF w n a) (hb : WF w n b) :
    WF w n (wideningMul w a b).1 ∧ WF w n (wideningMul w a b).2 ∧
    U w (wideningMul w a b).2 * M w n + U w (wideningMul w a b).1 = U w a * U w b := by
  unfold wideningMul
  rw [ha.1]
  obtain ⟨h1, h2, h3⟩ := wideLoop_spec hb n 0 a (zero n) [] ha (WF_zero w n) (WF_nil w) (by omega)
  simp only [List.nil_append] at h1 h2 h3
  rw [show List.replicate n 0 = zero n from rfl] at h1 h2 h3
  refine ⟨h1, h2, ?_⟩
  rw [U_zero, U_nil, ← M_eq_pow] at h3
  rw [Nat.mul_comm]; omega

/-- `hi`/`lo` are the quotient and remainder of the exact product -/
theorem u_wideningMul_divmod {w n : Nat} {a b : List Nat} (ha : WF w n a) (hb : WF w n b) :
    U w (wideningMul w a b).1 = (U w a * U w b) % M w n ∧
    U w (wideningMul w a b).2 = (U w a * U w b) / M w n := by
  obtain ⟨h1, _, h3⟩ := u_wideningMul_spec ha hb
  have hlt := U_lt h1
  have hM := M_pos w n
  rw [← h3]
  constructor
  · rw [Nat.mul_comm, Nat.mul_add_mod, Nat.mod_eq_of_lt hlt]
  · rw [Nat.mul_comm, Nat.mul_add_div hM, Nat.div_eq_of_lt hlt, Nat.add_zero]

theorem u_carryingMul_spec {w n : Nat} {a b c : List Nat} (hw : 1 ≤ w) (hn : 1 ≤ n)
    (ha : WF w n a) (hb : WF w n b) (hc : WF w n c) :
    WF w n (carryingMul w a b c).1 ∧ WF w n (carryingMul w a b c).2 ∧
    U w (carryingMul w a b c).2 * M w n + U w (carryingMul w a b c).1
      = U w a * U w b + U w c := by
  obtain ⟨h1, h2, h3⟩ := u_wideningMul_spec ha hb
  unfold carryingMul
  rw [ha.1]
  obtain ⟨g1, g2⟩ := addLoop_spec n (wideningMul w a b).1 c false h1 hc
  have hM := M_pos w n
  have hua := U_lt ha; have hub := U_lt hb; have huc := U_lt hc
  have hlo := U_lt h1; have hhi := U_lt h2; have hs := U_lt g1
  -- the product of two `n`-digit numbers plus a carry fits in `2n` digits
  have hprod : U w a * U w b ≤ (M w n - 1) * (M w n - 1) := Nat.mul_le_mul (by omega) (by omega)
  unfold overflowingAdd
  cases hf : (addLoop w (wideningMul w a b).1 c false).2
  · rw [hf] at g2
    simp only [hf, Bool.false_eq_true, if_false, Bool.toNat_false, Nat.mul_zero, Nat.add_zero] at g2 ⊢
    exact ⟨g1, h2, by omega⟩
  · rw [hf] at g2
    simp only [hf, if_true, Bool.toNat_true, Bool.toNat_false, Nat.mul_one, Nat.add_zero] at g2 ⊢
    obtain ⟨k1, k2⟩ := addLoop_spec n (wideningMul w a b).2 (one n) false h2 (WF_one hw hn)
    rw [U_one hn] at k2
    simp only [Bool.toNat_false, Nat.add_zero] at k2
    unfold wrappingAdd overflowingAdd
    refine ⟨g1, k1, ?_⟩
    have hk := U_lt k1
    generalize U w (addLoop w (wideningMul w a b).2 (one n) false).1 = hi' at *
    generalize U w (addLoop w (wideningMul w a b).1 c false).1 = lo' at *
    generalize U w (wideningMul w a b).1 = lo at *
    generalize U w (wideningMul w a b).2 = hi at *
    generalize U w a * U w b = p at *
    generalize M w n = m at *
    -- hi < m - 1, otherwise the product would be too large
    have hhi' : hi + 1 < m := by
      by_contra hcon
      have e : hi = m - 1 := by omega
      have : (m - 1) * m = (m - 1) * (m - 1) + (m - 1) := by
        obtain ⟨j, rfl⟩ : ∃ j, m = j + 1 := ⟨m - 1, by omega⟩
        simp only [Nat.add_sub_cancel]; ring
      rw [e] at h3; omega
    cases hf2 : (addLoop w (wideningMul w a b).2 (one n) false).2
    · rw [hf2] at k2; simp only [Bool.toNat_false, Nat.mul_zero, Nat.add_zero] at k2
      subst k2
      have : (hi + 1) * m = hi * m + m := by ring
      omega
    · rw [hf2] at k2; simp only [Bool.toNat_true, Nat.mul_one] at k2
      omega

/-- `overflowing_mul` in the common `OvfU` shape -/
theorem overflowingMul_spec {w n : Nat} {a b : List Nat} (ha : WF w n a) (hb : WF w n b) :
    OvfU w n (overflowingMul w a b) ((U w a : Int) * U w b) := by
  obtain ⟨h1, h2, h3⟩ := u_longMul_spec ha hb
  unfold overflowingMul
  refine ⟨h3, ?_, ?_⟩
  · rw [h1, ← Int.natCast_mul, wrapU_natCast]
  · apply bool_eq_decide
    rw [h2]; unfold repU
    rw [← Int.natCast_mul]
    constructor
    · intro h hc; have := hc.2; omega
    · intro h; by_contra hc; exact h ⟨by omega, by omega⟩

end UI

/-! ### signed multiplication -/

/-- the residue and quotient of a natural number, in the form `omega` can use -/
theorem MulAux.mod_decomp (p m : Nat) (_hm : 0 < m) :
    ∃ q : Nat, p = p % m + q ∧ (q = 0 ∨ m ≤ q) ∧ ∃ k : Int, (q : Int) = k * m := by
  refine ⟨m * (p / m), (Nat.mod_add_div p m).symm, ?_, (p / m : Nat), by push_cast; ring⟩
  rcases Nat.eq_zero_or_pos (p / m) with h | h
  · left; rw [h]; rfl
  · right; exact Nat.le_mul_of_pos_right m h

/-- sign split of a product of integers through the magnitudes -/
theorem MulAux.mul_sign_cases (s t : Int) :
    ((decide (s < 0) == decide (t < 0)) = true ∧ s * t = ((s.natAbs * t.natAbs : Nat) : Int)) ∨
    ((decide (s < 0) == decide (t < 0)) = false ∧ s * t = -((s.natAbs * t.natAbs : Nat) : Int)
      ) := by
  by_cases hs : s < 0 <;> by_cases ht : t < 0
  · left; refine ⟨by simp [hs, ht], ?_⟩
    rw [Int.natCast_mul, show (s.natAbs : Int) = -s by omega, show (t.natAbs : Int) = -t by omega]; ring
  · right; refine ⟨by simp [hs, ht], ?_⟩
    rw [Int.natCast_mul, show (s.natAbs : Int) = -s by omega, show (t.natAbs : Int) = t by omega]; ring
  · right; refine ⟨by simp [hs, ht], ?_⟩
    rw [Int.natCast_mul, show (s.natAbs : Int) = s by omega, show (t.natAbs : Int) = -t by omega]; ring
  · left; refine ⟨by simp [hs, ht], ?_⟩
    rw [Int.natCast_mul, show (s.natAbs : Int) = s by omega, show (t.natAbs : Int) = t by omega]

namespace II

theorem overflowingMul_spec {w n : Nat} {a b : List Nat} (hw : 2 ≤ w) (hn : 1 ≤ n)
    (ha : WF w n a) (hb : WF w n b) :
    OvfS w n (overflowingMul w a b) (S w a * S w b) := by
  have hw1 : 1 ≤ w := by omega
  obtain ⟨hua, hUa⟩ := unsignedAbs_spec hw hn ha
  obtain ⟨hub, hUb⟩ := unsignedAbs_spec hw hn hb
  obtain ⟨h1, h2, h3⟩ := UI.u_longMul_spec hua hub
  rw [hUa, hUb] at h1 h2
  have hM := M_pos w n
  have hMe := M_even hw1 hn
  unfold overflowingMul UI.overflowingMul
  rw [isNegative_eq_decide hw1 hn ha, isNegative_eq_decide hw1 hn hb]
  generalize UI.longMul w (unsignedAbs w a) (unsignedAbs w b) = r at *
  obtain ⟨out, f⟩ := r
  simp only at *
  have hno := isNegative_eq_decide hw1 hn h3
  have hout := S_cases h3
  have hrep := S_repS hw1 hn h3
  have hlt := U_lt h3
  obtain ⟨q, hq1, hq2, k, hk⟩ := MulAux.mod_decomp ((S w a).natAbs * (S w b).natAbs) (M w n) hM
  rw [← h1] at hq1
  rcases MulAux.mul_sign_cases (S w a) (S w b) with ⟨hs, hz⟩ | ⟨hs, hz⟩
  · rw [hs, if_pos rfl, hz]
    generalize (S w a).natAbs * (S w b).natAbs = p at *
    refine ⟨h3, ?_, ?_⟩
    · apply S_eq_wrapS h3 (k := k); rw [← hk]; omega
    · simp only; apply bool_eq_decide
      rw [Bool.or_eq_true, h2, hno, decide_eq_true_iff]
      unfold repS at *; omega
  · rw [hs, hz]
    simp only [Bool.false_eq_true, if_false]
    generalize (S w a).natAbs * (S w b).natAbs = p at *
    have hneg := overflowingNeg_spec hw hn h3
    unfold checkedNeg
    cases hc : tupleToOption (overflowingNeg w out) with
    | none =>
      have hnr := hneg.checked.1.1 hc
      simp only
      have e1 : (-1 - k) * (M w n : Int) = -(M w n : Int) - q := by rw [hk]; ring
      refine ⟨h3, ?_, ?_⟩
      · apply S_eq_wrapS h3 (k := -1 - k); rw [e1]
        unfold repS at *; omega
      · simp only; apply bool_eq_decide
        rw [h2]
        unfold repS at *; omega
    | some nn =>
      obtain ⟨g1, g2⟩ := hneg.checked.2 nn hc
      have hr := S_repS hw1 hn g1
      simp only
      refine ⟨g1, ?_, ?_⟩
      · simp only
        rcases hout with ⟨_, e⟩ | ⟨_, e⟩
        · have e1 : (-1 - k) * (M w n : Int) = -(M w n : Int) - q := by rw [hk]; ring
          rw [show -(p : Int) = S w nn + (-1 - k) * (M w n : Int) by rw [e1]; omega,
            wrapS_add_mul, wrapS_of_rep hM hr]
        · have e1 : (- k) * (M w n : Int) = - q := by rw [hk]; ring
          rw [show -(p : Int) = S w nn + (- k) * (M w n : Int) by rw [e1]; omega,
            wrapS_add_mul, wrapS_of_rep hM hr]
      · simp only; apply bool_eq_decide
        rw [Bool.or_eq_true, h2, hno, decide_eq_true_iff]
        unfold repS at *; omega
theorem wrappingMul_spec {w n : Nat} {a b : List Nat} (ha : WF w n a) (hb : WF w n b) :
    WF w n (wrappingMul w a b) ∧ S w (wrappingMul w a b) = wrapS (M w n) (S w a * S w b) := by
  obtain ⟨h1, _, h3⟩ := UI.u_longMul_spec ha hb
  unfold wrappingMul UI.wrappingMul UI.overflowingMul
  refine ⟨h3, ?_⟩
  obtain ⟨q, hq⟩ := exists_of_mod h1
  obtain ⟨ka, hka⟩ := S_spec ha; obtain ⟨kb, hkb⟩ := S_spec hb
  apply S_eq_wrapS h3 (k := q + ka * U w b + kb * U w a + ka * kb * M w n)
  push_cast at hq
  rw [hka, hkb]; linear_combination hq

theorem saturatingMul_spec {w n : Nat} {a b : List Nat} (hw : 2 ≤ w) (hn : 1 ≤ n)
    (ha : WF w n a) (hb : WF w n b) :
    WF w n (saturatingMul w a b) ∧
    S w (saturatingMul w a b) = Spec.clamp true (M w n) (S w a * S w b) := by
  have hw1 : 1 ≤ w := by omega
  have hm := M_even hw1 hn
  have hM := M_pos w n
  by_cases hN : (isNegative w a == isNegative w b) = true
  · refine saturate_spec hw1 hn (overflowingMul_spec hw hn ha hb) (WF_iMax hw1 hn) ?_ _
      (by unfold saturatingMul checkedMul; rw [if_pos hN, ha.1]; rfl)
    intro hr
    rw [isNegative_eq_decide hw1 hn ha, isNegative_eq_decide hw1 hn hb] at hN
    rcases MulAux.mul_sign_cases (S w a) (S w b) with ⟨_, hz⟩ | ⟨hs, _⟩
    · rw [S_iMax hw1 hn, clampS_hi hm (by unfold repS at hr; omega)]
    · rw [hs] at hN; exact absurd hN (by simp)
  · refine saturate_spec hw1 hn (overflowingMul_spec hw hn ha hb) (WF_iMin hw1 hn) ?_ _
      (by unfold saturatingMul checkedMul; rw [if_neg hN, ha.1]; rfl)
    intro hr
    rw [isNegative_eq_decide hw1 hn ha, isNegative_eq_decide hw1 hn hb] at hN
    rcases MulAux.mul_sign_cases (S w a) (S w b) with ⟨hs, _⟩ | ⟨_, hz⟩
    · exact absurd hs hN
    · rw [S_iMin hw1 hn, clampS_lo hm (by unfold repS at hr; omega)]

theorem mul_spec {w n : Nat} {a b : List Nat} (hw : 2 ≤ w) (hn : 1 ≤ n)
    (ha : WF w n a) (hb : WF w n b) (dbg : Bool) :
    (mul w dbg a b = Outcome.panic ↔ (dbg = true ∧ ¬ repS (M w n) (S w a * S w b))) ∧
    (∀ r, mul w dbg a b = Outcome.ok r →
      WF w n r ∧ S w r = wrapS (M w n) (S w a * S w b) ∧ (dbg = true → S w r = S w a * S w b)) := by
  have h := overflowingMul_spec hw hn ha hb
  unfold mul strictMul checkedMul
  cases dbg
  · simp only [Bool.false_eq_true, if_false, false_and, iff_false, false_implies, and_true]
    refine ⟨by simp, ?_⟩
    intro r hr
    cases hr
    exact wrappingMul_spec ha hb
  · simp only [if_true, true_and, true_implies]
    refine ⟨h.strict.1, ?_⟩
    intro r hr
    obtain ⟨g1, g2⟩ := h.strict.2 r hr
    refine ⟨g1, ?_, g2⟩
    rw [g2, wrapS_of_rep (M_pos w n)]
    rw [← g2]; exact S_repS (by omega) hn g1
end II

namespace UI
theorem saturatingMul_spec {w n : Nat} {a b : List Nat} (ha : WF w n a) (hb : WF w n b) :
    WF w n (saturatingMul w a b) ∧
    (U w (saturatingMul w a b) : Int) = Spec.clamp false (M w n) ((U w a : Int) * U w b) := by
  unfold saturatingMul; rw [ha.1]
  exact saturateUp_spec (overflowingMul_spec ha hb) (by positivity)

theorem mul_spec {w n : Nat} {a b : List Nat} (ha : WF w n a) (hb : WF w n b) (dbg : Bool) :
    (mul w dbg a b = Outcome.panic ↔ (dbg = true ∧ ¬ repU (M w n) ((U w a : Int) * U w b))) ∧
    (∀ r, mul w dbg a b = Outcome.ok r →
      WF w n r ∧ (U w r : Int) = wrapU (M w n) ((U w a : Int) * U w b) ∧
      (dbg = true → (U w r : Int) = (U w a : Int) * U w b)) := by
  have h := overflowingMul_spec ha hb
  unfold mul strictMul checkedMul
  cases dbg
  · simp only [Bool.false_eq_true, if_false, false_and, iff_false, false_implies, and_true]
    refine ⟨by simp, ?_⟩
    intro r hr
    cases hr
    exact h.wrapping
  · simp only [if_true, true_and, true_implies]
    refine ⟨h.strict.1, ?_⟩
    intro r hr
    obtain ⟨g1, g2⟩ := h.strict.2 r hr
    refine ⟨g1, ?_, g2⟩
    rw [g2, wrapU_of_rep]
    rw [← g2]; exact ⟨by omega, by have := U_lt g1; omega⟩
end UI

/-! ### corollaries: `MIN * -1`, `x * MIN`, chaining of the widening helpers -/

theorem MulAux.S_allOnes {w n : Nat} (hw : 1 ≤ w) (hn : 1 ≤ n) : S w (allOnes w n) = -1 := by
  rw [S_eq (WF_allOnes w n), U_allOnes]
  have := M_even hw hn; have := M_pos w n
  unfold toInt; split_ifs <;> omega

theorem MulAux.eq_of_S_eq {w n : Nat} {x y : List Nat} (hx : WF w n x) (hy : WF w n y)
    (h : S w x = S w y) : x = y := by
  apply U_injective hx hy
  have h1 := S_emod hx; have h2 := S_emod hy
  rw [h] at h1; omega

namespace II

/-- `MIN * -1` -/
theorem min_mul_neg_one {w n : Nat} (hw : 2 ≤ w) (hn : 1 ≤ n) :
    overflowingMul w (iMin w n) (allOnes w n) = (iMin w n, true) := by
  have hw1 : 1 ≤ w := by omega
  have hM := M_pos w n; have hMe := M_even hw1 hn
  obtain ⟨h1, h2, h3⟩ := overflowingMul_spec hw hn (WF_iMin hw1 hn) (WF_allOnes w n)
  rw [S_iMin hw1 hn, MulAux.S_allOnes hw1 hn] at h2 h3
  have e : -((M w n / 2 : Nat) : Int) * -1 = ((M w n / 2 : Nat) : Int) := by ring
  rw [e] at h2 h3
  apply Prod.ext
  · apply MulAux.eq_of_S_eq h1 (WF_iMin hw1 hn)
    rw [h2, S_iMin hw1 hn, wrapS_of_rep_sub hM (by unfold repS; omega)]; omega
  · rw [h3]; simp only [decide_eq_true_iff]; unfold repS; omega

/-- `x * MIN` overflows unless `x ∈ {0, 1}` -/
theorem mul_min_overflow_iff {w n : Nat} {x : List Nat} (hw : 2 ≤ w) (hn : 1 ≤ n) (hx : WF w n x) :
    ((overflowingMul w x (iMin w n)).2 = true ↔ (S w x ≠ 0 ∧ S w x ≠ 1)) ∧
    ((overflowingMul w (iMin w n) x).2 = true ↔ (S w x ≠ 0 ∧ S w x ≠ 1)) := by
  have hw1 : 1 ≤ w := by omega
  have hM := M_pos w n; have hMe := M_even hw1 hn
  have h1 := (overflowingMul_spec hw hn hx (WF_iMin hw1 hn)).flag_iff
  have h2 := (overflowingMul_spec hw hn (WF_iMin hw1 hn) hx).flag_iff
  rw [S_iMin hw1 hn] at h1 h2
  rw [h1, h2, Int.mul_comm (-((M w n / 2 : Nat) : Int)) (S w x)]
  refine ⟨?_, ?_⟩ <;>
  · generalize S w x = s
    generalize M w n / 2 = h at *
    rw [hMe]; unfold repS
    have hh : (0 : Int) < h := by omega
    push_cast
    constructor
    · intro hr
      constructor
      · rintro rfl; apply hr; constructor <;> nlinarith
      · rintro rfl; apply hr; constructor <;> nlinarith
    · rintro ⟨h0, h1⟩ ⟨g1, g2⟩
      rcases (show s ≤ -1 ∨ 2 ≤ s by omega) with hs | hs
      · nlinarith
      · nlinarith
end II

namespace UI
/-- chaining: two-word by one-word product from `widening_mul` + `carrying_mul` -/
theorem mul_chain {w n : Nat} {a0 a1 b : List Nat} (hw : 1 ≤ w) (hn : 1 ≤ n)
    (h0 : WF w n a0) (h1 : WF w n a1) (hb : WF w n b) :
    let r0 := wideningMul w a0 b
    let r1 := carryingMul w a1 b r0.2
    U w r0.1 + M w n * U w r1.1 + M w n * M w n * U w r1.2 = (U w a0 + M w n * U w a1) * U w b := by
  intro r0 r1
  obtain ⟨g1, g2, g3⟩ := u_wideningMul_spec h0 hb
  obtain ⟨k1, k2, k3⟩ := u_carryingMul_spec hw hn h1 hb g2
  have t : M w n * (U w r1.2 * M w n + U w r1.1) = M w n * (U w a1 * U w b + U w r0.2) := by
    rw [k3]
  nlinarith [t, g3]
end UI

namespace II
theorem saturatingMul_side {w n : Nat} {a b : List Nat} (hw : 2 ≤ w) (hn : 1 ≤ n)
    (ha : WF w n a) (hb : WF w n b) (hov : ¬ repS (M w n) (S w a * S w b)) :
    (0 < S w a * S w b → saturatingMul w a b = iMax w n) ∧
    (S w a * S w b < 0 → saturatingMul w a b = iMin w n) := by
  have hw1 : 1 ≤ w := by omega
  have hm := M_even hw1 hn
  obtain ⟨h1, h2⟩ := saturatingMul_spec hw hn ha hb
  constructor
  · intro hz
    apply MulAux.eq_of_S_eq h1 (WF_iMax hw1 hn)
    rw [h2, S_iMax hw1 hn, clampS_hi hm (by unfold repS at hov; omega)]
  · intro hz
    apply MulAux.eq_of_S_eq h1 (WF_iMin hw1 hn)
    rw [h2, S_iMin hw1 hn, clampS_lo hm (by unfold repS at hov; omega)]
end II
end Bnum

namespace Bnum
/-- `BInt::overflowing_mul`, expanded form -/
theorem II.i_overflowingMul_spec {w n : Nat} {a b : List Nat} (hw : 2 ≤ w) (hn : 1 ≤ n)
    (ha : WF w n a) (hb : WF w n b) :
    S w (II.overflowingMul w a b).1 = wrapS (M w n) (S w a * S w b) ∧
    ((II.overflowingMul w a b).2 = true ↔ ¬ repS (M w n) (S w a * S w b)) :=
  ⟨(II.overflowingMul_spec hw hn ha hb).2.1, (II.overflowingMul_spec hw hn ha hb).flag_iff⟩
end Bnum
