/-
  Bnum.Lemmas.C07Extra — helper lemmas for the order-axiom / `Ord`-trait / hash-coherence theorems of
  Props/C07.lean: antisymmetry of `compare` on `Nat` / `Int`, and the generic facts about the
  `int/cmp.rs` functions for a `cmp` known to be `compare` of a value function on the operands at hand.
-/
import Bnum.Lemmas.Cmp
namespace Bnum
namespace C07X

theorem nat_compare_swap (x y : Nat) : compare y x = (compare x y).swap := by
  rcases Nat.lt_trichotomy x y with h | h | h
  · rw [Nat.compare_eq_lt.mpr h, Nat.compare_eq_gt.mpr h]; rfl
  · subst h; rw [Nat.compare_eq_eq.mpr rfl]; rfl
  · rw [Nat.compare_eq_gt.mpr h, Nat.compare_eq_lt.mpr h]; rfl

theorem int_compare_swap (x y : Int) : compare y x = (compare x y).swap := by
  rcases Int.lt_trichotomy x y with h | h | h
  · rw [Int.compare_eq_lt.mpr h, Int.compare_eq_gt.mpr h]; rfl
  · subst h; rw [Int.compare_eq_eq.mpr rfl]; rfl
  · rw [Int.compare_eq_gt.mpr h, Int.compare_eq_lt.mpr h]; rfl

/-- `le` is `false` exactly when the reversed `lt` is `true`, given `cmp b a = (cmp a b).swap`. -/
theorem lt_iff_not_le (cmp : List Nat → List Nat → Ordering) (a b : List Nat)
    (hs : cmp b a = (cmp a b).swap) :
    CmpImpl.lt cmp a b = true ↔ CmpImpl.le cmp b a = false := by
  unfold CmpImpl.lt CmpImpl.le; rw [hs]
  cases cmp a b <;> simp [Ordering.swap]

end C07X
end Bnum
