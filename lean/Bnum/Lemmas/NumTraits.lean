/-
  Bnum.Lemmas.NumTraits — lemmas for C18 (`num_integer` / `num_traits` implementations).
  All helper names live in `Bnum.NumT`.
    §1 pure arithmetic: trailing zeros, Bernoulli / AM–GM in integer form, the Newton step
    §2 the operators used inside the trait bodies when no overflow happens
    §3 binary gcd, lcm
    §4 signed floor division
    §5 integer roots: `to_u128` shortcut, `fixpoint`, `sqrt`, `cbrt`, `nth_root`
-/
import Bnum.Lemmas.KnuthD
import Bnum.Lemmas.Bits
import Bnum.Lemmas.Shift
import Bnum.Lemmas.Cmp
import Bnum.Lemmas.Mul
import Bnum.Lemmas.Cast
import Bnum.Lemmas.Pow
import Bnum.Spec.NumTraits
import Bnum.Model.NumTraits
namespace Bnum
namespace NumT
open DivL Bits

theorem tz_odd : ∀ (W v : Nat), v ≠ 0 → v < 2 ^ W →
    Spec.trailingZeros W v < W ∧
    v = 2 ^ Spec.trailingZeros W v * (v / 2 ^ Spec.trailingZeros W v) ∧
    (v / 2 ^ Spec.trailingZeros W v) % 2 = 1
  | 0, v, h0, hv => by simp at hv; omega
  | W + 1, v, h0, hv => by
    simp only [Spec.trailingZeros]
    by_cases hodd : v % 2 = 1
    · simp [hodd]
    · simp only [hodd, if_false]
      have hv2 : v / 2 < 2 ^ W := by rw [Nat.pow_succ] at hv; omega
      obtain ⟨h1, h2, h3⟩ := tz_odd W (v / 2) (by omega) hv2
      generalize Spec.trailingZeros W (v / 2) = t at *
      have e : v / 2 ^ (1 + t) = v / 2 / 2 ^ t := by
        rw [Nat.add_comm, Nat.pow_succ, Nat.mul_comm, Nat.div_div_eq_div_mul]
      refine ⟨by omega, ?_, by rw [e]; exact h3⟩
      rw [e, Nat.add_comm, Nat.pow_succ, Nat.mul_comm (2 ^ t) 2, Nat.mul_assoc, ← h2]; omega

/-- `(z^n - s^n)(z - s) ≥ 0` in subtraction-free form -/
theorem pow_rearrange (z s n : Nat) : z ^ n * s + z * s ^ n ≤ z ^ (n + 1) + s ^ (n + 1) := by
  rw [Nat.pow_succ, Nat.pow_succ]
  rcases Nat.le_total z s with h | h
  · have hp := Nat.pow_le_pow_left h n
    obtain ⟨d, rfl⟩ := Nat.exists_eq_add_of_le h
    obtain ⟨e, he⟩ := Nat.exists_eq_add_of_le hp
    rw [he]; nlinarith [Nat.zero_le (d * e)]
  · have hp := Nat.pow_le_pow_left h n
    obtain ⟨d, rfl⟩ := Nat.exists_eq_add_of_le h
    obtain ⟨e, he⟩ := Nat.exists_eq_add_of_le hp
    rw [he]; nlinarith [Nat.zero_le (d * e)]

/-- Bernoulli / weighted AM–GM, integer form: `n·z·s^(n-1) ≤ z^n + (n-1)·s^n` -/
theorem bernoulli (z s : Nat) : ∀ n : Nat, (n + 1) * z * s ^ n ≤ z ^ (n + 1) + n * s ^ (n + 1)
  | 0 => by simp
  | n + 1 => by
    have ih := bernoulli z s n
    have hr := pow_rearrange z s (n + 1)
    have e0 : z ^ (n + 1 + 1) = z ^ (n + 1) * z := Nat.pow_succ ..
    have e1 : s ^ (n + 1 + 1) = s ^ (n + 1) * s := Nat.pow_succ ..
    have e2 : s ^ (n + 1) = s ^ n * s := Nat.pow_succ ..
    have h3 : s * ((n + 1) * z * s ^ n) ≤ s * (z ^ (n + 1) + n * s ^ (n + 1)) :=
      Nat.mul_le_mul_left s ih
    have h4 : s * ((n + 1) * z * s ^ n) = (n + 1) * z * s ^ (n + 1) := by rw [e2]; ring
    rw [h4] at h3
    rw [e0, e1] at hr ⊢
    generalize z ^ (n + 1) = P at *
    generalize s ^ (n + 1) = Q at *
    nlinarith [h3, hr]

/-- if `n·z ≥ (n-1)·s + t` then `t·s^(n-1) ≤ z^n` -/
theorem amgm (z s t n : Nat) (h : n * s + t ≤ (n + 1) * z) : t * s ^ n ≤ z ^ (n + 1) := by
  have hb := bernoulli z s n
  have h2 : (n * s + t) * s ^ n ≤ (n + 1) * z * s ^ n := Nat.mul_le_mul_right _ h
  have e : (n * s + t) * s ^ n = n * s ^ (n + 1) + t * s ^ n := by rw [Nat.pow_succ]; ring
  omega

/-- one Newton step for the `(k+1)`-th root on naturals -/
def newton (k x s : Nat) : Nat := (k * s + x / s ^ k) / (k + 1)

/-- the Newton step never drops below the root: `x < (newton + 1)^(k+1)` -/
theorem newton_ge (k x s : Nat) (hs : 0 < s) : x < (newton k x s + 1) ^ (k + 1) := by
  unfold newton
  have hp : 0 < s ^ k := Nat.pow_pos hs
  have h1 : x < (x / s ^ k + 1) * s ^ k :=
    (Nat.div_lt_iff_lt_mul hp).mp (Nat.lt_succ_self _)
  generalize x / s ^ k = q at *
  have hk : 0 < k + 1 := Nat.succ_pos k
  have h := (Nat.div_lt_iff_lt_mul hk).mp (Nat.lt_succ_self ((k * s + q) / (k + 1)))
  generalize (k * s + q) / (k + 1) = y at *
  have h2 : k * s + (q + 1) ≤ (k + 1) * (y + 1) := by
    have e : (y + 1) * (k + 1) = (k + 1) * (y + 1) := Nat.mul_comm _ _
    have e' : y.succ = y + 1 := rfl
    rw [e'] at h
    omega
  exact Nat.lt_of_lt_of_le h1 (amgm (y + 1) s (q + 1) k h2)

/-- above the root the step strictly decreases -/
theorem newton_lt (k x s : Nat) (hs : 0 < s) (h : x < s ^ (k + 1)) : newton k x s < s := by
  unfold newton
  have hp : 0 < s ^ k := Nat.pow_pos hs
  have hq : x / s ^ k < s := by
    rw [Nat.div_lt_iff_lt_mul hp, ← Nat.pow_succ']; rwa [Nat.pow_succ'] at h ⊢
  rw [Nat.div_lt_iff_lt_mul (Nat.succ_pos k)]
  nlinarith

/-- at or below the root the step does not decrease -/
theorem newton_ge_self (k x s : Nat) (hs : 0 < s) (h : s ^ (k + 1) ≤ x) : s ≤ newton k x s := by
  unfold newton
  have hp : 0 < s ^ k := Nat.pow_pos hs
  have hq : s ≤ x / s ^ k := by
    rw [Nat.le_div_iff_mul_le hp, ← Nat.pow_succ']; exact h
  rw [Nat.le_div_iff_mul_le (Nat.succ_pos k)]
  nlinarith


section ops
variable {w n : Nat} {a b : List Nat}

theorem uAdd_ok (ha : WF w n a) (hb : WF w n b) (h : U w a + U w b < M w n) (dbg : Bool) :
    ∃ r, UI.add dbg w a b = .ok r ∧ WF w n r ∧ U w r = U w a + U w b :=
  uOpAdd_ok ha hb h dbg

theorem uSub_ok (ha : WF w n a) (hb : WF w n b) (h : U w b ≤ U w a) (dbg : Bool) :
    ∃ r, UI.sub dbg w a b = .ok r ∧ WF w n r ∧ U w r = U w a - U w b :=
  uOpSub_ok ha hb h dbg

theorem uMul_ok (ha : WF w n a) (hb : WF w n b) (h : U w a * U w b < M w n) (dbg : Bool) :
    ∃ r, UI.mul w dbg a b = .ok r ∧ WF w n r ∧ U w r = U w a * U w b := by
  obtain ⟨h1, h2⟩ := UI.mul_spec ha hb dbg
  have hrep : repU (M w n) ((U w a : Int) * U w b) := ⟨by positivity, by exact_mod_cast h⟩
  cases hm : UI.mul w dbg a b with
  | panic => exact absurd hrep (h1.mp hm).2
  | ok r =>
    obtain ⟨g1, g2, -⟩ := h2 r hm
    refine ⟨r, rfl, g1, ?_⟩
    rw [wrapU_of_rep hrep] at g2; exact_mod_cast g2

theorem opLt_eq (ha : WF w n a) (hb : WF w n b) :
    Traits.opLt UI.cmp a b = decide (U w a < U w b) := by
  unfold Traits.opLt Traits.partialCmp
  rw [UI.cmp_spec ha hb]
  rcases Nat.lt_trichotomy (U w a) (U w b) with h | h | h
  · rw [Nat.compare_eq_lt.mpr h]; simp [h]
  · rw [Nat.compare_eq_eq.mpr h]; simp [h]
  · rw [Nat.compare_eq_gt.mpr h]; simp; omega

theorem opGt_eq (ha : WF w n a) (hb : WF w n b) :
    Traits.opGt UI.cmp a b = decide (U w b < U w a) := by
  unfold Traits.opGt Traits.partialCmp
  rw [UI.cmp_spec ha hb]
  rcases Nat.lt_trichotomy (U w a) (U w b) with h | h | h
  · rw [Nat.compare_eq_lt.mpr h]; simp; omega
  · rw [Nat.compare_eq_eq.mpr h]; simp [h]
  · rw [Nat.compare_eq_gt.mpr h]; simp [h]

theorem isZero_eq (a : List Nat) : isZero a = decide (U w a = 0) :=
  bool_eq_decide (DivL.isZero_iff_U a)

/-- `x >> x.trailing_zeros()` of a non-zero `x` -/
theorem shr_tz (hw : 1 ≤ w) (ha : WF w n a) (h0 : U w a ≠ 0) :
    UI.trailingZeros w a < w * n ∧
    WF w n (UI.uncheckedShrInternal w a (UI.trailingZeros w a)) ∧
    U w a = 2 ^ UI.trailingZeros w a * U w (UI.uncheckedShrInternal w a (UI.trailingZeros w a)) ∧
    U w (UI.uncheckedShrInternal w a (UI.trailingZeros w a)) % 2 = 1 := by
  rw [trailingZeros_spec ha]
  obtain ⟨h1, h2, h3⟩ := tz_odd (w * n) (U w a) h0 (U_lt ha)
  obtain ⟨g1, g2⟩ := UI.uncheckedShrInternal_spec (by omega) ha h1
  rw [g2]
  exact ⟨h1, g1, h2, h3⟩
end ops
/-! ## §3 binary gcd -/

theorem coprime_two_pow {b : Nat} (hb : b % 2 = 1) (k : Nat) : Nat.Coprime (2 ^ k) b := by
  apply Nat.Coprime.pow_left
  unfold Nat.Coprime
  rw [Nat.gcd_rec, hb]; exact Nat.gcd_one_left 2

/-- stripping a power of two next to an odd number does not change the gcd -/
theorem gcd_strip {m b : Nat} (hb : b % 2 = 1) (k : Nat) : Nat.gcd (2 ^ k * m) b = Nat.gcd m b :=
  Nat.Coprime.gcd_mul_left_cancel m (coprime_two_pow hb k)

/-- gcd of two numbers split into their odd parts -/
theorem gcd_split {a' b' : Nat} (ha : a' % 2 = 1) (hb : b' % 2 = 1) (i j : Nat) :
    Nat.gcd (2 ^ i * a') (2 ^ j * b') = Nat.gcd a' b' * 2 ^ (min i j) := by
  rcases Nat.le_total i j with h | h
  · obtain ⟨d, rfl⟩ := Nat.exists_eq_add_of_le h
    rw [Nat.min_eq_left h, Nat.pow_add, Nat.mul_assoc, Nat.gcd_mul_left, Nat.gcd_comm a',
      gcd_strip ha, Nat.gcd_comm, Nat.mul_comm]
  · obtain ⟨d, rfl⟩ := Nat.exists_eq_add_of_le h
    rw [Nat.min_eq_right h, Nat.pow_add, Nat.mul_assoc, Nat.gcd_mul_left, gcd_strip hb,
      Nat.mul_comm]

section gcd
variable {w n : Nat}

theorem gcdLoop_spec (hw : 1 ≤ w) (dbg : Bool) (t : Nat) (ht : t < w * n) :
    ∀ (f : Nat) (a b : List Nat), WF w n a → WF w n b → U w a % 2 = 1 → U w b % 2 = 1 →
      U w a + U w b < f → Nat.gcd (U w a) (U w b) * 2 ^ t < M w n →
      ∃ r, U.gcdLoop dbg w f a b t = .ok r ∧ WF w n r ∧
        U w r = Nat.gcd (U w a) (U w b) * 2 ^ t
  | 0, _, _, _, _, _, _, hf, _ => by omega
  | f + 1, a, b, ha, hb, oa, ob, hf, hG => by
    unfold U.gcdLoop
    rw [opLt_eq ha hb]
    -- name the ordered pair
    obtain ⟨A, B, hp, hA, hB, oA, oB, hle, hsum, hg⟩ :
        ∃ A B, (if decide (U w a < U w b) = true then (b, a) else (a, b)) = (A, B) ∧ WF w n A ∧
          WF w n B ∧ U w A % 2 = 1 ∧ U w B % 2 = 1 ∧ U w B ≤ U w A ∧
          U w A + U w B = U w a + U w b ∧ Nat.gcd (U w A) (U w B) = Nat.gcd (U w a) (U w b) := by
      by_cases h : U w a < U w b
      · exact ⟨b, a, by simp [h], hb, ha, ob, oa, by omega, by omega, Nat.gcd_comm _ _⟩
      · exact ⟨a, b, by simp [h], ha, hb, oa, ob, by omega, rfl, rfl⟩
    rw [hp]; dsimp only
    obtain ⟨d, hd1, hd2, hd3⟩ := uSub_ok hA hB hle dbg
    rw [hd1]; dsimp only
    rw [isZero_eq (w := w) d]
    by_cases hz : U w d = 0
    · simp only [hz, decide_true, if_true]
      obtain ⟨g1, g2⟩ := UI.uncheckedShlInternal_spec (by omega) hB ht
      have e : U w A = U w B := by omega
      have hgB : Nat.gcd (U w a) (U w b) = U w B := by rw [← hg, e, Nat.gcd_self]
      refine ⟨_, rfl, g1, ?_⟩
      rw [g2, hgB]; rw [hgB] at hG; exact Nat.mod_eq_of_lt hG
    · simp only [hz, decide_false, Bool.false_eq_true, if_false]
      obtain ⟨s1, s2, s3, s4⟩ := shr_tz hw hd2 hz
      generalize UI.uncheckedShrInternal w d (UI.trailingZeros w d) = a' at *
      generalize UI.trailingZeros w d = k at *
      have hpos : 1 ≤ 2 ^ k := Nat.two_pow_pos k
      have hle' : U w a' ≤ U w d := by
        rw [s3]; exact Nat.le_mul_of_pos_left _ hpos
      have hk : k ≠ 0 := by
        rintro rfl
        simp at s3; omega
      have hlt : 2 * U w a' ≤ U w d := by
        obtain ⟨k', rfl⟩ := Nat.exists_eq_succ_of_ne_zero hk
        have hp' : 1 ≤ 2 ^ k' := Nat.two_pow_pos k'
        rw [s3, Nat.pow_succ]
        nlinarith [Nat.mul_le_mul_right (2 * U w a') hp']
      have hg' : Nat.gcd (U w a') (U w B) = Nat.gcd (U w a) (U w b) := by
        rw [← hg, ← Nat.gcd_sub_self_left hle, ← hd3, s3, gcd_strip oB]
      obtain ⟨r, hr1, hr2, hr3⟩ := gcdLoop_spec hw dbg t ht f a' B s2 hB s4 oB (by omega)
        (by rw [hg']; exact hG)
      exact ⟨r, hr1, hr2, by rw [hr3, hg']⟩

/-- `Integer::gcd` for `BUint`: the binary gcd terminates, never panics, and returns `Nat.gcd` -/
theorem U.gcd_spec (hw : 1 ≤ w) {a b : List Nat} (ha : WF w n a) (hb : WF w n b) (dbg : Bool) :
    ∃ r, U.gcd dbg w a b = .ok r ∧ WF w n r ∧ U w r = Nat.gcd (U w a) (U w b) := by
  unfold U.gcd
  rw [isZero_eq (w := w) a, isZero_eq (w := w) b]
  by_cases ha0 : U w a = 0
  · simp only [ha0, decide_true, if_true]
    exact ⟨b, rfl, hb, by rw [Nat.gcd_zero_left]⟩
  simp only [ha0, decide_false, Bool.false_eq_true, if_false]
  by_cases hb0 : U w b = 0
  · simp only [hb0, decide_true, if_true]
    exact ⟨a, rfl, ha, by rw [Nat.gcd_zero_right]⟩
  simp only [hb0, decide_false, Bool.false_eq_true, if_false]
  obtain ⟨a1, a2, a3, a4⟩ := shr_tz hw ha ha0
  obtain ⟨b1, b2, b3, b4⟩ := shr_tz hw hb hb0
  generalize UI.uncheckedShrInternal w a (UI.trailingZeros w a) = a' at *
  generalize UI.uncheckedShrInternal w b (UI.trailingZeros w b) = b' at *
  generalize UI.trailingZeros w a = i at *
  generalize UI.trailingZeros w b = j at *
  have hmin : (if j > i then i else j) = min i j := by
    by_cases h : j > i
    · rw [if_pos h, Nat.min_eq_left (by omega)]
    · rw [if_neg h, Nat.min_eq_right (by omega)]
  rw [hmin, ha.1]
  have hg : Nat.gcd (U w a) (U w b) = Nat.gcd (U w a') (U w b') * 2 ^ min i j := by
    rw [a3, b3]; exact gcd_split a4 b4 i j
  have hG : Nat.gcd (U w a') (U w b') * 2 ^ min i j < M w n := by
    rw [← hg]
    exact Nat.lt_of_le_of_lt (Nat.le_of_dvd (by omega) (Nat.gcd_dvd_left _ _)) (U_lt ha)
  have := U_lt a2; have := U_lt b2
  obtain ⟨r, h1, h2, h3⟩ := gcdLoop_spec hw dbg (min i j) (by omega) (2 * M w n) a' b' a2 b2 a4 b4
    (by omega) hG
  exact ⟨r, h1, h2, by rw [h3, hg]⟩

end gcd

/-! ## §4 signed floor division -/

/-- floor remainder in terms of the truncating one (Leijen's sign test) -/
theorem fmod_of_tmod (a b : Int) (hb : b ≠ 0) :
    a.fmod b = if (0 < a.tmod b ∧ b < 0) ∨ (a.tmod b < 0 ∧ 0 < b) then a.tmod b + b else a.tmod b := by
  have h1 := Int.fmod_def a b
  have h2 := fdiv_of_tdiv a b hb
  have h3 := Int.mul_tdiv_add_tmod a b
  obtain ⟨-, -, -, -, f5, f6⟩ := tdiv_facts a b hb
  rw [h1, h2]
  have e : b * (a.tdiv b - 1) = b * a.tdiv b - b := by ring
  split_ifs <;> omega

/-- floor quotient in terms of the truncating pair, with the same sign test -/
theorem fdiv_of_tdiv' (a b : Int) (hb : b ≠ 0) :
    a.fdiv b = if (0 < a.tmod b ∧ b < 0) ∨ (a.tmod b < 0 ∧ 0 < b) then a.tdiv b - 1 else a.tdiv b := by
  rw [fdiv_of_tdiv a b hb]
  obtain ⟨-, -, -, -, f5, f6⟩ := tdiv_facts a b hb
  split_ifs <;> omega

theorem fmod_eq_zero_iff (a b : Int) (hb : b ≠ 0) : a.fmod b = 0 ↔ b ∣ a := by
  have h := @Int.fmod_eq_emod a b
  have h1 := Int.emod_nonneg a hb
  have h2 := Int.emod_lt a hb
  constructor
  · intro h0
    by_cases hd : b ∣ a
    · exact hd
    · rw [h0] at h
      by_cases hc : 0 ≤ b
      · simp only [hc, true_or, if_true] at h
        exact Int.dvd_of_emod_eq_zero (by omega)
      · simp only [hc, hd, or_self, if_false] at h
        omega
  · intro hd
    rw [h, Int.emod_eq_zero_of_dvd hd]; simp [hd]

section sdiv
variable {w n : Nat} {a b : List Nat} (hw : 2 ≤ w) (hn : 1 ≤ n)
  (ha : WF w n a) (hb : WF w n b) (hb0 : S w b ≠ 0)
  (hov : ¬ (S w a = -((M w n / 2 : Nat) : Int) ∧ S w b = -1)) (dbg : Bool)
include hw hn ha hb hb0 hov

/-- `Integer::div_rem` for `BInt`: truncation -/
theorem I.divRem_spec :
    ∃ q r, I.divRem dbg w a b = .ok (q, r) ∧ WF w n q ∧ WF w n r ∧
      S w q = (S w a).tdiv (S w b) ∧ S w r = (S w a).tmod (S w b) := by
  have hw1 : 1 ≤ w := by omega
  have hU : UDivSpec w n := UDivSpec_of_KnuthD (KDL.knuthD_correct hw1) hw1 hn
  obtain ⟨q, r, h, wq, wr, sq, sr⟩ := II.i_divRemUnchecked_spec hw hn hU ha hb hb0 hov dbg
  unfold I.divRem II.div II.rem
  rw [ha.1]; dsimp only
  rw [II.ovfGuard_false hw1 hn ha hb hov, II.isZero_false hb hb0]
  simp only [Bool.false_eq_true, if_false]
  rw [h]
  exact ⟨q, r, rfl, wq, wr, sq, sr⟩

omit ha hb0 hov in
theorem floorAdjust_eq {r : List Nat} (hr : WF w n r) :
    I.floorAdjust w r b = decide ((0 < S w r ∧ S w b < 0) ∨ (S w r < 0 ∧ 0 < S w b)) := by
  have hw1 : 1 ≤ w := by omega
  unfold I.floorAdjust
  have e1 : II.isPositive w r = decide (0 < S w r) := bool_eq_decide (II.isPositive_iff hw1 hn hr)
  have e2 : II.isPositive w b = decide (0 < S w b) := bool_eq_decide (II.isPositive_iff hw1 hn hb)
  have e3 : Bnum.Prim.isNeg w (topDigit b) = decide (S w b < 0) := isNegative_eq_decide hw1 hn hb
  have e4 : isNegative w r = decide (S w r < 0) := isNegative_eq_decide hw1 hn hr
  rw [e1, e2, e3, e4]
  by_cases p1 : 0 < S w r <;> by_cases p2 : S w b < 0 <;> by_cases p3 : S w r < 0 <;>
    by_cases p4 : 0 < S w b <;> simp [p1, p2, p3, p4]

/-- `Integer::div_floor` for `BInt`: rounds toward negative infinity -/
theorem I.divFloor_spec :
    ∃ q, I.divFloor dbg w a b = .ok q ∧ WF w n q ∧ S w q = (S w a).fdiv (S w b) := by
  have hw1 : 1 ≤ w := by omega
  obtain ⟨q, r, h, wq, wr, sq, sr⟩ := I.divRem_spec hw hn ha hb hb0 hov dbg
  unfold I.divFloor
  rw [h]; dsimp only [Outcome.bind]
  rw [floorAdjust_eq hw hn hb wr, fdiv_of_tdiv' _ _ hb0, ← sq, ← sr, ha.1]
  by_cases hc : (0 < S w r ∧ S w b < 0) ∨ (S w r < 0 ∧ 0 < S w b)
  · simp only [hc, decide_true, if_true]
    obtain ⟨ba1, -⟩ := II.S_natAbs_le hw1 hn ha
    obtain ⟨-, -, f3, -, -, -⟩ := tdiv_facts (S w a) (S w b) hb0
    rw [← sq, ← sr] at f3
    have hme := M_even hw1 hn
    have s1 := S_one (n := n) hw hn
    obtain ⟨d, e1, e2, e3⟩ := iOpSub_ok hw hn wq (WF_one hw1 hn)
      (by rw [s1]; unfold repS; omega) dbg
    exact ⟨d, e1, e2, by rw [e3, s1]⟩
  · simp only [hc, decide_false, Bool.false_eq_true, if_false]
    exact ⟨q, rfl, wq, rfl⟩

/-- `Integer::mod_floor` for `BInt`: the remainder takes the divisor's sign -/
theorem I.modFloor_spec :
    ∃ r, I.modFloor dbg w a b = .ok r ∧ WF w n r ∧ S w r = (S w a).fmod (S w b) := by
  have hw1 : 1 ≤ w := by omega
  obtain ⟨q, r, h, wq, wr, sq, sr⟩ := I.divRem_spec hw hn ha hb hb0 hov dbg
  have hrem : II.rem dbg w a b = .ok r := by
    unfold I.divRem at h
    cases hq : II.div dbg w a b with
    | panic => rw [hq] at h; cases h
    | ok q' =>
      cases hr : II.rem dbg w a b with
      | panic => rw [hq, hr] at h; cases h
      | ok r' => rw [hq, hr] at h; cases h; rfl
  unfold I.modFloor
  rw [hrem]; dsimp only [Outcome.bind]
  rw [floorAdjust_eq hw hn hb wr, fmod_of_tmod _ _ hb0, ← sr]
  by_cases hc : (0 < S w r ∧ S w b < 0) ∨ (S w r < 0 ∧ 0 < S w b)
  · simp only [hc, decide_true, if_true]
    have rb := S_repS hw1 hn hb
    have rr := S_repS hw1 hn wr
    obtain ⟨d, e1, e2, e3⟩ := iOpAdd_ok hw hn wr hb (by unfold repS at *; omega) dbg
    exact ⟨d, e1, e2, e3⟩
  · simp only [hc, decide_false, Bool.false_eq_true, if_false]
    exact ⟨r, rfl, wr, rfl⟩

/-- provided method `div_mod_floor` -/
theorem I.divModFloor_spec :
    ∃ q r, I.divModFloor dbg w a b = .ok (q, r) ∧ WF w n q ∧ WF w n r ∧
      S w q = (S w a).fdiv (S w b) ∧ S w r = (S w a).fmod (S w b) := by
  obtain ⟨q, h1, wq, sq⟩ := I.divFloor_spec hw hn ha hb hb0 hov dbg
  obtain ⟨r, h2, wr, sr⟩ := I.modFloor_spec hw hn ha hb hb0 hov dbg
  unfold I.divModFloor
  rw [h1, h2]
  exact ⟨q, r, rfl, wq, wr, sq, sr⟩

/-- `Integer::is_multiple_of` for `BInt` -/
theorem I.isMultipleOf_spec :
    I.isMultipleOf dbg w a b = .ok (decide (S w b ∣ S w a)) := by
  obtain ⟨r, h2, wr, sr⟩ := I.modFloor_spec hw hn ha hb hb0 hov dbg
  unfold I.isMultipleOf
  rw [h2]
  simp only [Outcome.map]
  congr 1
  apply bool_eq_decide
  rw [II.isZero_iff_S wr, sr]; exact fmod_eq_zero_iff _ _ hb0

end sdiv

/-! ## §3b unsigned Integer methods, lcm -/

section udiv
variable {w n : Nat} {a b : List Nat}

/-- `BUint::div_rem_unchecked` delivers quotient and remainder (Knuth D is proved in Lemmas/KnuthD) -/
theorem uDivRemUnchecked_ok (hw : 1 ≤ w) (hn : 1 ≤ n) (ha : WF w n a) (hb : WF w n b)
    (hb0 : U w b ≠ 0) :
    ∃ q r, UI.divRemUnchecked w a b = .ok (q, r) ∧ WF w n q ∧ WF w n r ∧
      U w q = U w a / U w b ∧ U w r = U w a % U w b :=
  UDivSpec_of_KnuthD (KDL.knuthD_correct hw) hw hn a b ha hb hb0

theorem uDiv_ok (hw : 1 ≤ w) (hn : 1 ≤ n) (ha : WF w n a) (hb : WF w n b) (hb0 : U w b ≠ 0) :
    ∃ q, UI.div w a b = .ok q ∧ WF w n q ∧ U w q = U w a / U w b := by
  obtain ⟨q, r, h, wq, -, sq, -⟩ := uDivRemUnchecked_ok hw hn ha hb hb0
  unfold UI.div UI.wrappingDiv UI.checkedDiv
  rw [isZero_eq (w := w) b]
  simp only [hb0, decide_false, Bool.false_eq_true, if_false]
  rw [h]
  exact ⟨q, rfl, wq, sq⟩

theorem uRem_ok (hw : 1 ≤ w) (hn : 1 ≤ n) (ha : WF w n a) (hb : WF w n b) (hb0 : U w b ≠ 0) :
    ∃ r, UI.rem w a b = .ok r ∧ WF w n r ∧ U w r = U w a % U w b := by
  obtain ⟨q, r, h, -, wr, -, sr⟩ := uDivRemUnchecked_ok hw hn ha hb hb0
  unfold UI.rem UI.wrappingRem UI.checkedRem
  rw [isZero_eq (w := w) b]
  simp only [hb0, decide_false, Bool.false_eq_true, if_false]
  rw [h]
  exact ⟨r, rfl, wr, sr⟩

theorem uDiv_zero (hb0 : U w b = 0) : UI.div w a b = .panic := by
  unfold UI.div UI.wrappingDiv UI.checkedDiv
  rw [isZero_eq (w := w) b]; simp [hb0, Outcome.bind, Outcome.expect]

theorem uRem_zero (hb0 : U w b = 0) : UI.rem w a b = .panic := by
  unfold UI.rem UI.wrappingRem UI.checkedRem
  rw [isZero_eq (w := w) b]; simp [hb0, Outcome.bind, Outcome.expect]

/-- `Integer::div_floor` for `BUint` -/
theorem U.divFloor_spec (hw : 1 ≤ w) (hn : 1 ≤ n) (ha : WF w n a) (hb : WF w n b) (hb0 : U w b ≠ 0) :
    ∃ q, U.divFloor w a b = .ok q ∧ WF w n q ∧ U w q = U w a / U w b := uDiv_ok hw hn ha hb hb0

/-- `Integer::mod_floor` for `BUint` -/
theorem U.modFloor_spec (hw : 1 ≤ w) (hn : 1 ≤ n) (ha : WF w n a) (hb : WF w n b) (hb0 : U w b ≠ 0) :
    ∃ r, U.modFloor w a b = .ok r ∧ WF w n r ∧ U w r = U w a % U w b := uRem_ok hw hn ha hb hb0

/-- `Integer::div_rem` for `BUint` -/
theorem U.divRem_spec (hw : 1 ≤ w) (hn : 1 ≤ n) (ha : WF w n a) (hb : WF w n b) (hb0 : U w b ≠ 0) :
    ∃ q r, U.divRem w a b = .ok (q, r) ∧ WF w n q ∧ WF w n r ∧
      U w q = U w a / U w b ∧ U w r = U w a % U w b := by
  unfold U.divRem UI.divRem
  rw [isZero_eq (w := w) b]
  simp only [hb0, decide_false, Bool.false_eq_true, if_false]
  exact uDivRemUnchecked_ok hw hn ha hb hb0

theorem U.divModFloor_spec (hw : 1 ≤ w) (hn : 1 ≤ n) (ha : WF w n a) (hb : WF w n b)
    (hb0 : U w b ≠ 0) :
    ∃ q r, U.divModFloor w a b = .ok (q, r) ∧ WF w n q ∧ WF w n r ∧
      U w q = U w a / U w b ∧ U w r = U w a % U w b := by
  obtain ⟨q, h1, wq, sq⟩ := U.divFloor_spec hw hn ha hb hb0
  obtain ⟨r, h2, wr, sr⟩ := U.modFloor_spec hw hn ha hb hb0
  unfold U.divModFloor; rw [h1, h2]
  exact ⟨q, r, rfl, wq, wr, sq, sr⟩

theorem U.isMultipleOf_spec (hw : 1 ≤ w) (hn : 1 ≤ n) (ha : WF w n a) (hb : WF w n b)
    (hb0 : U w b ≠ 0) : U.isMultipleOf w a b = .ok (decide (U w b ∣ U w a)) := by
  obtain ⟨r, h2, wr, sr⟩ := U.modFloor_spec hw hn ha hb hb0
  unfold U.isMultipleOf; rw [h2]
  simp only [Outcome.map]
  congr 1
  rw [isZero_eq (w := w) r, sr]
  exact decide_eq_decide.mpr (Nat.dvd_iff_mod_eq_zero ..).symm

/-- a zero divisor panics in every division-like trait method -/
theorem U.div_by_zero (hb0 : U w b = 0) :
    U.divFloor w a b = .panic ∧ U.modFloor w a b = .panic ∧ U.divRem w a b = .panic ∧
    U.divModFloor w a b = .panic ∧ U.isMultipleOf w a b = .panic := by
  have h1 : U.divFloor w a b = .panic := uDiv_zero hb0
  have h2 : U.modFloor w a b = .panic := uRem_zero hb0
  refine ⟨h1, h2, ?_, ?_, ?_⟩
  · unfold U.divRem UI.divRem; rw [isZero_eq (w := w) b]; simp [hb0]
  · unfold U.divModFloor; rw [h1]; rfl
  · unfold U.isMultipleOf; rw [h2]; rfl

theorem U.isEven_spec (hw : 1 ≤ w) (hn : 1 ≤ n) (ha : WF w n a) :
    U.isEven a = decide (U w a % 2 = 0) ∧ U.isOdd a = decide (U w a % 2 = 1) := by
  obtain ⟨k, rfl⟩ := Nat.exists_eq_add_of_le' hn
  match a, ha with
  | d :: ds, ha =>
    have hB := B_even hw
    have e : U w (d :: ds) % 2 = d % 2 := by
      rw [U_cons, hB, Nat.mul_assoc]; omega
    unfold U.isEven U.isOdd
    simp only [List.headD_cons, Nat.and_one_is_mod, e]
    have h2 := Nat.mod_two_eq_zero_or_one d
    constructor <;> rcases h2 with h | h <;> simp [h]

/-- `Integer::lcm` for `BUint`, whenever the least common multiple is representable -/
theorem U.lcm_spec (hw : 1 ≤ w) (hn : 1 ≤ n) (ha : WF w n a) (hb : WF w n b)
    (hrep : Nat.lcm (U w a) (U w b) < M w n) (dbg : Bool) :
    ∃ r, U.lcm dbg w a b = .ok r ∧ WF w n r ∧ U w r = Nat.lcm (U w a) (U w b) := by
  unfold U.lcm
  rw [isZero_eq (w := w) a, isZero_eq (w := w) b, ha.1]
  by_cases ha0 : U w a = 0
  · simp only [ha0, decide_true, Bool.true_or, if_true]
    exact ⟨_, rfl, WF_zero w n, by rw [U_zero, Nat.lcm_zero_left]⟩
  by_cases hb0 : U w b = 0
  · simp only [hb0, decide_true, Bool.or_true, if_true]
    exact ⟨_, rfl, WF_zero w n, by rw [U_zero, Nat.lcm_zero_right]⟩
  simp only [ha0, hb0, decide_false, Bool.or_self, Bool.false_eq_true, if_false]
  obtain ⟨g, hg1, hg2, hg3⟩ := U.gcd_spec hw ha hb dbg
  rw [hg1]; dsimp only [Outcome.bind]
  have hgpos : 0 < Nat.gcd (U w a) (U w b) := Nat.gcd_pos_of_pos_left _ (by omega)
  obtain ⟨q, hq1, hq2, hq3⟩ := U.divFloor_spec hw hn ha hg2 (by omega)
  rw [hq1]; dsimp only
  have hval : U w q * U w b = Nat.lcm (U w a) (U w b) := by
    rw [hq3, hg3]; unfold Nat.lcm
    obtain ⟨c, hc⟩ := Nat.gcd_dvd_left (U w a) (U w b)
    generalize Nat.gcd (U w a) (U w b) = G at *
    rw [hc, Nat.mul_div_cancel_left _ hgpos, Nat.mul_assoc, Nat.mul_div_cancel_left _ hgpos]
  obtain ⟨r, hr1, hr2, hr3⟩ := uMul_ok hq2 hb (by rw [hval]; exact hrep) dbg
  exact ⟨r, hr1, hr2, by rw [hr3, hval]⟩

end udiv

/-! ## §3c signed gcd / lcm / parity -/

section sgcd
variable {w n : Nat} {a b : List Nat}

/-- inherent `BInt::abs` away from `MIN` -/
theorem abs_ok (hw : 2 ≤ w) (hn : 1 ≤ n) (ha : WF w n a)
    (hrep : repS (M w n) ((S w a).natAbs : Int)) (dbg : Bool) :
    ∃ r, Inh.abs dbg w a = .ok r ∧ WF w n r ∧ S w r = ((S w a).natAbs : Int) := by
  have h := II.overflowingAbs_spec hw hn ha
  obtain ⟨c1, c2⟩ := h.checked
  unfold Inh.abs II.strictAbs II.checkedAbs
  cases hc : tupleToOption (II.overflowingAbs w a) with
  | none => exact absurd hrep (c1.mp hc)
  | some r =>
    obtain ⟨g1, g2⟩ := c2 r hc
    cases dbg
    · exact ⟨r, rfl, g1, g2⟩
    · exact ⟨r, rfl, g1, g2⟩

/-- a pattern whose unsigned value is below `2^(BITS-1)` reads the same signed -/
theorem S_of_small (hx : WF w n a) (h : 2 * U w a < M w n) : S w a = (U w a : Int) := by
  rw [S_eq hx, toInt_of_lt h]

/-- `Integer::gcd` for `BInt`: the non-negative gcd of the magnitudes, whenever representable
    (it is not only for `gcd(MIN, MIN)` and `gcd(MIN, 0)`) -/
theorem I.gcd_spec (hw : 2 ≤ w) (hn : 1 ≤ n) (ha : WF w n a) (hb : WF w n b)
    (hrep : 2 * Nat.gcd (S w a).natAbs (S w b).natAbs < M w n) (dbg : Bool) :
    ∃ r, I.gcd dbg w a b = .ok r ∧ WF w n r ∧
      S w r = (Nat.gcd (S w a).natAbs (S w b).natAbs : Int) := by
  obtain ⟨ua1, ua2⟩ := II.unsignedAbs_spec hw hn ha
  obtain ⟨ub1, ub2⟩ := II.unsignedAbs_spec hw hn hb
  obtain ⟨g, hg1, hg2, hg3⟩ := U.gcd_spec (by omega) ua1 ub1 dbg
  rw [ua2, ub2] at hg3
  unfold I.gcd
  rw [hg1]; dsimp only [Outcome.bind]
  have hs : S w g = (U w g : Int) := S_of_small hg2 (by rw [hg3]; exact hrep)
  obtain ⟨r, hr1, hr2, hr3⟩ := abs_ok hw hn hg2 (by rw [hs]; unfold repS; simp; omega) dbg
  refine ⟨r, hr1, hr2, ?_⟩
  rw [hr3, hs, hg3]; simp

theorem I.isEven_spec (hw : 2 ≤ w) (hn : 1 ≤ n) (ha : WF w n a) :
    I.isEven a = decide (S w a % 2 = 0) ∧ I.isOdd a = decide (S w a % 2 = 1) := by
  obtain ⟨h1, h2⟩ := U.isEven_spec (by omega) hn ha
  unfold I.isEven I.isOdd
  rw [h1, h2]
  have hm := M_even (show 1 ≤ w by omega) hn
  have hM4 := M_ge_four hw hn
  have hm2 : M w n % 2 = 0 := by omega
  have hm4 : (M w n / 2) % 2 = 0 ∨ True := Or.inr trivial
  have e : S w a % 2 = ((U w a % 2 : Nat) : Int) := by
    rw [S_eq ha]; unfold toInt; split <;> omega
  rw [e]
  constructor <;> apply decide_eq_decide.mpr <;> omega

/-- the unsuffixed `BInt` multiplication when the exact product is representable -/
theorem iMul_ok (hw : 2 ≤ w) (hn : 1 ≤ n) (ha : WF w n a) (hb : WF w n b)
    (hrep : repS (M w n) (S w a * S w b)) (dbg : Bool) :
    ∃ r, II.mul w dbg a b = .ok r ∧ WF w n r ∧ S w r = S w a * S w b := by
  obtain ⟨h1, h2⟩ := II.mul_spec hw hn ha hb dbg
  cases hm : II.mul w dbg a b with
  | panic => exact absurd hrep (h1.mp hm).2
  | ok r =>
    obtain ⟨g1, g2, -⟩ := h2 r hm
    exact ⟨r, rfl, g1, by rw [g2, wrapS_of_rep (M_pos w n) hrep]⟩

theorem lcm_eq_div_mul (x y : Nat) : x / Nat.gcd x y * y = Nat.lcm x y := by
  unfold Nat.lcm
  rcases Nat.eq_zero_or_pos (Nat.gcd x y) with h0 | hpos
  · have hx : x = 0 := Nat.eq_zero_of_gcd_eq_zero_left h0
    subst hx; simp
  · obtain ⟨c, hc⟩ := Nat.gcd_dvd_left x y
    generalize Nat.gcd x y = G at *
    rw [hc, Nat.mul_div_cancel_left _ hpos, Nat.mul_assoc, Nat.mul_div_cancel_left _ hpos]

/-- `Integer::lcm` for `BInt`: the non-negative least common multiple, whenever representable -/
theorem I.lcm_spec (hw : 2 ≤ w) (hn : 1 ≤ n) (ha : WF w n a) (hb : WF w n b)
    (hrep : 2 * Nat.lcm (S w a).natAbs (S w b).natAbs < M w n) (dbg : Bool) :
    ∃ r, I.lcm dbg w a b = .ok r ∧ WF w n r ∧
      S w r = (Nat.lcm (S w a).natAbs (S w b).natAbs : Int) := by
  have hw1 : 1 ≤ w := by omega
  unfold I.lcm
  rw [bool_eq_decide (II.isZero_iff_S ha), bool_eq_decide (II.isZero_iff_S hb), ha.1]
  by_cases ha0 : S w a = 0
  · simp only [ha0, decide_true, Bool.true_or, if_true]
    exact ⟨_, rfl, WF_zero w n, by rw [S_zero]; simp⟩
  by_cases hb0 : S w b = 0
  · simp only [hb0, decide_true, Bool.or_true, if_true]
    exact ⟨_, rfl, WF_zero w n, by rw [S_zero]; simp⟩
  simp only [ha0, hb0, decide_false, Bool.or_self, Bool.false_eq_true, if_false]
  -- the gcd
  have hapos : 0 < (S w a).natAbs := by omega
  have hbpos : 0 < (S w b).natAbs := by omega
  have hgpos : 0 < Nat.gcd (S w a).natAbs (S w b).natAbs := Nat.gcd_pos_of_pos_left _ hapos
  have hgle : Nat.gcd (S w a).natAbs (S w b).natAbs ≤ Nat.lcm (S w a).natAbs (S w b).natAbs :=
    Nat.le_trans (Nat.le_of_dvd hapos (Nat.gcd_dvd_left _ _))
      (Nat.le_of_dvd (Nat.lcm_pos hapos hbpos) (Nat.dvd_lcm_left _ _))
  obtain ⟨g, hg1, hg2, hg3⟩ := I.gcd_spec hw hn ha hb (by omega) dbg
  rw [hg1]; dsimp only [Outcome.bind]
  generalize hG : Nat.gcd (S w a).natAbs (S w b).natAbs = G at *
  -- the exact quotient
  have hme := M_even hw1 hn
  obtain ⟨q, hq1, hq2, hq3⟩ := I.divFloor_spec hw hn ha hg2 (by rw [hg3]; omega)
    (by rw [hg3]; omega) dbg
  rw [hq1]; dsimp only
  have hdvd : (G : Int) ∣ S w a := by
    rw [Int.natCast_dvd, ← hG]; exact Nat.gcd_dvd_left _ _
  have hqabs : (S w q).natAbs = (S w a).natAbs / G := by
    rw [hq3, hg3, Int.fdiv_eq_ediv_of_nonneg _ (by omega), Int.natAbs_ediv_of_dvd hdvd]; simp
  have hprod : (S w q * S w b).natAbs = Nat.lcm (S w a).natAbs (S w b).natAbs := by
    rw [Int.natAbs_mul, hqabs, ← hG]; exact lcm_eq_div_mul _ _
  obtain ⟨p, hp1, hp2, hp3⟩ := iMul_ok hw hn hq2 hb (by unfold repS; omega) dbg
  rw [hp1]; dsimp only
  obtain ⟨r, hr1, hr2, hr3⟩ := abs_ok hw hn hp2 (by rw [hp3, hprod]; unfold repS; omega) dbg
  exact ⟨r, hr1, hr2, by rw [hr3, hp3, hprod]⟩

end sgcd

/-! ## §5 integer roots -/

/-- `r` is the integer `k`-th root of `x` -/
def IsRoot (k x r : Nat) : Prop := r ^ k ≤ x ∧ x < (r + 1) ^ k

instance (k x r : Nat) : Decidable (IsRoot k x r) := by unfold IsRoot; exact inferInstance

theorem IsRoot.unique {k x r r' : Nat} (h : IsRoot k x r) (h' : IsRoot k x r') :
    r = r' := by
  rcases Nat.lt_trichotomy r r' with hlt | heq | hgt
  · have := Nat.pow_le_pow_left (show r + 1 ≤ r' by omega) k
    have := h.2; have := h'.1; omega
  · exact heq
  · have := Nat.pow_le_pow_left (show r' + 1 ≤ r by omega) k
    have := h'.2; have := h.1; omega

theorem IsRoot.one (x : Nat) : IsRoot 1 x x := ⟨by simp, by simp⟩

/-! ### the trusted primitive root (`Prim.uRoot`) does what its name says -/

theorem powLeLoop_eq (b x : Nat) (hb : 0 < b) : ∀ (e acc : Nat),
    Prim.powLeLoop b x e acc = decide (acc * b ^ e ≤ x)
  | 0, acc => by simp [Prim.powLeLoop]
  | e + 1, acc => by
    unfold Prim.powLeLoop
    by_cases h : acc > x
    · rw [if_pos h]
      have h1 : 1 ≤ b ^ (e + 1) := Nat.pow_pos hb
      have : acc * 1 ≤ acc * b ^ (e + 1) := Nat.mul_le_mul_left _ h1
      symm; simp only [decide_eq_false_iff_not]; omega
    · rw [if_neg h, powLeLoop_eq b x hb e (acc * b)]
      congr 1; rw [Nat.pow_succ]; ring_nf

theorem powLe_eq (b e x : Nat) : Prim.powLe b e x = decide (b ^ e ≤ x) := by
  unfold Prim.powLe
  by_cases h0 : b = 0
  · subst h0
    rcases Nat.eq_zero_or_pos e with rfl | he
    · simp
    · have : (0 : Nat) ^ e = 0 := Nat.zero_pow he
      simp [this]; omega
  by_cases h1 : b = 1
  · subst h1; simp
  rw [if_neg h0, if_neg h1, powLeLoop_eq b x (by omega) e 1]; simp

theorem rootLoop_spec (k x : Nat) : ∀ (i r : Nat), r ^ k ≤ x → x < (r + 2 ^ i) ^ k →
    IsRoot k x (Prim.rootLoop k x i r)
  | 0, r, h1, h2 => by unfold Prim.rootLoop; exact ⟨h1, by simpa using h2⟩
  | i + 1, r, h1, h2 => by
    unfold Prim.rootLoop
    dsimp only
    rw [powLe_eq]
    by_cases h : (r + 2 ^ i) ^ k ≤ x
    · simp only [h, decide_true, if_true]
      exact rootLoop_spec k x i _ h (by rw [Nat.add_assoc, ← Nat.two_mul, ← Nat.pow_succ']; exact h2)
    · simp only [h, decide_false, Bool.false_eq_true, if_false]
      exact rootLoop_spec k x i r h1 (by omega)

/-- `Prim.uRoot` (the stand-in for num-integer's `u128` roots) is the exact integer root -/
theorem uRoot_spec {k x : Nat} (hk : 1 ≤ k) (hx : x < 2 ^ 128) : IsRoot k x (Prim.uRoot k x) := by
  unfold Prim.uRoot
  apply rootLoop_spec
  · rw [Nat.zero_pow (by omega)]; omega
  · rw [Nat.zero_add]
    calc x < 2 ^ 128 := hx
      _ = (2 ^ 128) ^ 1 := by simp
      _ ≤ (2 ^ 128) ^ k := Nat.pow_le_pow_right (by positivity) hk

theorem IsRoot.le {k x r : Nat} (hk : 1 ≤ k) (h : IsRoot k x r) : r ≤ x := by
  rcases Nat.eq_zero_or_pos r with rfl | hr
  · omega
  · calc r = r ^ 1 := by simp
      _ ≤ r ^ k := Nat.pow_le_pow_right hr hk
      _ ≤ x := h.1



section shortcut
variable {s n : Nat} {x : List Nat}

/-- `to_u128`: `Some(value)` exactly below `2^128` (digit widths `2^s`) -/
theorem toU128_spec (hn : 1 ≤ n) (hx : WF (2 ^ s) n x) :
    toU128 (2 ^ s) x = .ok (if U (2 ^ s) x < 2 ^ 128 then some (U (2 ^ s) x) else none) := by
  have hw : 1 ≤ 2 ^ s := Nat.two_pow_pos s
  have hdiv : (128 : Nat) < 2 ^ s ∨ ∃ c, 128 = c * 2 ^ s := by
    by_cases h : s ≤ 7
    · right; refine ⟨2 ^ (7 - s), ?_⟩
      rw [← Nat.pow_add, show 7 - s + s = 7 by omega]
    · left
      calc 128 = 2 ^ 7 := by norm_num
        _ < 2 ^ s := Nat.pow_lt_pow_right (by decide) (by omega)
  have h := UI.tryToPrim_spec (w := 2 ^ s) ⟨128, false⟩ hw hn (by decide) hdiv hx
  unfold toU128
  rcases h with ⟨h1, q, h2, -, h4⟩ | ⟨h1, h2⟩
  · have hlt : U (2 ^ s) x < 2 ^ 128 := by
      have := h1.2; simp only [B] at this; exact_mod_cast this
    have hq : q = U (2 ^ s) x := by
      have : (q : Int) = (U (2 ^ s) x : Int) := by simpa [PInt.val] using h4
      exact_mod_cast this
    rw [h2, if_pos hlt, hq]
  · have hlt : ¬ U (2 ^ s) x < 2 ^ 128 := by
      intro hlt; apply h1
      exact ⟨by positivity, by simp only [B]; exact_mod_cast hlt⟩
    rw [h2, if_neg hlt]

variable {w : Nat}

theorem fromU128_ok {v : Nat} (hw : 1 ≤ w) (hv : v < 2 ^ 128) (hvM : v < M w n) :
    ∃ r, fromU128 w n v = .ok r ∧ WF w n r ∧ U w r = v := by
  obtain ⟨r, h1, h2, h3⟩ := UI.fromUint_spec (w := w) (n := n) (k := 128) hw (by simpa [B] using hv) hvM
  exact ⟨r, h1, h2, by simpa [valOf] using h3⟩

theorem fromU32_ok {v : Nat} (hw : 1 ≤ w) (hv : v < 2 ^ 32) (hvM : v < M w n) :
    ∃ r, fromU32 w n v = .ok r ∧ WF w n r ∧ U w r = v := by
  obtain ⟨r, h1, h2, h3⟩ := UI.fromUint_spec (w := w) (n := n) (k := 32) hw (by simpa [B] using hv) hvM
  exact ⟨r, h1, h2, by simpa [valOf] using h3⟩

/-- `check_zero_or_one!` fires only on the values 0 and 1 -/
theorem isZeroOrOne_le (hx : WF w n x) (h : U.isZeroOrOne x = true) : U w x ≤ 1 := by
  unfold U.isZeroOrOne at h
  simp only [Bool.and_eq_true, beq_iff_eq, Bool.or_eq_true] at h
  obtain ⟨h1, h2⟩ := h
  rw [(ldi_zero hx h1).1]; omega

end shortcut

/-! ### `fixpoint` as used by the three root functions -/
section fix
variable {w n : Nat}

/-- what the closure passed to `fixpoint` has to do on every iterate `s` between the root and the
    first guess `G`: return the Newton step without panicking -/
def StepOk (w n k X G : Nat) (f : List Nat → Outcome (List Nat)) : Prop :=
  ∀ s, WF w n s → X < (U w s + 1) ^ (k + 1) → U w s ≤ G →
    ∃ r, f s = .ok r ∧ WF w n r ∧ U w r = newton k X (U w s)

theorem fixDown_spec {k X G : Nat} {f : List Nat → Outcome (List Nat)} (hX : 1 ≤ X)
    (hf : StepOk w n k X G f) :
    ∀ (fuel : Nat) (self xn : List Nat), WF w n self → WF w n xn → U w self < fuel →
      U w self ≤ G → X < (U w self + 1) ^ (k + 1) → U w xn = newton k X (U w self) →
      ∃ r, U.fixDown f fuel self xn = .ok r ∧ WF w n r ∧ IsRoot (k + 1) X (U w r)
  | 0, _, _, _, _, h, _, _, _ => by omega
  | fuel + 1, self, xn, hs, hxn, hfuel, hG, hinv, hval => by
    unfold U.fixDown
    rw [opGt_eq hs hxn]
    have hspos : 0 < U w self := by
      rcases Nat.eq_zero_or_pos (U w self) with h0 | h0
      · rw [h0] at hinv; simp at hinv; omega
      · exact h0
    by_cases hgt : U w xn < U w self
    · simp only [hgt, decide_true, if_true]
      have hinv' : X < (U w xn + 1) ^ (k + 1) := by rw [hval]; exact newton_ge k X _ hspos
      obtain ⟨r, hr1, hr2, hr3⟩ := hf xn hxn hinv' (by omega)
      rw [hr1]; dsimp only [Outcome.bind]
      exact fixDown_spec hX hf fuel xn r hxn hr2 (by omega) (by omega) hinv' hr3
    · simp only [hgt, decide_false, Bool.false_eq_true, if_false]
      refine ⟨self, rfl, hs, ?_, hinv⟩
      by_contra hc
      have := newton_lt k X (U w self) hspos (by omega)
      omega

/-- `fixpoint` started from a guess above the root -/
theorem fixpoint_spec {k X G : Nat} {f : List Nat → Outcome (List Nat)} {guess : List Nat}
    (hX : 1 ≤ X) (hf : StepOk w n k X G f) (hg : WF w n guess) (hG : U w guess = G)
    (hgt : X < G ^ (k + 1)) (maxBits : Nat) :
    ∃ r, U.fixpoint w guess maxBits f = .ok r ∧ WF w n r ∧ IsRoot (k + 1) X (U w r) := by
  have hGpos : 0 < G := by
    rcases Nat.eq_zero_or_pos G with h0 | h0
    · rw [h0] at hgt; simp at hgt
    · exact h0
  have hinv : X < (U w guess + 1) ^ (k + 1) := by
    rw [hG]; exact Nat.lt_of_lt_of_le hgt (Nat.pow_le_pow_left (by omega) _)
  obtain ⟨xn, h1, h2, h3⟩ := hf guess hg hinv (by omega)
  have hlt : U w xn < U w guess := by rw [h3, hG]; exact newton_lt k X G hGpos hgt
  unfold U.fixpoint
  rw [h1]; dsimp only [Outcome.bind]
  have hM := U_lt hg
  rw [hg.1]
  obtain ⟨m, hm⟩ : ∃ m, M w n = m + 1 := ⟨M w n - 1, by omega⟩
  have hup : U.fixUp w maxBits f (M w n) guess xn = .ok (guess, xn) := by
    rw [hm]; unfold U.fixUp
    rw [opLt_eq hg h2]
    simp only [show ¬ U w guess < U w xn by omega, decide_false, Bool.false_eq_true, if_false]
  rw [hup]; dsimp only
  exact fixDown_spec hX hf (M w n) guess xn hg h2 hM (by omega) hinv h3

end fix


section rootops
variable {w n : Nat} {a : List Nat}

theorem uShr_ok (hw : 1 ≤ w) (ha : WF w n a) {k : Nat} (hk : k < w * n) (dbg : Bool) :
    ∃ r, UI.shr dbg w a k = .ok r ∧ WF w n r ∧ U w r = U w a / 2 ^ k := by
  obtain ⟨g1, g2⟩ := UI.uncheckedShrInternal_spec (by omega) ha hk
  exact ⟨_, UI.shr_of_lt dbg (by rw [ha.1]; exact hk), g1, g2⟩

theorem uShl_ok (hw : 1 ≤ w) (ha : WF w n a) {k : Nat} (hk : k < w * n)
    (hfit : U w a * 2 ^ k < M w n) (dbg : Bool) :
    ∃ r, UI.shl dbg w a k = .ok r ∧ WF w n r ∧ U w r = U w a * 2 ^ k := by
  obtain ⟨g1, g2⟩ := UI.uncheckedShlInternal_spec (by omega) ha hk
  exact ⟨_, UI.shl_of_lt dbg (by rw [ha.1]; exact hk), g1, by rw [g2, Nat.mod_eq_of_lt hfit]⟩

theorem two_pow_lt_M {e : Nat} (h : e < w * n) : 2 ^ e < M w n :=
  Nat.pow_lt_pow_right (by decide) h

/-- a value that did not fit `u128` forces a width above 128 bits -/
theorem bits_gt_128 (ha : WF w n a) (h : 2 ^ 128 ≤ U w a) : 128 < w * n := by
  by_contra hc
  have : M w n ≤ 2 ^ 128 := Nat.pow_le_pow_right (by decide) (by omega)
  have := U_lt ha; omega

theorem bitLen_facts (ha : WF w n a) (h : 2 ^ 128 ≤ U w a) :
    UI.bits w a = Spec.bitLen (U w a) ∧ 129 ≤ UI.bits w a ∧ UI.bits w a ≤ w * n ∧
    U w a < 2 ^ UI.bits w a ∧ 2 ^ (UI.bits w a - 1) ≤ U w a := by
  rw [bits_spec ha]
  have h1 := lt_two_pow_bitLen (U w a)
  have h2 := bitLen_le_of_lt (U_lt ha)
  have h0 : U w a ≠ 0 := by have := Nat.two_pow_pos 128; omega
  have h3 := two_pow_le_of_bitLen h0
  refine ⟨rfl, ?_, h2, h1, h3⟩
  by_contra hc
  have : 2 ^ Spec.bitLen (U w a) ≤ 2 ^ 128 := Nat.pow_le_pow_right (by decide) (by omega)
  omega

/-- the first guess `2^(bits/(k+1) + 1)` lies above the `(k+1)`-th root -/
theorem guess_gt {X bits k : Nat} (hX : X < 2 ^ bits) : X < (2 ^ (bits / (k + 1) + 1)) ^ (k + 1) := by
  rw [← Nat.pow_mul]
  refine Nat.lt_of_lt_of_le hX (Nat.pow_le_pow_right (by decide) ?_)
  have h := Nat.lt_mul_div_succ bits (Nat.succ_pos k)
  have e : k.succ = k + 1 := rfl
  rw [e] at h
  rw [Nat.mul_comm]; omega

end rootops

/-! ### `sqrt` -/
section sqrt
variable {w n : Nat} {x : List Nat}

theorem sqrtStep_ok (hw : 1 ≤ w) (hn : 1 ≤ n) (hx : WF w n x) (hX : 1 ≤ U w x) {G : Nat}
    (hbound : 2 * G + 2 < M w n) (h1 : 1 < w * n) (dbg : Bool) :
    StepOk w n 1 (U w x) G (U.sqrtStep dbg w x) := by
  intro s hs hinv hG
  have hspos : 0 < U w s := by
    rcases Nat.eq_zero_or_pos (U w s) with h0 | h0
    · rw [h0] at hinv; simp at hinv; omega
    · exact h0
  unfold U.sqrtStep
  obtain ⟨q, hq1, hq2, hq3⟩ := uDiv_ok hw hn hx hs (by omega)
  rw [hq1]; dsimp only [Outcome.bind]
  have hqle : U w q ≤ U w s + 2 := by
    rw [hq3]
    have : U w x / U w s < U w s + 3 := by
      rw [Nat.div_lt_iff_lt_mul hspos]
      have e : (U w s + 1) ^ (1 + 1) = U w s * U w s + 2 * U w s + 1 := by ring
      rw [e] at hinv; nlinarith
    omega
  obtain ⟨t, ht1, ht2, ht3⟩ := uAdd_ok hs hq2 (by omega) dbg
  rw [ht1]; dsimp only
  obtain ⟨r, hr1, hr2, hr3⟩ := uShr_ok hw ht2 h1 dbg
  refine ⟨r, hr1, hr2, ?_⟩
  rw [hr3, ht3, hq3]; unfold newton; simp

/-- the Newton part of `sqrt` (values that do not fit `u128`) -/
theorem sqrtNewton_spec {s : Nat} (hs : s < 32) (hn : 1 ≤ n) (hx : WF (2 ^ s) n x)
    (hbig : 2 ^ 128 ≤ U (2 ^ s) x) (dbg : Bool) :
    ∃ r, U.sqrtNewton dbg (2 ^ s) x = .ok r ∧ WF (2 ^ s) n r ∧ IsRoot 2 (U (2 ^ s) x) (U (2 ^ s) r) := by
  have hw : 1 ≤ 2 ^ s := Nat.two_pow_pos s
  obtain ⟨b1, b2, b3, b4, b5⟩ := bitLen_facts hx hbig
  have hW := bits_gt_128 hx hbig
  unfold U.sqrtNewton
  rw [hx.1]; dsimp only
  generalize UI.bits (2 ^ s) x = bits at *
  obtain ⟨g, hg1, hg2, hg3⟩ := (powerOfTwo_spec hs n (bits / 2 + 1)).2 (by omega)
  rw [hg1]; dsimp only [Outcome.bind]
  have hXpos : 1 ≤ U (2 ^ s) x := by have := Nat.two_pow_pos 128; omega
  have hbound : 2 * 2 ^ (bits / 2 + 1) + 2 < M (2 ^ s) n := by
    have h4 : 2 ^ (bits / 2 + 1 + 2) < M (2 ^ s) n := two_pow_lt_M (by omega)
    have hp : 1 ≤ 2 ^ (bits / 2 + 1) := Nat.two_pow_pos _
    rw [Nat.pow_add] at h4; omega
  exact fixpoint_spec hXpos (sqrtStep_ok hw hn hx hXpos hbound (by omega) dbg) hg2 hg3
    (guess_gt (k := 1) b4) _

/-- the `check_zero_or_one!` / `to_u128` prologue shared by `sqrt`, `cbrt` and `nth_root` -/
theorem shortcut_spec {s k : Nat} (hk : 1 ≤ k) (hn : 1 ≤ n) (hx : WF (2 ^ s) n x)
    (newt : Outcome (List Nat))
    (hnewt : 2 ^ 128 ≤ U (2 ^ s) x →
      ∃ r, newt = .ok r ∧ WF (2 ^ s) n r ∧ IsRoot k (U (2 ^ s) x) (U (2 ^ s) r)) :
    ∃ r, (if U.isZeroOrOne x then Outcome.ok x
          else (toU128 (2 ^ s) x).bind fun
            | some v => fromU128 (2 ^ s) x.length (Prim.uRoot k v)
            | none => newt) = .ok r ∧
      WF (2 ^ s) n r ∧ IsRoot k (U (2 ^ s) x) (U (2 ^ s) r) := by
  have hw : 1 ≤ 2 ^ s := Nat.two_pow_pos s
  by_cases hz : U.isZeroOrOne x = true
  · rw [if_pos hz]
    have hle := isZeroOrOne_le hx hz
    refine ⟨x, rfl, hx, ?_⟩
    rcases Nat.le_one_iff_eq_zero_or_eq_one.mp hle with h0 | h1
    · rw [h0]; exact ⟨by rw [Nat.zero_pow (by omega)], by simp⟩
    · rw [h1]; exact ⟨by simp, by
        calc 1 < 2 ^ 1 := by decide
          _ ≤ 2 ^ k := Nat.pow_le_pow_right (by decide) hk⟩
  · rw [if_neg hz, toU128_spec hn hx]
    dsimp only [Outcome.bind]
    by_cases hlt : U (2 ^ s) x < 2 ^ 128
    · simp only [hlt, if_true]
      have hr := uRoot_spec hk hlt
      have hle := hr.le hk
      obtain ⟨r, h1, h2, h3⟩ := fromU128_ok (w := 2 ^ s) (n := n) hw
        (Nat.lt_of_le_of_lt hle hlt) (Nat.lt_of_le_of_lt hle (U_lt hx))
      rw [hx.1]
      exact ⟨r, h1, h2, by rw [h3]; exact hr⟩
    · simp only [hlt, if_false]
      exact hnewt (by omega)

/-- `Roots::sqrt` for `BUint`: `r² ≤ x < (r+1)²`, never panics -/
theorem U.sqrt_spec {s : Nat} (hs : s < 32) (hn : 1 ≤ n) (hx : WF (2 ^ s) n x) (dbg : Bool) :
    ∃ r, U.sqrt dbg (2 ^ s) x = .ok r ∧ WF (2 ^ s) n r ∧ IsRoot 2 (U (2 ^ s) x) (U (2 ^ s) r) := by
  unfold U.sqrt
  exact shortcut_spec (by decide) hn hx _ (fun hbig => sqrtNewton_spec hs hn hx hbig dbg)

end sqrt


/-! ### `cbrt` -/
section cbrt
variable {w n : Nat} {x : List Nat}

theorem cbrtStep_ok (hw : 2 ≤ w) (hn : 1 ≤ n) (hx : WF w n x) (hX : 1 ≤ U w x) {G : Nat}
    (hG2 : G * G < M w n) (hbound : 3 * G + 7 < M w n) (h1 : 1 < w * n) (dbg : Bool) :
    StepOk w n 2 (U w x) G (U.cbrtStep dbg w x) := by
  intro s hs hinv hG
  have hw1 : 1 ≤ w := by omega
  have hspos : 0 < U w s := by
    rcases Nat.eq_zero_or_pos (U w s) with h0 | h0
    · rw [h0] at hinv; simp at hinv; omega
    · exact h0
  unfold U.cbrtStep
  have hss : U w s * U w s ≤ G * G := Nat.mul_le_mul hG hG
  obtain ⟨ss, a1, a2, a3⟩ := uMul_ok hs hs (by omega) dbg
  rw [a1]; dsimp only [Outcome.bind]
  have hsspos : 0 < U w s * U w s := Nat.mul_pos hspos hspos
  obtain ⟨q, hq1, hq2, hq3⟩ := uDiv_ok hw1 hn hx a2 (by omega)
  rw [hq1]; dsimp only
  have hqle : U w q ≤ U w s + 6 := by
    rw [hq3, a3]
    have : U w x / (U w s * U w s) < U w s + 7 := by
      rw [Nat.div_lt_iff_lt_mul hsspos]
      have e : (U w s + 1) ^ (2 + 1) = U w s * U w s * U w s + 3 * (U w s * U w s) + 3 * U w s + 1 := by
        ring
      rw [e] at hinv
      nlinarith [Nat.mul_le_mul hspos hspos]
    omega
  obtain ⟨s2, b1, b2, b3⟩ := uShl_ok hw1 hs h1 (by omega) dbg
  rw [b1]; dsimp only
  obtain ⟨t, ht1, ht2, ht3⟩ := uAdd_ok b2 hq2 (by omega) dbg
  rw [ht1]; dsimp only
  have hB : 3 < B w := by
    have : 2 ^ 2 ≤ 2 ^ w := Nat.pow_le_pow_right (by decide) hw
    unfold B; omega
  obtain ⟨r, rem, hr1, hr2, hr3, hr4⟩ := UI.u_divRemDigit_spec (d := 3) (by decide) hB ht2
  rw [hr1]
  refine ⟨r, rfl, hr4, ?_⟩
  unfold newton
  rw [Nat.pow_two, ← a3, ← hq3]
  have e : 2 * U w s + U w q = U w t := by rw [ht3, b3]; ring
  rw [e]; omega

theorem cbrtNewton_spec {s : Nat} (hs1 : 1 ≤ s) (hs : s < 32) (hn : 1 ≤ n) (hx : WF (2 ^ s) n x)
    (hbig : 2 ^ 128 ≤ U (2 ^ s) x) (dbg : Bool) :
    ∃ r, U.cbrtNewton dbg (2 ^ s) x = .ok r ∧ WF (2 ^ s) n r ∧ IsRoot 3 (U (2 ^ s) x) (U (2 ^ s) r) := by
  have hw : 2 ≤ 2 ^ s := by
    calc 2 = 2 ^ 1 := rfl
      _ ≤ 2 ^ s := Nat.pow_le_pow_right (by decide) hs1
  obtain ⟨b1, b2, b3, b4, b5⟩ := bitLen_facts hx hbig
  have hW := bits_gt_128 hx hbig
  unfold U.cbrtNewton
  rw [hx.1]; dsimp only
  generalize UI.bits (2 ^ s) x = bits at *
  obtain ⟨g, hg1, hg2, hg3⟩ := (powerOfTwo_spec hs n (bits / 3 + 1)).2 (by omega)
  rw [hg1]; dsimp only [Outcome.bind]
  have hXpos : 1 ≤ U (2 ^ s) x := by have := Nat.two_pow_pos 128; omega
  have hp : 1 ≤ 2 ^ (bits / 3 + 1) := Nat.two_pow_pos _
  have hG2 : 2 ^ (bits / 3 + 1) * 2 ^ (bits / 3 + 1) < M (2 ^ s) n := by
    rw [← Nat.pow_add]; exact two_pow_lt_M (by omega)
  have hbound : 3 * 2 ^ (bits / 3 + 1) + 7 < M (2 ^ s) n := by
    have h4 : 2 ^ (bits / 3 + 1 + 4) < M (2 ^ s) n := two_pow_lt_M (by omega)
    rw [Nat.pow_add] at h4; omega
  exact fixpoint_spec hXpos (cbrtStep_ok hw hn hx hXpos hG2 hbound (by omega) dbg) hg2 hg3
    (guess_gt (k := 2) b4) _

/-- `Roots::cbrt` for `BUint`: `r³ ≤ x < (r+1)³`, never panics -/
theorem U.cbrt_spec {s : Nat} (hs1 : 1 ≤ s) (hs : s < 32) (hn : 1 ≤ n) (hx : WF (2 ^ s) n x)
    (dbg : Bool) :
    ∃ r, U.cbrt dbg (2 ^ s) x = .ok r ∧ WF (2 ^ s) n r ∧ IsRoot 3 (U (2 ^ s) x) (U (2 ^ s) r) := by
  unfold U.cbrt
  exact shortcut_spec (by decide) hn hx _ (fun hbig => cbrtNewton_spec hs1 hs hn hx hbig dbg)

end cbrt


/-! ### `nth_root`, degree `≥ 4` -/
section nth
variable {w n : Nat} {x : List Nat}

theorem checkedPow_cases (hw : 1 ≤ w) (hn : 1 ≤ n) {s : List Nat} (hs : WF w n s) (e : Nat) :
    (U w s ^ e < M w n → ∃ p, UI.checkedPow w s e = some p ∧ WF w n p ∧ U w p = U w s ^ e) ∧
    (M w n ≤ U w s ^ e → UI.checkedPow w s e = none) := by
  obtain ⟨h1, h2, h3⟩ := UI.u_overflowingPow_nat hw hn hs e
  rw [UI.checkedPow_eq hw hn hs e]
  constructor
  · intro hlt
    have hf : (UI.overflowingPow w s e).2 = false := by
      rw [← Bool.not_eq_true, h3]; omega
    exact ⟨_, by simp [tupleToOption, hf], h1, by rw [h2, Nat.mod_eq_of_lt hlt]⟩
  · intro hge
    have hf : (UI.overflowingPow w s e).2 = true := h3.mpr hge
    simp [tupleToOption, hf]

/-- the closure of `nth_root` (degree `k + 1 ≥ 4`) computes the Newton step: the power may exceed
    the width (then the quotient is 0, which is exact), nothing else overflows -/
theorem nthStep_ok {k : Nat} (hw : 1 ≤ w) (hn : 1 ≤ n) (hx : WF w n x) (hk : 3 ≤ k)
    (hk32 : k + 1 < 2 ^ 32) (h32 : 2 ^ 32 ≤ M w n) (hX2 : 2 ^ (k + 1) ≤ U w x) {G : Nat}
    (hbound : 2 * (G * (k + 1)) ≤ M w n) (dbg : Bool) :
    StepOk w n k (U w x) G (U.nthStep dbg w (k + 1) x) := by
  intro s hs hinv hG
  have hs2 : 2 ≤ U w s := by
    by_contra hc
    have : (U w s + 1) ^ (k + 1) ≤ 2 ^ (k + 1) := Nat.pow_le_pow_left (by omega) _
    omega
  have hXM := U_lt hx
  have hp8 : 8 ≤ U w s ^ k := by
    calc 8 = 2 ^ 3 := rfl
      _ ≤ 2 ^ k := Nat.pow_le_pow_right (by decide) hk
      _ ≤ U w s ^ k := Nat.pow_le_pow_left hs2 k
  -- the tail of the closure, for the exact quotient `q`
  have key : ∀ q, WF w n q → U w q = U w x / U w s ^ k →
      ∃ r, U.nthStepTail dbg w (k + 1) s q = .ok r ∧ WF w n r ∧ U w r = newton k (U w x) (U w s) := by
    intro q hq2 hq3
    unfold U.nthStepTail
    rw [Nat.add_sub_cancel, hs.1]
    obtain ⟨mul, m1, m2, m3⟩ := fromU32_ok (w := w) (n := n) (v := k) hw (by omega) (by omega)
    rw [m1]; dsimp only [Outcome.bind]
    have hsk : U w s * k ≤ G * (k + 1) := Nat.mul_le_mul hG (by omega)
    obtain ⟨sm, a1, a2, a3⟩ := uMul_ok hs m2 (by rw [m3]; omega) dbg
    rw [a1]; dsimp only
    have hq8 : U w q ≤ U w x / 8 := by rw [hq3]; exact Nat.div_le_div_left hp8 (by decide)
    obtain ⟨t, t1, t2, t3⟩ := uAdd_ok a2 hq2 (by rw [a3, m3]; omega) dbg
    rw [t1]; dsimp only
    obtain ⟨nn, n1, n2, n3⟩ := fromU32_ok (w := w) (n := n) (v := k + 1) hw hk32 (by omega)
    rw [n1]; dsimp only
    obtain ⟨r, rem, r1, r2, -, r3, -⟩ := uDivRemUnchecked_ok hw hn t2 n2 (by omega)
    rw [r1]
    refine ⟨r, rfl, r2, ?_⟩
    rw [r3, t3, a3, m3, n3, hq3]; unfold newton; rw [Nat.mul_comm]
  unfold U.nthStep
  rw [Nat.add_sub_cancel]
  obtain ⟨c1, c2⟩ := checkedPow_cases hw hn hs k
  by_cases hlt : U w s ^ k < M w n
  · obtain ⟨p, e1, e2, e3⟩ := c1 hlt
    rw [e1]; dsimp only
    obtain ⟨q, d1, d2, d3⟩ := uDiv_ok hw hn hx e2 (by omega)
    rw [d1]; dsimp only [Outcome.bind]
    exact key q d2 (by rw [d3, e3])
  · rw [c2 (by omega)]; dsimp only [Outcome.bind]
    exact key _ (by rw [hx.1]; exact WF_zero w n) (by rw [U_zero, Nat.div_eq_of_lt (by omega)])

theorem nthNewton_spec {s k : Nat} (hs : s < 32) (hn : 1 ≤ n) (hx : WF (2 ^ s) n x)
    (hk : 3 ≤ k) (hk32 : k + 1 < 2 ^ 32) (hbig : 2 ^ 128 ≤ U (2 ^ s) x) (dbg : Bool) :
    ∃ r, U.nthNewton dbg (2 ^ s) (k + 1) x = .ok r ∧ WF (2 ^ s) n r ∧
      IsRoot (k + 1) (U (2 ^ s) x) (U (2 ^ s) r) := by
  have hw : 1 ≤ 2 ^ s := Nat.two_pow_pos s
  obtain ⟨b1, b2, b3, b4, b5⟩ := bitLen_facts hx hbig
  have hW := bits_gt_128 hx hbig
  have hXpos : 1 ≤ U (2 ^ s) x := by have := Nat.two_pow_pos 128; omega
  unfold U.nthNewton
  rw [hx.1]; dsimp only
  generalize UI.bits (2 ^ s) x = bits at *
  by_cases hle : bits ≤ k + 1
  · rw [if_pos hle]
    refine ⟨_, rfl, WF_one hw hn, ?_⟩
    rw [U_one hn]
    exact ⟨by simp; exact hXpos,
      Nat.lt_of_lt_of_le b4 (Nat.pow_le_pow_right (by decide) hle)⟩
  · rw [if_neg hle]
    have hdiv : bits / (k + 1) ≤ bits / 4 := Nat.div_le_div_left (by omega) (by decide)
    obtain ⟨g, hg1, hg2, hg3⟩ := (powerOfTwo_spec hs n (bits / (k + 1) + 1)).2 (by omega)
    rw [hg1]; dsimp only [Outcome.bind]
    have h32 : 2 ^ 32 ≤ M (2 ^ s) n := Nat.pow_le_pow_right (by decide) (by omega)
    have hX2 : 2 ^ (k + 1) ≤ U (2 ^ s) x :=
      Nat.le_trans (Nat.pow_le_pow_right (by decide) (by omega)) b5
    have hbound : 2 * (2 ^ (bits / (k + 1) + 1) * (k + 1)) ≤ M (2 ^ s) n := by
      have h1 : 2 ^ (bits / (k + 1) + 1) * (k + 1) ≤ 2 ^ (bits / (k + 1) + 1) * 2 ^ 32 :=
        Nat.mul_le_mul_left _ (by omega)
      rw [← Nat.pow_add] at h1
      have h2 : 2 * 2 ^ (bits / (k + 1) + 1 + 32) ≤ M (2 ^ s) n := by
        rw [← Nat.pow_succ']
        exact Nat.pow_le_pow_right (by decide) (by omega)
      omega
    exact fixpoint_spec hXpos (nthStep_ok hw hn hx hk hk32 h32 hX2 hbound dbg) hg2 hg3
      (guess_gt (k := k) b4) _

end nth


section nthroot
variable {n : Nat} {x : List Nat}

/-- `Roots::nth_root(0)` panics ("attempt to calculate zeroth root") -/
theorem U.nthRoot_zero (dbg : Bool) (w : Nat) (x : List Nat) : U.nthRoot dbg w x 0 = .panic := rfl

/-- `Roots::nth_root(d)` for `BUint`, every degree `1 ≤ d ≤ u32::MAX`:
    `r^d ≤ x < (r+1)^d`, never panics -/
theorem U.nthRoot_spec {s d : Nat} (hs1 : 1 ≤ s) (hs : s < 32) (hn : 1 ≤ n) (hx : WF (2 ^ s) n x)
    (hd : 1 ≤ d) (hd32 : d < 2 ^ 32) (dbg : Bool) :
    ∃ r, U.nthRoot dbg (2 ^ s) x d = .ok r ∧ WF (2 ^ s) n r ∧
      IsRoot d (U (2 ^ s) x) (U (2 ^ s) r) := by
  match d, hd, hd32 with
  | 1, _, _ => exact ⟨x, rfl, hx, IsRoot.one _⟩
  | 2, _, _ => exact U.sqrt_spec hs hn hx dbg
  | 3, _, _ => exact U.cbrt_spec hs1 hs hn hx dbg
  | k + 4, _, h32 =>
    show ∃ r, (if U.isZeroOrOne x then Outcome.ok x
          else (toU128 (2 ^ s) x).bind fun
            | some v => fromU128 (2 ^ s) x.length (Prim.uRoot (k + 4) v)
            | none => U.nthNewton dbg (2 ^ s) (k + 4) x) = .ok r ∧ _ ∧ _
    exact shortcut_spec (by omega) hn hx _
      (fun hbig => nthNewton_spec (k := k + 3) hs hn hx (by omega) h32 hbig dbg)

end nthroot

/-! ### signed roots -/

/-- `r` is the truncated principal `k`-th root of the integer `z`: the magnitude of `r` is the
    integer root of the magnitude of `z`, the sign is that of `z` -/
def IsRootZ (k : Nat) (z r : Int) : Prop :=
  IsRoot k z.natAbs r.natAbs ∧ (0 ≤ z → 0 ≤ r) ∧ (z < 0 → r ≤ 0)

theorem IsRoot.lt_half {k X r H : Nat} (hk : 2 ≤ k) (h : IsRoot k X r) (hX : X ≤ H) (hH : 2 ≤ H) :
    r < H := by
  by_contra hc
  have h2 : 2 ≤ r := by omega
  have h3 : r ^ 2 ≤ r ^ k := Nat.pow_le_pow_right (by omega) hk
  have h4 : 2 * r ≤ r ^ 2 := by rw [Nat.pow_two]; exact Nat.mul_le_mul_right r h2
  have := h.1; omega

section sroot
variable {s n : Nat} {x : List Nat}

theorem two_le_half (hs1 : 1 ≤ s) (hn : 1 ≤ n) : 4 ≤ M (2 ^ s) n := by
  have : 2 ≤ 2 ^ s := by
    calc 2 = 2 ^ 1 := rfl
      _ ≤ 2 ^ s := Nat.pow_le_pow_right (by decide) hs1
  exact M_ge_four this hn

/-- a root pattern read as a signed number, when the radicand is at most `2^(BITS-1)` -/
theorem root_signed {k X : Nat} {r : List Nat} (hs1 : 1 ≤ s) (hn : 1 ≤ n) (hk : 1 ≤ k)
    (hr : WF (2 ^ s) n r) (h : IsRoot k X (U (2 ^ s) r)) (hX : 2 * X ≤ M (2 ^ s) n)
    (hX' : k = 1 → 2 * X < M (2 ^ s) n) :
    S (2 ^ s) r = (U (2 ^ s) r : Int) := by
  have hM := two_le_half hs1 hn
  apply S_of_small hr
  rcases Nat.lt_or_ge k 2 with h1 | h2
  · have hk1 : k = 1 := by omega
    subst hk1
    have := h.1; simp at this; have := hX' rfl; omega
  · have hw : 1 ≤ 2 ^ s := Nat.two_pow_pos s
    have hme := M_even hw hn
    have := h.lt_half (H := M (2 ^ s) n / 2) h2 (by omega) (by omega)
    omega

/-- `Roots::sqrt` for `BInt` -/
theorem I.sqrt_spec (hs1 : 1 ≤ s) (hs : s < 32) (hn : 1 ≤ n) (hx : WF (2 ^ s) n x) (dbg : Bool) :
    (S (2 ^ s) x < 0 → I.sqrt dbg (2 ^ s) x = .panic) ∧
    (0 ≤ S (2 ^ s) x → ∃ r, I.sqrt dbg (2 ^ s) x = .ok r ∧ WF (2 ^ s) n r ∧
      IsRootZ 2 (S (2 ^ s) x) (S (2 ^ s) r)) := by
  have hw : 1 ≤ 2 ^ s := Nat.two_pow_pos s
  unfold I.sqrt
  rw [isNegative_eq_decide hw hn hx]
  constructor
  · intro h; simp [h]
  · intro h
    simp only [show ¬ S (2 ^ s) x < 0 by omega, decide_false, Bool.false_eq_true, if_false]
    obtain ⟨r, h1, h2, h3⟩ := U.sqrt_spec hs hn hx dbg
    have hxs := S_of_nonneg hx h
    have hxr := S_repS hw hn hx
    have hrs := root_signed hs1 hn (by decide) h2 h3 (by unfold repS at hxr; omega) (by omega)
    refine ⟨r, h1, h2, ?_, by omega, by omega⟩
    rw [hrs, hxs]; simpa using h3

/-- the magnitude root of a negative radicand, negated -/
theorem neg_root {k : Nat} {out r : List Nat} (hs1 : 1 ≤ s) (hn : 1 ≤ n) (hk : 2 ≤ k)
    (hx : WF (2 ^ s) n x) (hneg : S (2 ^ s) x < 0) (ho : WF (2 ^ s) n out)
    (hroot : IsRoot k (S (2 ^ s) x).natAbs (U (2 ^ s) out))
    (hr : S (2 ^ s) r = - S (2 ^ s) out) : IsRootZ k (S (2 ^ s) x) (S (2 ^ s) r) := by
  have hw : 1 ≤ 2 ^ s := Nat.two_pow_pos s
  have hxr := S_repS hw hn hx
  have hos := root_signed hs1 hn (by omega) ho hroot (by unfold repS at hxr; omega) (by omega)
  refine ⟨?_, by omega, by omega⟩
  have e : (S (2 ^ s) r).natAbs = U (2 ^ s) out := by rw [hr, hos]; simp
  rw [e]; exact hroot

/-- `Roots::cbrt` for `BInt`: sign preserved -/
theorem I.cbrt_spec (hs1 : 1 ≤ s) (hs : s < 32) (hn : 1 ≤ n) (hx : WF (2 ^ s) n x) (dbg : Bool) :
    ∃ r, I.cbrt dbg (2 ^ s) x = .ok r ∧ WF (2 ^ s) n r ∧ IsRootZ 3 (S (2 ^ s) x) (S (2 ^ s) r) := by
  have hw : 1 ≤ 2 ^ s := Nat.two_pow_pos s
  have hw2 : 2 ≤ 2 ^ s := by
    calc 2 = 2 ^ 1 := rfl
      _ ≤ 2 ^ s := Nat.pow_le_pow_right (by decide) hs1
  have hxr := S_repS hw hn hx
  unfold I.cbrt
  rw [isNegative_eq_decide hw hn hx]
  by_cases hneg : S (2 ^ s) x < 0
  · simp only [hneg, decide_true, if_true]
    obtain ⟨ua1, ua2⟩ := II.unsignedAbs_spec hw2 hn hx
    obtain ⟨out, h1, h2, h3⟩ := U.cbrt_spec hs1 hs hn ua1 dbg
    rw [ua2] at h3
    rw [h1]; dsimp only [Outcome.bind]
    have hos := root_signed hs1 hn (by decide) h2 h3 (by unfold repS at hxr; omega) (by omega)
    have hor := S_repS hw hn h2
    rw [hos] at hor
    obtain ⟨r, hr1, hr2, hr3⟩ := iOpNeg_ok hw2 hn h2 (by rw [hos]; unfold repS at *; omega) dbg
    exact ⟨r, hr1, hr2, neg_root hs1 hn (by decide) hx hneg h2 h3 hr3⟩
  · simp only [hneg, decide_false, Bool.false_eq_true, if_false]
    obtain ⟨r, h1, h2, h3⟩ := U.cbrt_spec hs1 hs hn hx dbg
    have hxs := S_of_nonneg hx (by omega)
    have hrs := root_signed hs1 hn (by decide) h2 h3 (by unfold repS at hxr; omega) (by omega)
    refine ⟨r, h1, h2, ?_, by omega, by omega⟩
    rw [hrs, hxs]; simpa using h3

/-- `Roots::nth_root(d)` for `BInt`, every degree `d ≤ u32::MAX`: panics for `d = 0` and for a
    negative radicand with even `d`; otherwise the truncated principal root, sign preserved -/
theorem I.nthRoot_spec (hs1 : 1 ≤ s) (hs : s < 32) (hn : 1 ≤ n) (hx : WF (2 ^ s) n x) {d : Nat}
    (hd32 : d < 2 ^ 32) (dbg : Bool) :
    (d = 0 → I.nthRoot dbg (2 ^ s) x d = .panic) ∧
    (S (2 ^ s) x < 0 → d % 2 = 0 → I.nthRoot dbg (2 ^ s) x d = .panic) ∧
    (1 ≤ d → (0 ≤ S (2 ^ s) x ∨ d % 2 = 1) →
      ∃ r, I.nthRoot dbg (2 ^ s) x d = .ok r ∧ WF (2 ^ s) n r ∧
        IsRootZ d (S (2 ^ s) x) (S (2 ^ s) r)) := by
  have hw : 1 ≤ 2 ^ s := Nat.two_pow_pos s
  have hw2 : 2 ≤ 2 ^ s := by
    calc 2 = 2 ^ 1 := rfl
      _ ≤ 2 ^ s := Nat.pow_le_pow_right (by decide) hs1
  have hxr := S_repS hw hn hx
  unfold I.nthRoot
  rw [isNegative_eq_decide hw hn hx]
  by_cases hneg : S (2 ^ s) x < 0
  · simp only [hneg, decide_true, if_true]
    refine ⟨fun h => by simp [h], fun _ h => ?_, fun hd hodd => ?_⟩
    · by_cases h0 : d = 0
      · simp [h0]
      · have h1 : d ≠ 1 := by omega
        simp [h0, h1, h]
    · have hodd' : d % 2 = 1 := by omega
      by_cases h1 : d = 1
      · subst h1
        refine ⟨x, by simp, hx, IsRoot.one _, by omega, by omega⟩
      · have h0 : d ≠ 0 := by omega
        simp only [beq_iff_eq, h0, h1, hodd', if_false, show ¬ (1 = 0) by decide]
        obtain ⟨ua1, ua2⟩ := II.unsignedAbs_spec hw2 hn hx
        obtain ⟨out, e1, e2, e3⟩ := U.nthRoot_spec hs1 hs hn ua1 hd hd32 dbg
        rw [ua2] at e3
        rw [e1]; simp only [Outcome.map]
        have hos := root_signed hs1 hn hd e2 e3 (by unfold repS at hxr; omega) (by omega)
        have hor := S_repS hw hn e2
        rw [hos] at hor
        obtain ⟨g1, g2⟩ := (II.overflowingNeg_spec hw2 hn e2).wrapping
        refine ⟨_, rfl, g1, neg_root hs1 hn (by omega) hx hneg e2 e3 ?_⟩
        unfold II.wrappingNeg
        rw [g2, wrapS_of_rep (M_pos _ _) (by rw [hos]; unfold repS at *; omega)]
  · simp only [hneg, decide_false, Bool.false_eq_true, if_false]
    refine ⟨fun h => by rw [h]; rfl, fun h => h.elim, fun hd _ => ?_⟩
    obtain ⟨r, h1, h2, h3⟩ := U.nthRoot_spec hs1 hs hn hx hd hd32 dbg
    have hxs := S_of_nonneg hx (by omega)
    have hrs := root_signed hs1 hn hd h2 h3 (by unfold repS at hxr; omega)
      (by unfold repS at hxr; omega)
    refine ⟨r, h1, h2, ?_, by omega, by omega⟩
    rw [hrs, hxs]; simpa using h3

end sroot


/-! ### the Spec functions of `Spec/NumTraits.lean` are what they claim to be -/

theorem spec_powLe_eq (b e x : Nat) : Spec.NumT.powLe b e x = decide (b ^ e ≤ x) := by
  unfold Spec.NumT.powLe
  by_cases hb : b ≤ 1
  · rw [if_pos hb]
    rcases Nat.eq_zero_or_pos e with rfl | he
    · simp
    · rw [if_neg (by omega)]
      rcases Nat.le_one_iff_eq_zero_or_eq_one.mp hb with rfl | rfl
      · rw [Nat.zero_pow he]
      · simp
  · rw [if_neg hb]
    by_cases he : e > Spec.bitLen x
    · rw [if_pos he]
      have h1 := lt_two_pow_bitLen x
      have h2 : 2 ^ Spec.bitLen x ≤ 2 ^ e := Nat.pow_le_pow_right (by decide) (by omega)
      have h3 : 2 ^ e ≤ b ^ e := Nat.pow_le_pow_left (by omega) e
      symm; simp only [decide_eq_false_iff_not]; omega
    · rw [if_neg he]

theorem bisect_spec (k x : Nat) : ∀ (f lo hi : Nat), lo < hi → hi - lo ≤ 2 ^ f →
    lo ^ k ≤ x → x < hi ^ k → IsRoot k x (Spec.NumT.bisect k x f lo hi)
  | 0, lo, hi, h1, h2, h3, h4 => by
    unfold Spec.NumT.bisect
    have : hi = lo + 1 := by simp at h2; omega
    subst this; exact ⟨h3, h4⟩
  | f + 1, lo, hi, h1, h2, h3, h4 => by
    unfold Spec.NumT.bisect
    by_cases hc : hi ≤ lo + 1
    · rw [if_pos hc]
      have : hi = lo + 1 := by omega
      subst this; exact ⟨h3, h4⟩
    · rw [if_neg hc]; dsimp only
      rw [spec_powLe_eq]
      rw [Nat.pow_succ] at h2
      by_cases hm : ((lo + hi) / 2) ^ k ≤ x
      · simp only [hm, decide_true, if_true]
        exact bisect_spec k x f _ hi (by omega) (by omega) hm h4
      · simp only [hm, decide_false, Bool.false_eq_true, if_false]
        exact bisect_spec k x f lo _ (by omega) (by omega) h3 (by omega)

/-- `Spec.NumT.iroot` is the integer root -/
theorem spec_iroot (k x : Nat) (hk : 1 ≤ k) : IsRoot k x (Spec.NumT.iroot k x) := by
  unfold Spec.NumT.iroot
  obtain ⟨j, rfl⟩ : ∃ j, k = j + 1 := ⟨k - 1, by omega⟩
  apply bisect_spec
  · exact Nat.two_pow_pos _
  · rw [Nat.pow_succ (n := 2) (m := Spec.bitLen x / (j + 1) + 1)]
    have := Nat.two_pow_pos (Spec.bitLen x / (j + 1) + 1); omega
  · rw [Nat.zero_pow (by omega)]; omega
  · exact guess_gt (k := j) (lt_two_pow_bitLen x)

/-- `Spec.NumT.rootInt` is the truncated principal root of an integer -/
theorem spec_rootInt (k : Nat) (z : Int) (hk : 1 ≤ k) : IsRootZ k z (Spec.NumT.rootInt k z) := by
  unfold Spec.NumT.rootInt
  have h := spec_iroot k z.natAbs hk
  by_cases hz : z < 0
  · rw [if_pos hz]; exact ⟨by simpa using h, by omega, by omega⟩
  · rw [if_neg hz]; exact ⟨by simpa using h, by omega, by omega⟩

/-- two integers that are both the truncated principal root coincide -/
theorem IsRootZ.unique {k : Nat} {z r r' : Int} (h : IsRootZ k z r) (h' : IsRootZ k z r') :
    r = r' := by
  have e := h.1.unique h'.1
  obtain ⟨-, a1, a2⟩ := h
  obtain ⟨-, b1, b2⟩ := h'
  by_cases hz : z < 0
  · have := a2 hz; have := b2 hz; omega
  · have := a1 (by omega); have := b1 (by omega); omega



/-! ## §6 panics of the signed division family, `abs_sub`, `mul_add` -/
section spanic
variable {w n : Nat} {a b : List Nat}

/-- a zero divisor panics in every signed division-like trait method -/
theorem I.div_by_zero (hb : WF w n b) (hb0 : S w b = 0) (dbg : Bool) :
    I.divRem dbg w a b = .panic ∧ I.divFloor dbg w a b = .panic ∧ I.modFloor dbg w a b = .panic ∧
    I.divModFloor dbg w a b = .panic ∧ I.isMultipleOf dbg w a b = .panic := by
  have hz : isZero b = true := (II.isZero_iff_S hb).mpr hb0
  have h1 : II.div dbg w a b = .panic := by
    unfold II.div; dsimp only; split <;> rfl
  have h2 : II.rem dbg w a b = .panic := by
    unfold II.rem; dsimp only; split <;> rfl
  have h3 : I.divRem dbg w a b = .panic := by unfold I.divRem; rw [h1]; rfl
  have h4 : I.divFloor dbg w a b = .panic := by unfold I.divFloor; rw [h3]; rfl
  have h5 : I.modFloor dbg w a b = .panic := by unfold I.modFloor; rw [h2]; rfl
  refine ⟨h3, h4, h5, ?_, ?_⟩
  · unfold I.divModFloor; rw [h4]; rfl
  · unfold I.isMultipleOf; rw [h5]; rfl

/-- `MIN / -1`: the quotient is not representable; every method of the family panics
    ("attempt to divide with overflow"), exactly like the primitive integers -/
theorem I.min_neg_one (hw : 1 ≤ w) (hn : 1 ≤ n) (ha : WF w n a) (hb : WF w n b)
    (hov : S w a = -((M w n / 2 : Nat) : Int) ∧ S w b = -1) (dbg : Bool) :
    I.divRem dbg w a b = .panic ∧ I.divFloor dbg w a b = .panic ∧ I.modFloor dbg w a b = .panic := by
  have hg := (II.ovfGuard_iff hw hn ha hb).mpr hov
  have h1 : II.div dbg w a b = .panic := by
    unfold II.div; rw [ha.1]; dsimp only; rw [if_pos hg]
  have h2 : II.rem dbg w a b = .panic := by
    unfold II.rem; rw [ha.1]; dsimp only; rw [if_pos hg]
  have h3 : I.divRem dbg w a b = .panic := by unfold I.divRem; rw [h1]; rfl
  exact ⟨h3, by unfold I.divFloor; rw [h3]; rfl, by unfold I.modFloor; rw [h2]; rfl⟩

theorem opLe_eq (hw : 1 ≤ w) (hn : 1 ≤ n) (ha : WF w n a) (hb : WF w n b) :
    Traits.opLe (II.cmp w) a b = decide (S w a ≤ S w b) := by
  unfold Traits.opLe Traits.partialCmp
  rw [II.cmp_spec hw hn ha hb]
  rcases Int.lt_trichotomy (S w a) (S w b) with h | h | h
  · rw [Int.compare_eq_lt.mpr h]; simp; omega
  · rw [Int.compare_eq_eq.mpr h]; simp [h]
  · rw [Int.compare_eq_gt.mpr h]; simp; omega

/-- `Signed::abs_sub`: the positive difference (`0` when `self ≤ other`) -/
theorem I.absSub_spec (hw : 2 ≤ w) (hn : 1 ≤ n) (ha : WF w n a) (hb : WF w n b) (dbg : Bool) :
    (S w a ≤ S w b → I.absSub dbg w a b = .ok (zero n)) ∧
    (S w b < S w a → repS (M w n) (S w a - S w b) →
      ∃ r, I.absSub dbg w a b = .ok r ∧ WF w n r ∧ S w r = S w a - S w b) := by
  unfold I.absSub
  rw [opLe_eq (by omega) hn ha hb, ha.1]
  constructor
  · intro h; simp [h]
  · intro h hrep
    simp only [show ¬ S w a ≤ S w b by omega, decide_false, Bool.false_eq_true, if_false]
    exact iOpSub_ok hw hn ha hb hrep dbg

/-- `MulAdd::mul_add` for `BUint`: `self * a + b` when nothing overflows -/
theorem U.mulAdd_spec {x c : List Nat} (hx : WF w n x) (ha : WF w n a) (hc : WF w n c)
    (hrep : U w x * U w a + U w c < M w n) (dbg : Bool) :
    ∃ r, U.mulAdd dbg w x a c = .ok r ∧ WF w n r ∧ U w r = U w x * U w a + U w c := by
  unfold U.mulAdd
  obtain ⟨p, h1, h2, h3⟩ := uMul_ok hx ha (by omega) dbg
  rw [h1]; dsimp only [Outcome.bind]
  obtain ⟨r, g1, g2, g3⟩ := uAdd_ok h2 hc (by omega) dbg
  exact ⟨r, g1, g2, by rw [g3, h3]⟩

/-- `MulAdd::mul_add` for `BInt` -/
theorem I.mulAdd_spec {x c : List Nat} (hw : 2 ≤ w) (hn : 1 ≤ n) (hx : WF w n x) (ha : WF w n a)
    (hc : WF w n c) (hrep1 : repS (M w n) (S w x * S w a))
    (hrep2 : repS (M w n) (S w x * S w a + S w c)) (dbg : Bool) :
    ∃ r, I.mulAdd dbg w x a c = .ok r ∧ WF w n r ∧ S w r = S w x * S w a + S w c := by
  unfold I.mulAdd
  obtain ⟨p, h1, h2, h3⟩ := iMul_ok hw hn hx ha hrep1 dbg
  rw [h1]; dsimp only [Outcome.bind]
  obtain ⟨r, g1, g2, g3⟩ := iOpAdd_ok hw hn h2 hc (by rw [h3]; exact hrep2) dbg
  exact ⟨r, g1, g2, by rw [g3, h3]⟩

end spanic


/-- the floor remainder takes the divisor's sign and is smaller in magnitude -/
theorem fmod_sign (a b : Int) (hb : b ≠ 0) :
    (0 < b → 0 ≤ a.fmod b ∧ a.fmod b < b) ∧ (b < 0 → b < a.fmod b ∧ a.fmod b ≤ 0) := by
  have h := fmod_of_tmod a b hb
  obtain ⟨-, f2, -, -, -, -⟩ := tdiv_facts a b hb
  rw [h]
  constructor <;> intro hb' <;> split_ifs <;> omega

/-- floor division and floor remainder recompose the dividend -/
theorem fdiv_fmod (a b : Int) : b * a.fdiv b + a.fmod b = a := Int.mul_fdiv_add_fmod a b


end NumT
end Bnum
