/-
  Bnum.Lemmas.NumTraits — lemmas for C18 (`num_integer` / `num_traits` implementations).
  All helper names live in `Bnum.NumT`.
    §1 pure arithmetic: trailing zeros, Bernoulli / AM–GM in integer form, the Newton step
    §2 the operators used inside the trait bodies when no overflow happens
    §3 binary gcd, lcm
    §4 signed floor division
    §5 integer roots: `to_u128` shortcut, `fixpoint`, `sqrt`, `cbrt`, `nth_root`
-/
import Bnum.Lemmas.KnuthD
import Bnum.Lemmas.Bits
import Bnum.Lemmas.Shift
import Bnum.Lemmas.Cmp
import Bnum.Lemmas.Mul
import Bnum.Lemmas.Cast
import Bnum.Spec.NumTraits
import Bnum.Model.NumTraits
namespace Bnum
namespace NumT
open DivL Bits

theorem tz_odd : ∀ (W v : Nat), v ≠ 0 → v < 2 ^ W →
    Spec.trailingZeros W v < W ∧
    v = 2 ^ Spec.trailingZeros W v * (v / 2 ^ Spec.trailingZeros W v) ∧
    (v / 2 ^ Spec.trailingZeros W v) % 2 = 1
  | 0, v, h0, hv => by simp at hv; omega
  | W + 1, v, h0, hv => by
    simp only [Spec.trailingZeros]
    by_cases hodd : v % 2 = 1
    · simp [hodd]
    · simp only [hodd, if_false]
      have hv2 : v / 2 < 2 ^ W := by rw [Nat.pow_succ] at hv; omega
      obtain ⟨h1, h2, h3⟩ := tz_odd W (v / 2) (by omega) hv2
      generalize Spec.trailingZeros W (v / 2) = t at *
      have e : v / 2 ^ (1 + t) = v / 2 / 2 ^ t := by
        rw [Nat.add_comm, Nat.pow_succ, Nat.mul_comm, Nat.div_div_eq_div_mul]
      refine ⟨by omega, ?_, by rw [e]; exact h3⟩
      rw [e, Nat.add_comm, Nat.pow_succ, Nat.mul_comm (2 ^ t) 2, Nat.mul_assoc, ← h2]; omega

/-- `(z^n - s^n)(z - s) ≥ 0` in subtraction-free form -/
theorem pow_rearrange (z s n : Nat) : z ^ n * s + z * s ^ n ≤ z ^ (n + 1) + s ^ (n + 1) := by
  rw [Nat.pow_succ, Nat.pow_succ]
  rcases Nat.le_total z s with h | h
  · have hp := Nat.pow_le_pow_left h n
    obtain ⟨d, rfl⟩ := Nat.exists_eq_add_of_le h
    obtain ⟨e, he⟩ := Nat.exists_eq_add_of_le hp
    rw [he]; nlinarith [Nat.zero_le (d * e)]
  · have hp := Nat.pow_le_pow_left h n
    obtain ⟨d, rfl⟩ := Nat.exists_eq_add_of_le h
    obtain ⟨e, he⟩ := Nat.exists_eq_add_of_le hp
    rw [he]; nlinarith [Nat.zero_le (d * e)]

/-- Bernoulli / weighted AM–GM, integer form: `n·z·s^(n-1) ≤ z^n + (n-1)·s^n` -/
theorem bernoulli (z s : Nat) : ∀ n : Nat, (n + 1) * z * s ^ n ≤ z ^ (n + 1) + n * s ^ (n + 1)
  | 0 => by simp
  | n + 1 => by
    have ih := bernoulli z s n
    have hr := pow_rearrange z s (n + 1)
    have e0 : z ^ (n + 1 + 1) = z ^ (n + 1) * z := Nat.pow_succ ..
    have e1 : s ^ (n + 1 + 1) = s ^ (n + 1) * s := Nat.pow_succ ..
    have e2 : s ^ (n + 1) = s ^ n * s := Nat.pow_succ ..
    have h3 : s * ((n + 1) * z * s ^ n) ≤ s * (z ^ (n + 1) + n * s ^ (n + 1)) :=
      Nat.mul_le_mul_left s ih
    have h4 : s * ((n + 1) * z * s ^ n) = (n + 1) * z * s ^ (n + 1) := by rw [e2]; ring
    rw [h4] at h3
    rw [e0, e1] at hr ⊢
    generalize z ^ (n + 1) = P at *
    generalize s ^ (n + 1) = Q at *
    nlinarith [h3, hr]

/-- if `n·z ≥ (n-1)·s + t` then `t·s^(n-1) ≤ z^n` -/
theorem amgm (z s t n : Nat) (h : n * s + t ≤ (n + 1) * z) : t * s ^ n ≤ z ^ (n + 1) := by
  have hb := bernoulli z s n
  have h2 : (n * s + t) * s ^ n ≤ (n + 1) * z * s ^ n := Nat.mul_le_mul_right _ h
  have e : (n * s + t) * s ^ n = n * s ^ (n + 1) + t * s ^ n := by rw [Nat.pow_succ]; ring
  omega

/-- one Newton step for the `(k+1)`-th root on naturals -/
def newton (k x s : Nat) : Nat := (k * s + x / s ^ k) / (k + 1)

/-- the Newton step never drops below the root: `x < (newton + 1)^(k+1)` -/
theorem newton_ge (k x s : Nat) (hs : 0 < s) : x < (newton k x s + 1) ^ (k + 1) := by
  unfold newton
  have hp : 0 < s ^ k := Nat.pow_pos hs
  have h1 : x < (x / s ^ k + 1) * s ^ k :=
    (Nat.div_lt_iff_lt_mul hp).mp (Nat.lt_succ_self _)
  generalize x / s ^ k = q at *
  have hk : 0 < k + 1 := Nat.succ_pos k
  have h := (Nat.div_lt_iff_lt_mul hk).mp (Nat.lt_succ_self ((k * s + q) / (k + 1)))
  generalize (k * s + q) / (k + 1) = y at *
  have h2 : k * s + (q + 1) ≤ (k + 1) * (y + 1) := by
    have e : (y + 1) * (k + 1) = (k + 1) * (y + 1) := Nat.mul_comm _ _
    have e' : y.succ = y + 1 := rfl
    rw [e'] at h
    omega
  exact Nat.lt_of_lt_of_le h1 (amgm (y + 1) s (q + 1) k h2)

/-- above the root the step strictly decreases -/
theorem newton_lt (k x s : Nat) (hs : 0 < s) (h : x < s ^ (k + 1)) : newton k x s < s := by
  unfold newton
  have hp : 0 < s ^ k := Nat.pow_pos hs
  have hq : x / s ^ k < s := by
    rw [Nat.div_lt_iff_lt_mul hp, ← Nat.pow_succ']; rwa [Nat.pow_succ'] at h ⊢
  rw [Nat.div_lt_iff_lt_mul (Nat.succ_pos k)]
  nlinarith

/-- at or below the root the step does not decrease -/
theorem newton_ge_self (k x s : Nat) (hs : 0 < s) (h : s ^ (k + 1) ≤ x) : s ≤ newton k x s := by
  unfold newton
  have hp : 0 < s ^ k := Nat.pow_pos hs
  have hq : s ≤ x / s ^ k := by
    rw [Nat.le_div_iff_mul_le hp, ← Nat.pow_succ']; exact h
  rw [Nat.le_div_iff_mul_le (Nat.succ_pos k)]
  nlinarith


section ops
variable {w n : Nat} {a b : List Nat}

theorem uAdd_ok (ha : WF w n a) (hb : WF w n b) (h : U w a + U w b < M w n) (dbg : Bool) :
    ∃ r, UI.add dbg w a b = .ok r ∧ WF w n r ∧ U w r = U w a + U w b :=
  uOpAdd_ok ha hb h dbg

theorem uSub_ok (ha : WF w n a) (hb : WF w n b) (h : U w b ≤ U w a) (dbg : Bool) :
    ∃ r, UI.sub dbg w a b = .ok r ∧ WF w n r ∧ U w r = U w a - U w b :=
  uOpSub_ok ha hb h dbg

theorem uMul_ok (ha : WF w n a) (hb : WF w n b) (h : U w a * U w b < M w n) (dbg : Bool) :
    ∃ r, UI.mul w dbg a b = .ok r ∧ WF w n r ∧ U w r = U w a * U w b := by
  obtain ⟨h1, h2⟩ := UI.mul_spec ha hb dbg
  have hrep : repU (M w n) ((U w a : Int) * U w b) := ⟨by positivity, by exact_mod_cast h⟩
  cases hm : UI.mul w dbg a b with
  | panic => exact absurd hrep (h1.mp hm).2
  | ok r =>
    obtain ⟨g1, g2, -⟩ := h2 r hm
    refine ⟨r, rfl, g1, ?_⟩
    rw [wrapU_of_rep hrep] at g2; exact_mod_cast g2

theorem opLt_eq (ha : WF w n a) (hb : WF w n b) :
    Traits.opLt UI.cmp a b = decide (U w a < U w b) := by
  unfold Traits.opLt Traits.partialCmp
  rw [UI.cmp_spec ha hb]
  rcases Nat.lt_trichotomy (U w a) (U w b) with h | h | h
  · rw [Nat.compare_eq_lt.mpr h]; simp [h]
  · rw [Nat.compare_eq_eq.mpr h]; simp [h]
  · rw [Nat.compare_eq_gt.mpr h]; simp; omega

theorem opGt_eq (ha : WF w n a) (hb : WF w n b) :
    Traits.opGt UI.cmp a b = decide (U w b < U w a) := by
  unfold Traits.opGt Traits.partialCmp
  rw [UI.cmp_spec ha hb]
  rcases Nat.lt_trichotomy (U w a) (U w b) with h | h | h
  · rw [Nat.compare_eq_lt.mpr h]; simp; omega
  · rw [Nat.compare_eq_eq.mpr h]; simp [h]
  · rw [Nat.compare_eq_gt.mpr h]; simp [h]

theorem isZero_eq (a : List Nat) : isZero a = decide (U w a = 0) :=
  bool_eq_decide (DivL.isZero_iff_U a)

/-- `x >> x.trailing_zeros()` of a non-zero `x` -/
theorem shr_tz (hw : 1 ≤ w) (ha : WF w n a) (h0 : U w a ≠ 0) :
    UI.trailingZeros w a < w * n ∧
    WF w n (UI.uncheckedShrInternal w a (UI.trailingZeros w a)) ∧
    U w a = 2 ^ UI.trailingZeros w a * U w (UI.uncheckedShrInternal w a (UI.trailingZeros w a)) ∧
    U w (UI.uncheckedShrInternal w a (UI.trailingZeros w a)) % 2 = 1 := by
  rw [trailingZeros_spec ha]
  obtain ⟨h1, h2, h3⟩ := tz_odd (w * n) (U w a) h0 (U_lt ha)
  obtain ⟨g1, g2⟩ := UI.uncheckedShrInternal_spec (by omega) ha h1
  rw [g2]
  exact ⟨h1, g1, h2, h3⟩
end ops
end NumT
end Bnum
