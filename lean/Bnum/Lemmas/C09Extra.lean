/-
  Bnum.Lemmas.C09Extra — lemmas for the additional C09 theorems: primitive → primitive casts
  (`castPrim_spec`), value preservation of bnum ↔ primitive casts, and the sign of a reinterpreted
  pattern (`isNegative_pattern`).
-/
import Bnum.Model.C09Extra
import Bnum.Lemmas.Cast
namespace Bnum.C09X
open Bnum

theorem B_le_B {a b : Nat} (h : a ≤ b) : B a ≤ B b := Nat.pow_le_pow_right (by decide) h

/-- Rust's primitive `as` (the trusted leaf `PInt.cast`) is "value modulo `2^(target BITS)`" -/
theorem pcast_spec {k₁ k₂ p : Nat} (s₁ : Bool) (hp : p < B k₁) :
    PInt.cast k₁ s₁ k₂ p = wrapU (B k₂) (PInt.val ⟨k₁, s₁⟩ p) := by
  unfold PInt.cast PInt.val
  by_cases hle : k₂ ≤ k₁
  · simp only [hle, if_true]
    cases s₁
    · simp only [Bool.false_eq_true, if_false]; rw [wrapU_natCast]
    · simp only [if_true]; rw [wrapU_toInt_dvd (B_pos k₂) (B_dvd_B hle)]
  · simp only [hle, if_false]
    have hlt : B k₁ ≤ B k₂ := B_le_B (by omega)
    cases s₁
    · simp only [Bool.false_and, Bool.false_eq_true, if_false]
      rw [wrapU_natCast, Nat.mod_eq_of_lt (by omega)]
    · simp only [Bool.true_and, decide_eq_true_eq, if_true]
      rw [wrapU_toInt_le hp hlt]
      by_cases h : B k₁ ≤ 2 * p
      · rw [if_pos h, if_neg (by omega)]; omega
      · rw [if_neg h, if_pos (by omega)]

theorem pcast_lt {k₁ k₂ p : Nat} (s₁ : Bool) (hp : p < B k₁) : PInt.cast k₁ s₁ k₂ p < B k₂ := by
  rw [pcast_spec s₁ hp]
  unfold wrapU
  have h1 := Int.emod_nonneg (PInt.val ⟨k₁, s₁⟩ p) (show ((B k₂ : Nat) : Int) ≠ 0 by have := B_pos k₂; omega)
  have h2 := Int.emod_lt_of_pos (PInt.val ⟨k₁, s₁⟩ p) (show (0 : Int) < (B k₂ : Nat) by have := B_pos k₂; omega)
  omega

/-- a pattern `wrapU m z` read back in a type of modulus `m` denotes `z` whenever `z` is representable -/
theorem pval_wrapU {t : PTy} {z : Int} (hrep : repOf t.signed (B t.bits) z) :
    PInt.val t (wrapU (B t.bits) z) = z := by
  unfold PInt.val repOf at *
  cases h : t.signed
  · rw [h] at hrep
    simp only [Bool.false_eq_true, if_false] at hrep ⊢
    exact wrapU_of_rep hrep
  · rw [h] at hrep
    simp only [if_true] at hrep ⊢
    exact wrapS_of_rep (B_pos _) hrep

/-- `is_negative` of a `BInt` holding the pattern `u`: bit `BITS - 1` of `u` -/
theorem isNegative_pattern {w n : Nat} {x : List Nat} (hw : 1 ≤ w) (hn : 1 ≤ n) (hx : WF w n x) :
    isNegative w x = decide (M w n ≤ 2 * U w x) := by
  rw [isNegative_eq_decide hw hn hx, S_eq hx]
  have hu := U_lt hx
  unfold toInt
  by_cases h : 2 * U w x < M w n
  · rw [if_pos h]
    have h1 : ¬ ((U w x : Int) < 0) := by omega
    have h2 : ¬ (M w n ≤ 2 * U w x) := by omega
    simp [h1, h2]
  · rw [if_neg h]
    have h1 : ((U w x : Int) - (M w n : Int) < 0) := by omega
    have h2 : (M w n ≤ 2 * U w x) := by omega
    simp [h1, h2]

end Bnum.C09X
