/-
  Bnum.Lemmas.NumConvD — REFINEMENT of the value-level float conversions of C19 by the digit-level
  ones of Model/NumConvD.lean (namespace `Bnum.NumCD`).
    * `floatFromBUint_refines`, `floatFromBInt_refines`: the digit-level `CastFrom<BUint<N>/BInt<N>>
      for f32/f64` (`FltD.*`, Model/FloatD.lean: `bits`, `bit`, `>>`, `trailing_zeros`,
      `Mantissa::cast_from`, `unsigned_abs`, `is_negative` on digit lists) return the SAME
      `Outcome Nat` as the value-level `Flt.*` on `U w x`, for every `w = 2^s` (`s < 32`; `1 ≤ s` for
      the signed one), every `n`, both build modes.  Proved in Lemmas/FloatD.lean (`FltD.*_refines`);
      re-exported here.
    * `asFloat_refines`, `toFloat_refines`: hence `NumCD.asFloat = NumC.asFloat`,
      `NumCD.toFloat = NumC.toFloat` under `WF`.
    * `asFloat_spec`, `toFloat_spec`: the digit-level functions return the nearest float.
    * `fromFloat_eq`: `from_float!` was digit-level already (`rfl`); `fromFloat_matches` restated.
-/
import Bnum.Model.NumConvD
import Bnum.Lemmas.NumConv
import Bnum.Lemmas.FloatD
namespace Bnum
namespace NumCD
open Arr Flt

/-- lean-c14's refinement theorems (Lemmas/FloatD.lean), under this namespace's names -/
theorem floatFromBUint_refines {F : FloatFmt} (hp : 1 ≤ F.p) {s n : Nat} (hs : s < 32) (dbg : Bool)
    {a : List Nat} (ha : WF (2 ^ s) n a) :
    FltD.floatFromBUint F dbg (2 ^ s) a = Flt.floatFromBUint F (2 ^ s * n) dbg (U (2 ^ s) a) :=
  FltD.floatFromBUint_refines hp hs dbg ha

theorem floatFromBInt_refines {F : FloatFmt} (hp : 1 ≤ F.p) {s n : Nat} (hs1 : 1 ≤ s) (hs : s < 32)
    (hn : 1 ≤ n) (dbg : Bool) {a : List Nat} (ha : WF (2 ^ s) n a) :
    FltD.floatFromBInt F dbg (2 ^ s) a = Flt.floatFromBInt F (2 ^ s * n) dbg (U (2 ^ s) a) :=
  FltD.floatFromBInt_refines hp hs1 hs hn dbg ha

/-! ### C19 entry points -/

/-- `AsPrimitive<f32/f64>::as_`: digit level = value level -/
theorem asFloat_refines {F : FloatFmt} (hp : 1 ≤ F.p) {s n : Nat} (hs1 : 1 ≤ s) (hs : s < 32)
    (hn : 1 ≤ n) (dbg : Bool) (sg : Bool) {x : List Nat} (hx : WF (2 ^ s) n x) :
    asFloat dbg F (2 ^ s) sg x = NumC.asFloat dbg F (2 ^ s) sg x := by
  unfold asFloat NumC.asFloat
  rw [hx.1]
  cases sg
  · exact floatFromBUint_refines hp hs dbg hx
  · exact floatFromBInt_refines hp hs1 hs hn dbg hx

/-- `to_f32` / `to_f64`: digit level = value level -/
theorem toFloat_refines {F : FloatFmt} (hp : 1 ≤ F.p) {s n : Nat} (hs1 : 1 ≤ s) (hs : s < 32)
    (hn : 1 ≤ n) (dbg : Bool) (sg : Bool) {x : List Nat} (hx : WF (2 ^ s) n x) :
    toFloat dbg F (2 ^ s) sg x = NumC.toFloat dbg F (2 ^ s) sg x := by
  unfold toFloat
  rw [asFloat_refines hp hs1 hs hn dbg sg hx, NumC.toFloat_eq_as]

theorem two_pow_pos' (s : Nat) : 1 ≤ 2 ^ s := Nat.two_pow_pos s

/-- digit-level `as_` into a float: the float nearest to the value, never panics -/
theorem asFloat_spec {F : FloatFmt} (hF : F.Valid) {s n : Nat} (hs1 : 1 ≤ s) (hs : s < 32)
    (hn : 1 ≤ n) (dbg : Bool) (sg : Bool) {x : List Nat} (hx : WF (2 ^ s) n x) :
    asFloat dbg F (2 ^ s) sg x = .ok (Spec.intToFloat F.spec (valOf sg (2 ^ s) x)) := by
  rw [asFloat_refines (by have := hF.hp; omega) hs1 hs hn dbg sg hx]
  exact NumC.asFloat_spec hF sg (two_pow_pos' s) hn dbg hx

/-- digit-level `to_f32` / `to_f64`: always `Some` of the nearest float -/
theorem toFloat_spec {F : FloatFmt} (hF : F.Valid) {s n : Nat} (hs1 : 1 ≤ s) (hs : s < 32)
    (hn : 1 ≤ n) (dbg : Bool) (sg : Bool) {x : List Nat} (hx : WF (2 ^ s) n x) :
    toFloat dbg F (2 ^ s) sg x = .ok (some (Spec.intToFloat F.spec (valOf sg (2 ^ s) x))) := by
  rw [toFloat_refines (by have := hF.hp; omega) hs1 hs hn dbg sg hx]
  exact NumC.toFloat_spec hF sg (two_pow_pos' s) hn dbg hx

/-- `from_float!` was modelled on digit lists from the start -/
theorem fromFloat_eq (dbg : Bool) (F : FloatFmt) (w n : Nat) (s : Bool) (f : Nat) :
    fromFloat dbg F w n s f = NumC.fromFloat dbg F w n s f := rfl

theorem fromFloat_matches {F : FloatFmt} (hF : F.Valid) {w n : Nat} (hw : 2 ≤ w) (hn : 1 ≤ n)
    (dbg : Bool) (s : Bool) {x : Nat} (hx : x < 2 ^ F.bits) :
    NumC.FloatOk w n (fromFloat dbg F w n s x) (Spec.NumC.fromFloat F.spec s (M w n) x) :=
  NumC.fromFloat_matches hF hw hn dbg s hx

end NumCD
end Bnum
