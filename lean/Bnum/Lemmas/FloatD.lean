import Bnum.Lemmas.Float
import Bnum.Lemmas.Bits
import Bnum.Lemmas.Shift
import Bnum.Lemmas.Cast
import Bnum.Lemmas.Ops
import Bnum.Model.FloatD
/-
  Bnum.Lemmas.FloatD — REFINEMENT of the value-level float-cast model (Model/Float.lean, `Flt.*`) by
  the digit-level model (Model/FloatD.lean, `FltD.*`), property C14.  All names are `FltD.*`.
    integer → float (digit width `w = 2^s`, `s < 32`, because `BUint::bit` indexes with
    `index >> BIT_SHIFT` / `index & (BITS-1)`):
      `castFloatFromUintD_refines`, `floatFromBUint_refines`  : same `Outcome`, same bit pattern as the
          value-level function on `U w a`;
      `floatFromBInt_refines` (`w ≥ 2`, `n ≥ 1`).
    float → integer (every `w ≥ 1` resp. `w ≥ 2`, `n ≥ 1`, both build modes): `RefOk w n o v` =
      "`o = .ok r`, `WF w n r`, `U w r = v`":
      `castUintFromFloatD_refines`, `buintFromFloat_refines`, `bintFromFloat_refines`
      (+ `bintFromFloat_refines_S`: the signed value).
  Uses the digit-level specifications of C05 (`UI.shr_of_lt`, `UI.shl_of_lt`, `unchecked_sh*_internal_spec`),
  C06 (`Bits.bits_spec`, `Bits.bit_spec`, `Bits.trailingZeros_spec`), C09 (`UI.castToPrim_eq`,
  `UI.castFromPrim_spec`), C01/C07 (`II.unsignedAbs_spec`, `II.overflowingNeg_spec`, `UI.cmp_spec`).
-/
namespace Bnum
namespace FltD
open Flt Spec

/-! ### integer → float -/

theorem bitLen_eq (v : Nat) : Spec.bitLen v = Flt.bitsOf v := rfl

theorem tzAux_eq_spec : ∀ (f v : Nat), Flt.tzAux f v = Spec.trailingZeros f v
  | 0, _ => rfl
  | f + 1, v => by
    simp only [Flt.tzAux, Spec.trailingZeros, tzAux_eq_spec f]; split <;> omega

/-- the value-level `trailing_zeros` of Model/Float.lean is the C06 specification -/
theorem trailingZeros_eq {W v : Nat} (hv : v < 2 ^ W) : Spec.trailingZeros W v = Flt.trailingZeros W v := by
  unfold Flt.trailingZeros
  by_cases h0 : v = 0
  · subst h0; simp [Bits.trailingZeros_zero]
  · simp only [h0, if_false]
    rw [← tzAux_eq_spec]
    have h1 := Flt.tzAux_spec W v h0 hv
    have h2 := Flt.tzAux_spec (bitsOf v) v h0 (Flt.lt_two_pow_size v)
    exact Flt.two_pow_dvd_unique h1.1 h1.2 h2.1 h2.2

theorem bits_eq {w n : Nat} {a : List Nat} (ha : WF w n a) : UI.bits w a = Flt.bitsOf (U w a) :=
  Bits.bits_spec ha

theorem bitsOf_le {w n : Nat} {a : List Nat} (ha : WF w n a) : Flt.bitsOf (U w a) ≤ w * n :=
  Flt.size_le_iff.2 (U_lt ha)

theorem roundMantissaD_eq {F : FloatFmt} (hp : 1 ≤ F.p) {s n : Nat} (hs : s < 32) (dbg : Bool)
    {a : List Nat} (ha : WF (2 ^ s) n a) (e : Int) :
    roundMantissaD F dbg (2 ^ s) a (bitsOf (U (2 ^ s) a)) e =
      Flt.roundMantissa F (2 ^ s * n) dbg (U (2 ^ s) a) (bitsOf (U (2 ^ s) a)) e := by
  have hw : 0 < 2 ^ s := Nat.pow_pos (by decide)
  have hle := bitsOf_le ha
  unfold roundMantissaD Flt.roundMantissa mantTy
  by_cases hc : bitsOf (U (2 ^ s) a) ≤ F.p
  · simp only [hc, if_true]
    rw [UI.castToPrim_eq ha]; rfl
  · simp only [hc, if_false]
    have hlt : bitsOf (U (2 ^ s) a) - F.p < 2 ^ s * n := by omega
    rw [Bits.bit_spec hs ha, if_pos (by omega)]
    rw [UI.shr_of_lt dbg (by rw [ha.1]; exact hlt)]
    obtain ⟨hwf, hu⟩ := UI.uncheckedShrInternal_spec hw ha hlt
    simp only [Outcome.bind]
    rw [UI.castToPrim_eq hwf, hu, Bits.trailingZeros_spec ha, trailingZeros_eq (U_lt ha),
      Nat.shiftRight_eq_div_pow]
    rfl

/-- REFINEMENT: the digit-level `cast_float_from_uint` is the value-level one on `U w a` -/
theorem castFloatFromUintD_refines {F : FloatFmt} (hp : 1 ≤ F.p) {s n : Nat} (hs : s < 32) (dbg : Bool)
    {a : List Nat} (ha : WF (2 ^ s) n a) :
    castFloatFromUintD F dbg (2 ^ s) a = Flt.castFloatFromUint F (2 ^ s * n) dbg (U (2 ^ s) a) := by
  unfold castFloatFromUintD Flt.castFloatFromUint
  rw [bits_eq ha]
  simp only [roundMantissaD_eq hp hs dbg ha]; rfl

theorem floatFromBUint_refines {F : FloatFmt} (hp : 1 ≤ F.p) {s n : Nat} (hs : s < 32) (dbg : Bool)
    {a : List Nat} (ha : WF (2 ^ s) n a) :
    floatFromBUint F dbg (2 ^ s) a = Flt.floatFromBUint F (2 ^ s * n) dbg (U (2 ^ s) a) :=
  castFloatFromUintD_refines hp hs dbg ha


/-- REFINEMENT: `CastFrom<BInt<N>> for f32/f64` on digit lists -/
theorem floatFromBInt_refines {F : FloatFmt} (hp : 1 ≤ F.p) {s n : Nat} (hs1 : 1 ≤ s) (hs : s < 32)
    (hn : 1 ≤ n) (dbg : Bool) {a : List Nat} (ha : WF (2 ^ s) n a) :
    floatFromBInt F dbg (2 ^ s) a = Flt.floatFromBInt F (2 ^ s * n) dbg (U (2 ^ s) a) := by
  have hw2 : 2 ≤ 2 ^ s := by
    calc 2 = 2 ^ 1 := rfl
      _ ≤ 2 ^ s := Nat.pow_le_pow_right (by decide) hs1
  have hW : 1 ≤ 2 ^ s * n := Nat.mul_pos (by omega) hn
  have hu : U (2 ^ s) a < 2 ^ (2 ^ s * n) := U_lt ha
  obtain ⟨g1, g2⟩ := II.unsignedAbs_spec hw2 hn ha
  obtain ⟨p1, p2⟩ := patUnsignedAbs_eq hW hu
  have hS : S (2 ^ s) a = toInt (2 ^ (2 ^ s * n)) (U (2 ^ s) a) := S_eq ha
  have hneg : isNegative (2 ^ s) a = patIsNegative (2 ^ s * n) (U (2 ^ s) a) := by
    rw [isNegative_eq_decide (by omega) hn ha, hS]
    cases h : patIsNegative (2 ^ s * n) (U (2 ^ s) a)
    · have : ¬ toInt (2 ^ (2 ^ s * n)) (U (2 ^ s) a) < 0 := fun hc => by
        have := p2.mpr hc; rw [h] at this; cases this
      simp [this]
    · simp [p2.mp h]
  unfold floatFromBInt Flt.floatFromBInt
  rw [castFloatFromUintD_refines hp hs dbg g1, g2, hS, ← p1, hneg]
  rfl

/-! ### float → integer -/

/-- shape of the float → integer refinement: no panic, well-formed digits, value `v` -/
def RefOk (w n : Nat) (o : Outcome (List Nat)) (v : Nat) : Prop := ∃ r, o = .ok r ∧ WF w n r ∧ U w r = v

theorem refOk_zero (w n : Nat) : RefOk w n (.ok (zero n)) 0 := ⟨_, rfl, WF_zero w n, U_zero w n⟩
theorem refOk_max (w n : Nat) : RefOk w n (.ok (allOnes w n)) (2 ^ (w * n) - 1) :=
  ⟨_, rfl, WF_allOnes w n, U_allOnes w n⟩

theorem castFromMant {F : FloatFmt} (hb : 1 ≤ F.bits) {w n : Nat} (hn : 1 ≤ n) {m : Nat} (hm : m < 2 ^ F.bits) :
    RefOk w n (UI.castFromPrim w n (mantTy F) m) (m % 2 ^ (w * n)) := by
  obtain ⟨r, h1, h2, h3⟩ := UI.castFromPrim_spec (w := w) (t := mantTy F) hn hb hm
  refine ⟨r, h1, h2, ?_⟩
  rw [h3]; unfold PInt.val mantTy; simp only [Bool.false_eq_true, if_false]
  rw [wrapU_natCast]; rfl

theorem shiftMantissaD_refines {F : FloatFmt} (hb : 1 ≤ F.bits) (dbg : Bool) {w n : Nat} (hw : 0 < w) (hn : 1 ≤ n)
    (exp : Int) {m : Nat} (hm : m < 2 ^ F.bits) :
    RefOk w n (shiftMantissaD F dbg w n exp m) (Flt.shiftMantissa (w * n) exp m) := by
  unfold shiftMantissaD Flt.shiftMantissa
  by_cases h0 : exp < 0
  · simp only [h0, if_true]; exact refOk_max w n
  simp only [h0, if_false]
  by_cases h1 : exp.toNat ≥ w * n
  · simp only [h1, if_true]; exact refOk_max w n
  simp only [h1, if_false]
  by_cases h2 : exp.toNat ≤ bitsOf m - 1
  · simp only [h2, if_true]
    have hle : m >>> (bitsOf m - 1 - exp.toNat) < 2 ^ F.bits := by
      rw [Nat.shiftRight_eq_div_pow]; exact Nat.lt_of_le_of_lt (Nat.div_le_self _ _) hm
    exact castFromMant hb hn hle
  · simp only [h2, if_false]
    obtain ⟨u, hu1, hu2, hu3⟩ := castFromMant (w := w) hb hn hm
    rw [hu1]; simp only [Outcome.bind]
    have hk : exp.toNat - (bitsOf m - 1) < w * n := by omega
    rw [UI.shl_of_lt dbg (by rw [hu2.1]; exact hk)]
    obtain ⟨g1, g2⟩ := UI.uncheckedShlInternal_spec hw hu2 hk
    refine ⟨_, rfl, g1, ?_⟩
    rw [g2, hu3, Nat.shiftLeft_eq]; rfl

/-- every normalised significand that reaches the final shift fits the mantissa type -/
theorem normalised_cases {F : FloatFmt} (hF : F.Valid) {x : Nat} (hx : x < 2 ^ F.bits) :
    ∃ sg e m, intoNormalisedSignedParts F x = (sg, e, m) ∧ (m = 0 ∨ e ≤ -1 ∨ m < 2 ^ F.bits) := by
  by_cases hE : expField F.spec x = 0
  · obtain ⟨e, m, h, hc⟩ := normalised_subnormal hF hx hE
    exact ⟨_, e, m, h, by omega⟩
  · refine ⟨_, _, _, normalised_normal hF hx hE, Or.inr (Or.inr ?_)⟩
    obtain ⟨_, hf, _, _⟩ := fields hF hx
    have hp := hF.hp; have hb := hF.hbits
    have h1 : 2 ^ (F.p - 1) * 2 ≤ 2 ^ F.bits := by
      rw [← Nat.pow_succ]; exact Nat.pow_le_pow_right (by decide) (by omega)
    omega

/-- REFINEMENT: the digit-level `cast_uint_from_float` never panics and produces the digits of the
    value-level result -/
theorem castUintFromFloatD_refines {F : FloatFmt} (hF : F.Valid) (dbg : Bool) {w n : Nat} (hw : 0 < w)
    (hn : 1 ≤ n) {x : Nat} (hx : x < 2 ^ F.bits) :
    RefOk w n (castUintFromFloatD F dbg w n x) (Flt.castUintFromFloat F (w * n) x) := by
  obtain ⟨sg, e, m, hnorm, hc⟩ := normalised_cases hF hx
  have hb : 1 ≤ F.bits := by have := hF.hbits; omega
  unfold castUintFromFloatD Flt.castUintFromFloat
  rw [hnorm]; simp only
  by_cases h1 : isNan F x = true
  · simp only [h1, if_true]; exact refOk_zero w n
  simp only [h1, Bool.false_eq_true, if_false]
  by_cases h2 : sg = true
  · simp only [h2, if_true]; exact refOk_zero w n
  simp only [h2, Bool.false_eq_true, if_false]
  by_cases h3 : isInfinite F x = true
  · simp only [h3, if_true]; exact refOk_max w n
  simp only [h3, Bool.false_eq_true, if_false]
  by_cases h4 : m = 0
  · simp only [h4, if_true]; exact refOk_zero w n
  simp only [h4, if_false]
  by_cases h5 : e ≤ -1
  · simp only [h5, if_true]; exact refOk_zero w n
  simp only [h5, if_false]
  exact shiftMantissaD_refines hb dbg hw hn e (by omega)

theorem buintFromFloat_refines {F : FloatFmt} (hF : F.Valid) (dbg : Bool) {w n : Nat} (hw : 0 < w)
    (hn : 1 ≤ n) {x : Nat} (hx : x < 2 ^ F.bits) :
    RefOk w n (buintFromFloat F dbg w n x) (Flt.buintFromFloat F (w * n) x) :=
  castUintFromFloatD_refines hF dbg hw hn hx


/-! ### signed wrapper -/

theorem bintNeg_eq_ops (dbg : Bool) (w : Nat) (a : List Nat) : bintNeg dbg w a = Ops.bintNeg dbg w a := rfl

/-- negating a non-negative `BInt` never overflows, in either build mode -/
theorem bintNeg_nonneg {w n : Nat} (hw : 2 ≤ w) (hn : 1 ≤ n) (dbg : Bool) {u : List Nat} (hu : WF w n u)
    (hlt : U w u < 2 ^ (w * n - 1)) :
    RefOk w n (bintNeg dbg w u) ((2 ^ (w * n) - U w u) % 2 ^ (w * n)) := by
  have hW : 1 ≤ w * n := Nat.mul_pos (by omega) hn
  have hM : M w n = 2 * 2 ^ (w * n - 1) := by
    unfold M; rw [Flt.pow_split hW]; simp
  have hS : S w u = (U w u : Int) := by rw [S_eq hu]; exact toInt_of_lt (by omega)
  have hrep : repS (M w n) (-(S w u)) := by unfold repS; rw [hS]; omega
  obtain ⟨h1, h2, h3⟩ := (II.overflowingNeg_spec hw hn hu).expand
  rw [wrapS_of_rep (M_pos w n) hrep, hS] at h2
  have hflag : (II.overflowingNeg w u).2 = false := by
    cases hf : (II.overflowingNeg w u).2
    · rfl
    · exact absurd hrep (h3.1 hf)
  have hval : U w (II.overflowingNeg w u).1 = (2 ^ (w * n) - U w u) % 2 ^ (w * n) := by
    have hlt' := U_lt h1
    rw [S_eq h1] at h2
    have hMe : M w n = 2 ^ (w * n) := rfl
    rw [← hMe]
    by_cases h0 : U w u = 0
    · rw [h0] at h2 ⊢; simp only [Nat.sub_zero, Nat.mod_self]
      unfold toInt at h2; split at h2 <;> omega
    · rw [Nat.mod_eq_of_lt (by omega)]
      unfold toInt at h2; split at h2 <;> omega
  refine ⟨(II.overflowingNeg w u).1, ?_, h1, hval⟩
  unfold bintNeg II.strictNeg II.checkedNeg II.wrappingNeg tupleToOption
  cases dbg
  · rfl
  · simp only [if_true, hflag, Bool.false_eq_true, if_false]; rfl

/-- REFINEMENT: `bint_cast_from_float!` on digit lists -/
theorem bintFromFloat_refines {F : FloatFmt} (hF : F.Valid) (dbg : Bool) {w n : Nat} (hw : 2 ≤ w)
    (hn : 1 ≤ n) {x : Nat} (hx : x < 2 ^ F.bits) :
    RefOk w n (bintFromFloat F dbg w n x) (Flt.bintFromFloat F (w * n) x) := by
  have hW : 1 ≤ w * n := Nat.mul_pos (by omega) hn
  have hM : M w n = 2 * 2 ^ (w * n - 1) := by
    unfold M; rw [Flt.pow_split hW]; simp
  have hMe : M w n = 2 ^ (w * n) := rfl
  have hhalf : M w n / 2 = 2 ^ (w * n - 1) := by omega
  unfold bintFromFloat Flt.bintFromFloat Flt.buintFromFloat
  by_cases hs : isSignNegative F x = true
  · simp only [hs, if_true]
    have hx' : neg F x < 2 ^ F.bits := (neg_fields hF hx hs).1
    obtain ⟨u, hu1, hu2, hu3⟩ := castUintFromFloatD_refines hF dbg (w := w) (by omega) hn hx'
    rw [hu1]; simp only [Outcome.bind, II.fromBits]
    have hmin := WF_iMin (w := w) (n := n) (by omega) hn
    have hge : Traits.opGe UI.cmp u (II.toBits (iMin w n)) = true ↔ 2 ^ (w * n - 1) ≤ U w u := by
      rw [Traits.opGe_eq]; unfold CmpImpl.ge II.toBits
      rw [UI.cmp_spec hu2 hmin, U_iMin (by omega) hn, hhalf, ← _root_.not_lt, ← compare_lt_iff_lt]
      cases compare (U w u) (2 ^ (w * n - 1)) <;> simp
    by_cases hc : 2 ^ (w * n - 1) ≤ U w u
    · rw [if_pos (hge.2 hc)]
      have hc' : Flt.castUintFromFloat F (w * n) (neg F x) ≥ 2 ^ (w * n - 1) := by rw [← hu3]; exact hc
      rw [if_pos hc']
      exact ⟨_, rfl, hmin, by rw [U_iMin (by omega) hn, hhalf]⟩
    · have hnge : ¬ Traits.opGe UI.cmp u (II.toBits (iMin w n)) = true := fun h => hc (hge.1 h)
      have hc' : ¬ Flt.castUintFromFloat F (w * n) (neg F x) ≥ 2 ^ (w * n - 1) := by rw [← hu3]; exact hc
      rw [if_neg hnge, if_neg hc', ← hu3]
      exact bintNeg_nonneg hw hn dbg hu2 (by omega)
  · simp only [hs, Bool.false_eq_true, if_false]
    obtain ⟨u, hu1, hu2, hu3⟩ := castUintFromFloatD_refines hF dbg (w := w) (by omega) hn hx
    rw [hu1]; simp only [Outcome.bind]
    change RefOk w n (if isNegative w u = true then Outcome.ok (iMax w n) else Outcome.ok u) _
    have hneg := Shift.isNegative_iff_U (w := w) (by omega) hn hu2
    have hpat : Flt.patIsNegative (w * n) (Flt.castUintFromFloat F (w * n) x) = isNegative w u := by
      unfold Flt.patIsNegative; rw [← hu3]
      cases h : isNegative w u
      · have : ¬ M w n ≤ 2 * U w u := fun hh => by rw [hneg.2 hh] at h; cases h
        simp; omega
      · have := hneg.1 h; simp; omega
    rw [hpat]
    by_cases h : isNegative w u = true
    · rw [if_pos h, if_pos h]
      exact ⟨_, rfl, WF_iMax (by omega) hn, by rw [U_iMax (by omega) hn, hhalf]⟩
    · rw [if_neg h, if_neg h]; exact ⟨u, rfl, hu2, hu3⟩


/-- the signed value of the digit-level result -/
theorem bintFromFloat_refines_S {F : FloatFmt} (hF : F.Valid) (dbg : Bool) {w n : Nat} (hw : 2 ≤ w)
    (hn : 1 ≤ n) {x : Nat} (hx : x < 2 ^ F.bits) :
    ∃ r, bintFromFloat F dbg w n x = .ok r ∧ WF w n r ∧
      S w r = toInt (2 ^ (w * n)) (Flt.bintFromFloat F (w * n) x) := by
  obtain ⟨r, h1, h2, h3⟩ := bintFromFloat_refines hF dbg hw hn hx
  exact ⟨r, h1, h2, by rw [S_eq h2, h3]; rfl⟩

end FltD
end Bnum
