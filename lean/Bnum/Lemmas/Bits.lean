import Bnum.Model.BitOps
import Bnum.Spec.Bits
import Bnum.Lemmas.Cmp

/-!
  Lemmas for C06: the digit list as a bit pattern (`testBit_U`), digit-wise logic, counts,
  bit access, powers of two, bit/byte reversal.
-/
namespace Bnum.Bits

/-- all digits `< 2^w` (the part of `WF` that does not mention the length) -/
def Digits (w : Nat) (x : List Nat) : Prop := ∀ d ∈ x, d < B w

theorem Digits_wf {w : Nat} {x : List Nat} (h : Digits w x) : WF w x.length x := ⟨rfl, h⟩
theorem Digits_nil (w : Nat) : Digits w [] := by intro d hd; simp at hd
theorem Digits_cons {w d : Nat} {ds : List Nat} : Digits w (d :: ds) ↔ d < B w ∧ Digits w ds := by
  simp [Digits]
theorem Digits_reverse {w : Nat} {x : List Nat} (h : Digits w x) : Digits w x.reverse :=
  fun d hd => h d (by simpa using hd)

theorem M_eq_two_pow (w n : Nat) : M w n = 2 ^ (w * n) := rfl
theorem B_eq_two_pow (w : Nat) : B w = 2 ^ w := rfl

/-! ### A. the digit list as a bit pattern -/

/-- KEY LEMMA: bit `t` of digit `j` is bit `w*j + t` of the value. -/
theorem testBit_U {w : Nat} : ∀ (x : List Nat), Digits w x → ∀ (j t : Nat), t < w →
    (U w x).testBit (w * j + t) = (x.getD j 0).testBit t
  | [], _, j, t, _ => by simp
  | d :: ds, hx, j, t, ht => by
    rw [Digits_cons] at hx
    have hd : d < 2 ^ w := hx.1
    rw [U_cons, Nat.add_comm, B_eq_two_pow, Nat.testBit_two_pow_mul_add _ hd]
    cases j with
    | zero => simp [ht]
    | succ j =>
      have h1 : ¬ (w * (j + 1) + t < w) := by rw [Nat.mul_add]; omega
      have h2 : w * (j + 1) + t - w = w * j + t := by rw [Nat.mul_add]; omega
      rw [if_neg h1, h2, testBit_U ds hx.2 j t ht]; simp

/-- bit `i` of the value, for any `i` -/
theorem testBit_U' {w : Nat} (hw : 1 ≤ w) {x : List Nat} (hx : Digits w x) (i : Nat) :
    (U w x).testBit i = (x.getD (i / w) 0).testBit (i % w) := by
  have := testBit_U x hx (i / w) (i % w) (Nat.mod_lt _ hw)
  rwa [Nat.div_add_mod] at this

theorem testBit_eq_false_of_lt {x w i : Nat} (hx : x < 2 ^ w) (hi : w ≤ i) :
    x.testBit i = false :=
  Nat.testBit_lt_two_pow (Nat.lt_of_lt_of_le hx (Nat.pow_le_pow_right (by decide) hi))

/-! ### digit-wise logic -/

theorem and_two_pow_mul_add {w a b u v : Nat} (ha : a < 2 ^ w) (hb : b < 2 ^ w) :
    (2 ^ w * u + a) &&& (2 ^ w * v + b) = 2 ^ w * (u &&& v) + (a &&& b) := by
  apply Nat.eq_of_testBit_eq; intro i
  rw [Nat.testBit_and, Nat.testBit_two_pow_mul_add _ ha, Nat.testBit_two_pow_mul_add _ hb,
    Nat.testBit_two_pow_mul_add _ (Nat.and_lt_two_pow a hb)]
  split <;> simp [Nat.testBit_and]

theorem or_two_pow_mul_add {w a b u v : Nat} (ha : a < 2 ^ w) (hb : b < 2 ^ w) :
    (2 ^ w * u + a) ||| (2 ^ w * v + b) = 2 ^ w * (u ||| v) + (a ||| b) := by
  apply Nat.eq_of_testBit_eq; intro i
  rw [Nat.testBit_or, Nat.testBit_two_pow_mul_add _ ha, Nat.testBit_two_pow_mul_add _ hb,
    Nat.testBit_two_pow_mul_add _ (Nat.or_lt_two_pow ha hb)]
  split <;> simp [Nat.testBit_or]

theorem xor_two_pow_mul_add {w a b u v : Nat} (ha : a < 2 ^ w) (hb : b < 2 ^ w) :
    (2 ^ w * u + a) ^^^ (2 ^ w * v + b) = 2 ^ w * (u ^^^ v) + (a ^^^ b) := by
  apply Nat.eq_of_testBit_eq; intro i
  rw [Nat.testBit_xor, Nat.testBit_two_pow_mul_add _ ha, Nat.testBit_two_pow_mul_add _ hb,
    Nat.testBit_two_pow_mul_add _ (Nat.xor_lt_two_pow ha hb)]
  split <;> simp [Nat.testBit_xor]


theorem bitand_spec {w : Nat} : ∀ (n : Nat) (a b : List Nat), WF w n a → WF w n b →
    WF w n (UI.bitand a b) ∧ U w (UI.bitand a b) = U w a &&& U w b := by
  intro n
  induction n with
  | zero =>
    intro a b ha hb
    have := ha.1; simp at this; subst this
    have := hb.1; simp at this; subst this
    simp [UI.bitand, WF_nil]
  | succ n ih =>
    intro a b ha hb
    match a, b, ha, hb with
    | d :: as, e :: bs, ha, hb =>
      rw [WF_cons] at ha hb
      obtain ⟨h1, h2⟩ := ih as bs ha.2 hb.2
      simp only [UI.bitand, U_cons]
      refine ⟨WF_cons.mpr ⟨Nat.and_lt_two_pow d hb.1, h1⟩, ?_⟩
      rw [h2, B_eq_two_pow, Nat.add_comm d, Nat.add_comm e,
        and_two_pow_mul_add ha.1 hb.1, Nat.add_comm]
    | [], _, ha, _ => exact absurd ha.1 (by simp)
    | _ :: _, [], _, hb => exact absurd hb.1 (by simp)

theorem bitor_spec {w : Nat} : ∀ (n : Nat) (a b : List Nat), WF w n a → WF w n b →
    WF w n (UI.bitor a b) ∧ U w (UI.bitor a b) = U w a ||| U w b := by
  intro n
  induction n with
  | zero =>
    intro a b ha hb
    have := ha.1; simp at this; subst this
    have := hb.1; simp at this; subst this
    simp [UI.bitor, WF_nil]
  | succ n ih =>
    intro a b ha hb
    match a, b, ha, hb with
    | d :: as, e :: bs, ha, hb =>
      rw [WF_cons] at ha hb
      obtain ⟨h1, h2⟩ := ih as bs ha.2 hb.2
      simp only [UI.bitor, U_cons]
      refine ⟨WF_cons.mpr ⟨Nat.or_lt_two_pow ha.1 hb.1, h1⟩, ?_⟩
      rw [h2, B_eq_two_pow, Nat.add_comm d, Nat.add_comm e,
        or_two_pow_mul_add ha.1 hb.1, Nat.add_comm]
    | [], _, ha, _ => exact absurd ha.1 (by simp)
    | _ :: _, [], _, hb => exact absurd hb.1 (by simp)

theorem bitxor_spec {w : Nat} : ∀ (n : Nat) (a b : List Nat), WF w n a → WF w n b →
    WF w n (UI.bitxor a b) ∧ U w (UI.bitxor a b) = U w a ^^^ U w b := by
  intro n
  induction n with
  | zero =>
    intro a b ha hb
    have := ha.1; simp at this; subst this
    have := hb.1; simp at this; subst this
    simp [UI.bitxor, WF_nil]
  | succ n ih =>
    intro a b ha hb
    match a, b, ha, hb with
    | d :: as, e :: bs, ha, hb =>
      rw [WF_cons] at ha hb
      obtain ⟨h1, h2⟩ := ih as bs ha.2 hb.2
      simp only [UI.bitxor, U_cons]
      refine ⟨WF_cons.mpr ⟨Nat.xor_lt_two_pow ha.1 hb.1, h1⟩, ?_⟩
      rw [h2, B_eq_two_pow, Nat.add_comm d, Nat.add_comm e,
        xor_two_pow_mul_add ha.1 hb.1, Nat.add_comm]
    | [], _, ha, _ => exact absurd ha.1 (by simp)
    | _ :: _, [], _, hb => exact absurd hb.1 (by simp)


theorem bnot_spec {w : Nat} : ∀ (n : Nat) (a : List Nat), WF w n a →
    WF w n (bnot w a) ∧ U w (bnot w a) = M w n - 1 - U w a := by
  intro n
  induction n with
  | zero =>
    intro a ha
    have := ha.1; simp at this; subst this
    simp [bnot, WF_nil, M_zero]
  | succ n ih =>
    intro a ha
    match a, ha with
    | d :: as, ha =>
      rw [WF_cons] at ha
      obtain ⟨h1, h2⟩ := ih as ha.2
      have hu := U_lt ha.2
      have hd := ha.1
      unfold bnot at h1 h2 ⊢
      simp only [List.map_cons, U_cons, Prim.not]
      refine ⟨WF_cons.mpr ⟨by omega, h1⟩, ?_⟩
      rw [h2, M_succ]
      generalize M w n = m at *; generalize U w as = u at *; generalize B w = b at *
      obtain ⟨k, rfl⟩ : ∃ k, m = u + 1 + k := ⟨m - 1 - u, by omega⟩
      have e1 : u + 1 + k - 1 - u = k := by omega
      have e2 : b * (u + 1 + k) = b * u + b + b * k := by ring
      rw [e1, e2]; omega
    | [], ha => exact absurd ha.1 (by simp)

theorem testBit_compl {W v : Nat} (hv : v < 2 ^ W) (i : Nat) :
    (2 ^ W - 1 - v).testBit i = (decide (i < W) && !v.testBit i) := by
  have : 2 ^ W - 1 - v = 2 ^ W - (v + 1) := by omega
  rw [this, Nat.testBit_two_pow_sub_succ hv]

/-! ### B. popcount -/

theorem popLoop_eq : ∀ (f x : Nat), Prim.popLoop f x = Spec.popcount f x
  | 0, _ => rfl
  | f + 1, x => by simp [Prim.popLoop, Spec.popcount, popLoop_eq f]

theorem two_pow_succ_mul (w u : Nat) : 2 ^ (w + 1) * u = 2 * (2 ^ w * u) := by
  rw [Nat.pow_succ]; ring

theorem popcount_add : ∀ (w k d u : Nat), d < 2 ^ w →
    Spec.popcount (w + k) (d + 2 ^ w * u) = Spec.popcount w d + Spec.popcount k u
  | 0, k, d, u, hd => by
    have : d = 0 := by simpa using hd
    subst this; simp [Spec.popcount]
  | w + 1, k, d, u, hd => by
    have e : w + 1 + k = (w + k) + 1 := by omega
    rw [e]
    simp only [Spec.popcount]
    rw [two_pow_succ_mul]
    have h1 : (d + 2 * (2 ^ w * u)) % 2 = d % 2 := by omega
    have h2 : (d + 2 * (2 ^ w * u)) / 2 = d / 2 + 2 ^ w * u := by omega
    rw [h1, h2, popcount_add w k (d / 2) u (by rw [Nat.pow_succ] at hd; omega)]
    omega

theorem popcount_compl : ∀ (f x : Nat), x < 2 ^ f →
    Spec.popcount f (2 ^ f - 1 - x) + Spec.popcount f x = f
  | 0, _, _ => by simp [Spec.popcount]
  | f + 1, x, hx => by
    simp only [Spec.popcount]
    rw [Nat.pow_succ] at hx ⊢
    have h1 : (2 ^ f * 2 - 1 - x) % 2 = 1 - x % 2 := by omega
    have h2 : (2 ^ f * 2 - 1 - x) / 2 = 2 ^ f - 1 - x / 2 := by omega
    have := popcount_compl f (x / 2) (by omega)
    rw [h1, h2]; omega

theorem popcount_le (f x : Nat) : Spec.popcount f x ≤ f := by
  induction f generalizing x with
  | zero => simp [Spec.popcount]
  | succ f ih => simp only [Spec.popcount]; have := ih (x / 2); omega

theorem popcount_eq_zero : ∀ (f x : Nat), x < 2 ^ f → (Spec.popcount f x = 0 ↔ x = 0)
  | 0, x, hx => by simp [Spec.popcount]; simpa using hx
  | f + 1, x, hx => by
    simp only [Spec.popcount]
    rw [Nat.pow_succ] at hx
    have := popcount_eq_zero f (x / 2) (by omega)
    omega

/-- popcount is `1` exactly on the powers of two -/
theorem popcount_eq_one : ∀ (f x : Nat), x < 2 ^ f → (Spec.popcount f x = 1 ↔ ∃ k, x = 2 ^ k)
  | 0, x, hx => by
    have : x = 0 := by simpa using hx
    subst this
    simp only [Spec.popcount]
    constructor
    · intro h; omega
    · rintro ⟨k, hk⟩; have := Nat.two_pow_pos k; omega
  | f + 1, x, hx => by
    simp only [Spec.popcount]
    rw [Nat.pow_succ] at hx
    have h0 := popcount_eq_zero f (x / 2) (by omega)
    have h1 := popcount_eq_one f (x / 2) (by omega)
    constructor
    · intro h
      by_cases hx2 : x % 2 = 1
      · have : x / 2 = 0 := h0.mp (by omega)
        exact ⟨0, by simp; omega⟩
      · obtain ⟨k, hk⟩ := h1.mp (by omega)
        exact ⟨k + 1, by rw [Nat.pow_succ]; omega⟩
    · rintro ⟨k, hk⟩
      cases k with
      | zero =>
        have : x = 1 := by simpa using hk
        subst this; have := h0.mpr (by decide); omega
      | succ k =>
        rw [Nat.pow_succ] at hk
        have := h1.mpr ⟨k, by omega⟩
        omega


theorem countOnesLoop_spec {w : Nat} : ∀ (x : List Nat), Digits w x → ∀ acc,
    UI.countOnesLoop w x acc = acc + Spec.popcount (w * x.length) (U w x)
  | [], _, acc => by simp [UI.countOnesLoop, Spec.popcount]
  | d :: ds, hx, acc => by
    rw [Digits_cons] at hx
    simp only [UI.countOnesLoop, List.length_cons, U_cons]
    rw [countOnesLoop_spec ds hx.2, Nat.mul_add, Nat.mul_one, Nat.add_comm (w * ds.length) w,
      B_eq_two_pow, popcount_add w _ d _ hx.1, Prim.countOnes, popLoop_eq]
    omega

/-- C06: `count_ones` is the number of set bits among the `w*n` bits of the pattern. -/
theorem countOnes_spec {w n : Nat} {x : List Nat} (hx : WF w n x) :
    UI.countOnes w x = Spec.popcount (w * n) (U w x) := by
  unfold UI.countOnes; rw [countOnesLoop_spec x hx.2, hx.1]; omega

theorem countZerosLoop_spec {w : Nat} : ∀ (x : List Nat), Digits w x → ∀ acc,
    UI.countZerosLoop w x acc + Spec.popcount (w * x.length) (U w x) = acc + w * x.length
  | [], _, acc => by simp [UI.countZerosLoop, Spec.popcount]
  | d :: ds, hx, acc => by
    rw [Digits_cons] at hx
    simp only [UI.countZerosLoop, List.length_cons, U_cons]
    have ih := countZerosLoop_spec ds hx.2 (acc + Prim.countZeros w d)
    have hc := popcount_compl w d hx.1
    rw [Nat.mul_add, Nat.mul_one, Nat.add_comm (w * ds.length) w,
      B_eq_two_pow, popcount_add w _ d _ hx.1]
    unfold Prim.countZeros Prim.countOnes Prim.not at *
    rw [popLoop_eq] at *
    rw [B_eq_two_pow] at *
    omega

/-- C06: `count_zeros` is `BITS - count_ones`. -/
theorem countZeros_spec {w n : Nat} {x : List Nat} (hx : WF w n x) :
    UI.countZeros w x = w * n - Spec.popcount (w * n) (U w x) := by
  have := countZerosLoop_spec x hx.2 0
  unfold UI.countZeros; rw [hx.1] at this; omega

/-! ### C. bit length, leading zeros -/

/-- characterisation of the bit length: `bitLen v ≤ k ↔ v < 2^k` -/
theorem bitLen_le_iff (v k : Nat) : Spec.bitLen v ≤ k ↔ v < 2 ^ k := by
  unfold Spec.bitLen
  by_cases hv : v = 0
  · subst hv; simp
  · rw [if_neg hv, ← Nat.log2_lt hv]; omega

theorem eq_of_forall_le_iff {a b : Nat} (h : ∀ k, a ≤ k ↔ b ≤ k) : a = b := by
  have h1 := h a; have h2 := h b; omega

theorem lt_two_pow_bitLen (v : Nat) : v < 2 ^ Spec.bitLen v := (bitLen_le_iff v _).mp (Nat.le_refl _)

theorem two_pow_le_of_bitLen {v : Nat} (hv : v ≠ 0) : 2 ^ (Spec.bitLen v - 1) ≤ v := by
  by_contra h
  have := (bitLen_le_iff v (Spec.bitLen v - 1)).mpr (by omega)
  have h0 : ¬ Spec.bitLen v ≤ 0 := by rw [bitLen_le_iff]; simp; omega
  omega

theorem bitLen_zero : Spec.bitLen 0 = 0 := by simp [Spec.bitLen]
theorem bitLen_pos {v : Nat} (hv : v ≠ 0) : 1 ≤ Spec.bitLen v := by
  have h0 : ¬ Spec.bitLen v ≤ 0 := by rw [bitLen_le_iff]; simp; omega
  omega

theorem bitLen_half {d : Nat} (hd : d ≠ 0) : Spec.bitLen d = 1 + Spec.bitLen (d / 2) := by
  have hp := bitLen_pos hd
  have h : ∀ k, Spec.bitLen (d / 2) ≤ k ↔ Spec.bitLen d ≤ k + 1 := by
    intro k; rw [bitLen_le_iff, bitLen_le_iff, Nat.pow_succ]; omega
  have h1 := h (Spec.bitLen (d / 2))
  have h2 := h (Spec.bitLen d - 1)
  omega

theorem lenLoop_eq : ∀ (f d : Nat), d < 2 ^ f → Prim.lenLoop f d = Spec.bitLen d
  | 0, d, hd => by
    have : d = 0 := by simpa using hd
    subst this; simp [Prim.lenLoop, bitLen_zero]
  | f + 1, d, hd => by
    unfold Prim.lenLoop
    by_cases h0 : d = 0
    · subst h0; simp [bitLen_zero]
    · rw [Nat.pow_succ] at hd
      simp only [beq_iff_eq, h0, if_false]
      rw [lenLoop_eq f (d / 2) (by omega), bitLen_half h0]

/-- the bit length of `u + 2^k * d` with `u < 2^k`, `d ≠ 0` -/
theorem bitLen_add_mul {u k d : Nat} (hu : u < 2 ^ k) (hd : d ≠ 0) :
    Spec.bitLen (u + 2 ^ k * d) = k + Spec.bitLen d := by
  apply eq_of_forall_le_iff
  intro j
  rw [bitLen_le_iff]
  by_cases hj : k ≤ j
  · obtain ⟨i, rfl⟩ := Nat.exists_eq_add_of_le hj
    have : k + Spec.bitLen d ≤ k + i ↔ Spec.bitLen d ≤ i := by omega
    rw [this, bitLen_le_iff, Nat.pow_add]
    constructor
    · intro h
      by_contra hc
      have : 2 ^ k * 2 ^ i ≤ 2 ^ k * d := Nat.mul_le_mul_left _ (by omega)
      omega
    · intro h
      have : 2 ^ k * (d + 1) ≤ 2 ^ k * 2 ^ i := Nat.mul_le_mul_left _ h
      rw [Nat.mul_add] at this; omega
  · have h1 : 2 ^ j < 2 ^ k := Nat.pow_lt_pow_right (by decide) (by omega)
    have h2 : 2 ^ k * 1 ≤ 2 ^ k * d := Nat.mul_le_mul_left _ (by omega)
    have := bitLen_pos hd
    constructor
    · intro h; omega
    · intro h; omega

theorem leadingZeros_prim {w d : Nat} (hd : d < 2 ^ w) :
    Prim.leadingZeros w d = w - Spec.bitLen d := by
  unfold Prim.leadingZeros; rw [lenLoop_eq w d hd]

theorem bitLen_le_of_lt {v k : Nat} (h : v < 2 ^ k) : Spec.bitLen v ≤ k := (bitLen_le_iff v k).mpr h

theorem U_lt' {w : Nat} {x : List Nat} (hx : Digits w x) : U w x < 2 ^ (w * x.length) :=
  U_lt (Digits_wf hx)

/-- loop invariant of `leading_zeros` over the reversed (most-significant-first) digits -/
theorem lzLoop_spec {w : Nat} : ∀ (r : List Nat), Digits w r → ∀ z,
    UI.lzLoop w r z = z + (w * r.length - Spec.bitLen (U w r.reverse))
  | [], _, z => by simp [UI.lzLoop, bitLen_zero]
  | d :: rs, hr, z => by
    rw [Digits_cons] at hr
    have hrev := Digits_reverse hr.2
    have hu := U_lt' hrev
    rw [List.length_reverse] at hu
    have hd : d < 2 ^ w := hr.1
    have hbl := bitLen_le_of_lt hu
    simp only [UI.lzLoop, List.reverse_cons, List.length_cons]
    rw [Cmp.U_snoc, List.length_reverse, B_eq_two_pow, ← Nat.pow_mul, leadingZeros_prim hd]
    by_cases h0 : d = 0
    · subst h0
      simp only [bne_self_eq_false, Bool.false_eq_true, if_false, Nat.mul_zero, Nat.add_zero]
      rw [lzLoop_spec rs hr.2, bitLen_zero, Nat.mul_add]; omega
    · have : (d != 0) = true := by simp [h0]
      rw [if_pos this, bitLen_add_mul hu h0, Nat.mul_add]
      have := bitLen_le_of_lt hd
      omega

/-- C06: `leading_zeros = BITS - bitLen(pattern)` (`BITS` for the zero pattern). -/
theorem leadingZeros_spec {w n : Nat} {x : List Nat} (hx : WF w n x) :
    UI.leadingZeros w x = w * n - Spec.bitLen (U w x) := by
  unfold UI.leadingZeros
  rw [lzLoop_spec x.reverse (Digits_reverse hx.2)]; simp [hx.1]

theorem leadingZeros_le {w n : Nat} {x : List Nat} (hx : WF w n x) :
    UI.leadingZeros w x ≤ w * n := by rw [leadingZeros_spec hx]; omega

/-- C06: `bits()` is the bit length of the pattern. -/
theorem bits_spec {w n : Nat} {x : List Nat} (hx : WF w n x) :
    UI.bits w x = Spec.bitLen (U w x) := by
  unfold UI.bits
  rw [leadingZeros_spec hx, hx.1]
  have := bitLen_le_of_lt (U_lt hx); omega

/-! ### D. trailing zeros -/

theorem tzLoop_eq : ∀ (f x : Nat), Prim.tzLoop f x = Spec.trailingZeros f x
  | 0, _ => rfl
  | f + 1, x => by
    simp only [Prim.tzLoop, Spec.trailingZeros, tzLoop_eq f, beq_iff_eq]

theorem trailingZeros_zero : ∀ f, Spec.trailingZeros f 0 = f
  | 0 => rfl
  | f + 1 => by simp [Spec.trailingZeros, trailingZeros_zero f]; omega

theorem trailingZeros_add : ∀ (w k d u : Nat), d < 2 ^ w →
    Spec.trailingZeros (w + k) (d + 2 ^ w * u) =
      if d = 0 then w + Spec.trailingZeros k u else Spec.trailingZeros w d
  | 0, k, d, u, hd => by
    have : d = 0 := by simpa using hd
    subst this; simp
  | w + 1, k, d, u, hd => by
    have e : w + 1 + k = (w + k) + 1 := by omega
    rw [e]
    simp only [Spec.trailingZeros]
    rw [two_pow_succ_mul]
    have h1 : (d + 2 * (2 ^ w * u)) % 2 = d % 2 := by omega
    have h2 : (d + 2 * (2 ^ w * u)) / 2 = d / 2 + 2 ^ w * u := by omega
    rw [Nat.pow_succ] at hd
    rw [h1, h2, trailingZeros_add w k (d / 2) u (by omega)]
    by_cases hodd : d % 2 = 1
    · have : d ≠ 0 := by omega
      simp [hodd, this]
    · simp only [hodd, if_false]
      by_cases h0 : d = 0
      · subst h0; simp; omega
      · have : d / 2 ≠ 0 := by omega
        simp [h0, this]

theorem tzLoopU_spec {w : Nat} : ∀ (x : List Nat), Digits w x → ∀ z,
    UI.tzLoop w x z = z + Spec.trailingZeros (w * x.length) (U w x)
  | [], _, z => by simp [UI.tzLoop, Spec.trailingZeros]
  | d :: ds, hx, z => by
    rw [Digits_cons] at hx
    simp only [UI.tzLoop, List.length_cons, U_cons]
    rw [Nat.mul_add, Nat.mul_one, Nat.add_comm (w * ds.length) w, B_eq_two_pow,
      trailingZeros_add w _ d _ hx.1, Prim.trailingZeros, tzLoop_eq]
    by_cases h0 : d = 0
    · subst h0
      simp only [bne_self_eq_false, Bool.false_eq_true, if_false, if_true]
      rw [tzLoopU_spec ds hx.2, trailingZeros_zero]; omega
    · have : (d != 0) = true := by simp [h0]
      rw [if_pos this, if_neg h0]

/-- C06: `trailing_zeros` of the pattern (`BITS` for zero). -/
theorem trailingZeros_spec {w n : Nat} {x : List Nat} (hx : WF w n x) :
    UI.trailingZeros w x = Spec.trailingZeros (w * n) (U w x) := by
  unfold UI.trailingZeros; rw [tzLoopU_spec x hx.2, hx.1]; omega

/-- meaning of `Spec.trailingZeros`: all lower bits are clear, and (unless it hit the cap `W`) the
    bit at that position is set -/
theorem trailingZeros_char : ∀ (W v : Nat),
    Spec.trailingZeros W v ≤ W ∧ (∀ i, i < Spec.trailingZeros W v → v.testBit i = false) ∧
    (Spec.trailingZeros W v < W → v.testBit (Spec.trailingZeros W v) = true)
  | 0, v => by simp [Spec.trailingZeros]
  | W + 1, v => by
    obtain ⟨h1, h2, h3⟩ := trailingZeros_char W (v / 2)
    simp only [Spec.trailingZeros]
    by_cases hodd : v % 2 = 1
    · simp [hodd, Nat.testBit_zero]
    · simp only [hodd, if_false]
      refine ⟨by omega, ?_, ?_⟩
      · intro i hi
        cases i with
        | zero => simp [Nat.testBit_zero, hodd]
        | succ i => rw [Nat.testBit_succ]; exact h2 i (by omega)
      · intro h
        rw [Nat.add_comm, Nat.testBit_succ]; exact h3 (by omega)

end Bnum.Bits
