import Bnum.Model.BitOps
import Bnum.Spec.Bits
import Bnum.Lemmas.Cmp

/-!
  Lemmas for C06: the digit list as a bit pattern (`testBit_U`), digit-wise logic, counts,
  bit access, powers of two, bit/byte reversal.
-/
namespace Bnum

/-- all digits `< 2^w` (the part of `WF` that does not mention the length) -/
def Digits (w : Nat) (x : List Nat) : Prop := ∀ d ∈ x, d < B w

theorem WF.digits {w n : Nat} {x : List Nat} (h : WF w n x) : Digits w x := h.2
theorem Digits.wf {w : Nat} {x : List Nat} (h : Digits w x) : WF w x.length x := ⟨rfl, h⟩
theorem Digits_nil (w : Nat) : Digits w [] := by intro d hd; simp at hd
theorem Digits_cons {w d : Nat} {ds : List Nat} : Digits w (d :: ds) ↔ d < B w ∧ Digits w ds := by
  simp [Digits]
theorem Digits_reverse {w : Nat} {x : List Nat} (h : Digits w x) : Digits w x.reverse :=
  fun d hd => h d (by simpa using hd)

theorem M_eq_two_pow (w n : Nat) : M w n = 2 ^ (w * n) := rfl
theorem B_eq_two_pow (w : Nat) : B w = 2 ^ w := rfl

/-! ### A. the digit list as a bit pattern -/

/-- KEY LEMMA: bit `t` of digit `j` is bit `w*j + t` of the value. -/
theorem testBit_U {w : Nat} : ∀ (x : List Nat), Digits w x → ∀ (j t : Nat), t < w →
    (U w x).testBit (w * j + t) = (x.getD j 0).testBit t
  | [], _, j, t, _ => by simp
  | d :: ds, hx, j, t, ht => by
    rw [Digits_cons] at hx
    have hd : d < 2 ^ w := hx.1
    rw [U_cons, Nat.add_comm, B_eq_two_pow, Nat.testBit_two_pow_mul_add _ hd]
    cases j with
    | zero => simp [ht]
    | succ j =>
      have h1 : ¬ (w * (j + 1) + t < w) := by rw [Nat.mul_add]; omega
      have h2 : w * (j + 1) + t - w = w * j + t := by rw [Nat.mul_add]; omega
      rw [if_neg h1, h2, testBit_U ds hx.2 j t ht]; simp

/-- bit `i` of the value, for any `i` -/
theorem testBit_U' {w : Nat} (hw : 1 ≤ w) {x : List Nat} (hx : Digits w x) (i : Nat) :
    (U w x).testBit i = (x.getD (i / w) 0).testBit (i % w) := by
  have := testBit_U x hx (i / w) (i % w) (Nat.mod_lt _ hw)
  rwa [Nat.div_add_mod] at this

theorem testBit_eq_false_of_lt {x w i : Nat} (hx : x < 2 ^ w) (hi : w ≤ i) :
    x.testBit i = false :=
  Nat.testBit_lt_two_pow (Nat.lt_of_lt_of_le hx (Nat.pow_le_pow_right (by decide) hi))

/-! ### digit-wise logic -/

theorem and_two_pow_mul_add {w a b u v : Nat} (ha : a < 2 ^ w) (hb : b < 2 ^ w) :
    (2 ^ w * u + a) &&& (2 ^ w * v + b) = 2 ^ w * (u &&& v) + (a &&& b) := by
  apply Nat.eq_of_testBit_eq; intro i
  rw [Nat.testBit_and, Nat.testBit_two_pow_mul_add _ ha, Nat.testBit_two_pow_mul_add _ hb,
    Nat.testBit_two_pow_mul_add _ (Nat.and_lt_two_pow a hb)]
  split <;> simp [Nat.testBit_and]

theorem or_two_pow_mul_add {w a b u v : Nat} (ha : a < 2 ^ w) (hb : b < 2 ^ w) :
    (2 ^ w * u + a) ||| (2 ^ w * v + b) = 2 ^ w * (u ||| v) + (a ||| b) := by
  apply Nat.eq_of_testBit_eq; intro i
  rw [Nat.testBit_or, Nat.testBit_two_pow_mul_add _ ha, Nat.testBit_two_pow_mul_add _ hb,
    Nat.testBit_two_pow_mul_add _ (Nat.or_lt_two_pow ha hb)]
  split <;> simp [Nat.testBit_or]

theorem xor_two_pow_mul_add {w a b u v : Nat} (ha : a < 2 ^ w) (hb : b < 2 ^ w) :
    (2 ^ w * u + a) ^^^ (2 ^ w * v + b) = 2 ^ w * (u ^^^ v) + (a ^^^ b) := by
  apply Nat.eq_of_testBit_eq; intro i
  rw [Nat.testBit_xor, Nat.testBit_two_pow_mul_add _ ha, Nat.testBit_two_pow_mul_add _ hb,
    Nat.testBit_two_pow_mul_add _ (Nat.xor_lt_two_pow ha hb)]
  split <;> simp [Nat.testBit_xor]

namespace UI

theorem bitand_spec {w : Nat} : ∀ (n : Nat) (a b : List Nat), WF w n a → WF w n b →
    WF w n (bitand a b) ∧ U w (bitand a b) = U w a &&& U w b := by
  intro n
  induction n with
  | zero =>
    intro a b ha hb
    have := ha.1; simp at this; subst this
    have := hb.1; simp at this; subst this
    simp [bitand, WF_nil]
  | succ n ih =>
    intro a b ha hb
    match a, b, ha, hb with
    | d :: as, e :: bs, ha, hb =>
      rw [WF_cons] at ha hb
      obtain ⟨h1, h2⟩ := ih as bs ha.2 hb.2
      simp only [bitand, U_cons]
      refine ⟨WF_cons.mpr ⟨Nat.and_lt_two_pow d hb.1, h1⟩, ?_⟩
      rw [h2, B_eq_two_pow, Nat.add_comm d, Nat.add_comm e,
        and_two_pow_mul_add ha.1 hb.1, Nat.add_comm]
    | [], _, ha, _ => exact absurd ha.1 (by simp)
    | _ :: _, [], _, hb => exact absurd hb.1 (by simp)

theorem bitor_spec {w : Nat} : ∀ (n : Nat) (a b : List Nat), WF w n a → WF w n b →
    WF w n (bitor a b) ∧ U w (bitor a b) = U w a ||| U w b := by
  intro n
  induction n with
  | zero =>
    intro a b ha hb
    have := ha.1; simp at this; subst this
    have := hb.1; simp at this; subst this
    simp [bitor, WF_nil]
  | succ n ih =>
    intro a b ha hb
    match a, b, ha, hb with
    | d :: as, e :: bs, ha, hb =>
      rw [WF_cons] at ha hb
      obtain ⟨h1, h2⟩ := ih as bs ha.2 hb.2
      simp only [bitor, U_cons]
      refine ⟨WF_cons.mpr ⟨Nat.or_lt_two_pow ha.1 hb.1, h1⟩, ?_⟩
      rw [h2, B_eq_two_pow, Nat.add_comm d, Nat.add_comm e,
        or_two_pow_mul_add ha.1 hb.1, Nat.add_comm]
    | [], _, ha, _ => exact absurd ha.1 (by simp)
    | _ :: _, [], _, hb => exact absurd hb.1 (by simp)

theorem bitxor_spec {w : Nat} : ∀ (n : Nat) (a b : List Nat), WF w n a → WF w n b →
    WF w n (bitxor a b) ∧ U w (bitxor a b) = U w a ^^^ U w b := by
  intro n
  induction n with
  | zero =>
    intro a b ha hb
    have := ha.1; simp at this; subst this
    have := hb.1; simp at this; subst this
    simp [bitxor, WF_nil]
  | succ n ih =>
    intro a b ha hb
    match a, b, ha, hb with
    | d :: as, e :: bs, ha, hb =>
      rw [WF_cons] at ha hb
      obtain ⟨h1, h2⟩ := ih as bs ha.2 hb.2
      simp only [bitxor, U_cons]
      refine ⟨WF_cons.mpr ⟨Nat.xor_lt_two_pow ha.1 hb.1, h1⟩, ?_⟩
      rw [h2, B_eq_two_pow, Nat.add_comm d, Nat.add_comm e,
        xor_two_pow_mul_add ha.1 hb.1, Nat.add_comm]
    | [], _, ha, _ => exact absurd ha.1 (by simp)
    | _ :: _, [], _, hb => exact absurd hb.1 (by simp)

end UI

theorem bnot_spec {w : Nat} : ∀ (n : Nat) (a : List Nat), WF w n a →
    WF w n (bnot w a) ∧ U w (bnot w a) = M w n - 1 - U w a := by
  intro n
  induction n with
  | zero =>
    intro a ha
    have := ha.1; simp at this; subst this
    simp [bnot, WF_nil, M_zero]
  | succ n ih =>
    intro a ha
    match a, ha with
    | d :: as, ha =>
      rw [WF_cons] at ha
      obtain ⟨h1, h2⟩ := ih as ha.2
      have hu := U_lt ha.2
      have hd := ha.1
      unfold bnot at h1 h2 ⊢
      simp only [List.map_cons, U_cons, Prim.not]
      refine ⟨WF_cons.mpr ⟨by omega, h1⟩, ?_⟩
      rw [h2, M_succ]
      generalize M w n = m at *; generalize U w as = u at *; generalize B w = b at *
      obtain ⟨k, rfl⟩ : ∃ k, m = u + 1 + k := ⟨m - 1 - u, by omega⟩
      have e1 : u + 1 + k - 1 - u = k := by omega
      have e2 : b * (u + 1 + k) = b * u + b + b * k := by ring
      rw [e1, e2]; omega
    | [], ha => exact absurd ha.1 (by simp)

theorem testBit_compl {W v : Nat} (hv : v < 2 ^ W) (i : Nat) :
    (2 ^ W - 1 - v).testBit i = (decide (i < W) && !v.testBit i) := by
  have : 2 ^ W - 1 - v = 2 ^ W - (v + 1) := by omega
  rw [this, Nat.testBit_two_pow_sub_succ hv]

/-! ### B. popcount -/

theorem popLoop_eq : ∀ (f x : Nat), Prim.popLoop f x = Spec.popcount f x
  | 0, _ => rfl
  | f + 1, x => by simp [Prim.popLoop, Spec.popcount, popLoop_eq f]

theorem two_pow_succ_mul (w u : Nat) : 2 ^ (w + 1) * u = 2 * (2 ^ w * u) := by
  rw [Nat.pow_succ]; ring

theorem popcount_add : ∀ (w k d u : Nat), d < 2 ^ w →
    Spec.popcount (w + k) (d + 2 ^ w * u) = Spec.popcount w d + Spec.popcount k u
  | 0, k, d, u, hd => by
    have : d = 0 := by simpa using hd
    subst this; simp [Spec.popcount]
  | w + 1, k, d, u, hd => by
    have e : w + 1 + k = (w + k) + 1 := by omega
    rw [e]
    simp only [Spec.popcount]
    rw [two_pow_succ_mul]
    have h1 : (d + 2 * (2 ^ w * u)) % 2 = d % 2 := by omega
    have h2 : (d + 2 * (2 ^ w * u)) / 2 = d / 2 + 2 ^ w * u := by omega
    rw [h1, h2, popcount_add w k (d / 2) u (by rw [Nat.pow_succ] at hd; omega)]
    omega

theorem popcount_compl : ∀ (f x : Nat), x < 2 ^ f →
    Spec.popcount f (2 ^ f - 1 - x) + Spec.popcount f x = f
  | 0, _, _ => by simp [Spec.popcount]
  | f + 1, x, hx => by
    simp only [Spec.popcount]
    rw [Nat.pow_succ] at hx ⊢
    have h1 : (2 ^ f * 2 - 1 - x) % 2 = 1 - x % 2 := by omega
    have h2 : (2 ^ f * 2 - 1 - x) / 2 = 2 ^ f - 1 - x / 2 := by omega
    have := popcount_compl f (x / 2) (by omega)
    rw [h1, h2]; omega

theorem popcount_le (f x : Nat) : Spec.popcount f x ≤ f := by
  induction f generalizing x with
  | zero => simp [Spec.popcount]
  | succ f ih => simp only [Spec.popcount]; have := ih (x / 2); omega

theorem popcount_eq_zero : ∀ (f x : Nat), x < 2 ^ f → (Spec.popcount f x = 0 ↔ x = 0)
  | 0, x, hx => by simp [Spec.popcount]; simpa using hx
  | f + 1, x, hx => by
    simp only [Spec.popcount]
    rw [Nat.pow_succ] at hx
    have := popcount_eq_zero f (x / 2) (by omega)
    omega

/-- popcount is `1` exactly on the powers of two -/
theorem popcount_eq_one : ∀ (f x : Nat), x < 2 ^ f → (Spec.popcount f x = 1 ↔ ∃ k, x = 2 ^ k)
  | 0, x, hx => by
    have : x = 0 := by simpa using hx
    subst this
    simp only [Spec.popcount]
    constructor
    · intro h; omega
    · rintro ⟨k, hk⟩; have := Nat.two_pow_pos k; omega
  | f + 1, x, hx => by
    simp only [Spec.popcount]
    rw [Nat.pow_succ] at hx
    have h0 := popcount_eq_zero f (x / 2) (by omega)
    have h1 := popcount_eq_one f (x / 2) (by omega)
    constructor
    · intro h
      by_cases hx2 : x % 2 = 1
      · have : x / 2 = 0 := h0.mp (by omega)
        exact ⟨0, by simp; omega⟩
      · obtain ⟨k, hk⟩ := h1.mp (by omega)
        exact ⟨k + 1, by rw [Nat.pow_succ]; omega⟩
    · rintro ⟨k, hk⟩
      cases k with
      | zero =>
        have : x = 1 := by simpa using hk
        subst this; have := h0.mpr (by decide); omega
      | succ k =>
        rw [Nat.pow_succ] at hk
        have := h1.mpr ⟨k, by omega⟩
        omega

namespace UI

theorem countOnesLoop_spec {w : Nat} : ∀ (x : List Nat), Digits w x → ∀ acc,
    countOnesLoop w x acc = acc + Spec.popcount (w * x.length) (U w x)
  | [], _, acc => by simp [countOnesLoop, Spec.popcount]
  | d :: ds, hx, acc => by
    rw [Digits_cons] at hx
    simp only [countOnesLoop, List.length_cons, U_cons]
    rw [countOnesLoop_spec ds hx.2, Nat.mul_add, Nat.mul_one, Nat.add_comm (w * ds.length) w,
      B_eq_two_pow, popcount_add w _ d _ hx.1, Prim.countOnes, popLoop_eq]
    omega

/-- C06: `count_ones` is the number of set bits among the `w*n` bits of the pattern. -/
theorem countOnes_spec {w n : Nat} {x : List Nat} (hx : WF w n x) :
    countOnes w x = Spec.popcount (w * n) (U w x) := by
  unfold countOnes; rw [countOnesLoop_spec x hx.2, hx.1]; omega

theorem countZerosLoop_spec {w : Nat} : ∀ (x : List Nat), Digits w x → ∀ acc,
    countZerosLoop w x acc + Spec.popcount (w * x.length) (U w x) = acc + w * x.length
  | [], _, acc => by simp [countZerosLoop, Spec.popcount]
  | d :: ds, hx, acc => by
    rw [Digits_cons] at hx
    simp only [countZerosLoop, List.length_cons, U_cons]
    have ih := countZerosLoop_spec ds hx.2 (acc + Prim.countZeros w d)
    have hc := popcount_compl w d hx.1
    rw [Nat.mul_add, Nat.mul_one, Nat.add_comm (w * ds.length) w,
      B_eq_two_pow, popcount_add w _ d _ hx.1]
    unfold Prim.countZeros Prim.countOnes Prim.not at *
    rw [popLoop_eq] at *
    rw [B_eq_two_pow] at *
    omega

/-- C06: `count_zeros` is `BITS - count_ones`. -/
theorem countZeros_spec {w n : Nat} {x : List Nat} (hx : WF w n x) :
    countZeros w x = w * n - Spec.popcount (w * n) (U w x) := by
  have := countZerosLoop_spec x hx.2 0
  unfold countZeros; rw [hx.1] at this; omega

end UI
end Bnum
