import Bnum.Model.BitOps
import Bnum.Spec.Bits
import Bnum.Lemmas.Cmp

/-!
  Lemmas for C06: the digit list as a bit pattern (`testBit_U`), digit-wise logic, counts,
  bit access, powers of two, bit/byte reversal.
-/
namespace Bnum.Bits

/-- all digits `< 2^w` (the part of `WF` that does not mention the length) -/
def Digits (w : Nat) (x : List Nat) : Prop := ∀ d ∈ x, d < B w

theorem Digits_wf {w : Nat} {x : List Nat} (h : Digits w x) : WF w x.length x := ⟨rfl, h⟩
theorem Digits_nil (w : Nat) : Digits w [] := by intro d hd; simp at hd
theorem Digits_cons {w d : Nat} {ds : List Nat} : Digits w (d :: ds) ↔ d < B w ∧ Digits w ds := by
  simp [Digits]
theorem Digits_reverse {w : Nat} {x : List Nat} (h : Digits w x) : Digits w x.reverse :=
  fun d hd => h d (by simpa using hd)

theorem M_eq_two_pow (w n : Nat) : M w n = 2 ^ (w * n) := rfl
theorem B_eq_two_pow (w : Nat) : B w = 2 ^ w := rfl

/-! ### A. the digit list as a bit pattern -/

/-- KEY LEMMA: bit `t` of digit `j` is bit `w*j + t` of the value. -/
theorem testBit_U {w : Nat} : ∀ (x : List Nat), Digits w x → ∀ (j t : Nat), t < w →
    (U w x).testBit (w * j + t) = (x.getD j 0).testBit t
  | [], _, j, t, _ => by simp
  | d :: ds, hx, j, t, ht => by
    rw [Digits_cons] at hx
    have hd : d < 2 ^ w := hx.1
    rw [U_cons, Nat.add_comm, B_eq_two_pow, Nat.testBit_two_pow_mul_add _ hd]
    cases j with
    | zero => simp [ht]
    | succ j =>
      have h1 : ¬ (w * (j + 1) + t < w) := by rw [Nat.mul_add]; omega
      have h2 : w * (j + 1) + t - w = w * j + t := by rw [Nat.mul_add]; omega
      rw [if_neg h1, h2, testBit_U ds hx.2 j t ht]; simp

/-- bit `i` of the value, for any `i` -/
theorem testBit_U' {w : Nat} (hw : 1 ≤ w) {x : List Nat} (hx : Digits w x) (i : Nat) :
    (U w x).testBit i = (x.getD (i / w) 0).testBit (i % w) := by
  have := testBit_U x hx (i / w) (i % w) (Nat.mod_lt _ hw)
  rwa [Nat.div_add_mod] at this

theorem testBit_eq_false_of_lt {x w i : Nat} (hx : x < 2 ^ w) (hi : w ≤ i) :
    x.testBit i = false :=
  Nat.testBit_lt_two_pow (Nat.lt_of_lt_of_le hx (Nat.pow_le_pow_right (by decide) hi))

/-! ### digit-wise logic -/

theorem and_two_pow_mul_add {w a b u v : Nat} (ha : a < 2 ^ w) (hb : b < 2 ^ w) :
    (2 ^ w * u + a) &&& (2 ^ w * v + b) = 2 ^ w * (u &&& v) + (a &&& b) := by
  apply Nat.eq_of_testBit_eq; intro i
  rw [Nat.testBit_and, Nat.testBit_two_pow_mul_add _ ha, Nat.testBit_two_pow_mul_add _ hb,
    Nat.testBit_two_pow_mul_add _ (Nat.and_lt_two_pow a hb)]
  split <;> simp [Nat.testBit_and]

theorem or_two_pow_mul_add {w a b u v : Nat} (ha : a < 2 ^ w) (hb : b < 2 ^ w) :
    (2 ^ w * u + a) ||| (2 ^ w * v + b) = 2 ^ w * (u ||| v) + (a ||| b) := by
  apply Nat.eq_of_testBit_eq; intro i
  rw [Nat.testBit_or, Nat.testBit_two_pow_mul_add _ ha, Nat.testBit_two_pow_mul_add _ hb,
    Nat.testBit_two_pow_mul_add _ (Nat.or_lt_two_pow ha hb)]
  split <;> simp [Nat.testBit_or]

theorem xor_two_pow_mul_add {w a b u v : Nat} (ha : a < 2 ^ w) (hb : b < 2 ^ w) :
    (2 ^ w * u + a) ^^^ (2 ^ w * v + b) = 2 ^ w * (u ^^^ v) + (a ^^^ b) := by
  apply Nat.eq_of_testBit_eq; intro i
  rw [Nat.testBit_xor, Nat.testBit_two_pow_mul_add _ ha, Nat.testBit_two_pow_mul_add _ hb,
    Nat.testBit_two_pow_mul_add _ (Nat.xor_lt_two_pow ha hb)]
  split <;> simp [Nat.testBit_xor]


theorem bitand_spec {w : Nat} : ∀ (n : Nat) (a b : List Nat), WF w n a → WF w n b →
    WF w n (UI.bitand a b) ∧ U w (UI.bitand a b) = U w a &&& U w b := by
  intro n
  induction n with
  | zero =>
    intro a b ha hb
    have := ha.1; simp at this; subst this
    have := hb.1; simp at this; subst this
    simp [UI.bitand, WF_nil]
  | succ n ih =>
    intro a b ha hb
    match a, b, ha, hb with
    | d :: as, e :: bs, ha, hb =>
      rw [WF_cons] at ha hb
      obtain ⟨h1, h2⟩ := ih as bs ha.2 hb.2
      simp only [UI.bitand, U_cons]
      refine ⟨WF_cons.mpr ⟨Nat.and_lt_two_pow d hb.1, h1⟩, ?_⟩
      rw [h2, B_eq_two_pow, Nat.add_comm d, Nat.add_comm e,
        and_two_pow_mul_add ha.1 hb.1, Nat.add_comm]
    | [], _, ha, _ => exact absurd ha.1 (by simp)
    | _ :: _, [], _, hb => exact absurd hb.1 (by simp)

theorem bitor_spec {w : Nat} : ∀ (n : Nat) (a b : List Nat), WF w n a → WF w n b →
    WF w n (UI.bitor a b) ∧ U w (UI.bitor a b) = U w a ||| U w b := by
  intro n
  induction n with
  | zero =>
    intro a b ha hb
    have := ha.1; simp at this; subst this
    have := hb.1; simp at this; subst this
    simp [UI.bitor, WF_nil]
  | succ n ih =>
    intro a b ha hb
    match a, b, ha, hb with
    | d :: as, e :: bs, ha, hb =>
      rw [WF_cons] at ha hb
      obtain ⟨h1, h2⟩ := ih as bs ha.2 hb.2
      simp only [UI.bitor, U_cons]
      refine ⟨WF_cons.mpr ⟨Nat.or_lt_two_pow ha.1 hb.1, h1⟩, ?_⟩
      rw [h2, B_eq_two_pow, Nat.add_comm d, Nat.add_comm e,
        or_two_pow_mul_add ha.1 hb.1, Nat.add_comm]
    | [], _, ha, _ => exact absurd ha.1 (by simp)
    | _ :: _, [], _, hb => exact absurd hb.1 (by simp)

theorem bitxor_spec {w : Nat} : ∀ (n : Nat) (a b : List Nat), WF w n a → WF w n b →
    WF w n (UI.bitxor a b) ∧ U w (UI.bitxor a b) = U w a ^^^ U w b := by
  intro n
  induction n with
  | zero =>
    intro a b ha hb
    have := ha.1; simp at this; subst this
    have := hb.1; simp at this; subst this
    simp [UI.bitxor, WF_nil]
  | succ n ih =>
    intro a b ha hb
    match a, b, ha, hb with
    | d :: as, e :: bs, ha, hb =>
      rw [WF_cons] at ha hb
      obtain ⟨h1, h2⟩ := ih as bs ha.2 hb.2
      simp only [UI.bitxor, U_cons]
      refine ⟨WF_cons.mpr ⟨Nat.xor_lt_two_pow ha.1 hb.1, h1⟩, ?_⟩
      rw [h2, B_eq_two_pow, Nat.add_comm d, Nat.add_comm e,
        xor_two_pow_mul_add ha.1 hb.1, Nat.add_comm]
    | [], _, ha, _ => exact absurd ha.1 (by simp)
    | _ :: _, [], _, hb => exact absurd hb.1 (by simp)


theorem bnot_spec {w : Nat} : ∀ (n : Nat) (a : List Nat), WF w n a →
    WF w n (bnot w a) ∧ U w (bnot w a) = M w n - 1 - U w a := by
  intro n
  induction n with
  | zero =>
    intro a ha
    have := ha.1; simp at this; subst this
    simp [bnot, WF_nil, M_zero]
  | succ n ih =>
    intro a ha
    match a, ha with
    | d :: as, ha =>
      rw [WF_cons] at ha
      obtain ⟨h1, h2⟩ := ih as ha.2
      have hu := U_lt ha.2
      have hd := ha.1
      unfold bnot at h1 h2 ⊢
      simp only [List.map_cons, U_cons, Prim.not]
      refine ⟨WF_cons.mpr ⟨by omega, h1⟩, ?_⟩
      rw [h2, M_succ]
      generalize M w n = m at *; generalize U w as = u at *; generalize B w = b at *
      obtain ⟨k, rfl⟩ : ∃ k, m = u + 1 + k := ⟨m - 1 - u, by omega⟩
      have e1 : u + 1 + k - 1 - u = k := by omega
      have e2 : b * (u + 1 + k) = b * u + b + b * k := by ring
      rw [e1, e2]; omega
    | [], ha => exact absurd ha.1 (by simp)

theorem testBit_compl {W v : Nat} (hv : v < 2 ^ W) (i : Nat) :
    (2 ^ W - 1 - v).testBit i = (decide (i < W) && !v.testBit i) := by
  have : 2 ^ W - 1 - v = 2 ^ W - (v + 1) := by omega
  rw [this, Nat.testBit_two_pow_sub_succ hv]

/-! ### B. popcount -/

theorem popLoop_eq : ∀ (f x : Nat), Prim.popLoop f x = Spec.popcount f x
  | 0, _ => rfl
  | f + 1, x => by simp [Prim.popLoop, Spec.popcount, popLoop_eq f]

theorem two_pow_succ_mul (w u : Nat) : 2 ^ (w + 1) * u = 2 * (2 ^ w * u) := by
  rw [Nat.pow_succ]; ring

theorem popcount_add : ∀ (w k d u : Nat), d < 2 ^ w →
    Spec.popcount (w + k) (d + 2 ^ w * u) = Spec.popcount w d + Spec.popcount k u
  | 0, k, d, u, hd => by
    have : d = 0 := by simpa using hd
    subst this; simp [Spec.popcount]
  | w + 1, k, d, u, hd => by
    have e : w + 1 + k = (w + k) + 1 := by omega
    rw [e]
    simp only [Spec.popcount]
    rw [two_pow_succ_mul]
    have h1 : (d + 2 * (2 ^ w * u)) % 2 = d % 2 := by omega
    have h2 : (d + 2 * (2 ^ w * u)) / 2 = d / 2 + 2 ^ w * u := by omega
    rw [h1, h2, popcount_add w k (d / 2) u (by rw [Nat.pow_succ] at hd; omega)]
    omega

theorem popcount_compl : ∀ (f x : Nat), x < 2 ^ f →
    Spec.popcount f (2 ^ f - 1 - x) + Spec.popcount f x = f
  | 0, _, _ => by simp [Spec.popcount]
  | f + 1, x, hx => by
    simp only [Spec.popcount]
    rw [Nat.pow_succ] at hx ⊢
    have h1 : (2 ^ f * 2 - 1 - x) % 2 = 1 - x % 2 := by omega
    have h2 : (2 ^ f * 2 - 1 - x) / 2 = 2 ^ f - 1 - x / 2 := by omega
    have := popcount_compl f (x / 2) (by omega)
    rw [h1, h2]; omega

theorem popcount_le (f x : Nat) : Spec.popcount f x ≤ f := by
  induction f generalizing x with
  | zero => simp [Spec.popcount]
  | succ f ih => simp only [Spec.popcount]; have := ih (x / 2); omega

theorem popcount_eq_zero : ∀ (f x : Nat), x < 2 ^ f → (Spec.popcount f x = 0 ↔ x = 0)
  | 0, x, hx => by simp [Spec.popcount]; simpa using hx
  | f + 1, x, hx => by
    simp only [Spec.popcount]
    rw [Nat.pow_succ] at hx
    have := popcount_eq_zero f (x / 2) (by omega)
    omega

/-- popcount is `1` exactly on the powers of two -/
theorem popcount_eq_one : ∀ (f x : Nat), x < 2 ^ f → (Spec.popcount f x = 1 ↔ ∃ k, x = 2 ^ k)
  | 0, x, hx => by
    have : x = 0 := by simpa using hx
    subst this
    simp only [Spec.popcount]
    constructor
    · intro h; omega
    · rintro ⟨k, hk⟩; have := Nat.two_pow_pos k; omega
  | f + 1, x, hx => by
    simp only [Spec.popcount]
    rw [Nat.pow_succ] at hx
    have h0 := popcount_eq_zero f (x / 2) (by omega)
    have h1 := popcount_eq_one f (x / 2) (by omega)
    constructor
    · intro h
      by_cases hx2 : x % 2 = 1
      · have : x / 2 = 0 := h0.mp (by omega)
        exact ⟨0, by simp; omega⟩
      · obtain ⟨k, hk⟩ := h1.mp (by omega)
        exact ⟨k + 1, by rw [Nat.pow_succ]; omega⟩
    · rintro ⟨k, hk⟩
      cases k with
      | zero =>
        have : x = 1 := by simpa using hk
        subst this; have := h0.mpr (by decide); omega
      | succ k =>
        rw [Nat.pow_succ] at hk
        have := h1.mpr ⟨k, by omega⟩
        omega


theorem countOnesLoop_spec {w : Nat} : ∀ (x : List Nat), Digits w x → ∀ acc,
    UI.countOnesLoop w x acc = acc + Spec.popcount (w * x.length) (U w x)
  | [], _, acc => by simp [UI.countOnesLoop, Spec.popcount]
  | d :: ds, hx, acc => by
    rw [Digits_cons] at hx
    simp only [UI.countOnesLoop, List.length_cons, U_cons]
    rw [countOnesLoop_spec ds hx.2, Nat.mul_add, Nat.mul_one, Nat.add_comm (w * ds.length) w,
      B_eq_two_pow, popcount_add w _ d _ hx.1, Prim.countOnes, popLoop_eq]
    omega

/-- C06: `count_ones` is the number of set bits among the `w*n` bits of the pattern. -/
theorem countOnes_spec {w n : Nat} {x : List Nat} (hx : WF w n x) :
    UI.countOnes w x = Spec.popcount (w * n) (U w x) := by
  unfold UI.countOnes; rw [countOnesLoop_spec x hx.2, hx.1]; omega

theorem countZerosLoop_spec {w : Nat} : ∀ (x : List Nat), Digits w x → ∀ acc,
    UI.countZerosLoop w x acc + Spec.popcount (w * x.length) (U w x) = acc + w * x.length
  | [], _, acc => by simp [UI.countZerosLoop, Spec.popcount]
  | d :: ds, hx, acc => by
    rw [Digits_cons] at hx
    simp only [UI.countZerosLoop, List.length_cons, U_cons]
    have ih := countZerosLoop_spec ds hx.2 (acc + Prim.countZeros w d)
    have hc := popcount_compl w d hx.1
    rw [Nat.mul_add, Nat.mul_one, Nat.add_comm (w * ds.length) w,
      B_eq_two_pow, popcount_add w _ d _ hx.1]
    unfold Prim.countZeros Prim.countOnes Prim.not at *
    rw [popLoop_eq] at *
    rw [B_eq_two_pow] at *
    omega

/-- C06: `count_zeros` is `BITS - count_ones`. -/
theorem countZeros_spec {w n : Nat} {x : List Nat} (hx : WF w n x) :
    UI.countZeros w x = w * n - Spec.popcount (w * n) (U w x) := by
  have := countZerosLoop_spec x hx.2 0
  unfold UI.countZeros; rw [hx.1] at this; omega

/-! ### C. bit length, leading zeros -/

/-- characterisation of the bit length: `bitLen v ≤ k ↔ v < 2^k` -/
theorem bitLen_le_iff (v k : Nat) : Spec.bitLen v ≤ k ↔ v < 2 ^ k := by
  unfold Spec.bitLen
  by_cases hv : v = 0
  · subst hv; simp
  · rw [if_neg hv, ← Nat.log2_lt hv]; omega

theorem eq_of_forall_le_iff {a b : Nat} (h : ∀ k, a ≤ k ↔ b ≤ k) : a = b := by
  have h1 := h a; have h2 := h b; omega

theorem lt_two_pow_bitLen (v : Nat) : v < 2 ^ Spec.bitLen v := (bitLen_le_iff v _).mp (Nat.le_refl _)

theorem two_pow_le_of_bitLen {v : Nat} (hv : v ≠ 0) : 2 ^ (Spec.bitLen v - 1) ≤ v := by
  by_contra h
  have := (bitLen_le_iff v (Spec.bitLen v - 1)).mpr (by omega)
  have h0 : ¬ Spec.bitLen v ≤ 0 := by rw [bitLen_le_iff]; simp; omega
  omega

theorem bitLen_zero : Spec.bitLen 0 = 0 := by simp [Spec.bitLen]
theorem bitLen_pos {v : Nat} (hv : v ≠ 0) : 1 ≤ Spec.bitLen v := by
  have h0 : ¬ Spec.bitLen v ≤ 0 := by rw [bitLen_le_iff]; simp; omega
  omega

theorem bitLen_half {d : Nat} (hd : d ≠ 0) : Spec.bitLen d = 1 + Spec.bitLen (d / 2) := by
  have hp := bitLen_pos hd
  have h : ∀ k, Spec.bitLen (d / 2) ≤ k ↔ Spec.bitLen d ≤ k + 1 := by
    intro k; rw [bitLen_le_iff, bitLen_le_iff, Nat.pow_succ]; omega
  have h1 := h (Spec.bitLen (d / 2))
  have h2 := h (Spec.bitLen d - 1)
  omega

theorem lenLoop_eq : ∀ (f d : Nat), d < 2 ^ f → Prim.lenLoop f d = Spec.bitLen d
  | 0, d, hd => by
    have : d = 0 := by simpa using hd
    subst this; simp [Prim.lenLoop, bitLen_zero]
  | f + 1, d, hd => by
    unfold Prim.lenLoop
    by_cases h0 : d = 0
    · subst h0; simp [bitLen_zero]
    · rw [Nat.pow_succ] at hd
      simp only [beq_iff_eq, h0, if_false]
      rw [lenLoop_eq f (d / 2) (by omega), bitLen_half h0]

/-- the bit length of `u + 2^k * d` with `u < 2^k`, `d ≠ 0` -/
theorem bitLen_add_mul {u k d : Nat} (hu : u < 2 ^ k) (hd : d ≠ 0) :
    Spec.bitLen (u + 2 ^ k * d) = k + Spec.bitLen d := by
  apply eq_of_forall_le_iff
  intro j
  rw [bitLen_le_iff]
  by_cases hj : k ≤ j
  · obtain ⟨i, rfl⟩ := Nat.exists_eq_add_of_le hj
    have : k + Spec.bitLen d ≤ k + i ↔ Spec.bitLen d ≤ i := by omega
    rw [this, bitLen_le_iff, Nat.pow_add]
    constructor
    · intro h
      by_contra hc
      have : 2 ^ k * 2 ^ i ≤ 2 ^ k * d := Nat.mul_le_mul_left _ (by omega)
      omega
    · intro h
      have : 2 ^ k * (d + 1) ≤ 2 ^ k * 2 ^ i := Nat.mul_le_mul_left _ h
      rw [Nat.mul_add] at this; omega
  · have h1 : 2 ^ j < 2 ^ k := Nat.pow_lt_pow_right (by decide) (by omega)
    have h2 : 2 ^ k * 1 ≤ 2 ^ k * d := Nat.mul_le_mul_left _ (by omega)
    have := bitLen_pos hd
    constructor
    · intro h; omega
    · intro h; omega

theorem leadingZeros_prim {w d : Nat} (hd : d < 2 ^ w) :
    Prim.leadingZeros w d = w - Spec.bitLen d := by
  unfold Prim.leadingZeros; rw [lenLoop_eq w d hd]

theorem bitLen_le_of_lt {v k : Nat} (h : v < 2 ^ k) : Spec.bitLen v ≤ k := (bitLen_le_iff v k).mpr h

theorem U_lt' {w : Nat} {x : List Nat} (hx : Digits w x) : U w x < 2 ^ (w * x.length) :=
  U_lt (Digits_wf hx)

/-- loop invariant of `leading_zeros` over the reversed (most-significant-first) digits -/
theorem lzLoop_spec {w : Nat} : ∀ (r : List Nat), Digits w r → ∀ z,
    UI.lzLoop w r z = z + (w * r.length - Spec.bitLen (U w r.reverse))
  | [], _, z => by simp [UI.lzLoop, bitLen_zero]
  | d :: rs, hr, z => by
    rw [Digits_cons] at hr
    have hrev := Digits_reverse hr.2
    have hu := U_lt' hrev
    rw [List.length_reverse] at hu
    have hd : d < 2 ^ w := hr.1
    have hbl := bitLen_le_of_lt hu
    simp only [UI.lzLoop, List.reverse_cons, List.length_cons]
    rw [Cmp.U_snoc, List.length_reverse, B_eq_two_pow, ← Nat.pow_mul, leadingZeros_prim hd]
    by_cases h0 : d = 0
    · subst h0
      simp only [bne_self_eq_false, Bool.false_eq_true, if_false, Nat.mul_zero, Nat.add_zero]
      rw [lzLoop_spec rs hr.2, bitLen_zero, Nat.mul_add]; omega
    · have : (d != 0) = true := by simp [h0]
      rw [if_pos this, bitLen_add_mul hu h0, Nat.mul_add]
      have := bitLen_le_of_lt hd
      omega

/-- C06: `leading_zeros = BITS - bitLen(pattern)` (`BITS` for the zero pattern). -/
theorem leadingZeros_spec {w n : Nat} {x : List Nat} (hx : WF w n x) :
    UI.leadingZeros w x = w * n - Spec.bitLen (U w x) := by
  unfold UI.leadingZeros
  rw [lzLoop_spec x.reverse (Digits_reverse hx.2)]; simp [hx.1]

theorem leadingZeros_le {w n : Nat} {x : List Nat} (hx : WF w n x) :
    UI.leadingZeros w x ≤ w * n := by rw [leadingZeros_spec hx]; omega

/-- C06: `bits()` is the bit length of the pattern. -/
theorem bits_spec {w n : Nat} {x : List Nat} (hx : WF w n x) :
    UI.bits w x = Spec.bitLen (U w x) := by
  unfold UI.bits
  rw [leadingZeros_spec hx, hx.1]
  have := bitLen_le_of_lt (U_lt hx); omega

/-! ### D. trailing zeros -/

theorem tzLoop_eq : ∀ (f x : Nat), Prim.tzLoop f x = Spec.trailingZeros f x
  | 0, _ => rfl
  | f + 1, x => by
    simp only [Prim.tzLoop, Spec.trailingZeros, tzLoop_eq f, beq_iff_eq]

theorem trailingZeros_zero : ∀ f, Spec.trailingZeros f 0 = f
  | 0 => rfl
  | f + 1 => by simp [Spec.trailingZeros, trailingZeros_zero f]; omega

theorem trailingZeros_add : ∀ (w k d u : Nat), d < 2 ^ w →
    Spec.trailingZeros (w + k) (d + 2 ^ w * u) =
      if d = 0 then w + Spec.trailingZeros k u else Spec.trailingZeros w d
  | 0, k, d, u, hd => by
    have : d = 0 := by simpa using hd
    subst this; simp
  | w + 1, k, d, u, hd => by
    have e : w + 1 + k = (w + k) + 1 := by omega
    rw [e]
    simp only [Spec.trailingZeros]
    rw [two_pow_succ_mul]
    have h1 : (d + 2 * (2 ^ w * u)) % 2 = d % 2 := by omega
    have h2 : (d + 2 * (2 ^ w * u)) / 2 = d / 2 + 2 ^ w * u := by omega
    rw [Nat.pow_succ] at hd
    rw [h1, h2, trailingZeros_add w k (d / 2) u (by omega)]
    by_cases hodd : d % 2 = 1
    · have : d ≠ 0 := by omega
      simp [hodd, this]
    · simp only [hodd, if_false]
      by_cases h0 : d = 0
      · subst h0; simp; omega
      · have : d / 2 ≠ 0 := by omega
        simp [h0, this]

theorem tzLoopU_spec {w : Nat} : ∀ (x : List Nat), Digits w x → ∀ z,
    UI.tzLoop w x z = z + Spec.trailingZeros (w * x.length) (U w x)
  | [], _, z => by simp [UI.tzLoop, Spec.trailingZeros]
  | d :: ds, hx, z => by
    rw [Digits_cons] at hx
    simp only [UI.tzLoop, List.length_cons, U_cons]
    rw [Nat.mul_add, Nat.mul_one, Nat.add_comm (w * ds.length) w, B_eq_two_pow,
      trailingZeros_add w _ d _ hx.1, Prim.trailingZeros, tzLoop_eq]
    by_cases h0 : d = 0
    · subst h0
      simp only [bne_self_eq_false, Bool.false_eq_true, if_false, if_true]
      rw [tzLoopU_spec ds hx.2, trailingZeros_zero]; omega
    · have : (d != 0) = true := by simp [h0]
      rw [if_pos this, if_neg h0]

/-- C06: `trailing_zeros` of the pattern (`BITS` for zero). -/
theorem trailingZeros_spec {w n : Nat} {x : List Nat} (hx : WF w n x) :
    UI.trailingZeros w x = Spec.trailingZeros (w * n) (U w x) := by
  unfold UI.trailingZeros; rw [tzLoopU_spec x hx.2, hx.1]; omega

/-- meaning of `Spec.trailingZeros`: all lower bits are clear, and (unless it hit the cap `W`) the
    bit at that position is set -/
theorem trailingZeros_char : ∀ (W v : Nat),
    Spec.trailingZeros W v ≤ W ∧ (∀ i, i < Spec.trailingZeros W v → v.testBit i = false) ∧
    (Spec.trailingZeros W v < W → v.testBit (Spec.trailingZeros W v) = true)
  | 0, v => by simp [Spec.trailingZeros]
  | W + 1, v => by
    obtain ⟨h1, h2, h3⟩ := trailingZeros_char W (v / 2)
    simp only [Spec.trailingZeros]
    by_cases hodd : v % 2 = 1
    · simp [hodd, Nat.testBit_zero]
    · simp only [hodd, if_false]
      refine ⟨by omega, ?_, ?_⟩
      · intro i hi
        cases i with
        | zero => simp [Nat.testBit_zero, hodd]
        | succ i => rw [Nat.testBit_succ]; exact h2 i (by omega)
      · intro h
        rw [Nat.add_comm, Nat.testBit_succ]; exact h3 (by omega)

/-! ### E. leading / trailing ones = leading / trailing zeros of the complement -/

theorem not_ne_zero_iff {w d : Nat} (hd : d < B w) : (Prim.not w d != 0) = (d != B w - 1) := by
  unfold Prim.not
  by_cases h : d = B w - 1
  · have : B w - 1 - d = 0 := by omega
    simp [h]
  · have : B w - 1 - d ≠ 0 := by omega
    have e1 : (B w - 1 - d != 0) = true := by simpa using this
    have e2 : (d != B w - 1) = true := by simpa using h
    rw [e1, e2]

theorem loLoop_eq {w : Nat} : ∀ (r : List Nat), Digits w r → ∀ z,
    UI.loLoop w r z = UI.lzLoop w (r.map (Prim.not w)) z
  | [], _, z => rfl
  | d :: rs, hr, z => by
    rw [Digits_cons] at hr
    simp only [UI.loLoop, UI.lzLoop, List.map_cons, not_ne_zero_iff hr.1, Prim.leadingOnes]
    rw [loLoop_eq rs hr.2]

theorem toLoop_eq {w : Nat} : ∀ (r : List Nat), Digits w r → ∀ z,
    UI.toLoop w r z = UI.tzLoop w (r.map (Prim.not w)) z
  | [], _, z => rfl
  | d :: rs, hr, z => by
    rw [Digits_cons] at hr
    simp only [UI.toLoop, UI.tzLoop, List.map_cons, not_ne_zero_iff hr.1, Prim.trailingOnes]
    rw [toLoop_eq rs hr.2]

/-- C06 (model level): `leading_ones(a) = leading_zeros(!a)` -/
theorem leadingOnes_eq_not {w n : Nat} {x : List Nat} (hx : WF w n x) :
    UI.leadingOnes w x = UI.leadingZeros w (UI.not w x) := by
  unfold UI.leadingOnes UI.leadingZeros UI.not bnot
  rw [loLoop_eq _ (Digits_reverse hx.2), List.map_reverse]

theorem trailingOnes_eq_not {w n : Nat} {x : List Nat} (hx : WF w n x) :
    UI.trailingOnes w x = UI.trailingZeros w (UI.not w x) := by
  unfold UI.trailingOnes UI.trailingZeros UI.not bnot
  rw [toLoop_eq _ hx.2]

theorem leadingOnes_spec {w n : Nat} {x : List Nat} (hx : WF w n x) :
    UI.leadingOnes w x = Spec.leadingOnes (w * n) (U w x) := by
  rw [leadingOnes_eq_not hx]
  obtain ⟨h1, h2⟩ := bnot_spec n x hx
  unfold UI.not Spec.leadingOnes Spec.leadingZeros Spec.compl
  rw [leadingZeros_spec h1, h2]; rfl

theorem trailingOnes_spec {w n : Nat} {x : List Nat} (hx : WF w n x) :
    UI.trailingOnes w x = Spec.trailingOnes (w * n) (U w x) := by
  rw [trailingOnes_eq_not hx]
  obtain ⟨h1, h2⟩ := bnot_spec n x hx
  unfold UI.not Spec.trailingOnes Spec.compl
  rw [trailingZeros_spec h1, h2]; rfl

/-! ### F. bit, set_bit, power_of_two -/

theorem tzLoop_two_pow : ∀ (f s : Nat), s < f → Prim.tzLoop f (2 ^ s) = s
  | 0, s, h => by omega
  | f + 1, 0, _ => by simp [Prim.tzLoop]
  | f + 1, s + 1, h => by
    unfold Prim.tzLoop
    have h1 : 2 ^ (s + 1) % 2 = 0 := by rw [Nat.pow_succ]; omega
    have h2 : 2 ^ (s + 1) / 2 = 2 ^ s := by rw [Nat.pow_succ]; omega
    rw [h1, h2, tzLoop_two_pow f s (by omega)]; simp; omega

/-- for a power-of-two digit width `w = 2^s` (`s < 32`, i.e. it fits the `u32` constant `BITS`),
    `BIT_SHIFT = s` -/
theorem bitShift_pow2 {s : Nat} (hs : s < 32) : bitShift (2 ^ s) = s := tzLoop_two_pow 32 s hs

theorem digitIndex_eq {s : Nat} (hs : s < 32) (i : Nat) : digitIndex (2 ^ s) i = i / 2 ^ s := by
  unfold digitIndex; rw [bitShift_pow2 hs, Nat.shiftRight_eq_div_pow]

theorem bitIndex_eq (s i : Nat) : bitIndex (2 ^ s) i = i % 2 ^ s := by
  unfold bitIndex; rw [Nat.and_two_pow_sub_one_eq_mod]

theorem and_one_shiftLeft_ne_zero (d t : Nat) : ((d &&& (1 <<< t)) != 0) = d.testBit t := by
  rw [Nat.one_shiftLeft]
  cases h : d.testBit t
  · have : d &&& 2 ^ t = 0 := by
      apply Nat.eq_of_testBit_eq; intro i
      rw [Nat.testBit_and, Nat.testBit_two_pow, Nat.zero_testBit]
      by_cases hi : t = i
      · subst hi; simp [h]
      · simp [hi]
    simp [this]
  · have : (d &&& 2 ^ t).testBit t = true := by
      rw [Nat.testBit_and, Nat.testBit_two_pow, h]; simp
    have h0 : d &&& 2 ^ t ≠ 0 := by
      intro e; rw [e, Nat.zero_testBit] at this; exact Bool.false_ne_true this
    simp [h0]

theorem div_lt_iff' {w i n : Nat} (hw : 0 < w) : i / w < n ↔ i < w * n := by
  rw [Nat.div_lt_iff_lt_mul hw, Nat.mul_comm]

/-- C06: `bit(i)` panics for `i ≥ BITS` (array index out of bounds) and otherwise reads exactly
    bit `i` of the pattern.  (`w = 2^s`: see the modelling note in Model/BitOps.lean.) -/
theorem bit_spec {s n : Nat} (hs : s < 32) {x : List Nat} (hx : WF (2 ^ s) n x) (i : Nat) :
    UI.bit (2 ^ s) x i =
      if i < 2 ^ s * n then .ok ((U (2 ^ s) x).testBit i) else .panic := by
  have hw : 0 < 2 ^ s := Nat.two_pow_pos s
  unfold UI.bit
  rw [digitIndex_eq hs, bitIndex_eq]
  by_cases hi : i < 2 ^ s * n
  · have hlt : i / 2 ^ s < x.length := by rw [hx.1]; exact (div_lt_iff' hw).mpr hi
    rw [if_pos hi, List.getElem?_eq_getElem hlt]
    simp only [and_one_shiftLeft_ne_zero]
    rw [testBit_U' hw hx.2, List.getD_eq_getElem?_getD, List.getElem?_eq_getElem hlt]; rfl
  · have : x[i / 2 ^ s]? = none := by
      rw [List.getElem?_eq_none_iff, hx.1]
      have := (div_lt_iff' (n := n) (i := i) hw); omega
    rw [if_neg hi, this]

theorem Digits_set {w : Nat} {x : List Nat} (hx : Digits w x) {k e : Nat} (he : e < B w) :
    Digits w (x.set k e) := by
  intro d hd
  rcases List.mem_or_eq_of_mem_set hd with h | h
  · exact hx d h
  · subst h; exact he

/-- the digit written by `set_bit` -/
theorem setBit_digit {w d t : Nat} (hd : d < 2 ^ w) (ht : t < w) (v : Bool) :
    ((d &&& Prim.not w (1 <<< t)) ||| (v.toNat <<< t)) < 2 ^ w ∧
    ∀ j, ((d &&& Prim.not w (1 <<< t)) ||| (v.toNat <<< t)).testBit j =
      if j = t then v else d.testBit j := by
  have h2t : 2 ^ t < 2 ^ w := Nat.pow_lt_pow_right (by decide) ht
  have hb : ∀ j, ((d &&& Prim.not w (1 <<< t)) ||| (v.toNat <<< t)).testBit j =
      if j = t then v else d.testBit j := by
    intro j
    unfold Prim.not
    rw [Nat.one_shiftLeft, B_eq_two_pow, Nat.testBit_or, Nat.testBit_and, testBit_compl h2t,
      Nat.testBit_two_pow, Nat.testBit_shiftLeft, Nat.testBit_bool_toNat]
    by_cases hj : j = t
    · subst hj; simp
    · have h1 : ¬ t = j := fun h => hj h.symm
      by_cases hjw : j < w
      · by_cases hge : j ≥ t
        · have : ¬ j - t = 0 := by omega
          simp [hj, h1, hjw, this]
        · simp [hj, h1, hjw, hge]
      · have := testBit_eq_false_of_lt hd (Nat.le_of_not_lt hjw)
        by_cases hge : j ≥ t
        · have h3 : ¬ j - t = 0 := by omega
          simp [hj, hjw, this, h3]
        · simp [hj, hjw, this, hge]
  refine ⟨?_, hb⟩
  apply Nat.lt_pow_two_of_testBit
  intro j hj
  rw [hb j, if_neg (by omega)]
  exact testBit_eq_false_of_lt hd hj

/-- C06: `set_bit(i, v)` panics for `i ≥ BITS`; otherwise the result is well-formed, its bit `i`
    is `v` and every other bit is unchanged. -/
theorem setBit_spec {s n : Nat} (hs : s < 32) {x : List Nat} (hx : WF (2 ^ s) n x) (i : Nat)
    (v : Bool) :
    (2 ^ s * n ≤ i → UI.setBit (2 ^ s) x i v = .panic) ∧
    (i < 2 ^ s * n → ∃ r, UI.setBit (2 ^ s) x i v = .ok r ∧ WF (2 ^ s) n r ∧
      ∀ j, (U (2 ^ s) r).testBit j = if j = i then v else (U (2 ^ s) x).testBit j) := by
  have hw : 0 < 2 ^ s := Nat.two_pow_pos s
  unfold UI.setBit
  rw [digitIndex_eq hs, bitIndex_eq]
  constructor
  · intro hi
    have : x[i / 2 ^ s]? = none := by
      rw [List.getElem?_eq_none_iff, hx.1]
      have := (div_lt_iff' (n := n) (i := i) hw); omega
    rw [this]
  · intro hi
    have hlt : i / 2 ^ s < x.length := by rw [hx.1]; exact (div_lt_iff' hw).mpr hi
    rw [List.getElem?_eq_getElem hlt]
    have hd : x[i / 2 ^ s] < 2 ^ 2 ^ s := hx.2 _ (List.getElem_mem hlt)
    obtain ⟨h1, h2⟩ := setBit_digit hd (Nat.mod_lt i hw) v
    dsimp only
    generalize (x[i / 2 ^ s] &&& Prim.not (2 ^ s) (1 <<< (i % 2 ^ s))) |||
      (v.toNat <<< (i % 2 ^ s)) = e at h1 h2 ⊢
    have hdig : Digits (2 ^ s) (x.set (i / 2 ^ s) e) := Digits_set hx.2 h1
    refine ⟨_, rfl, ⟨by simp [hx.1], hdig⟩, ?_⟩
    intro j
    rw [testBit_U' hw hdig, testBit_U' hw hx.2, List.getD_eq_getElem?_getD,
      List.getD_eq_getElem?_getD, List.getElem?_set]
    by_cases hq : i / 2 ^ s = j / 2 ^ s
    · rw [if_pos hq, if_pos hlt, Option.getD_some, h2, ← hq, List.getElem?_eq_getElem hlt,
        Option.getD_some]
      by_cases hji : j = i
      · subst hji; simp
      · have : ¬ j % 2 ^ s = i % 2 ^ s := by
          intro hm
          have e1 := Nat.div_add_mod i (2 ^ s)
          have e2 := Nat.div_add_mod j (2 ^ s)
          rw [hq] at e1; omega
        rw [if_neg this, if_neg hji]
    · have hji : ¬ j = i := by intro h; subst h; exact hq rfl
      rw [if_neg hq, if_neg hji]

theorem U_set_zero {w : Nat} (e : Nat) : ∀ (n k : Nat), k < n →
    U w ((zero n).set k e) = B w ^ k * e
  | 0, k, h => by omega
  | n + 1, 0, _ => by
    simp [zero, List.replicate_succ, U_replicate_zero]
  | n + 1, k + 1, h => by
    have := U_set_zero (w := w) e n k (by omega)
    unfold zero at this ⊢
    simp only [List.replicate_succ, List.set_cons_succ, U_cons, this]
    rw [Nat.pow_succ]; ring

/-- C06: `power_of_two(k)` panics for `k ≥ BITS` and otherwise is `2^k`. -/
theorem powerOfTwo_spec {s : Nat} (hs : s < 32) (n k : Nat) :
    (2 ^ s * n ≤ k → UI.powerOfTwo (2 ^ s) n k = .panic) ∧
    (k < 2 ^ s * n → ∃ r, UI.powerOfTwo (2 ^ s) n k = .ok r ∧ WF (2 ^ s) n r ∧
      U (2 ^ s) r = 2 ^ k) := by
  have hw : 0 < 2 ^ s := Nat.two_pow_pos s
  unfold UI.powerOfTwo
  rw [digitIndex_eq hs, bitIndex_eq]
  have hiff := div_lt_iff' (n := n) (i := k) hw
  constructor
  · intro hk; rw [if_neg (by omega)]
  · intro hk
    rw [if_pos (hiff.mpr hk)]
    have h2 : (1 : Nat) <<< (k % 2 ^ s) < B (2 ^ s) := by
      rw [Nat.one_shiftLeft, B_eq_two_pow]
      exact Nat.pow_lt_pow_right (by decide) (Nat.mod_lt k hw)
    refine ⟨_, rfl, ⟨by simp [zero], Digits_set (WF_zero _ n).2 h2⟩, ?_⟩
    rw [U_set_zero _ n _ (hiff.mpr hk), Nat.one_shiftLeft, B_eq_two_pow, ← Nat.pow_mul,
      ← Nat.pow_add, Nat.div_add_mod]

/-! ### G. is_power_of_two -/

theorem isPow2Loop_spec {w : Nat} : ∀ (x : List Nat), Digits w x → ∀ ones,
    UI.isPow2Loop w x ones = (ones + Spec.popcount (w * x.length) (U w x) == 1)
  | [], _, ones => by simp [UI.isPow2Loop, Spec.popcount]
  | d :: ds, hx, ones => by
    rw [Digits_cons] at hx
    simp only [UI.isPow2Loop, List.length_cons, U_cons]
    rw [Nat.mul_add, Nat.mul_one, Nat.add_comm (w * ds.length) w, B_eq_two_pow,
      popcount_add w _ d _ hx.1, Prim.countOnes, popLoop_eq]
    by_cases h : ones + Spec.popcount w d > 1
    · rw [if_pos h]; symm; rw [beq_eq_false_iff_ne]; omega
    · rw [if_neg h, isPow2Loop_spec ds hx.2, Nat.add_assoc]

/-- C06: `is_power_of_two` ⇔ the pattern is `2^k` for some `k` (in particular non-zero). -/
theorem isPowerOfTwo_iff {w n : Nat} {x : List Nat} (hx : WF w n x) :
    UI.isPowerOfTwo w x = true ↔ ∃ k, U w x = 2 ^ k := by
  unfold UI.isPowerOfTwo
  rw [isPow2Loop_spec x hx.2, hx.1, beq_iff_eq, Nat.zero_add]
  exact popcount_eq_one (w * n) (U w x) (U_lt hx)

/-- signed `is_power_of_two` ⇔ the two's-complement value is `2^k` -/
theorem i_isPowerOfTwo_iff {w n : Nat} (hw : 1 ≤ w) (hn : 1 ≤ n) {x : List Nat} (hx : WF w n x) :
    II.isPowerOfTwo w x = true ↔ ∃ k : Nat, S w x = 2 ^ k := by
  unfold II.isPowerOfTwo
  have hneg := isNegative_iff' hw hn hx
  have hp := isPowerOfTwo_iff hx
  by_cases h : S w x < 0
  · rw [hneg.mpr h]
    simp only [Bool.not_true, Bool.false_and, Bool.false_eq_true, false_iff]
    rintro ⟨k, hk⟩
    have : (0 : Int) < 2 ^ k := by positivity
    omega
  · have h' : isNegative w x = false := by
      cases hh : isNegative w x
      · rfl
      · exact absurd (hneg.mp hh) h
    rw [h', Bool.not_false, Bool.true_and, hp, S_of_nonneg hx (by omega)]
    constructor
    · rintro ⟨k, hk⟩; exact ⟨k, by rw [hk]; push_cast; rfl⟩
    · rintro ⟨k, hk⟩; exact ⟨k, by exact_mod_cast hk⟩

/-! ### H. next_power_of_two -/

/-- `p` is the least power of two `≥ v` -/
def IsNextPow2 (v p : Nat) : Prop := ∃ k, p = 2 ^ k ∧ v ≤ p ∧ ∀ j, v ≤ 2 ^ j → k ≤ j

theorem pow_le_pow_of_lt {a b : Nat} (h : a < b) : 2 ^ a ≤ 2 ^ (b - 1) :=
  Nat.pow_le_pow_right (by decide) (by omega)

theorem bitLen_le_of_le_two_pow {v : Nat} (hnp : ¬ ∃ k, v = 2 ^ k) {j : Nat} (hj : v ≤ 2 ^ j) :
    Spec.bitLen v ≤ j := by
  by_contra hc
  by_cases h0 : v = 0
  · subst h0; rw [bitLen_zero] at hc; omega
  · have h1 := two_pow_le_of_bitLen h0
    have h2 := pow_le_pow_of_lt (show j < Spec.bitLen v by omega)
    exact hnp ⟨Spec.bitLen v - 1, by omega⟩

/-- a non-power-of-two `v`: the next power of two is `2^bitLen v` -/
theorem isNextPow2_bitLen {v : Nat} (hnp : ¬ ∃ k, v = 2 ^ k) :
    IsNextPow2 v (2 ^ Spec.bitLen v) :=
  ⟨_, rfl, Nat.le_of_lt (lt_two_pow_bitLen v), fun _ hj => bitLen_le_of_le_two_pow hnp hj⟩

/-- C06: `checked_next_power_of_two` never panics; `Some r` ⇒ `r` is the least power of two
    `≥ self`; `None` ⇒ no power of two `≥ self` fits in `BITS` bits. -/
theorem checkedNextPowerOfTwo_spec {s n : Nat} (hs : s < 32) {x : List Nat}
    (hx : WF (2 ^ s) n x) :
    (∃ r, UI.checkedNextPowerOfTwo (2 ^ s) x = .ok (some r) ∧ WF (2 ^ s) n r ∧
      IsNextPow2 (U (2 ^ s) x) (U (2 ^ s) r)) ∨
    (UI.checkedNextPowerOfTwo (2 ^ s) x = .ok none ∧
      ∀ k, U (2 ^ s) x ≤ 2 ^ k → M (2 ^ s) n ≤ 2 ^ k) := by
  unfold UI.checkedNextPowerOfTwo
  have hp := isPowerOfTwo_iff hx
  by_cases h : UI.isPowerOfTwo (2 ^ s) x = true
  · left
    rw [if_pos h]
    obtain ⟨k, hk⟩ := hp.mp h
    refine ⟨x, rfl, hx, k, hk, Nat.le_refl _, ?_⟩
    intro j hj
    rw [hk] at hj
    exact (Nat.pow_le_pow_iff_right (by decide)).mp hj
  · rw [if_neg h]
    have hnp : ¬ ∃ k, U (2 ^ s) x = 2 ^ k := fun e => h (hp.mpr e)
    dsimp only
    rw [bits_spec hx, hx.1]
    have hnext := isNextPow2_bitLen hnp
    have hle := bitLen_le_of_lt (U_lt hx)
    by_cases hb : Spec.bitLen (U (2 ^ s) x) = 2 ^ s * n
    · right
      simp only [hb, beq_self_eq_true, if_true, true_and]
      intro k hk
      have := bitLen_le_of_le_two_pow hnp hk
      rw [hb] at this
      exact Nat.pow_le_pow_right (by decide) this
    · left
      have : (Spec.bitLen (U (2 ^ s) x) == 2 ^ s * n) = false := by simpa using hb
      rw [this]
      obtain ⟨r, h1, h2, h3⟩ := (powerOfTwo_spec hs n (Spec.bitLen (U (2 ^ s) x))).2 (by omega)
      refine ⟨r, by simp [h1, Outcome.map], h2, ?_⟩
      rw [h3]; exact hnext

theorem wrappingNextPowerOfTwo_spec {s n : Nat} (hs : s < 32) {x : List Nat}
    (hx : WF (2 ^ s) n x) :
    ∃ r, UI.wrappingNextPowerOfTwo (2 ^ s) x = .ok r ∧ WF (2 ^ s) n r ∧
      (IsNextPow2 (U (2 ^ s) x) (U (2 ^ s) r) ∨
       (U (2 ^ s) r = 0 ∧ ∀ k, U (2 ^ s) x ≤ 2 ^ k → M (2 ^ s) n ≤ 2 ^ k)) := by
  unfold UI.wrappingNextPowerOfTwo
  rcases checkedNextPowerOfTwo_spec hs hx with ⟨r, h1, h2, h3⟩ | ⟨h1, h2⟩
  · exact ⟨r, by simp [h1, Outcome.map], h2, Or.inl h3⟩
  · refine ⟨zero n, by simp [h1, Outcome.map, hx.1], WF_zero _ n, Or.inr ⟨U_zero _ n, h2⟩⟩

/-- `next_power_of_two`: debug build panics exactly when nothing fits, release build wraps to 0 -/
theorem nextPowerOfTwo_spec {s n : Nat} (hs : s < 32) (dbg : Bool) {x : List Nat}
    (hx : WF (2 ^ s) n x) :
    (∃ r, UI.nextPowerOfTwo dbg (2 ^ s) x = .ok r ∧ WF (2 ^ s) n r ∧
      IsNextPow2 (U (2 ^ s) x) (U (2 ^ s) r)) ∨
    ((∀ k, U (2 ^ s) x ≤ 2 ^ k → M (2 ^ s) n ≤ 2 ^ k) ∧
      UI.nextPowerOfTwo dbg (2 ^ s) x = if dbg then .panic else .ok (zero n)) := by
  unfold UI.nextPowerOfTwo UI.wrappingNextPowerOfTwo
  rcases checkedNextPowerOfTwo_spec hs hx with ⟨r, h1, h2, h3⟩ | ⟨h1, h2⟩
  · left
    refine ⟨r, ?_, h2, h3⟩
    cases dbg <;> simp [h1, Outcome.map, Outcome.bind, Outcome.expect]
  · right
    refine ⟨h2, ?_⟩
    cases dbg <;> simp [h1, Outcome.map, Outcome.bind, Outcome.expect, hx.1]

/-! ### I. reverse_bits, swap_bytes -/

theorem revLoop_testBit : ∀ (f x acc i : Nat),
    (Prim.revLoop f x acc).testBit i =
      if i < f then x.testBit (f - 1 - i) else acc.testBit (i - f)
  | 0, x, acc, i => by simp [Prim.revLoop]
  | f + 1, x, acc, i => by
    unfold Prim.revLoop
    rw [revLoop_testBit f (x / 2) (2 * acc + x % 2) i]
    by_cases h1 : i < f
    · rw [if_pos h1, if_pos (by omega), Nat.testBit_div_two]
      congr 1; omega
    · rw [if_neg h1]
      by_cases h2 : i = f
      · subst h2
        rw [if_pos (by omega), Nat.sub_self, Nat.testBit_zero]
        have : i + 1 - 1 - i = 0 := by omega
        rw [this, Nat.testBit_zero]
        congr 1; apply propext; omega
      · rw [if_neg (by omega)]
        obtain ⟨m, hm⟩ : ∃ m, i - f = m + 1 := ⟨i - f - 1, by omega⟩
        have e : i - (f + 1) = m := by omega
        rw [hm, e, Nat.testBit_succ]
        congr 1; omega

theorem reverseBits_prim (w d i : Nat) :
    (Prim.reverseBits w d).testBit i = (decide (i < w) && d.testBit (w - 1 - i)) := by
  unfold Prim.reverseBits
  rw [revLoop_testBit]; split <;> simp [*]

theorem reverseBits_prim_lt (w d : Nat) : Prim.reverseBits w d < 2 ^ w := by
  apply Nat.lt_pow_two_of_testBit
  intro i hi
  rw [reverseBits_prim]; simp; omega

theorem reverseBits_prim_invol {w d : Nat} (hd : d < 2 ^ w) :
    Prim.reverseBits w (Prim.reverseBits w d) = d := by
  apply Nat.eq_of_testBit_eq; intro i
  rw [reverseBits_prim, reverseBits_prim]
  by_cases hi : i < w
  · have e : w - 1 - (w - 1 - i) = i := by omega
    have h2 : w - 1 - i < w := by omega
    simp [hi, h2, e]
  · rw [testBit_eq_false_of_lt (i := i) hd (by omega)]; simp [hi]

theorem swapLoop_testBit : ∀ (f x acc i : Nat),
    (Prim.swapLoop f x acc).testBit i =
      if i < 8 * f then x.testBit (8 * (f - 1 - i / 8) + i % 8) else acc.testBit (i - 8 * f)
  | 0, x, acc, i => by simp [Prim.swapLoop]
  | f + 1, x, acc, i => by
    unfold Prim.swapLoop
    rw [swapLoop_testBit f (x / 256) (256 * acc + x % 256) i]
    have e256 : (256 : Nat) = 2 ^ 8 := by decide
    by_cases h1 : i < 8 * f
    · rw [if_pos h1, if_pos (by omega), e256, Nat.testBit_div_two_pow]
      congr 1; omega
    · rw [if_neg h1, e256,
        Nat.testBit_two_pow_mul_add acc (Nat.mod_lt x (Nat.two_pow_pos 8)), Nat.testBit_mod_two_pow]
      by_cases h2 : i < 8 * (f + 1)
      · rw [if_pos h2, if_pos (by omega)]
        have : decide (i - 8 * f < 8) = true := by simp; omega
        rw [this, Bool.true_and]
        congr 1; omega
      · rw [if_neg h2, if_neg (by omega)]
        congr 1

/-- bit `i` of `swap_bytes` of a digit of `8*nb` bits -/
theorem swapBytes_prim (nb d i : Nat) :
    (Prim.swapBytes (8 * nb) d).testBit i =
      (decide (i < 8 * nb) && d.testBit (8 * (nb - 1 - i / 8) + i % 8)) := by
  unfold Prim.swapBytes
  have : 8 * nb / 8 = nb := by omega
  rw [this, swapLoop_testBit]; split <;> simp [*]

theorem swapBytes_prim_lt (nb d : Nat) : Prim.swapBytes (8 * nb) d < 2 ^ (8 * nb) := by
  apply Nat.lt_pow_two_of_testBit
  intro i hi
  rw [swapBytes_prim]; simp; omega

theorem swapBytes_prim_invol {nb d : Nat} (hd : d < 2 ^ (8 * nb)) :
    Prim.swapBytes (8 * nb) (Prim.swapBytes (8 * nb) d) = d := by
  apply Nat.eq_of_testBit_eq; intro i
  rw [swapBytes_prim, swapBytes_prim]
  by_cases hi : i < 8 * nb
  · have h2 : 8 * (nb - 1 - i / 8) + i % 8 < 8 * nb := by omega
    have e : 8 * (nb - 1 - (8 * (nb - 1 - i / 8) + i % 8) / 8) + (8 * (nb - 1 - i / 8) + i % 8) % 8
        = i := by omega
    rw [e]; simp [hi, h2]
  · rw [testBit_eq_false_of_lt (i := i) hd (by omega)]; simp [hi]

theorem Digits_map {w : Nat} {x : List Nat} {f : Nat → Nat} (hf : ∀ d, f d < B w) :
    Digits w (x.map f) := by
  intro d hd
  obtain ⟨e, _, rfl⟩ := List.mem_map.mp hd
  exact hf e

/-- `out[i] = f(self[N-1-i])` where `f` permutes the bits of a digit by `σ` -/
theorem testBit_U_reverse_map {w : Nat} (f : Nat → Nat) (σ : Nat → Nat)
    (hlt : ∀ d, f d < 2 ^ w) (hf : ∀ d t, t < w → (f d).testBit t = d.testBit (σ t))
    (hσ : ∀ t, t < w → σ t < w) {x : List Nat} (hx : Digits w x) {j t : Nat}
    (hj : j < x.length) (ht : t < w) :
    (U w (x.reverse.map f)).testBit (w * j + t) =
      (U w x).testBit (w * (x.length - 1 - j) + σ t) := by
  have hr : Digits w (x.reverse.map f) := Digits_map hlt
  have hk : x.length - 1 - j < x.length := by omega
  rw [testBit_U _ hr j t ht, testBit_U _ hx _ _ (hσ t ht), List.getD_eq_getElem?_getD,
    List.getD_eq_getElem?_getD, List.getElem?_map, List.getElem?_reverse hj,
    List.getElem?_eq_getElem hk]
  simp [hf _ t ht]

/-- C06: `reverse_bits`: bit `i` of the result is bit `BITS-1-i` of the argument. -/
theorem reverseBits_spec {w n : Nat} (hw : 1 ≤ w) {x : List Nat} (hx : WF w n x) :
    WF w n (UI.reverseBits w x) ∧
    ∀ i, i < w * n → (U w (UI.reverseBits w x)).testBit i = (U w x).testBit (w * n - 1 - i) := by
  unfold UI.reverseBits
  refine ⟨⟨by simp [hx.1], Digits_map (reverseBits_prim_lt w)⟩, ?_⟩
  intro i hi
  have hj : i / w < x.length := by rw [hx.1]; exact (div_lt_iff' hw).mpr hi
  have ht : i % w < w := Nat.mod_lt _ hw
  have := testBit_U_reverse_map (w := w) (Prim.reverseBits w) (fun t => w - 1 - t)
    (reverseBits_prim_lt w) (fun d t ht => by rw [reverseBits_prim]; simp [ht])
    (fun t ht => by omega) hx.2 hj ht
  rw [Nat.div_add_mod] at this
  rw [this, hx.1]
  congr 1
  obtain ⟨m, hm⟩ : ∃ m, n = i / w + 1 + m := ⟨n - 1 - i / w, by rw [hx.1] at hj; omega⟩
  have e1 : n - 1 - i / w = m := by omega
  have e2 : w * n = w * (i / w) + w + w * m := by rw [hm]; ring
  have e3 := Nat.div_add_mod i w
  rw [e1, e2]; omega

theorem map_map_id {x : List Nat} {f : Nat → Nat} (h : ∀ d ∈ x, f (f d) = d) :
    (x.map f).map f = x := by
  induction x with
  | nil => rfl
  | cons d ds ih =>
    simp only [List.map_cons]
    rw [h d (by simp), ih (fun e he => h e (by simp [he]))]

/-- C06: `reverse_bits` is an involution. -/
theorem reverseBits_invol {w n : Nat} {x : List Nat} (hx : WF w n x) :
    UI.reverseBits w (UI.reverseBits w x) = x := by
  unfold UI.reverseBits
  rw [← List.map_reverse, List.reverse_reverse]
  exact map_map_id (fun d hd => reverseBits_prim_invol (hx.2 d hd))

/-- C06: `swap_bytes` (digit width a multiple of 8): bit `i` of the result is the bit at the same
    position inside the mirrored byte, i.e. byte `k` of the result is byte `BYTES-1-k`. -/
theorem swapBytes_spec {nb n : Nat} (hnb : 1 ≤ nb) {x : List Nat} (hx : WF (8 * nb) n x) :
    WF (8 * nb) n (UI.swapBytes (8 * nb) x) ∧
    ∀ i, i < 8 * nb * n → (U (8 * nb) (UI.swapBytes (8 * nb) x)).testBit i =
      (U (8 * nb) x).testBit (8 * (nb * n - 1 - i / 8) + i % 8) := by
  unfold UI.swapBytes
  refine ⟨⟨by simp [hx.1], Digits_map (swapBytes_prim_lt nb)⟩, ?_⟩
  intro i hi
  have hw : 0 < 8 * nb := by omega
  have hj : i / (8 * nb) < x.length := by rw [hx.1]; exact (div_lt_iff' hw).mpr hi
  have ht : i % (8 * nb) < 8 * nb := Nat.mod_lt _ hw
  have := testBit_U_reverse_map (w := 8 * nb) (Prim.swapBytes (8 * nb))
    (fun t => 8 * (nb - 1 - t / 8) + t % 8)
    (swapBytes_prim_lt nb) (fun d t ht => by rw [swapBytes_prim]; simp [ht])
    (fun t ht => by omega) hx.2 hj ht
  rw [Nat.div_add_mod] at this
  rw [this, hx.1]
  congr 1
  have e3 := Nat.div_add_mod i (8 * nb)
  generalize i / (8 * nb) = q at *
  generalize i % (8 * nb) = t at *
  obtain ⟨m, hm⟩ : ∃ m, n = q + 1 + m := ⟨n - 1 - q, by rw [hx.1] at hj; omega⟩
  have e1 : n - 1 - q = m := by omega
  have e2 : nb * n = nb * q + nb + nb * m := by rw [hm]; ring
  have e4 : 8 * nb * q = 8 * (nb * q) := by ring
  have e5 : 8 * nb * m = 8 * (nb * m) := by ring
  rw [e1, e2, ← e3, e4, e5]
  generalize nb * q = a at *
  generalize nb * m = b at *
  omega

/-- C06: `swap_bytes` is an involution. -/
theorem swapBytes_invol {nb n : Nat} {x : List Nat} (hx : WF (8 * nb) n x) :
    UI.swapBytes (8 * nb) (UI.swapBytes (8 * nb) x) = x := by
  unfold UI.swapBytes
  rw [← List.map_reverse, List.reverse_reverse]
  exact map_map_id (fun d hd => swapBytes_prim_invol (hx.2 d hd))

/-! ### J. the executable `Spec` functions mean what they say -/

theorem spec_bit_eq (v i : Nat) : Spec.bit v i = v.testBit i := by
  unfold Spec.bit; rw [Nat.testBit_eq_decide_div_mod_eq]

theorem spec_isPow2_iff (v : Nat) : Spec.isPow2 v = true ↔ ∃ k, v = 2 ^ k := by
  unfold Spec.isPow2
  rw [decide_eq_true_iff]
  constructor
  · rintro ⟨_, h⟩; exact ⟨_, h.symm⟩
  · rintro ⟨k, rfl⟩
    have := Nat.two_pow_pos k
    exact ⟨by omega, by rw [Nat.log2_two_pow]⟩

theorem isNextPow2_unique {v p q : Nat} (hp : IsNextPow2 v p) (hq : IsNextPow2 v q) : p = q := by
  obtain ⟨k, rfl, h1, h2⟩ := hp
  obtain ⟨l, rfl, h3, h4⟩ := hq
  have := h2 l h3; have := h4 k h1
  have : k = l := by omega
  rw [this]

theorem spec_nextPow2 (v : Nat) : IsNextPow2 v (Spec.nextPow2 v) := by
  unfold Spec.nextPow2
  by_cases h : v ≤ 1
  · rw [if_pos h]; exact ⟨0, rfl, h, fun j _ => Nat.zero_le j⟩
  · rw [if_neg h]
    refine ⟨_, rfl, ?_, ?_⟩
    · have := lt_two_pow_bitLen (v - 1); omega
    · intro j hj
      rw [bitLen_le_iff]; omega

/-- executable form of `checkedNextPowerOfTwo_spec`: the model answers what `Spec.checkedNextPow2`
    answers -/
theorem checkedNextPowerOfTwo_eq_spec {s n : Nat} (hs : s < 32) {x : List Nat}
    (hx : WF (2 ^ s) n x) :
    (UI.checkedNextPowerOfTwo (2 ^ s) x).map (Option.map (U (2 ^ s))) =
      .ok (Spec.checkedNextPow2 (2 ^ s * n) (U (2 ^ s) x)) := by
  have hsp := spec_nextPow2 (U (2 ^ s) x)
  unfold Spec.checkedNextPow2
  rcases checkedNextPowerOfTwo_spec hs hx with ⟨r, h1, h2, h3⟩ | ⟨h1, h2⟩
  · have hlt : U (2 ^ s) r < 2 ^ (2 ^ s * n) := U_lt h2
    rw [h1, ← isNextPow2_unique h3 hsp, if_pos hlt]; rfl
  · obtain ⟨k, hk, hle, _⟩ := hsp
    have : 2 ^ (2 ^ s * n) ≤ 2 ^ k := h2 k (by rw [← hk]; exact hle)
    rw [h1, if_neg (by rw [hk]; exact Nat.not_lt.mpr this)]; rfl

/-! ### K. `Spec.reverseBits`, `Spec.swapBytes`, `Spec.setBit` and the model -/

theorem spec_reverseBits_aux : ∀ (W v : Nat), Spec.reverseBits W v < 2 ^ W ∧
    ∀ i, (Spec.reverseBits W v).testBit i = (decide (i < W) && v.testBit (W - 1 - i))
  | 0, v => by simp [Spec.reverseBits]
  | W + 1, v => by
    obtain ⟨h1, h2⟩ := spec_reverseBits_aux W (v / 2)
    have hb : v % 2 < 2 ^ 1 := by omega
    have e : Spec.reverseBits (W + 1) v = 2 ^ W * (v % 2) + Spec.reverseBits W (v / 2) := by
      simp only [Spec.reverseBits]; rw [Nat.mul_comm]
    have ht : ∀ i, (Spec.reverseBits (W + 1) v).testBit i =
        (decide (i < W + 1) && v.testBit (W + 1 - 1 - i)) := by
      intro i
      rw [e, Nat.testBit_two_pow_mul_add _ h1, h2]
      by_cases hi : i < W
      · have e2 : W + 1 - 1 - i = (W - 1 - i) + 1 := by omega
        rw [if_pos hi, e2, Nat.testBit_succ]
        simp [hi, Nat.lt_succ_of_lt hi]
      · rw [if_neg hi]
        by_cases hi2 : i = W
        · subst hi2
          have : i + 1 - 1 - i = 0 := by omega
          rw [Nat.sub_self, this, Nat.testBit_zero, Nat.testBit_zero]
          simp
        · have : 1 ≤ i - W := by omega
          rw [testBit_eq_false_of_lt hb this]
          have : ¬ i < W + 1 := by omega
          simp [this]
    refine ⟨?_, ht⟩
    apply Nat.lt_pow_two_of_testBit
    intro i hi
    rw [ht]; simp; omega

/-- the executable `Spec.reverseBits` is the bit reversal of the low `W` bits -/
theorem spec_reverseBits_testBit (W v i : Nat) :
    (Spec.reverseBits W v).testBit i = (decide (i < W) && v.testBit (W - 1 - i)) :=
  (spec_reverseBits_aux W v).2 i

theorem reverseBits_eq_spec {w n : Nat} (hw : 1 ≤ w) {x : List Nat} (hx : WF w n x) :
    U w (UI.reverseBits w x) = Spec.reverseBits (w * n) (U w x) := by
  obtain ⟨h1, h2⟩ := reverseBits_spec hw hx
  apply Nat.eq_of_testBit_eq; intro i
  rw [spec_reverseBits_testBit]
  by_cases hi : i < w * n
  · rw [h2 i hi]; simp [hi]
  · rw [testBit_eq_false_of_lt (U_lt h1) (by omega)]; simp [hi]

theorem spec_swapBytes_aux : ∀ (nb v : Nat), Spec.swapBytesAux nb v < 2 ^ (8 * nb) ∧
    ∀ i, (Spec.swapBytesAux nb v).testBit i =
      (decide (i < 8 * nb) && v.testBit (8 * (nb - 1 - i / 8) + i % 8))
  | 0, v => by simp [Spec.swapBytesAux]
  | nb + 1, v => by
    obtain ⟨h1, h2⟩ := spec_swapBytes_aux nb (v / 256)
    have e256 : (256 : Nat) = 2 ^ 8 := by decide
    have hb : v % 256 < 2 ^ 8 := by omega
    have e : Spec.swapBytesAux (nb + 1) v =
        2 ^ (8 * nb) * (v % 2 ^ 8) + Spec.swapBytesAux nb (v / 2 ^ 8) := by
      simp only [Spec.swapBytesAux]; rw [Nat.mul_comm, e256, ← Nat.pow_mul]
    have ht : ∀ i, (Spec.swapBytesAux (nb + 1) v).testBit i =
        (decide (i < 8 * (nb + 1)) && v.testBit (8 * (nb + 1 - 1 - i / 8) + i % 8)) := by
      intro i
      rw [e256] at h1 h2
      rw [e, Nat.testBit_two_pow_mul_add _ h1, h2]
      by_cases hi : i < 8 * nb
      · have e2 : 8 * (nb + 1 - 1 - i / 8) + i % 8 = (8 * (nb - 1 - i / 8) + i % 8) + 8 := by omega
        have h3 : i < 8 * (nb + 1) := by omega
        rw [if_pos hi, e2, Nat.testBit_div_two_pow]
        simp [hi, h3]
      · rw [if_neg hi, Nat.testBit_mod_two_pow]
        by_cases hi2 : i < 8 * (nb + 1)
        · have e3 : 8 * (nb + 1 - 1 - i / 8) + i % 8 = i - 8 * nb := by omega
          have h4 : i - 8 * nb < 8 := by omega
          rw [e3]; simp [hi2, h4]
        · have h4 : ¬ i - 8 * nb < 8 := by omega
          simp [hi2, h4]
    refine ⟨?_, ht⟩
    apply Nat.lt_pow_two_of_testBit
    intro i hi
    rw [ht]; simp; omega

theorem swapBytes_eq_spec {nb n : Nat} (hnb : 1 ≤ nb) {x : List Nat} (hx : WF (8 * nb) n x) :
    U (8 * nb) (UI.swapBytes (8 * nb) x) = Spec.swapBytes (8 * nb * n) (U (8 * nb) x) := by
  obtain ⟨h1, h2⟩ := swapBytes_spec hnb hx
  have e : 8 * nb * n / 8 = nb * n := by rw [Nat.mul_assoc]; omega
  apply Nat.eq_of_testBit_eq; intro i
  unfold Spec.swapBytes
  rw [e, (spec_swapBytes_aux (nb * n) _).2 i]
  by_cases hi : i < 8 * nb * n
  · have : i < 8 * (nb * n) := by rw [← Nat.mul_assoc]; exact hi
    rw [h2 i hi]; simp [this]
  · have : ¬ i < 8 * (nb * n) := by rw [← Nat.mul_assoc]; exact hi
    rw [testBit_eq_false_of_lt (U_lt h1) (by omega)]; simp [this]

/-- the executable `Spec.setBit` replaces bit `i` and nothing else -/
theorem spec_setBit_testBit (v i : Nat) (b : Bool) (j : Nat) :
    (Spec.setBit v i b).testBit j = if j = i then b else v.testBit j := by
  have hlo : v % 2 ^ i < 2 ^ i := Nat.mod_lt _ (Nat.two_pow_pos i)
  have hv : v = 2 ^ i * (v / 2 ^ i) + v % 2 ^ i := (Nat.div_add_mod v (2 ^ i)).symm
  have hq : v / 2 ^ i = 2 * (v / 2 ^ i / 2) + v / 2 ^ i % 2 := (Nat.div_add_mod _ 2).symm
  have e : Spec.setBit v i b = 2 ^ i * (2 * (v / 2 ^ i / 2) + b.toNat) + v % 2 ^ i := by
    unfold Spec.setBit
    generalize v % 2 ^ i = lo at *
    generalize v / 2 ^ i = q at *
    generalize 2 ^ i = p at *
    have hbit : q % 2 = 0 ∨ q % 2 = 1 := by omega
    generalize q / 2 = h at *
    generalize q % 2 = bit at *
    subst hq
    rw [hv]
    rcases hbit with hb | hb <;> subst hb <;> ring_nf <;> omega
  rw [e, Nat.testBit_two_pow_mul_add _ hlo]
  conv_rhs => rw [hv, Nat.testBit_two_pow_mul_add _ hlo]
  by_cases hj : j < i
  · rw [if_pos hj, if_pos hj, if_neg (by omega)]
  · rw [if_neg hj, if_neg hj]
    by_cases hji : j = i
    · subst hji
      rw [if_pos rfl, Nat.sub_self, Nat.testBit_zero]
      cases b <;> simp
    · rw [if_neg hji]
      obtain ⟨m, hm⟩ : ∃ m, j - i = m + 1 := ⟨j - i - 1, by omega⟩
      rw [hm, Nat.testBit_succ, Nat.testBit_succ]
      congr 1
      have := Bool.toNat_lt b
      omega

theorem setBit_eq_spec {s n : Nat} (hs : s < 32) {x : List Nat} (hx : WF (2 ^ s) n x) {i : Nat}
    (hi : i < 2 ^ s * n) (v : Bool) :
    ∃ r, UI.setBit (2 ^ s) x i v = .ok r ∧ WF (2 ^ s) n r ∧
      U (2 ^ s) r = Spec.setBit (U (2 ^ s) x) i v := by
  obtain ⟨r, h1, h2, h3⟩ := (setBit_spec hs hx i v).2 hi
  refine ⟨r, h1, h2, ?_⟩
  apply Nat.eq_of_testBit_eq; intro j
  rw [h3, spec_setBit_testBit]

/-! ### L. extreme patterns, `is_zero`, `is_one` -/

theorem bitLen_two_pow_sub_one (W : Nat) : Spec.bitLen (2 ^ W - 1) = W := by
  have hp := Nat.two_pow_pos W
  have h1 := (bitLen_le_iff (2 ^ W - 1) W).mpr (by omega)
  cases W with
  | zero => simpa using h1
  | succ W =>
    have h2 : ¬ Spec.bitLen (2 ^ (W + 1) - 1) ≤ W := by
      rw [bitLen_le_iff, Nat.pow_succ]; have := Nat.two_pow_pos W; omega
    omega

theorem popcount_zero (W : Nat) : Spec.popcount W 0 = 0 :=
  (popcount_eq_zero W 0 (Nat.two_pow_pos W)).mpr rfl

theorem popcount_ones (W : Nat) : Spec.popcount W (2 ^ W - 1) = W := by
  have := popcount_compl W 0 (Nat.two_pow_pos W)
  rw [popcount_zero] at this; simpa using this

theorem trailingZeros_ones {W : Nat} (hW : 1 ≤ W) : Spec.trailingZeros W (2 ^ W - 1) = 0 := by
  obtain ⟨k, rfl⟩ := Nat.exists_eq_add_of_le' hW
  simp only [Spec.trailingZeros]
  have : (2 ^ (k + 1) - 1) % 2 = 1 := by
    rw [Nat.pow_succ]; have := Nat.two_pow_pos k; omega
  rw [if_pos this]

/-- C06: the all-zero pattern gives `BITS` zeros / `0` ones, for every count -/
theorem counts_zero (w n : Nat) (hW : 1 ≤ w * n) :
    UI.countOnes w (zero n) = 0 ∧ UI.countZeros w (zero n) = w * n ∧
    UI.leadingZeros w (zero n) = w * n ∧ UI.trailingZeros w (zero n) = w * n ∧
    UI.leadingOnes w (zero n) = 0 ∧ UI.trailingOnes w (zero n) = 0 ∧ UI.bits w (zero n) = 0 := by
  have hz := WF_zero w n
  rw [countOnes_spec hz, countZeros_spec hz, leadingZeros_spec hz, trailingZeros_spec hz,
    leadingOnes_spec hz, trailingOnes_spec hz, bits_spec hz, U_zero]
  unfold Spec.leadingOnes Spec.trailingOnes Spec.leadingZeros Spec.compl
  simp only [popcount_zero, bitLen_zero, trailingZeros_zero, Nat.sub_zero, bitLen_two_pow_sub_one,
    trailingZeros_ones hW, Nat.sub_self, and_self]

/-- C06: the all-one pattern gives `BITS` ones / `0` zeros, for every count -/
theorem counts_allOnes (w n : Nat) (hW : 1 ≤ w * n) :
    UI.countOnes w (allOnes w n) = w * n ∧ UI.countZeros w (allOnes w n) = 0 ∧
    UI.leadingZeros w (allOnes w n) = 0 ∧ UI.trailingZeros w (allOnes w n) = 0 ∧
    UI.leadingOnes w (allOnes w n) = w * n ∧ UI.trailingOnes w (allOnes w n) = w * n ∧
    UI.bits w (allOnes w n) = w * n := by
  have hz := WF_allOnes w n
  rw [countOnes_spec hz, countZeros_spec hz, leadingZeros_spec hz, trailingZeros_spec hz,
    leadingOnes_spec hz, trailingOnes_spec hz, bits_spec hz, U_allOnes, M_eq_two_pow]
  unfold Spec.leadingOnes Spec.trailingOnes Spec.leadingZeros Spec.compl
  simp only [popcount_ones, bitLen_two_pow_sub_one, trailingZeros_ones hW, Nat.sub_self, bitLen_zero,
    trailingZeros_zero, Nat.sub_zero, and_self]

theorem isOne_iff {w n : Nat} (hw : 1 ≤ w) {x : List Nat} (hx : WF w n x) :
    isOne x = true ↔ U w x = 1 := by
  match x, hx with
  | [], _ => simp [isOne]
  | d :: ds, hx =>
    have hz := Cmp.isZero_iff_U (w := w) ds
    have hB := B_ge_two hw
    have hd : d < B w := hx.2 d (by simp)
    simp only [isOne]
    rw [U_cons]
    by_cases h1 : d = 1
    · subst h1
      simp only [bne_self_eq_false, Bool.false_eq_true, if_false, hz]
      constructor
      · intro h; simp [h]
      · intro h
        rcases Nat.eq_zero_or_pos (U w ds) with h0 | h0
        · exact h0
        · have : B w * 1 ≤ B w * U w ds := Nat.mul_le_mul_left _ h0
          omega
    · have : (d != 1) = true := by simpa using h1
      rw [if_pos this]
      simp only [Bool.false_eq_true, false_iff]
      intro h
      rcases Nat.eq_zero_or_pos (U w ds) with h0 | h0
      · rw [h0] at h; omega
      · have : B w * 1 ≤ B w * U w ds := Nat.mul_le_mul_left _ h0
        omega

end Bnum.Bits
