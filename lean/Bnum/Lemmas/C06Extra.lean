/-
  Bnum.Lemmas.C06Extra — additions to Lemmas/Bits.lean for property C06:
  * executable-spec ties for `wrapping_next_power_of_two` / `next_power_of_two` (the Drive compares
    against `Spec.wrappingNextPow2` / `Spec.checkedNextPow2`);
  * the meaning of the remaining executable spec functions used by the Drive (`Spec.compl`,
    `Spec.countZeros`, `Spec.leadingZeros`, `Spec.leadingOnes`, `Spec.trailingOnes`) in terms of the
    bits of the pattern;
  * `BInt::is_zero` / `is_one` (`II.isZeroBits` / `II.isOneBits`) in terms of the signed value.
-/
import Bnum.Lemmas.Bits
import Bnum.Model.C06Extra
namespace Bnum.Bits

/-! ### executable-spec ties -/

theorem wrappingNextPowerOfTwo_eq_spec {s n : Nat} (hs : s < 32) {x : List Nat}
    (hx : WF (2 ^ s) n x) :
    (UI.wrappingNextPowerOfTwo (2 ^ s) x).map (U (2 ^ s)) =
      .ok (Spec.wrappingNextPow2 (2 ^ s * n) (U (2 ^ s) x)) := by
  have h := checkedNextPowerOfTwo_eq_spec hs hx
  unfold Spec.checkedNextPow2 at h
  unfold UI.wrappingNextPowerOfTwo Spec.wrappingNextPow2
  rcases checkedNextPowerOfTwo_spec hs hx with ⟨r, h1, _, _⟩ | ⟨h1, _⟩
  · rw [h1] at h ⊢
    simp only [Outcome.map, Option.map] at h ⊢
    split at h
    · rename_i hc
      rw [if_pos hc]
      injection h with h; injection h with h; rw [h]
    · injection h with h; cases h
  · rw [h1] at h ⊢
    simp only [Outcome.map, Option.map] at h ⊢
    split at h
    · injection h with h; cases h
    · rename_i hc
      rw [if_neg hc, hx.1, U_zero]

theorem nextPowerOfTwo_eq_spec {s n : Nat} (hs : s < 32) (dbg : Bool) {x : List Nat}
    (hx : WF (2 ^ s) n x) :
    (UI.nextPowerOfTwo dbg (2 ^ s) x).map (U (2 ^ s)) =
      match Spec.checkedNextPow2 (2 ^ s * n) (U (2 ^ s) x) with
      | some p => .ok p
      | none => if dbg then .panic else .ok 0 := by
  have h := checkedNextPowerOfTwo_eq_spec hs hx
  unfold UI.nextPowerOfTwo UI.wrappingNextPowerOfTwo
  rcases checkedNextPowerOfTwo_spec hs hx with ⟨r, h1, _, _⟩ | ⟨h1, _⟩
  · rw [h1] at h ⊢
    simp only [Outcome.map, Option.map] at h
    injection h with h
    rw [← h]
    cases dbg <;> simp [Outcome.map, Outcome.bind, Outcome.expect]
  · rw [h1] at h ⊢
    simp only [Outcome.map, Option.map] at h
    injection h with h
    rw [← h]
    cases dbg <;> simp [Outcome.map, Outcome.bind, Outcome.expect, hx.1, U_zero]

/-! ### meaning of `Spec.compl`, `Spec.countZeros`, `Spec.leadingZeros`, `Spec.leadingOnes`,
    `Spec.trailingOnes` -/

theorem spec_compl_testBit {W v : Nat} (hv : v < 2 ^ W) (i : Nat) :
    (Spec.compl W v).testBit i = (decide (i < W) && !v.testBit i) := testBit_compl hv i

theorem spec_compl_lt (W v : Nat) : Spec.compl W v < 2 ^ W := by
  unfold Spec.compl; have := Nat.two_pow_pos W; omega

theorem spec_countZeros_add (W v : Nat) : Spec.countZeros W v + Spec.popcount W v = W := by
  unfold Spec.countZeros; have := popcount_le W v; omega

/-- the top set bit: `2^k ≤ v < 2^(k+1)` forces bit `k` -/
theorem testBit_of_two_pow_le {v k : Nat} (h1 : 2 ^ k ≤ v) (h2 : v < 2 ^ (k + 1)) :
    v.testBit k = true := by
  obtain ⟨i, hi, ht⟩ := Nat.exists_ge_and_testBit_of_ge_two_pow h1
  by_cases hik : i = k
  · rw [← hik]; exact ht
  · have : v.testBit i = false := testBit_eq_false_of_lt h2 (by omega)
    rw [this] at ht; cases ht

/-- `Spec.leadingZeros W v` (for `v < 2^W`): at most `W`; the top that many bits are clear and
    (unless it is `W`, i.e. `v = 0`) the next bit below them is set -/
theorem leadingZeros_char {W v : Nat} (hv : v < 2 ^ W) :
    Spec.leadingZeros W v ≤ W ∧
    (∀ i, i < Spec.leadingZeros W v → v.testBit (W - 1 - i) = false) ∧
    (Spec.leadingZeros W v < W → v.testBit (W - 1 - Spec.leadingZeros W v) = true) := by
  have hL := bitLen_le_of_lt hv
  unfold Spec.leadingZeros
  refine ⟨by omega, ?_, ?_⟩
  · intro i hi
    exact testBit_eq_false_of_lt (lt_two_pow_bitLen v) (by omega)
  · intro h
    have hv0 : v ≠ 0 := by
      intro h0; subst h0; rw [bitLen_zero] at h; omega
    have h1 := two_pow_le_of_bitLen hv0
    have h2 := lt_two_pow_bitLen v
    have hp := bitLen_pos hv0
    have e : W - 1 - (W - Spec.bitLen v) = Spec.bitLen v - 1 := by omega
    rw [e]
    apply testBit_of_two_pow_le h1
    have : Spec.bitLen v - 1 + 1 = Spec.bitLen v := by omega
    rw [this]; exact h2

/-- `Spec.leadingOnes W v` (for `v < 2^W`): the top that many bits are set, the next one is clear -/
theorem leadingOnes_char {W v : Nat} (hv : v < 2 ^ W) :
    Spec.leadingOnes W v ≤ W ∧
    (∀ i, i < Spec.leadingOnes W v → v.testBit (W - 1 - i) = true) ∧
    (Spec.leadingOnes W v < W → v.testBit (W - 1 - Spec.leadingOnes W v) = false) := by
  obtain ⟨h1, h2, h3⟩ := leadingZeros_char (spec_compl_lt W v)
  unfold Spec.leadingOnes
  refine ⟨h1, ?_, ?_⟩
  · intro i hi
    have := h2 i hi
    rw [spec_compl_testBit hv] at this
    have hlt : W - 1 - i < W := by omega
    simpa [hlt] using this
  · intro h
    have := h3 h
    rw [spec_compl_testBit hv] at this
    have hlt : W - 1 - Spec.leadingZeros W (Spec.compl W v) < W := by omega
    simpa [hlt] using this

/-- `Spec.trailingOnes W v` (for `v < 2^W`): the low that many bits are set, the next one is clear -/
theorem trailingOnes_char {W v : Nat} (hv : v < 2 ^ W) :
    Spec.trailingOnes W v ≤ W ∧
    (∀ i, i < Spec.trailingOnes W v → v.testBit i = true) ∧
    (Spec.trailingOnes W v < W → v.testBit (Spec.trailingOnes W v) = false) := by
  obtain ⟨h1, h2, h3⟩ := trailingZeros_char W (Spec.compl W v)
  unfold Spec.trailingOnes
  refine ⟨h1, ?_, ?_⟩
  · intro i hi
    have := h2 i hi
    rw [spec_compl_testBit hv] at this
    have hlt : i < W := by omega
    simpa [hlt] using this
  · intro h
    have := h3 h
    rw [spec_compl_testBit hv] at this
    simpa [h] using this

/-! ### `BInt::is_zero` / `is_one` -/

theorem i_isZero_iff {w n : Nat} {x : List Nat} (hx : WF w n x) :
    II.isZeroBits x = true ↔ S w x = 0 := Cmp.isZero_iff_S hx

theorem i_isOne_iff {w n : Nat} (hw : 2 ≤ w) (hn : 1 ≤ n) {x : List Nat} (hx : WF w n x) :
    II.isOneBits x = true ↔ S w x = 1 := by
  unfold II.isOneBits
  rw [isOne_iff (by omega) hx]
  have hlt := U_lt hx
  have hM : 4 ≤ M w n := by
    unfold M
    calc 4 = 2 ^ 2 := rfl
      _ ≤ 2 ^ (w * n) := Nat.pow_le_pow_right (by decide) (by nlinarith)
  unfold S; rw [hx.1]; unfold toInt
  split <;> omega

end Bnum.Bits
