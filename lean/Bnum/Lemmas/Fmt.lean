/-
  Bnum.Lemmas.Fmt — lemmas for C12 (formatting).  All names live in the `Bnum.Fmt` namespace.

  Contents
    * canonical numerals of `Spec.Radix` (`digitsAux` fuel independence, unfolding equations,
      positional concatenation `digitsLE_concat`, zero padding `fixedLE_eq_pad`);
    * core's primitive digit loop `radixLoop` produces the canonical numeral;
    * `pad_integral` with the options bnum uses for a single digit (`{:x}`, `{:01$x}`);
    * the `fmt_method!` loop produces the numeral of the whole value (`fmtMethod_eq`);
    * `exp_fmt!`: `expBuf_eq` (trailing zeros / exponent / mantissa against core's `exp_u*`);
    * per-trait theorems: what each bnum implementation hands to `pad_integral`
      (`binary_eq`, `lowerHex_eq`, `upperHex_eq`, `octal_eq`, `display_eq`, `exp_eq`,
      `display_eq_signed`, `exp_eq_signed`);
    * the combined statements `runModel_unsigned` / `runModel_signed` about the Drive dispatchers
      (`Drive.C12.runModel` = bnum's impl of a trait, `Drive.C12.runSpec` = `padIntegral` of core's
      triple `Spec.Fmt.primTriple`): the driver's model answer IS its spec answer;
    * the meaning of the Spec (`numeral_concat`, `ilog10_spec`, `strip_value`, `strip_range`,
      `strip_no_trailing_zero`, `expText_eq`) and sanity of the `pad_integral` model
      (`padIntegral_eq`, `padIntegral_of_le`, `padIntegral_length`).

  `Fmt.padIntegral` is a MODEL of `core::fmt::Formatter::pad_integral` (not verified here; it is
  validated against real `rustc` output).  Every theorem below is of the form "bnum's text =
  `padIntegral fl` applied to the triple core computes for a primitive", so it holds for whatever
  `pad_integral` does as long as both sides call the same function.

  The decimal / octal forms go through `UI.toStrRadix` (C11, owned by lean-c10c11).  In this file
  its correctness is the explicit hypothesis `Fmt.ToStrRadixCanonical w x r`; Props/C12.lean
  discharges it with `UI.toStrRadix_spec` (Lemmas/Radix.lean).  This file does not import
  Lemmas/Radix.lean and proves the few facts about `Spec.Radix.digitsLE`/`canonLE` it needs itself.
-/
import Bnum.Model.Fmt
import Bnum.Spec.Fmt
import Bnum.Lemmas.AddSub2
import Bnum.Drive.C12

namespace Bnum
namespace Fmt
open Spec.Radix Spec.Fmt

/-! ### canonical numerals (`Spec.Radix.digitsAux` / `digitsLE` / `canonLE`) -/

theorem digitsAux_fuel {r : Nat} (hr : 2 ≤ r) : ∀ (f f' v : Nat), v ≤ f → v ≤ f' →
    digitsAux r f v = digitsAux r f' v := by
  intro f
  induction f with
  | zero =>
    intro f' v h _
    have : v = 0 := by omega
    subst this
    cases f' <;> simp [digitsAux]
  | succ f ih =>
    intro f' v h h'
    cases f' with
    | zero =>
      have : v = 0 := by omega
      subst this; simp [digitsAux]
    | succ f' =>
      simp only [digitsAux]
      by_cases hv : v = 0
      · simp [hv]
      · rw [if_neg hv, if_neg hv]
        have : v / r < v := Nat.div_lt_self (by omega) (by omega)
        rw [ih f' (v / r) (by omega) (by omega)]

theorem digitsLE_zero (r : Nat) : digitsLE r 0 = [] := rfl

theorem digitsLE_pos {r v : Nat} (hr : 2 ≤ r) (hv : 0 < v) :
    digitsLE r v = v % r :: digitsLE r (v / r) := by
  unfold digitsLE
  obtain ⟨k, rfl⟩ : ∃ k, v = k + 1 := ⟨v - 1, by omega⟩
  simp only [digitsAux]
  rw [if_neg (by omega)]
  have : (k + 1) / r < k + 1 := Nat.div_lt_self (by omega) (by omega)
  rw [digitsAux_fuel hr k ((k + 1) / r) ((k + 1) / r) (by omega) (Nat.le_refl _)]

theorem canonLE_zero (r : Nat) : canonLE r 0 = [0] := rfl
theorem canonLE_pos {r v : Nat} (hv : 0 < v) : canonLE r v = digitsLE r v := by
  unfold canonLE; rw [if_neg (by omega)]

theorem canonLE_lt {r v : Nat} (hr : 2 ≤ r) (hv : v < r) : canonLE r v = [v] := by
  by_cases h0 : v = 0
  · subst h0; rfl
  · rw [canonLE_pos (by omega), digitsLE_pos hr (by omega), Nat.mod_eq_of_lt hv,
      Nat.div_eq_of_lt hv, digitsLE_zero]

theorem canonLE_ge {r v : Nat} (hr : 2 ≤ r) (hv : r ≤ v) :
    canonLE r v = v % r :: canonLE r (v / r) := by
  have : 0 < v / r := Nat.div_pos hv (by omega)
  rw [canonLE_pos (by omega), canonLE_pos this, digitsLE_pos hr (by omega)]

/-- `k` digits of `v`, least significant first (zero padded / truncated) -/
def fixedLE (r : Nat) : Nat → Nat → List Nat
  | 0, _ => []
  | k + 1, v => v % r :: fixedLE r k (v / r)

theorem fixedLE_length (r : Nat) : ∀ (k v : Nat), (fixedLE r k v).length = k
  | 0, _ => rfl
  | k + 1, v => by simp [fixedLE, fixedLE_length r k]

theorem fixedLE_zero (r : Nat) : ∀ k, fixedLE r k 0 = List.replicate k 0
  | 0 => rfl
  | k + 1 => by simp [fixedLE, fixedLE_zero r k, List.replicate_succ]

/-- positional concatenation: the numeral of `hi * r^k + lo` is the numeral of `hi` followed by
    the `k`-digit zero-padded numeral of `lo` (least-significant-first form) -/
theorem digitsLE_concat {r : Nat} (hr : 2 ≤ r) : ∀ (k hi lo : Nat), 0 < hi → lo < r ^ k →
    digitsLE r (hi * r ^ k + lo) = fixedLE r k lo ++ digitsLE r hi := by
  intro k
  induction k with
  | zero => intro hi lo _ hlo; simp at hlo; subst hlo; simp [fixedLE]
  | succ k ih =>
    intro hi lo hhi hlo
    have hpos : 0 < hi * r ^ (k + 1) + lo := by
      have : 0 < hi * r ^ (k + 1) := Nat.mul_pos hhi (Nat.pow_pos (by omega))
      omega
    rw [digitsLE_pos hr hpos]
    have e : hi * r ^ (k + 1) + lo = lo + r * (hi * r ^ k) := by rw [Nat.pow_succ]; ring
    have h1 : (hi * r ^ (k + 1) + lo) % r = lo % r := by rw [e, Nat.add_mul_mod_self_left]
    have h2 : (hi * r ^ (k + 1) + lo) / r = hi * r ^ k + lo / r := by
      rw [e, Nat.add_mul_div_left _ _ (by omega : 0 < r)]; omega
    have h3 : lo / r < r ^ k := by
      rw [Nat.div_lt_iff_lt_mul (by omega)]; rw [Nat.pow_succ] at hlo; exact hlo
    rw [h1, h2, ih hi (lo / r) hhi h3]
    simp [fixedLE]

theorem digitsLE_length_le {r : Nat} (hr : 2 ≤ r) : ∀ (k v : Nat), v < r ^ k →
    (digitsLE r v).length ≤ k := by
  intro k
  induction k with
  | zero => intro v hv; simp at hv; subst hv; simp [digitsLE_zero]
  | succ k ih =>
    intro v hv
    by_cases h0 : v = 0
    · subst h0; simp [digitsLE_zero]
    · rw [digitsLE_pos hr (by omega)]
      have h3 : v / r < r ^ k := by
        rw [Nat.div_lt_iff_lt_mul (by omega)]; rw [Nat.pow_succ] at hv; exact hv
      have := ih (v / r) h3
      simp; omega

/-- zero padding: the `k`-digit form of `v < r^k` is its numeral followed by zeros -/
theorem fixedLE_eq_pad {r : Nat} (hr : 2 ≤ r) : ∀ (k v : Nat), v < r ^ k →
    fixedLE r k v = digitsLE r v ++ List.replicate (k - (digitsLE r v).length) 0 := by
  intro k
  induction k with
  | zero => intro v hv; simp at hv; subst hv; simp [fixedLE, digitsLE_zero]
  | succ k ih =>
    intro v hv
    by_cases h0 : v = 0
    · subst h0; rw [fixedLE_zero]; simp [digitsLE_zero]
    · have h3 : v / r < r ^ k := by
        rw [Nat.div_lt_iff_lt_mul (by omega)]; rw [Nat.pow_succ] at hv; exact hv
      rw [digitsLE_pos hr (by omega)]
      simp only [fixedLE, ih (v / r) h3, List.length_cons, Nat.add_sub_add_right, List.cons_append]

/-! ### the primitive digit loop -/
theorem radixLoop_eq {base : Nat} (tab : Nat → Nat) (hb : 2 ≤ base) : ∀ (f v : Nat) (acc : List Nat),
    v < 2 ^ (f + 1) → radixLoop base tab (f + 1) v acc = (canonBE base v).map tab ++ acc := by
  intro f
  induction f with
  | zero =>
    intro v acc hv
    have hvb : v < base := by omega
    simp [radixLoop, Nat.div_eq_of_lt hvb, canonBE, canonLE_lt hb hvb, Nat.mod_eq_of_lt hvb]
  | succ f ih =>
    intro v acc hv
    rw [radixLoop]
    by_cases hvb : v < base
    · simp [Nat.div_eq_of_lt hvb, canonBE, canonLE_lt hb hvb, Nat.mod_eq_of_lt hvb]
    · have hpos : 0 < v / base := Nat.div_pos (by omega) (by omega)
      have hlt : v / base < 2 ^ (f + 1) := by
        rw [Nat.div_lt_iff_lt_mul (by omega)]
        calc v < 2 ^ (f + 1) * 2 := by rw [← Nat.pow_succ]; exact hv
          _ ≤ 2 ^ (f + 1) * base := Nat.mul_le_mul_left _ hb
      have hne : (v / base == 0) = false := by simp; omega
      simp only [hne]
      rw [ih (v / base) _ hlt]
      simp [canonBE, canonLE_ge hb (by omega : base ≤ v)]

/-! ### `pad_integral` with the options bnum uses for one digit -/
theorem padIntegral_default (pfx buf : List Nat) : padIntegral {} true pfx buf = buf := by
  simp [padIntegral, writePrefix]

theorem fillN_single (c : Nat) : ∀ k, fillN [c] k = List.replicate k c
  | 0 => rfl
  | k + 1 => by simp [fillN, fillN_single c k, List.replicate_succ]

theorem padIntegral_zeroPad (pad : Nat) (pfx buf : List Nat) :
    padIntegral { zeroPad := true, width := pad } true pfx buf
      = List.replicate (pad - buf.length) 48 ++ buf := by
  unfold padIntegral
  by_cases h : buf.length ≥ pad
  · simp [h, writePrefix]
  · simp [h, writePrefix, padding, fillN_single]

/-! ### the `fmt_method!` loop -/

theorem fixedBE_eq {r k d : Nat} (tab : Nat → Nat) (hr : 2 ≤ r) (hk : 1 ≤ k) (hd : d < r ^ k)
    (ht0 : tab 0 = 48) :
    (fixedLE r k d).reverse.map tab
      = List.replicate (k - (canonBE r d).length) 48 ++ (canonBE r d).map tab := by
  by_cases h0 : d = 0
  · subst h0
    obtain ⟨j, rfl⟩ : ∃ j, k = j + 1 := ⟨k - 1, by omega⟩
    rw [fixedLE_zero]
    simp [canonBE, canonLE_zero, ht0]
    exact List.replicate_succ'
  · rw [fixedLE_eq_pad hr k d hd]
    simp [canonBE, canonLE_pos (by omega : 0 < d), ht0]

theorem fmtMethodLoop_append (f0 fp : Nat → List Nat) : ∀ (ys zs s : List Nat),
    fmtMethodLoop f0 fp (ys ++ zs) s = fmtMethodLoop f0 fp zs (fmtMethodLoop f0 fp ys s) := by
  intro ys
  induction ys with
  | nil => intro zs s; rfl
  | cons y ys ih =>
    intro zs s
    simp only [List.cons_append, fmtMethodLoop]
    split_ifs <;> rw [ih]

theorem digitsLE_ne_nil {r v : Nat} (hr : 2 ≤ r) (hv : 0 < v) : digitsLE r v ≠ [] := by
  rw [digitsLE_pos hr hv]; simp

/-- the string `fmt_method!` accumulates is the numeral of the value without the `"0"` special case -/
theorem fmtMethodLoop_eq {w base pad : Nat} (tab : Nat → Nat) (hb : 2 ≤ base) (hpad : 1 ≤ pad)
    (hbp : base ^ pad = B w) (ht0 : tab 0 = 48) (fmt0 fmtPad : Nat → List Nat)
    (h0 : ∀ d, d < B w → fmt0 d = (canonBE base d).map tab)
    (hp : ∀ d, d < B w → fmtPad d
      = List.replicate (pad - (canonBE base d).length) 48 ++ (canonBE base d).map tab) :
    ∀ (n : Nat) (x : List Nat), WF w n x →
      fmtMethodLoop fmt0 fmtPad x.reverse [] = (digitsLE base (U w x)).reverse.map tab := by
  intro n x
  induction x generalizing n with
  | nil => intro _; rfl
  | cons d ds ih =>
    intro hx
    obtain ⟨k, rfl⟩ : ∃ k, n = k + 1 := ⟨n - 1, by have := hx.1; simp at this; omega⟩
    rw [WF_cons] at hx
    rw [List.reverse_cons, fmtMethodLoop_append, ih k hx.2]
    by_cases hu : U w ds = 0
    · rw [hu, digitsLE_zero]
      simp only [List.reverse_nil, List.map_nil, fmtMethodLoop, List.isEmpty_nil, if_true,
        List.nil_append, U_cons, hu, Nat.mul_zero, Nat.add_zero]
      by_cases hd : d = 0
      · subst hd; simp [digitsLE_zero]
      · have : (d != 0) = true := by simp [hd]
        rw [this, if_pos rfl, h0 d hx.1, canonBE, canonLE_pos (by omega)]
    · have hne := digitsLE_ne_nil (r := base) hb (by omega : 0 < U w ds)
      have hemp : ((digitsLE base (U w ds)).reverse.map tab).isEmpty = false := by
        cases h : digitsLE base (U w ds) with
        | nil => exact absurd h hne
        | cons a as => simp
      simp only [fmtMethodLoop, hemp]
      rw [hp d hx.1, ← fixedBE_eq tab hb hpad (by rw [hbp]; exact hx.1) ht0]
      have e : U w (d :: ds) = U w ds * base ^ pad + d := by rw [U_cons, hbp]; ring
      rw [e, digitsLE_concat hb pad (U w ds) d (by omega) (by rw [hbp]; exact hx.1)]
      simp

/-! ### decimal digits, `ilog10`, trailing zeros (for `exp_fmt!`) -/

theorem digitsLE_eq_nil {r v : Nat} (hr : 2 ≤ r) (h : digitsLE r v = []) : v = 0 := by
  by_contra hv
  exact digitsLE_ne_nil hr (by omega) h

theorem digitsLE_lt {r : Nat} (hr : 2 ≤ r) : ∀ (f v : Nat), v ≤ f → ∀ d ∈ digitsLE r v, d < r := by
  intro f
  induction f with
  | zero => intro v hv d hd; have : v = 0 := by omega
            subst this; simp [digitsLE_zero] at hd
  | succ f ih =>
    intro v hv d hd
    by_cases h0 : v = 0
    · subst h0; simp [digitsLE_zero] at hd
    · rw [digitsLE_pos hr (by omega)] at hd
      have : v / r < v := Nat.div_lt_self (by omega) (by omega)
      rcases List.mem_cons.1 hd with h | h
      · rw [h]; exact Nat.mod_lt _ (by omega)
      · exact ih (v / r) (by omega) d h

theorem digitsLE_length_ilog10 : ∀ (f v : Nat), v ≤ f → 0 < v →
    (digitsLE 10 v).length = ilog10Aux f v + 1 := by
  intro f
  induction f with
  | zero => intro v h1 h2; omega
  | succ f ih =>
    intro v h1 h2
    rw [digitsLE_pos (by omega) h2, ilog10Aux]
    by_cases h : v < 10
    · rw [if_pos h, Nat.div_eq_of_lt h, digitsLE_zero]; rfl
    · rw [if_neg h, List.length_cons, ih (v / 10) (by omega) (by omega)]; omega

theorem digitsLE_length_eq {v : Nat} (hv : 0 < v) : (digitsLE 10 v).length = ilog10 v + 1 :=
  digitsLE_length_ilog10 v v (Nat.le_refl _) hv

/-- the `while coef_prec != 0 && coef % 10 == 0` loop of core removes exactly the zeros that
    `trim_end_matches('0')` removes from the digit string -/
theorem strip_spec : ∀ (p v : Nat), (digitsLE 10 v).length = p + 1 →
    (digitsLE 10 v).dropWhile (· == 0) = digitsLE 10 (strip p v).1 ∧
    (digitsLE 10 (strip p v).1).length = (strip p v).2 + 1 := by
  intro p
  induction p with
  | zero =>
    intro v hlen
    have hv : 0 < v := by
      by_contra h; have : v = 0 := by omega
      subst this; simp [digitsLE_zero] at hlen
    rw [digitsLE_pos (by omega) hv] at hlen ⊢
    simp only [List.length_cons, Nat.add_right_cancel_iff, List.length_eq_zero_iff] at hlen
    have h10 := digitsLE_eq_nil (by omega) hlen
    have : v % 10 ≠ 0 := by omega
    simp [strip, digitsLE_pos (by omega : 2 ≤ 10) hv, hlen, this]
  | succ p ih =>
    intro v hlen
    have hv : 0 < v := by
      by_contra h; have : v = 0 := by omega
      subst this; simp [digitsLE_zero] at hlen
    rw [digitsLE_pos (by omega) hv] at hlen
    simp only [List.length_cons, Nat.add_right_cancel_iff] at hlen
    rw [strip]
    by_cases hm : v % 10 = 0
    · rw [if_pos hm]
      have := ih (v / 10) hlen
      rw [digitsLE_pos (by omega) hv, hm]
      simpa using this
    · rw [if_neg hm]
      refine ⟨?_, ?_⟩
      · rw [digitsLE_pos (by omega) hv]; simp [hm]
      · rw [digitsLE_pos (by omega) hv]; simp [hlen]

/-- a numeral with `q + 1` digits splits into `q` fraction digits and the leading digit -/
theorem digitsLE_split : ∀ (q c : Nat), (digitsLE 10 c).length = q + 1 →
    digitsLE 10 c = fracLE q c ++ [c / 10 ^ q] := by
  intro q
  induction q with
  | zero =>
    intro c hlen
    have hv : 0 < c := by
      by_contra h; have : c = 0 := by omega
      subst this; simp [digitsLE_zero] at hlen
    rw [digitsLE_pos (by omega) hv] at hlen ⊢
    simp only [List.length_cons, Nat.add_right_cancel_iff, List.length_eq_zero_iff] at hlen
    have h10 := digitsLE_eq_nil (by omega) hlen
    rw [hlen]; simp [fracLE]; omega
  | succ q ih =>
    intro c hlen
    have hv : 0 < c := by
      by_contra h; have : c = 0 := by omega
      subst this; simp [digitsLE_zero] at hlen
    rw [digitsLE_pos (by omega) hv] at hlen ⊢
    simp only [List.length_cons, Nat.add_right_cancel_iff] at hlen
    rw [ih (c / 10) hlen, fracLE, Nat.div_div_eq_div_mul, Nat.pow_succ, Nat.mul_comm]
    rfl

theorem fracLE_lt : ∀ (q c : Nat), ∀ d ∈ fracLE q c, d < 10
  | 0, _, d, h => by simp [fracLE] at h
  | q + 1, c, d, h => by
    rcases List.mem_cons.1 h with h | h
    · rw [h]; omega
    · exact fracLE_lt q (c / 10) d h

theorem lowerTab_eq : lowerTab = digitChar := rfl
theorem upperTab_eq : upperTab = upperChar := rfl

theorem primDec_eq {v : Nat} (hv : v < 2 ^ 64) : primDec v = numeral 10 v := by
  unfold primDec numeral
  rw [padIntegral_default, radixLoop_eq lowerTab (by omega) 63 v [] hv, lowerTab_eq]; simp

theorem digitChar_eq_48 (d : Nat) : (digitChar d == 48) = (d == 0) := by
  unfold digitChar; split <;> first | (simp; done) | (simp; omega)
theorem digitChar_lt10 {d : Nat} (h : d < 10) : digitChar d = 48 + d := by
  unfold digitChar; rw [if_pos h]

theorem trimEndZeros_numeral (v : Nat) (hv : 0 < v) :
    trimEndZeros ((canonBE 10 v).map digitChar)
      = ((digitsLE 10 v).dropWhile (· == 0)).reverse.map digitChar := by
  unfold trimEndZeros canonBE
  rw [canonLE_pos hv, ← List.map_reverse, List.reverse_reverse, List.dropWhile_map]
  have : ((fun x => x == 48) ∘ digitChar) = (fun x => x == 0) := by
    funext d; exact digitChar_eq_48 d
  rw [this, List.map_reverse]

theorem map_digitChar_eq {l : List Nat} (h : ∀ d ∈ l, d < 10) :
    l.map digitChar = l.map (48 + ·) :=
  List.map_congr_left (fun d hd => digitChar_lt10 (h d hd))

/-- the text `exp_fmt!` builds from the canonical decimal numeral is the text core's `exp_u*`
    builds from the number -/
theorem expBuf_eq (ec v : Nat) (hlen : (canonBE 10 v).length ≤ 2 ^ 64) :
    expBuf [ec] ((canonBE 10 v).map digitChar) = .ok (expText ec v) := by
  by_cases hv : v = 0
  · subst hv
    have h0 : primDec 0 = [48] := by rw [primDec_eq (by omega)]; rfl
    have e : (canonBE 10 0).map digitChar = [48] := rfl
    have h3 : expText ec 0 = [48, ec, 48] := rfl
    rw [e, h3]
    simp [expBuf, h0]
  · have hpos : 0 < v := by omega
    have hL := digitsLE_length_eq hpos
    obtain ⟨hs1, hs2⟩ := strip_spec (ilog10 v) v hL
    have hcl : (canonBE 10 v).length = ilog10 v + 1 := by
      rw [canonBE, canonLE_pos hpos, List.length_reverse, hL]
    have htrim := trimEndZeros_numeral v hpos
    rw [hs1] at htrim
    have hsp := digitsLE_split (ilog10 v) v hL
    have hne48 : ((canonBE 10 v).map digitChar == [48]) = false := by
      apply beq_eq_false_iff_ne.2
      intro h
      rw [canonBE, canonLE_pos hpos, hsp] at h
      cases hp : ilog10 v with
      | zero =>
        rw [hp] at h
        simp [fracLE] at h
        have := digitChar_eq_48 v
        simp [h] at this; omega
      | succ p =>
        rw [hp] at h
        simp [fracLE] at h
    have hnemp : ((canonBE 10 v).map digitChar).isEmpty = false := by
      cases h : canonBE 10 v with
      | nil => rw [h] at hcl; simp at hcl
      | cons a as => rfl
    unfold expBuf
    rw [hne48, hnemp]
    simp only [Bool.false_eq_true, if_false, htrim, List.length_map, List.length_reverse, hcl, hs2,
      Nat.add_sub_cancel]
    rw [primDec_eq (by omega)]
    unfold expText
    dsimp only
    generalize hc : (strip (ilog10 v) v).1 = c at *
    generalize hq : (strip (ilog10 v) v).2 = q at *
    have hsplit := digitsLE_split q c hs2
    have hlead : c / 10 ^ q < 10 :=
      digitsLE_lt (by omega) c c (Nat.le_refl _) _ (by rw [hsplit]; simp)
    have hfr := fracLE_lt q c
    rw [hsplit]
    simp only [List.reverse_append, List.reverse_cons, List.reverse_nil, List.nil_append,
      List.map_cons, List.cons_append, List.take_succ_cons,
      List.take_zero, List.drop_succ_cons, List.drop_zero, digitChar_lt10 hlead]
    by_cases hq0 : q = 0
    · subst hq0; simp
    · have h1 : (q + 1 == 1) = false := by simp [hq0]
      have h2 : ¬ (q + 1 < 1) := by omega
      rw [h1]
      simp only [Bool.false_eq_true, if_false, h2, if_neg hq0]
      rw [map_digitChar_eq (l := (fracLE q c).reverse) (by
        intro d hd; exact hfr d (List.mem_reverse.1 hd))]
      simp

/-! ### one primitive digit (`{:x}`, `{:01$x}`) -/

theorem primRadix_default {w base d : Nat} (tab : Nat → Nat) (pfx : List Nat) (hb : 2 ≤ base)
    (hw : 1 ≤ w) (hd : d < B w) : primRadix {} w base tab pfx d = (canonBE base d).map tab := by
  obtain ⟨k, rfl⟩ : ∃ k, w = k + 1 := ⟨w - 1, by omega⟩
  unfold primRadix
  rw [padIntegral_default, radixLoop_eq tab hb k d [] hd]; simp

theorem primRadix_zeroPad {w base d : Nat} (tab : Nat → Nat) (pfx : List Nat) (pad : Nat)
    (hb : 2 ≤ base) (hw : 1 ≤ w) (hd : d < B w) :
    primRadix { zeroPad := true, width := pad } w base tab pfx d
      = List.replicate (pad - (canonBE base d).length) 48 ++ (canonBE base d).map tab := by
  obtain ⟨k, rfl⟩ : ∃ k, w = k + 1 := ⟨w - 1, by omega⟩
  unfold primRadix
  rw [padIntegral_zeroPad, radixLoop_eq tab hb k d [] hd]; simp

/-- `fmt_method!`: the content handed to `pad_integral` is the canonical numeral of the value -/
theorem fmtMethod_eq {w n base pad : Nat} (fl : Flags) (tab : Nat → Nat) (pfx : List Nat)
    (hb : 2 ≤ base) (hpad : 1 ≤ pad) (hbp : base ^ pad = B w) (ht0 : tab 0 = 48) (hw : 1 ≤ w)
    {x : List Nat} (hx : WF w n x) :
    fmtMethod fl w base tab pad pfx x = padIntegral fl true pfx ((canonBE base (U w x)).map tab) := by
  unfold fmtMethod
  have h := fmtMethodLoop_eq tab hb hpad hbp ht0
    (fun d => primRadix {} w base tab pfx d)
    (fun d => primRadix { zeroPad := true, width := pad } w base tab pfx d)
    (fun d hd => primRadix_default tab pfx hb hw hd)
    (fun d hd => primRadix_zeroPad tab pfx pad hb hw hd) n x hx
  simp only [h]
  by_cases hu : U w x = 0
  · rw [hu]; simp [digitsLE_zero, canonBE, canonLE_zero, ht0]
  · have hne := digitsLE_ne_nil (r := base) hb (by omega : 0 < U w x)
    have hemp : ((digitsLE base (U w x)).reverse.map tab).isEmpty = false := by
      cases h : digitsLE base (U w x) with
      | nil => exact absurd h hne
      | cons a as => simp
    rw [hemp, canonBE, canonLE_pos (by omega)]; rfl

theorem pow16 {w : Nat} (hw4 : 4 ∣ w) : 16 ^ (w / 4) = B w := by
  obtain ⟨k, rfl⟩ := hw4
  rw [Nat.mul_div_cancel_left _ (by omega : 0 < 4)]
  unfold B; rw [Nat.pow_mul]

/-! ### what each `BUint` implementation hands to `pad_integral` -/

theorem binary_eq (fl : Flags) {w n : Nat} {x : List Nat} (hw : 1 ≤ w) (hx : WF w n x) :
    UI.fmtBinary fl w x = .ok (padIntegral fl true [48, 98] (numeral 2 (U w x))) := by
  unfold UI.fmtBinary
  rw [fmtMethod_eq fl lowerTab [48, 98] (by omega) hw rfl rfl hw hx, lowerTab_eq]; rfl

theorem lowerHex_eq (fl : Flags) {w n : Nat} {x : List Nat} (hw : 1 ≤ w) (hw4 : 4 ∣ w)
    (hx : WF w n x) :
    UI.fmtLowerHex fl w x = .ok (padIntegral fl true [48, 120] (numeral 16 (U w x))) := by
  unfold UI.fmtLowerHex
  have : 1 ≤ w / 4 := by obtain ⟨k, rfl⟩ := hw4; omega
  rw [fmtMethod_eq fl lowerTab [48, 120] (by omega) this (pow16 hw4) rfl hw hx, lowerTab_eq]; rfl

theorem upperHex_eq (fl : Flags) {w n : Nat} {x : List Nat} (hw : 1 ≤ w) (hw4 : 4 ∣ w)
    (hx : WF w n x) :
    UI.fmtUpperHex fl w x = .ok (padIntegral fl true [48, 120] (numeralUpper 16 (U w x))) := by
  unfold UI.fmtUpperHex
  have : 1 ≤ w / 4 := by obtain ⟨k, rfl⟩ := hw4; omega
  rw [fmtMethod_eq fl upperTab [48, 120] (by omega) this (pow16 hw4) rfl hw hx, upperTab_eq]; rfl

/-- C11 for one value and radix: `to_str_radix` returns the canonical lowercase numeral.
    (Owned by lean-c10c11; used here as an explicit hypothesis.) -/
def ToStrRadixCanonical (w : Nat) (x : List Nat) (r : Nat) : Prop :=
  UI.toStrRadix w x r = .ok ((canonBE r (U w x)).map digitChar)

theorem octal_eq (fl : Flags) {w : Nat} {x : List Nat} (h8 : ToStrRadixCanonical w x 8) :
    UI.fmtOctal fl w x = .ok (padIntegral fl true [48, 111] (numeral 8 (U w x))) := by
  unfold UI.fmtOctal; rw [h8]; rfl

theorem display_eq (fl : Flags) {w : Nat} {x : List Nat} (h10 : ToStrRadixCanonical w x 10) :
    UI.fmtDisplay fl w x = .ok (padIntegral fl true [] (numeral 10 (U w x))) := by
  unfold UI.fmtDisplay; rw [h10]; rfl

theorem two_pow_le_ten_pow (k : Nat) : 2 ^ k ≤ 10 ^ k := Nat.pow_le_pow_left (by omega) k

theorem canonBE10_length_le {w n v : Nat} (hv : v < M w n) (hW : w * n < 2 ^ 64) :
    (canonBE 10 v).length ≤ 2 ^ 64 := by
  by_cases h0 : v = 0
  · subst h0; simp [canonBE, canonLE_zero]
  · rw [canonBE, canonLE_pos (by omega), List.length_reverse]
    have : v < 10 ^ (w * n) := Nat.lt_of_lt_of_le hv (two_pow_le_ten_pow _)
    have := digitsLE_length_le (r := 10) (by omega) (w * n) v this
    omega

theorem exp_eq (ec : Nat) (fl : Flags) {w n : Nat} {x : List Nat} (hx : WF w n x)
    (hW : w * n < 2 ^ 64) (h10 : ToStrRadixCanonical w x 10) :
    UI.fmtExp [ec] fl w x = .ok (padIntegral fl true [] (expText ec (U w x))) := by
  unfold UI.fmtExp; rw [h10]
  show ((expBuf [ec] ((canonBE 10 (U w x)).map digitChar)).map _) = _
  rw [expBuf_eq ec (U w x) (canonBE10_length_le (U_lt hx) hW)]; rfl

/-! ### `BInt`: sign and magnitude -/

theorem not_isNegative {w n : Nat} {x : List Nat} (hw : 1 ≤ w) (hn : 1 ≤ n) (hx : WF w n x) :
    (!isNegative w x) = decide (0 ≤ S w x) := by
  rw [isNegative_eq_decide hw hn hx]
  by_cases h : S w x < 0
  · simp [h]
  · simp [h]; omega

theorem display_eq_signed (fl : Flags) {w n : Nat} {x : List Nat} (hw : 2 ≤ w) (hn : 1 ≤ n)
    (hx : WF w n x) (h10 : ToStrRadixCanonical w (II.unsignedAbs w x) 10) :
    II.fmtDisplay fl w x
      = .ok (padIntegral fl (decide (0 ≤ S w x)) [] (numeral 10 (S w x).natAbs)) := by
  unfold II.fmtDisplay
  rw [display_eq {} h10, (II.unsignedAbs_spec hw hn hx).2, not_isNegative (by omega) hn hx]
  show Outcome.ok (padIntegral fl _ [] (padIntegral {} true [] _)) = _
  rw [padIntegral_default]

theorem exp_eq_signed (ec : Nat) (fl : Flags) {w n : Nat} {x : List Nat} (hw : 2 ≤ w) (hn : 1 ≤ n)
    (hx : WF w n x) (hW : w * n < 2 ^ 64) (h10 : ToStrRadixCanonical w (II.unsignedAbs w x) 10) :
    (UI.fmtExp [ec] {} w (II.unsignedAbs w x)).map (padIntegral fl (!isNegative w x) [])
      = .ok (padIntegral fl (decide (0 ≤ S w x)) [] (expText ec (S w x).natAbs)) := by
  have hs := II.unsignedAbs_spec hw hn hx
  rw [exp_eq ec {} hs.1 hW h10, hs.2, not_isNegative (by omega) hn hx]
  show Outcome.ok (padIntegral fl _ [] (padIntegral {} true [] _)) = _
  rw [padIntegral_default]

open Bnum.Drive.C12 (runModel runSpec)

/-! ### the combined statement: bnum's text = the primitive's text, for every trait and all flags -/

theorem pat_unsigned {w n : Nat} {a : List Nat} (ha : WF w n a) :
    wrapU (2 ^ (w * n)) ((U w a : Nat) : Int) = U w a := by
  rw [wrapU_natCast]; exact Nat.mod_eq_of_lt (U_lt ha)

theorem pat_signed {w n : Nat} {a : List Nat} (ha : WF w n a) :
    wrapU (2 ^ (w * n)) (S w a) = U w a := by
  have := wrapU_toInt (U_lt ha)
  rw [S_def, ha.1]; exact this

/-- C12, unsigned: for every trait and every formatter option, `BUint`'s implementation writes
    what core writes for a primitive holding the same value (both through `pad_integral`). -/
theorem runModel_unsigned (t : Trait) (fl : Flags) {w n : Nat} {a : List Nat} (hw : 1 ≤ w)
    (hw4 : 4 ∣ w) (hW : w * n < 2 ^ 64) (ha : WF w n a)
    (h8 : ToStrRadixCanonical w a 8) (h10 : ToStrRadixCanonical w a 10) :
    runModel false t fl w a = .ok (runSpec false t fl (w * n) (U w a : Int)) := by
  have hp := pat_unsigned ha
  cases t <;> simp only [runModel, runSpec, primTriple, hp, Int.natAbs_natCast]
  · exact display_eq fl h10
  · exact display_eq fl h10
  · exact binary_eq fl hw ha
  · exact octal_eq fl h8
  · exact lowerHex_eq fl hw hw4 ha
  · exact upperHex_eq fl hw hw4 ha
  · exact exp_eq 101 fl ha hW h10
  · exact exp_eq 69 fl ha hW h10

/-- C12, signed -/
theorem runModel_signed (t : Trait) (fl : Flags) {w n : Nat} {a : List Nat} (hw : 2 ≤ w)
    (hw4 : 4 ∣ w) (hn : 1 ≤ n) (hW : w * n < 2 ^ 64) (ha : WF w n a)
    (h8 : ToStrRadixCanonical w a 8) (h10 : ToStrRadixCanonical w (II.unsignedAbs w a) 10) :
    runModel true t fl w a = .ok (runSpec true t fl (w * n) (S w a)) := by
  have hp := pat_signed ha
  have hw1 : 1 ≤ w := by omega
  cases t <;> simp only [runModel, runSpec, primTriple, hp, if_true]
  · exact display_eq_signed fl hw hn ha h10
  · exact display_eq_signed fl hw hn ha h10
  · exact binary_eq fl hw1 ha
  · exact octal_eq fl h8
  · exact lowerHex_eq fl hw1 hw4 ha
  · exact upperHex_eq fl hw1 hw4 ha
  · exact exp_eq_signed 101 fl hw hn ha hW h10
  · exact exp_eq_signed 69 fl hw hn ha hW h10

/-! ### what the Spec means: positional concatenation and the `d.ddde<k>` form -/

/-- positional-numeral concatenation (string form): the interior digits are zero padded -/
theorem numeral_concat {r k hi lo : Nat} (hr : 2 ≤ r) (hk : 1 ≤ k) (hhi : 0 < hi)
    (hlo : lo < r ^ k) :
    numeral r (hi * r ^ k + lo)
      = numeral r hi ++ (List.replicate (k - (numeral r lo).length) 48 ++ numeral r lo) := by
  have hpos : 0 < hi * r ^ k + lo := by
    have : 0 < hi * r ^ k := Nat.mul_pos hhi (Nat.pow_pos (by omega))
    omega
  unfold numeral
  rw [List.length_map, ← fixedBE_eq digitChar hr hk hlo rfl, canonBE, canonBE, canonLE_pos hpos,
    canonLE_pos hhi, digitsLE_concat hr k hi lo hhi hlo]
  simp

theorem ilog10Aux_spec : ∀ (f v : Nat), v ≤ f → 0 < v →
    10 ^ ilog10Aux f v ≤ v ∧ v < 10 ^ (ilog10Aux f v + 1) := by
  intro f
  induction f with
  | zero => intro v h1 h2; omega
  | succ f ih =>
    intro v h1 h2
    rw [ilog10Aux]
    by_cases h : v < 10
    · rw [if_pos h]; simp; omega
    · rw [if_neg h]
      obtain ⟨a, b⟩ := ih (v / 10) (by omega) (by omega)
      generalize ilog10Aux f (v / 10) = k at *
      have e1 : 10 ^ (1 + k) = 10 * 10 ^ k := by rw [Nat.add_comm, Nat.pow_succ, Nat.mul_comm]
      have e2 : 10 ^ (1 + k + 1) = 10 * 10 ^ (k + 1) := by
        rw [show 1 + k + 1 = (k + 1) + 1 by omega, Nat.pow_succ, Nat.mul_comm]
      rw [e1, e2]
      generalize 10 ^ k = X at *
      generalize 10 ^ (k + 1) = Y at *
      omega

/-- `ilog10 v` is the decimal exponent: `10^k ≤ v < 10^(k+1)` -/
theorem ilog10_spec {v : Nat} (hv : 0 < v) : 10 ^ ilog10 v ≤ v ∧ v < 10 ^ (ilog10 v + 1) :=
  ilog10Aux_spec v v (Nat.le_refl _) hv

/-- the mantissa integer times the dropped power of ten is the value -/
theorem strip_value : ∀ (p v : Nat),
    (strip p v).2 ≤ p ∧ (strip p v).1 * 10 ^ (p - (strip p v).2) = v := by
  intro p
  induction p with
  | zero => intro v; simp [strip]
  | succ p ih =>
    intro v
    rw [strip]
    by_cases hm : v % 10 = 0
    · rw [if_pos hm]
      obtain ⟨a, b⟩ := ih (v / 10)
      refine ⟨by omega, ?_⟩
      rw [show p + 1 - (strip p (v / 10)).2 = (p - (strip p (v / 10)).2) + 1 by omega,
        Nat.pow_succ, ← Nat.mul_assoc, b]
      omega
    · rw [if_neg hm]; simp

/-- trailing zeros are trimmed: a mantissa with a fraction part does not end in `0` -/
theorem strip_no_trailing_zero : ∀ (p v : Nat), (strip p v).2 ≠ 0 → (strip p v).1 % 10 ≠ 0 := by
  intro p
  induction p with
  | zero => intro v h; simp [strip] at h
  | succ p ih =>
    intro v h
    rw [strip] at h ⊢
    by_cases hm : v % 10 = 0
    · rw [if_pos hm] at h ⊢; exact ih _ h
    · rw [if_neg hm]; exact hm

/-- the exponent text is `d[.ddd]e<k>`: first digit of the mantissa integer `c`, then (if there
    are any) its remaining digits after a `.`, then `e` and the decimal exponent -/
theorem expText_eq {v : Nat} (hv : 0 < v) (e : Nat) :
    expText e v
      = (numeral 10 (strip (ilog10 v) v).1).take 1
        ++ (if (strip (ilog10 v) v).2 = 0 then []
            else 46 :: (numeral 10 (strip (ilog10 v) v).1).drop 1)
        ++ [e] ++ numeral 10 (ilog10 v) := by
  have hL := digitsLE_length_eq hv
  obtain ⟨hs1, hs2⟩ := strip_spec (ilog10 v) v hL
  unfold expText
  dsimp only
  generalize hc : (strip (ilog10 v) v).1 = c at *
  generalize hq : (strip (ilog10 v) v).2 = q at *
  have hsplit := digitsLE_split q c hs2
  have hcpos : 0 < c := by
    by_contra h; have : c = 0 := by omega
    subst this; simp [digitsLE_zero] at hs2
  have hlead : c / 10 ^ q < 10 :=
    digitsLE_lt (by omega) c c (Nat.le_refl _) _ (by rw [hsplit]; simp)
  have hfr := fracLE_lt q c
  have hnum : numeral 10 c = (48 + c / 10 ^ q) :: (fracLE q c).reverse.map (48 + ·) := by
    unfold numeral
    rw [canonBE, canonLE_pos hcpos, hsplit]
    simp only [List.reverse_append, List.reverse_cons, List.reverse_nil, List.nil_append,
      List.cons_append, List.map_cons, digitChar_lt10 hlead]
    rw [map_digitChar_eq (l := (fracLE q c).reverse) (by
      intro d hd; exact hfr d (List.mem_reverse.1 hd))]
  rw [hnum]
  by_cases hq0 : q = 0
  · subst hq0; simp
  · simp [hq0]

theorem expText_zero (e : Nat) : expText e 0 = [48, e, 48] := rfl

/-- the mantissa integer of a positive value has exactly `prec + 1` digits -/
theorem strip_range {v : Nat} (hv : 0 < v) :
    10 ^ (strip (ilog10 v) v).2 ≤ (strip (ilog10 v) v).1 ∧
    (strip (ilog10 v) v).1 < 10 ^ ((strip (ilog10 v) v).2 + 1) := by
  have hL := digitsLE_length_eq hv
  obtain ⟨hs1, hs2⟩ := strip_spec (ilog10 v) v hL
  generalize (strip (ilog10 v) v).1 = c at *
  generalize (strip (ilog10 v) v).2 = q at *
  have hcpos : 0 < c := by
    by_contra h; have : c = 0 := by omega
    subst this; simp [digitsLE_zero] at hs2
  have h1 := digitsLE_length_eq hcpos
  have h2 := ilog10_spec hcpos
  have : ilog10 c = q := by omega
  rw [this] at h2; exact h2

/-! ### sanity properties of the `pad_integral` model -/

/-- sign, then (under `#`) the prefix -/
def signPrefix (fl : Flags) (isNonneg : Bool) (pfx : List Nat) : List Nat :=
  (if !isNonneg then [45] else if fl.signPlus then [43] else [])
    ++ (if fl.alternate then pfx else [])

/-- the text before padding: sign, prefix, digits -/
def natural (fl : Flags) (isNonneg : Bool) (pfx buf : List Nat) : List Nat :=
  signPrefix fl isNonneg pfx ++ buf

theorem fillN_length (fill : List Nat) : ∀ k, (fillN fill k).length = k * fill.length
  | 0 => by simp [fillN]
  | k + 1 => by simp [fillN, fillN_length fill k]; ring

theorem padding_length (fl : Flags) (pad : Nat) (d : Align) (hf : fl.fill.length = 1) :
    (padding fl pad d).1.length + (padding fl pad d).2.length = pad := by
  unfold padding
  simp only [fillN_length, hf, Nat.mul_one]
  cases fl.align with
  | none => cases d <;> (simp; try omega)
  | some a => cases a <;> (simp; try omega)

/-- readable form of the model: nothing if the text already has `width` characters; under `0`
    zeros between sign/prefix and digits (fill and alignment ignored); otherwise fill characters
    around the text according to the alignment (default: right-aligned) -/
theorem padIntegral_eq (fl : Flags) (isNonneg : Bool) (pfx buf : List Nat) :
    padIntegral fl isNonneg pfx buf =
      let nat := natural fl isNonneg pfx buf
      if fl.width ≤ nat.length then nat
      else if fl.zeroPad then
        signPrefix fl isNonneg pfx ++ List.replicate (fl.width - nat.length) 48 ++ buf
      else
        let p := padding fl (fl.width - nat.length) .right
        p.1 ++ nat ++ p.2 := by
  have hw : (natural fl isNonneg pfx buf).length
      = (if fl.alternate then
          (if !isNonneg then buf.length + 1 else if fl.signPlus then buf.length + 1 else buf.length)
            + pfx.length
         else
          (if !isNonneg then buf.length + 1 else if fl.signPlus then buf.length + 1 else buf.length)) := by
    unfold natural signPrefix
    cases isNonneg <;> cases fl.signPlus <;> cases fl.alternate <;> simp <;> omega
  have hs : writePrefix (if !isNonneg then some 45 else if fl.signPlus then some 43 else none)
      (if fl.alternate then some pfx else none) = signPrefix fl isNonneg pfx := by
    unfold writePrefix signPrefix
    cases isNonneg <;> cases fl.signPlus <;> cases fl.alternate <;> simp
  unfold padIntegral
  simp only [hs, ← hw]
  by_cases h : fl.width ≤ (natural fl isNonneg pfx buf).length
  · simp only [ge_iff_le, if_pos h]; rfl
  · simp only [ge_iff_le, if_neg h]
    cases fl.zeroPad
    · simp [natural]
    · simp [padding, fillN_single]

theorem padIntegral_of_le (fl : Flags) (isNonneg : Bool) (pfx buf : List Nat)
    (h : fl.width ≤ (natural fl isNonneg pfx buf).length) :
    padIntegral fl isNonneg pfx buf = natural fl isNonneg pfx buf := by
  rw [padIntegral_eq]; simp [h]

/-- the output has at least `width` characters, exactly `width` when padding was needed
    (for a one-byte fill character) -/
theorem padIntegral_length (fl : Flags) (isNonneg : Bool) (pfx buf : List Nat)
    (hf : fl.fill.length = 1) :
    (padIntegral fl isNonneg pfx buf).length
      = max fl.width (natural fl isNonneg pfx buf).length := by
  rw [padIntegral_eq]
  dsimp only
  by_cases h : fl.width ≤ (natural fl isNonneg pfx buf).length
  · rw [if_pos h, Nat.max_eq_right h]
  · rw [if_neg h]
    have hp := padding_length fl (fl.width - (natural fl isNonneg pfx buf).length) .right hf
    cases fl.zeroPad
    · simp only [Bool.false_eq_true, if_false, List.length_append]; omega
    · simp only [if_true, List.length_append, List.length_replicate]
      unfold natural at *; simp only [List.length_append] at *; omega

end Fmt
end Bnum
