/-
  Bnum.Lemmas.AddSub2 — second layer of lemmas for C01 (add / sub / neg / abs family):
  wrap helpers, constants (`zero`, `one`, `allOnes`, `iMin`, `iMax`, `fromDigit`), `bnot`,
  `isNegative`, and the signed loops `II.subLoop_spec`, `II.negLoop_spec`.
-/
import Bnum.Lemmas.AddSub
import Bnum.Spec.Arith

namespace Bnum

/-! ### wrap helpers -/

/-- the universal way to identify a wrapped value: `z` differs from `u < m` by a multiple of `m` -/
theorem wrapU_eq_of {m u : Nat} {z k : Int} (hu : u < m) (h : z = u + k * m) : wrapU m z = u := by
  unfold wrapU
  rw [h, Int.add_mul_emod_self_right, Int.emod_eq_of_lt (by omega) (by omega)]
  simp

theorem wrapU_cast {m : Nat} (hm : 0 < m) (z : Int) : ((wrapU m z : Nat) : Int) = z % (m : Int) := by
  unfold wrapU
  have h1 := Int.emod_nonneg z (show (m : Int) ≠ 0 by omega)
  omega

theorem wrapU_spec {m : Nat} (hm : 0 < m) (z : Int) : ∃ k : Int, z = wrapU m z + k * m := by
  refine ⟨z / m, ?_⟩
  rw [wrapU_cast hm]
  have := Int.emod_add_mul_ediv z m
  linarith [Int.mul_comm (m : Int) (z / m)]

theorem wrapU_add_mul {m : Nat} (z k : Int) : wrapU m (z + k * m) = wrapU m z := by
  unfold wrapU; rw [Int.add_mul_emod_self_right]

theorem wrapS_add_mul {m : Nat} (z k : Int) : wrapS m (z + k * m) = wrapS m z := by
  unfold wrapS; rw [wrapU_add_mul]

theorem wrapS_of_rep_sub {m : Nat} {z : Int} (hm : 0 < m) (h : repS m (z - m)) :
    wrapS m z = z - m := by
  have := wrapS_add_mul (m := m) z (-1)
  rw [← this, show z + -1 * (m : Int) = z - m by ring]
  exact wrapS_of_rep hm h

theorem wrapS_of_rep_add {m : Nat} {z : Int} (hm : 0 < m) (h : repS m (z + m)) :
    wrapS m z = z + m := by
  have := wrapS_add_mul (m := m) z 1
  rw [← this, show z + 1 * (m : Int) = z + m by ring]
  exact wrapS_of_rep hm h

theorem wrapU_wrapU_add {m : Nat} (hm : 0 < m) (z y : Int) :
    wrapU m ((wrapU m z : Int) + y) = wrapU m (z + y) := by
  obtain ⟨k, hk⟩ := wrapU_spec hm z
  conv_rhs => rw [hk, show (wrapU m z : Int) + k * m + y = ((wrapU m z : Int) + y) + k * m by ring,
    wrapU_add_mul]

theorem wrapS_spec {m : Nat} (hm : 0 < m) (z : Int) : ∃ k : Int, z = wrapS m z + k * m := by
  obtain ⟨k, hk⟩ := wrapU_spec hm z
  unfold wrapS toInt
  split
  · exact ⟨k, hk⟩
  · exact ⟨k + 1, by linarith⟩

theorem wrapS_wrapS_add {m : Nat} (hm : 0 < m) (z y : Int) :
    wrapS m (wrapS m z + y) = wrapS m (z + y) := by
  obtain ⟨k, hk⟩ := wrapS_spec hm z
  conv_rhs => rw [hk, show wrapS m z + k * m + y = (wrapS m z + y) + k * m by ring,
    wrapS_add_mul]

theorem wrapS_repS {m : Nat} (hm : 0 < m) (he : m = 2 * (m / 2)) (z : Int) : repS m (wrapS m z) :=
  toInt_repS he (wrapU_lt hm z)

/-! ### `S` versus `U` -/

theorem S_eq {w n : Nat} {x : List Nat} (hx : WF w n x) : S w x = toInt (M w n) (U w x) := by
  unfold S; rw [hx.1]

theorem S_of_nonneg {w n : Nat} {x : List Nat} (hx : WF w n x) (h : 0 ≤ S w x) :
    S w x = U w x := by
  have hu := U_lt hx
  rw [S_eq hx] at *; unfold toInt at *; split_ifs at h ⊢ <;> omega

theorem S_of_neg {w n : Nat} {x : List Nat} (hx : WF w n x) (h : S w x < 0) :
    S w x = (U w x : Int) - M w n := by
  have hu := U_lt hx
  rw [S_eq hx] at *; unfold toInt at *; split_ifs at h ⊢ <;> omega

theorem S_spec {w n : Nat} {x : List Nat} (hx : WF w n x) :
    ∃ k : Int, S w x = U w x + k * M w n := by
  rw [S_eq hx]; unfold toInt; split
  · exact ⟨0, by ring⟩
  · exact ⟨-1, by ring⟩

/-- a result whose pattern is congruent to `z` has signed value `wrapS z` -/
theorem S_eq_wrapS {w n : Nat} {r : List Nat} (hr : WF w n r) {z k : Int}
    (h : z = U w r + k * M w n) : S w r = wrapS (M w n) z := by
  rw [S_eq hr]; unfold wrapS; rw [wrapU_eq_of (U_lt hr) h]

theorem U_eq_wrapU {w n : Nat} {r : List Nat} (hr : WF w n r) {z k : Int}
    (h : z = U w r + k * M w n) : U w r = wrapU (M w n) z :=
  (wrapU_eq_of (U_lt hr) h).symm

/-! ### constants -/

theorem WF_replicate {w d : Nat} (n : Nat) (hd : d < B w) : WF w n (List.replicate n d) := by
  refine ⟨by simp, ?_⟩
  intro x hx
  rw [List.eq_of_mem_replicate hx]; exact hd

theorem WF_zero (w n : Nat) : WF w n (zero n) := WF_replicate n (B_pos w)
theorem U_zero (w n : Nat) : U w (zero n) = 0 := U_replicate_zero w n
theorem S_zero (w n : Nat) : S w (zero n) = 0 := by
  rw [S_eq (WF_zero w n), U_zero]; have := M_pos w n; simp [toInt, this]

theorem WF_fromDigit {w n d : Nat} (hn : 1 ≤ n) (hd : d < B w) : WF w n (fromDigit n d) := by
  obtain ⟨k, rfl⟩ := Nat.exists_eq_add_of_le hn
  rw [Nat.add_comm]; exact WF_cons.mpr ⟨hd, WF_replicate k (B_pos w)⟩
theorem U_fromDigit {w n : Nat} (d : Nat) (hn : 1 ≤ n) : U w (fromDigit n d) = d := by
  obtain ⟨k, rfl⟩ := Nat.exists_eq_add_of_le hn
  rw [Nat.add_comm]; simp [fromDigit, U_replicate_zero]

theorem WF_one {w n : Nat} (hw : 1 ≤ w) (hn : 1 ≤ n) : WF w n (one n) :=
  WF_fromDigit hn (by have := B_ge_two hw; omega)
theorem U_one {w n : Nat} (hn : 1 ≤ n) : U w (one n) = 1 := U_fromDigit 1 hn
theorem M_ge_four {w n : Nat} (hw : 2 ≤ w) (hn : 1 ≤ n) : 4 ≤ M w n := by
  obtain ⟨k, rfl⟩ := Nat.exists_eq_add_of_le hn
  rw [Nat.add_comm, M_succ]
  have h1 := B_half_ge_two hw
  have h2 := M_pos w k
  have : B w * 1 ≤ B w * M w k := Nat.mul_le_mul_left _ h2
  omega
theorem S_one {w n : Nat} (hw : 2 ≤ w) (hn : 1 ≤ n) : S w (one n) = 1 := by
  rw [S_eq (WF_one (by omega) hn), U_one hn]
  have := M_ge_four hw hn
  rw [toInt_of_lt (by omega)]; rfl

theorem U_replicate_max (w n : Nat) : U w (List.replicate n (B w - 1)) = M w n - 1 := by
  induction n with
  | zero => simp [M]
  | succ n ih =>
    rw [List.replicate_succ, U_cons, ih, M_succ]
    have hB := B_pos w; have hM := M_pos w n
    generalize B w = b at *; generalize M w n = m at *
    obtain ⟨m', rfl⟩ : ∃ m', m = m' + 1 := ⟨m - 1, by omega⟩
    rw [Nat.mul_add]; simp only [Nat.add_sub_cancel, Nat.mul_one]; omega

theorem WF_allOnes (w n : Nat) : WF w n (allOnes w n) :=
  WF_replicate n (by have := B_pos w; omega)
theorem U_allOnes (w n : Nat) : U w (allOnes w n) = M w n - 1 := U_replicate_max w n

theorem WF_bnot {w n : Nat} {x : List Nat} (hx : WF w n x) : WF w n (bnot w x) := by
  refine ⟨by simp [bnot, hx.1], ?_⟩
  intro d hd
  simp only [bnot, List.mem_map] at hd
  obtain ⟨e, _, rfl⟩ := hd
  unfold Prim.not; have := B_pos w; omega

theorem U_bnot {w n : Nat} {x : List Nat} (hx : WF w n x) :
    U w (bnot w x) = M w n - 1 - U w x := by
  induction x generalizing n with
  | nil => have := hx.1; simp at this; subst this; simp [bnot, M]
  | cons d ds ih =>
    cases n with
    | zero => exact absurd hx.1 (by simp)
    | succ n =>
      rw [WF_cons] at hx
      have h := ih hx.2
      have hu := U_lt hx.2
      simp only [bnot, List.map_cons, U_cons] at h ⊢
      rw [h, M_succ]; unfold Prim.not
      have hd := hx.1
      generalize B w = b at *; generalize M w n = m at *; generalize U w ds = u at *
      obtain ⟨t, rfl⟩ : ∃ t, m = u + 1 + t := ⟨m - u - 1, by omega⟩
      have : u + 1 + t - 1 - u = t := by omega
      rw [this]; ring_nf; omega

theorem M_half_succ {w : Nat} (hw : 1 ≤ w) (k : Nat) : M w (k + 1) / 2 = B w ^ k * (B w / 2) := by
  rw [M_eq_pow, Nat.pow_succ]
  have := B_even hw
  generalize B w / 2 = h at *
  rw [this, show (2 * h) ^ k * (2 * h) = 2 * ((2 * h) ^ k * h) by ring]
  exact Nat.mul_div_cancel_left _ (by decide)

theorem WF_iMin {w n : Nat} (hw : 1 ≤ w) (hn : 1 ≤ n) : WF w n (iMin w n) := by
  obtain ⟨k, rfl⟩ := Nat.exists_eq_add_of_le hn
  rw [Nat.add_comm]
  have := B_even hw
  refine ⟨by simp [iMin], ?_⟩
  intro d hd
  simp only [iMin, List.mem_append, List.mem_singleton] at hd
  rcases hd with hd | rfl
  · rw [List.eq_of_mem_replicate hd]; exact B_pos w
  · have := B_pos w; omega

theorem U_iMin {w n : Nat} (hw : 1 ≤ w) (hn : 1 ≤ n) : U w (iMin w n) = M w n / 2 := by
  obtain ⟨k, rfl⟩ := Nat.exists_eq_add_of_le hn
  rw [Nat.add_comm, M_half_succ hw]
  simp [iMin, U_append, U_replicate_zero]

theorem S_iMin {w n : Nat} (hw : 1 ≤ w) (hn : 1 ≤ n) : S w (iMin w n) = -((M w n / 2 : Nat) : Int) := by
  rw [S_eq (WF_iMin hw hn), U_iMin hw hn]
  have := M_even hw hn
  rw [toInt_of_ge (by omega)]; omega

theorem WF_iMax {w n : Nat} (hw : 1 ≤ w) (hn : 1 ≤ n) : WF w n (iMax w n) := by
  obtain ⟨k, rfl⟩ := Nat.exists_eq_add_of_le hn
  rw [Nat.add_comm]
  have := B_even hw
  have := B_pos w
  refine ⟨by simp [iMax], ?_⟩
  intro d hd
  simp only [iMax, List.mem_append, List.mem_singleton] at hd
  rcases hd with hd | rfl
  · rw [List.eq_of_mem_replicate hd]; omega
  · omega

theorem U_iMax {w n : Nat} (hw : 1 ≤ w) (hn : 1 ≤ n) : U w (iMax w n) = M w n / 2 - 1 := by
  obtain ⟨k, rfl⟩ := Nat.exists_eq_add_of_le hn
  rw [Nat.add_comm, M_half_succ hw]
  simp only [iMax, U_append, U_replicate_max, List.length_replicate, U_cons, U_nil, Nat.mul_zero,
    Nat.add_zero]
  have h1 := M_pos w k
  rw [M_eq_pow] at *
  have h2 := B_even hw
  have h3 := B_pos w
  generalize B w / 2 = h at *
  generalize B w ^ k = p at *
  obtain ⟨h', rfl⟩ : ∃ h', h = h' + 1 := ⟨h - 1, by omega⟩
  simp only [Nat.add_sub_cancel]; rw [Nat.mul_add]; omega

theorem S_iMax {w n : Nat} (hw : 1 ≤ w) (hn : 1 ≤ n) :
    S w (iMax w n) = ((M w n / 2 : Nat) : Int) - 1 := by
  rw [S_eq (WF_iMax hw hn), U_iMax hw hn]
  have := M_even hw hn
  have := M_pos w n
  rw [toInt_of_lt (by omega)]; omega

/-! ### sign test -/

theorem topDigit_cons_cons (d e : Nat) (ds : List Nat) : topDigit (d :: e :: ds) = topDigit (e :: ds) := by
  simp [topDigit, List.getLastD]

theorem isNegative_iff {w : Nat} (hw : 1 ≤ w) : ∀ (n : Nat) (x : List Nat), WF w (n + 1) x →
    (isNegative w x = true ↔ S w x < 0) := by
  intro n
  induction n with
  | zero =>
    intro x hx
    match x, hx with
    | [d], hx =>
      rw [WF_cons] at hx
      rw [S_singleton]
      have := hx.1
      have ht : topDigit [d] = d := rfl
      unfold isNegative Prim.isNeg
      rw [ht, decide_eq_true_iff]
      unfold toInt; split_ifs <;> omega
    | [], hx => exact absurd hx.1 (by simp)
    | _ :: _ :: _, hx => exact absurd hx.1 (by simp)
  | succ n ih =>
    intro x hx
    match x, hx with
    | d :: e :: ds, hx =>
      rw [WF_cons] at hx
      have h := ih (e :: ds) hx.2
      have hs := S_cons hw (show 1 ≤ n + 1 by omega) hx.1 hx.2
      unfold isNegative at *
      rw [topDigit_cons_cons, h, hs]
      have hd := hx.1
      have hB := B_pos w
      generalize S w (e :: ds) = s at *
      generalize B w = b at *
      constructor
      · intro hneg
        have : (b : Int) * s ≤ b * (-1) := Int.mul_le_mul_of_nonneg_left (by omega) (by omega)
        omega
      · intro hneg
        by_contra hc
        have : (b : Int) * 0 ≤ b * s := Int.mul_le_mul_of_nonneg_left (by omega) (by omega)
        omega
    | [], hx => exact absurd hx.1 (by simp)
    | [_], hx => exact absurd hx.1 (by simp)

theorem isNegative_iff' {w n : Nat} {x : List Nat} (hw : 1 ≤ w) (hn : 1 ≤ n) (hx : WF w n x) :
    (isNegative w x = true ↔ S w x < 0) := by
  obtain ⟨k, rfl⟩ := Nat.exists_eq_add_of_le hn
  rw [Nat.add_comm] at hx
  exact isNegative_iff hw k x hx

theorem isNegative_false_iff {w n : Nat} {x : List Nat} (hw : 1 ≤ w) (hn : 1 ≤ n) (hx : WF w n x) :
    (isNegative w x = false ↔ 0 ≤ S w x) := by
  have := isNegative_iff' hw hn hx
  cases h : isNegative w x <;> simp [h] at this ⊢ <;> omega

/-! ### signed subtraction loop -/
namespace II

/-- the digits produced by the signed loop are those of the unsigned loop -/
theorem subLoop_fst {w : Nat} (hw : 2 ≤ w) : ∀ (n : Nat) (a b : List Nat) (c : Bool),
    WF w (n + 1) a → WF w (n + 1) b → (subLoop w a b c).1 = (UI.subLoop w a b c).1 := by
  intro n
  induction n with
  | zero =>
    intro a b c ha hb
    match a, b, ha, hb with
    | [d], [e], ha, hb =>
      rw [WF_cons] at ha hb
      simp only [subLoop, UI.subLoop, Digit.borrowingSubSigned_eq hw c ha.1 hb.1,
        Digit.borrowingSub_eq c ha.1 hb.1]
    | [], _, ha, _ => exact absurd ha.1 (by simp)
    | [_], [], _, hb => exact absurd hb.1 (by simp)
    | _ :: _ :: _, _, ha, _ => exact absurd ha.1 (by simp)
    | [_], _ :: _ :: _, _, hb => exact absurd hb.1 (by simp)
  | succ n ih =>
    intro a b c ha hb
    match a, b, ha, hb with
    | d :: a2 :: as, e :: b2 :: bs, ha, hb =>
      rw [WF_cons] at ha hb
      simp only [subLoop, UI.subLoop]
      rw [ih (a2 :: as) (b2 :: bs) _ ha.2 hb.2]
      simp only [UI.subLoop]
    | [], _, ha, _ => exact absurd ha.1 (by simp)
    | [_], _, ha, _ => exact absurd ha.1 (by simp)
    | _ :: _ :: _, [], _, hb => exact absurd hb.1 (by simp)
    | _ :: _ :: _, [_], _, hb => exact absurd hb.1 (by simp)

theorem subLoop_flag {w : Nat} (hw : 2 ≤ w) : ∀ (n : Nat) (a b : List Nat) (c : Bool),
    WF w (n + 1) a → WF w (n + 1) b →
    (subLoop w a b c).2 = decide (¬ repS (M w (n + 1)) (S w a - S w b - c.toNat)) := by
  intro n
  induction n with
  | zero =>
    intro a b c ha hb
    match a, b, ha, hb with
    | [d], [e], ha, hb =>
      rw [WF_cons] at ha hb
      simp only [subLoop, Digit.borrowingSubSigned_eq hw c ha.1 hb.1, S_singleton]
      have : M w (0 + 1) = B w := by simp [M, B]
      rw [this]
    | [], _, ha, _ => exact absurd ha.1 (by simp)
    | [_], [], _, hb => exact absurd hb.1 (by simp)
    | _ :: _ :: _, _, ha, _ => exact absurd ha.1 (by simp)
    | [_], _ :: _ :: _, _, hb => exact absurd hb.1 (by simp)
  | succ n ih =>
    intro a b c ha hb
    match a, b, ha, hb with
    | d :: a2 :: as, e :: b2 :: bs, ha, hb =>
      rw [WF_cons] at ha hb
      simp only [subLoop]
      obtain ⟨h1, h2⟩ := Digit.borrowingSub_spec c ha.1 hb.1
      rw [ih (a2 :: as) (b2 :: bs) (Digit.borrowingSub w d e c).2 ha.2 hb.2,
        S_cons (by omega) (by omega) ha.1 ha.2, S_cons (by omega) (by omega) hb.1 hb.2,
        M_succ w (n+1)]
      congr 1
      have hm := M_even (show 1 ≤ w by omega) (show 1 ≤ n + 1 by omega)
      rw [← repS_mul h2 hm]
      apply propext
      have : ((Digit.borrowingSub w d e c).1 : Int) + (B w : Int) *
            (S w (a2 :: as) - S w (b2 :: bs) - ((Digit.borrowingSub w d e c).2.toNat : Int))
          = (d : Int) + B w * S w (a2 :: as) - (e + B w * S w (b2 :: bs)) - (c.toNat : Int) := by
        have : ((Digit.borrowingSub w d e c).1 : Int) + e + c.toNat
            = d + (B w : Int) * ((Digit.borrowingSub w d e c).2.toNat : Int) := by
          exact_mod_cast h1
        linear_combination this
      rw [this]
    | [], _, ha, _ => exact absurd ha.1 (by simp)
    | [_], _, ha, _ => exact absurd ha.1 (by simp)
    | _ :: _ :: _, [], _, hb => exact absurd hb.1 (by simp)
    | _ :: _ :: _, [_], _, hb => exact absurd hb.1 (by simp)

/-- twin of `II.addLoop_spec` -/
theorem subLoop_spec {w : Nat} (hw : 2 ≤ w) (n : Nat) (a b : List Nat) (c : Bool)
    (ha : WF w (n + 1) a) (hb : WF w (n + 1) b) :
    WF w (n + 1) (subLoop w a b c).1 ∧
    (U w (subLoop w a b c).1 : Int) = ((U w a : Int) - U w b - c.toNat) % (M w (n + 1) : Int) ∧
    (subLoop w a b c).2 = decide (¬ repS (M w (n + 1)) (S w a - S w b - c.toNat)) := by
  refine ⟨?_, ?_, subLoop_flag hw n a b c ha hb⟩
  · rw [subLoop_fst hw n a b c ha hb]; exact (UI.subLoop_spec (n + 1) a b c ha hb).1
  · rw [subLoop_fst hw n a b c ha hb]
    obtain ⟨h1, h2⟩ := UI.subLoop_spec (n + 1) a b c ha hb
    have hlt := U_lt h1
    have e : (U w a : Int) - U w b - c.toNat
        = U w (UI.subLoop w a b c).1 + (-((UI.subLoop w a b c).2.toNat : Int)) * M w (n + 1) := by
      have : ((U w (UI.subLoop w a b c).1 : Int) + U w b + c.toNat
          = U w a + (M w (n + 1) : Int) * ((UI.subLoop w a b c).2.toNat : Int)) := by
        exact_mod_cast h2
      linear_combination (-1 : Int) * this
    rw [e, Int.add_mul_emod_self_right, Int.emod_eq_of_lt (by omega) (by omega)]

/-! ### signed negation loop -/

theorem toInt_not_add_one {w d : Nat} (hw : 2 ≤ w) (hd : d < B w) :
    toInt (B w) (Prim.not w d) + toInt (B w) 1 = - toInt (B w) d := by
  have hb := B_even (show 1 ≤ w by omega)
  have hh := B_half_ge_two hw
  unfold Prim.not
  generalize B w / 2 = h at *; generalize B w = b at *
  subst hb; unfold toInt; split_ifs <;> omega

theorem negLoop_spec {w : Nat} (hw : 2 ≤ w) : ∀ (n : Nat) (a : List Nat), WF w (n + 1) a →
    WF w (n + 1) (negLoop w a).1 ∧
    U w (negLoop w a).1 = (M w (n + 1) - U w a) % M w (n + 1) ∧
    (negLoop w a).2 = decide (¬ repS (M w (n + 1)) (- S w a)) := by
  intro n
  induction n with
  | zero =>
    intro a ha
    match a, ha with
    | [d], ha =>
      rw [WF_cons] at ha
      have hM : M w (0 + 1) = B w := by simp [M, B]
      have hd := ha.1
      simp only [negLoop, Prim.iOverflowingAdd, S_singleton, U_cons, U_nil, hM]
      refine ⟨WF_cons.mpr ⟨Nat.mod_lt _ (B_pos w), WF_nil w⟩, ?_, ?_⟩
      · have : Prim.not w d + 1 = B w - d := by unfold Prim.not; omega
        simp [this]
      · congr 1; rw [toInt_not_add_one hw hd]
    | [], ha => exact absurd ha.1 (by simp)
    | _ :: _ :: _, ha => exact absurd ha.1 (by simp)
  | succ n ih =>
    intro a ha
    match a, ha with
    | d :: e :: ds, ha =>
      rw [WF_cons] at ha
      obtain ⟨h3, h4, h5⟩ := ih (e :: ds) ha.2
      have hd := ha.1
      have hB := B_pos w
      have hs := S_cons (show 1 ≤ w by omega) (show 1 ≤ n + 1 by omega) ha.1 ha.2
      have hm := M_even (show 1 ≤ w by omega) (show 1 ≤ n + 1 by omega)
      have hMp := M_pos w (n + 1)
      have hu := U_lt ha.2
      by_cases h0 : d = 0
      · subst h0
        have e1 : B w - 1 - 0 + 1 = B w := by omega
        simp only [negLoop, Prim.uOverflowingAdd, Prim.not, e1, Nat.mod_self, Nat.le_refl,
          decide_true, Bool.not_true, Bool.false_eq_true, if_false]
        refine ⟨WF_cons.mpr ⟨hB, h3⟩, ?_, ?_⟩
        · have hU : U w (0 :: e :: ds) = B w * U w (e :: ds) := by rw [U_cons]; omega
          rw [U_cons, h4, hU, M_succ w (n + 1), Nat.zero_add, ← Nat.mul_sub]
          have := add_mul_mod_mul (s := 0) (y := M w (n + 1) - U w (e :: ds)) hB hMp
          simpa using this.symm
        · rw [h5, hs, M_succ w (n + 1)]
          congr 1
          apply propext
          rw [← repS_mul hB hm]
          have : -(((0 : Nat) : Int) + (B w : Int) * S w (e :: ds))
              = ((0 : Nat) : Int) + (B w : Int) * (- S w (e :: ds)) := by push_cast; ring
          rw [this]
      · have e1 : B w - 1 - d + 1 = B w - d := by omega
        have e2 : (B w - d) % B w = B w - d := Nat.mod_eq_of_lt (by omega)
        have e3 : ¬ B w ≤ B w - d := by omega
        simp only [negLoop, Prim.uOverflowingAdd, Prim.not, e1, e2, e3, decide_false,
          Bool.not_false, if_true]
        have hbn := WF_bnot ha.2
        have hun := U_bnot ha.2
        unfold bnot at hbn hun
        refine ⟨WF_cons.mpr ⟨by omega, hbn⟩, ?_, ?_⟩
        · have hU : U w (d :: e :: ds) = d + B w * U w (e :: ds) := by rw [U_cons]
          rw [U_cons, hun, hU, M_succ w (n + 1)]
          generalize U w (e :: ds) = u at *; generalize M w (n + 1) = m at *
          generalize B w = b at *
          obtain ⟨t, rfl⟩ : ∃ t, m = u + 1 + t := ⟨m - u - 1, by omega⟩
          have x1 : u + 1 + t - 1 - u = t := by omega
          have x2 : b * (u + 1 + t) - (d + b * u) = b - d + b * t := by
            rw [Nat.mul_add, Nat.mul_add]; omega
          rw [x1, x2]
          refine (Nat.mod_eq_of_lt ?_).symm
          rw [Nat.mul_add, Nat.mul_add]; omega
        · symm; rw [decide_eq_false_iff_not, not_not, hs, M_succ w (n + 1)]
          have hr := S_repS (show 1 ≤ w by omega) (show 1 ≤ n + 1 by omega) ha.2
          have : -((d : Int) + (B w : Int) * S w (e :: ds))
              = ((B w - d : Nat) : Int) + (B w : Int) * (- S w (e :: ds) - 1) := by
            push_cast [show d ≤ B w by omega]; ring
          rw [this, repS_mul (show B w - d < B w by omega) hm]
          unfold repS at *
          omega
    | [], ha => exact absurd ha.1 (by simp)
    | [_], ha => exact absurd ha.1 (by simp)

end II

/-! ### Bool / decide glue -/
theorem bool_eq_decide {f : Bool} {P : Prop} [Decidable P] (h : f = true ↔ P) : f = decide P := by
  cases f <;> simp_all

theorem xor_decide {P Q R : Prop} [Decidable P] [Decidable Q] [Decidable R]
    (h : ((P ∧ ¬Q) ∨ (¬P ∧ Q)) ↔ R) : (decide P ^^ decide Q) = decide R := by
  by_cases hP : P <;> by_cases hQ : Q <;> by_cases hR : R <;> simp_all

theorem not_decide {P R : Prop} [Decidable P] [Decidable R] (h : ¬P ↔ R) :
    (!decide P) = decide R := by
  by_cases hP : P <;> by_cases hR : R <;> simp_all

theorem isNegative_eq_decide {w n : Nat} {x : List Nat} (hw : 1 ≤ w) (hn : 1 ≤ n) (hx : WF w n x) :
    isNegative w x = decide (S w x < 0) := bool_eq_decide (isNegative_iff' hw hn hx)

/-! ### case descriptions of the wraps (make each operation an `omega` problem) -/
theorem wrapU_cases_add {m : Nat} {t : Int} (h0 : 0 ≤ t) (h1 : t < 2 * m) :
    (t < m ∧ (wrapU m t : Int) = t) ∨ (m ≤ t ∧ (wrapU m t : Int) = t - m) := by
  by_cases h : t < m
  · exact Or.inl ⟨h, wrapU_of_rep ⟨h0, h⟩⟩
  · refine Or.inr ⟨by omega, ?_⟩
    have := wrapU_add_mul (m := m) t (-1)
    rw [← this, show t + -1 * (m : Int) = t - m by ring]
    exact wrapU_of_rep ⟨by omega, by omega⟩

theorem wrapU_cases_sub {m : Nat} {t : Int} (h0 : -(m : Int) ≤ t) (h1 : t < m) :
    (0 ≤ t ∧ (wrapU m t : Int) = t) ∨ (t < 0 ∧ (wrapU m t : Int) = t + m) := by
  by_cases h : 0 ≤ t
  · exact Or.inl ⟨h, wrapU_of_rep ⟨h, h1⟩⟩
  · refine Or.inr ⟨by omega, ?_⟩
    have := wrapU_add_mul (m := m) t 1
    rw [← this, show t + 1 * (m : Int) = t + m by ring]
    exact wrapU_of_rep ⟨by omega, by omega⟩

theorem wrapS_cases {m h : Nat} {t : Int} (hm : m = 2 * h) (hp : 0 < m)
    (h0 : -(3 * h : Int) ≤ t) (h1 : t < 3 * h) :
    (repS m t ∧ wrapS m t = t) ∨ ((h : Int) ≤ t ∧ wrapS m t = t - m) ∨
      (t < -(h : Int) ∧ wrapS m t = t + m) := by
  by_cases hr : repS m t
  · exact Or.inl ⟨hr, wrapS_of_rep hp hr⟩
  · unfold repS at hr
    by_cases hge : (h : Int) ≤ t
    · exact Or.inr (Or.inl ⟨hge, wrapS_of_rep_sub hp (by unfold repS; omega)⟩)
    · exact Or.inr (Or.inr ⟨by omega, wrapS_of_rep_add hp (by unfold repS; omega)⟩)

theorem exists_of_mod {u x m : Nat} (h : u = x % m) : ∃ k : Int, (x : Int) = u + k * m := by
  refine ⟨(x / m : Nat), ?_⟩
  subst h
  have := Nat.mod_add_div x m
  have : ((x % m : Nat) : Int) + (m : Int) * ((x / m : Nat) : Int) = x := by exact_mod_cast this
  linarith [Int.mul_comm (m : Int) ((x / m : Nat) : Int)]

theorem exists_of_emod {u : Nat} {z : Int} {m : Nat} (h : (u : Int) = z % (m : Int)) :
    ∃ k : Int, z = u + k * m := by
  refine ⟨z / m, ?_⟩
  rw [h]
  have := Int.emod_add_mul_ediv z m
  linarith [Int.mul_comm (m : Int) (z / m)]

/-- internal shape of an `overflowing_*` result with unsigned result type and exact result `z` -/
def OvfU (w n : Nat) (p : List Nat × Bool) (z : Int) : Prop :=
  WF w n p.1 ∧ (U w p.1 : Int) = wrapU (M w n) z ∧ p.2 = decide (¬ repU (M w n) z)
/-- same, signed result type -/
def OvfS (w n : Nat) (p : List Nat × Bool) (z : Int) : Prop :=
  WF w n p.1 ∧ S w p.1 = wrapS (M w n) z ∧ p.2 = decide (¬ repS (M w n) z)

theorem OvfU.flag_iff {w n : Nat} {p : List Nat × Bool} {z : Int} (h : OvfU w n p z) :
    p.2 = true ↔ ¬ repU (M w n) z := by rw [h.2.2, decide_eq_true_iff]
theorem OvfS.flag_iff {w n : Nat} {p : List Nat × Bool} {z : Int} (h : OvfS w n p z) :
    p.2 = true ↔ ¬ repS (M w n) z := by rw [h.2.2, decide_eq_true_iff]

/-! ### unsigned operations -/
namespace UI

theorem overflowingAdd_spec {w n : Nat} {a b : List Nat} (ha : WF w n a) (hb : WF w n b) :
    OvfU w n (overflowingAdd w a b) (U w a + U w b) := by
  obtain ⟨h1, h2⟩ := addLoop_spec n a b false ha hb
  unfold overflowingAdd
  have hr := U_lt h1; have hua := U_lt ha; have hub := U_lt hb
  refine ⟨h1, ?_, ?_⟩
  · rw [← U_eq_wrapU h1 (k := ((addLoop w a b false).2.toNat : Int))]
    have : ((U w (addLoop w a b false).1 : Int) + (M w n : Int) * ((addLoop w a b false).2.toNat : Int)
        = U w a + U w b + (false.toNat : Int)) := by exact_mod_cast h2
    simp only [Bool.toNat_false, Nat.cast_zero, add_zero] at this
    linear_combination (-1 : Int) * this
  · apply bool_eq_decide
    unfold repU
    cases hf : (addLoop w a b false).2 <;> rw [hf] at h2 <;>
      simp only [Bool.toNat_false, Bool.toNat_true, Nat.mul_zero, Nat.mul_one, Nat.add_zero] at h2 <;>
      simp only [Bool.false_eq_true, false_iff, true_iff, not_not] <;> omega

theorem overflowingSub_spec {w n : Nat} {a b : List Nat} (ha : WF w n a) (hb : WF w n b) :
    OvfU w n (overflowingSub w a b) ((U w a : Int) - U w b) := by
  obtain ⟨h1, h2⟩ := subLoop_spec n a b false ha hb
  unfold overflowingSub
  have hr := U_lt h1; have hua := U_lt ha; have hub := U_lt hb
  refine ⟨h1, ?_, ?_⟩
  · rw [← U_eq_wrapU h1 (k := -((subLoop w a b false).2.toNat : Int))]
    have : ((U w (subLoop w a b false).1 : Int) + U w b + (false.toNat : Int)
        = U w a + (M w n : Int) * ((subLoop w a b false).2.toNat : Int)) := by exact_mod_cast h2
    simp only [Bool.toNat_false, Nat.cast_zero, add_zero] at this
    linear_combination (-1 : Int) * this
  · apply bool_eq_decide
    unfold repU
    cases hf : (subLoop w a b false).2 <;> rw [hf] at h2 <;>
      simp only [Bool.toNat_false, Bool.toNat_true, Nat.mul_zero, Nat.mul_one, Nat.add_zero] at h2 <;>
      simp only [Bool.false_eq_true, false_iff, true_iff, not_not] <;> omega

theorem overflowingNeg_spec {w n : Nat} {a : List Nat} (hw : 1 ≤ w) (hn : 1 ≤ n) (ha : WF w n a) :
    OvfU w n (overflowingNeg w a) (-(U w a : Int)) := by
  obtain ⟨h1, h2, h3⟩ := overflowingAdd_spec (WF_bnot ha) (WF_one hw hn)
  unfold overflowingNeg
  rw [ha.1]
  have hua := U_lt ha
  have hr := U_lt h1
  rw [U_bnot ha, U_one hn] at h2 h3
  have e : ((M w n - 1 - U w a : Nat) : Int) + (1 : Nat) = (M w n : Int) - U w a := by
    push_cast [show U w a ≤ M w n - 1 by omega, show 1 ≤ M w n by omega]; ring
  rw [e] at h2 h3
  refine ⟨h1, ?_, ?_⟩
  · rw [h2, ← wrapU_add_mul (-(U w a : Int)) 1]; congr 2; ring
  · simp only; rw [h3]
    apply not_decide
    unfold repU; omega

theorem overflowingAddSigned_spec {w n : Nat} {a b : List Nat} (hw : 1 ≤ w) (hn : 1 ≤ n)
    (ha : WF w n a) (hb : WF w n b) :
    OvfU w n (overflowingAddSigned w a b) (U w a + S w b) := by
  obtain ⟨h1, h2, h3⟩ := overflowingAdd_spec ha hb
  unfold overflowingAddSigned
  have hua := U_lt ha; have hub := U_lt hb
  obtain ⟨k, hk⟩ := S_spec hb
  refine ⟨h1, ?_, ?_⟩
  · rw [h2, hk, ← wrapU_add_mul ((U w a : Int) + U w b) k]; congr 2; ring
  · simp only; rw [h3, isNegative_eq_decide hw hn hb]
    apply bne_decide
    have hS : (S w b < 0 ∧ S w b = (U w b : Int) - M w n) ∨ (0 ≤ S w b ∧ S w b = U w b) := by
      by_cases h : S w b < 0
      · exact Or.inl ⟨h, S_of_neg hb h⟩
      · exact Or.inr ⟨by omega, S_of_nonneg hb (by omega)⟩
    unfold repU; omega

theorem carryingAdd_spec {w n : Nat} {a b : List Nat} (hw : 1 ≤ w) (hn : 1 ≤ n)
    (ha : WF w n a) (hb : WF w n b) (c : Bool) :
    OvfU w n (carryingAdd w a b c) ((U w a : Int) + U w b + c.toNat) := by
  obtain ⟨h1, h2, h3⟩ := overflowingAdd_spec ha hb
  unfold carryingAdd
  cases c
  · simpa using overflowingAdd_spec ha hb
  · simp only [if_true, Bool.toNat_true, Nat.cast_one]
    rw [ha.1]
    obtain ⟨g1, g2, g3⟩ := overflowingAdd_spec h1 (WF_one hw hn)
    rw [U_one hn] at g2 g3
    have hua := U_lt ha; have hub := U_lt hb
    have hc := wrapU_cases_add (m := M w n) (t := (U w a : Int) + U w b) (by omega) (by omega)
    refine ⟨g1, ?_, ?_⟩
    · rw [g2, h2, wrapU_wrapU_add (M_pos w n)]; rfl
    · simp only; rw [h3, g3, h2]
      apply xor_decide
      unfold repU; push_cast; omega

theorem borrowingSub_spec {w n : Nat} {a b : List Nat} (hw : 1 ≤ w) (hn : 1 ≤ n)
    (ha : WF w n a) (hb : WF w n b) (c : Bool) :
    OvfU w n (borrowingSub w a b c) ((U w a : Int) - U w b - c.toNat) := by
  obtain ⟨h1, h2, h3⟩ := overflowingSub_spec ha hb
  unfold borrowingSub
  cases c
  · simpa using overflowingSub_spec ha hb
  · simp only [if_true, Bool.toNat_true, Nat.cast_one]
    rw [ha.1]
    obtain ⟨g1, g2, g3⟩ := overflowingSub_spec h1 (WF_one hw hn)
    rw [U_one hn] at g2 g3
    have hua := U_lt ha; have hub := U_lt hb
    have hc := wrapU_cases_sub (m := M w n) (t := (U w a : Int) - U w b) (by omega) (by omega)
    refine ⟨g1, ?_, ?_⟩
    · rw [g2, h2, sub_eq_add_neg, wrapU_wrapU_add (M_pos w n)]; rfl
    · simp only; rw [h3, g3, h2]
      apply xor_decide
      unfold repU; push_cast; omega

end UI
/-! ### signed operations -/

theorem S_cases {w n : Nat} {x : List Nat} (hx : WF w n x) :
    (S w x < 0 ∧ S w x = (U w x : Int) - M w n) ∨ (0 ≤ S w x ∧ S w x = U w x) := by
  by_cases h : S w x < 0
  · exact Or.inl ⟨h, S_of_neg hx h⟩
  · exact Or.inr ⟨by omega, S_of_nonneg hx (by omega)⟩

namespace II

theorem overflowingAdd_spec {w n : Nat} {a b : List Nat} (hw : 2 ≤ w) (hn : 1 ≤ n)
    (ha : WF w n a) (hb : WF w n b) : OvfS w n (overflowingAdd w a b) (S w a + S w b) := by
  obtain ⟨k, rfl⟩ : ∃ k, n = k + 1 := ⟨n - 1, by omega⟩
  obtain ⟨h1, h2, h3⟩ := addLoop_spec hw k a b false ha hb
  unfold overflowingAdd
  refine ⟨h1, ?_, ?_⟩
  · obtain ⟨q, hq⟩ := exists_of_mod h2
    obtain ⟨ka, hka⟩ := S_spec ha; obtain ⟨kb, hkb⟩ := S_spec hb
    apply S_eq_wrapS h1 (k := q + ka + kb)
    simp only [Bool.toNat_false, Nat.add_zero] at hq
    push_cast at hq
    rw [hka, hkb]; linear_combination hq
  · rw [h3]; simp

theorem overflowingSub_spec {w n : Nat} {a b : List Nat} (hw : 2 ≤ w) (hn : 1 ≤ n)
    (ha : WF w n a) (hb : WF w n b) : OvfS w n (overflowingSub w a b) (S w a - S w b) := by
  obtain ⟨k, rfl⟩ : ∃ k, n = k + 1 := ⟨n - 1, by omega⟩
  obtain ⟨h1, h2, h3⟩ := subLoop_spec hw k a b false ha hb
  unfold overflowingSub
  refine ⟨h1, ?_, ?_⟩
  · obtain ⟨q, hq⟩ := exists_of_emod h2
    obtain ⟨ka, hka⟩ := S_spec ha; obtain ⟨kb, hkb⟩ := S_spec hb
    apply S_eq_wrapS h1 (k := q + ka - kb)
    simp only [Bool.toNat_false, Nat.cast_zero, sub_zero] at hq
    rw [hka, hkb]; linear_combination hq
  · rw [h3]; simp

theorem overflowingNeg_spec {w n : Nat} {a : List Nat} (hw : 2 ≤ w) (hn : 1 ≤ n)
    (ha : WF w n a) : OvfS w n (overflowingNeg w a) (- S w a) := by
  obtain ⟨k, rfl⟩ : ∃ k, n = k + 1 := ⟨n - 1, by omega⟩
  obtain ⟨h1, h2, h3⟩ := negLoop_spec hw k a ha
  unfold overflowingNeg
  refine ⟨h1, ?_, h3⟩
  obtain ⟨q, hq⟩ := exists_of_mod h2
  obtain ⟨ka, hka⟩ := S_spec ha
  have hua := U_lt ha
  apply S_eq_wrapS h1 (k := q - ka - 1)
  push_cast [show U w a ≤ M w (k + 1) by omega] at hq
  rw [hka]; linear_combination hq

theorem overflowingAbs_spec {w n : Nat} {a : List Nat} (hw : 2 ≤ w) (hn : 1 ≤ n)
    (ha : WF w n a) : OvfS w n (overflowingAbs w a) ((S w a).natAbs : Int) := by
  unfold overflowingAbs
  by_cases hN : isNegative w a = true
  · rw [if_pos hN]
    have := (isNegative_iff' (by omega) hn ha).1 hN
    rw [show ((S w a).natAbs : Int) = - S w a by omega]
    exact overflowingNeg_spec hw hn ha
  · rw [if_neg hN]
    have := (isNegative_false_iff (by omega) hn ha).1 (by simpa using hN)
    rw [show ((S w a).natAbs : Int) = S w a by omega]
    have hr := S_repS (show 1 ≤ w by omega) hn ha
    exact ⟨ha, (wrapS_of_rep (M_pos w n) hr).symm, by simp [hr]⟩

theorem overflowingAddUnsigned_spec {w n : Nat} {a b : List Nat} (hw : 2 ≤ w) (hn : 1 ≤ n)
    (ha : WF w n a) (hb : WF w n b) :
    OvfS w n (overflowingAddUnsigned w a b) (S w a + U w b) := by
  obtain ⟨h1, h2, h3⟩ := overflowingAdd_spec hw hn ha hb
  unfold overflowingAddUnsigned
  obtain ⟨kb, hkb⟩ := S_spec hb
  refine ⟨h1, ?_, ?_⟩
  · rw [h2, hkb, ← wrapS_add_mul (S w a + (U w b : Int)) kb]; congr 1; ring
  · simp only; rw [h3, isNegative_eq_decide (by omega) hn hb]
    apply bne_decide
    have hS := S_cases hb
    have hra := S_repS (show 1 ≤ w by omega) hn ha
    have hub := U_lt hb
    have hm := M_even (show 1 ≤ w by omega) hn
    unfold repS at *; omega

theorem overflowingSubUnsigned_spec {w n : Nat} {a b : List Nat} (hw : 2 ≤ w) (hn : 1 ≤ n)
    (ha : WF w n a) (hb : WF w n b) :
    OvfS w n (overflowingSubUnsigned w a b) (S w a - U w b) := by
  obtain ⟨h1, h2, h3⟩ := overflowingSub_spec hw hn ha hb
  unfold overflowingSubUnsigned
  obtain ⟨kb, hkb⟩ := S_spec hb
  refine ⟨h1, ?_, ?_⟩
  · rw [h2, hkb, ← wrapS_add_mul (S w a - (U w b : Int)) (-kb)]; congr 1; ring
  · simp only; rw [h3, isNegative_eq_decide (by omega) hn hb]
    apply bne_decide
    have hS := S_cases hb
    have hra := S_repS (show 1 ≤ w by omega) hn ha
    have hub := U_lt hb
    have hm := M_even (show 1 ≤ w by omega) hn
    unfold repS at *; omega

theorem carryingAdd_spec {w n : Nat} {a b : List Nat} (hw : 2 ≤ w) (hn : 1 ≤ n)
    (ha : WF w n a) (hb : WF w n b) (c : Bool) :
    OvfS w n (carryingAdd w a b c) (S w a + S w b + c.toNat) := by
  obtain ⟨h1, h2, h3⟩ := overflowingAdd_spec hw hn ha hb
  unfold carryingAdd
  cases c
  · simpa using overflowingAdd_spec hw hn ha hb
  · simp only [if_true, Bool.toNat_true, Nat.cast_one]
    rw [ha.1]
    obtain ⟨g1, g2, g3⟩ := overflowingAdd_spec hw hn h1 (WF_one (by omega) hn)
    rw [S_one hw hn] at g2 g3
    have hra := S_repS (show 1 ≤ w by omega) hn ha
    have hrb := S_repS (show 1 ≤ w by omega) hn hb
    have hm := M_even (show 1 ≤ w by omega) hn
    have hc := wrapS_cases (t := S w a + S w b) hm (M_pos w n)
      (by unfold repS at *; omega) (by unfold repS at *; omega)
    refine ⟨g1, ?_, ?_⟩
    · rw [g2, h2, wrapS_wrapS_add (M_pos w n)]
    · simp only; rw [h3, g3, h2]
      apply xor_decide
      unfold repS at *; omega

theorem borrowingSub_spec {w n : Nat} {a b : List Nat} (hw : 2 ≤ w) (hn : 1 ≤ n)
    (ha : WF w n a) (hb : WF w n b) (c : Bool) :
    OvfS w n (borrowingSub w a b c) (S w a - S w b - c.toNat) := by
  obtain ⟨h1, h2, h3⟩ := overflowingSub_spec hw hn ha hb
  unfold borrowingSub
  cases c
  · simpa using overflowingSub_spec hw hn ha hb
  · simp only [if_true, Bool.toNat_true, Nat.cast_one]
    rw [ha.1]
    obtain ⟨g1, g2, g3⟩ := overflowingSub_spec hw hn h1 (WF_one (by omega) hn)
    rw [S_one hw hn] at g2 g3
    have hra := S_repS (show 1 ≤ w by omega) hn ha
    have hrb := S_repS (show 1 ≤ w by omega) hn hb
    have hm := M_even (show 1 ≤ w by omega) hn
    have hc := wrapS_cases (t := S w a - S w b) hm (M_pos w n)
      (by unfold repS at *; omega) (by unfold repS at *; omega)
    refine ⟨g1, ?_, ?_⟩
    · rw [g2, h2, sub_eq_add_neg, wrapS_wrapS_add (M_pos w n)]; rfl
    · simp only; rw [h3, g3, h2]
      apply xor_decide
      unfold repS at *; omega

theorem unsignedAbs_spec {w n : Nat} {a : List Nat} (hw : 2 ≤ w) (hn : 1 ≤ n) (ha : WF w n a) :
    WF w n (unsignedAbs w a) ∧ U w (unsignedAbs w a) = (S w a).natAbs := by
  unfold unsignedAbs
  by_cases hN : isNegative w a = true
  · rw [if_pos hN]
    have hneg := (isNegative_iff' (by omega) hn ha).1 hN
    obtain ⟨k, rfl⟩ : ∃ k, n = k + 1 := ⟨n - 1, by omega⟩
    obtain ⟨h1, h2, _⟩ := negLoop_spec hw k a ha
    unfold wrappingNeg overflowingNeg
    refine ⟨h1, ?_⟩
    have hs := S_of_neg ha hneg
    have hua := U_lt ha
    have hra := S_repS (show 1 ≤ w by omega) (show 1 ≤ k + 1 by omega) ha
    unfold repS at hra
    rw [h2, Nat.mod_eq_of_lt (by omega)]
    omega
  · rw [if_neg hN]
    have := (isNegative_false_iff (by omega) hn ha).1 (by simpa using hN)
    have hs := S_of_nonneg ha this
    exact ⟨ha, by omega⟩

end II

/-! ### projections: checked / strict / wrapping / saturating -/

theorem tupleToOption_none_iff {α : Type} (p : α × Bool) : tupleToOption p = none ↔ p.2 = true := by
  unfold tupleToOption; cases p.2 <;> simp

theorem tupleToOption_some_iff {α : Type} (p : α × Bool) (r : α) :
    tupleToOption p = some r ↔ p.2 = false ∧ p.1 = r := by
  unfold tupleToOption; cases p.2 <;> simp

theorem expect_panic_iff {α : Type} (o : Option α) : Outcome.expect o = Outcome.panic ↔ o = none := by
  cases o <;> simp [Outcome.expect]

theorem expect_ok_iff {α : Type} (o : Option α) (r : α) :
    Outcome.expect o = Outcome.ok r ↔ o = some r := by
  cases o <;> simp [Outcome.expect]

/-- the published shape of an unsigned-result overflowing theorem -/
theorem OvfU.expand {w n : Nat} {p : List Nat × Bool} {z : Int} (h : OvfU w n p z) :
    WF w n p.1 ∧ (U w p.1 : Int) = wrapU (M w n) z ∧ (p.2 = true ↔ ¬ repU (M w n) z) :=
  ⟨h.1, h.2.1, h.flag_iff⟩
theorem OvfS.expand {w n : Nat} {p : List Nat × Bool} {z : Int} (h : OvfS w n p z) :
    WF w n p.1 ∧ S w p.1 = wrapS (M w n) z ∧ (p.2 = true ↔ ¬ repS (M w n) z) :=
  ⟨h.1, h.2.1, h.flag_iff⟩

theorem OvfU.checked {w n : Nat} {p : List Nat × Bool} {z : Int} (h : OvfU w n p z) :
    (tupleToOption p = none ↔ ¬ repU (M w n) z) ∧
    (∀ r, tupleToOption p = some r → WF w n r ∧ (U w r : Int) = z) := by
  refine ⟨by rw [tupleToOption_none_iff, h.flag_iff], ?_⟩
  intro r hr
  rw [tupleToOption_some_iff] at hr
  obtain ⟨hf, rfl⟩ := hr
  have : repU (M w n) z := by
    have := h.flag_iff; rw [hf] at this; simpa using this
  exact ⟨h.1, by rw [h.2.1, wrapU_of_rep this]⟩

theorem OvfS.checked {w n : Nat} {p : List Nat × Bool} {z : Int} (h : OvfS w n p z) :
    (tupleToOption p = none ↔ ¬ repS (M w n) z) ∧
    (∀ r, tupleToOption p = some r → WF w n r ∧ S w r = z) := by
  refine ⟨by rw [tupleToOption_none_iff, h.flag_iff], ?_⟩
  intro r hr
  rw [tupleToOption_some_iff] at hr
  obtain ⟨hf, rfl⟩ := hr
  have : repS (M w n) z := by
    have := h.flag_iff; rw [hf] at this; simpa using this
  exact ⟨h.1, by rw [h.2.1, wrapS_of_rep (M_pos w n) this]⟩

theorem OvfU.strict {w n : Nat} {p : List Nat × Bool} {z : Int} (h : OvfU w n p z) :
    (Outcome.expect (tupleToOption p) = Outcome.panic ↔ ¬ repU (M w n) z) ∧
    (∀ r, Outcome.expect (tupleToOption p) = Outcome.ok r → WF w n r ∧ (U w r : Int) = z) :=
  ⟨by rw [expect_panic_iff]; exact h.checked.1,
   fun r hr => h.checked.2 r ((expect_ok_iff _ _).1 hr)⟩

theorem OvfS.strict {w n : Nat} {p : List Nat × Bool} {z : Int} (h : OvfS w n p z) :
    (Outcome.expect (tupleToOption p) = Outcome.panic ↔ ¬ repS (M w n) z) ∧
    (∀ r, Outcome.expect (tupleToOption p) = Outcome.ok r → WF w n r ∧ S w r = z) :=
  ⟨by rw [expect_panic_iff]; exact h.checked.1,
   fun r hr => h.checked.2 r ((expect_ok_iff _ _).1 hr)⟩

theorem OvfU.wrapping {w n : Nat} {p : List Nat × Bool} {z : Int} (h : OvfU w n p z) :
    WF w n p.1 ∧ (U w p.1 : Int) = wrapU (M w n) z := ⟨h.1, h.2.1⟩
theorem OvfS.wrapping {w n : Nat} {p : List Nat × Bool} {z : Int} (h : OvfS w n p z) :
    WF w n p.1 ∧ S w p.1 = wrapS (M w n) z := ⟨h.1, h.2.1⟩

/-! clamp facts -/
theorem clampU_of_rep {m : Nat} {z : Int} (h : repU m z) : Spec.clamp false m z = z := by
  unfold repU at h
  simp only [Spec.clamp, Spec.minV, Spec.maxV, Bool.false_eq_true, if_false]
  split_ifs <;> omega
theorem clampU_hi {m : Nat} {z : Int} (h : (m : Int) ≤ z) : Spec.clamp false m z = (m : Int) - 1 := by
  simp only [Spec.clamp, Spec.minV, Spec.maxV, Bool.false_eq_true, if_false]
  split_ifs <;> omega
theorem clampU_lo {m : Nat} {z : Int} (h : z < 0) : Spec.clamp false m z = 0 := by
  simp only [Spec.clamp, Spec.minV, Spec.maxV, Bool.false_eq_true, if_false]
  split_ifs; omega
theorem clampS_of_rep {m : Nat} {z : Int} (he : m = 2 * (m / 2)) (h : repS m z) :
    Spec.clamp true m z = z := by
  unfold repS at h
  simp only [Spec.clamp, Spec.minV, Spec.maxV, if_true]
  split_ifs <;> omega
theorem clampS_hi {m : Nat} {z : Int} (he : m = 2 * (m / 2)) (h : (m : Int) ≤ 2 * z) :
    Spec.clamp true m z = ((m / 2 : Nat) : Int) - 1 := by
  simp only [Spec.clamp, Spec.minV, Spec.maxV, if_true]
  split_ifs <;> omega
theorem clampS_lo {m : Nat} {z : Int} (he : m = 2 * (m / 2)) (h : 2 * z < -(m : Int)) :
    Spec.clamp true m z = -((m / 2 : Nat) : Int) := by
  simp only [Spec.clamp, Spec.minV, Spec.maxV, if_true]
  split_ifs <;> omega

namespace UI
theorem saturateUp_spec {w n : Nat} {p : List Nat × Bool} {z : Int} (h : OvfU w n p z)
    (hz : 0 ≤ z) :
    WF w n (saturateUp w n p) ∧ (U w (saturateUp w n p) : Int) = Spec.clamp false (M w n) z := by
  unfold saturateUp
  have hM := M_pos w n
  cases hf : p.2
  · have hr : repU (M w n) z := by have := h.flag_iff; rw [hf] at this; simpa using this
    simp only [Bool.false_eq_true, if_false]
    exact ⟨h.1, by rw [h.2.1, wrapU_of_rep hr, clampU_of_rep hr]⟩
  · have hr : ¬ repU (M w n) z := h.flag_iff.1 hf
    simp only [if_true]
    refine ⟨WF_allOnes w n, ?_⟩
    rw [U_allOnes, clampU_hi (by unfold repU at hr; omega)]; omega

theorem saturateDown_spec {w n : Nat} {p : List Nat × Bool} {z : Int} (h : OvfU w n p z)
    (hz : z < M w n) :
    WF w n (saturateDown n p) ∧ (U w (saturateDown n p) : Int) = Spec.clamp false (M w n) z := by
  unfold saturateDown
  cases hf : p.2
  · have hr : repU (M w n) z := by have := h.flag_iff; rw [hf] at this; simpa using this
    simp only [Bool.false_eq_true, if_false]
    exact ⟨h.1, by rw [h.2.1, wrapU_of_rep hr, clampU_of_rep hr]⟩
  · have hr : ¬ repU (M w n) z := h.flag_iff.1 hf
    simp only [if_true]
    refine ⟨WF_zero w n, ?_⟩
    rw [U_zero, clampU_lo (by unfold repU at hr; omega)]; rfl

theorem saturatingAdd_spec {w n : Nat} {a b : List Nat} (ha : WF w n a) (hb : WF w n b) :
    WF w n (saturatingAdd w a b) ∧
    (U w (saturatingAdd w a b) : Int) = Spec.clamp false (M w n) (U w a + U w b) := by
  unfold saturatingAdd; rw [ha.1]
  exact saturateUp_spec (overflowingAdd_spec ha hb) (by omega)

theorem saturatingSub_spec {w n : Nat} {a b : List Nat} (ha : WF w n a) (hb : WF w n b) :
    WF w n (saturatingSub w a b) ∧
    (U w (saturatingSub w a b) : Int) = Spec.clamp false (M w n) ((U w a : Int) - U w b) := by
  unfold saturatingSub; rw [ha.1]
  have := U_lt ha
  exact saturateDown_spec (overflowingSub_spec ha hb) (by omega)

theorem saturatingAddSigned_spec {w n : Nat} {a b : List Nat} (hw : 1 ≤ w) (hn : 1 ≤ n)
    (ha : WF w n a) (hb : WF w n b) :
    WF w n (saturatingAddSigned w a b) ∧
    (U w (saturatingAddSigned w a b) : Int) = Spec.clamp false (M w n) (U w a + S w b) := by
  unfold saturatingAddSigned; rw [ha.1]
  have := U_lt ha
  by_cases hN : isNegative w b = true
  · rw [if_pos hN]
    have := (isNegative_iff' hw hn hb).1 hN
    exact saturateDown_spec (overflowingAddSigned_spec hw hn ha hb) (by omega)
  · rw [if_neg hN]
    have := (isNegative_false_iff hw hn hb).1 (by simpa using hN)
    exact saturateUp_spec (overflowingAddSigned_spec hw hn ha hb) (by omega)
end UI

namespace II

/-- generic signed saturation: `d` is the bound on the side where a non-representable `z` lies -/
theorem saturate_spec {w n : Nat} {p : List Nat × Bool} {z : Int} (hw : 1 ≤ w) (hn : 1 ≤ n)
    (h : OvfS w n p z) {d : List Nat} (hd : WF w n d)
    (hside : ¬ repS (M w n) z → S w d = Spec.clamp true (M w n) z) (x : List Nat)
    (hx : x = match tupleToOption p with | some r => r | none => d) :
    WF w n x ∧ S w x = Spec.clamp true (M w n) z := by
  subst hx
  split
  · rename_i r heq
    obtain ⟨h1, h2⟩ := h.checked.2 r heq
    have hr : repS (M w n) z := by rw [← h2]; exact S_repS hw hn h1
    exact ⟨h1, by rw [h2, clampS_of_rep (M_even hw hn) hr]⟩
  · rename_i heq
    exact ⟨hd, hside (h.checked.1.1 heq)⟩


theorem saturatingAdd_spec {w n : Nat} {a b : List Nat} (hw : 2 ≤ w) (hn : 1 ≤ n)
    (ha : WF w n a) (hb : WF w n b) :
    WF w n (saturatingAdd w a b) ∧
    S w (saturatingAdd w a b) = Spec.clamp true (M w n) (S w a + S w b) := by
  have hw1 : 1 ≤ w := by omega
  have hra := S_repS hw1 hn ha; have hrb := S_repS hw1 hn hb
  have hm := M_even hw1 hn
  by_cases hN : isNegative w a = true
  · have hs := (isNegative_iff' hw1 hn ha).1 hN
    refine saturate_spec hw1 hn (overflowingAdd_spec hw hn ha hb) (WF_iMin hw1 hn) ?_ _
      (by unfold saturatingAdd checkedAdd; rw [if_pos hN, ha.1]; rfl)
    intro hr
    rw [S_iMin hw1 hn, clampS_lo hm (by unfold repS at *; omega)]
  · have hs := (isNegative_false_iff hw1 hn ha).1 (by simpa using hN)
    refine saturate_spec hw1 hn (overflowingAdd_spec hw hn ha hb) (WF_iMax hw1 hn) ?_ _
      (by unfold saturatingAdd checkedAdd; rw [if_neg hN, ha.1]; rfl)
    intro hr
    rw [S_iMax hw1 hn, clampS_hi hm (by unfold repS at *; omega)]

theorem saturatingSub_spec {w n : Nat} {a b : List Nat} (hw : 2 ≤ w) (hn : 1 ≤ n)
    (ha : WF w n a) (hb : WF w n b) :
    WF w n (saturatingSub w a b) ∧
    S w (saturatingSub w a b) = Spec.clamp true (M w n) (S w a - S w b) := by
  have hw1 : 1 ≤ w := by omega
  have hra := S_repS hw1 hn ha; have hrb := S_repS hw1 hn hb
  have hm := M_even hw1 hn
  by_cases hN : isNegative w a = true
  · have hs := (isNegative_iff' hw1 hn ha).1 hN
    refine saturate_spec hw1 hn (overflowingSub_spec hw hn ha hb) (WF_iMin hw1 hn) ?_ _
      (by unfold saturatingSub checkedSub; rw [if_pos hN, ha.1]; rfl)
    intro hr
    rw [S_iMin hw1 hn, clampS_lo hm (by unfold repS at *; omega)]
  · have hs := (isNegative_false_iff hw1 hn ha).1 (by simpa using hN)
    refine saturate_spec hw1 hn (overflowingSub_spec hw hn ha hb) (WF_iMax hw1 hn) ?_ _
      (by unfold saturatingSub checkedSub; rw [if_neg hN, ha.1]; rfl)
    intro hr
    rw [S_iMax hw1 hn, clampS_hi hm (by unfold repS at *; omega)]

theorem saturatingAddUnsigned_spec {w n : Nat} {a b : List Nat} (hw : 2 ≤ w) (hn : 1 ≤ n)
    (ha : WF w n a) (hb : WF w n b) :
    WF w n (saturatingAddUnsigned w a b) ∧
    S w (saturatingAddUnsigned w a b) = Spec.clamp true (M w n) (S w a + U w b) := by
  have hw1 : 1 ≤ w := by omega
  have hra := S_repS hw1 hn ha
  have hm := M_even hw1 hn
  refine saturate_spec hw1 hn (overflowingAddUnsigned_spec hw hn ha hb) (WF_iMax hw1 hn) ?_ _
    (by unfold saturatingAddUnsigned checkedAddUnsigned; rw [ha.1]; rfl)
  intro hr
  rw [S_iMax hw1 hn, clampS_hi hm (by unfold repS at *; omega)]

theorem saturatingSubUnsigned_spec {w n : Nat} {a b : List Nat} (hw : 2 ≤ w) (hn : 1 ≤ n)
    (ha : WF w n a) (hb : WF w n b) :
    WF w n (saturatingSubUnsigned w a b) ∧
    S w (saturatingSubUnsigned w a b) = Spec.clamp true (M w n) (S w a - U w b) := by
  have hw1 : 1 ≤ w := by omega
  have hra := S_repS hw1 hn ha
  have hm := M_even hw1 hn
  refine saturate_spec hw1 hn (overflowingSubUnsigned_spec hw hn ha hb) (WF_iMin hw1 hn) ?_ _
    (by unfold saturatingSubUnsigned checkedSubUnsigned; rw [ha.1]; rfl)
  intro hr
  rw [S_iMin hw1 hn, clampS_lo hm (by unfold repS at *; omega)]

theorem saturatingNeg_spec {w n : Nat} {a : List Nat} (hw : 2 ≤ w) (hn : 1 ≤ n)
    (ha : WF w n a) :
    WF w n (saturatingNeg w a) ∧
    S w (saturatingNeg w a) = Spec.clamp true (M w n) (- S w a) := by
  have hw1 : 1 ≤ w := by omega
  have hra := S_repS hw1 hn ha
  have hm := M_even hw1 hn
  refine saturate_spec hw1 hn (overflowingNeg_spec hw hn ha) (WF_iMax hw1 hn) ?_ _
    (by unfold saturatingNeg checkedNeg; rw [ha.1]; rfl)
  intro hr
  rw [S_iMax hw1 hn, clampS_hi hm (by unfold repS at *; omega)]

theorem saturatingAbs_spec {w n : Nat} {a : List Nat} (hw : 2 ≤ w) (hn : 1 ≤ n)
    (ha : WF w n a) :
    WF w n (saturatingAbs w a) ∧
    S w (saturatingAbs w a) = Spec.clamp true (M w n) ((S w a).natAbs : Int) := by
  have hw1 : 1 ≤ w := by omega
  have hra := S_repS hw1 hn ha
  have hm := M_even hw1 hn
  refine saturate_spec hw1 hn (overflowingAbs_spec hw hn ha) (WF_iMax hw1 hn) ?_ _
    (by unfold saturatingAbs checkedAbs; rw [ha.1]; rfl)
  intro hr
  rw [S_iMax hw1 hn, clampS_hi hm (by unfold repS at *; omega)]

/-- `BInt::wrapping_add` goes through the unsigned adder on the bit patterns -/
theorem wrappingAdd_spec {w n : Nat} {a b : List Nat} (ha : WF w n a) (hb : WF w n b) :
    WF w n (wrappingAdd w a b) ∧ S w (wrappingAdd w a b) = wrapS (M w n) (S w a + S w b) := by
  obtain ⟨h1, h2, _⟩ := UI.overflowingAdd_spec ha hb
  unfold wrappingAdd UI.wrappingAdd
  refine ⟨h1, ?_⟩
  obtain ⟨ka, hka⟩ := S_spec ha; obtain ⟨kb, hkb⟩ := S_spec hb
  obtain ⟨q, hq⟩ := wrapU_spec (M_pos w n) ((U w a : Int) + U w b)
  rw [← h2] at hq
  apply S_eq_wrapS h1 (k := q + ka + kb)
  rw [hka, hkb]; linear_combination hq

theorem wrappingSub_spec {w n : Nat} {a b : List Nat} (ha : WF w n a) (hb : WF w n b) :
    WF w n (wrappingSub w a b) ∧ S w (wrappingSub w a b) = wrapS (M w n) (S w a - S w b) := by
  obtain ⟨h1, h2, _⟩ := UI.overflowingSub_spec ha hb
  unfold wrappingSub UI.wrappingSub
  refine ⟨h1, ?_⟩
  obtain ⟨ka, hka⟩ := S_spec ha; obtain ⟨kb, hkb⟩ := S_spec hb
  obtain ⟨q, hq⟩ := wrapU_spec (M_pos w n) ((U w a : Int) - U w b)
  rw [← h2] at hq
  apply S_eq_wrapS h1 (k := q + ka - kb)
  rw [hka, hkb]; linear_combination hq

end II

/-! ### `BUint::checked_neg` as written in Rust (`is_zero` test) -/
theorem isZero_iff {w : Nat} (x : List Nat) : isZero x = true ↔ U w x = 0 := by
  induction x with
  | nil => simp [isZero]
  | cons d ds ih =>
    have hB := B_pos w
    unfold isZero
    by_cases hd : d = 0
    · subst hd
      simp only [bne_self_eq_false, Bool.false_eq_true, if_false, U_cons, Nat.zero_add, ih]
      constructor
      · intro h; rw [h]; rfl
      · intro h; rcases Nat.mul_eq_zero.1 h with h | h <;> omega
    · have : (d != 0) = true := by simpa using hd
      simp only [this, if_true, U_cons, Bool.false_eq_true, false_iff]
      omega

/-- the projection of `overflowing_neg` written with the `is_zero` test -/
theorem UI.tupleToOption_overflowingNeg {w n : Nat} {a : List Nat} (hw : 1 ≤ w) (hn : 1 ≤ n)
    (ha : WF w n a) :
    tupleToOption (UI.overflowingNeg w a) = if isZero a then some a else none := by
  have h := UI.overflowingNeg_spec hw hn ha
  have hc := h.checked
  by_cases hz : isZero a = true
  · rw [if_pos hz]
    have hu := (isZero_iff (w := w) a).1 hz
    have hr : repU (M w n) (-(U w a : Int)) := by
      unfold repU; have := M_pos w n; omega
    cases hres : tupleToOption (UI.overflowingNeg w a) with
    | none => exact absurd hr (hc.1.1 hres)
    | some r =>
      obtain ⟨h1, h2⟩ := hc.2 r hres
      rw [U_injective h1 ha (by omega)]
  · rw [if_neg hz]
    have hu : U w a ≠ 0 := fun h => hz ((isZero_iff (w := w) a).2 h)
    exact hc.1.2 (by unfold repU; omega)

/-- `BUint::checked_neg` is written `if self.is_zero() { Some(self) } else { None }` (and modelled
    so); it is nevertheless the projection of `overflowing_neg` -/
theorem UI.checkedNeg_eq_proj {w n : Nat} {a : List Nat} (hw : 1 ≤ w) (hn : 1 ≤ n)
    (ha : WF w n a) : UI.checkedNeg w a = tupleToOption (UI.overflowingNeg w a) := by
  rw [UI.tupleToOption_overflowingNeg hw hn ha]; rfl

/-- (kept for compatibility; true by definition since the model mirrors the Rust body) -/
theorem UI.checkedNeg_eq_isZero {w n : Nat} {a : List Nat} (_hw : 1 ≤ w) (_hn : 1 ≤ n)
    (_ha : WF w n a) : UI.checkedNeg w a = if isZero a then some a else none := rfl

theorem UI.checkedNeg_spec {w n : Nat} {a : List Nat} (hw : 1 ≤ w) (hn : 1 ≤ n) (ha : WF w n a) :
    (UI.checkedNeg w a = none ↔ ¬ repU (M w n) (-(U w a : Int))) ∧
    (∀ r, UI.checkedNeg w a = some r → WF w n r ∧ (U w r : Int) = -(U w a : Int)) := by
  rw [UI.checkedNeg_eq_proj hw hn ha]; exact (UI.overflowingNeg_spec hw hn ha).checked

theorem UI.strictNeg_spec {w n : Nat} {a : List Nat} (hw : 1 ≤ w) (hn : 1 ≤ n) (ha : WF w n a) :
    (UI.strictNeg w a = Outcome.panic ↔ ¬ repU (M w n) (-(U w a : Int))) ∧
    (∀ r, UI.strictNeg w a = Outcome.ok r → WF w n r ∧ (U w r : Int) = -(U w a : Int)) := by
  unfold UI.strictNeg
  rw [UI.checkedNeg_eq_proj hw hn ha]; exact (UI.overflowingNeg_spec hw hn ha).strict

/-! ### side of a signed add / sub overflow -/
namespace II
/-- when `self + rhs` is not representable it lies below MIN iff `self` is negative -/
theorem add_overflow_side {w n : Nat} {a b : List Nat} (hw : 1 ≤ w) (hn : 1 ≤ n)
    (ha : WF w n a) (hb : WF w n b) (hov : ¬ repS (M w n) (S w a + S w b)) :
    (isNegative w a = true → 2 * (S w a + S w b) < -(M w n : Int)) ∧
    (isNegative w a = false → (M w n : Int) ≤ 2 * (S w a + S w b)) := by
  have h1 := isNegative_iff' hw hn ha
  have h2 := isNegative_false_iff hw hn ha
  have hra := S_repS hw hn ha; have hrb := S_repS hw hn hb
  unfold repS at *
  exact ⟨fun h => by have := h1.1 h; omega, fun h => by have := h2.1 h; omega⟩

theorem sub_overflow_side {w n : Nat} {a b : List Nat} (hw : 1 ≤ w) (hn : 1 ≤ n)
    (ha : WF w n a) (hb : WF w n b) (hov : ¬ repS (M w n) (S w a - S w b)) :
    (isNegative w a = true → 2 * (S w a - S w b) < -(M w n : Int)) ∧
    (isNegative w a = false → (M w n : Int) ≤ 2 * (S w a - S w b)) := by
  have h1 := isNegative_iff' hw hn ha
  have h2 := isNegative_false_iff hw hn ha
  have hra := S_repS hw hn ha; have hrb := S_repS hw hn hb
  unfold repS at *
  exact ⟨fun h => by have := h1.1 h; omega, fun h => by have := h2.1 h; omega⟩
end II
end Bnum
